(* C08 — proofs.  Part 1: triples for the primitives; part 2: every operation computes its
   specification under every adversary; part 3: histories and schedules; part 4: the tie of
   the model's acquire/release code to the generated facts; part 5: wire. *)
From Coq Require Import List ZArith Bool Arith Lia.
From Coq.Strings Require Import Byte.
Import ListNotations.
From Zap Require Import Base.Wire Enc.Bytes Enc.Decimal Enc.Fields Enc.JsonEnc.
From Zap Require Import C08.Hygiene C08.Model C08.Safe.
Local Open Scope list_scope.
Local Open Scope nat_scope.

(* ------------------------------------------------------------------ *)
(* part 1: triples                                                    *)
(* ------------------------------------------------------------------ *)
Definition ids (s : store) : list id := map b_id s.
Definition mk (i : id) (bs : bytes) : bufobj := {| b_id := i; b_bs := bs; b_pool := true |}.

Definition msafe {A} (m : M A) (ow : list id) (s : store) (Q : list id -> A -> store -> Prop) : Prop :=
  safe (m s) ow (fun ow' r => Q ow' (fst r) (snd r)).

Lemma msafe_bind {A B} (m : M A) (f : A -> M B) ow s Q :
  msafe m ow s (fun ow' a s' => msafe (f a) ow' s' Q) -> msafe (mbind m f) ow s Q.
Proof.
  unfold msafe, mbind. intros H. eapply safe_bind; [exact H|]. intros ow' a Ha. exact Ha.
Qed.
Lemma msafe_ret {A} (a : A) ow s (Q : list id -> A -> store -> Prop) : Q ow a s -> msafe (ret a) ow s Q.
Proof. intros H. exact H. Qed.
Lemma msafe_weaken {A} (m : M A) ow s (Q1 Q2 : list id -> A -> store -> Prop) :
  msafe m ow s Q1 -> (forall ow' a s', Q1 ow' a s' -> Q2 ow' a s') -> msafe m ow s Q2.
Proof. unfold msafe. intros H HQ. eapply safe_weaken; [exact H|]. intros ow' r Hr. apply HQ. exact Hr. Qed.

Lemma find_buf_id i s b : find_buf i s = Some b -> b_id b = i.
Proof.
  induction s as [|x s IH]; cbn [find_buf]; [discriminate|].
  destruct (Nat.eqb (b_id x) i) eqn:E; [|exact IH].
  intros [= <-]. apply Nat.eqb_eq. exact E.
Qed.
Lemma find_buf_in i s b : find_buf i s = Some b -> In i (ids s).
Proof.
  induction s as [|x s IH]; cbn [find_buf ids map]; [discriminate|].
  destruct (Nat.eqb (b_id x) i) eqn:E.
  - intros _. left. apply Nat.eqb_eq. exact E.
  - intros H. right. apply IH. exact H.
Qed.

Lemma deref_ok i ow s (Q : list id -> id -> store -> Prop) : Q ow i s -> msafe (deref (Some i)) ow s Q.
Proof. intros H. exact H. Qed.
Lemma buf_read_ok i b ow s (Q : list id -> bytes -> store -> Prop) :
  find_buf i s = Some b -> Q ow (b_bs b) s -> msafe (buf_read i) ow s Q.
Proof. unfold msafe, buf_read. intros -> H. exact H. Qed.
Lemma buf_upd_ok i f b ow s (Q : list id -> unit -> store -> Prop) :
  find_buf i s = Some b -> Q ow tt (set_buf i (f (b_bs b)) s) -> msafe (buf_upd i f) ow s Q.
Proof. unfold msafe, buf_upd. intros -> H. exact H. Qed.
Lemma buf_get_ok ow s (Q : list id -> id -> store -> Prop) :
  (forall i, ~ In i ow -> Q (i :: ow) i (mk i [] :: s)) -> msafe buf_get ow s Q.
Proof.
  unfold msafe, buf_get. cbn [safe]. intros H b _ Hf. cbn [fst snd]. apply H. exact Hf.
Qed.
Lemma buf_free_ok i b ow s (Q : list id -> unit -> store -> Prop) :
  find_buf i s = Some b -> b_pool b = true -> In i ow ->
  Q (remove Nat.eq_dec i ow) tt (del_buf i s) -> msafe (buf_free i) ow s Q.
Proof.
  unfold msafe, buf_free. intros Hf Hp Hi H. rewrite Hf, Hp. cbn [safe].
  pose proof (find_buf_id _ _ _ Hf) as Hid.
  split; [exact I|]. unfold owns, own_del. cbn [buf_id]. rewrite Hid. split; [exact Hi|exact H].
Qed.
Lemma getp_ok (p : pid) ow s (Q : list id -> pty p -> store -> Prop) :
  buf_id p = (fun _ => None) ->
  (forall o, clean p o -> Q ow o s) -> msafe (getp p) ow s Q.
Proof.
  unfold msafe, getp. cbn [safe]. intros Hb H o Hc _. unfold own_add. rewrite Hb. cbn [fst snd]. apply H. exact Hc.
Qed.
Lemma putp_ok (p : pid) (o : pty p) ow s (Q : list id -> unit -> store -> Prop) :
  buf_id p = (fun _ => None) ->
  clean p o -> Q ow tt s -> msafe (putp p o) ow s Q.
Proof.
  unfold msafe, putp. cbn [safe]. intros Hb Hc H. unfold owns, own_del. rewrite Hb. split; [exact Hc|split;[exact I|exact H]].
Qed.

(* ------------------------------------------------------------------ *)
(* part 2: the encoder                                                *)
(* ------------------------------------------------------------------ *)
(* the operation owns the buffers of its store, each once *)
Definition sok (ow : list id) (s : store) : Prop := NoDup (ids s) /\ incl (ids s) ow.

(* where an encoder's buffers are: buf (i) on top of the untouched rest s0, with the
   reflection buffer above it once it has been allocated *)
Inductive jshape (j : jenc) (i : id) (bs : bytes) (s0 s : store) : Prop :=
| js_plain : j_rbuf j = None -> j_renc j = None -> s = mk i bs :: s0 -> jshape j i bs s0 s
| js_refl : forall r rb, j_rbuf j = Some r -> j_renc j = Some r -> r <> i ->
            s = mk r rb :: mk i bs :: s0 -> jshape j i bs s0 s.

Definition jstatic (j j' : jenc) : Prop :=
  j_cfg j' = j_cfg j /\ j_buf j' = j_buf j /\ j_spaced j' = j_spaced j.
Lemma jstatic_refl j : jstatic j j. Proof. repeat split. Qed.
Lemma jstatic_trans a b c : jstatic a b -> jstatic b c -> jstatic a c.
Proof. intros [H1 [H2 H3]] [H4 [H5 H6]]. repeat split; congruence. Qed.
Lemma jstatic_set_ns j n : jstatic j (set_ns j n). Proof. repeat split. Qed.

Lemma neq_eqb a b : a <> b -> Nat.eqb a b = false.
Proof. intros H. apply Nat.eqb_neq. exact H. Qed.

Lemma jshape_find j i bs s0 s : jshape j i bs s0 s -> find_buf i s = Some (mk i bs).
Proof.
  intros [Hb He ->|r rb Hb He Hn ->]; cbn [find_buf mk b_id].
  - rewrite Nat.eqb_refl. reflexivity.
  - rewrite (neq_eqb _ _ Hn), Nat.eqb_refl. reflexivity.
Qed.
Lemma jshape_set j i bs bs' s0 s : jshape j i bs s0 s -> jshape j i bs' s0 (set_buf i bs' s).
Proof.
  intros [Hb He ->|r rb Hb He Hn ->]; cbn [set_buf mk b_id b_pool].
  - rewrite Nat.eqb_refl. apply js_plain; auto.
  - rewrite (neq_eqb _ _ Hn), Nat.eqb_refl. eapply js_refl; eauto.
Qed.
Lemma ids_set_buf i x s : ids (set_buf i x s) = ids s.
Proof.
  induction s as [|b s IH]; [reflexivity|]. cbn [set_buf]. destruct (Nat.eqb (b_id b) i) eqn:E.
  - cbn [ids map b_id]. apply Nat.eqb_eq in E. rewrite E. reflexivity.
  - cbn [ids map]. f_equal. exact IH.
Qed.
Lemma sok_set ow i x s : sok ow s -> sok ow (set_buf i x s).
Proof. unfold sok. rewrite ids_set_buf. auto. Qed.
Lemma jshape_jstatic j j' i bs s0 s :
  j_rbuf j' = j_rbuf j -> j_renc j' = j_renc j -> jshape j i bs s0 s -> jshape j' i bs s0 s.
Proof.
  intros H1 H2 [Hb He ->|r rb Hb He Hn ->].
  - apply js_plain; congruence.
  - eapply js_refl; eauto; congruence.
Qed.

(* enc.buf.<append> *)
Lemma jbuf_ok j f i bs s0 s ow (Q : list id -> unit -> store -> Prop) :
  j_buf j = Some i -> jshape j i bs s0 s -> sok ow s ->
  (forall s', jshape j i (f bs) s0 s' -> sok ow s' -> Q ow tt s') ->
  msafe (jbuf j f) ow s Q.
Proof.
  intros Hb Hs Hok HQ. unfold jbuf. rewrite Hb. apply msafe_bind. apply deref_ok.
  eapply buf_upd_ok; [eapply jshape_find; exact Hs|]. cbn [b_bs mk].
  apply HQ; [eapply jshape_set; exact Hs | apply sok_set; exact Hok].
Qed.

Lemma add_string_ok j k v i bs s0 s ow (Q : list id -> unit -> store -> Prop) :
  j_buf j = Some i -> jshape j i bs s0 s -> sok ow s ->
  (forall s', jshape j i (p_add_string (j_spaced j) k v bs) s0 s' -> sok ow s' -> Q ow tt s') ->
  msafe (Model.add_string j k v) ow s Q.
Proof. intros Hb Hs Hok HQ. unfold Model.add_string. eapply jbuf_ok; eauto. Qed.

Lemma jshape_set_ns j n i bs s0 s : jshape j i bs s0 s -> jshape (set_ns j n) i bs s0 s.
Proof. apply jshape_jstatic; reflexivity. Qed.

Lemma close_ns_ok j i bs s0 s ow (Q : list id -> jenc -> store -> Prop) :
  j_buf j = Some i -> jshape j i bs s0 s -> sok ow s ->
  (forall s', jshape (set_ns j 0) i (fst (p_close (bs, j_ns j))) s0 s' -> sok ow s' -> Q ow (set_ns j 0) s') ->
  msafe (Model.close_ns j) ow s Q.
Proof.
  intros Hb Hs Hok HQ. unfold Model.close_ns. apply msafe_bind.
  eapply jbuf_ok; eauto. intros s' Hs' Hok'. apply msafe_ret.
  apply HQ; auto. apply jshape_set_ns. exact Hs'.
Qed.

Lemma obj_open_ok j i bs s0 s ow (Q : list id -> jenc -> store -> Prop) :
  j_buf j = Some i -> jshape j i bs s0 s -> sok ow s ->
  (forall s', jshape (set_ns j 0) i (fst (p_obj_open (j_spaced j) (bs, j_ns j))) s0 s' -> sok ow s' -> Q ow (set_ns j 0) s') ->
  msafe (obj_open j) ow s Q.
Proof.
  intros Hb Hs Hok HQ. unfold obj_open. apply msafe_bind.
  eapply jbuf_ok; eauto. intros s' Hs' Hok'. apply msafe_ret.
  apply HQ; auto. apply jshape_set_ns. exact Hs'.
Qed.

Lemma obj_close_ok old j i bs s0 s ow (Q : list id -> jenc -> store -> Prop) :
  j_buf j = Some i -> jshape j i bs s0 s -> sok ow s ->
  (forall s', jshape (set_ns j old) i (fst (p_obj_close old (bs, j_ns j))) s0 s' -> sok ow s' -> Q ow (set_ns (set_ns j 0) old) s') ->
  msafe (obj_close old j) ow s Q.
Proof.
  intros Hb Hs Hok HQ. unfold obj_close. apply msafe_bind.
  eapply jbuf_ok; eauto. intros s1 Hs1 Hok1.
  apply msafe_bind. eapply close_ns_ok; eauto.
  intros s2 Hs2 Hok2. apply msafe_ret.
  apply HQ; auto. eapply jshape_jstatic; [| |exact Hs2]; reflexivity.
Qed.

Lemma set_ns_id j a : set_ns (set_ns j a) (j_ns j) = j.
Proof. destruct j; reflexivity. Qed.
Lemma set_ns_id2 j a b : set_ns (set_ns (set_ns j a) b) (j_ns j) = j.
Proof. destruct j; reflexivity. Qed.

Lemma p_err_array_ns sp b es : forall s, snd (p_err_array sp b es s) = snd s.
Proof. induction es as [|e r IH]; intros s; cbn [p_err_array]; [reflexivity|]. rewrite IH. reflexivity. Qed.

Lemma err_array_core_ok es : forall j i bs s0 s ow (Q : list id -> jenc -> store -> Prop),
  j_buf j = Some i -> jshape j i bs s0 s -> sok ow s ->
  (forall s', jshape j i (fst (p_err_array (j_spaced j) true es (bs, j_ns j))) s0 s' -> sok ow s' -> Q ow j s') ->
  msafe (err_array_core j es) ow s Q.
Proof.
  induction es as [|e r IH]; intros j i bs s0 s ow Q Hb Hs Hok HQ; cbn [err_array_core].
  - apply msafe_ret. apply HQ; assumption.
  - apply msafe_bind. apply getp_ok; [reflexivity|]. intros el _.
    apply msafe_bind. eapply obj_open_ok; eauto. intros s1 Hs1 Hok1.
    apply msafe_bind. cbn [ee_err]. apply msafe_bind.
    eapply add_string_ok; [exact Hb|exact Hs1|exact Hok1|]. intros s2 Hs2 Hok2.
    apply msafe_ret. apply msafe_bind.
    eapply obj_close_ok; [exact Hb|exact Hs2|exact Hok2|]. intros s3 Hs3 Hok3.
    apply msafe_bind. apply putp_ok; [reflexivity|exact I|].
    rewrite set_ns_id2.
    eapply IH; [exact Hb| |exact Hok3|].
    + eapply jshape_jstatic; [| |exact Hs3]; reflexivity.
    + intros s' Hs' Hok'. apply HQ; [|exact Hok']. cbn [p_err_array]. exact Hs'.
Qed.

Lemma err_array_zap_ok es : forall j i bs s0 s ow (Q : list id -> jenc -> store -> Prop),
  j_buf j = Some i -> jshape j i bs s0 s -> sok ow s ->
  (forall s', jshape j i (fst (p_err_array (j_spaced j) true es (bs, j_ns j))) s0 s' -> sok ow s' -> Q ow j s') ->
  msafe (err_array_zap j es) ow s Q.
Proof.
  induction es as [|e r IH]; intros j i bs s0 s ow Q Hb Hs Hok HQ; cbn [err_array_zap].
  - apply msafe_ret. apply HQ; assumption.
  - apply msafe_bind. apply getp_ok; [reflexivity|]. intros el _.
    apply msafe_bind. eapply obj_open_ok; eauto. intros s1 Hs1 Hok1.
    apply msafe_bind. cbn [ee_err]. apply msafe_bind.
    eapply add_string_ok; [exact Hb|exact Hs1|exact Hok1|]. intros s2 Hs2 Hok2.
    apply msafe_ret. apply msafe_bind.
    eapply obj_close_ok; [exact Hb|exact Hs2|exact Hok2|]. intros s3 Hs3 Hok3.
    apply msafe_bind. apply putp_ok; [reflexivity|exact I|].
    rewrite set_ns_id2.
    eapply IH; [exact Hb| |exact Hok3|].
    + eapply jshape_jstatic; [| |exact Hs3]; reflexivity.
    + intros s' Hs' Hok'. apply HQ; [|exact Hok']. cbn [p_err_array]. exact Hs'.
Qed.

Lemma trim_nl_snoc txt : trim_nl (txt ++ [NL]) = txt.
Proof. unfold trim_nl. rewrite rev_app_distr. cbn [rev app]. cbn. apply rev_involutive. Qed.

Lemma sok_cons ow s r bs : sok ow s -> ~ In r ow -> sok (r :: ow) (mk r bs :: s).
Proof.
  intros [Hn Hi] Hr. split; cbn [ids map mk b_id].
  - constructor; [|exact Hn]. intros H. apply Hr. apply Hi. exact H.
  - intros x [<-|Hx]; [left; reflexivity|right; apply Hi; exact Hx].
Qed.
Lemma sok_weaken_cons ow s r : sok ow s -> sok (r :: ow) s.
Proof. intros [Hn Hi]. split; [exact Hn|]. intros x Hx. right. apply Hi. exact Hx. Qed.

Definition refl_res (r : rv) : sum bytes bytes :=
  match r with RNil => inl s_null | ROk txt => inl txt | RErr m => inr m end.

Lemma jshape_i_in j i bs s0 s : jshape j i bs s0 s -> In i (ids s).
Proof. intros H. eapply find_buf_in. eapply jshape_find. exact H. Qed.

Lemma sok_ids ow s s' : ids s = ids s' -> sok ow s -> sok ow s'.
Proof. unfold sok. intros ->. auto. Qed.

Ltac fb := cbn [find_buf mk b_id]; rewrite ?Nat.eqb_refl; reflexivity.

(* resetReflectBuf *)
Lemma reset_reflect_ok j i bs s0 s ow (Q : list id -> jenc -> store -> Prop) :
  jshape j i bs s0 s -> sok ow s ->
  (forall ow' j1 r1, jstatic j j1 -> j_ns j1 = j_ns j -> j_rbuf j1 = Some r1 -> j_renc j1 = Some r1 ->
                     r1 <> i -> sok ow' (mk r1 [] :: mk i bs :: s0) ->
                     Q ow' j1 (mk r1 [] :: mk i bs :: s0)) ->
  msafe (match j_rbuf j with
         | None => b <- buf_get ;; ret (set_refl j (Some b) (Some b))
         | Some b => buf_upd b (fun _ => []) ;;; ret j
         end) ow s Q.
Proof.
  intros Hs Hok HQ.
  destruct Hs as [Hrb Hre ->|r1 rb Hrb Hre Hne ->]; rewrite Hrb.
  - apply msafe_bind. apply buf_get_ok. intros r1 Hfresh. apply msafe_ret.
    assert (Hne : r1 <> i).
    { intros ->. apply Hfresh. apply (proj2 Hok). cbn [ids map mk b_id]. left. reflexivity. }
    apply HQ; try reflexivity; auto.
    + repeat split.
    + apply sok_cons; assumption.
  - apply msafe_bind. eapply buf_upd_ok; [fb|].
    cbn [set_buf mk b_id b_bs b_pool]. rewrite Nat.eqb_refl. apply msafe_ret.
    apply HQ; auto using jstatic_refl.
Qed.

Lemma encode_reflected_ok r j i bs s0 s ow (Q : list id -> jenc * sum bytes bytes -> store -> Prop) :
  j_buf j = Some i -> jshape j i bs s0 s -> sok ow s ->
  (forall ow' j1 s', jstatic j j1 -> j_ns j1 = j_ns j -> jshape j1 i bs s0 s' -> sok ow' s' ->
                     Q ow' (j1, refl_res r) s') ->
  msafe (encode_reflected j r) ow s Q.
Proof.
  intros Hb Hs Hok HQ.
  destruct r as [|txt|msg]; cbn [encode_reflected].
  - apply msafe_ret. cbn [refl_res]. apply HQ; auto using jstatic_refl.
  - apply msafe_bind. eapply reset_reflect_ok; [exact Hs|exact Hok|].
    intros ow1 j1 r1 Hst Hns Hrb Hre Hne Hok1.
    rewrite Hre, Hrb. apply msafe_bind. apply deref_ok.
    apply msafe_bind. eapply buf_upd_ok; [fb|].
    cbn [set_buf mk b_id b_bs b_pool]. rewrite Nat.eqb_refl.
    apply msafe_bind. apply deref_ok.
    apply msafe_bind. eapply buf_upd_ok; [fb|].
    cbn [set_buf mk b_id b_bs b_pool app]. rewrite Nat.eqb_refl, trim_nl_snoc.
    apply msafe_bind. eapply buf_read_ok; [fb|].
    cbn [b_bs]. apply msafe_ret. cbn [refl_res].
    apply HQ; auto.
    eapply js_refl; eauto; reflexivity.
  - apply msafe_bind. eapply reset_reflect_ok; [exact Hs|exact Hok|].
    intros ow1 j1 r1 Hst Hns Hrb Hre Hne Hok1.
    apply msafe_ret. cbn [refl_res]. apply HQ; auto. eapply js_refl; eauto; reflexivity.
Qed.

(* induction principle for the nested field type *)
Section pf_induction.
  Variable P : pf -> Prop.
  Hypothesis HStr : forall k v, P (PStr k v).
  Hypothesis HRaw : forall k v, P (PRaw k v).
  Hypothesis HNs : forall k, P (PNs k).
  Hypothesis HRefl : forall k r, P (PRefl k r).
  Hypothesis HErr : forall k b c, P (PErr k b c).
  Hypothesis HErrs : forall k es, P (PErrs k es).
  Hypothesis HObj : forall k calls r, Forall P calls -> P (PObj k calls r).
  Fixpoint pf_ind' (f : pf) : P f :=
    match f with
    | PStr k v => HStr k v
    | PRaw k v => HRaw k v
    | PNs k => HNs k
    | PRefl k r => HRefl k r
    | PErr k b c => HErr k b c
    | PErrs k es => HErrs k es
    | PObj k calls r =>
        HObj k calls r ((fix go (l : list pf) : Forall P l :=
                           match l with
                           | [] => Forall_nil P
                           | x :: t => Forall_cons x (pf_ind' x) (go t)
                           end) calls)
    end.
End pf_induction.

Definition field_spec (f : pf) : Prop :=
  forall j i bs s0 s ow (Q : list id -> jenc -> store -> Prop),
  j_buf j = Some i -> jshape j i bs s0 s -> sok ow s ->
  (forall ow' j1 s', jstatic j j1 -> j_ns j1 = snd (p_field (j_spaced j) f (bs, j_ns j)) ->
       jshape j1 i (fst (p_field (j_spaced j) f (bs, j_ns j))) s0 s' -> sok ow' s' -> Q ow' j1 s') ->
  msafe (add_field f j) ow s Q.

Lemma add_field_ok : forall f, field_spec f.
Proof.
  apply pf_ind'; unfold field_spec.
  - (* PStr *) intros k v j i bs s0 s ow Q Hb Hs Hok HQ. cbn [add_field p_field fst snd].
    apply msafe_bind. eapply add_string_ok; eauto. intros s' Hs' Hok'. apply msafe_ret.
    apply HQ; auto using jstatic_refl.
  - (* PRaw *) intros k v j i bs s0 s ow Q Hb Hs Hok HQ. cbn [add_field p_field fst snd].
    apply msafe_bind. eapply jbuf_ok; eauto. intros s' Hs' Hok'. apply msafe_ret.
    apply HQ; auto using jstatic_refl.
  - (* PNs *) intros k j i bs s0 s ow Q Hb Hs Hok HQ. cbn [add_field p_field fst snd].
    apply msafe_bind. eapply jbuf_ok; eauto. intros s' Hs' Hok'. apply msafe_ret.
    apply HQ; auto using jstatic_set_ns. apply jshape_set_ns. exact Hs'.
  - (* PRefl *) intros k r j i bs s0 s ow Q Hb Hs Hok HQ. cbn [add_field].
    apply msafe_bind. eapply encode_reflected_ok; eauto.
    intros ow1 j1 s1 Hst Hns Hs1 Hok1. cbn [fst snd].
    destruct Hst as [Hc [Hbuf Hsp]].
    assert (Hb1 : j_buf j1 = Some i) by congruence.
    destruct r as [|txt|msg]; cbn [refl_res p_field fst snd].
    + apply msafe_bind. eapply jbuf_ok; eauto. intros s' Hs' Hok'. apply msafe_ret.
      rewrite Hsp in Hs'. apply HQ; auto. repeat split; assumption.
    + apply msafe_bind. eapply jbuf_ok; eauto. intros s' Hs' Hok'. apply msafe_ret.
      rewrite Hsp in Hs'. apply HQ; auto. repeat split; assumption.
    + apply msafe_bind. eapply add_string_ok; eauto. intros s' Hs' Hok'. apply msafe_ret.
      rewrite Hsp in Hs'. apply HQ; auto. repeat split; assumption.
  - (* PErr *) intros k b c j i bs s0 s ow Q Hb Hs Hok HQ. cbn [add_field p_field fst snd].
    apply msafe_bind. eapply add_string_ok; eauto. intros s1 Hs1 Hok1.
    apply msafe_bind. unfold add_key_only. eapply jbuf_ok; eauto. intros s2 Hs2 Hok2.
    apply msafe_bind. unfold arr_open. eapply jbuf_ok; eauto. intros s3 Hs3 Hok3.
    apply msafe_bind. eapply err_array_core_ok; eauto. intros s4 Hs4 Hok4.
    apply msafe_bind. unfold arr_close. eapply jbuf_ok; eauto. intros s5 Hs5 Hok5.
    apply msafe_ret. apply HQ; auto using jstatic_refl.
    cbn [p_field fst snd]. rewrite p_err_array_ns. reflexivity.
  - (* PErrs *) intros k es j i bs s0 s ow Q Hb Hs Hok HQ. cbn [add_field p_field fst snd].
    apply msafe_bind. unfold add_key_only. eapply jbuf_ok; eauto. intros s2 Hs2 Hok2.
    apply msafe_bind. unfold arr_open. eapply jbuf_ok; eauto. intros s3 Hs3 Hok3.
    apply msafe_bind. eapply err_array_zap_ok; eauto. intros s4 Hs4 Hok4.
    apply msafe_bind. unfold arr_close. eapply jbuf_ok; eauto. intros s5 Hs5 Hok5.
    apply msafe_ret. apply HQ; auto using jstatic_refl.
    cbn [p_field fst snd]. rewrite p_err_array_ns. reflexivity.
  - (* PObj *) intros k calls r HF j i bs s0 s ow Q Hb Hs Hok HQ. cbn [add_field p_field fst snd].
    apply msafe_bind. unfold add_key_only. eapply jbuf_ok; eauto. intros s1 Hs1 Hok1.
    apply msafe_bind. eapply obj_open_ok; eauto. intros s2 Hs2 Hok2.
    apply msafe_bind.
    set (goM := fix go (l : list pf) (j0 : jenc) {struct l} : M jenc :=
                  match l with [] => ret j0 | g :: r0 => j' <- add_field g j0 ;; go r0 j' end).
    set (goP := fix go (l : list pf) (s6 : pstate) {struct l} : pstate :=
                  match l with [] => s6 | g :: r0 => go r0 (p_field (j_spaced j) g s6) end).
    assert (Hgo : forall l, Forall field_spec l ->
              forall j0 bs0 s0' ow0 (Q0 : list id -> jenc -> store -> Prop),
              j_buf j0 = Some i -> j_spaced j0 = j_spaced j -> jshape j0 i bs0 s0 s0' -> sok ow0 s0' ->
              (forall ow' j1 s', jstatic j0 j1 -> j_ns j1 = snd (goP l (bs0, j_ns j0)) ->
                  jshape j1 i (fst (goP l (bs0, j_ns j0))) s0 s' -> sok ow' s' -> Q0 ow' j1 s') ->
              msafe (goM l j0) ow0 s0' Q0).
    { induction l as [|g l IHl]; intros HFl j0 bs0 s0' ow0 Q0 Hb0 Hsp0 Hs0 Hok0 HQ0; cbn [goM goP].
      - apply msafe_ret. apply HQ0; auto using jstatic_refl.
      - inversion HFl as [|g' l' Hg Hl]; subst.
        apply msafe_bind. unfold field_spec in Hg. eapply Hg; eauto.
        intros ow1 j1 s1' Hst1 Hns1 Hs1' Hok1'.
        destruct Hst1 as [Hc1 [Hb1 Hsp1]].
        eapply IHl; eauto; try congruence.
        intros ow2 j2 s2' Hst2 Hns2 Hs2' Hok2'.
        rewrite Hsp0 in Hns1, Hs1'. rewrite Hns1 in Hns2, Hs2'. rewrite Hsp0 in Hns2, Hs2'.
        rewrite <- surjective_pairing in Hns2, Hs2'.
        apply HQ0; auto.
        eapply jstatic_trans; [|exact Hst2]. repeat split; assumption. }
    eapply Hgo; eauto; try reflexivity.
    intros ow3 j3 s3 Hst3 Hns3 Hs3 Hok3.
    destruct Hst3 as [Hc3 [Hb3 Hsp3]]. cbn [set_ns j_cfg j_buf j_spaced j_ns] in Hc3, Hb3, Hsp3, Hns3, Hs3.
    apply msafe_bind. eapply obj_close_ok; [rewrite Hb3; exact Hb|exact Hs3|exact Hok3|].
    intros s4 Hs4 Hok4.
    rewrite Hns3 in Hs4. rewrite <- surjective_pairing in Hs4.
    assert (Hs4' : jshape (set_ns (set_ns j3 0) (j_ns j)) i
                     (fst (p_obj_close (j_ns j) (goP calls (p_obj_open (j_spaced j) (add_key (j_spaced j) k bs, j_ns j))))) s0 s4).
    { eapply jshape_jstatic; [| |exact Hs4]; reflexivity. }
    clear Hs4.
    destruct r as [msg|].
    + apply msafe_bind. eapply add_string_ok; [| exact Hs4'|exact Hok4|].
      { cbn [set_ns j_buf]. congruence. }
      intros s5 Hs5 Hok5. apply msafe_ret. apply HQ; auto.
      * repeat split; cbn [set_ns j_cfg j_buf j_spaced]; congruence.
      * cbn [set_ns j_spaced] in Hs5. rewrite Hsp3 in Hs5. exact Hs5.
    + apply msafe_ret. apply HQ; auto.
      repeat split; cbn [set_ns j_cfg j_buf j_spaced]; congruence.
Qed.

Lemma add_fields_ok : forall fs j i bs s0 s ow (Q : list id -> jenc -> store -> Prop),
  j_buf j = Some i -> jshape j i bs s0 s -> sok ow s ->
  (forall ow' j1 s', jstatic j j1 -> j_ns j1 = snd (p_fields (j_spaced j) fs (bs, j_ns j)) ->
       jshape j1 i (fst (p_fields (j_spaced j) fs (bs, j_ns j))) s0 s' -> sok ow' s' -> Q ow' j1 s') ->
  msafe (add_fields fs j) ow s Q.
Proof.
  induction fs as [|f fs IH]; intros j i bs s0 s ow Q Hb Hs Hok HQ; cbn [add_fields p_fields].
  - apply msafe_ret. apply HQ; auto using jstatic_refl.
  - apply msafe_bind. eapply add_field_ok; eauto.
    intros ow1 j1 s1 Hst1 Hns1 Hs1 Hok1. destruct Hst1 as [Hc1 [Hb1 Hsp1]].
    eapply IH; eauto; try congruence.
    intros ow2 j2 s2 Hst2 Hns2 Hs2 Hok2.
    rewrite Hsp1, Hns1 in Hns2, Hs2. rewrite <- surjective_pairing in Hns2, Hs2.
    apply HQ; auto. eapply jstatic_trans; [|exact Hst2]. repeat split; assumption.
Qed.

Lemma sok_remove_head ow r rb s : sok ow (mk r rb :: s) -> sok (remove Nat.eq_dec r ow) s.
Proof.
  intros [Hn Hi]. cbn [ids map mk b_id] in Hn, Hi. inversion Hn as [|x l Hnin Hn']; subst.
  split; [exact Hn'|]. intros x Hx. apply in_in_remove.
  - intros ->. apply Hnin. exact Hx.
  - apply Hi. right. exact Hx.
Qed.
Lemma sok_head_in ow r rb s : sok ow (mk r rb :: s) -> In r ow.
Proof. intros [_ Hi]. apply Hi. left. reflexivity. Qed.

(* Buffer.Free of the buffer on top of the store *)
Lemma buf_free_head_ok r rb s ow (Q : list id -> unit -> store -> Prop) :
  sok ow (mk r rb :: s) ->
  (forall ow', sok ow' s -> Q ow' tt s) ->
  msafe (buf_free r) ow (mk r rb :: s) Q.
Proof.
  intros Hok HQ. eapply buf_free_ok; [fb|reflexivity|eapply sok_head_in; exact Hok|].
  cbn [del_buf mk b_id]. rewrite Nat.eqb_refl. apply HQ. eapply sok_remove_head. exact Hok.
Qed.

Lemma clone_ok e ow s (Q : list id -> jenc -> store -> Prop) :
  sok ow s ->
  (forall i j, j_cfg j = Some (e_cfg e) -> j_buf j = Some i -> j_spaced j = e_spaced e -> j_ns j = e_ns e ->
               jshape j i [] s (mk i [] :: s) -> sok (i :: ow) (mk i [] :: s) ->
               Q (i :: ow) j (mk i [] :: s)) ->
  msafe (clone e) ow s Q.
Proof.
  intros Hok HQ. unfold clone. apply msafe_bind. apply getp_ok; [reflexivity|].
  intros j [Hrb Hre]. apply msafe_bind. apply buf_get_ok. intros i Hfresh. apply msafe_ret.
  apply HQ; try reflexivity.
  - apply js_plain; auto.
  - apply sok_cons; assumption.
Qed.

Lemma Clone_ok e ow s (Q : list id -> jenc -> store -> Prop) :
  sok ow s ->
  (forall i j s', j_cfg j = Some (e_cfg e) -> j_buf j = Some i -> j_spaced j = e_spaced e -> j_ns j = e_ns e ->
               jshape j i (e_buf e) s s' -> sok (i :: ow) s' ->
               Q (i :: ow) j s') ->
  msafe (Clone e) ow s Q.
Proof.
  intros Hok HQ. unfold Clone. apply msafe_bind. apply clone_ok; [exact Hok|].
  intros i j Hc Hb Hsp Hns Hs Hok1. rewrite Hb. apply msafe_bind. apply deref_ok.
  apply msafe_bind. eapply buf_upd_ok; [eapply jshape_find; exact Hs|].
  cbn [b_bs mk app]. apply msafe_ret. apply HQ; auto.
  - eapply jshape_set. exact Hs.
  - apply sok_set. exact Hok1.
Qed.

Lemma putJSONEncoder_ok j i bs s0 s ow (Q : list id -> unit -> store -> Prop) :
  jshape j i bs s0 s -> sok ow s ->
  (forall ow', sok ow' (mk i bs :: s0) -> Q ow' tt (mk i bs :: s0)) ->
  msafe (putJSONEncoder j) ow s Q.
Proof.
  intros Hs Hok HQ. unfold putJSONEncoder.
  destruct Hs as [Hrb Hre ->|r rb Hrb Hre Hne ->]; rewrite Hrb.
  - apply msafe_bind. apply msafe_ret. apply putp_ok; [reflexivity|split; reflexivity|].
    apply HQ. exact Hok.
  - apply msafe_bind. apply buf_free_head_ok; [exact Hok|]. intros ow' Hok'.
    apply putp_ok; [reflexivity|split; reflexivity|]. apply HQ. exact Hok'.
Qed.

Lemma full_path_ok file line ow s (Q : list id -> bytes -> store -> Prop) :
  sok ow s ->
  (forall ow', sok ow' s -> Q ow' (p_path file line) s) ->
  msafe (full_path file line) ow s Q.
Proof.
  intros Hok HQ. unfold full_path. apply msafe_bind. apply buf_get_ok. intros b Hfresh.
  apply msafe_bind. eapply buf_upd_ok; [fb|].
  cbn [set_buf mk b_id b_bs b_pool app]. rewrite Nat.eqb_refl.
  apply msafe_bind. eapply buf_read_ok; [fb|]. cbn [b_bs].
  apply msafe_bind. apply (buf_free_head_ok b (file ++ [COLON] ++ print_Z line)).
  - apply sok_cons; assumption.
  - intros ow' Hok'. apply msafe_ret. apply HQ. exact Hok'.
Qed.

Lemma cond_add_string_ok (c : bool) j k v i bs s0 s ow (Q : list id -> unit -> store -> Prop) :
  j_buf j = Some i -> jshape j i bs s0 s -> sok ow s ->
  (forall s', jshape j i (if c then p_add_string (j_spaced j) k v bs else bs) s0 s' -> sok ow s' -> Q ow tt s') ->
  msafe (if c then Model.add_string j k v else ret tt) ow s Q.
Proof.
  intros Hb Hs Hok HQ. destruct c.
  - eapply add_string_ok; eauto.
  - apply msafe_ret. apply HQ; assumption.
Qed.

Lemma json_encode_entry_ok e ent fs ow s (Q : list id -> id -> store -> Prop) :
  sok ow s ->
  (forall ow' i, sok ow' (mk i (p_json_line e ent fs) :: s) -> Q ow' i (mk i (p_json_line e ent fs) :: s)) ->
  msafe (json_encode_entry e ent fs) ow s Q.
Proof.
  intros Hok HQ. unfold json_encode_entry.
  apply msafe_bind. apply clone_ok; [exact Hok|].
  intros i j Hc Hb Hsp Hns Hs0 Hok0.
  apply msafe_bind. eapply jbuf_ok; eauto. intros s1 Hs1 Hok1. cbn [app] in Hs1.
  unfold cfg_of. rewrite Hc. apply msafe_bind. apply msafe_ret.
  apply msafe_bind. eapply cond_add_string_ok; eauto. intros s2 Hs2 Hok2.
  apply msafe_bind. eapply cond_add_string_ok; eauto. intros s3 Hs3 Hok3.
  apply msafe_bind.
  assert (Hcaller : forall (Q' : list id -> unit -> store -> Prop) bs3, jshape j i bs3 s s3 ->
     (forall ow' s', jshape j i
          (match en_caller ent with
           | Some (file, line) => if negb (is_nil (c_caller (e_cfg e)))
                                  then p_add_string (j_spaced j) (c_caller (e_cfg e)) (p_path file line) bs3 else bs3
           | None => bs3 end) s s' -> sok ow' s' -> Q' ow' tt s') ->
     msafe (match en_caller ent with
            | Some (file, line) =>
                if negb (is_nil (c_caller (e_cfg e))) then
                  p <- full_path file line ;; Model.add_string j (c_caller (e_cfg e)) p
                else ret tt
            | None => ret tt
            end) (i :: ow) s3 Q').
  { intros Q' bs3 Hs3' HQ'. destruct (en_caller ent) as [[file line]|].
    - destruct (negb (is_nil (c_caller (e_cfg e)))).
      + apply msafe_bind. apply full_path_ok; [exact Hok3|]. intros ow' Hok'.
        eapply add_string_ok; eauto.
      + apply msafe_ret. apply HQ'; assumption.
    - apply msafe_ret. apply HQ'; assumption. }
  eapply Hcaller; [exact Hs3|]. intros ow4 s4 Hs4 Hok4.
  apply msafe_bind. eapply cond_add_string_ok; eauto. intros s5 Hs5 Hok5.
  apply msafe_bind.
  assert (Hctx : forall (Q' : list id -> unit -> store -> Prop) bs5, jshape j i bs5 s s5 ->
     (forall s', jshape j i (if negb (is_nil (e_buf e)) then add_sep (j_spaced j) bs5 ++ e_buf e else bs5) s s' ->
                 sok ow4 s' -> Q' ow4 tt s') ->
     msafe (if negb (is_nil (e_buf e)) then jbuf j (fun b => add_sep (j_spaced j) b ++ e_buf e) else ret tt) ow4 s5 Q').
  { intros Q' bs5 Hs5' HQ'. destruct (negb (is_nil (e_buf e))).
    - eapply jbuf_ok; eauto.
    - apply msafe_ret. apply HQ'; assumption. }
  eapply Hctx; [exact Hs5|]. intros s6 Hs6 Hok6.
  apply msafe_bind. eapply add_fields_ok; eauto.
  intros ow7 j7 s7 Hst7 Hns7 Hs7 Hok7. destruct Hst7 as [Hc7 [Hb7 Hsp7]].
  apply msafe_bind. eapply close_ns_ok; [rewrite Hb7; exact Hb|exact Hs7|exact Hok7|].
  intros s8 Hs8 Hok8. rewrite Hns7 in Hs8. rewrite <- surjective_pairing in Hs8.
  apply msafe_bind. eapply cond_add_string_ok; [cbn [set_ns j_buf]; rewrite Hb7; exact Hb|exact Hs8|exact Hok8|].
  intros s9 Hs9 Hok9.
  apply msafe_bind. eapply jbuf_ok; [cbn [set_ns j_buf]; rewrite Hb7; exact Hb|exact Hs9|exact Hok9|].
  intros s10 Hs10 Hok10.
  cbn [set_ns j_buf]. rewrite Hb7, Hb. apply msafe_bind. apply deref_ok.
  apply msafe_bind. eapply putJSONEncoder_ok; [exact Hs10|exact Hok10|].
  intros ow11 Hok11. apply msafe_ret.
  cbn [set_ns j_spaced] in *. rewrite Hsp7, Hsp, Hns in *.
  unfold p_json_line in HQ. apply HQ. exact Hok11.
Qed.

Definition ctx_line (e : enc) (fs : list pf) (lb : bytes) : bytes :=
  let ctx := fst (p_close (p_fields (e_spaced e) fs (e_buf e, e_ns e))) in
  if is_nil ctx then lb else p_sep (c_sep (e_cfg e)) lb ++ [LBRACE] ++ ctx ++ [RBRACE].

Lemma sok_remove_second ow a ab r rb s :
  sok ow (mk a ab :: mk r rb :: s) -> sok (remove Nat.eq_dec r ow) (mk a ab :: s).
Proof.
  intros [Hn Hi]. cbn [ids map mk b_id] in Hn, Hi.
  inversion Hn as [|x l Hnin Hn']; subst. inversion Hn' as [|x l Hnin' Hn'']; subst.
  split; cbn [ids map mk b_id].
  - constructor; [|exact Hn'']. intros H. apply Hnin. right. exact H.
  - intros x Hx. apply in_in_remove.
    + intros ->. destruct Hx as [<-|Hx]; [apply Hnin; left; reflexivity|apply Hnin'; exact Hx].
    + apply Hi. destruct Hx as [<-|Hx]; [left; reflexivity|right; right; exact Hx].
Qed.

Lemma write_context_ok e line lb fs ow s (Q : list id -> unit -> store -> Prop) :
  sok ow (mk line lb :: s) ->
  (forall ow', sok ow' (mk line (ctx_line e fs lb) :: s) -> Q ow' tt (mk line (ctx_line e fs lb) :: s)) ->
  msafe (write_context e line fs) ow (mk line lb :: s) Q.
Proof.
  intros Hok HQ. unfold write_context.
  apply msafe_bind. apply Clone_ok; [exact Hok|].
  intros cb j s1 Hc Hb Hsp Hns Hs1 Hok1.
  apply msafe_bind. eapply add_fields_ok; eauto.
  intros ow2 j2 s2 Hst2 Hns2 Hs2 Hok2. destruct Hst2 as [Hc2 [Hb2 Hsp2]].
  apply msafe_bind. eapply close_ns_ok; [rewrite Hb2; exact Hb|exact Hs2|exact Hok2|].
  intros s3 Hs3 Hok3. rewrite Hns2 in Hs3. rewrite <- surjective_pairing in Hs3.
  rewrite Hsp, Hns in Hs3.
  cbn [set_ns j_buf]. rewrite Hb2, Hb. apply msafe_bind. apply deref_ok.
  apply msafe_bind. eapply buf_read_ok; [eapply jshape_find; exact Hs3|]. cbn [b_bs mk].
  set (txt := fst (p_close (p_fields (e_spaced e) fs (e_buf e, e_ns e)))) in *.
  assert (HQ' : forall ow', sok ow' (mk line (if is_nil txt then lb else p_sep (c_sep (e_cfg e)) lb ++ [LBRACE] ++ txt ++ [RBRACE]) :: s) ->
                Q ow' tt (mk line (if is_nil txt then lb else p_sep (c_sep (e_cfg e)) lb ++ [LBRACE] ++ txt ++ [RBRACE]) :: s)).
  { exact HQ. }
  clear HQ.
  destruct Hs3 as [Hrb Hre ->|r rb Hrb Hre Hne ->].
  - (* no reflection buffer *)
    cbn [set_ns j_rbuf j_renc] in Hrb, Hre.
    assert (Hcl : cb <> line).
    { destruct Hok3 as [Hn _]. cbn [ids map mk b_id] in Hn. inversion Hn as [|x l Hnin _]; subst.
      intros ->. apply Hnin. left. reflexivity. }
    apply msafe_bind.
    assert (Hupd : forall (Q' : list id -> unit -> store -> Prop),
       Q' ow2 tt (mk cb txt :: mk line (if is_nil txt then lb else p_sep (c_sep (e_cfg e)) lb ++ [LBRACE] ++ txt ++ [RBRACE]) :: s) ->
       msafe (if is_nil txt then ret tt
              else buf_upd line (fun b => (if is_nil b then b else b ++ c_sep (e_cfg e)) ++ [LBRACE] ++ txt ++ [RBRACE]))
             ow2 (mk cb txt :: mk line lb :: s) Q').
    { intros Q' HQ2. destruct (is_nil txt).
      - apply msafe_ret. exact HQ2.
      - eapply buf_upd_ok; [cbn [find_buf mk b_id]; rewrite (neq_eqb _ _ Hcl), Nat.eqb_refl; reflexivity|].
        cbn [set_buf mk b_id b_bs b_pool]. rewrite (neq_eqb _ _ Hcl), Nat.eqb_refl. exact HQ2. }
    apply Hupd.
    apply msafe_bind. apply buf_free_head_ok.
    { eapply sok_ids; [|exact Hok3]. reflexivity. }
    intros ow4 Hok4. unfold putJSONEncoder. cbn [set_ns j_rbuf]. rewrite Hrb.
    apply msafe_bind. apply msafe_ret. apply putp_ok; [reflexivity|split; reflexivity|].
    apply HQ'. exact Hok4.
  - (* reflection buffer on top *)
    cbn [set_ns j_rbuf j_renc] in Hrb, Hre.
    assert (Hcl : cb <> line /\ r <> line).
    { destruct Hok3 as [Hn _]. cbn [ids map mk b_id] in Hn.
      inversion Hn as [|x l Hnin Hn']; subst. inversion Hn' as [|x l Hnin' _]; subst.
      split; intros ->; [apply Hnin'; left; reflexivity|apply Hnin; right; left; reflexivity]. }
    destruct Hcl as [Hcl Hrl].
    apply msafe_bind.
    assert (Hupd : forall (Q' : list id -> unit -> store -> Prop),
       Q' ow2 tt (mk r rb :: mk cb txt :: mk line (if is_nil txt then lb else p_sep (c_sep (e_cfg e)) lb ++ [LBRACE] ++ txt ++ [RBRACE]) :: s) ->
       msafe (if is_nil txt then ret tt
              else buf_upd line (fun b => (if is_nil b then b else b ++ c_sep (e_cfg e)) ++ [LBRACE] ++ txt ++ [RBRACE]))
             ow2 (mk r rb :: mk cb txt :: mk line lb :: s) Q').
    { intros Q' HQ2. destruct (is_nil txt).
      - apply msafe_ret. exact HQ2.
      - eapply buf_upd_ok; [cbn [find_buf mk b_id]; rewrite (neq_eqb _ _ Hcl), (neq_eqb _ _ Hrl), Nat.eqb_refl; reflexivity|].
        cbn [set_buf mk b_id b_bs b_pool]. rewrite (neq_eqb _ _ Hcl), (neq_eqb _ _ Hrl), Nat.eqb_refl. exact HQ2. }
    apply Hupd.
    assert (Hok3' : sok ow2 (mk r rb :: mk cb txt :: mk line (if is_nil txt then lb else p_sep (c_sep (e_cfg e)) lb ++ [LBRACE] ++ txt ++ [RBRACE]) :: s)).
    { eapply sok_ids; [|exact Hok3]. reflexivity. }
    apply msafe_bind. eapply buf_free_ok.
    { cbn [find_buf mk b_id]. rewrite (neq_eqb _ _ Hne), Nat.eqb_refl. reflexivity. }
    { reflexivity. }
    { apply (proj2 Hok3'). cbn [ids map mk b_id]. right. left. reflexivity. }
    cbn [del_buf mk b_id]. rewrite (neq_eqb _ _ Hne), Nat.eqb_refl.
    unfold putJSONEncoder. cbn [set_ns j_rbuf]. rewrite Hrb.
    apply msafe_bind. apply buf_free_head_ok.
    { eapply sok_remove_second. exact Hok3'. }
    intros ow5 Hok5. apply putp_ok; [reflexivity|split; reflexivity|].
    apply HQ'. exact Hok5.
Qed.

Lemma line_upd_ok line lb f ow s (Q : list id -> unit -> store -> Prop) :
  Q ow tt (mk line (f lb) :: s) -> msafe (buf_upd line f) ow (mk line lb :: s) Q.
Proof.
  intros HQ. eapply buf_upd_ok; [fb|]. cbn [set_buf mk b_id b_bs b_pool]. rewrite Nat.eqb_refl. exact HQ.
Qed.

Lemma console_encode_entry_ok e ent fs ow s (Q : list id -> id -> store -> Prop) :
  sok ow s ->
  (forall ow' i, sok ow' (mk i (p_console_line e ent fs) :: s) -> Q ow' i (mk i (p_console_line e ent fs) :: s)) ->
  msafe (console_encode_entry e ent fs) ow s Q.
Proof.
  intros Hok HQ. unfold console_encode_entry.
  apply msafe_bind. apply buf_get_ok. intros line Hfresh.
  assert (Hok1 : sok (line :: ow) (mk line [] :: s)) by (apply sok_cons; assumption).
  apply msafe_bind. apply getp_ok; [reflexivity|]. intros arr Harr. cbn [clean] in Harr. rewrite Harr. cbn [app].
  set (el2 := if negb (is_nil (en_name ent)) && negb (is_nil (c_name (e_cfg e)))
              then (if negb (is_nil (c_lvl (e_cfg e))) then [en_lvl ent] else []) ++ [en_name ent]
              else (if negb (is_nil (c_lvl (e_cfg e))) then [en_lvl ent] else [])).
  set (el3 := match en_caller ent with
              | Some (file, line_no) => if negb (is_nil (c_caller (e_cfg e))) then el2 ++ [p_path file line_no] else el2
              | None => el2 end).
  apply msafe_bind.
  assert (Hcaller : forall (Q' : list id -> list bytes -> store -> Prop),
     (forall ow', sok ow' (mk line [] :: s) -> Q' ow' el3 (mk line [] :: s)) ->
     msafe (match en_caller ent with
            | Some (file, line_no) =>
                if negb (is_nil (c_caller (e_cfg e))) then p <- full_path file line_no ;; ret (el2 ++ [p]) else ret el2
            | None => ret el2
            end) (line :: ow) (mk line [] :: s) Q').
  { intros Q' HQ'. unfold el3. destruct (en_caller ent) as [[file line_no]|].
    - destruct (negb (is_nil (c_caller (e_cfg e)))).
      + apply msafe_bind. apply full_path_ok; [exact Hok1|]. intros ow' Hok'. apply msafe_ret. apply HQ'. exact Hok'.
      + apply msafe_ret. apply HQ'. exact Hok1.
    - apply msafe_ret. apply HQ'. exact Hok1. }
  apply Hcaller. intros ow2 Hok2.
  apply msafe_bind. apply line_upd_ok. cbn [app].
  apply msafe_bind. apply putp_ok; [reflexivity|reflexivity|].
  apply msafe_bind.
  set (l1 := join_cols (c_sep (e_cfg e)) true el3).
  set (l2 := if negb (is_nil (c_msg (e_cfg e))) then p_sep (c_sep (e_cfg e)) l1 ++ en_msg ent else l1).
  assert (Hmsg : forall (Q' : list id -> unit -> store -> Prop),
     Q' ow2 tt (mk line l2 :: s) ->
     msafe (if negb (is_nil (c_msg (e_cfg e)))
            then buf_upd line (fun b => (if is_nil b then b else b ++ c_sep (e_cfg e)) ++ en_msg ent) else ret tt)
           ow2 (mk line l1 :: s) Q').
  { intros Q' HQ'. unfold l2 in HQ'. destruct (negb (is_nil (c_msg (e_cfg e)))).
    - apply line_upd_ok. exact HQ'.
    - apply msafe_ret. exact HQ'. }
  apply Hmsg.
  apply msafe_bind. apply write_context_ok.
  { eapply sok_ids; [|exact Hok2]. reflexivity. }
  intros ow3 Hok3.
  apply msafe_bind.
  set (l3 := ctx_line e fs l2) in *.
  set (l4 := if negb (is_nil (en_stack ent)) && negb (is_nil (c_stack (e_cfg e))) then l3 ++ [NL] ++ en_stack ent else l3).
  assert (Hstack : forall (Q' : list id -> unit -> store -> Prop),
     Q' ow3 tt (mk line l4 :: s) ->
     msafe (if negb (is_nil (en_stack ent)) && negb (is_nil (c_stack (e_cfg e)))
            then buf_upd line (fun b => b ++ [NL] ++ en_stack ent) else ret tt)
           ow3 (mk line l3 :: s) Q').
  { intros Q' HQ'. unfold l4 in HQ'. destruct (negb (is_nil (en_stack ent)) && negb (is_nil (c_stack (e_cfg e)))).
    - apply line_upd_ok. exact HQ'.
    - apply msafe_ret. exact HQ'. }
  apply Hstack.
  apply msafe_bind. apply line_upd_ok. apply msafe_ret.
  apply HQ. eapply sok_ids; [|exact Hok3]. reflexivity.
Qed.

Lemma core_write_ok co ent fs ow s (Q : list id -> bytes -> store -> Prop) :
  sok ow s ->
  (forall ow', sok ow' s -> Q ow' (p_core_line co ent fs) s) ->
  msafe (core_write co ent fs) ow s Q.
Proof.
  intros Hok HQ. unfold core_write, p_core_line in *. apply msafe_bind.
  destruct (co_console co).
  - apply console_encode_entry_ok; [exact Hok|]. intros ow1 i Hok1.
    apply msafe_bind. eapply buf_read_ok; [fb|]. cbn [b_bs mk].
    apply msafe_bind. apply buf_free_head_ok; [exact Hok1|]. intros ow2 Hok2.
    apply msafe_ret. apply HQ. exact Hok2.
  - apply json_encode_entry_ok; [exact Hok|]. intros ow1 i Hok1.
    apply msafe_bind. eapply buf_read_ok; [fb|]. cbn [b_bs mk].
    apply msafe_bind. apply buf_free_head_ok; [exact Hok1|]. intros ow2 Hok2.
    apply msafe_ret. apply HQ. exact Hok2.
Qed.

Lemma core_with_ok e fs ow s (Q : list id -> enc -> store -> Prop) :
  sok ow s ->
  (forall ow' s', sok ow' s' -> Q ow' (p_with e fs) s') ->
  msafe (core_with e fs) ow s Q.
Proof.
  intros Hok HQ. unfold core_with.
  apply msafe_bind. apply Clone_ok; [exact Hok|].
  intros i j s1 Hc Hb Hsp Hns Hs1 Hok1.
  apply msafe_bind. eapply add_fields_ok; eauto.
  intros ow2 j2 s2 Hst2 Hns2 Hs2 Hok2. destruct Hst2 as [Hc2 [Hb2 Hsp2]].
  rewrite Hb2, Hb. apply msafe_bind. apply deref_ok.
  apply msafe_bind. eapply buf_read_ok; [eapply jshape_find; exact Hs2|]. cbn [b_bs mk].
  unfold cfg_of. rewrite Hc2, Hc. apply msafe_bind. apply msafe_ret. apply msafe_ret.
  rewrite Hsp2, Hns2, Hsp, Hns. apply HQ. exact Hok2.
Qed.

(* ---- stack capture ---- *)
Lemma callers_spec cs buf :
  let n := Nat.min (length cs) (length buf) in
  fst (callers cs buf) = n /\ length (snd (callers cs buf)) = length buf /\
  firstn n (snd (callers cs buf)) = firstn n cs.
Proof.
  cbn zeta. unfold callers. cbn [fst snd]. split; [reflexivity|]. split.
  - rewrite app_length, firstn_length, skipn_length. lia.
  - rewrite firstn_app, firstn_length.
    replace (Nat.min (length cs) (length buf) - Nat.min (Nat.min (length cs) (length buf)) (length cs)) with 0 by lia.
    cbn [firstn]. rewrite app_nil_r. rewrite firstn_firstn. f_equal. lia.
Qed.

Lemma grow_ok : forall fuel cs pcs n,
  1 <= length pcs -> n = Nat.min (length cs) (length pcs) -> firstn n pcs = firstn n cs ->
  length cs + 1 <= fuel + length pcs ->
  exists pcs', grow fuel cs pcs n = Some (pcs', length cs) /\ firstn (length cs) pcs' = cs /\ 1 <= length pcs'.
Proof.
  induction fuel as [|f IH]; intros cs pcs n Hl Hn Hf Hfuel.
  - cbn [grow]. assert (Hlt : length cs < length pcs) by lia.
    destruct (Nat.eqb n (length pcs)) eqn:E; [apply Nat.eqb_eq in E; lia|].
    assert (n = length cs) by lia. subst n. exists pcs. split; [rewrite H; reflexivity|]. split; [|exact Hl].
    rewrite H in Hf. rewrite Hf. apply firstn_all.
  - cbn [grow]. destruct (Nat.eqb n (length pcs)) eqn:E.
    + apply Nat.eqb_eq in E.
      pose proof (callers_spec cs (repeat 0 (length pcs * 2))) as Hc. cbn zeta in Hc.
      destruct (callers cs (repeat 0 (length pcs * 2))) as [n' filled] eqn:Ec. cbn [fst snd] in Hc.
      destruct Hc as [Hn' [Hlen Hfirst]]. rewrite repeat_length in *.
      apply IH.
      * lia.
      * rewrite Hlen. exact Hn'.
      * rewrite Hn'. exact Hfirst.
      * lia.
    + apply Nat.eqb_neq in E. assert (n = length cs) by lia.
      exists pcs. split; [rewrite H; reflexivity|]. split; [|exact Hl].
      rewrite H in Hf. rewrite Hf. apply firstn_all.
Qed.

Lemma capture_into_ok cs full st :
  1 <= length (k_storage st) ->
  exists st', capture_into cs full st = Some st' /\
              k_pcs st' = (if full then cs else firstn 1 cs) /\
              k_frames st' = Some (if full then cs else firstn 1 cs) /\ 1 <= length (k_storage st').
Proof.
  intros Hl. unfold capture_into. destruct full.
  - pose proof (callers_spec cs (k_storage st)) as Hc. cbn zeta in Hc.
    destruct (callers cs (k_storage st)) as [n filled] eqn:Ec. cbn [fst snd] in Hc.
    destruct Hc as [Hn [Hlen Hfirst]].
    assert (A1 : n = Nat.min (length cs) (length filled)) by (rewrite Hlen; exact Hn).
    assert (A2 : firstn n filled = firstn n cs) by (rewrite Hn; exact Hfirst).
    destruct (grow_ok (S (length cs)) cs filled n) as [pcs' [Hg [Hcs Hl']]]; [lia|exact A1|exact A2|lia|].
    rewrite Hg. eexists. split; [reflexivity|]. cbn [k_pcs k_frames k_storage]. rewrite Hcs.
    split; [reflexivity|]. split; [reflexivity|exact Hl'].
  - pose proof (callers_spec cs (firstn 1 (k_storage st))) as Hc. cbn zeta in Hc.
    destruct (callers cs (firstn 1 (k_storage st))) as [n filled] eqn:Ec. cbn [fst snd] in Hc.
    destruct Hc as [Hn [Hlen Hfirst]].
    assert (H1 : length (firstn 1 (k_storage st)) = 1) by (rewrite firstn_length; lia).
    rewrite H1 in *.
    assert (Hpcs : firstn n filled = firstn 1 cs).
    { rewrite Hn, Hfirst.
      destruct cs as [|c cs']; [reflexivity|]. cbn [length]. replace (Nat.min (S (length cs')) 1) with 1 by lia. reflexivity. }
    eexists. split; [reflexivity|]. cbn [k_pcs k_frames k_storage]. rewrite Hpcs.
    split; [reflexivity|]. split; [reflexivity|]. rewrite app_length. lia.
Qed.

Lemma capture_ok (cs : list pc) (full : bool) (ow : list id) (s : store) (Q : list id -> stack -> store -> Prop) :
  (forall st', k_frames st' = Some (if full then cs else firstn 1 cs) -> 1 <= length (k_storage st') -> Q ow st' s) ->
  msafe (capture cs full) ow s Q.
Proof.
  intros HQ. unfold capture. apply msafe_bind. apply getp_ok; [reflexivity|]. intros st Hst. cbn [clean] in Hst.
  destruct (capture_into_ok cs full st Hst) as [st' [-> [_ [Hfr Hl]]]]. apply msafe_ret. apply HQ; assumption.
Qed.

Lemma stack_free_ok st ow s (Q : list id -> unit -> store -> Prop) :
  1 <= length (k_storage st) -> Q ow tt s -> msafe (stack_free st) ow s Q.
Proof. intros Hl HQ. unfold stack_free. apply putp_ok; [reflexivity|exact Hl|exact HQ]. Qed.

Lemma take_stack_ok cs ow s (Q : list id -> bytes -> store -> Prop) :
  sok ow s ->
  (forall ow', sok ow' s -> Q ow' (p_take cs) s) ->
  msafe (take_stack cs) ow s Q.
Proof.
  intros Hok HQ. unfold take_stack.
  apply msafe_bind. apply capture_ok. intros st Hfr Hl.
  apply msafe_bind. apply buf_get_ok. intros b Hfresh. rewrite Hfr.
  apply msafe_bind. apply line_upd_ok. cbn [app].
  apply msafe_bind. eapply buf_read_ok; [fb|]. cbn [b_bs mk].
  apply msafe_bind. apply buf_free_head_ok; [apply sok_cons; assumption|]. intros ow1 Hok1.
  apply msafe_bind. apply stack_free_ok; [exact Hl|]. apply msafe_ret. apply HQ. exact Hok1.
Qed.

(* ---- CheckedEntry and Logger.check ---- *)
Lemma write_cores_ok cores : forall n ent fs ow s (Q : list id -> list event * bool -> store -> Prop),
  sok ow s ->
  (forall ow', sok ow' s -> Q ow' (p_write_cores n cores ent fs) s) ->
  msafe (write_cores n cores ent fs) ow s Q.
Proof.
  induction cores as [|co r IH]; intros n ent fs ow s Q Hok HQ; cbn [write_cores p_write_cores].
  - apply msafe_ret. apply HQ. exact Hok.
  - apply msafe_bind. apply core_write_ok; [exact Hok|]. intros ow1 Hok1.
    apply msafe_bind. apply IH; [exact Hok1|]. intros ow2 Hok2.
    apply msafe_ret. apply HQ. exact Hok2.
Qed.

Definition p_ce_events_with (pn : list ncall -> list event) (ce : centry) (fs : list pf) : list event :=
  let r := p_write_cores 0 (ce_cores ce) (ce_ent ce) fs in
  fst r ++ (if snd r && ce_errout ce then [ErrOut] else []) ++
  (match ce_after ce with Some h => pn (hk_nested h) ++ [Hook (hk_id h) (ce_ent ce)] | None => [] end).

(* the logging a hook does before it looks at its entry: any program that, run on what the operation
   owns, produces its specification and leaves the owned buffers as they were *)
Definition run_ok (run : list ncall -> M (list event)) (pn : list ncall -> list event) : Prop :=
  forall l ow s (Q : list id -> list event -> store -> Prop),
    sok ow s -> (forall ow', sok ow' s -> Q ow' (pn l) s) -> msafe (run l) ow s Q.

Lemma run_ok_none : run_ok (fun _ => ret []) (fun _ => []).
Proof. intros l ow s Q Hok HQ. apply msafe_ret. apply HQ. exact Hok. Qed.

Lemma ce_write_with_ok run pn ce fs ow s (Q : list id -> list event -> store -> Prop) :
  run_ok run pn ->
  ce_dirty ce = false -> sok ow s ->
  (forall ow', sok ow' s -> Q ow' (p_ce_events_with pn ce fs) s) ->
  msafe (ce_write_with run ce fs) ow s Q.
Proof.
  intros Hrun Hd Hok HQ. unfold ce_write_with. rewrite Hd.
  apply msafe_bind. apply write_cores_ok; [exact Hok|]. intros ow1 Hok1.
  apply msafe_bind.
  destruct (ce_after ce) as [h|] eqn:Hafter.
  - apply msafe_bind. apply Hrun; [exact Hok1|]. intros ow2 Hok2. apply msafe_ret.
    apply msafe_bind. apply putp_ok; [reflexivity|exact I|]. apply msafe_ret.
    unfold p_ce_events_with in HQ. rewrite Hafter in HQ. apply HQ. exact Hok2.
  - apply msafe_ret.
    apply msafe_bind. apply putp_ok; [reflexivity|exact I|]. apply msafe_ret.
    unfold p_ce_events_with in HQ. rewrite Hafter in HQ. apply HQ. exact Hok1.
Qed.

Definition p_check_with (pn : list ncall -> list event) (cores : list core) (hook : option hookd) (ent : entry) (fs : list pf) : list event :=
  fst (p_write_cores 0 cores ent fs) ++
  (match hook with Some h => pn (hk_nested h) ++ [Hook (hk_id h) ent] | None => [] end).

(* Core.Check(ent, nil) [+ After] + Write without a Logger: reset() on Get is all that stands between
   the last user's ErrorOutput / hook / cores / dirty flag and this entry *)
Lemma check_call_with_ok run pn cores hook ent fs ow s (Q : list id -> list event -> store -> Prop) :
  run_ok run pn ->
  sok ow s ->
  (forall ow', sok ow' s -> Q ow' (p_check_with pn cores hook ent fs) s) ->
  msafe (check_call_with run cores hook ent fs) ow s Q.
Proof.
  intros Hrun Hok HQ. unfold check_call_with.
  assert (Hmain : msafe
    (ce0 <- get_checked_entry ;;
     ce_write_with run {| ce_ent := ent; ce_errout := ce_errout ce0; ce_dirty := ce_dirty ce0;
                 ce_after := (match hook with Some h => Some h | None => ce_after ce0 end);
                 ce_cores := ce_cores ce0 ++ cores |} fs) ow s Q).
  { apply msafe_bind. unfold get_checked_entry. apply msafe_bind. apply getp_ok; [reflexivity|]. intros ce _.
    apply msafe_ret. cbn [ce_reset ce_errout ce_dirty ce_cores ce_after app].
    apply (ce_write_with_ok run pn); [exact Hrun|reflexivity|exact Hok|]. intros ow1 Hok1.
    unfold p_ce_events_with. cbn [ce_cores ce_ent ce_errout ce_after].
    rewrite andb_false_r. cbn [app].
    specialize (HQ ow1 Hok1). unfold p_check_with in HQ. destruct hook; exact HQ. }
  destruct cores as [|co cores'].
  - destruct hook as [h|].
    + exact Hmain.
    + apply msafe_ret. apply HQ. exact Hok.
  - exact Hmain.
Qed.

(* the hook's own log calls take CheckedEntries (and encoders, buffers ...) from the same pools while
   the outer entry is in use: each produces its own lines *)
Lemma run_nested_ok : forall l call ow s (Q : list id -> list event -> store -> Prop),
  sok ow s -> (forall ow', sok ow' s -> Q ow' (p_nested call l) s) -> msafe (run_nested call l) ow s Q.
Proof.
  induction l as [|[[cores ent] fs] r IH]; intros call ow s Q Hok HQ; cbn [run_nested p_nested].
  - apply msafe_ret. apply HQ. exact Hok.
  - apply msafe_bind. apply (check_call_with_ok _ _ cores None ent fs ow s _ run_ok_none Hok). intros ow1 Hok1.
    apply msafe_bind. apply IH; [exact Hok1|]. intros ow2 Hok2.
    apply msafe_ret. unfold p_check_with. rewrite app_nil_r. apply HQ. exact Hok2.
Qed.

Lemma run_nested_run_ok : run_ok (run_nested 0) (p_nested 0).
Proof. intros l ow s Q Hok HQ. apply run_nested_ok; assumption. Qed.

Definition p_ce_events : centry -> list pf -> list event := p_ce_events_with (p_nested 0).

Lemma ce_write_ok ce fs ow s (Q : list id -> list event -> store -> Prop) :
  ce_dirty ce = false -> sok ow s ->
  (forall ow', sok ow' s -> Q ow' (p_ce_events ce fs) s) ->
  msafe (ce_write ce fs) ow s Q.
Proof. intros Hd Hok HQ. apply (ce_write_with_ok _ _ ce fs ow s Q run_nested_run_ok Hd Hok HQ). Qed.

Lemma log_call_ok lg ent cs fs ow s (Q : list id -> list event -> store -> Prop) :
  sok ow s ->
  (forall ow', sok ow' s -> Q ow' (p_log lg ent cs fs) s) ->
  msafe (log_call lg ent cs fs) ow s Q.
Proof.
  intros Hok HQ. unfold log_call, p_log in *.
  destruct (l_cores lg) as [|co cores] eqn:Hcores.
  - destruct (l_hook lg) as [h|] eqn:Hhook.
    + apply msafe_bind. unfold get_checked_entry. apply msafe_bind. apply getp_ok; [reflexivity|]. intros ce _.
      apply msafe_ret. cbn [ce_reset ce_errout ce_dirty ce_cores app].
      apply ce_write_ok; [reflexivity|exact Hok|]. intros ow1 Hok1.
      unfold p_ce_events, p_ce_events_with. cbn [ce_cores ce_ent ce_errout ce_after p_write_cores fst snd andb app].
      unfold p_log_entry, p_hook in HQ. rewrite Hcores in HQ. cbn [p_write_cores fst snd andb app] in HQ.
      apply HQ. exact Hok1.
    + apply msafe_ret. apply HQ. exact Hok.
  - assert (HQ' : forall ow' e', sok ow' s -> e' = p_log_entry lg ent cs ->
              Q ow' (p_ce_events {| ce_ent := e'; ce_errout := l_errout lg; ce_dirty := false;
                                    ce_after := l_hook lg; ce_cores := co :: cores |} fs) s).
    { intros ow' e' Hok' ->. unfold p_ce_events, p_ce_events_with. cbn [ce_cores ce_ent ce_errout ce_after].
      specialize (HQ ow' Hok'). unfold p_hook in HQ. destruct (l_hook lg); exact HQ. }
    clear HQ.
    assert (Hmain : msafe
      (ce0 <- get_checked_entry ;;
       let ce1 := {| ce_ent := ent; ce_errout := ce_errout ce0; ce_dirty := ce_dirty ce0;
                     ce_after := l_hook lg; ce_cores := ce_cores ce0 ++ co :: cores |} in
       let ce2 := {| ce_ent := ce_ent ce1; ce_errout := l_errout lg; ce_dirty := ce_dirty ce1;
                     ce_after := ce_after ce1; ce_cores := ce_cores ce1 |} in
       if negb (l_caller lg) && negb (l_stack lg) then ce_write ce2 fs
       else
         st <- capture cs (l_stack lg) ;;
         match k_frames st with
         | None => mfail NilDeref
         | Some fr =>
             match fr with
             | [] => stack_free st ;;; ce_write ce2 fs
             | frame :: more =>
                 let e1 := ce_ent ce2 in
                 let e2 := if l_caller lg
                           then {| en_lvl := en_lvl e1; en_name := en_name e1; en_msg := en_msg e1; en_stack := en_stack e1;
                                   en_caller := Some (print_Z (Z.of_nat frame), Z.of_nat frame) |}
                           else e1 in
                 e3 <- (if l_stack lg then
                          b <- buf_get ;;
                          buf_upd b (fun bs => bs ++ fmt_frame false frame ++
                                               (if is_nil more then [] else fmt_stack true more)) ;;;
                          s <- buf_read b ;;
                          buf_free b ;;;
                          ret {| en_lvl := en_lvl e2; en_name := en_name e2; en_msg := en_msg e2; en_stack := s;
                                 en_caller := en_caller e2 |}
                        else ret e2) ;;
                 stack_free st ;;;
                 ce_write (set_ent ce2 e3) fs
             end
         end) ow s Q).
    { apply msafe_bind. unfold get_checked_entry. apply msafe_bind. apply getp_ok; [reflexivity|]. intros ce _.
      apply msafe_ret. cbn [ce_reset ce_errout ce_dirty ce_cores ce_ent ce_after app].
      unfold p_log_entry in HQ'. rewrite Hcores in HQ'.
      destruct (negb (l_caller lg) && negb (l_stack lg)) eqn:Hcs.
      - apply ce_write_ok; [reflexivity|exact Hok|]. intros ow1 Hok1. apply HQ'; [exact Hok1|reflexivity].
      - apply msafe_bind. apply capture_ok. intros st Hfr Hl. rewrite Hfr.
        destruct (if l_stack lg then cs else firstn 1 cs) as [|frame more] eqn:Hfrs.
        + apply msafe_bind. apply stack_free_ok; [exact Hl|].
          apply ce_write_ok; [reflexivity|exact Hok|]. intros ow1 Hok1. apply HQ'; [exact Hok1|reflexivity].
        + cbn zeta. apply msafe_bind.
          destruct (l_stack lg) eqn:Hst.
          * apply msafe_bind. apply buf_get_ok. intros b Hfresh.
            apply msafe_bind. apply line_upd_ok. cbn [app].
            apply msafe_bind. eapply buf_read_ok; [fb|]. cbn [b_bs mk].
            apply msafe_bind. apply buf_free_head_ok; [apply sok_cons; assumption|]. intros ow1 Hok1.
            apply msafe_ret. apply msafe_bind. apply stack_free_ok; [exact Hl|].
            apply ce_write_ok; [reflexivity|exact Hok1|]. intros ow2 Hok2.
            unfold set_ent. cbn [ce_errout ce_dirty ce_after ce_cores].
            apply HQ'; [exact Hok2|]. destruct (l_caller lg); reflexivity.
          * apply msafe_ret. apply msafe_bind. apply stack_free_ok; [exact Hl|].
            apply ce_write_ok; [reflexivity|exact Hok|]. intros ow2 Hok2.
            unfold set_ent. cbn [ce_errout ce_dirty ce_after ce_cores].
            apply HQ'; [exact Hok2|]. destruct (l_caller lg); [|discriminate Hcs]. destruct ent; reflexivity. }
    destruct (l_hook lg); exact Hmain.
Qed.

Lemma check_call_ok cores hook ent fs ow s (Q : list id -> list event -> store -> Prop) :
  sok ow s ->
  (forall ow', sok ow' s -> Q ow' (p_check cores hook ent fs) s) ->
  msafe (check_call cores hook ent fs) ow s Q.
Proof.
  intros Hok HQ. apply (check_call_with_ok _ _ cores hook ent fs ow s Q run_nested_run_ok Hok).
  intros ow' Hok'. specialize (HQ ow' Hok'). unfold p_check, p_hook in HQ. unfold p_check_with.
  destruct hook; exact HQ.
Qed.

(* ------------------------------------------------------------------ *)
(* every operation computes its specification under every adversary   *)
(* ------------------------------------------------------------------ *)
Lemma sok_nil ow : sok ow [].
Proof. split; [constructor|intros x []]. Qed.

Theorem op_safe (o : op) (ow : list id) : safe (op_prog o) ow (fun _ r => r = op_spec o).
Proof.
  destruct o as [co ent fs|e fs|lg ent cs fs|cs|cores hook ent fs]; cbn [op_prog op_spec]; unfold run_m.
  - eapply safe_bind.
    + apply (core_write_ok co ent fs ow [] (fun _ b _ => b = p_core_line co ent fs)); [apply sok_nil|]. reflexivity.
    + intros ow' [b s'] Hb. cbn [fst snd safe] in *. subst b. reflexivity.
  - eapply safe_bind.
    + apply (core_with_ok e fs ow [] (fun _ b _ => b = p_with e fs)); [apply sok_nil|]. reflexivity.
    + intros ow' [b s'] Hb. cbn [fst snd safe] in *. subst b. reflexivity.
  - eapply safe_bind.
    + apply (log_call_ok lg ent cs fs ow [] (fun _ b _ => b = p_log lg ent cs fs)); [apply sok_nil|]. reflexivity.
    + intros ow' [b s'] Hb. cbn [fst snd safe] in *. subst b. reflexivity.
  - eapply safe_bind.
    + apply (take_stack_ok cs ow [] (fun _ b _ => b = p_take cs)); [apply sok_nil|]. reflexivity.
    + intros ow' [b s'] Hb. cbn [fst snd safe] in *. subst b. reflexivity.
  - eapply safe_bind.
    + apply (check_call_ok cores hook ent fs ow [] (fun _ b _ => b = p_check cores hook ent fs)); [apply sok_nil|]. reflexivity.
    + intros ow' [b s'] Hb. cbn [fst snd safe] in *. subst b. reflexivity.
Qed.

(* ------------------------------------------------------------------ *)
(* part 3: the pools under histories and schedules                    *)
(* ------------------------------------------------------------------ *)
From Coq Require Import Permutation.

Definition pool_ids (sh : shared) : list id := map b_id (pl_buf (sh_pools sh)).
Definition pools_clean (sh : shared) : Prop :=
  forall p o, In o (pool_get (sh_pools sh) p) -> clean p o.
(* all = every buffer identity owned by some running operation (or leaked by one) *)
Definition inv (sh : shared) (all : list id) : Prop :=
  pools_clean sh /\ NoDup (pool_ids sh ++ all) /\ (forall i, In i (pool_ids sh ++ all) -> i < sh_next sh).

Lemma pool_get_set_same P p l : pool_get (pool_set P p l) p = l.
Proof. destruct p; reflexivity. Qed.
Lemma pid_eq_dec (p q : pid) : {p = q} + {p <> q}.
Proof. decide equality. Qed.
Lemma pool_get_set_other P p q l : p <> q -> pool_get (pool_set P p l) q = pool_get P q.
Proof. destruct p, q; intros H; try reflexivity; congruence. Qed.

Lemma clean_alloc p i : clean p (alloc p i).
Proof. destruct p; cbn [clean alloc new_jenc new_slice new_stack j_rbuf j_renc s_elems k_storage]; auto. rewrite repeat_length. lia. Qed.

Lemma remove_nth_in {A} (l : list A) : forall n x, In x (remove_nth n l) -> In x l.
Proof.
  induction l as [|y l IH]; intros [|n] x H; cbn [remove_nth] in H; try contradiction.
  - right. exact H.
  - destruct H as [<-|H]; [left; reflexivity|right; eapply IH; exact H].
Qed.
Lemma remove_nth_perm {A} (l : list A) : forall n x, nth_error l n = Some x -> Permutation l (x :: remove_nth n l).
Proof.
  induction l as [|y l IH]; intros [|n] x H; cbn [nth_error remove_nth] in *; try discriminate.
  - injection H as ->. apply Permutation_refl.
  - eapply perm_trans; [apply perm_skip; apply IH; exact H|]. apply perm_swap.
Qed.
Lemma map_remove_nth {A B} (f : A -> B) (l : list A) : forall n, map f (remove_nth n l) = remove_nth n (map f l).
Proof. induction l as [|y l IH]; intros [|n]; cbn [remove_nth map]; try reflexivity. f_equal. apply IH. Qed.

Lemma remove_perm_in i (l : list id) : NoDup l -> In i l -> Permutation l (i :: remove Nat.eq_dec i l).
Proof.
  induction l as [|x l IH]; intros Hn Hi; [contradiction|].
  inversion Hn as [|y l' Hnin Hn']; subst. cbn [remove].
  destruct (Nat.eq_dec i x) as [->|Hne].
  - rewrite notin_remove; [apply Permutation_refl|exact Hnin].
  - destruct Hi as [->|Hi]; [congruence|].
    eapply perm_trans; [apply perm_skip; apply IH; assumption|]. apply perm_swap.
Qed.

Lemma inv_perm sh a b : Permutation a b -> inv sh a -> inv sh b.
Proof.
  intros Hp [Hc [Hn Hb]]. split; [exact Hc|]. split.
  - eapply Permutation_NoDup; [|exact Hn]. apply Permutation_app_head. exact Hp.
  - intros i Hi. apply Hb. eapply Permutation_in; [|exact Hi].
    apply Permutation_app_head. apply Permutation_sym. exact Hp.
Qed.

Lemma perm_mid (x : id) (A B C D : list id) : Permutation (x :: A ++ B ++ C ++ D) (A ++ B ++ (x :: C) ++ D).
Proof.
  rewrite (app_assoc A B (C ++ D)), (app_assoc A B ((x :: C) ++ D)). cbn [app].
  apply (Permutation_middle (A ++ B) (C ++ D) x).
Qed.

(* Get: whatever the adversary chooses, the object is clean, a buffer is not owned by
   anybody, and the invariant holds again with the buffer owned by the taker *)
Lemma sh_get_inv sh p c pre ow post :
  inv sh (pre ++ ow ++ post) ->
  clean p (fst (sh_get sh p c)) /\ fresh p (fst (sh_get sh p c)) ow /\
  inv (snd (sh_get sh p c)) (pre ++ own_add p (fst (sh_get sh p c)) ow ++ post).
Proof.
  intros [Hc [Hn Hb]].
  assert (Hnew : clean p (alloc p (sh_next sh)) /\ fresh p (alloc p (sh_next sh)) ow /\
                 inv {| sh_pools := sh_pools sh; sh_next := S (sh_next sh) |}
                     (pre ++ own_add p (alloc p (sh_next sh)) ow ++ post)).
  { split; [apply clean_alloc|].
    assert (Hfr : ~ In (sh_next sh) (pool_ids sh ++ pre ++ ow ++ post)).
    { intros Hi. apply Hb in Hi. lia. }
    split.
    - unfold fresh. destruct p; cbn [buf_id alloc new_buf b_id]; auto.
      intros Hi. apply Hfr. apply in_or_app. right. apply in_or_app. right. apply in_or_app. left. exact Hi.
    - unfold own_add. destruct p; cbn [buf_id alloc new_buf b_id];
        try (split; [exact Hc|split; [exact Hn|intros i Hi; apply Hb in Hi; cbn [sh_next]; lia]]).
      split; [exact Hc|]. unfold pool_ids in *. cbn [sh_pools sh_next].
      assert (Hp : Permutation (sh_next sh :: map b_id (pl_buf (sh_pools sh)) ++ pre ++ ow ++ post)
                               (map b_id (pl_buf (sh_pools sh)) ++ pre ++ (sh_next sh :: ow) ++ post)) by apply perm_mid.
      split.
      + eapply Permutation_NoDup; [exact Hp|]. constructor; assumption.
      + intros i Hi. apply Permutation_sym in Hp. apply (Permutation_in _ Hp) in Hi.
        destruct Hi as [<-|Hi]; [lia|]. apply Hb in Hi. lia. }
  destruct c as [|n]; [exact Hnew|].
  cbn [sh_get]. destruct (nth_error (pool_get (sh_pools sh) p) n) as [o|] eqn:Hnth; [|exact Hnew].
  cbn [fst snd].
  assert (Hin : In o (pool_get (sh_pools sh) p)) by (eapply nth_error_In; exact Hnth).
  split; [apply Hc; exact Hin|].
  assert (Hclean' : pools_clean {| sh_pools := pool_set (sh_pools sh) p (remove_nth n (pool_get (sh_pools sh) p)); sh_next := sh_next sh |}).
  { intros q o' Ho'. cbn [sh_pools] in Ho'. destruct (pid_eq_dec p q) as [<-|Hne].
    - rewrite pool_get_set_same in Ho'. apply Hc. eapply remove_nth_in. exact Ho'.
    - rewrite pool_get_set_other in Ho' by exact Hne. apply Hc. exact Ho'. }
  destruct p; unfold fresh, own_add; cbn [buf_id];
    try (split; [exact I|]; split; [exact Hclean'|]; split; [exact Hn|exact Hb]).
  (* PBuf *)
  cbn [pool_get] in Hnth, Hin.
  assert (Hp0 : Permutation (map b_id (pl_buf (sh_pools sh))) (b_id o :: map b_id (remove_nth n (pl_buf (sh_pools sh))))).
  { rewrite map_remove_nth. apply remove_nth_perm. apply map_nth_error. exact Hnth. }
  assert (Hp : Permutation (pool_ids sh ++ pre ++ ow ++ post)
                 (map b_id (remove_nth n (pl_buf (sh_pools sh))) ++ pre ++ (b_id o :: ow) ++ post)).
  { unfold pool_ids. eapply perm_trans; [apply Permutation_app_tail; exact Hp0|]. cbn [app]. apply perm_mid. }
  split.
  - intros Hi. 
    assert (Hn2 : NoDup (b_id o :: map b_id (remove_nth n (pl_buf (sh_pools sh))) ++ pre ++ ow ++ post)).
    { eapply Permutation_NoDup; [|exact Hn]. apply (Permutation_app_tail (pre ++ ow ++ post)) in Hp0. exact Hp0. }
    inversion Hn2 as [|x l Hnin _]; subst. apply Hnin.
    apply in_or_app. right. apply in_or_app. right. apply in_or_app. left. exact Hi.
  - split; [exact Hclean'|]. unfold pool_ids. cbn [sh_pools sh_next pool_set pl_buf]. split.
    + eapply Permutation_NoDup; [exact Hp|exact Hn].
    + intros i Hi. apply Hb. eapply Permutation_in; [apply Permutation_sym; exact Hp|exact Hi].
Qed.

Lemma sh_put_inv sh p o pre ow post :
  inv sh (pre ++ ow ++ post) -> NoDup ow -> clean p o -> owns p o ow ->
  inv (sh_put sh p o) (pre ++ own_del p o ow ++ post).
Proof.
  intros [Hc [Hn Hb]] Hnow Hcl Hown.
  assert (Hclean' : pools_clean (sh_put sh p o)).
  { intros q o' Ho'. unfold sh_put in Ho'. cbn [sh_pools] in Ho'. destruct (pid_eq_dec p q) as [<-|Hne].
    - rewrite pool_get_set_same in Ho'. destruct Ho' as [<-|Ho']; [exact Hcl|apply Hc; exact Ho'].
    - rewrite pool_get_set_other in Ho' by exact Hne. apply Hc. exact Ho'. }
  destruct p; unfold owns, own_del in *; cbn [buf_id] in *;
    try (split; [exact Hclean'|]; split; [exact Hn|exact Hb]).
  (* PBuf *)
  assert (Hp : Permutation (pool_ids sh ++ pre ++ ow ++ post)
                 ((b_id o :: pool_ids sh) ++ pre ++ remove Nat.eq_dec (b_id o) ow ++ post)).
  { cbn [app]. apply Permutation_sym.
    eapply perm_trans; [apply perm_mid|].
    apply Permutation_app_head. apply Permutation_app_head.
    change ((b_id o :: remove Nat.eq_dec (b_id o) ow) ++ post) with ((b_id o :: remove Nat.eq_dec (b_id o) ow) ++ post).
    apply Permutation_app_tail. apply Permutation_sym. apply remove_perm_in; assumption. }
  split; [exact Hclean'|]. unfold pool_ids, sh_put in *. cbn [sh_pools sh_next pool_set pl_buf pool_get map]. split.
  - eapply Permutation_NoDup; [exact Hp|exact Hn].
  - intros i Hi. apply Hb. eapply Permutation_in; [apply Permutation_sym; exact Hp|exact Hi].
Qed.

Lemma NoDup_app_r {A} (a b : list A) : NoDup (a ++ b) -> NoDup b.
Proof. induction a as [|x a IH]; cbn [app]; intros H; [exact H|]. inversion H; subst. apply IH. assumption. Qed.

Lemma sh_gc_inv sh all : inv sh all -> inv (sh_gc sh) all.
Proof.
  intros [Hc [Hn Hb]]. split; [|split].
  - intros p o Ho. destruct p; cbn in Ho; contradiction.
  - unfold pool_ids, sh_gc. cbn. eapply NoDup_app_r. exact Hn.
  - intros i Hi. apply Hb. apply in_or_app. right. exact Hi.
Qed.

Lemma inv_NoDup_mid sh pre ow post : inv sh (pre ++ ow ++ post) -> NoDup ow.
Proof.
  intros [_ [Hn _]]. apply NoDup_app_r in Hn. apply NoDup_app_r in Hn.
  induction ow as [|x ow IH]; [constructor|].
  cbn [app] in Hn. inversion Hn as [|y l Hnin Hn']; subst. constructor.
  - intros Hi. apply Hnin. apply in_or_app. left. exact Hi.
  - apply IH. exact Hn'.
Qed.

(* a safe program, run to completion against any pools satisfying the invariant and any
   adversary, does not fault, ends in Q, and re-establishes the invariant *)
Lemma exec_safe {A} (a : act A) : forall ow (Q : list id -> A -> Prop) adv sh pre post,
  safe a ow Q -> inv sh (pre ++ ow ++ post) ->
  exists sh' adv' r ow', exec a adv sh = (sh', adv', inl r) /\ Q ow' r /\ inv sh' (pre ++ ow' ++ post).
Proof.
  induction a as [r|p k IH|p o k IH|e]; intros ow Q adv sh pre post Hs Hi; cbn [exec safe] in *.
  - exists sh, adv, r, ow. auto.
  - set (c := match adv with [] => 0 | c :: _ => c end).
    destruct (sh_get_inv sh p c pre ow post Hi) as [Hcl [Hfr Hi']].
    destruct (sh_get sh p c) as [o sh1]. cbn [fst snd] in *.
    apply (IH o (own_add p o ow) Q (tl adv) sh1 pre post); [apply Hs; assumption|exact Hi'].
  - destruct Hs as [Hcl [Hown Hk]].
    apply (IH (own_del p o ow) Q adv (sh_put sh p o) pre post Hk).
    apply sh_put_inv; try assumption. eapply inv_NoDup_mid. exact Hi.
  - contradiction.
Qed.

Definition hist_specs (h : list hitem) : list (sum out fault) :=
  flat_map (fun it => match it with HOp o => [inl (op_spec o)] | HGC => [] end) h.

Lemma run_hist_ok : forall h adv sh all,
  inv sh all ->
  exists sh' adv' all', run_hist h adv sh = (sh', adv', hist_specs h) /\ inv sh' all'.
Proof.
  induction h as [|it h IH]; intros adv sh all Hi; cbn [run_hist hist_specs flat_map].
  - exists sh, adv, all. auto.
  - destruct it as [o|].
    + destruct (exec_safe (op_prog o) [] (fun _ r => r = op_spec o) adv sh all [] (op_safe o [])) as [sh1 [adv1 [r [ow1 [He [Hr Hi1]]]]]].
      { cbn [app]. rewrite app_nil_r. exact Hi. }
      rewrite He. subst r.
      destruct (IH adv1 sh1 _ Hi1) as [sh2 [adv2 [all2 [Hrun Hi2]]]].
      rewrite Hrun. exists sh2, adv2, all2. cbn [app]. auto.
    + apply (IH adv (sh_gc sh) all). apply sh_gc_inv. exact Hi.
Qed.

Lemma inv_init : inv sh_init [].
Proof.
  split; [|split].
  - intros p o Ho. destruct p; cbn in Ho; contradiction.
  - cbn. constructor.
  - intros i Hi. cbn in Hi. contradiction.
Qed.

(* non-interference of pool contents: what an operation produces after ANY history, under ANY
   adversary, is its specification -- a function of the operation alone *)
Theorem observe_spec h adv o : observe h adv o = inl (op_spec o).
Proof.
  unfold observe.
  destruct (run_hist_ok h adv sh_init [] inv_init) as [sh1 [adv1 [all1 [Hrun Hi1]]]].
  rewrite Hrun.
  destruct (exec_safe (op_prog o) [] (fun _ r => r = op_spec o) adv1 sh1 all1 [] (op_safe o [])) as [sh2 [adv2 [r [ow2 [He [Hr _]]]]]].
  { cbn [app]. rewrite app_nil_r. exact Hi1. }
  rewrite He. cbn [snd]. subst r. reflexivity.
Qed.

(* a bare Check + Write makes nothing observable but the sink writes of the cores it was handed:
   no error output of an earlier Logger, no earlier hook, no re-use diagnostic - after any history *)
Lemma p_write_cores_sinks cores : forall n ent fs,
  Forall (fun ev => exists k b, ev = SinkWrite k b) (fst (p_write_cores n cores ent fs)).
Proof.
  induction cores as [|co r IH]; intros n ent fs; cbn [p_write_cores fst].
  - constructor.
  - apply Forall_app. split; [|apply IH].
    destruct (co_fail co); [constructor|]. constructor; [|constructor]. eexists. eexists. reflexivity.
Qed.

Theorem bare_check_silent h adv cores ent fs :
  exists evs, observe h adv (OCheck cores None ent fs) = inl (OutEvents evs) /\
              Forall (fun ev => exists k b, ev = SinkWrite k b) evs.
Proof.
  exists (p_check cores None ent fs). split.
  - apply (observe_spec h adv (OCheck cores None ent fs)).
  - unfold p_check. rewrite app_nil_r. apply p_write_cores_sinks.
Qed.

(* ---- the terminal hook, last user of the pooled CheckedEntry ---- *)
(* each line of the hook's own logging is the line of one of ITS calls, written by one of that call's cores *)
Lemma p_write_cores_lines cores : forall n ent fs ev, In ev (fst (p_write_cores n cores ent fs)) ->
  exists co c, nth_error cores co = Some c /\ co_fail c = false /\ ev = SinkWrite (n + co) (p_core_line c ent fs).
Proof.
  induction cores as [|c0 r IH]; intros n ent fs ev Hin; cbn [p_write_cores fst] in Hin; [destruct Hin|].
  apply in_app_or in Hin. destruct Hin as [Hin|Hin].
  - destruct (co_fail c0) eqn:Hf; [destruct Hin|]. destruct Hin as [<-|[]].
    exists 0, c0. rewrite Nat.add_0_r. repeat split; [exact Hf].
  - destruct (IH (S n) ent fs ev Hin) as [co [c [Hnth [Hf ->]]]].
    exists (S co), c. repeat split; [exact Hnth|exact Hf|]. f_equal. lia.
Qed.

Lemma p_nested_lines : forall l call ev, In ev (p_nested call l) ->
  exists i cores nent nfs co c,
    nth_error l i = Some (cores, nent, nfs) /\ nth_error cores co = Some c /\ co_fail c = false /\
    ev = HookWrite (call + i) co (p_core_line c nent nfs).
Proof.
  induction l as [|[[cores nent] nfs] r IH]; intros call ev Hin; cbn [p_nested] in Hin; [destruct Hin|].
  apply in_app_or in Hin. destruct Hin as [Hin|Hin].
  - apply in_map_iff in Hin. destruct Hin as [ev0 [<- Hin0]].
    destruct (p_write_cores_lines cores 0 nent nfs ev0 Hin0) as [co [c [Hnth [Hf ->]]]].
    exists 0, cores, nent, nfs, co, c. rewrite Nat.add_0_r. cbn [relabel Nat.add nth_error]. repeat split; assumption.
  - destruct (IH (S call) ev Hin) as [i [cs [ne [nf [co [c [Hnth [Hc [Hf ->]]]]]]]]].
    exists (S i), cs, ne, nf, co, c. cbn [nth_error]. repeat split; try assumption. f_equal. lia.
Qed.

(* A Logger call at a level that has a hook, after any history and under any adversary: the cores
   write, then the hook's own log calls produce their own lines, then the hook finds in the
   CheckedEntry it was handed exactly the entry that was logged (with this call's caller and stack) *)
Theorem hook_sees_logged_entry h adv lg ent cs fs hk :
  l_hook lg = Some hk ->
  exists pre, observe h adv (OLog lg ent cs fs) =
                inl (OutEvents (pre ++ p_nested 0 (hk_nested hk) ++ [Hook (hk_id hk) (p_log_entry lg ent cs)])) /\
              Forall (fun ev => (exists k b, ev = SinkWrite k b) \/ ev = ErrOut) pre.
Proof.
  intros Hh. rewrite observe_spec. cbn [op_spec]. unfold p_log. rewrite Hh.
  set (r := p_write_cores 0 (l_cores lg) (p_log_entry lg ent cs) fs).
  exists (fst r ++ (if snd r && (match l_cores lg with [] => false | _ => l_errout lg end) then [ErrOut] else [])).
  split.
  - unfold p_hook. destruct (l_cores lg); rewrite <- app_assoc; reflexivity.
  - apply Forall_app. split.
    + eapply Forall_impl; [|apply p_write_cores_sinks]. intros ev Hev. left. exact Hev.
    + destruct (snd r && _); constructor; [right; reflexivity|constructor].
Qed.

(* ... and the same for an entry driven without a Logger: Check(ent, nil).After(ent, hook).Write() *)
Theorem bare_hook_sees_entry h adv cores hk ent fs :
  exists pre, observe h adv (OCheck cores (Some hk) ent fs) =
                inl (OutEvents (pre ++ p_nested 0 (hk_nested hk) ++ [Hook (hk_id hk) ent])) /\
              Forall (fun ev => exists k b, ev = SinkWrite k b) pre.
Proof.
  rewrite observe_spec. cbn [op_spec]. unfold p_check, p_hook.
  exists (fst (p_write_cores 0 cores ent fs)). split; [reflexivity|apply p_write_cores_sinks].
Qed.

Theorem history_independent h1 h2 adv1 adv2 o : observe h1 adv1 o = observe h2 adv2 o.
Proof. rewrite !observe_spec. reflexivity. Qed.

Theorem no_fault_in_history h adv :
  Forall (fun r => exists x, r = inl x) (snd (run_hist h adv sh_init)).
Proof.
  destruct (run_hist_ok h adv sh_init [] inv_init) as [sh1 [adv1 [all1 [Hrun _]]]].
  rewrite Hrun. cbn [snd]. clear Hrun. unfold hist_specs. induction h as [|[o|] h IH]; cbn [flat_map app]; auto.
  constructor; [eexists; reflexivity|exact IH].
Qed.

(* ---- goroutines and schedules ---- *)
Definition thread_ok (th : thread) (ow : list id) : Prop :=
  t_fault th = None /\
  (forall o r, In (o, r) (t_done th) -> r = op_spec o) /\
  match t_cur th with
  | None => True
  | Some (o, a) => safe a ow (fun _ r => r = op_spec o)
  end.

Definition minv (m : machine) : Prop :=
  exists ows : list (list id), inv (m_sh m) (concat ows) /\ Forall2 thread_ok (m_threads m) ows.

Lemma Forall2_nth_split {A B} (R : A -> B -> Prop) l1 l2 t x :
  Forall2 R l1 l2 -> nth_error l1 t = Some x ->
  exists pre y post, l2 = pre ++ y :: post /\ length pre = t /\ R x y /\
    forall x' y', R x' y' -> Forall2 R (upd_nth t x' l1) (pre ++ y' :: post).
Proof.
  intros HF. revert t. induction HF as [|a b l1 l2 Hab HF IH]; intros t Hn.
  - destruct t; discriminate.
  - destruct t as [|t]; cbn [nth_error] in Hn.
    + injection Hn as ->. exists [], b, l2. cbn [app length upd_nth]. repeat split; auto.
    + destruct (IH t Hn) as [pre [y [post [-> [Hl [Hr Hu]]]]]].
      exists (b :: pre), y, post. cbn [app length upd_nth]. repeat split; auto.
Qed.

Lemma concat_mid {A} (pre : list (list A)) y post : concat (pre ++ y :: post) = concat pre ++ y ++ concat post.
Proof. rewrite concat_app. cbn [concat]. reflexivity. Qed.

Lemma mstep_inv m s : minv m -> minv (mstep m s).
Proof.
  intros [ows [Hi HF]]. destruct s as [t c|]; cbn [mstep].
  - destruct (nth_error (m_threads m) t) as [th|] eqn:Hth; [|exists ows; auto].
    destruct (Forall2_nth_split _ _ _ _ _ HF Hth) as [pre [ow [post [-> [Hl [Hok Hupd]]]]]].
    rewrite concat_mid in Hi.
    destruct Hok as [Hf [Hd Hc]]. unfold thread_step. rewrite Hf.
    destruct (t_cur th) as [[o a]|] eqn:Hcur.
    + destruct a as [r|p k|p x k|e]; cbn [safe] in Hc.
      * (* the operation returns *)
        exists (pre ++ ow :: post). cbn [m_sh m_threads]. rewrite concat_mid. split; [exact Hi|].
        apply Hupd. split; [reflexivity|]. cbn [t_done t_cur]. split; [|exact I].
        intros o' r' Hin. apply in_app_or in Hin. destruct Hin as [Hin|[Heq|[]]]; [apply Hd; exact Hin|].
        injection Heq as <- <-. exact Hc.
      * (* Get *)
        destruct (sh_get_inv (m_sh m) p c (concat pre) ow (concat post) Hi) as [Hcl [Hfr Hi']].
        destruct (sh_get (m_sh m) p c) as [x sh1]. cbn [fst snd] in *.
        exists (pre ++ own_add p x ow :: post). cbn [m_sh m_threads]. rewrite concat_mid. split; [exact Hi'|].
        apply Hupd. split; [reflexivity|]. cbn [t_done t_cur]. split; [exact Hd|]. apply Hc; assumption.
      * (* Put *)
        destruct Hc as [Hcl [Hown Hk]].
        exists (pre ++ own_del p x ow :: post). cbn [m_sh m_threads]. rewrite concat_mid. split.
        -- apply sh_put_inv; try assumption. eapply inv_NoDup_mid. exact Hi.
        -- apply Hupd. split; [reflexivity|]. cbn [t_done t_cur]. split; [exact Hd|exact Hk].
      * contradiction.
    + destruct (t_todo th) as [|o r] eqn:Htodo.
      * exists (pre ++ ow :: post). cbn [m_sh m_threads]. rewrite concat_mid. split; [exact Hi|].
        apply Hupd. split; [exact Hf|]. split; [exact Hd|]. rewrite Hcur. exact I.
      * exists (pre ++ ow :: post). cbn [m_sh m_threads]. rewrite concat_mid. split; [exact Hi|].
        apply Hupd. split; [reflexivity|]. cbn [t_done t_cur]. split; [exact Hd|]. apply op_safe.
  - exists ows. cbn [m_sh m_threads]. split; [apply sh_gc_inv; exact Hi|exact HF].
Qed.

Lemma minv_init progs : minv (minit progs).
Proof.
  exists (map (fun _ => []) progs). unfold minit. cbn [m_sh m_threads]. split.
  - replace (concat (map (fun _ : list op => []) progs)) with (@nil id); [apply inv_init|].
    induction progs as [|p progs IH]; [reflexivity|]. cbn [map concat app]. exact IH.
  - induction progs as [|p progs IH]; cbn [map]; constructor; [|exact IH].
    split; [reflexivity|]. cbn [t_done t_cur]. split; [intros o r []|exact I].
Qed.

Lemma mrun_inv sc : forall m, minv m -> minv (mrun m sc).
Proof.
  induction sc as [|s sc IH]; intros m Hm; cbn [mrun fold_left]; [exact Hm|].
  apply IH. apply mstep_inv. exact Hm.
Qed.

(* for all programs (one list of operations per goroutine), all schedules (which goroutine
   performs its next pool interaction, what the pool hands out, when the collector runs):
   no goroutine ever faults and every completed operation produced its specification *)
Theorem schedules_thm (progs : list (list op)) (sc : list sched) :
  Forall (fun th => t_fault th = None /\ forall o r, In (o, r) (t_done th) -> r = op_spec o)
         (m_threads (mrun (minit progs) sc)).
Proof.
  destruct (mrun_inv sc _ (minv_init progs)) as [ows [_ HF]].
  induction HF as [|th ow ths ows' Hok HF IH]; constructor; [|exact IH].
  destruct Hok as [Hf [Hd _]]. auto.
Qed.

(* ------------------------------------------------------------------ *)
(* part 5: wire                                                       *)
(* ------------------------------------------------------------------ *)
Lemma bytes_eqb_refl b : bytes_eqb b b = true.
Proof. apply bytes_eqb_eq. reflexivity. Qed.

Lemma machine_ok_true h adv p : machine_ok h adv p = true.
Proof.
  unfold machine_ok. destruct p as [o|]; [|reflexivity].
  rewrite !observe_spec. apply bytes_eqb_refl.
Qed.

Lemma spec_model i : spec i (Model.model i) = true.
Proof.
  unfold Model.model, spec. rewrite machine_ok_true. cbn [sx_eqb]. rewrite bytes_eqb_refl. reflexivity.
Qed.

(* C08 — stub *)
From Zap Require Import Base.Wire C08.Model.

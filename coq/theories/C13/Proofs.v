(* C13 — proofs (in progress) *)
From Zap Require Import Base.Wire C13.Model.

(* C13 — stub *)
From Zap Require Import Base.Wire C13.Model.

(* C13 -- the wire-level link: the oracle the driver runs accepts the model's observation
   on every valid case.  (Flat multi-syncers: Multi.v; combinator programs: Comb.v; the
   writers: Writers.v, BwsFault.v; Lock under every schedule: Mutex.v.) *)
From Coq Require Import List ZArith Bool Lia ZifyBool.
From Coq.Strings Require Import Byte.
Import ListNotations.
From Zap Require Import Base.Wire C13.Model.
From Zap Require Export C13.Multi C13.Comb C13.Writers C13.Mutex C13.Handles C13.BwsFault.
Local Open Scope Z_scope.

Lemma sx_eqb_refl : forall x, sx_eqb x x = true.
Proof.
  fix IH 1. intros [z|b|l]; cbn [sx_eqb].
  - apply Z.eqb_refl.
  - now apply bytes_eqb_eq.
  - induction l as [|a l IHl]; [reflexivity|]. now rewrite IH, IHl.
Qed.

Lemma is_prefix_app a rest : is_prefix a (a ++ rest) = true.
Proof. induction a as [|x a IH]; [reflexivity|]. cbn [app is_prefix]. now rewrite byte_eqb_refl, IH. Qed.
Lemma sink_bytes_enc ev : sink_bytes (SL (map enc_sev ev)) = sink_of ev.
Proof.
  unfold sink_bytes, sink_of. cbn [sx_l]. rewrite map_map. f_equal. apply map_ext. intros [b|]; reflexivity.
Qed.

Lemma wire_stdlog i : wf_stdlog i = true -> spec_stdlog i (model_stdlog i) = true.
Proof.
  unfold wf_stdlog, spec_stdlog, model_stdlog. cbn [stdlog_write]. unfold trim_space.
  intros H. destruct (all_ascii (sx_b (sx_nth i 3))).
  - apply bytes_eqb_eq in H. rewrite <- H. apply sx_eqb_refl.
  - apply sx_eqb_refl.
Qed.
Lemma wire_testing i : spec_testing i (model_testing i) = true.
Proof.
  unfold spec_testing, model_testing. rewrite testing_accept.
  cbn [sx_nth sx_l nth of_blist map length Nat.eqb]. rewrite !sx_eqb_refl, testing_stripped. reflexivity.
Qed.
Lemma wire_zapio i : spec_zapio i (model_zapio i) = true.
Proof. unfold spec_zapio, model_zapio. rewrite zapio_accept. apply sx_eqb_refl. Qed.
Lemma wire_bws i : (0 <=? sx_z (sx_nth i 2)) = true -> spec_bws i (model_bws i) = true.
Proof.
  intros H. unfold spec_bws, model_bws.
  assert (Hs : 0 <= sx_z (sx_nth i 2)) by (apply Z.leb_le; exact H).
  pose proof (eff_size_pos _ Hs) as Hp.
  destruct (bws_run_spec (eff_size (sx_z (sx_nth i 2))) Hp
              (map dec_bop (sx_l (sx_nth i 3))) bws0) as (H1 & rest & H2).
  { cbn [bws0 b_buf]. rewrite zlen_nil. lia. }
  destruct (bws_run _ bws0 _) as [ns ev]. cbn [fst snd] in H1, H2. cbn [b_buf bws0 app] in H2.
  cbn [sx_nth sx_l nth]. rewrite H1, !sx_eqb_refl, sink_bytes_enc, <- H2, is_prefix_app. reflexivity.
Qed.
Lemma wire_lock i : wf_lock i = true -> spec_lock i (model_lock i) = true.
Proof.
  unfold wf_lock, spec_lock, model_lock. intros H. apply Nat.eqb_eq in H.
  destruct (lock_mutex_prog (dec_prog (sx_nth i 1)) (dec_sched (sx_nth i 2))) as (_ & Hm & _).
  cbn [sx_nth sx_l nth sx_z of_nat]. rewrite H, sx_eqb_refl.
  apply andb_true_iff; split; [apply andb_true_iff; split|reflexivity]; lia.
Qed.

(* several handles onto one sink: whatever schedule the model is evaluated on (the one the case
   carries plus a completion, or the gate schedule), at most one call is inside the sink, and
   the number of sink calls is the one the derivation program gives *)
Lemma wire_handles i : spec_handles i (model_handles i) = true.
Proof.
  unfold spec_handles, model_handles.
  set (r := sx_z (sx_nth i 2)). set (ds := map dec_dstep (sx_l (sx_nth i 3))). set (prog := dec_hprog (sx_nth i 4)).
  set (sched := if wkind i =? 1 then _ else _).
  destruct (handles_mutex r ds prog sched) as (_ & Hm & _). unfold handle_prog, handle_codes in Hm.
  cbv zeta. set (s := grun _ sched) in *.
  cbn [sx_nth sx_l nth sx_z of_nat]. rewrite (prog_begins_reach Reuse r ds prog), sx_eqb_refl.
  apply andb_true_iff; split; [apply andb_true_iff; split|reflexivity]; lia.
Qed.

Theorem spec_model i : wf i = true -> spec i (model i) = true.
Proof.
  unfold wf, spec, model. intros H.
  destruct (kind i =? 4); [apply wire_handles|].
  destruct (kind i =? 1).
  - unfold wf_comb in H. apply andb_true_iff in H as [H Hd]. apply andb_true_iff in H as [_ Ht].
    now apply spec_comb_model.
  - destruct (kind i =? 2).
    + destruct (wkind i =? 0); [now apply wire_stdlog|].
      destruct (wkind i =? 1); [apply wire_testing|].
      destruct (wkind i =? 2); [apply wire_zapio|].
      destruct (wkind i =? 3); [now apply wire_bws|now apply wire_bwsf].
    + now apply wire_lock.
Qed.

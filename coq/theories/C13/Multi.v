(* C13 -- proofs about the combinators (write_syncer.go, writer.go) and the writers. *)
From Coq Require Import List ZArith Bool Lia.
From Coq.Strings Require Import Byte.
Import ListNotations.
From Zap Require Import Base.Wire C13.Model.
From Zap Require C17.Model C17.Proofs.
Local Open Scope Z_scope.

(* ---------------- basics ---------------- *)
Lemma zlen_acc_spec l : forall a, zlen_acc l a = a + Z.of_nat (length l).
Proof.
  induction l as [|x r IH]; intros a; cbn [zlen_acc length].
  - lia.
  - rewrite IH. lia.
Qed.
Lemma zlen_length l : zlen l = Z.of_nat (length l).
Proof. unfold zlen. rewrite zlen_acc_spec. lia. Qed.
Lemma zlen_nonneg l : 0 <= zlen l.
Proof. rewrite zlen_length. lia. Qed.
Lemma zlen_app a b : zlen (a ++ b) = zlen a + zlen b.
Proof. rewrite !zlen_length, app_length. lia. Qed.
Lemma zlen_nil : zlen [] = 0.
Proof. reflexivity. Qed.
Lemma frev_rev {A} (l : list A) : frev l = rev l.
Proof. unfold frev. symmetry. apply rev_alt. Qed.
Lemma byte_eqb_refl b : Byte.eqb b b = true.
Proof. now apply byte_eqb_eq. Qed.

(* ---------------- the loops of multiWriteSyncer ---------------- *)
Definition w_n (r : wres) : Z := fst (fst r).
Definition w_e (r : wres) : errs := snd (fst r).
Definition w_ev (r : wres) : list event := snd r.

Lemma multi_write_loop_spec call v l : forall nW e ev,
  multi_write_loop call v l nW e ev =
  (fold_left (count_step v) (map (fun w => w_n (call w)) l) nW,
   e ++ concat (map (fun w => w_e (call w)) l),
   ev ++ concat (map (fun w => w_ev (call w)) l)).
Proof.
  induction l as [|w r IH]; intros nW e ev; cbn [multi_write_loop map concat fold_left].
  - now rewrite !app_nil_r.
  - destruct (call w) as [[n err] ev'] eqn:E. rewrite IH. unfold err_append, w_n, w_e, w_ev.
    cbn [fst snd]. now rewrite <- !app_assoc.
Qed.

Lemma multi_sync_loop_spec call l : forall e ev,
  multi_sync_loop call l e ev =
  (e ++ concat (map (fun w => fst (call w)) l), ev ++ concat (map (fun w => snd (call w)) l)).
Proof.
  induction l as [|w r IH]; intros e ev; cbn [multi_sync_loop map concat].
  - now rewrite !app_nil_r.
  - destruct (call w) as [err ev'] eqn:E. rewrite IH. unfold err_append. cbn [fst snd].
    now rewrite <- !app_assoc.
Qed.

(* the repaired fold is a running minimum *)
Lemma count_step_fixed nW n : count_step Fixed nW n = Z.min nW n.
Proof. cbn [count_step]. destruct (n <? nW) eqn:E; lia. Qed.
Lemma fold_count_fixed l : forall a, fold_left (count_step Fixed) l a = fold_left Z.min l a.
Proof. induction l as [|x r IH]; intros a; cbn [fold_left]; [reflexivity|]. now rewrite count_step_fixed, IH. Qed.
Lemma fold_min_le_init l : forall a, fold_left Z.min l a <= a.
Proof. induction l as [|x r IH]; intros a; cbn [fold_left]; [lia|]. specialize (IH (Z.min a x)). lia. Qed.
Lemma fold_min_le_all l : forall a x, In x l -> fold_left Z.min l a <= x.
Proof.
  induction l as [|y r IH]; intros a x Hin; [destruct Hin|]. cbn [fold_left].
  destruct Hin as [->|Hin]; [|now apply IH].
  pose proof (fold_min_le_init r (Z.min a x)). lia.
Qed.
Lemma fold_min_in l : forall a, fold_left Z.min l a = a \/ In (fold_left Z.min l a) l.
Proof.
  induction l as [|y r IH]; intros a; cbn [fold_left]; [now left|].
  destruct (IH (Z.min a y)) as [H|H].
  - rewrite H. destruct (Z.min_spec a y) as [[_ ->]|[_ ->]]; [now left|right; now left].
  - right; now right.
Qed.
Lemma fold_min_glb l : forall a m, m <= a -> (forall x, In x l -> m <= x) -> m <= fold_left Z.min l a.
Proof.
  induction l as [|y r IH]; intros a m Ha Hall; cbn [fold_left]; [exact Ha|].
  apply IH.
  - pose proof (Hall y (or_introl eq_refl)). lia.
  - intros x Hx. apply Hall. now right.
Qed.

(* "the smallest count any sink reported": a member of the counts, below all of them *)
Lemma smallest_in lenp c r : In (smallest lenp (c :: r)) (c :: r).
Proof. cbn [smallest]. destruct (fold_min_in r c) as [->|H]; [now left|now right]. Qed.
Lemma smallest_le lenp cs x : In x cs -> smallest lenp cs <= x.
Proof.
  destruct cs as [|c r]; [intros []|]. cbn [smallest]. intros [->|H].
  - apply fold_min_le_init.
  - now apply fold_min_le_all.
Qed.

(* starting the fold at len(p) is harmless when every sink honours n <= len(p) *)
Lemma fold_min_smallest lenp cs : (forall x, In x cs -> x <= lenp) ->
  fold_left Z.min cs lenp = smallest lenp cs.
Proof.
  destruct cs as [|c r]; intros H; [reflexivity|]. cbn [fold_left smallest].
  rewrite Z.min_r; [reflexivity|]. apply H. now left.
Qed.
Lemma smallest_le_len lenp cs : (forall x, In x cs -> x <= lenp) -> smallest lenp cs <= lenp.
Proof.
  destruct cs as [|c r]; intros H; [cbn; lia|].
  pose proof (smallest_le lenp (c :: r) c (or_introl eq_refl)). pose proof (H c (or_introl eq_refl)). lia.
Qed.
(* without any assumption on the sinks: the minimum of len(p) and all counts *)
Lemma fold_min_shift l : forall a b, fold_left Z.min l (Z.min a b) = Z.min a (fold_left Z.min l b).
Proof.
  induction l as [|z l IHl]; intros a b; cbn [fold_left]; [reflexivity|].
  rewrite <- IHl. f_equal. lia.
Qed.
Lemma fold_min_general lenp cs : fold_left Z.min cs lenp = Z.min lenp (smallest lenp cs).
Proof.
  destruct cs as [|c r]; [cbn; lia|]. cbn [fold_left smallest]. apply fold_min_shift.
Qed.

(* ---------------- flat multi-syncers ---------------- *)
Lemma write_multi v l p :
  write v (Multi l) p =
  (fold_left (count_step v) (map (fun w => w_n (write v w p)) l) (count_init v p),
   concat (map (fun w => w_e (write v w p)) l),
   concat (map (fun w => w_ev (write v w p)) l)).
Proof. cbn [write]. now rewrite multi_write_loop_spec. Qed.
Lemma sync_multi l :
  sync (Multi l) = (concat (map (fun w => fst (sync w)) l), concat (map (fun w => snd (sync w)) l)).
Proof. cbn [sync]. now rewrite multi_sync_loop_spec. Qed.

Lemma concat_singletons {A B} (f : A -> B) l : concat (map (fun x => [f x]) l) = map f l.
Proof. induction l as [|x r IH]; cbn; [reflexivity|now rewrite IH]. Qed.

Lemma multi_of_many s s' r : multi_of (s :: s' :: r) = Multi (map leaf_of (s :: s' :: r)).
Proof. reflexivity. Qed.

(* NewMultiWriteSyncer(w) is w itself; the result of the general formula is the same *)
Lemma multi_of_write v (l : list sink) p :
  write v (multi_of l) p =
  (fold_left (count_step v) (map s_n l) (count_init v p), concat (map s_we l), map (fun s => EWrite (s_id s) p) l)
  \/ (exists s, l = [s]).
Proof.
  destruct l as [|s [|s' r]].
  - left. reflexivity.
  - right. now exists s.
  - left. rewrite multi_of_many. generalize (s :: s' :: r) as ll. intros ll.
    rewrite write_multi, !map_map. unfold leaf_of, w_n, w_e, w_ev. cbn [write fst snd].
    now rewrite concat_singletons.
Qed.

(* every sink is handed exactly p, once, in order -- whatever the other sinks returned *)
Lemma multi_bytes v l p : w_ev (write v (multi_of l) p) = map (fun s => EWrite (s_id s) p) l.
Proof.
  destruct (multi_of_write v l p) as [H|[s ->]].
  - now rewrite H.
  - reflexivity.
Qed.

(* all errors, in sink order; nil exactly when every sink returned nil *)
Lemma multi_errs v l p : w_e (write v (multi_of l) p) = concat (map s_we l).
Proof.
  destruct l as [|s [|s' r]]; [reflexivity|cbn; now rewrite app_nil_r|].
  destruct (multi_of_write v (s :: s' :: r) p) as [H|[x Hx]]; [|discriminate].
  now rewrite H.
Qed.

(* the count, Fixed: min(len p, every count) -- no assumption *)
Lemma multi_count_general l p :
  w_n (write Fixed (multi_of l) p) = match l with [s] => s_n s | _ => Z.min (zlen p) (smallest (zlen p) (map s_n l)) end.
Proof.
  destruct l as [|s [|s' r]]; [cbn; lia|reflexivity|].
  destruct (multi_of_write Fixed (s :: s' :: r) p) as [H|[x Hx]]; [|discriminate].
  rewrite H. unfold w_n. cbn [fst]. now rewrite fold_count_fixed, fold_min_general.
Qed.
(* ... which is the smallest count whenever the sinks honour n <= len(p) *)
Lemma multi_min l p : (forall s, In s l -> s_n s <= zlen p) ->
  w_n (write Fixed (multi_of l) p) = smallest (zlen p) (map s_n l).
Proof.
  intros H. rewrite multi_count_general. destruct l as [|s [|s' r]]; [cbn; lia|reflexivity|].
  apply Z.min_r. apply smallest_le_len. intros x Hx. apply in_map_iff in Hx as (t & <- & Ht). now apply H.
Qed.
Lemma multi_min_char l p : l <> [] -> (forall s, In s l -> s_n s <= zlen p) ->
  let n := w_n (write Fixed (multi_of l) p) in
  In n (map s_n l) /\ (forall s, In s l -> n <= s_n s).
Proof.
  intros Hne H n. unfold n. rewrite (multi_min l p H). destruct l as [|s r]; [congruence|]. split.
  - cbn [map]. apply smallest_in.
  - intros t Ht. apply smallest_le. now apply in_map.
Qed.

(* the fold as it was before the fix: counts [0,5] on a 5-byte write report 5 *)
Definition multi_min_stmt (v : version) : Prop :=
  forall l p, (forall s, In s l -> 0 <= s_n s <= zlen p) ->
  w_n (write v (multi_of l) p) = smallest (zlen p) (map s_n l).
Definition sk (id n : Z) : sink := {| s_id := id; s_n := n; s_we := []; s_se := [] |}.
Definition hello : bytes := [x68; x65; x6c; x6c; x6f].
Lemma multi_min_orig_refuted : ~ multi_min_stmt Orig.
Proof.
  intros H. specialize (H [sk 1 0; sk 2 5] hello).
  assert (D : forall s, In s [sk 1 0; sk 2 5] -> 0 <= s_n s <= zlen hello).
  { intros s [<-|[<-|[]]]; vm_compute; split; discriminate. }
  specialize (H D). vm_compute in H. discriminate.
Qed.
Lemma multi_min_orig_refuted_305 :
  w_n (write Orig (multi_of [sk 1 3; sk 2 0; sk 3 5]) hello) = 5.
Proof. vm_compute. reflexivity. Qed.
(* and with no sink at all the original reported a short count with a nil error *)
Lemma multi_empty_orig_short : write Orig (multi_of []) hello = (0, [], []).
Proof. reflexivity. Qed.
Lemma multi_min_fixed : multi_min_stmt Fixed.
Proof. intros l p H. apply multi_min. intros s Hs. apply H in Hs. lia. Qed.

(* Sync reaches every sink exactly once, in order, and returns all errors *)
Lemma multi_sync l :
  sync (multi_of l) = (concat (map s_se l), map (fun s => ESync (s_id s)) l).
Proof.
  destruct l as [|s [|s' r]]; [reflexivity|cbn; now rewrite app_nil_r|].
  rewrite multi_of_many. generalize (s :: s' :: r) as ll. intros ll.
  rewrite sync_multi, !map_map. unfold leaf_of. cbn [sync fst snd]. now rewrite concat_singletons.
Qed.

(* io.Writer contract of the multi-syncer: a short count comes with an error as soon as
   every short sink reports one; a full count with nil error when every sink accepted p *)
Lemma multi_contract l p : (forall s, In s l -> s_n s <= zlen p) ->
  (forall s, In s l -> s_n s < zlen p -> s_we s <> []) ->
  let r := write Fixed (multi_of l) p in w_n r < zlen p -> w_e r <> [].
Proof.
  intros Hd Herr r Hn. unfold r in *. rewrite multi_errs. rewrite (multi_min l p Hd) in Hn.
  destruct l as [|s0 r0]; [cbn in Hn; lia|].
  pose proof (smallest_in (zlen p) (s_n s0) (map s_n r0)) as Hin. change (s_n s0 :: map s_n r0) with (map s_n (s0 :: r0)) in Hin.
  apply in_map_iff in Hin as (t & Ht & Hin). rewrite <- Ht in Hn. specialize (Herr t Hin Hn).
  intros Hc. apply Herr. clear - Hin Hc. induction (s0 :: r0) as [|a l IH]; [destruct Hin|].
  cbn [map concat] in Hc. apply app_eq_nil in Hc as [Ha Hl]. destruct Hin as [<-|Hin]; auto.
Qed.
Lemma multi_full_accept l p : (forall s, In s l -> s_n s = zlen p /\ s_we s = []) ->
  let r := write Fixed (multi_of l) p in w_n r = zlen p /\ w_e r = [].
Proof.
  intros H r. unfold r. split.
  - rewrite multi_min; [|intros s Hs; apply H in Hs; lia].
    destruct l as [|s0 r0]; [reflexivity|]. cbn [map smallest].
    assert (G : forall l a, a = zlen p -> (forall x, In x l -> x = zlen p) -> fold_left Z.min l a = zlen p).
    { induction l as [|y l IHl]; intros a Ha Hl; cbn [fold_left]; [exact Ha|]. apply IHl.
      - rewrite Ha, (Hl y (or_introl eq_refl)). lia.
      - intros x Hx. apply Hl. now right. }
    apply G; [apply H; now left|]. intros x Hx. apply in_map_iff in Hx as (t & <- & Ht). apply H. now right.
  - rewrite multi_errs. induction l as [|a l IH]; [reflexivity|]. cbn [map concat].
    rewrite (proj2 (H a (or_introl eq_refl))). cbn [app]. apply IH. intros s Hs. apply H. now right.
Qed.

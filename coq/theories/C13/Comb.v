(* C13 -- every object built from sinks by AddSync / Lock / NewMultiWriteSyncer /
   CombineWriteSyncers (any nesting) behaves as the reference semantics says. *)
From Coq Require Import List ZArith Bool Lia.
From Coq.Strings Require Import Byte.
Import ListNotations.
From Zap Require Import Base.Wire C13.Model C13.Multi.
Local Open Scope Z_scope.

(* ---------------- induction over construction programs ---------------- *)
Section ExprInd.
  Variable P : expr -> Prop.
  Hypothesis Hleaf : forall id hs n we se, P (XLeaf id hs n we se).
  Hypothesis Hdisc : P XDiscard.
  Hypothesis Hadd : forall e, P e -> P (XAddSync e).
  Hypothesis Hlock : forall e, P e -> P (XLock e).
  Hypothesis Hmulti : forall es, Forall P es -> P (XNewMulti es).
  Hypothesis Hcomb : forall es, Forall P es -> P (XCombine es).
  Fixpoint expr_ind' (e : expr) : P e :=
    match e with
    | XLeaf id hs n we se => Hleaf id hs n we se
    | XDiscard => Hdisc
    | XAddSync e' => Hadd e' (expr_ind' e')
    | XLock e' => Hlock e' (expr_ind' e')
    | XNewMulti es =>
        Hmulti es ((fix go (l : list expr) : Forall P l :=
                      match l with [] => Forall_nil P | x :: r => Forall_cons x (expr_ind' x) (go r) end) es)
    | XCombine es =>
        Hcomb es ((fix go (l : list expr) : Forall P l :=
                     match l with [] => Forall_nil P | x :: r => Forall_cons x (expr_ind' x) (go r) end) es)
    end.
End ExprInd.

(* ---------------- lock depth bookkeeping ---------------- *)
Fixpoint delta (ev : list event) : Z :=
  match ev with
  | [] => 0
  | ELock :: r => 1 + delta r
  | EUnlock :: r => -1 + delta r
  | _ :: r => delta r
  end.
Lemma delta_app a b : delta (a ++ b) = delta a + delta b.
Proof. induction a as [|x r IH]; [reflexivity|]. destruct x; cbn [app delta]; rewrite IH; ring. Qed.
Lemma observe_app a : forall d b, observe d (a ++ b) = observe d a ++ observe (d + delta a) b.
Proof.
  induction a as [|x r IH]; intros d b; cbn [app delta observe].
  - now rewrite Z.add_0_r.
  - destruct x; cbn [observe delta]; rewrite IH; cbn [app].
    + now replace (d + (1 + delta r)) with (d + 1 + delta r) by lia.
    + now replace (d + (-1 + delta r)) with (d - 1 + delta r) by lia.
    + reflexivity.
    + reflexivity.
Qed.
Lemma delta_concat l : Forall (fun ev => delta ev = 0) l -> delta (concat l) = 0.
Proof. induction 1 as [|x r Hx _ IH]; cbn [concat]; [reflexivity|]. rewrite delta_app. lia. Qed.
Lemma observe_concat d l : Forall (fun ev => delta ev = 0) l ->
  observe d (concat l) = concat (map (observe d) l).
Proof.
  induction 1 as [|x r Hx _ IH]; cbn [concat map]; [reflexivity|].
  rewrite observe_app, Hx, Z.add_0_r, IH. reflexivity.
Qed.
Lemma observe_locked d ev : delta ev = 0 -> observe d (ELock :: ev ++ [EUnlock]) = observe (d + 1) ev.
Proof. intros H. cbn [observe]. rewrite observe_app. cbn [observe]. now rewrite app_nil_r. Qed.
Lemma delta_locked ev : delta ev = 0 -> delta (ELock :: ev ++ [EUnlock]) = 0.
Proof. intros H. cbn [delta]. rewrite delta_app. cbn [delta]. lia. Qed.

(* ---------------- the constructor functions ---------------- *)
Definition is_locked (w : ws) : bool := match w with Locked _ => true | _ => false end.
Lemma lock_locked w : is_locked w = true -> lock w = w.
Proof. destruct w; cbn; congruence. Qed.
Lemma lock_unlocked w : is_locked w = false -> lock w = Locked w.
Proof. destruct w; cbn; congruence. Qed.
Lemma lock_idem w : lock (lock w) = lock w.
Proof. destruct w; reflexivity. Qed.
Lemma lock_is_locked w : is_locked (lock w) = true.
Proof. destruct w; reflexivity. Qed.
Lemma new_multi_many l : length l <> 1%nat -> new_multi l = Multi l.
Proof. destruct l as [|a [|b r]]; cbn; congruence. Qed.

(* relay: the wrappers return the wrapped writer's result unchanged *)
Lemma write_add_sync v w p : write v (add_sync w) p = write v w p.
Proof. unfold add_sync. destruct (is_syncer w); reflexivity. Qed.
Lemma write_lock v w p :
  w_n (write v (lock w) p) = w_n (write v w p) /\ w_e (write v (lock w) p) = w_e (write v w p) /\
  w_ev (write v (lock w) p) =
    if is_locked w then w_ev (write v w p) else ELock :: w_ev (write v w p) ++ [EUnlock].
Proof.
  destruct (is_locked w) eqn:E.
  - rewrite (lock_locked w E). auto.
  - rewrite (lock_unlocked w E). cbn [write]. destruct (write v w p) as [[n e] ev]. auto.
Qed.
Lemma sync_lock w :
  fst (sync (lock w)) = fst (sync w) /\
  snd (sync (lock w)) = if is_locked w then snd (sync w) else ELock :: snd (sync w) ++ [EUnlock].
Proof.
  destruct (is_locked w) eqn:E.
  - rewrite (lock_locked w E). auto.
  - rewrite (lock_unlocked w E). cbn [sync]. destruct (sync w) as [e ev]. auto.
Qed.
(* AddSync keeps an existing Sync and adds a no-op one otherwise *)
Lemma add_sync_keeps w : is_syncer w = true -> add_sync w = w.
Proof. unfold add_sync. now intros ->. Qed.
Lemma add_sync_noop w : is_syncer w = false -> sync (add_sync w) = ([], []).
Proof. unfold add_sync. now intros ->. Qed.
Lemma add_sync_is_syncer w : is_syncer (add_sync w) = true.
Proof. unfold add_sync. destruct (is_syncer w) eqn:E; [exact E|reflexivity]. Qed.
Lemma add_sync_idem w : add_sync (add_sync w) = add_sync w.
Proof. apply add_sync_keeps, add_sync_is_syncer. Qed.

(* ---------------- soundness of one construction program ---------------- *)
Record sound (p : bytes) (e : expr) : Prop := {
  so_w : forall d, (w_n (write Fixed (eval e) p), w_e (write Fixed (eval e) p),
                    observe d (w_ev (write Fixed (eval e) p))) = ref_write e p d;
  so_wbal : delta (w_ev (write Fixed (eval e) p)) = 0;
  so_le : w_n (write Fixed (eval e) p) <= zlen p;
  so_s : forall d, (fst (sync (eval e)), observe d (snd (sync (eval e)))) = ref_sync e d;
  so_sbal : delta (snd (sync (eval e))) = 0;
  so_lk : is_locked (eval e) = x_locked e;
  so_sy : is_syncer (eval e) = x_syncer e;
  so_ty : well_typed (eval e) = true
}.

Lemma so_w_n p e d : sound p e -> w_n (write Fixed (eval e) p) = fst (fst (ref_write e p d)).
Proof. intros H. now rewrite <- (so_w p e H d). Qed.
Lemma so_w_e p e d : sound p e -> w_e (write Fixed (eval e) p) = snd (fst (ref_write e p d)).
Proof. intros H. now rewrite <- (so_w p e H d). Qed.
Lemma so_w_ev p e d : sound p e -> observe d (w_ev (write Fixed (eval e) p)) = snd (ref_write e p d).
Proof. intros H. now rewrite <- (so_w p e H d). Qed.
Lemma so_s_e p e d : sound p e -> fst (sync (eval e)) = fst (ref_sync e d).
Proof. intros H. now rewrite <- (so_s p e H d). Qed.
Lemma so_s_ev p e d : sound p e -> observe d (snd (sync (eval e))) = snd (ref_sync e d).
Proof. intros H. now rewrite <- (so_s p e H d). Qed.

Lemma sound_leaf p id hs n we se : n <= zlen p -> sound p (XLeaf id hs n we se).
Proof.
  intros Hn. constructor; cbn [eval write sync w_n w_e w_ev fst snd ref_write ref_sync observe delta
    is_locked x_locked is_syncer x_syncer well_typed]; try reflexivity; try exact Hn.
  - intros d. destruct hs; reflexivity.
  - destruct hs; reflexivity.
Qed.
Lemma sound_discard p : sound p XDiscard.
Proof. constructor; cbn; try reflexivity; try lia. Qed.

Lemma sound_add_sync p e : sound p e -> sound p (XAddSync e).
Proof.
  intros H. destruct (x_syncer e) eqn:Es.
  - assert (Ev : eval (XAddSync e) = eval e).
    { cbn [eval]. apply add_sync_keeps. now rewrite (so_sy p e H). }
    constructor; rewrite ?Ev; cbn [ref_write ref_sync x_locked x_syncer]; try apply H.
    now rewrite (so_sy p e H).
  - assert (Ev : eval (XAddSync e) = Wrapper (eval e)).
    { cbn [eval]. unfold add_sync. now rewrite (so_sy p e H), Es. }
    constructor; rewrite ?Ev; cbn [write sync fst snd ref_write ref_sync x_locked x_syncer is_locked is_syncer
      well_typed observe delta]; try apply H; try reflexivity.
    + intros d. destruct e; try discriminate Es; cbn [x_syncer] in Es; subst; reflexivity.
    + destruct e; try discriminate Es; reflexivity.
Qed.

Lemma sound_lock p e : x_syncer e = true -> sound p e -> sound p (XLock e).
Proof.
  intros Es H. destruct (x_locked e) eqn:El.
  - assert (Ev : eval (XLock e) = eval e).
    { cbn [eval]. apply lock_locked. now rewrite (so_lk p e H). }
    constructor; rewrite ?Ev; cbn [ref_write ref_sync x_locked x_syncer]; rewrite ?El; try apply H.
    + now rewrite (so_lk p e H).
    + now rewrite (so_sy p e H).
  - assert (Ev : eval (XLock e) = Locked (eval e)).
    { cbn [eval]. apply lock_unlocked. now rewrite (so_lk p e H). }
    constructor; rewrite ?Ev; cbn [ref_write ref_sync x_locked x_syncer is_locked is_syncer well_typed];
      rewrite ?El; try reflexivity.
    + intros d. cbn [write]. destruct (write Fixed (eval e) p) as [[n er] ev] eqn:E.
      unfold w_n, w_e, w_ev. cbn [fst snd].
      pose proof (so_w p e H (d + 1)) as Hw. pose proof (so_wbal p e H) as Hb. rewrite E in Hw, Hb.
      unfold w_n, w_e, w_ev in Hw, Hb. cbn [fst snd] in Hw, Hb. now rewrite (observe_locked d ev Hb).
    + cbn [write]. destruct (write Fixed (eval e) p) as [[n er] ev] eqn:E.
      pose proof (so_wbal p e H) as Hb. rewrite E in Hb. unfold w_ev in *. cbn [snd] in *. now apply delta_locked.
    + cbn [write]. destruct (write Fixed (eval e) p) as [[n er] ev] eqn:E.
      pose proof (so_le p e H) as Hb. rewrite E in Hb. exact Hb.
    + intros d. cbn [sync]. destruct (sync (eval e)) as [er ev] eqn:E. cbn [fst snd].
      pose proof (so_s p e H (d + 1)) as Hw. pose proof (so_sbal p e H) as Hb. rewrite E in Hw, Hb.
      cbn [fst snd] in Hw, Hb. now rewrite (observe_locked d ev Hb).
    + cbn [sync]. destruct (sync (eval e)) as [er ev] eqn:E.
      pose proof (so_sbal p e H) as Hb. rewrite E in Hb. cbn [snd] in *. now apply delta_locked.
    + rewrite (so_sy p e H), Es, (so_ty p e H). reflexivity.
Qed.

Lemma w_n_mk a b c : w_n (a, b, c) = a. Proof. reflexivity. Qed.
Lemma w_e_mk a b c : w_e (a, b, c) = b. Proof. reflexivity. Qed.
Lemma w_ev_mk a b c : w_ev (a, b, c) = c. Proof. reflexivity. Qed.
Lemma Forall_map_eq {A B} (f g : A -> B) l : Forall (fun x => f x = g x) l -> map f l = map g l.
Proof. induction 1 as [|x r Hx _ IH]; cbn [map]; [reflexivity|]. now rewrite Hx, IH. Qed.

Lemma sound_multi_many p es : length es <> 1%nat ->
  Forall (fun x => x_syncer x = true) es -> Forall (sound p) es -> sound p (XNewMulti es).
Proof.
  intros Hl Hs H.
  assert (Ev : eval (XNewMulti es) = Multi (map eval es)).
  { cbn [eval]. apply new_multi_many. now rewrite map_length. }
  assert (Elk : x_locked (XNewMulti es) = false).
  { destruct es as [|a [|b r]]; cbn in *; congruence. }
  constructor; rewrite ?Ev, ?Elk; cbn [ref_write ref_sync x_syncer is_locked is_syncer]; try reflexivity.
  - intros d. rewrite write_multi, w_n_mk, w_e_mk, w_ev_mk. cbn [count_init].
    rewrite !map_map. unfold ref_multi. rewrite !map_map. f_equal; [f_equal|].
    + rewrite fold_count_fixed.
      rewrite (Forall_map_eq (fun x => w_n (write Fixed (eval x) p)) (fun x => fst (fst (ref_write x p d))) es).
      * apply fold_min_smallest. intros x Hx. apply in_map_iff in Hx as (y & <- & Hy).
        rewrite Forall_forall in H. rewrite <- (so_w_n p y d (H y Hy)). apply (so_le p y (H y Hy)).
      * eapply Forall_impl; [|exact H]. intros a Ha. now apply so_w_n.
    + f_equal. apply Forall_map_eq. eapply Forall_impl; [|exact H]. intros a Ha. now apply so_w_e.
    + rewrite observe_concat.
      * rewrite map_map. f_equal. apply Forall_map_eq. eapply Forall_impl; [|exact H]. intros a Ha. now apply so_w_ev.
      * apply Forall_map. eapply Forall_impl; [|exact H]. intros a Ha. apply (so_wbal p a Ha).
  - rewrite write_multi, w_ev_mk. rewrite map_map. apply delta_concat.
    apply Forall_map. eapply Forall_impl; [|exact H]. intros a Ha. apply (so_wbal p a Ha).
  - rewrite write_multi, w_n_mk. cbn [count_init]. rewrite fold_count_fixed. apply fold_min_le_init.
  - intros d. rewrite sync_multi. cbn [fst snd]. rewrite !map_map. unfold ref_multi_s. rewrite !map_map. f_equal.
    + f_equal. apply Forall_map_eq. eapply Forall_impl; [|exact H]. intros a Ha. now apply (so_s_e p a d).
    + rewrite observe_concat.
      * rewrite map_map. f_equal. apply Forall_map_eq. eapply Forall_impl; [|exact H]. intros a Ha. now apply (so_s_ev p a d).
      * apply Forall_map. eapply Forall_impl; [|exact H]. intros a Ha. apply (so_sbal p a Ha).
  - rewrite sync_multi. cbn [snd]. rewrite map_map. apply delta_concat.
    apply Forall_map. eapply Forall_impl; [|exact H]. intros a Ha. apply (so_sbal p a Ha).
  - cbn [well_typed]. apply forallb_forall. intros w Hw. apply in_map_iff in Hw as (x & <- & Hx).
    rewrite Forall_forall in H, Hs. rewrite (so_sy p x (H x Hx)), (Hs x Hx), (so_ty p x (H x Hx)). reflexivity.
Qed.

Lemma sound_multi_one p e : x_syncer e = true -> sound p e -> sound p (XNewMulti [e]).
Proof.
  intros Es H.
  assert (Rw : forall d, ref_write (XNewMulti [e]) p d = ref_write e p d).
  { intros d. cbn [ref_write map]. unfold ref_multi. cbn [map concat smallest fold_left fst snd].
    destruct (ref_write e p d) as [[n er] ev]. cbn [fst snd]. now rewrite !app_nil_r. }
  assert (Rs : forall d, ref_sync (XNewMulti [e]) d = ref_sync e d).
  { intros d. cbn [ref_sync map]. unfold ref_multi_s. cbn [map concat fst snd].
    destruct (ref_sync e d) as [er ev]. cbn [fst snd]. now rewrite !app_nil_r. }
  constructor; change (eval (XNewMulti [e])) with (eval e); try apply H.
  - intros d. rewrite Rw. apply H.
  - intros d. rewrite Rs. apply H.
  - cbn [x_syncer]. now rewrite (so_sy p e H).
Qed.

Lemma sound_multi p es :
  Forall (fun x => x_syncer x = true) es -> Forall (sound p) es -> sound p (XNewMulti es).
Proof.
  intros Hs H. destruct es as [|a [|b r]].
  - apply sound_multi_many; [cbn; lia|exact Hs|exact H].
  - apply sound_multi_one; [now inversion Hs|now inversion H].
  - apply sound_multi_many; [cbn; lia|exact Hs|exact H].
Qed.

Lemma sound_combine p es :
  Forall (fun x => x_syncer x = true) es -> Forall (sound p) es -> sound p (XCombine es).
Proof.
  intros Hs H. destruct es as [|a r].
  - constructor; cbn; try reflexivity; lia.
  - pose proof (sound_lock p (XNewMulti (a :: r)) eq_refl (sound_multi p (a :: r) Hs H)) as L.
    constructor.
    + exact (so_w p _ L).
    + exact (so_wbal p _ L).
    + exact (so_le p _ L).
    + exact (so_s p _ L).
    + exact (so_sbal p _ L).
    + exact (so_lk p _ L).
    + exact (so_sy p _ L).
    + exact (so_ty p _ L).
Qed.

Lemma forallb_and_Forall {A} (f g : A -> bool) l :
  forallb (fun x => f x && g x) l = true -> Forall (fun x => f x = true) l /\ Forall (fun x => g x = true) l.
Proof.
  induction l as [|x r IH]; cbn [forallb]; intros H; [split; constructor|].
  apply andb_true_iff in H as [Hx Hr]. apply andb_true_iff in Hx as [Hf Hg]. destruct (IH Hr). split; constructor; auto.
Qed.
Lemma forallb_Forall {A} (f : A -> bool) l : forallb f l = true -> Forall (fun x => f x = true) l.
Proof. rewrite forallb_forall, Forall_forall. auto. Qed.

(* the main theorem about the combinators: any well-typed construction program,
   any payload, any per-sink outcome within the io.Writer contract *)
Theorem comb_sound p : forall e, x_typed e = true -> x_dom (zlen p) e = true -> sound p e.
Proof.
  induction e as [id hs n we se| |e IH|e IH|es IH|es IH] using expr_ind'; intros Ht Hd.
  - apply sound_leaf. cbn [x_dom] in Hd. apply andb_true_iff in Hd as [_ Hd]. lia.
  - apply sound_discard.
  - apply sound_add_sync, IH; assumption.
  - cbn [x_typed] in Ht. apply andb_true_iff in Ht as [Hs Ht]. apply sound_lock; [exact Hs|]. apply IH; assumption.
  - cbn [x_typed x_dom] in Ht, Hd. apply forallb_and_Forall in Ht as [Hs Ht]. apply forallb_Forall in Hd.
    apply sound_multi; [exact Hs|]. rewrite Forall_forall in *. intros x Hx. apply IH; auto.
  - cbn [x_typed x_dom] in Ht, Hd. apply forallb_and_Forall in Ht as [Hs Ht]. apply forallb_Forall in Hd.
    apply sound_combine; [exact Hs|]. rewrite Forall_forall in *. intros x Hx. apply IH; auto.
Qed.

(* the oracle of the wire accepts the model's observation *)
Lemma spec_comb_model e p : x_typed e = true -> x_dom (zlen p) e = true ->
  spec_comb e p (model_comb e p) = true.
Proof.
  intros Ht Hd. pose proof (comb_sound p e Ht Hd) as H.
  unfold spec_comb, model_comb.
  pose proof (so_w p e H 0) as Hw. pose proof (so_s p e H 0) as Hs.
  destruct (write Fixed (eval e) p) as [[n we] ev]. destruct (sync (eval e)) as [se ev'].
  unfold w_n, w_e, w_ev in Hw. cbn [fst snd] in Hw, Hs. rewrite <- Hw, <- Hs.
  assert (R : forall x, sx_eqb x x = true).
  { fix IH 1. intros [z|b|l]; cbn [sx_eqb].
    - apply Z.eqb_refl.
    - now apply bytes_eqb_eq.
    - induction l as [|a l IHl]; [reflexivity|]. now rewrite IH, IHl. }
  apply R.
Qed.

(* the statement of [comb_sound] spelled out *)
Lemma comb_thm p e : x_typed e = true -> x_dom (zlen p) e = true -> forall d,
  (w_n (write Fixed (eval e) p), w_e (write Fixed (eval e) p), observe d (w_ev (write Fixed (eval e) p)))
    = ref_write e p d /\
  (fst (sync (eval e)), observe d (snd (sync (eval e)))) = ref_sync e d /\
  well_typed (eval e) = true /\ is_syncer (eval e) = x_syncer e.
Proof.
  intros Ht Hd d. pose proof (comb_sound p e Ht Hd) as H.
  repeat split; [apply (so_w p e H)|apply (so_s p e H)|apply (so_ty p e H)|apply (so_sy p e H)].
Qed.

(* relay facts in one statement *)
Lemma relay_thm :
  (forall v w p, write v (add_sync w) p = write v w p) /\
  (forall v w p, w_n (write v (lock w) p) = w_n (write v w p) /\ w_e (write v (lock w) p) = w_e (write v w p)) /\
  (forall v w p, observe 0 (w_ev (write v (lock w) p)) =
                 if is_locked w then observe 0 (w_ev (write v w p)) else observe 1 (w_ev (write v w p))) /\
  (forall w, fst (sync (lock w)) = fst (sync w)) /\
  (forall w, lock (lock w) = lock w) /\
  (forall w, is_syncer w = true -> add_sync w = w) /\
  (forall w, is_syncer w = false -> sync (add_sync w) = ([], []) /\ is_syncer (add_sync w) = true) /\
  (forall w, new_multi [w] = w).
Proof.
  repeat split.
  - apply write_add_sync.
  - apply write_lock.
  - apply write_lock.
  - intros v w p. destruct (write_lock v w p) as (_ & _ & ->). destruct (is_locked w); [reflexivity|].
    cbn [observe]. rewrite observe_app. cbn [observe Z.add]. apply app_nil_r.
  - intros w. apply sync_lock.
  - apply lock_idem.
  - apply add_sync_keeps.
  - now apply add_sync_noop.
  - apply add_sync_is_syncer.
Qed.

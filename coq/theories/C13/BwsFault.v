(* C13 -- BufferedWriteSyncer over ANY sink behaviour: the io.Writer contract of its Write.
   The sink answers from a script (full / short / zero counts, with or without an error, per
   sink call); bufio.Writer's sticky error and its retry of short direct writes are modelled
   (Model.v, "BufferedWriteSyncer over a SCRIPTED sink").  Proved here, for every buffer size,
   every history of Write / Sync / Stop / tick and every script:
     - every Write returns 0 <= n <= len p, and n < len p only together with an error;
     - the fuel of the write loop is never exhausted (it is part of the statement above: an
       exhausted loop would return a short count with a nil error);
     - over a sink that is healthy throughout, every Write returns (len p, nil) and every
       Sync / Stop returns nil. *)
From Coq Require Import List ZArith Bool Lia ZifyBool.
From Coq.Strings Require Import Byte.
Import ListNotations.
From Zap Require Import Base.Wire C13.Model C13.Multi.
Local Open Scope Z_scope.

Lemma f_bufio_write_eq fuel size sc buf err p nn ev :
  f_bufio_write fuel size sc buf err p nn ev =
  if (zlen p >? size - zlen buf) && (err =? 0) then
    match fuel with
    | O => (sc, buf, err, nn, ev)
    | S f =>
        if is_nil buf then
          let '(sc1, n, e) := sink_write sc p in
          f_bufio_write f size sc1 buf e (skipn (Z.to_nat n) p) (nn + n) (ev ++ [SW p])
        else
          let k := Z.to_nat (size - zlen buf) in
          let '(sc1, buf1, e1, ev1) := f_flush sc (buf ++ firstn k p) 0 in
          f_bufio_write f size sc1 buf1 e1 (skipn k p) (nn + zlen (firstn k p)) (ev ++ ev1)
    end
  else if negb (err =? 0) then (sc, buf, err, nn, ev)
  else (sc, buf ++ p, 0, nn + zlen p, ev).
Proof. destruct fuel; reflexivity. Qed.

Lemma is_nil_true {A} (l : list A) : is_nil l = true -> l = [].
Proof. destruct l; [reflexivity|discriminate]. Qed.

Lemma zlen_split k (p : bytes) : zlen (firstn k p) + zlen (skipn k p) = zlen p.
Proof. rewrite <- zlen_app, firstn_skipn. reflexivity. Qed.
Lemma zlen_skipn n (p : bytes) : 0 <= n <= zlen p -> zlen (skipn (Z.to_nat n) p) = zlen p - n.
Proof. intros H. rewrite !zlen_length, skipn_length. rewrite zlen_length in H. lia. Qed.

(* the sink answers within the io.Writer contract and never lengthens its script *)
Lemma sink_write_dom sc b :
  let '(sc1, n, e) := sink_write sc b in 0 <= n <= zlen b /\ (length sc1 <= length sc)%nat.
Proof.
  pose proof (zlen_nonneg b) as Hb. destruct sc as [|[d e] r]; cbn [sink_write length]; split; lia.
Qed.

(* Flush: a nil result means the buffer is empty *)
Lemma f_flush_spec sc buf err :
  let '(sc1, buf1, e1, ev1) := f_flush sc buf err in
  (length sc1 <= length sc)%nat /\ (e1 = 0 -> err = 0 /\ buf1 = []) /\ (err <> 0 -> e1 = err).
Proof.
  unfold f_flush. destruct (err =? 0) eqn:Ee; cbn [negb].
  - destruct (is_nil buf) eqn:En.
    + apply is_nil_true in En. subst buf. repeat split; lia.
    + pose proof (sink_write_dom sc buf) as Hd. destruct (sink_write sc buf) as [[sc1 n] e]. destruct Hd as [_ Hl].
      destruct ((if (n <? zlen buf) && (e =? 0) then err_short_write else e) =? 0) eqn:E1.
      * repeat split; [exact Hl|lia|lia].
      * repeat split; [exact Hl|lia|lia|lia].
  - repeat split; lia.
Qed.

(* ---------- the write loop: count and error, and the fuel suffices ---------- *)
Lemma f_bufio_write_contract fuel : forall size sc buf err p nn ev, 0 < size ->
  (err = 0 -> (length sc + (if is_nil buf then 1 else 2) <= fuel)%nat) ->
  let '(sc', buf', err', nn', ev') := f_bufio_write fuel size sc buf err p nn ev in
  nn <= nn' <= nn + zlen p /\ (err' = 0 -> nn' = nn + zlen p) /\ (err <> 0 -> err' = err /\ nn' = nn).
Proof.
  induction fuel as [|f IH]; intros size sc buf err p nn ev Hsz Hfuel; rewrite f_bufio_write_eq;
    pose proof (zlen_nonneg p) as Hp;
    (destruct ((zlen p >? size - zlen buf) && (err =? 0)) eqn:Ec;
     [|destruct (err =? 0) eqn:Ee; cbn [negb]; [repeat split; lia|repeat split; lia]]).
  - apply andb_true_iff in Ec as [_ Ee]. specialize (Hfuel ltac:(lia)). destruct (is_nil buf); lia.
  - apply andb_true_iff in Ec as [Efit Ee]. assert (He : err = 0) by lia. specialize (Hfuel He).
    destruct (is_nil buf) eqn:En.
    + apply is_nil_true in En. subst buf.
      pose proof (sink_write_dom sc p) as Hd. destruct (sink_write sc p) as [[sc1 n] e] eqn:Es.
      destruct Hd as [Hn Hl].
      specialize (IH size sc1 [] e (skipn (Z.to_nat n) p) (nn + n) (ev ++ [SW p]) Hsz).
      rewrite (zlen_skipn n p Hn) in IH.
      destruct sc as [|[d e0] r].
      * (* script used up: the sink accepts, the loop ends without another round *)
        cbn [sink_write] in Es. injection Es as <- <- <-.
        clear IH. rewrite f_bufio_write_eq. rewrite (zlen_skipn (zlen p) p ltac:(lia)), zlen_nil.
        replace (zlen p - zlen p >? size - 0) with false by lia. cbn [andb negb Z.eqb].
        repeat split; lia.
      * cbn [sink_write] in Es. injection Es as <- <- <-. cbn [length is_nil] in Hfuel, IH.
        specialize (IH ltac:(intros _; lia)).
        destruct (f_bufio_write f size r [] e0 _ _ _) as [[[[sc' buf'] err'] nn'] ev'].
        destruct IH as (I1 & I2 & _). repeat split; lia.
    + cbv zeta. set (k := Z.to_nat (size - zlen buf)).
      pose proof (f_flush_spec sc (buf ++ firstn k p) 0) as Hf.
      destruct (f_flush sc (buf ++ firstn k p) 0) as [[[sc1 buf1] e1] ev1]. destruct Hf as (Hl & Hz & _).
      specialize (IH size sc1 buf1 e1 (skipn k p) (nn + zlen (firstn k p)) (ev ++ ev1) Hsz).
      assert (Hfu : e1 = 0 -> (length sc1 + (if is_nil buf1 then 1 else 2) <= f)%nat).
      { intros H0. destruct (Hz H0) as [_ ->]. cbn [is_nil]. lia. }
      specialize (IH Hfu).
      destruct (f_bufio_write f size sc1 buf1 e1 _ _ _) as [[[[sc' buf'] err'] nn'] ev'].
      destruct IH as (I1 & I2 & _). pose proof (zlen_split k p) as Hs.
      pose proof (zlen_nonneg (firstn k p)). pose proof (zlen_nonneg (skipn k p)). repeat split; lia.
Qed.

(* ---------- BufferedWriteSyncer.Write ---------- *)
Lemma f_write_contract size s sc p : 0 < size ->
  let '(s', n, e, ev) := f_write size s sc p in 0 <= n <= zlen p /\ (e = 0 -> n = zlen p).
Proof.
  intros Hsz. unfold f_write. pose proof (zlen_nonneg p) as Hp.
  set (pre := (zlen p >? size - zlen (fb_buf s)) && (zlen (fb_buf s) >? 0)).
  destruct (if pre then f_flush sc (fb_buf s) (fb_err s) else (sc, fb_buf s, fb_err s, [])) as [[[sc1 buf1] e1] ev1].
  destruct (pre && negb (e1 =? 0)) eqn:Epre.
  - apply andb_true_iff in Epre as [_ E]. split; lia.
  - pose proof (f_bufio_write_contract (f_fuel sc1) size sc1 buf1 e1 p 0 [] Hsz) as H.
    assert (Hfu : e1 = 0 -> (length sc1 + (if is_nil buf1 then 1 else 2) <= f_fuel sc1)%nat).
    { intros _. unfold f_fuel. destruct (is_nil buf1); lia. }
    specialize (H Hfu).
    destruct (f_bufio_write (f_fuel sc1) size sc1 buf1 e1 p 0 []) as [[[[sc2 buf2] e2] nn] ev2].
    destruct H as (H1 & H2 & _).
    destruct (fb_stopped s && (e2 =? 0)) eqn:Est.
    + apply andb_true_iff in Est as [_ E2].
      destruct (f_flush sc2 buf2 e2) as [[[sc3 buf3] e3] ev3]. split; [lia|]. intros _. apply H2. lia.
    + split; [lia|]. intros E. lia.
Qed.

(* the contract as a proposition on one result *)
Definition write_contract (o : fop) (r : fres) : Prop :=
  match o with
  | FW p _ => exists n e, r = FRW n e /\ 0 <= n <= zlen p /\ (n = zlen p \/ e <> 0)
  | _ => True
  end.

Lemma f_run_contract size : 0 < size -> forall ops s, Forall2 write_contract ops (fst (f_run size s ops)).
Proof.
  intros Hsz. induction ops as [|o r IH]; intros s; [constructor|].
  destruct o as [p sc|sc se|sc se|sc se]; cbn [f_run].
  - pose proof (f_write_contract size s sc p Hsz) as H.
    destruct (f_write size s sc p) as [[[s1 n] e] ev]. specialize (IH s1).
    destruct (f_run size s1 r) as [rs ev']. cbn [fst] in *. constructor; [|exact IH].
    cbn [write_contract]. exists n, e. split; [reflexivity|]. split; [lia|]. destruct (Z.eq_dec e 0); [left; lia|right; assumption].
  - destruct (f_sync s sc se) as [[s1 es] ev]. specialize (IH s1).
    destruct (f_run size s1 r) as [rs ev']. cbn [fst] in *. constructor; [exact I|exact IH].
  - destruct (f_stop s sc se) as [[s1 es] ev]. specialize (IH s1).
    destruct (f_run size s1 r) as [rs ev']. cbn [fst] in *. constructor; [exact I|exact IH].
  - destruct (f_tick s sc se) as [s1 ev]. specialize (IH s1).
    destruct (f_run size s1 r) as [rs ev']. cbn [fst] in *. constructor; [exact I|exact IH].
Qed.

(* the oracle accepts the model's results *)
Lemma spec_fres_of_contract ops : forall rs, Forall2 write_contract ops rs -> spec_fres ops (map enc_fres rs) = true.
Proof.
  induction ops as [|o r IH]; intros rs H; inversion H as [|o' x ops' rs' Hc Hr]; subst; [reflexivity|].
  cbn [map]. destruct o as [p sc|sc se|sc se|sc se]; cbn [spec_fres]; try (apply IH; exact Hr).
  cbn [write_contract] in Hc. destruct Hc as (n & e & -> & Hn & Hc). cbn [enc_fres contract_ok].
  rewrite (IH _ Hr). destruct Hc; lia.
Qed.

(* ---------- a sink that is healthy throughout ---------- *)
Definition healthy (sc : list outcome) : Prop := forallb out_healthy sc = true.

Lemma sink_write_healthy sc b : healthy sc ->
  let '(sc1, n, e) := sink_write sc b in healthy sc1 /\ n = zlen b /\ e = 0.
Proof.
  unfold healthy. pose proof (zlen_nonneg b) as Hb. destruct sc as [|[d e] r]; cbn [sink_write forallb]; intros H.
  - auto.
  - apply andb_true_iff in H as [Ho Hr]. unfold out_healthy in Ho. cbn [fst snd] in Ho. repeat split; [exact Hr|lia|lia].
Qed.

Lemma f_flush_healthy sc buf : healthy sc ->
  let '(sc1, buf1, e1, ev1) := f_flush sc buf 0 in healthy sc1 /\ buf1 = [] /\ e1 = 0.
Proof.
  intros H. unfold f_flush. cbn [Z.eqb negb]. destruct (is_nil buf) eqn:En.
  - apply is_nil_true in En. auto.
  - pose proof (sink_write_healthy sc buf H) as Hs. destruct (sink_write sc buf) as [[sc1 n] e].
    destruct Hs as (H1 & -> & ->). rewrite Z.ltb_irrefl. cbn [andb Z.eqb]. auto.
Qed.

Lemma f_bufio_write_healthy fuel : forall size sc buf p nn ev, 0 < size -> healthy sc ->
  (length sc + (if is_nil buf then 1 else 2) <= fuel)%nat ->
  let '(sc', buf', err', nn', ev') := f_bufio_write fuel size sc buf 0 p nn ev in
  healthy sc' /\ err' = 0.
Proof.
  induction fuel as [|f IH]; intros size sc buf p nn ev Hsz Hh Hfuel; rewrite f_bufio_write_eq;
    pose proof (zlen_nonneg p) as Hp;
    (destruct ((zlen p >? size - zlen buf) && (0 =? 0)) eqn:Ec; [|cbn [Z.eqb negb]; auto]).
  - destruct (is_nil buf); lia.
  - destruct (is_nil buf) eqn:En.
    + apply is_nil_true in En. subst buf.
      pose proof (sink_write_healthy sc p Hh) as Hs. pose proof (sink_write_dom sc p) as Hd.
      destruct (sink_write sc p) as [[sc1 n] e] eqn:Es. destruct Hs as (H1 & -> & ->). destruct Hd as [_ Hl].
      destruct sc as [|[d e0] r].
      * cbn [sink_write] in Es. injection Es as <-.
        rewrite f_bufio_write_eq. rewrite (zlen_skipn (zlen p) p ltac:(lia)), zlen_nil.
        replace (zlen p - zlen p >? size - 0) with false by lia. cbn [andb negb Z.eqb]. auto.
      * cbn [sink_write] in Es. injection Es as <- _ _. cbn [length is_nil] in Hfuel.
        apply IH; [exact Hsz|exact H1|cbn [is_nil]; lia].
    + cbv zeta. set (k := Z.to_nat (size - zlen buf)).
      pose proof (f_flush_healthy sc (buf ++ firstn k p) Hh) as Hf. pose proof (f_flush_spec sc (buf ++ firstn k p) 0) as Hl.
      destruct (f_flush sc (buf ++ firstn k p) 0) as [[[sc1 buf1] e1] ev1]. destruct Hf as (H1 & -> & ->). destruct Hl as (Hl & _).
      apply IH; [exact Hsz|exact H1|cbn [is_nil]; lia].
Qed.

Lemma f_write_healthy size s sc p : 0 < size -> healthy sc -> fb_err s = 0 ->
  let '(s', n, e, ev) := f_write size s sc p in e = 0 /\ fb_err s' = 0.
Proof.
  intros Hsz Hh He. unfold f_write. rewrite He.
  set (pre := (zlen p >? size - zlen (fb_buf s)) && (zlen (fb_buf s) >? 0)).
  assert (Hpre : let '(sc1, buf1, e1, ev1) := if pre then f_flush sc (fb_buf s) 0 else (sc, fb_buf s, 0, []) in
                 healthy sc1 /\ e1 = 0).
  { destruct pre; [|auto]. pose proof (f_flush_healthy sc (fb_buf s) Hh) as H.
    destruct (f_flush sc (fb_buf s) 0) as [[[a b] c] d]. tauto. }
  destruct (if pre then f_flush sc (fb_buf s) 0 else (sc, fb_buf s, 0, [])) as [[[sc1 buf1] e1] ev1].
  destruct Hpre as [H1 ->]. cbn [Z.eqb negb]. rewrite andb_false_r.
  pose proof (f_bufio_write_healthy (f_fuel sc1) size sc1 buf1 p 0 [] Hsz H1) as H.
  assert (Hfu : (length sc1 + (if is_nil buf1 then 1 else 2) <= f_fuel sc1)%nat).
  { unfold f_fuel. destruct (is_nil buf1); lia. }
  specialize (H Hfu).
  destruct (f_bufio_write (f_fuel sc1) size sc1 buf1 0 p 0 []) as [[[[sc2 buf2] e2] nn] ev2].
  destruct H as [H2 ->]. cbn [Z.eqb]. rewrite andb_true_r. destruct (fb_stopped s).
  - pose proof (f_flush_healthy sc2 buf2 H2) as H3. destruct (f_flush sc2 buf2 0) as [[[sc3 buf3] e3] ev3].
    destruct H3 as (_ & _ & ->). cbn [fb_err]. auto.
  - cbn [fb_err]. auto.
Qed.

Lemma f_sync_healthy s sc : healthy sc -> fb_err s = 0 ->
  let '(s', es, ev) := f_sync s sc 0 in es = [] /\ fb_err s' = 0.
Proof.
  intros Hh He. unfold f_sync. rewrite He. destruct (fb_init s).
  - pose proof (f_flush_healthy sc (fb_buf s) Hh) as H. destruct (f_flush sc (fb_buf s) 0) as [[[a b] c] d].
    destruct H as (_ & _ & ->). cbn [fb_err err_list Z.eqb app]. auto.
  - cbn [fb_err err_list Z.eqb app]. auto.
Qed.
Lemma f_stop_healthy s sc : healthy sc -> fb_err s = 0 ->
  let '(s', es, ev) := f_stop s sc 0 in es = [] /\ fb_err s' = 0.
Proof.
  intros Hh He. unfold f_stop. destruct (negb (fb_init s)); [auto|]. destruct (fb_stopped s); [cbn [err_list Z.eqb]; auto|].
  apply (f_sync_healthy {| fb_init := fb_init s; fb_stopped := true; fb_buf := fb_buf s; fb_err := fb_err s |} sc Hh He).
Qed.
Lemma f_tick_healthy s sc : healthy sc -> fb_err s = 0 ->
  let '(s', ev) := f_tick s sc 0 in fb_err s' = 0.
Proof.
  intros Hh He. unfold f_tick. destruct (fb_init s && negb (fb_stopped s)); [|exact He].
  pose proof (f_sync_healthy s sc Hh He) as H. destruct (f_sync s sc 0) as [[s1 es] ev]. tauto.
Qed.

Definition healthy_result (o : fop) (r : fres) : Prop :=
  match o with
  | FW p _ => r = FRW (zlen p) 0
  | FSync _ _ | FStop _ _ => r = FRE []
  | FTick _ _ => r = FRT
  end.

Lemma f_run_healthy size : 0 < size -> forall ops s, forallb fop_healthy ops = true -> fb_err s = 0 ->
  Forall2 healthy_result ops (fst (f_run size s ops)).
Proof.
  intros Hsz. induction ops as [|o r IH]; intros s Hh He; [constructor|].
  cbn [forallb] in Hh. apply andb_true_iff in Hh as [Ho Hr].
  destruct o as [p sc|sc se|sc se|sc se]; cbn [f_run fop_healthy] in *.
  - pose proof (f_write_healthy size s sc p Hsz Ho He) as H. pose proof (f_write_contract size s sc p Hsz) as Hc.
    destruct (f_write size s sc p) as [[[s1 n] e] ev]. destruct H as [-> H1]. destruct Hc as [_ Hc].
    specialize (IH s1 Hr H1). destruct (f_run size s1 r) as [rs ev']. cbn [fst] in *.
    constructor; [|exact IH]. cbn [healthy_result]. now rewrite (Hc eq_refl).
  - apply andb_true_iff in Ho as [Ho Hs]. assert (se = 0) by lia. subst se.
    pose proof (f_sync_healthy s sc Ho He) as H. destruct (f_sync s sc 0) as [[s1 es] ev]. destruct H as [-> H1].
    specialize (IH s1 Hr H1). destruct (f_run size s1 r) as [rs ev']. cbn [fst] in *. constructor; [reflexivity|exact IH].
  - apply andb_true_iff in Ho as [Ho Hs]. assert (se = 0) by lia. subst se.
    pose proof (f_stop_healthy s sc Ho He) as H. destruct (f_stop s sc 0) as [[s1 es] ev]. destruct H as [-> H1].
    specialize (IH s1 Hr H1). destruct (f_run size s1 r) as [rs ev']. cbn [fst] in *. constructor; [reflexivity|exact IH].
  - apply andb_true_iff in Ho as [Ho Hs]. assert (se = 0) by lia. subst se.
    pose proof (f_tick_healthy s sc Ho He) as H. destruct (f_tick s sc 0) as [s1 ev].
    specialize (IH s1 Hr H). destruct (f_run size s1 r) as [rs ev']. cbn [fst] in *. constructor; [reflexivity|exact IH].
Qed.

Lemma spec_fres_healthy_of ops : forall rs, Forall2 healthy_result ops rs -> spec_fres_healthy ops (map enc_fres rs) = true.
Proof.
  induction ops as [|o r IH]; intros rs H; inversion H as [|o' x ops' rs' Hc Hr]; subst; [reflexivity|].
  cbn [map]. destruct o as [p sc|sc se|sc se|sc se]; cbn [spec_fres_healthy healthy_result] in *; subst x;
    cbn [enc_fres of_zlist map]; rewrite (IH _ Hr); cbn [sx_eqb]; rewrite ?Z.eqb_refl; reflexivity.
Qed.

(* the wire-level link of case kind (2 4 ..) *)
Lemma wire_bwsf i : (0 <=? sx_z (sx_nth i 2)) = true -> spec_bwsf i (model_bwsf i) = true.
Proof.
  intros H. unfold spec_bwsf, model_bwsf.
  assert (Hs : 0 <= sx_z (sx_nth i 2)) by (apply Z.leb_le; exact H).
  assert (Hp : 0 < eff_size (sx_z (sx_nth i 2))).
  { unfold eff_size. destruct (sx_z (sx_nth i 2) =? 0) eqn:E; cbn; [lia|]. destruct (sx_z (sx_nth i 2) <=? 0) eqn:E2; lia. }
  set (ops := map dec_fop (sx_l (sx_nth i 3))).
  pose proof (f_run_contract _ Hp ops fbw0) as Hc.
  pose proof (f_run_healthy _ Hp ops fbw0) as Hh.
  destruct (f_run (eff_size (sx_z (sx_nth i 2))) fbw0 ops) as [rs ev]. cbn [fst] in Hc, Hh.
  cbn [sx_nth sx_l nth]. rewrite (spec_fres_of_contract ops rs Hc). cbn [andb].
  destruct (forallb fop_healthy ops) eqn:E; [|reflexivity].
  apply spec_fres_healthy_of. apply Hh; reflexivity.
Qed.

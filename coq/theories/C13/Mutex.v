(* C13 -- Lock makes writes and syncs mutually exclusive: for every number of threads,
   every sequence of calls per thread and every schedule, no two wrapped calls overlap.
   Re-homed from the validated skeleton of DESIGN Appendix B (static depth [dep] / [wb] /
   invariant tying the dynamic holder to the static position); the static depth is refined
   to a three-valued phase so that "inside the wrapped call" is a static notion too. *)
From Coq Require Import List Bool Arith Lia ZArith.
Import ListNotations.
From Zap Require Import Base.Wire C13.Model.

Inductive phase := Out | Held | InCall.
Definition ph_step (d : phase) (i : instr) : phase :=
  match i with ILock => Held | IUnlock => Out | IBegin _ => InCall | IEnd _ => Held end.
(* static: phase before executing instruction number pc, starting from phase d *)
Fixpoint ph (d : phase) (code : list instr) (pc : nat) : phase :=
  match pc, code with
  | 0, _ => d
  | S n, i :: r => ph (ph_step d i) r n
  | S n, [] => d
  end.
Definition pre (d : phase) (i : instr) : Prop :=
  match i with ILock => d = Out | IUnlock => d = Held | IBegin _ => d = Held | IEnd _ => d = InCall end.
Definition preb (d : phase) (i : instr) : bool :=
  match i, d with
  | ILock, Out => true | IUnlock, Held => true | IBegin _, Held => true | IEnd _, InCall => true
  | _, _ => false
  end.
(* well-bracketed, non-nested use of the one lock, every call inside the critical section *)
Fixpoint wb (d : phase) (code : list instr) : bool :=
  match code with
  | [] => true
  | i :: r => preb d i && wb (ph_step d i) r
  end.

Lemma ph_0 d code : ph d code 0 = d.
Proof. destruct code; reflexivity. Qed.
Lemma preb_pre d i : preb d i = true -> pre d i.
Proof. destruct i, d; cbn; congruence. Qed.

Lemma ph_at code : forall d, wb d code = true -> forall pc i, nth_error code pc = Some i ->
  pre (ph d code pc) i /\ ph d code (S pc) = ph_step (ph d code pc) i.
Proof.
  induction code as [|j r IH]; intros d W pc i Hn; [destruct pc; discriminate|].
  cbn [wb] in W. apply andb_true_iff in W as [Wp Wr]. destruct pc as [|n].
  - cbn in Hn. injection Hn as ->. rewrite ph_0. cbn [ph]. rewrite ph_0. split; [now apply preb_pre|reflexivity].
  - cbn in Hn. cbn [ph]. exact (IH (ph_step d j) Wr n i Hn).
Qed.

(* the wrapper's code is well-bracketed; the unwrapped sink's is not *)
Lemma wb_compile ops : wb Out (compile ops) = true.
Proof. induction ops as [|k r IH]; [reflexivity|]. cbn. exact IH. Qed.
Lemma wb_unlocked k r : wb Out (compile_unlocked (k :: r)) = false.
Proof. reflexivity. Qed.

Section Prog.
Variable codes : nat -> list instr.            (* thread id -> its code (any number of threads) *)
Hypothesis Hwb : forall t, wb Out (codes t) = true.

Definition pht (s : mstate) (t : nat) : phase := ph Out (codes t) (pcs s t).
Definition phase_is_out (d : phase) : bool := match d with Out => true | _ => false end.

(* the dynamic holder is the thread whose static phase is not Out; the in-flight counter is
   1 exactly when the holder is inside the call; it never exceeded 1 *)
Record Inv (s : mstate) : Prop := {
  inv_holder : forall t, pht s t <> Out <-> holder s = Some t;
  inv_cur : cur s = match holder s with
                    | Some h => match pht s h with InCall => 1 | _ => 0 end
                    | None => 0
                    end;
  inv_max : maxc s <= 1
}.

Lemma inv_init : Inv minit.
Proof.
  constructor; cbn [minit holder cur maxc]; try lia.
  intros t. unfold pht. cbn [minit pcs]. rewrite ph_0. split; [congruence|discriminate].
Qed.

Lemma pht_adv s s' t u :
  pcs s' = adv s t -> pht s' u = if u =? t then ph Out (codes t) (S (pcs s t)) else pht s u.
Proof.
  intros E. unfold pht. rewrite E. unfold adv, upd. destruct (u =? t) eqn:U; [|reflexivity].
  apply Nat.eqb_eq in U. now subst.
Qed.

Lemma inv_step s t : Inv s -> Inv (step codes s t).
Proof.
  intros I. unfold step, next. destruct (nth_error (codes t) (pcs s t)) as [i|] eqn:E; [|exact I].
  destruct (ph_at (codes t) Out (Hwb t) _ _ E) as [Hpre Hnext]. fold (pht s t) in Hpre, Hnext.
  destruct i; cbn [pre ph_step] in Hpre, Hnext.
  - (* Lock *)
    destruct (holder s) as [h|] eqn:Hh; [exact I|].
    set (s' := {| pcs := adv s t; holder := Some t; cur := cur s; maxc := maxc s; fin := fin s |}).
    assert (P : forall u, pht s' u = if u =? t then Held else pht s u).
    { intros u. rewrite (pht_adv s s' t u eq_refl), Hnext. reflexivity. }
    assert (O : forall u, pht s u = Out).
    { intros u. destruct (pht s u) eqn:Eu; [reflexivity| |];
        assert (X : pht s u <> Out) by congruence; apply (inv_holder s I) in X; congruence. }
    constructor; cbn [holder cur maxc s'].
    + intros u. rewrite P. destruct (u =? t) eqn:U.
      * apply Nat.eqb_eq in U. subst. split; [reflexivity|discriminate].
      * apply Nat.eqb_neq in U. rewrite O. split; [congruence|]. intros [= ->]. congruence.
    + rewrite P, Nat.eqb_refl. rewrite (inv_cur s I), Hh. reflexivity.
    + apply (inv_max s I).
  - (* Unlock *)
    assert (Ht : holder s = Some t). { apply (inv_holder s I). congruence. }
    set (s' := {| pcs := adv s t; holder := None; cur := cur s; maxc := maxc s; fin := fin s |}).
    assert (P : forall u, pht s' u = if u =? t then Out else pht s u).
    { intros u. rewrite (pht_adv s s' t u eq_refl), Hnext. reflexivity. }
    constructor; cbn [holder cur maxc s'].
    + intros u. rewrite P. destruct (u =? t) eqn:U.
      * split; [congruence|discriminate].
      * apply Nat.eqb_neq in U. split; [|discriminate]. intros X. apply (inv_holder s I) in X. congruence.
    + rewrite (inv_cur s I), Ht, Hpre. reflexivity.
    + apply (inv_max s I).
  - (* call begins *)
    assert (Ht : holder s = Some t). { apply (inv_holder s I). congruence. }
    set (s' := {| pcs := adv s t; holder := holder s; cur := S (cur s);
                  maxc := Nat.max (maxc s) (S (cur s)); fin := fin s |}).
    assert (P : forall u, pht s' u = if u =? t then InCall else pht s u).
    { intros u. rewrite (pht_adv s s' t u eq_refl), Hnext. reflexivity. }
    assert (C : cur s = 0). { rewrite (inv_cur s I), Ht, Hpre. reflexivity. }
    constructor; cbn [holder cur maxc s'].
    + intros u. rewrite P. destruct (u =? t) eqn:U.
      * apply Nat.eqb_eq in U. subst. rewrite Ht. split; [reflexivity|discriminate].
      * apply (inv_holder s I).
    + rewrite Ht, P, Nat.eqb_refl, C. reflexivity.
    + rewrite C. pose proof (inv_max s I). lia.
  - (* call ends *)
    assert (Ht : holder s = Some t). { apply (inv_holder s I). congruence. }
    set (s' := {| pcs := adv s t; holder := holder s; cur := pred (cur s); maxc := maxc s; fin := S (fin s) |}).
    assert (P : forall u, pht s' u = if u =? t then Held else pht s u).
    { intros u. rewrite (pht_adv s s' t u eq_refl), Hnext. reflexivity. }
    assert (C : cur s = 1). { rewrite (inv_cur s I), Ht, Hpre. reflexivity. }
    constructor; cbn [holder cur maxc s'].
    + intros u. rewrite P. destruct (u =? t) eqn:U.
      * apply Nat.eqb_eq in U. subst. rewrite Ht. split; [reflexivity|discriminate].
      * apply (inv_holder s I).
    + rewrite Ht, P, Nat.eqb_refl, C. reflexivity.
    + apply (inv_max s I).
Qed.

Lemma inv_run_from sched : forall s, Inv s -> Inv (fold_left (step codes) sched s).
Proof. induction sched as [|t r IH]; intros s I; [exact I|]. cbn [fold_left]. apply IH. now apply inv_step. Qed.
Lemma inv_run sched : Inv (run codes sched).
Proof. apply inv_run_from, inv_init. Qed.

Lemma in_call_phase s t : in_call codes s t -> pht s t = InCall.
Proof.
  intros [k Hk]. unfold next in Hk. destruct (ph_at (codes t) Out (Hwb t) _ _ Hk) as [Hpre _]. exact Hpre.
Qed.

Theorem lock_mutex sched :
  ~ overlap codes (run codes sched) /\ maxc (run codes sched) <= 1 /\ cur (run codes sched) <= 1.
Proof.
  pose proof (inv_run sched) as I. split; [|split].
  - intros (t1 & t2 & Hne & C1 & C2). apply in_call_phase in C1, C2.
    assert (H1 : holder (run codes sched) = Some t1) by (apply (inv_holder _ I); congruence).
    assert (H2 : holder (run codes sched) = Some t2) by (apply (inv_holder _ I); congruence).
    congruence.
  - apply (inv_max _ I).
  - rewrite (inv_cur _ I). destruct (holder (run codes sched)) as [h|]; [destruct (pht _ h)|]; lia.
Qed.
End Prog.

(* the program of the property: any number of threads, each any sequence of Write/Sync
   calls through one Lock(sink) *)
Theorem lock_mutex_prog (prog : list (list Z)) (sched : list nat) :
  let s := run (locked_prog prog) sched in
  ~ overlap (locked_prog prog) s /\ maxc s <= 1 /\ cur s <= 1.
Proof. apply lock_mutex. intros t. apply wb_compile. Qed.

(* the model can express the failure: on the bare sink two calls overlap *)
Lemma unlocked_refuted :
  exists prog sched, overlap (unlocked_prog prog) (run (unlocked_prog prog) sched) /\
                     maxc (run (unlocked_prog prog) sched) = 2.
Proof.
  exists [[0%Z]; [0%Z]], [0; 1]. split; [|reflexivity].
  exists 0, 1. split; [discriminate|]. split; exists 0%Z; reflexivity.
Qed.

(* the trace shape of the model of lockedWriteSyncer is the thread code above *)
Lemma locked_trace v id hs n we se p :
  snd (write v (Locked (Leaf id hs n we se)) p) = [ELock; EWrite id p; EUnlock].
Proof. reflexivity. Qed.

(* C13 -- the writers zap implements report len(p), nil when they accepted p. *)
From Coq Require Import List ZArith Bool Lia ZifyBool.
From Coq.Strings Require Import Byte.
Import ListNotations.
From Zap Require Import Base.Wire C13.Model C13.Multi.
From Zap Require C17.Model C17.Proofs.
Local Open Scope Z_scope.

(* ---------------- trimming ---------------- *)
Fixpoint dropw (f : byte -> bool) (p : bytes) : bytes :=
  match p with [] => [] | b :: r => if f b then dropw f r else p end.
Lemma drop_space_dropw p : drop_space p = dropw ascii_space p.
Proof. induction p as [|b r IH]; cbn [drop_space dropw]; [reflexivity|]. now rewrite IH. Qed.
Lemma drop_nl_dropw p : drop_nl p = dropw (fun b => Byte.eqb b nl) p.
Proof. induction p as [|b r IH]; cbn [drop_nl dropw]; [reflexivity|]. now rewrite IH. Qed.

Lemma dropw_split f p : exists a, p = a ++ dropw f p /\ forallb f a = true.
Proof.
  induction p as [|b r (a & Ha & Hf)]; [exists []; auto|]. cbn [dropw]. destruct (f b) eqn:E.
  - exists (b :: a). cbn [app forallb]. rewrite E, Hf. split; [now f_equal|reflexivity].
  - exists []. auto.
Qed.
Lemma dropw_head f p b r : dropw f p = b :: r -> f b = false.
Proof.
  induction p as [|x p IH]; cbn [dropw]; [discriminate|]. destruct (f x) eqn:E; [exact IH|].
  intros [= -> _]. exact E.
Qed.
Lemma forallb_rev {A} (f : A -> bool) l : forallb f l = true -> forallb f (rev l) = true.
Proof. rewrite !forallb_forall. intros H x Hx. apply H. now apply in_rev. Qed.

(* trimming at both ends: p = a ++ t ++ b, a and b all "space", t neither starts nor ends with one *)
Definition trim2 (f : byte -> bool) (p : bytes) : bytes := rev (dropw f (rev (dropw f p))).
Lemma trim2_spec f p :
  exists a b, p = a ++ trim2 f p ++ b /\ forallb f a = true /\ forallb f b = true /\
    (forall x r, trim2 f p = x :: r -> f x = false) /\ (forall x r, rev (trim2 f p) = x :: r -> f x = false).
Proof.
  destruct (dropw_split f p) as (a & Ha & Hfa).
  destruct (dropw_split f (rev (dropw f p))) as (c & Hc & Hfc).
  set (q := dropw f p) in *. set (u := dropw f (rev q)) in *.
  assert (Hq : q = rev u ++ rev c).
  { rewrite <- (rev_involutive q), Hc, rev_app_distr. reflexivity. }
  exists a, (rev c). unfold trim2. fold q. fold u. repeat split.
  - rewrite Ha at 1. now rewrite Hq.
  - exact Hfa.
  - now apply forallb_rev.
  - intros x r Hx. destruct (rev u) as [|y t] eqn:Eu; [discriminate|]. injection Hx as -> ->.
    apply (dropw_head f p x (r ++ rev c)). fold q. rewrite Hq. reflexivity.
  - intros x r Hx. rewrite rev_involutive in Hx. apply (dropw_head f (rev q) x r). exact Hx.
Qed.
Lemma ascii_trim_trim2 p : ascii_trim p = trim2 ascii_space p.
Proof. unfold ascii_trim, trim2. now rewrite !frev_rev, !drop_space_dropw. Qed.

(* trimming at the right end only *)
Lemma trim_right_nl_spec p :
  exists c, p = trim_right_nl p ++ c /\ all_nl c = true /\
    (forall x r, rev (trim_right_nl p) = x :: r -> Byte.eqb x nl = false).
Proof.
  destruct (dropw_split (fun b => Byte.eqb b nl) (rev p)) as (c & Hc & Hfc).
  unfold trim_right_nl. rewrite !frev_rev, drop_nl_dropw. set (u := dropw _ (rev p)) in *.
  exists (rev c). repeat split.
  - rewrite <- (rev_involutive p), Hc, rev_app_distr at 1. reflexivity.
  - apply forallb_rev in Hfc. clear - Hfc. induction (rev c) as [|b r IH]; [reflexivity|].
    cbn [forallb all_nl] in *. apply andb_true_iff in Hfc as [-> H]. now apply IH.
  - intros x r Hx. rewrite rev_involutive in Hx.
    exact (dropw_head (fun b => Byte.eqb b nl) (rev p) x r Hx).
Qed.

Lemma strip_ok_app l s : strip_ok l (l ++ s) = all_nl s.
Proof.
  induction l as [|a l IH]; cbn [app strip_ok].
  - destruct s; reflexivity.
  - now rewrite byte_eqb_refl, IH.
Qed.
Lemma testing_stripped p : stripped (trim_right_nl p) p = true.
Proof.
  destruct (trim_right_nl_spec p) as (c & Hp & Hc & Hl). unfold stripped.
  rewrite Hp at 2. rewrite strip_ok_app, Hc. cbn [andb]. unfold ends_nl. rewrite frev_rev.
  destruct (rev (trim_right_nl p)) as [|x r] eqn:E; [reflexivity|]. now rewrite (Hl x r eq_refl).
Qed.

(* ---------------- std-log bridge ---------------- *)
Definition stdlog_accept_stmt (v : version) : Prop :=
  forall en p t, let '(n, e, ms) := stdlog_write v en p t in
    n = zlen p /\ e = 0 /\ ms = (if en then [trim_space p t] else []).
Lemma stdlog_accept_fixed : stdlog_accept_stmt Fixed.
Proof. intros en p t. cbn [stdlog_write]. auto. Qed.
(* "  hello \n" : the original returned 5 for a 9-byte write, with a nil error *)
Definition sp_hello_nl : bytes := [x20; x20; x68; x65; x6c; x6c; x6f; x20; x0a].
Lemma stdlog_orig_witness : stdlog_write Orig true sp_hello_nl [] = (5, 0, [hello]) /\ zlen sp_hello_nl = 9.
Proof. vm_compute. auto. Qed.
Lemma stdlog_accept_orig_refuted : ~ stdlog_accept_stmt Orig.
Proof. intros H. specialize (H true sp_hello_nl []). vm_compute in H. destruct H as [H _]. discriminate. Qed.

(* ---------------- TestingWriter ---------------- *)
Lemma testing_accept mf p :
  testing_write mf p = (zlen p, 0, [trim_right_nl p], mf).
Proof. reflexivity. Qed.

(* ---------------- zapio.Writer (C17's model) ---------------- *)
Lemma write_lens_writes ps : C17.Model.write_lens (map C17.Model.W ps) = map (@length byte) ps.
Proof.
  unfold C17.Model.write_lens. induction ps as [|p r IH]; [reflexivity|].
  cbn [map concat app]. cbn [map concat] in IH. now rewrite IH.
Qed.
Lemma zapio_accept en ps : zapio_writes en ps = map zlen ps.
Proof.
  unfold zapio_writes, C17.Model.returns. rewrite C17.Proofs.returns_thm, write_lens_writes, map_map.
  apply map_ext. intros p. now rewrite zlen_length.
Qed.

(* ---------------- BufferedWriteSyncer over an accepting sink ---------------- *)
Definition sink_of (ev : list sev) : bytes := concat (map (fun e => match e with SW b => b | SS => [] end) ev).
Lemma sink_of_app a b : sink_of (a ++ b) = sink_of a ++ sink_of b.
Proof. unfold sink_of. now rewrite map_app, concat_app. Qed.

Lemma sink_one b : sink_of [SW b] = b.
Proof. unfold sink_of. cbn [map concat]. apply app_nil_r. Qed.

Definition need (sz : Z) (buf p : bytes) : nat :=
  if zlen p >? sz - zlen buf then (if is_nil buf then 2 else 3)%nat else 1%nat.

Lemma zlen_firstn k (p : bytes) : (k <= length p)%nat -> zlen (firstn k p) = Z.of_nat k.
Proof. intros H. rewrite zlen_length, firstn_length. lia. Qed.

Lemma bufio_write_spec fuel : forall sz buf p nn ev, 0 < sz -> zlen buf <= sz -> (need sz buf p <= fuel)%nat ->
  let '(buf', nn', ev') := bufio_write fuel sz buf p nn ev in
  nn' = nn + zlen p /\ zlen buf' <= sz /\ sink_of ev' ++ buf' = sink_of ev ++ buf ++ p.
Proof.
  induction fuel as [|f IH]; intros sz buf p nn ev Hsz Hb Hn.
  - unfold need in Hn. destruct (zlen p >? sz - zlen buf); [destruct (is_nil buf)|]; lia.
  - cbn [bufio_write]. unfold need in Hn. destruct (zlen p >? sz - zlen buf) eqn:Efit.
    + destruct (is_nil buf) eqn:Enil.
      * destruct buf; [|discriminate].
        specialize (IH sz [] [] (nn + zlen p) (ev ++ [SW p]) Hsz Hb).
        assert (Hn' : (need sz [] [] <= f)%nat).
        { unfold need. rewrite zlen_nil. destruct (0 >? sz - 0) eqn:E; [lia|lia]. }
        specialize (IH Hn'). destruct (bufio_write f sz [] [] (nn + zlen p) (ev ++ [SW p])) as [[b' n'] e'].
        destruct IH as (H1 & H2 & H3). rewrite zlen_nil in H1. repeat split; [lia|exact H2|].
        rewrite H3, sink_of_app, sink_one. cbn [app]. now rewrite app_nil_r.
      * pose proof (zlen_nonneg buf) as Hb0. pose proof (zlen_nonneg p) as Hp0.
        set (k := Z.to_nat (sz - zlen buf)).
        assert (Hk : (k <= length p)%nat). { unfold k. rewrite zlen_length in Efit. lia. }
        assert (Hsk : zlen (skipn k p) = zlen p - Z.of_nat k).
        { rewrite !zlen_length, skipn_length. lia. }
        specialize (IH sz [] (skipn k p) (nn + zlen (firstn k p)) (ev ++ [SW (buf ++ firstn k p)]) Hsz).
        rewrite zlen_nil in IH. specialize (IH ltac:(lia)).
        assert (Hn' : (need sz [] (skipn k p) <= f)%nat).
        { unfold need. cbn [is_nil]. destruct (zlen (skipn k p) >? sz - zlen []); lia. }
        specialize (IH Hn'). destruct (bufio_write f sz [] (skipn k p) _ _) as [[b' n'] e'].
        destruct IH as (H1 & H2 & H3). rewrite (zlen_firstn k p Hk) in H1. repeat split; [lia|exact H2|].
        rewrite H3, sink_of_app, sink_one. cbn [app]. rewrite <- !app_assoc. f_equal. f_equal. apply firstn_skipn.
    + split; [reflexivity|split; [rewrite zlen_app; lia|now rewrite app_assoc]].
Qed.

Lemma need_le_3 sz buf p : (need sz buf p <= 3)%nat.
Proof. unfold need. destruct (zlen p >? sz - zlen buf); [destruct (is_nil buf)|]; lia. Qed.

Lemma flush_keeps buf : let '(b', ev) := bufio_flush buf in sink_of ev ++ b' = buf /\ zlen b' <= zlen buf.
Proof.
  unfold bufio_flush. destruct (is_nil buf) eqn:E.
  - destruct buf; [|discriminate]. split; [reflexivity|lia].
  - rewrite sink_one. rewrite app_nil_r. split; [reflexivity|]. rewrite zlen_nil. apply zlen_nonneg.
Qed.
Lemma bws_write_spec sz s p : 0 < sz -> zlen (b_buf s) <= sz ->
  let '(s', n, ev) := bws_write sz s p in
  n = zlen p /\ zlen (b_buf s') <= sz /\ sink_of ev ++ b_buf s' = b_buf s ++ p.
Proof.
  intros Hsz Hb. unfold bws_write.
  destruct ((zlen p >? sz - zlen (b_buf s)) && (zlen (b_buf s) >? 0)) eqn:Epre.
  - unfold bufio_flush at 1. destruct (is_nil (b_buf s)) eqn:Enil.
    + destruct (b_buf s); [|discriminate]. rewrite zlen_nil in Epre.
      apply andb_true_iff in Epre as [_ E]. lia.
    + pose proof (bufio_write_spec 3 sz [] p 0 [] Hsz ltac:(rewrite zlen_nil; lia) (need_le_3 _ _ _)) as H.
      destruct (bufio_write 3 sz [] p 0 []) as [[b' n'] e']. destruct H as (H1 & H2 & H3).
      pose proof (flush_keeps b') as Hf.
      destruct (b_stopped s); [destruct (bufio_flush b') as [b3 e3]; destruct Hf as [F1 F2]|]; cbn [b_buf].
      * repeat split; [lia|lia|]. rewrite !sink_of_app, <- !app_assoc, F1, H3, sink_one.
        unfold sink_of. cbn [map concat app]. reflexivity.
      * repeat split; [lia|exact H2|]. rewrite !sink_of_app, <- !app_assoc. unfold sink_of at 3. cbn [map concat app]. rewrite H3, sink_one.
        unfold sink_of. cbn [map concat app]. reflexivity.
  - pose proof (bufio_write_spec 3 sz (b_buf s) p 0 [] Hsz Hb (need_le_3 _ _ _)) as H.
    destruct (bufio_write 3 sz (b_buf s) p 0 []) as [[b' n'] e']. destruct H as (H1 & H2 & H3).
    pose proof (flush_keeps b') as Hf.
    destruct (b_stopped s); [destruct (bufio_flush b') as [b3 e3]; destruct Hf as [F1 F2]|]; cbn [b_buf app].
    + repeat split; [lia|lia|]. now rewrite sink_of_app, <- app_assoc, F1.
    + repeat split; [lia|exact H2|]. rewrite sink_of_app. unfold sink_of at 2. cbn [map concat]. now rewrite app_nil_r.
Qed.

Lemma bws_sync_spec sz s : zlen (b_buf s) <= sz ->
  let '(s', ev) := bws_sync s in
  zlen (b_buf s') <= sz /\ sink_of ev ++ b_buf s' = b_buf s.
Proof.
  intros Hb. unfold bws_sync. destruct (b_init s).
  - unfold bufio_flush. destruct (is_nil (b_buf s)) eqn:E; cbn [b_buf].
    + destruct (b_buf s); [|discriminate]. split; [exact Hb|reflexivity].
    + split; [rewrite zlen_nil; pose proof (zlen_nonneg (b_buf s)); lia|].
      rewrite sink_of_app, sink_one. unfold sink_of. cbn [map concat app]. now rewrite !app_nil_r.
  - cbn [b_buf]. split; [exact Hb|reflexivity].
Qed.
Lemma bws_stop_spec sz s : zlen (b_buf s) <= sz ->
  let '(s', ev) := bws_stop s in
  zlen (b_buf s') <= sz /\ sink_of ev ++ b_buf s' = b_buf s.
Proof.
  intros Hb. unfold bws_stop. destruct (negb (b_init s)); [split; [exact Hb|reflexivity]|].
  destruct (b_stopped s).
  - split; [exact Hb|reflexivity].
  - apply (bws_sync_spec sz {| b_init := b_init s; b_stopped := true; b_buf := b_buf s |}). exact Hb.
Qed.

(* every Write of every history returns len(p) (the error is nil by construction of the model:
   the sink accepts); what reached the sink is a prefix of what was written *)
Lemma bws_run_spec sz : 0 < sz -> forall ops s, zlen (b_buf s) <= sz ->
  fst (bws_run sz s ops) = bop_lens ops /\
  exists rest, sink_of (snd (bws_run sz s ops)) ++ rest = b_buf s ++ bop_bytes ops.
Proof.
  intros Hsz. induction ops as [|o r IH]; intros s Hb.
  - cbn. split; [reflexivity|]. exists (b_buf s). now rewrite app_nil_r.
  - destruct o as [p| |]; cbn [bws_run].
    + pose proof (bws_write_spec sz s p Hsz Hb) as H. destruct (bws_write sz s p) as [[s1 n] ev].
      destruct H as (H1 & H2 & H3). destruct (IH s1 H2) as (I1 & rest & I2).
      destruct (bws_run sz s1 r) as [ns ev']. cbn [fst snd] in *. split.
      * unfold bop_lens in *. cbn [map concat app]. now rewrite H1, I1.
      * exists rest. unfold bop_bytes in *. cbn [map concat]. rewrite sink_of_app, <- app_assoc, I2.
        rewrite !app_assoc. f_equal. exact H3.
    + pose proof (bws_sync_spec sz s Hb) as H. destruct (bws_sync s) as [s1 ev].
      destruct H as (H2 & H3). destruct (IH s1 H2) as (I1 & rest & I2).
      destruct (bws_run sz s1 r) as [ns ev']. cbn [fst snd] in *. split.
      * exact I1.
      * exists rest. unfold bop_bytes in *. cbn [map concat app]. rewrite sink_of_app, <- app_assoc, I2.
        rewrite app_assoc. f_equal. exact H3.
    + pose proof (bws_stop_spec sz s Hb) as H. destruct (bws_stop s) as [s1 ev].
      destruct H as (H2 & H3). destruct (IH s1 H2) as (I1 & rest & I2).
      destruct (bws_run sz s1 r) as [ns ev']. cbn [fst snd] in *. split.
      * exact I1.
      * exists rest. unfold bop_bytes in *. cbn [map concat app]. rewrite sink_of_app, <- app_assoc, I2.
        rewrite app_assoc. f_equal. exact H3.
Qed.

Lemma eff_size_pos size : 0 <= size -> 0 < eff_size size.
Proof. intros H. unfold eff_size. destruct (size =? 0) eqn:E; cbn; [lia|]. destruct (size <=? 0) eqn:E2; lia. Qed.

(* C13 -- zap's writers and WriteSyncer combinators honour the io.Writer contract.

   Models (following the Go text of /repo):
     A. zapcore/write_syncer.go: AddSync, Lock, lockedWriteSyncer, writerWrapper,
        NewMultiWriteSyncer, multiWriteSyncer.Write/Sync; writer.go: CombineWriteSyncers.
        [version Orig] is the count fold as it was before the fix ("nWritten == 0 && n != 0");
        [version Fixed] is the repaired fold (start from len(p), keep the minimum).
     B. global.go: loggerWriter.Write (Orig: returns the length of the TRIMMED text;
        Fixed: n := len(p) before trimming); zaptest/logger.go: TestingWriter.Write;
        zapio/writer.go: Writer.Write (imported from C17.Model);
        zapcore/buffered_write_syncer.go: Write/Sync/Stop over an accepting sink
        (small model; the full one belongs to C12), and Write/Sync/Stop/flushLoop with
        bufio.Writer's Write/Flush and sticky error over a scripted (faulty) sink.
     C. The interleaving model of lockedWriteSyncer (Lock; wrapped call; Unlock) re-homed
        from DESIGN Appendix B, with the in-flight counter the harness sink keeps.
     D. Handles: a lockedWriteSyncer as a reference to a lock cell (Lock on an already locked
        syncer returns the same cell), handle graphs derived from one locked syncer by
        Lock / AddSync / NewMultiWriteSyncer / CombineWriteSyncers, and a machine with any
        number of mutexes on which threads call the sink through their handles.
   No proofs in this file. *)
From Coq Require Import List ZArith Bool Lia.
From Coq.Strings Require Import Byte.
Import ListNotations.
From Zap Require Import Base.Wire.
From Zap Require C17.Model.
Local Open Scope Z_scope.

(* len(p) as a Z (tail recursive: payloads of several 100 kB go through the extracted code) *)
Fixpoint zlen_acc (l : bytes) (a : Z) : Z := match l with [] => a | _ :: r => zlen_acc r (a + 1) end.
Definition zlen (l : bytes) : Z := zlen_acc l 0.
Definition is_nil {A} (l : list A) : bool := match l with [] => true | _ => false end.
(* linear-time reverse (List.rev is quadratic) *)
Definition frev {A} (l : list A) : list A := rev_append l [].

(* ================= A. WriteSyncer combinators ================= *)

(* An error value is the flattened list of its atomic errors (go.uber.org/multierr):
   [] is nil, multierr.Append is list append. *)
Definition errs := list Z.
Definition err_append (a b : errs) : errs := a ++ b.

(* The objects of write_syncer.go.  A [Leaf] is a user sink: [hs] tells whether its
   concrete type has a Sync method; [n], [we] are what its Write returns on this call,
   [se] what its Sync returns.  [Discard] is io.Discard (no Sync method). *)
Inductive ws :=
| Leaf (id : Z) (hs : bool) (n : Z) (we se : errs)
| Discard
| Wrapper (w : ws)                      (* writerWrapper{w} *)
| Locked (w : ws)                       (* &lockedWriteSyncer{ws: w} *)
| Multi (l : list ws).                  (* multiWriteSyncer(l) *)

Inductive event := ELock | EUnlock | EWrite (id : Z) (p : bytes) | ESync (id : Z).

Inductive version := Orig | Fixed.

(* multiWriteSyncer.Write, the count fold.
   Orig:   nWritten := 0;  if nWritten == 0 && n != 0 { nWritten = n } else if n < nWritten { nWritten = n }
   Fixed:  nWritten := len(p);  if n < nWritten { nWritten = n } *)
Definition count_init (v : version) (p : bytes) : Z :=
  match v with Orig => 0 | Fixed => zlen p end.
Definition count_step (v : version) (nW n : Z) : Z :=
  match v with
  | Orig => if (nW =? 0) && negb (n =? 0) then n else if n <? nW then n else nW
  | Fixed => if n <? nW then n else nW
  end.

Definition wres := (Z * errs * list event)%type.
Definition sres := (errs * list event)%type.

(* for _, w := range ws { n, err := w.Write(p); writeErr = multierr.Append(writeErr, err); ... } *)
Definition multi_write_loop (call : ws -> wres) (v : version) : list ws -> Z -> errs -> list event -> wres :=
  fix go (l : list ws) (nW : Z) (e : errs) (ev : list event) : wres :=
    match l with
    | [] => (nW, e, ev)
    | w :: r => let '(n, err, ev') := call w in
                go r (count_step v nW n) (err_append e err) (ev ++ ev')
    end.
(* for _, w := range ws { err = multierr.Append(err, w.Sync()) } *)
Definition multi_sync_loop (call : ws -> sres) : list ws -> errs -> list event -> sres :=
  fix go (l : list ws) (e : errs) (ev : list event) : sres :=
    match l with
    | [] => (e, ev)
    | w :: r => let '(err, ev') := call w in go r (err_append e err) (ev ++ ev')
    end.

Fixpoint write (v : version) (w : ws) (p : bytes) {struct w} : wres :=
  match w with
  | Leaf id _ n we _ => (n, we, [EWrite id p])
  | Discard => (zlen p, [], [])
  | Wrapper w' => write v w' p                                   (* embedded io.Writer *)
  | Locked w' => let '(n, e, ev) := write v w' p in              (* s.Lock(); n, err := s.ws.Write(bs); s.Unlock() *)
                 (n, e, ELock :: ev ++ [EUnlock])
  | Multi l => multi_write_loop (fun w' => write v w' p) v l (count_init v p) [] []
  end.

Fixpoint sync (w : ws) {struct w} : sres :=
  match w with
  | Leaf id hs _ _ se => if hs then (se, [ESync id]) else ([], [])   (* hs = false: no Sync method (ill-typed call) *)
  | Discard => ([], [])                                                (* no Sync method (ill-typed call) *)
  | Wrapper _ => ([], [])                                              (* func (w writerWrapper) Sync() error { return nil } *)
  | Locked w' => let '(e, ev) := sync w' in (e, ELock :: ev ++ [EUnlock])
  | Multi l => multi_sync_loop (fun w' => sync w') l [] []
  end.

(* the code before / after the fix, by name *)
Definition write_orig : ws -> bytes -> wres := write Orig.
Definition write_fixed : ws -> bytes -> wres := write Fixed.

(* Go's static typing of the objects: a WriteSyncer-typed field holds something with a Sync method *)
Definition is_syncer (w : ws) : bool :=
  match w with Leaf _ hs _ _ _ => hs | Discard => false | _ => true end.
Fixpoint well_typed (w : ws) : bool :=
  match w with
  | Leaf _ _ _ _ _ => true
  | Discard => true
  | Wrapper w' => well_typed w'
  | Locked w' => is_syncer w' && well_typed w'
  | Multi l => forallb (fun x => is_syncer x && well_typed x) l
  end.

(* the constructor functions *)
Definition add_sync (w : ws) : ws := if is_syncer w then w else Wrapper w.       (* type switch on WriteSyncer *)
Definition lock (w : ws) : ws := match w with Locked _ => w | _ => Locked w end.  (* no need to layer on another lock *)
Definition new_multi (l : list ws) : ws := match l with [w] => w | _ => Multi l end.
Definition combine (l : list ws) : ws :=                                          (* zap.CombineWriteSyncers *)
  match l with [] => add_sync Discard | _ => lock (new_multi l) end.

(* what the recording sinks observe: each sink call with the number of zap mutexes held around it *)
Definition obs_w (id : Z) (p : bytes) (d : Z) : sx := SL [SZ id; SB p; SZ d].
Definition obs_s (id : Z) (d : Z) : sx := SL [SZ id; SZ d].
Fixpoint observe (d : Z) (ev : list event) : list sx :=
  match ev with
  | [] => []
  | ELock :: r => observe (d + 1) r
  | EUnlock :: r => observe (d - 1) r
  | EWrite id p :: r => obs_w id p d :: observe d r
  | ESync id :: r => obs_s id d :: observe d r
  end.

(* construction programs: how a test (or zap itself) builds a WriteSyncer out of sinks *)
Inductive expr :=
| XLeaf (id : Z) (hs : bool) (n : Z) (we se : errs)
| XDiscard
| XAddSync (e : expr)
| XLock (e : expr)
| XNewMulti (es : list expr)
| XCombine (es : list expr).

Fixpoint eval (e : expr) : ws :=
  match e with
  | XLeaf id hs n we se => Leaf id hs n we se
  | XDiscard => Discard
  | XAddSync e' => add_sync (eval e')
  | XLock e' => lock (eval e')
  | XNewMulti es => new_multi (map eval es)
  | XCombine es => combine (map eval es)
  end.

(* flat multi-syncers: the quantifier of the property ("every number and order of sinks,
   every per-sink outcome vector") *)
Record sink := { s_id : Z; s_n : Z; s_we : errs; s_se : errs }.
Definition leaf_of (s : sink) : ws := Leaf (s_id s) true (s_n s) (s_we s) (s_se s).
Definition multi_of (l : list sink) : ws := new_multi (map leaf_of l).

(* ---------- specification (independent of [ws], [write], [sync]) ---------- *)

(* "the smallest count any sink reported" (all of p when there is no sink) *)
Definition smallest (lenp : Z) (counts : list Z) : Z :=
  match counts with [] => lenp | c :: r => fold_left Z.min r c end.

(* static typing of a construction program *)
Definition x_syncer (e : expr) : bool :=
  match e with XLeaf _ hs _ _ _ => hs | XDiscard => false | _ => true end.
Fixpoint x_typed (e : expr) : bool :=
  match e with
  | XLeaf _ _ _ _ _ => true
  | XDiscard => true
  | XAddSync e' => x_typed e'
  | XLock e' => x_syncer e' && x_typed e'
  | XNewMulti es => forallb (fun x => x_syncer x && x_typed x) es
  | XCombine es => forallb (fun x => x_syncer x && x_typed x) es
  end.
(* every sink outcome is a legal io.Writer answer: 0 <= n <= len p *)
Fixpoint x_dom (lenp : Z) (e : expr) : bool :=
  match e with
  | XLeaf _ _ n _ _ => (0 <=? n) && (n <=? lenp)
  | XDiscard => true
  | XAddSync e' => x_dom lenp e'
  | XLock e' => x_dom lenp e'
  | XNewMulti es => forallb (x_dom lenp) es
  | XCombine es => forallb (x_dom lenp) es
  end.

(* the program denotes an already locked syncer (so Lock must return it unchanged) *)
Fixpoint x_locked (e : expr) : bool :=
  match e with
  | XLock _ => true
  | XAddSync e' => x_locked e'
  | XNewMulti [e'] => x_locked e'
  | XCombine (_ :: _) => true
  | _ => false
  end.

Definition rres := (Z * errs * list sx)%type.
Definition ref_multi (lenp : Z) (rs : list rres) : rres :=
  (smallest lenp (map (fun r => fst (fst r)) rs),
   concat (map (fun r => snd (fst r)) rs),
   concat (map (fun r => snd r) rs)).
Definition ref_multi_s (rs : list (errs * list sx)) : errs * list sx :=
  (concat (map fst rs), concat (map snd rs)).

(* reference semantics of a Write through the constructed object, under [d] zap mutexes:
   AddSync and Lock relay; Lock adds exactly one mutex unless its argument is already locked;
   a multi-syncer hands p to every sink, returns the smallest count and all errors in order *)
Fixpoint ref_write (e : expr) (p : bytes) (d : Z) {struct e} : rres :=
  match e with
  | XLeaf id _ n we _ => (n, we, [obs_w id p d])
  | XDiscard => (zlen p, [], [])
  | XAddSync e' => ref_write e' p d
  | XLock e' => ref_write e' p (if x_locked e' then d else d + 1)
  | XNewMulti es => ref_multi (zlen p) (map (fun x => ref_write x p d) es)
  | XCombine es =>
      match es with
      | [] => (zlen p, [], [])
      | _ => let d' := if x_locked (XNewMulti es) then d else d + 1 in
             ref_multi (zlen p) (map (fun x => ref_write x p d') es)
      end
  end.
(* Sync: reaches every sink that has a Sync method (a no-op is added otherwise), all errors in order *)
Fixpoint ref_sync (e : expr) (d : Z) {struct e} : errs * list sx :=
  match e with
  | XLeaf id hs _ _ se => if hs then (se, [obs_s id d]) else ([], [])
  | XDiscard => ([], [])
  | XAddSync e' => ref_sync e' d
  | XLock e' => ref_sync e' (if x_locked e' then d else d + 1)
  | XNewMulti es => ref_multi_s (map (fun x => ref_sync x d) es)
  | XCombine es =>
      match es with
      | [] => ([], [])
      | _ => let d' := if x_locked (XNewMulti es) then d else d + 1 in
             ref_multi_s (map (fun x => ref_sync x d') es)
      end
  end.

(* ================= B. the writers zap implements ================= *)

Definition nl : byte := x0a.

(* bytes.TrimSpace on ASCII input: strips \t \n \v \f \r and space at both ends.
   For input containing bytes >= 0x80 (Unicode white space, invalid UTF-8) the
   standard library's answer travels in the case (oracle). *)
Definition ascii_space (b : byte) : bool :=
  match b with x09 | x0a | x0b | x0c | x0d | x20 => true | _ => false end.
Fixpoint drop_space (p : bytes) : bytes :=
  match p with [] => [] | b :: r => if ascii_space b then drop_space r else p end.
Definition ascii_trim (p : bytes) : bytes := frev (drop_space (frev (drop_space p))).
Definition is_ascii (b : byte) : bool := Z_of_byte b <? 128.
Definition all_ascii (p : bytes) : bool := forallb is_ascii p.
Definition trim_space (p oracle : bytes) : bytes := if all_ascii p then ascii_trim p else oracle.

(* loggerWriter.Write:  p = bytes.TrimSpace(p); l.logFunc(string(p)); return len(p), nil
   (Orig: len of the trimmed p;  Fixed: n := len(p) taken before the trim).
   [en]: the logger's core enables the level, i.e. the message reaches the core. *)
Definition stdlog_write (v : version) (en : bool) (p oracle : bytes) : Z * Z * list bytes :=
  let t := trim_space p oracle in
  (match v with Orig => zlen t | Fixed => zlen p end, 0, if en then [t] else []).

Definition stdlog_write_orig : bool -> bytes -> bytes -> Z * Z * list bytes := stdlog_write Orig.

(* TestingWriter.Write:  n = len(p); p = bytes.TrimRight(p, "\n"); w.t.Logf("%s", p);
   if w.markFailed { w.t.Fail() }; return n, nil *)
Fixpoint drop_nl (p : bytes) : bytes :=
  match p with [] => [] | b :: r => if Byte.eqb b nl then drop_nl r else p end.
Definition trim_right_nl (p : bytes) : bytes := frev (drop_nl (frev p)).
Definition testing_write (mf : bool) (p : bytes) : Z * Z * list bytes * bool :=
  (zlen p, 0, [trim_right_nl p], mf).

(* zapio.Writer: the C17 model; one writer, a sequence of Write calls *)
Definition zapio_writes (en : bool) (ps : list bytes) : list Z :=
  map Z.of_nat (C17.Model.returns en (map C17.Model.W ps)).

(* BufferedWriteSyncer over a sink that accepts every write (returns len, nil) and whose
   Sync succeeds; the ticker never fires. *)
Inductive sev := SW (b : bytes) | SS.
Inductive bop := BW (p : bytes) | BSync | BStop.
Record bws := { b_init : bool; b_stopped : bool; b_buf : bytes }.
Definition bws0 : bws := {| b_init := false; b_stopped := false; b_buf := [] |}.

(* initialize(): size 0 -> _defaultBufferSize;  bufio.NewWriterSize: size <= 0 -> 4096 *)
Definition eff_size (size : Z) : Z :=
  let s := if size =? 0 then 262144 else size in if s <=? 0 then 4096 else s.

(* bufio.Writer.Flush: nothing when b.n == 0, else one Write of the buffered bytes *)
Definition bufio_flush (buf : bytes) : bytes * list sev :=
  if is_nil buf then ([], []) else ([], [SW buf]).

(* bufio.Writer.Write:
     for len(p) > b.Available() && b.err == nil {
       if b.Buffered() == 0 { n, b.err = b.wr.Write(p) }           -- large write, empty buffer
       else { n = copy(b.buf[b.n:], p); b.n += n; b.Flush() }
       nn += n; p = p[n:] }
     n := copy(b.buf[b.n:], p); b.n += n; nn += n; return nn, nil
   With an accepting sink the loop runs at most twice; fuel exhaustion returns the
   (short) count accumulated so far. *)
Fixpoint bufio_write (fuel : nat) (size : Z) (buf p : bytes) (nn : Z) (ev : list sev) : bytes * Z * list sev :=
  match fuel with
  | O => (buf, nn, ev)
  | S f =>
      if zlen p >? size - zlen buf then
        if is_nil buf then bufio_write f size buf [] (nn + zlen p) (ev ++ [SW p])
        else let k := Z.to_nat (size - zlen buf) in
             bufio_write f size [] (skipn k p) (nn + zlen (firstn k p)) (ev ++ [SW (buf ++ firstn k p)])
      else (buf ++ p, nn + zlen p, ev)
  end.

(* BufferedWriteSyncer.Write: flush first when bs does not fit and the buffer is not empty *)
Definition bws_write (size : Z) (s : bws) (p : bytes) : bws * Z * list sev :=
  let buf := b_buf s in
  let '(buf1, ev1) := if (zlen p >? size - zlen buf) && (zlen buf >? 0) then bufio_flush buf else (buf, []) in
  let '(buf2, nn, ev2) := bufio_write 3 size buf1 p 0 [] in
  (* after Stop nothing would deliver the data any more: it is flushed at once
     ("fix: BufferedWriteSyncer no longer strands data written after Stop") *)
  let '(buf3, ev3) := if b_stopped s then bufio_flush buf2 else (buf2, []) in
  ({| b_init := true; b_stopped := b_stopped s; b_buf := buf3 |}, nn, ev1 ++ ev2 ++ ev3).
(* Sync: if s.initialized { err = s.writer.Flush() }; multierr.Append(err, s.WS.Sync()) *)
Definition bws_sync (s : bws) : bws * list sev :=
  let '(buf1, ev1) := if b_init s then bufio_flush (b_buf s) else (b_buf s, []) in
  ({| b_init := b_init s; b_stopped := b_stopped s; b_buf := buf1 |}, ev1 ++ [SS]).
(* Stop: nothing when not initialized; a repeated Stop only syncs the sink; the first one is a final Sync *)
Definition bws_stop (s : bws) : bws * list sev :=
  if negb (b_init s) then (s, [])
  else if b_stopped s then (s, [SS])
  else bws_sync {| b_init := b_init s; b_stopped := true; b_buf := b_buf s |}.

(* a history: returned counts of the Writes, and what the sink saw *)
Fixpoint bws_run (size : Z) (s : bws) (ops : list bop) : list Z * list sev :=
  match ops with
  | [] => ([], [])
  | BW p :: r => let '(s1, n, ev) := bws_write size s p in
                 let '(ns, ev') := bws_run size s1 r in (n :: ns, ev ++ ev')
  | BSync :: r => let '(s1, ev) := bws_sync s in
                  let '(ns, ev') := bws_run size s1 r in (ns, ev ++ ev')
  | BStop :: r => let '(s1, ev) := bws_stop s in
                  let '(ns, ev') := bws_run size s1 r in (ns, ev ++ ev')
  end.

(* ---- BufferedWriteSyncer over a SCRIPTED sink (bufio.Writer with its sticky error) ----
   The wrapped sink answers every Write from a script: an outcome (drop, err) keeps
   len(b) - drop bytes (never fewer than 0, never more than len(b)), returns that count and
   the error whose id is err (0 = nil); when the script of the current operation is used up
   the sink accepts everything.  Every operation of a history carries its own script (the
   harness installs it in the sink before the call) and, for Sync/Stop/tick, the error id the
   sink's Sync returns.  This is the full text of bufio.Writer.Write/Flush (Go 1.23) and of
   BufferedWriteSyncer.Write/Sync/Stop/flushLoop, including b.err. *)
Definition outcome := (Z * Z)%type.
Definition sink_write (sc : list outcome) (b : bytes) : list outcome * Z * Z :=
  match sc with
  | [] => ([], zlen b, 0)
  | (d, e) :: r => (r, Z.min (zlen b) (Z.max 0 (zlen b - d)), e)
  end.
Definition err_short_write : Z := -1.            (* io.ErrShortWrite *)

(* bufio.Writer.Flush:
     if b.err != nil { return b.err };  if b.n == 0 { return nil }
     n, err := b.wr.Write(b.buf[0:b.n])
     if n < b.n && err == nil { err = io.ErrShortWrite }
     if err != nil { if n > 0 && n < b.n { copy(b.buf[0:b.n-n], b.buf[n:b.n]) }; b.n -= n; b.err = err; return err }
     b.n = 0; return nil
   result: script left, buffer, b.err (= the returned error), sink events *)
Definition f_flush (sc : list outcome) (buf : bytes) (err : Z) : list outcome * bytes * Z * list sev :=
  if negb (err =? 0) then (sc, buf, err, [])
  else if is_nil buf then (sc, buf, 0, [])
  else let '(sc1, n, e) := sink_write sc buf in
       let e1 := if (n <? zlen buf) && (e =? 0) then err_short_write else e in
       if e1 =? 0 then (sc1, [], 0, [SW buf])
       else (sc1, skipn (Z.to_nat n) buf, e1, [SW buf]).

(* bufio.Writer.Write:
     for len(p) > b.Available() && b.err == nil {
       if b.Buffered() == 0 { n, b.err = b.wr.Write(p) }
       else { n = copy(b.buf[b.n:], p); b.n += n; b.Flush() }
       nn += n; p = p[n:] }
     if b.err != nil { return nn, b.err }
     n := copy(b.buf[b.n:], p); b.n += n; nn += n; return nn, nil
   A sink that answers (short, nil) to a direct write is simply asked again with the rest, so the
   loop runs once per script entry at most (plus one flush and one accepted write): [f_fuel].
   result: script left, buffer, b.err (= the returned error), returned count, sink events *)
Fixpoint f_bufio_write (fuel : nat) (size : Z) (sc : list outcome) (buf : bytes) (err : Z) (p : bytes)
                       (nn : Z) (ev : list sev) : list outcome * bytes * Z * Z * list sev :=
  if (zlen p >? size - zlen buf) && (err =? 0) then
    match fuel with
    | O => (sc, buf, err, nn, ev)                       (* never reached with f_fuel: BwsFault.v *)
    | S f =>
        if is_nil buf then
          let '(sc1, n, e) := sink_write sc p in
          f_bufio_write f size sc1 buf e (skipn (Z.to_nat n) p) (nn + n) (ev ++ [SW p])
        else
          let k := Z.to_nat (size - zlen buf) in
          let '(sc1, buf1, e1, ev1) := f_flush sc (buf ++ firstn k p) 0 in
          f_bufio_write f size sc1 buf1 e1 (skipn k p) (nn + zlen (firstn k p)) (ev ++ ev1)
    end
  else if negb (err =? 0) then (sc, buf, err, nn, ev)
  else (sc, buf ++ p, 0, nn + zlen p, ev).
Definition f_fuel (sc : list outcome) : nat := S (S (length sc)).

Record fbw := { fb_init : bool; fb_stopped : bool; fb_buf : bytes; fb_err : Z }.
Definition fbw0 : fbw := {| fb_init := false; fb_stopped := false; fb_buf := []; fb_err := 0 |}.

(* BufferedWriteSyncer.Write: (state, n, err, sink events) *)
Definition f_write (size : Z) (s : fbw) (sc : list outcome) (p : bytes) : fbw * Z * Z * list sev :=
  let mk b e := {| fb_init := true; fb_stopped := fb_stopped s; fb_buf := b; fb_err := e |} in
  let pre := (zlen p >? size - zlen (fb_buf s)) && (zlen (fb_buf s) >? 0) in
  let '(sc1, buf1, e1, ev1) := if pre then f_flush sc (fb_buf s) (fb_err s) else (sc, fb_buf s, fb_err s, []) in
  if pre && negb (e1 =? 0) then (mk buf1 e1, 0, e1, ev1)            (* if err := s.writer.Flush(); err != nil { return 0, err } *)
  else
    let '(sc2, buf2, e2, nn, ev2) := f_bufio_write (f_fuel sc1) size sc1 buf1 e1 p 0 [] in
    if fb_stopped s && (e2 =? 0) then                                (* if s.stopped && err == nil { err = s.writer.Flush() } *)
      let '(_, buf3, e3, ev3) := f_flush sc2 buf2 e2 in (mk buf3 e3, nn, e3, ev1 ++ ev2 ++ ev3)
    else (mk buf2 e2, nn, e2, ev1 ++ ev2).

Definition err_list (e : Z) : list Z := if e =? 0 then [] else [e].
(* Sync: if s.initialized { err = s.writer.Flush() }; return multierr.Append(err, s.WS.Sync()) *)
Definition f_sync (s : fbw) (sc : list outcome) (se : Z) : fbw * list Z * list sev :=
  let '(buf1, e1, fe, ev1) :=
    if fb_init s then let '(_, b, e, ev) := f_flush sc (fb_buf s) (fb_err s) in (b, e, e, ev)
    else (fb_buf s, fb_err s, 0, []) in
  ({| fb_init := fb_init s; fb_stopped := fb_stopped s; fb_buf := buf1; fb_err := e1 |},
   err_list fe ++ err_list se, ev1 ++ [SS]).
Definition f_stop (s : fbw) (sc : list outcome) (se : Z) : fbw * list Z * list sev :=
  if negb (fb_init s) then (s, [], [])
  else if fb_stopped s then (s, err_list se, [SS])
  else f_sync {| fb_init := fb_init s; fb_stopped := true; fb_buf := fb_buf s; fb_err := fb_err s |} sc se.
(* the ticker fires: flushLoop calls s.Sync() and drops its error; after Stop (or before the
   first Write) there is no flushLoop *)
Definition f_tick (s : fbw) (sc : list outcome) (se : Z) : fbw * list sev :=
  if fb_init s && negb (fb_stopped s) then let '(s1, _, ev) := f_sync s sc se in (s1, ev) else (s, []).

Inductive fop := FW (p : bytes) (sc : list outcome) | FSync (sc : list outcome) (se : Z)
               | FStop (sc : list outcome) (se : Z) | FTick (sc : list outcome) (se : Z).
Inductive fres := FRW (n e : Z) | FRE (es : list Z) | FRT.
Fixpoint f_run (size : Z) (s : fbw) (ops : list fop) : list fres * list sev :=
  match ops with
  | [] => ([], [])
  | FW p sc :: r => let '(s1, n, e, ev) := f_write size s sc p in
                    let '(rs, ev') := f_run size s1 r in (FRW n e :: rs, ev ++ ev')
  | FSync sc se :: r => let '(s1, es, ev) := f_sync s sc se in
                        let '(rs, ev') := f_run size s1 r in (FRE es :: rs, ev ++ ev')
  | FStop sc se :: r => let '(s1, es, ev) := f_stop s sc se in
                        let '(rs, ev') := f_run size s1 r in (FRE es :: rs, ev ++ ev')
  | FTick sc se :: r => let '(s1, ev) := f_tick s sc se in
                        let '(rs, ev') := f_run size s1 r in (FRT :: rs, ev ++ ev')
  end.

(* ================= C. Lock: interleaving model (DESIGN Appendix B, re-homed) ================= *)
Local Open Scope nat_scope.

(* A thread using a locked syncer executes, per call (k = 0 Write, 1 Sync):
   s.Lock(); <wrapped call begins>; <wrapped call ends>; s.Unlock() *)
Inductive instr := ILock | IUnlock | IBegin (k : Z) | IEnd (k : Z).
Definition call_code (k : Z) : list instr := [ILock; IBegin k; IEnd k; IUnlock].
Definition compile (ops : list Z) : list instr := concat (map call_code ops).
(* the same calls on the unwrapped sink *)
Definition call_code_unlocked (k : Z) : list instr := [IBegin k; IEnd k].
Definition compile_unlocked (ops : list Z) : list instr := concat (map call_code_unlocked ops).

(* [cur]/[maxc]/[fin] are the counters the harness sink keeps: calls in flight,
   their maximum, completed calls *)
Record mstate := { pcs : nat -> nat; holder : option nat; cur : nat; maxc : nat; fin : nat }.
Definition upd (m : nat -> nat) (t v : nat) : nat -> nat := fun x => if x =? t then v else m x.

Definition next (codes : nat -> list instr) (s : mstate) (t : nat) : option instr :=
  nth_error (codes t) (pcs s t).
Definition adv (s : mstate) (t : nat) : nat -> nat := upd (pcs s) t (S (pcs s t)).
Definition step (codes : nat -> list instr) (s : mstate) (t : nat) : mstate :=
  match next codes s t with
  | Some ILock =>
      match holder s with
      | None => {| pcs := adv s t; holder := Some t; cur := cur s; maxc := maxc s; fin := fin s |}
      | Some _ => s                                            (* blocked: the turn is a no-op *)
      end
  | Some IUnlock => {| pcs := adv s t; holder := None; cur := cur s; maxc := maxc s; fin := fin s |}
  | Some (IBegin _) => {| pcs := adv s t; holder := holder s; cur := S (cur s);
                          maxc := Nat.max (maxc s) (S (cur s)); fin := fin s |}
  | Some (IEnd _) => {| pcs := adv s t; holder := holder s; cur := pred (cur s); maxc := maxc s; fin := S (fin s) |}
  | None => s
  end.
Definition minit : mstate := {| pcs := fun _ => 0; holder := None; cur := 0; maxc := 0; fin := 0 |}.
Definition run (codes : nat -> list instr) (sched : list nat) : mstate := fold_left (step codes) sched minit.

(* two different threads inside the wrapped call at the same time *)
Definition in_call (codes : nat -> list instr) (s : mstate) (t : nat) : Prop :=
  exists k, next codes s t = Some (IEnd k).
Definition overlap (codes : nat -> list instr) (s : mstate) : Prop :=
  exists t1 t2, t1 <> t2 /\ in_call codes s t1 /\ in_call codes s t2.

(* programs: thread t performs the calls [nth t prog []] through Lock(sink) *)
Definition locked_prog (prog : list (list Z)) : nat -> list instr := fun t => compile (nth t prog []).
Definition unlocked_prog (prog : list (list Z)) : nat -> list instr := fun t => compile_unlocked (nth t prog []).
Definition total_calls (prog : list (list Z)) : nat := fold_right (fun l a => length l + a) 0 prog.

(* ================= D. handles: several references onto one sink ================= *)
(* Section A gives a lockedWriteSyncer no identity, so it cannot say whether two values
   obtained from Lock are the SAME wrapper (one mutex) or two wrappers around one sink (two
   mutexes that do not exclude each other).  Here a lockedWriteSyncer carries the name [c]
   of its mutex (a lock cell): two handles with the same [c] are the same pointer, and the
   constructor functions allocate names. *)
Inductive hobj :=
| HSink                            (* the observed sink *)
| HOther                           (* any other sink: a call through it never reaches the observed sink *)
| HLocked (c : nat) (o : hobj)     (* &lockedWriteSyncer{ws: o} whose mutex is cell number c *)
| HMulti (l : list hobj).          (* multiWriteSyncer(l) *)

(* [Reuse] is zap's Lock:
     if _, ok := ws.( *lockedWriteSyncer); ok { return ws }      -- the same pointer, the same cell
     return &lockedWriteSyncer{ws: ws}                            -- a new wrapper, a new mutex
   [fresh] is the next unused cell number.  [Rewrap] is NOT zap's code: it is the variant that
   strips an existing lock layer and wraps the inner syncer in a new lockedWriteSyncer; it is
   kept only so that the loss of exclusion between handles is expressible (…_rewrap_refuted). *)
Inductive lockmode := Reuse | Rewrap.
Definition h_lock (m : lockmode) (fresh : nat) (o : hobj) : hobj * nat :=
  match o, m with
  | HLocked _ _, Reuse => (o, fresh)
  | HLocked _ o', Rewrap => (HLocked fresh o', S fresh)
  | _, _ => (HLocked fresh o, S fresh)
  end.
Definition h_add_sync (o : hobj) : hobj := o.          (* every hobj is a WriteSyncer already *)
Definition h_new_multi (l : list hobj) : hobj := match l with [o] => o | _ => HMulti l end.
Definition h_combine (m : lockmode) (fresh : nat) (l : list hobj) : hobj * nat :=
  match l with [] => (HOther, fresh) (* AddSync(io.Discard) *) | _ => h_lock m fresh (h_new_multi l) end.

(* a handle graph: handle 0 is a locked syncer over the sink (built by zap's own constructors,
   [root]); every further handle is derived from EARLIER handles (numbers; a negative number
   is some other sink) by one constructor call.  The raw sink is not a handle. *)
Inductive dstep := DLock (i : Z) | DAddSync (i : Z) | DMulti (a : list Z) | DCombine (a : list Z).
Definition pick (hs : list hobj) (i : Z) : hobj := if (i <? 0)%Z then HOther else nth (Z.to_nat i) hs HOther.
Definition d_apply (m : lockmode) (st : list hobj * nat) (d : dstep) : list hobj * nat :=
  let '(o, f) := match d with
                 | DLock i => h_lock m (snd st) (pick (fst st) i)
                 | DAddSync i => (h_add_sync (pick (fst st) i), snd st)
                 | DMulti a => (h_new_multi (map (pick (fst st)) a), snd st)
                 | DCombine a => h_combine m (snd st) (map (pick (fst st)) a)
                 end in
  (fst st ++ [o], f).
(* root kinds: 0 Lock(sink); 1 CombineWriteSyncers(sink); 2 CombineWriteSyncers(sink, other);
   3 Lock(AddSync(sink)); 4 Lock(NewMultiWriteSyncer(other, sink)); 5 zap.Open(<url of the sink>)
   = CombineWriteSyncers(sink) *)
Definition root (m : lockmode) (r : Z) : hobj * nat :=
  if (r =? 2)%Z then h_combine m 0 [HSink; HOther]
  else if (r =? 3)%Z then h_lock m 0 (h_add_sync HSink)
  else if (r =? 4)%Z then h_lock m 0 (h_new_multi [HOther; HSink])
  else if (r =? 0)%Z then h_lock m 0 HSink
  else h_combine m 0 [HSink].
Definition graph (m : lockmode) (r : Z) (ds : list dstep) : list hobj :=
  fst (fold_left (d_apply m) ds ([fst (root m r)], snd (root m r))).

(* thread code of one call (k = 0 Write, 1 Sync) through an object: every lockedWriteSyncer on
   the way locks its own mutex around the wrapped call; a multi-syncer calls its sinks in order *)
Inductive ginstr := JLock (c : nat) | JUnlock (c : nat) | JBegin (k : Z) | JEnd (k : Z).
Fixpoint code_of (k : Z) (o : hobj) : list ginstr :=
  match o with
  | HSink => [JBegin k; JEnd k]
  | HOther => []
  | HLocked c o' => JLock c :: code_of k o' ++ [JUnlock c]
  | HMulti l => concat (map (code_of k) l)
  end.
(* a thread performs calls (handle number, kind) one after the other *)
Definition thread_code (hs : list hobj) (calls : list (Z * Z)) : list ginstr :=
  concat (map (fun hk => code_of (snd hk) (pick hs (fst hk))) calls).

(* the machine: any number of mutexes.  [gheld]: the (cell, thread) pairs currently held;
   [gcur]/[gmax]: calls inside the sink / their maximum, as the harness sink counts them *)
Record gstate := { gpcs : list nat; gheld : list (nat * nat); gcur : nat; gmax : nat }.
Fixpoint holder_of (h : list (nat * nat)) (c : nat) : option nat :=
  match h with [] => None | (c', t) :: r => if c' =? c then Some t else holder_of r c end.
Fixpoint release (c : nat) (h : list (nat * nat)) : list (nat * nat) :=
  match h with [] => [] | (c', t) :: r => if c' =? c then release c r else (c', t) :: release c r end.
Fixpoint set_nth (t v : nat) (l : list nat) : list nat :=
  match t, l with
  | 0, [] => [v]
  | 0, _ :: r => v :: r
  | S n, [] => 0 :: set_nth n v []
  | S n, x :: r => x :: set_nth n v r
  end.
Definition gpc (s : gstate) (t : nat) : nat := nth t (gpcs s) 0.
Definition gnext (codes : nat -> list ginstr) (s : gstate) (t : nat) : option ginstr :=
  nth_error (codes t) (gpc s t).
Definition gadv (s : gstate) (t : nat) : list nat := set_nth t (S (gpc s t)) (gpcs s).
Definition gstep (codes : nat -> list ginstr) (s : gstate) (t : nat) : gstate :=
  match gnext codes s t with
  | Some (JLock c) =>
      match holder_of (gheld s) c with
      | None => {| gpcs := gadv s t; gheld := (c, t) :: gheld s; gcur := gcur s; gmax := gmax s |}
      | Some _ => s                                            (* blocked: the turn is a no-op *)
      end
  | Some (JUnlock c) => {| gpcs := gadv s t; gheld := release c (gheld s); gcur := gcur s; gmax := gmax s |}
  | Some (JBegin _) => {| gpcs := gadv s t; gheld := gheld s; gcur := S (gcur s);
                          gmax := Nat.max (gmax s) (S (gcur s)) |}
  | Some (JEnd _) => {| gpcs := gadv s t; gheld := gheld s; gcur := pred (gcur s); gmax := gmax s |}
  | None => s
  end.
Definition ginit : gstate := {| gpcs := []; gheld := []; gcur := 0; gmax := 0 |}.
Definition grun (codes : nat -> list ginstr) (sched : list nat) : gstate := fold_left (gstep codes) sched ginit.

Definition g_in_call (codes : nat -> list ginstr) (s : gstate) (t : nat) : Prop :=
  exists k, gnext codes s t = Some (JEnd k).
Definition g_overlap (codes : nat -> list ginstr) (s : gstate) : Prop :=
  exists t1 t2, t1 <> t2 /\ g_in_call codes s t1 /\ g_in_call codes s t2.

(* programs over a handle graph: thread t performs the calls [nth t prog []] *)
Definition handle_codes (hs : list hobj) (prog : list (list (Z * Z))) : nat -> list ginstr :=
  fun t => nth t (map (thread_code hs) prog) [].
Definition handle_prog (m : lockmode) (r : Z) (ds : list dstep) (prog : list (list (Z * Z))) : nat -> list ginstr :=
  handle_codes (graph m r ds) prog.

(* sink calls written in a piece of code *)
Definition is_begin (i : ginstr) : bool := match i with JBegin _ => true | _ => false end.
Definition count_begin (code : list ginstr) : nat := length (filter is_begin code).
Definition prog_begins (hs : list hobj) (prog : list (list (Z * Z))) : nat :=
  fold_right (fun calls a => count_begin (thread_code hs calls) + a) 0 prog.

(* schedules the model is evaluated on.  [seq_pass]: every thread in turn gets as many turns
   as its code is long; [completion]: one pass per thread.  [gate_sched]: thread 0 runs until
   it is inside its first sink call and stays there while every other thread is given the
   turns to run its whole code; then everything is completed -- the schedule the gated runs
   of the harness enforce on the real code. *)
Definition seq_pass (hs : list hobj) (prog : list (list (Z * Z))) (from : nat) : list nat :=
  concat (map (fun t => repeat t (length (thread_code hs (nth t prog [])))) (seq from (length prog - from))).
Definition completion (hs : list hobj) (prog : list (list (Z * Z))) : list nat :=
  concat (repeat (seq_pass hs prog 0) (length prog)).
Fixpoint first_end (code : list ginstr) : nat :=
  match code with [] => 0 | JEnd _ :: _ => 0 | _ :: r => S (first_end r) end.
Definition gate_sched (hs : list hobj) (prog : list (list (Z * Z))) : list nat :=
  repeat 0 (first_end (thread_code hs (nth 0 prog []))) ++ seq_pass hs prog 1 ++ completion hs prog.

(* ---------- specification side (no cells, no objects, no machine) ---------- *)
(* how many times one call through handle number h reaches the sink, read off the derivation
   program alone: the root reaches it once, Lock and AddSync relay, a multi-syncer calls every
   one of its sinks *)
Definition r_pick (rs : list nat) (i : Z) : nat := if (i <? 0)%Z then 0 else nth (Z.to_nat i) rs 0.
Definition r_apply (rs : list nat) (d : dstep) : list nat :=
  rs ++ [match d with
         | DLock i => r_pick rs i
         | DAddSync i => r_pick rs i
         | DMulti a => fold_right Nat.add 0 (map (r_pick rs) a)
         | DCombine a => fold_right Nat.add 0 (map (r_pick rs) a)
         end].
Definition reaches (ds : list dstep) : list nat := fold_left r_apply ds [1].
Definition total_reach (ds : list dstep) (prog : list (list (Z * Z))) : nat :=
  fold_right (fun calls a => fold_right (fun hk b => r_pick (reaches ds) (fst hk) + b) 0 calls + a) 0 prog.

Local Open Scope Z_scope.

(* ================= wire ================= *)
(* case kinds
   (1 <expr> #p)                      combinators; obs (n (werr..) ((id #p depth)..) (serr..) ((id depth)..))
        expr = (0 id hs n (we..) (se..)) | (1) | (2 e) | (3 e) | (4 (e..)) | (5 (e..))
   (2 0 en #p #trimspace-oracle)      std-log bridge;   obs (n err (msg..))
   (2 1 markFailed #p)                TestingWriter;    obs (n err (log..) failed)
   (2 2 en (#p ..))                   zapio.Writer;     obs ((n..) (err..))
   (2 3 size (op..))                  BufferedWriteSyncer, op = (0 #p) | (1) Sync | (2) Stop;
                                      obs ((n..) (err..) (sink-event..)), sink-event = #bytes | 0 (Sync)
   (2 4 size (fop..))                 BufferedWriteSyncer over a scripted sink,
                                      fop = (0 #p (out..)) Write | (1 (out..) se) Sync | (2 (out..) se) Stop
                                      | (3 (out..) se) the ticker fires; out = (drop err): what the sink answers to
                                      its successive Write calls during this operation (then: accepts), se: the
                                      error id of the sink's Sync (0 nil);
                                      obs ((r..) (sink-event..)), r = (n err) | (err-id..) Sync, Stop | () tick;
                                      err: 0 nil, -1 io.ErrShortWrite, else the sink's error id
   (3 ((k..)..) (tid..))              goroutines hammering Lock(sink); obs (max-in-flight completed)
   (4 mode root (step..) (((h k)..)..) (tid..))
                                      several handles onto one sink: handle 0 = root kind [root], every step
                                      derives one more handle: (0 i) Lock | (1 i) AddSync | (2 (i..)) NewMultiWriteSyncer
                                      | (3 (i..)) CombineWriteSyncers (i: an earlier handle, -1: some other sink);
                                      thread t performs the calls (handle kind); mode 0: goroutines run freely
                                      (the model is evaluated on the schedule (tid..) followed by a completion),
                                      mode 1: thread 0 is parked inside the sink while every other thread calls;
                                      obs (max-in-flight completed-sink-calls) *)
Definition dec_zs (s : sx) : list Z := map sx_z (sx_l s).

Fixpoint dec_expr (s : sx) : expr :=
  match s with
  | SL (SZ 0 :: id :: hs :: n :: we :: se :: nil) => XLeaf (sx_z id) (sx_bool hs) (sx_z n) (dec_zs we) (dec_zs se)
  | SL (SZ 2 :: e :: nil) => XAddSync (dec_expr e)
  | SL (SZ 3 :: e :: nil) => XLock (dec_expr e)
  | SL (SZ 4 :: SL es :: nil) => XNewMulti (map dec_expr es)
  | SL (SZ 5 :: SL es :: nil) => XCombine (map dec_expr es)
  | _ => XDiscard
  end.

Definition dec_bop (s : sx) : bop :=
  match sx_z (sx_nth s 0) with
  | 0 => BW (sx_b (sx_nth s 1))
  | 1 => BSync
  | _ => BStop
  end.
Definition enc_sev (e : sev) : sx := match e with SW b => SB b | SS => SZ 0 end.
Definition dec_outs (s : sx) : list outcome := map (fun o => (sx_z (sx_nth o 0), sx_z (sx_nth o 1))) (sx_l s).
Definition dec_fop (s : sx) : fop :=
  match sx_z (sx_nth s 0) with
  | 0 => FW (sx_b (sx_nth s 1)) (dec_outs (sx_nth s 2))
  | 1 => FSync (dec_outs (sx_nth s 1)) (sx_z (sx_nth s 2))
  | 2 => FStop (dec_outs (sx_nth s 1)) (sx_z (sx_nth s 2))
  | _ => FTick (dec_outs (sx_nth s 1)) (sx_z (sx_nth s 2))
  end.
Definition enc_fres (r : fres) : sx :=
  match r with FRW n e => SL [SZ n; SZ e] | FRE es => of_zlist es | FRT => SL [] end.
Definition dec_prog (s : sx) : list (list Z) := map dec_zs (sx_l s).
Definition dec_sched (s : sx) : list nat := map sx_n (sx_l s).
Definition dec_dstep (s : sx) : dstep :=
  match sx_z (sx_nth s 0) with
  | 0 => DLock (sx_z (sx_nth s 1))
  | 1 => DAddSync (sx_z (sx_nth s 1))
  | 2 => DMulti (dec_zs (sx_nth s 1))
  | _ => DCombine (dec_zs (sx_nth s 1))
  end.
Definition dec_calls (s : sx) : list (Z * Z) := map (fun c => (sx_z (sx_nth c 0), sx_z (sx_nth c 1))) (sx_l s).
Definition dec_hprog (s : sx) : list (list (Z * Z)) := map dec_calls (sx_l s).

Definition model_comb (e : expr) (p : bytes) : sx :=
  let w := eval e in
  let '(n, we, ev) := write Fixed w p in
  let '(se, ev') := sync w in
  SL [SZ n; of_zlist we; SL (observe 0 ev); of_zlist se; SL (observe 0 ev')].

Definition kind (i : sx) : Z := sx_z (sx_nth i 0).
Definition wkind (i : sx) : Z := sx_z (sx_nth i 1).

Definition model_stdlog (i : sx) : sx :=
  let '(n, e, ms) := stdlog_write Fixed (sx_bool (sx_nth i 2)) (sx_b (sx_nth i 3)) (sx_b (sx_nth i 4)) in
  SL [SZ n; SZ e; of_blist ms].
Definition model_testing (i : sx) : sx :=
  let '(n, e, ls, f) := testing_write (sx_bool (sx_nth i 2)) (sx_b (sx_nth i 3)) in
  SL [SZ n; SZ e; of_blist ls; of_bool f].
Definition model_zapio (i : sx) : sx :=
  let ps := map sx_b (sx_l (sx_nth i 3)) in
  SL [of_zlist (zapio_writes (sx_bool (sx_nth i 2)) ps); of_zlist (map (fun _ => 0) ps)].
Definition model_bws (i : sx) : sx :=
  let '(ns, ev) := bws_run (eff_size (sx_z (sx_nth i 2))) bws0 (map dec_bop (sx_l (sx_nth i 3))) in
  SL [of_zlist ns; of_zlist (map (fun _ => 0) ns); SL (map enc_sev ev)].
Definition model_bwsf (i : sx) : sx :=
  let '(rs, ev) := f_run (eff_size (sx_z (sx_nth i 2))) fbw0 (map dec_fop (sx_l (sx_nth i 3))) in
  SL [SL (map enc_fres rs); SL (map enc_sev ev)].
Definition model_lock (i : sx) : sx :=
  let s := run (locked_prog (dec_prog (sx_nth i 1))) (dec_sched (sx_nth i 2)) in
  SL [of_nat (maxc s); of_nat (fin s)].

Definition model_handles (i : sx) : sx :=
  let r := sx_z (sx_nth i 2) in
  let ds := map dec_dstep (sx_l (sx_nth i 3)) in
  let prog := dec_hprog (sx_nth i 4) in
  let hs := graph Reuse r ds in
  let sched := if wkind i =? 1 then gate_sched hs prog
               else dec_sched (sx_nth i 5) ++ completion hs prog in
  let cl := map (thread_code hs) prog in            (* = handle_codes hs prog, compiled once *)
  let s := grun (fun t => nth t cl []) sched in
  SL [of_nat (gmax s); of_nat (prog_begins hs prog)].

Definition model (i : sx) : sx :=
  if kind i =? 4 then model_handles i else
  if kind i =? 1 then model_comb (dec_expr (sx_nth i 1)) (sx_b (sx_nth i 2))
  else if kind i =? 2 then
    (if wkind i =? 0 then model_stdlog i
     else if wkind i =? 1 then model_testing i
     else if wkind i =? 2 then model_zapio i
     else if wkind i =? 3 then model_bws i
     else model_bwsf i)
  else model_lock i.

(* ---------- the oracle ---------- *)
Definition spec_comb (e : expr) (p : bytes) (o : sx) : bool :=
  let '(n, we, evw) := ref_write e p 0 in
  let '(se, evs) := ref_sync e 0 in
  sx_eqb o (SL [SZ n; of_zlist we; SL evw; of_zlist se; SL evs]).

(* [l] is [p] without its trailing newlines *)
Fixpoint all_nl (p : bytes) : bool := match p with [] => true | b :: r => Byte.eqb b nl && all_nl r end.
Definition ends_nl (l : bytes) : bool := match frev l with b :: _ => Byte.eqb b nl | [] => false end.
Fixpoint strip_ok (l p : bytes) : bool :=
  match l, p with
  | [], _ => all_nl p
  | a :: l', b :: p' => Byte.eqb a b && strip_ok l' p'
  | _ :: _, [] => false
  end.
Definition stripped (l p : bytes) : bool := strip_ok l p && negb (ends_nl l).

Definition bop_lens (ops : list bop) : list Z :=
  concat (map (fun o => match o with BW p => [zlen p] | _ => [] end) ops).
Definition bop_bytes (ops : list bop) : bytes :=
  concat (map (fun o => match o with BW p => p | _ => [] end) ops).
Fixpoint is_prefix (a b : bytes) : bool :=
  match a, b with
  | [], _ => true
  | x :: a', y :: b' => Byte.eqb x y && is_prefix a' b'
  | _ :: _, [] => false
  end.
Definition sink_bytes (o : sx) : bytes := concat (map sx_b (sx_l o)).
Definition all_zero (o : sx) : bool := forallb (fun x => sx_eqb x (SZ 0)) (sx_l o).

(* full count, nil error, the trimmed text logged iff enabled *)
Definition spec_stdlog (i o : sx) : bool :=
  let p := sx_b (sx_nth i 3) in
  sx_eqb o (SL [SZ (zlen p); SZ 0; of_blist (if sx_bool (sx_nth i 2) then [sx_b (sx_nth i 4)] else [])]).
Definition spec_testing (i o : sx) : bool :=
  let p := sx_b (sx_nth i 3) in
  sx_eqb (sx_nth o 0) (SZ (zlen p)) && sx_eqb (sx_nth o 1) (SZ 0) &&
  match sx_l (sx_nth o 2) with [SB l] => stripped l p | _ => false end &&
  sx_eqb (sx_nth o 3) (of_bool (sx_bool (sx_nth i 2))) &&
  (length (sx_l o) =? 4)%nat.
Definition spec_zapio (i o : sx) : bool :=
  let ps := map sx_b (sx_l (sx_nth i 3)) in
  sx_eqb o (SL [of_zlist (map zlen ps); of_zlist (map (fun _ => 0) ps)]).
Definition spec_bws (i o : sx) : bool :=
  let ops := map dec_bop (sx_l (sx_nth i 3)) in
  sx_eqb (sx_nth o 0) (of_zlist (bop_lens ops)) &&
  sx_eqb (sx_nth o 1) (of_zlist (map (fun _ => 0) (bop_lens ops))) &&
  is_prefix (sink_bytes (sx_nth o 2)) (bop_bytes ops).
(* BufferedWriteSyncer over ANY sink behaviour (the io.Writer contract itself): every Write of
   every history returns a count within 0..len(p), and a count short of len(p) only together
   with an error; one result per operation.  When the sink is healthy throughout (every scripted
   answer is a full count with a nil error, every Sync of the sink succeeds) every Write returns
   (len(p), nil) and Sync / Stop return nil. *)
Definition contract_ok (lenp : Z) (r : sx) : bool :=
  match r with
  | SL [SZ n; SZ e] => (0 <=? n) && (n <=? lenp) && ((n =? lenp) || negb (e =? 0))
  | _ => false
  end.
Fixpoint spec_fres (ops : list fop) (rs : list sx) : bool :=
  match ops, rs with
  | [], [] => true
  | FW p _ :: ops', r :: rs' => contract_ok (zlen p) r && spec_fres ops' rs'
  | _ :: ops', _ :: rs' => spec_fres ops' rs'
  | _, _ => false
  end.
Definition out_healthy (o : outcome) : bool := (fst o <=? 0) && (snd o =? 0).
Definition fop_healthy (o : fop) : bool :=
  match o with
  | FW _ sc => forallb out_healthy sc
  | FSync sc se | FStop sc se | FTick sc se => forallb out_healthy sc && (se =? 0)
  end.
Fixpoint spec_fres_healthy (ops : list fop) (rs : list sx) : bool :=
  match ops, rs with
  | [], [] => true
  | FW p _ :: ops', r :: rs' => sx_eqb r (SL [SZ (zlen p); SZ 0]) && spec_fres_healthy ops' rs'
  | _ :: ops', r :: rs' => sx_eqb r (SL []) && spec_fres_healthy ops' rs'
  | _, _ => false
  end.
Definition spec_bwsf (i o : sx) : bool :=
  let ops := map dec_fop (sx_l (sx_nth i 3)) in
  spec_fres ops (sx_l (sx_nth o 0)) &&
  (if forallb fop_healthy ops then spec_fres_healthy ops (sx_l (sx_nth o 0)) else true).
(* never two wrapped calls in flight; every call completed *)
Definition spec_lock (i o : sx) : bool :=
  (sx_z (sx_nth o 0) <=? 1) && (0 <=? sx_z (sx_nth o 0)) &&
  sx_eqb (sx_nth o 1) (of_nat (total_calls (dec_prog (sx_nth i 1)))).

(* never two calls inside the sink, through whatever handles they came; every call made
   through a handle reached the sink as often as the derivation of the handle says *)
Definition spec_handles (i o : sx) : bool :=
  (sx_z (sx_nth o 0) <=? 1) && (0 <=? sx_z (sx_nth o 0)) &&
  sx_eqb (sx_nth o 1) (of_nat (total_reach (map dec_dstep (sx_l (sx_nth i 3))) (dec_hprog (sx_nth i 4)))).

Definition spec (i o : sx) : bool :=
  if kind i =? 4 then spec_handles i o else
  if kind i =? 1 then spec_comb (dec_expr (sx_nth i 1)) (sx_b (sx_nth i 2)) o
  else if kind i =? 2 then
    (if wkind i =? 0 then spec_stdlog i o
     else if wkind i =? 1 then spec_testing i o
     else if wkind i =? 2 then spec_zapio i o
     else if wkind i =? 3 then spec_bws i o
     else spec_bwsf i o)
  else spec_lock i o.

(* ---------- validity of a case (what the generators guarantee) ---------- *)
Definition wf_comb (i : sx) : bool :=
  let e := dec_expr (sx_nth i 1) in
  x_syncer e && x_typed e && x_dom (zlen (sx_b (sx_nth i 2))) e.
(* the TrimSpace oracle agrees with the ASCII model on ASCII payloads *)
Definition wf_stdlog (i : sx) : bool :=
  let p := sx_b (sx_nth i 3) in
  if all_ascii p then bytes_eqb (sx_b (sx_nth i 4)) (ascii_trim p) else true.
(* the schedule runs the program to completion *)
Definition wf_lock (i : sx) : bool :=
  (fin (run (locked_prog (dec_prog (sx_nth i 1))) (dec_sched (sx_nth i 2))) =?
   total_calls (dec_prog (sx_nth i 1)))%nat.
Definition wf (i : sx) : bool :=
  if kind i =? 4 then true else
  if kind i =? 1 then wf_comb i
  else if kind i =? 2 then
    (if wkind i =? 0 then wf_stdlog i
     else if wkind i =? 1 then true
     else if wkind i =? 2 then true
     else 0 <=? sx_z (sx_nth i 2))
  else wf_lock i.

(* C13 -- Lock makes writes and syncs mutually exclusive ALSO between different handles onto
   the same sink: Lock applied to an already locked syncer (directly, through AddSync, through
   the single-sink short cut of NewMultiWriteSyncer, through CombineWriteSyncers) returns the
   same lock cell, a wrapper around a locked syncer still goes through that cell, hence every
   handle derived from one locked syncer excludes every other one, under every schedule.

   1. a machine with any number of mutexes; for a fixed cell c: if every thread uses c
      well-bracketed and makes every sink call while it holds c, no two calls overlap
      (the invariant of Mutex.v, with the other cells transparent);
   2. the code of a call through an object all of whose paths to the sink pass through cell c
      ([guarded c]) is such a code;
   3. every handle of every handle graph is guarded by the root's cell 0;
   4. the number of sink calls of a program is what the derivation program says ([reaches]);
   5. with a Lock that re-wraps (not zap's) two handles overlap. *)
From Coq Require Import List Bool Arith Lia ZArith.
Import ListNotations.
From Zap Require Import Base.Wire C13.Model C13.Mutex.

(* ---------------- lists ---------------- *)
Lemma nth_set_nth : forall t v l u, nth u (set_nth t v l) 0 = if u =? t then v else nth u l 0.
Proof.
  induction t as [|n IH]; intros v l u.
  - destruct l as [|x r]; destruct u as [|u]; cbn; try reflexivity. destruct u; reflexivity.
  - destruct l as [|x r]; destruct u as [|u]; cbn [set_nth nth Nat.eqb]; try reflexivity.
    + rewrite IH. destruct (u =? n); [reflexivity|]. destruct u; reflexivity.
    + apply IH.
Qed.

Lemma holder_release_same c h : holder_of (release c h) c = None.
Proof.
  induction h as [|[c' t] r IH]; [reflexivity|]. cbn [release].
  destruct (c' =? c) eqn:E; [exact IH|]. cbn [holder_of]. now rewrite E.
Qed.
Lemma holder_release_other c c' h : (c' =? c) = false -> holder_of (release c' h) c = holder_of h c.
Proof.
  intros N. induction h as [|[c'' t] r IH]; [reflexivity|]. cbn [release holder_of].
  destruct (c'' =? c') eqn:E.
  - apply Nat.eqb_eq in E. subst c''. now rewrite N.
  - cbn [holder_of]. now rewrite IH.
Qed.

(* ---------------- 1. mutual exclusion on one cell, any number of other cells ---------------- *)
Section Cell.
Variable c : nat.

Definition gph_step (d : phase) (i : ginstr) : phase :=
  match i with
  | JLock c' => if c' =? c then Held else d
  | JUnlock c' => if c' =? c then Out else d
  | JBegin _ => InCall
  | JEnd _ => Held
  end.
Fixpoint gph (d : phase) (code : list ginstr) (pc : nat) : phase :=
  match pc, code with
  | 0, _ => d
  | S n, i :: r => gph (gph_step d i) r n
  | S n, [] => d
  end.
Definition gpre (d : phase) (i : ginstr) : Prop :=
  match i with
  | JLock c' => c' = c -> d = Out
  | JUnlock c' => c' = c -> d = Held
  | JBegin _ => d = Held
  | JEnd _ => d = InCall
  end.
Definition gpreb (d : phase) (i : ginstr) : bool :=
  match i with
  | JLock c' => if c' =? c then match d with Out => true | _ => false end else true
  | JUnlock c' => if c' =? c then match d with Held => true | _ => false end else true
  | JBegin _ => match d with Held => true | _ => false end
  | JEnd _ => match d with InCall => true | _ => false end
  end.
(* cell c is used well-bracketed and not re-entered, and every sink call is made while c is held *)
Fixpoint gwb (d : phase) (code : list ginstr) : bool :=
  match code with
  | [] => true
  | i :: r => gpreb d i && gwb (gph_step d i) r
  end.
Definition gend (d : phase) (code : list ginstr) : phase := fold_left gph_step code d.

Lemma gph_0 d code : gph d code 0 = d.
Proof. destruct code; reflexivity. Qed.
Lemma gpreb_pre d i : gpreb d i = true -> gpre d i.
Proof.
  destruct i as [c'|c'|k|k]; cbn.
  - intros H E. apply Nat.eqb_eq in E. rewrite E in H. destruct d; congruence.
  - intros H E. apply Nat.eqb_eq in E. rewrite E in H. destruct d; congruence.
  - destruct d; congruence.
  - destruct d; congruence.
Qed.
Lemma gph_at code : forall d, gwb d code = true -> forall pc i, nth_error code pc = Some i ->
  gpre (gph d code pc) i /\ gph d code (S pc) = gph_step (gph d code pc) i.
Proof.
  induction code as [|j r IH]; intros d W pc i Hn; [destruct pc; discriminate|].
  cbn [gwb] in W. apply andb_true_iff in W as [Wp Wr]. destruct pc as [|n].
  - cbn in Hn. injection Hn as ->. rewrite gph_0. cbn [gph]. rewrite gph_0. split; [now apply gpreb_pre|reflexivity].
  - cbn in Hn. cbn [gph]. exact (IH (gph_step d j) Wr n i Hn).
Qed.
Lemma gwb_app a : forall d b, gwb d (a ++ b) = gwb d a && gwb (gend d a) b.
Proof.
  induction a as [|i r IH]; intros d b; [reflexivity|]. cbn [app gwb]. unfold gend. cbn [fold_left].
  rewrite IH. unfold gend. now rewrite andb_assoc.
Qed.
Lemma gend_app a b d : gend d (a ++ b) = gend (gend d a) b.
Proof. unfold gend. apply fold_left_app. Qed.
(* pieces of code that are well-bracketed from phase d and come back to it *)
Definition closed_at (d : phase) (code : list ginstr) : Prop := gwb d code = true /\ gend d code = d.
Lemma closed_app d a b : closed_at d a -> closed_at d b -> closed_at d (a ++ b).
Proof. intros [A1 A2] [B1 B2]. split; [rewrite gwb_app, A1, A2, B1; reflexivity|rewrite gend_app, A2, B2; reflexivity]. Qed.
Lemma closed_concat d l : Forall (closed_at d) l -> closed_at d (concat l).
Proof. induction 1 as [|x r Hx _ IH]; [split; reflexivity|]. cbn [concat]. now apply closed_app. Qed.

Section Prog.
Variable codes : nat -> list ginstr.            (* thread id -> its code (any number of threads) *)
Hypothesis Hwb : forall t, gwb Out (codes t) = true.

Definition gpht (s : gstate) (t : nat) : phase := gph Out (codes t) (gpc s t).

(* the holder of cell c is the thread whose static phase (relative to c) is not Out; the
   in-flight counter is 1 exactly when that thread is inside a call; it never exceeded 1 *)
Record GInv (s : gstate) : Prop := {
  ginv_holder : forall t, gpht s t <> Out <-> holder_of (gheld s) c = Some t;
  ginv_cur : gcur s = match holder_of (gheld s) c with
                      | Some h => match gpht s h with InCall => 1 | _ => 0 end
                      | None => 0
                      end;
  ginv_max : gmax s <= 1
}.

Lemma ginv_init : GInv ginit.
Proof.
  constructor; cbn [ginit gheld holder_of gcur gmax]; try lia.
  intros t. unfold gpht, gpc. cbn [ginit gpcs]. destruct t; cbn [nth]; rewrite gph_0; (split; [congruence|discriminate]).
Qed.

Lemma gpht_adv s s' t u :
  gpcs s' = gadv s t -> gpht s' u = if u =? t then gph Out (codes t) (S (gpc s t)) else gpht s u.
Proof.
  intros E. unfold gpht. unfold gpc at 1. rewrite E. unfold gadv. rewrite nth_set_nth.
  destruct (u =? t) eqn:U; [|reflexivity]. apply Nat.eqb_eq in U. now subst.
Qed.

(* a step that touches neither the phases nor cell c nor the counters *)
Lemma ginv_transfer s s' :
  (forall u, gpht s' u = gpht s u) -> holder_of (gheld s') c = holder_of (gheld s) c ->
  gcur s' = gcur s -> gmax s' = gmax s -> GInv s -> GInv s'.
Proof.
  intros P H C M I. constructor.
  - intros u. rewrite P, H. apply (ginv_holder s I).
  - rewrite C, H, (ginv_cur s I). destruct (holder_of (gheld s) c) as [h|]; [now rewrite P|reflexivity].
  - rewrite M. apply (ginv_max s I).
Qed.

Lemma ginv_step s t : GInv s -> GInv (gstep codes s t).
Proof.
  intros I. unfold gstep. destruct (gnext codes s t) as [i|] eqn:E; [|exact I]. unfold gnext in E.
  destruct (gph_at (codes t) Out (Hwb t) _ _ E) as [Hpre Hnext]. fold (gpht s t) in Hpre, Hnext.
  destruct i as [c'|c'|k|k]; cbn [gpre gph_step] in Hpre, Hnext.
  - (* Lock c' *)
    destruct (holder_of (gheld s) c') as [h|] eqn:Hh; [exact I|].
    set (s' := {| gpcs := gadv s t; gheld := (c', t) :: gheld s; gcur := gcur s; gmax := gmax s |}).
    destruct (c' =? c) eqn:C.
    + apply Nat.eqb_eq in C. subst c'. specialize (Hpre eq_refl).
      assert (P : forall u, gpht s' u = if u =? t then Held else gpht s u).
      { intros u. rewrite (gpht_adv s s' t u eq_refl), Hnext. reflexivity. }
      assert (O : forall u, gpht s u = Out).
      { intros u. destruct (gpht s u) eqn:Eu; [reflexivity| |];
          assert (X : gpht s u <> Out) by congruence; apply (ginv_holder s I) in X; congruence. }
      constructor; cbn [gheld gcur gmax s' holder_of]; rewrite ?Nat.eqb_refl.
      * intros u. rewrite P. destruct (u =? t) eqn:U.
        -- apply Nat.eqb_eq in U. subst. split; [reflexivity|discriminate].
        -- apply Nat.eqb_neq in U. rewrite O. split; [congruence|]. intros [= ->]. congruence.
      * rewrite P, Nat.eqb_refl. rewrite (ginv_cur s I), Hh. reflexivity.
      * apply (ginv_max s I).
    + apply (ginv_transfer s s'); try reflexivity; [|cbn [s' gheld holder_of]; now rewrite C|exact I].
      intros u. rewrite (gpht_adv s s' t u eq_refl), Hnext.
      destruct (u =? t) eqn:U; [apply Nat.eqb_eq in U; now subst|reflexivity].
  - (* Unlock c' *)
    set (s' := {| gpcs := gadv s t; gheld := release c' (gheld s); gcur := gcur s; gmax := gmax s |}).
    destruct (c' =? c) eqn:C.
    + apply Nat.eqb_eq in C. subst c'. specialize (Hpre eq_refl).
      assert (Ht : holder_of (gheld s) c = Some t). { apply (ginv_holder s I). congruence. }
      assert (P : forall u, gpht s' u = if u =? t then Out else gpht s u).
      { intros u. rewrite (gpht_adv s s' t u eq_refl), Hnext. reflexivity. }
      constructor; cbn [gheld gcur gmax s']; rewrite ?holder_release_same.
      * intros u. rewrite P. destruct (u =? t) eqn:U.
        -- split; [congruence|discriminate].
        -- apply Nat.eqb_neq in U. split; [|discriminate]. intros X. apply (ginv_holder s I) in X. congruence.
      * rewrite (ginv_cur s I), Ht, Hpre. reflexivity.
      * apply (ginv_max s I).
    + apply (ginv_transfer s s'); try reflexivity; [|cbn [s' gheld]; now apply holder_release_other|exact I].
      intros u. rewrite (gpht_adv s s' t u eq_refl), Hnext.
      destruct (u =? t) eqn:U; [apply Nat.eqb_eq in U; now subst|reflexivity].
  - (* call begins *)
    assert (Ht : holder_of (gheld s) c = Some t). { apply (ginv_holder s I). congruence. }
    set (s' := {| gpcs := gadv s t; gheld := gheld s; gcur := S (gcur s); gmax := Nat.max (gmax s) (S (gcur s)) |}).
    assert (P : forall u, gpht s' u = if u =? t then InCall else gpht s u).
    { intros u. rewrite (gpht_adv s s' t u eq_refl), Hnext. reflexivity. }
    assert (C : gcur s = 0). { rewrite (ginv_cur s I), Ht, Hpre. reflexivity. }
    constructor; cbn [gheld gcur gmax s'].
    + intros u. rewrite P. destruct (u =? t) eqn:U.
      * apply Nat.eqb_eq in U. subst. rewrite Ht. split; [reflexivity|discriminate].
      * apply (ginv_holder s I).
    + rewrite Ht, P, Nat.eqb_refl, C. reflexivity.
    + rewrite C. pose proof (ginv_max s I). lia.
  - (* call ends *)
    assert (Ht : holder_of (gheld s) c = Some t). { apply (ginv_holder s I). congruence. }
    set (s' := {| gpcs := gadv s t; gheld := gheld s; gcur := pred (gcur s); gmax := gmax s |}).
    assert (P : forall u, gpht s' u = if u =? t then Held else gpht s u).
    { intros u. rewrite (gpht_adv s s' t u eq_refl), Hnext. reflexivity. }
    assert (C : gcur s = 1). { rewrite (ginv_cur s I), Ht, Hpre. reflexivity. }
    constructor; cbn [gheld gcur gmax s'].
    + intros u. rewrite P. destruct (u =? t) eqn:U.
      * apply Nat.eqb_eq in U. subst. rewrite Ht. split; [reflexivity|discriminate].
      * apply (ginv_holder s I).
    + rewrite Ht, P, Nat.eqb_refl, C. reflexivity.
    + apply (ginv_max s I).
Qed.

Lemma ginv_run_from sched : forall s, GInv s -> GInv (fold_left (gstep codes) sched s).
Proof. induction sched as [|t r IH]; intros s I; [exact I|]. cbn [fold_left]. apply IH. now apply ginv_step. Qed.
Lemma ginv_run sched : GInv (grun codes sched).
Proof. apply ginv_run_from, ginv_init. Qed.

Lemma g_in_call_phase s t : g_in_call codes s t -> gpht s t = InCall.
Proof.
  intros [k Hk]. unfold gnext in Hk. destruct (gph_at (codes t) Out (Hwb t) _ _ Hk) as [Hpre _]. exact Hpre.
Qed.

Theorem cell_mutex sched :
  ~ g_overlap codes (grun codes sched) /\ gmax (grun codes sched) <= 1 /\ gcur (grun codes sched) <= 1.
Proof.
  pose proof (ginv_run sched) as I. split; [|split].
  - intros (t1 & t2 & Hne & C1 & C2). apply g_in_call_phase in C1, C2.
    assert (H1 : holder_of (gheld (grun codes sched)) c = Some t1) by (apply (ginv_holder _ I); congruence).
    assert (H2 : holder_of (gheld (grun codes sched)) c = Some t2) by (apply (ginv_holder _ I); congruence).
    congruence.
  - apply (ginv_max _ I).
  - rewrite (ginv_cur _ I). destruct (holder_of (gheld (grun codes sched)) c) as [h|]; [destruct (gpht _ h)|]; lia.
Qed.
End Prog.
End Cell.

(* ---------------- induction over objects ---------------- *)
Section HobjInd.
  Variable P : hobj -> Prop.
  Hypothesis Hsink : P HSink.
  Hypothesis Hother : P HOther.
  Hypothesis Hlocked : forall c o, P o -> P (HLocked c o).
  Hypothesis Hmulti : forall l, Forall P l -> P (HMulti l).
  Fixpoint hobj_ind' (o : hobj) : P o :=
    match o with
    | HSink => Hsink
    | HOther => Hother
    | HLocked c o' => Hlocked c o' (hobj_ind' o')
    | HMulti l =>
        Hmulti l ((fix go (l : list hobj) : Forall P l :=
                     match l with [] => Forall_nil P | x :: r => Forall_cons x (hobj_ind' x) (go r) end) l)
    end.
End HobjInd.

(* ---------------- 2. objects guarded by a cell ---------------- *)
(* cell c does not occur in o *)
Fixpoint free (c : nat) (o : hobj) : bool :=
  match o with
  | HSink => true
  | HOther => true
  | HLocked c' o' => negb (c' =? c) && free c o'
  | HMulti l => forallb (free c) l
  end.
(* every path from o to the sink passes through the lockedWriteSyncer of cell c (exactly once) *)
Fixpoint guarded (c : nat) (o : hobj) : bool :=
  match o with
  | HSink => false
  | HOther => true
  | HLocked c' o' => if c' =? c then free c o' else guarded c o'
  | HMulti l => forallb (guarded c) l
  end.

Lemma Forall_forallb {A} (f : A -> bool) (P : A -> Prop) l :
  Forall (fun x => f x = true -> P x) l -> forallb f l = true -> Forall P l.
Proof.
  induction 1 as [|x r Hx _ IH]; intros H; [constructor|]. cbn in H. apply andb_true_iff in H as [H1 H2].
  constructor; [now apply Hx|now apply IH].
Qed.

Lemma free_code c k o : free c o = true -> closed_at c Held (code_of k o).
Proof.
  induction o as [| |c' o IH|l IH] using hobj_ind'; intros F.
  - split; reflexivity.
  - split; reflexivity.
  - cbn [free] in F. apply andb_true_iff in F as [N F]. apply negb_true_iff in N.
    destruct (IH F) as [W E]. cbn [code_of]. split.
    + cbn [gwb gpreb gph_step]. rewrite N. cbn [andb]. rewrite gwb_app, W, E. cbn [gwb gpreb]. now rewrite N.
    + change (JLock c' :: code_of k o ++ [JUnlock c']) with ([JLock c'] ++ code_of k o ++ [JUnlock c']).
      rewrite !gend_app. unfold gend at 3. cbn [fold_left gph_step]. rewrite N, E. unfold gend. cbn [fold_left gph_step].
      now rewrite N.
  - cbn [free] in F. cbn [code_of]. apply closed_concat. apply Forall_map.
    exact (Forall_forallb _ _ l IH F).
Qed.

Lemma guarded_code c k o : guarded c o = true -> closed_at c Out (code_of k o).
Proof.
  induction o as [| |c' o IH|l IH] using hobj_ind'; intros G.
  - discriminate.
  - split; reflexivity.
  - cbn [guarded] in G. cbn [code_of]. destruct (c' =? c) eqn:C.
    + destruct (free_code c k o G) as [W E]. split.
      * cbn [gwb gpreb gph_step]. rewrite C. cbn [andb]. rewrite gwb_app, W, E. cbn [gwb gpreb]. now rewrite C.
      * change (JLock c' :: code_of k o ++ [JUnlock c']) with ([JLock c'] ++ code_of k o ++ [JUnlock c']).
        rewrite !gend_app. unfold gend at 3. cbn [fold_left gph_step]. rewrite C, E. unfold gend. cbn [fold_left gph_step].
        now rewrite C.
    + destruct (IH G) as [W E]. split.
      * cbn [gwb gpreb gph_step]. rewrite C. cbn [andb]. rewrite gwb_app, W, E. cbn [gwb gpreb]. now rewrite C.
      * change (JLock c' :: code_of k o ++ [JUnlock c']) with ([JLock c'] ++ code_of k o ++ [JUnlock c']).
        rewrite !gend_app. unfold gend at 3. cbn [fold_left gph_step]. rewrite C, E. unfold gend. cbn [fold_left gph_step].
        now rewrite C.
  - cbn [guarded] in G. cbn [code_of]. apply closed_concat. apply Forall_map.
    exact (Forall_forallb _ _ l IH G).
Qed.

Lemma pick_P (P : hobj -> Prop) hs i : P HOther -> Forall P hs -> P (pick hs i).
Proof.
  intros H0 H. unfold pick. destruct (i <? 0)%Z; [exact H0|].
  destruct (nth_in_or_default (Z.to_nat i) hs HOther) as [Hin| ->]; [|exact H0].
  rewrite Forall_forall in H. now apply H.
Qed.

Lemma thread_wb c hs calls : Forall (fun o => guarded c o = true) hs -> gwb c Out (thread_code hs calls) = true.
Proof.
  intros H. unfold thread_code. apply (closed_concat c Out). apply Forall_map. apply Forall_forall. intros hk _.
  apply guarded_code. now apply (pick_P (fun o => guarded c o = true)).
Qed.

(* any handles that are all guarded by one cell: every program, every schedule *)
Theorem handles_mutex_general c hs prog sched :
  Forall (fun o => guarded c o = true) hs ->
  let codes := handle_codes hs prog in
  ~ g_overlap codes (grun codes sched) /\ gmax (grun codes sched) <= 1 /\ gcur (grun codes sched) <= 1.
Proof.
  intros H. apply (cell_mutex c). intros t. unfold handle_codes.
  change (@nil ginstr) with (thread_code hs []). rewrite map_nth. now apply thread_wb.
Qed.

(* ---------------- 3. every handle of a handle graph goes through the root's cell ---------------- *)
Lemma lock_same_cell fresh c o : h_lock Reuse fresh (HLocked c o) = (HLocked c o, fresh).
Proof. reflexivity. Qed.

Lemma lock_guarded fresh o : guarded 0 o = true -> 1 <= fresh ->
  guarded 0 (fst (h_lock Reuse fresh o)) = true /\ 1 <= snd (h_lock Reuse fresh o).
Proof.
  intros G F. assert (N : (fresh =? 0) = false) by (apply Nat.eqb_neq; lia).
  destruct o; cbn [h_lock fst snd guarded]; rewrite ?N; split; try assumption; try lia; try discriminate.
Qed.
Lemma multi_guarded l : Forall (fun o => guarded 0 o = true) l -> guarded 0 (h_new_multi l) = true.
Proof.
  intros H. assert (X : forallb (guarded 0) l = true) by (apply forallb_forall; now rewrite Forall_forall in H).
  destruct l as [|a [|b r]]; cbn [h_new_multi]; [reflexivity| |exact X]. now inversion H.
Qed.

Definition st_ok (st : list hobj * nat) : Prop := Forall (fun o => guarded 0 o = true) (fst st) /\ 1 <= snd st.

Lemma d_apply_ok st d : st_ok st -> st_ok (d_apply Reuse st d).
Proof.
  intros [H F]. unfold d_apply.
  assert (PK : forall i, guarded 0 (pick (fst st) i) = true)
    by (intros i; now apply (pick_P (fun o => guarded 0 o = true))).
  assert (PL : forall a, Forall (fun o => guarded 0 o = true) (map (pick (fst st)) a))
    by (intros a; apply Forall_map, Forall_forall; intros i _; apply PK).
  destruct d as [i|i|a|a].
  - destruct (lock_guarded (snd st) _ (PK i) F) as [G F']. destruct (h_lock Reuse (snd st) (pick (fst st) i)) as [o f].
    split; [apply Forall_app; split; [exact H|constructor; [exact G|constructor]]|exact F'].
  - split; [apply Forall_app; split; [exact H|constructor; [apply PK|constructor]]|exact F].
  - split; [apply Forall_app; split; [exact H|constructor; [apply multi_guarded, PL|constructor]]|exact F].
  - unfold h_combine. destruct (map (pick (fst st)) a) as [|x r] eqn:E.
    + split; [apply Forall_app; split; [exact H|constructor; [reflexivity|constructor]]|exact F].
    + rewrite <- E. destruct (lock_guarded (snd st) _ (multi_guarded _ (PL a)) F) as [G F'].
      destruct (h_lock Reuse (snd st) (h_new_multi (map (pick (fst st)) a))) as [o f].
      split; [apply Forall_app; split; [exact H|constructor; [exact G|constructor]]|exact F'].
Qed.

Lemma root_ok r : guarded 0 (fst (root Reuse r)) = true /\ snd (root Reuse r) = 1.
Proof.
  unfold root. destruct (r =? 2)%Z; [split; reflexivity|]. destruct (r =? 3)%Z; [split; reflexivity|].
  destruct (r =? 4)%Z; [split; reflexivity|]. destruct (r =? 0)%Z; split; reflexivity.
Qed.

Lemma fold_ok ds : forall st, st_ok st -> st_ok (fold_left (d_apply Reuse) ds st).
Proof. induction ds as [|d r IH]; intros st H; [exact H|]. cbn [fold_left]. apply IH. now apply d_apply_ok. Qed.

Theorem graph_guarded r ds : Forall (fun o => guarded 0 o = true) (graph Reuse r ds).
Proof.
  unfold graph. apply fold_ok. destruct (root_ok r) as [G F]. split; cbn [fst snd]; [constructor; [exact G|constructor]|lia].
Qed.

Theorem handles_mutex r ds prog sched :
  let codes := handle_prog Reuse r ds prog in
  ~ g_overlap codes (grun codes sched) /\ gmax (grun codes sched) <= 1 /\ gcur (grun codes sched) <= 1.
Proof. apply (handles_mutex_general 0). apply graph_guarded. Qed.

(* ---------------- 4. the number of sink calls ---------------- *)
Fixpoint sinks (o : hobj) : nat :=
  match o with
  | HSink => 1
  | HOther => 0
  | HLocked _ o' => sinks o'
  | HMulti l => fold_right Nat.add 0 (map sinks l)
  end.

Lemma count_begin_app a b : count_begin (a ++ b) = count_begin a + count_begin b.
Proof. unfold count_begin. now rewrite filter_app, app_length. Qed.
Lemma count_begin_concat l : count_begin (concat l) = fold_right Nat.add 0 (map count_begin l).
Proof. induction l as [|x r IH]; [reflexivity|]. cbn [concat map fold_right]. now rewrite count_begin_app, IH. Qed.

Lemma count_code k o : count_begin (code_of k o) = sinks o.
Proof.
  induction o as [| |c' o IH|l IH] using hobj_ind'; cbn [code_of sinks]; try reflexivity.
  - change (JLock c' :: code_of k o ++ [JUnlock c']) with ([JLock c'] ++ code_of k o ++ [JUnlock c']).
    rewrite !count_begin_app, IH. cbn. lia.
  - rewrite count_begin_concat, map_map. f_equal. induction IH as [|x r Hx _ IHr]; [reflexivity|].
    cbn [map]. now rewrite Hx, IHr.
Qed.

Lemma sinks_pick hs i : sinks (pick hs i) = r_pick (map sinks hs) i.
Proof.
  unfold pick, r_pick. destruct (i <? 0)%Z; [reflexivity|]. change 0 with (sinks HOther) at 1. now rewrite map_nth.
Qed.
Lemma sinks_lock m f o : sinks (fst (h_lock m f o)) = sinks o.
Proof. destruct o, m; reflexivity. Qed.
Lemma sinks_multi l : sinks (h_new_multi l) = fold_right Nat.add 0 (map sinks l).
Proof. destruct l as [|a [|b r]]; cbn [h_new_multi sinks map fold_right]; lia. Qed.
Lemma sinks_picks hs a : map sinks (map (pick hs) a) = map (r_pick (map sinks hs)) a.
Proof. rewrite map_map. apply map_ext. intros i. apply sinks_pick. Qed.

Lemma d_apply_sinks m st d : map sinks (fst (d_apply m st d)) = r_apply (map sinks (fst st)) d.
Proof.
  unfold d_apply, r_apply. destruct d as [i|i|a|a].
  - pose proof (sinks_lock m (snd st) (pick (fst st) i)) as L.
    destruct (h_lock m (snd st) (pick (fst st) i)) as [o f]. cbn [fst] in *. rewrite map_app. cbn [map].
    now rewrite L, sinks_pick.
  - cbn [fst]. rewrite map_app. cbn [map]. unfold h_add_sync. now rewrite sinks_pick.
  - cbn [fst]. rewrite map_app. cbn [map]. now rewrite sinks_multi, sinks_picks.
  - unfold h_combine. destruct (map (pick (fst st)) a) as [|x r] eqn:E.
    + cbn [fst]. rewrite map_app. cbn [map sinks]. rewrite <- sinks_picks, E. reflexivity.
    + rewrite <- E. pose proof (sinks_lock m (snd st) (h_new_multi (map (pick (fst st)) a))) as L.
      destruct (h_lock m (snd st) (h_new_multi (map (pick (fst st)) a))) as [o f]. cbn [fst] in *.
      rewrite map_app. cbn [map]. now rewrite L, sinks_multi, sinks_picks.
Qed.
Lemma fold_sinks m ds : forall st, map sinks (fst (fold_left (d_apply m) ds st)) = fold_left r_apply ds (map sinks (fst st)).
Proof.
  induction ds as [|d r IH]; intros st; [reflexivity|]. cbn [fold_left]. now rewrite IH, d_apply_sinks.
Qed.
Lemma root_sinks m r : sinks (fst (root m r)) = 1.
Proof.
  unfold root. destruct (r =? 2)%Z; [destruct m; reflexivity|]. destruct (r =? 3)%Z; [destruct m; reflexivity|].
  destruct (r =? 4)%Z; [destruct m; reflexivity|]. destruct (r =? 0)%Z; destruct m; reflexivity.
Qed.

(* one call through handle number h reaches the sink [reaches ds]_h times *)
Theorem graph_reaches m r ds : map sinks (graph m r ds) = reaches ds.
Proof. unfold graph, reaches. rewrite fold_sinks. cbn [fst map]. now rewrite root_sinks. Qed.

Lemma thread_begins hs calls :
  count_begin (thread_code hs calls) = fold_right (fun hk b => r_pick (map sinks hs) (fst hk) + b) 0 calls.
Proof.
  unfold thread_code. rewrite count_begin_concat, map_map. induction calls as [|hk r IH]; [reflexivity|].
  cbn [map fold_right]. now rewrite IH, count_code, sinks_pick.
Qed.
Theorem prog_begins_reach m r ds prog : prog_begins (graph m r ds) prog = total_reach ds prog.
Proof.
  unfold prog_begins, total_reach. induction prog as [|calls rest IH]; [reflexivity|].
  cbn [fold_right]. now rewrite IH, thread_begins, graph_reaches.
Qed.

(* ---------------- 5. the model can express the failure ---------------- *)
(* with a Lock that strips the existing layer and wraps the sink again, the original handle and
   the re-locked one guard the sink with two mutexes: a Write through each, both inside *)
Lemma rewrap_refuted :
  exists r ds prog sched,
    let codes := handle_prog Rewrap r ds prog in
    g_overlap codes (grun codes sched) /\ gmax (grun codes sched) = 2.
Proof.
  exists 0%Z, [DLock 0%Z], [[(0%Z, 0%Z)]; [(1%Z, 1%Z)]], [0; 0; 1; 1]. split; [|reflexivity].
  exists 0, 1. split; [discriminate|]. split; [exists 0%Z|exists 1%Z]; reflexivity.
Qed.
(* the same through CombineWriteSyncers (NewMultiWriteSyncer hands a single sink straight to Lock) *)
Lemma rewrap_refuted_combine :
  let codes := handle_prog Rewrap 1%Z [DCombine [0%Z]] [[(0%Z, 0%Z)]; [(1%Z, 0%Z)]] in
  gmax (grun codes [0; 0; 1; 1]) = 2 /\ graph Rewrap 1%Z [DCombine [0%Z]] = [HLocked 0 HSink; HLocked 1 HSink] /\
  graph Reuse 1%Z [DCombine [0%Z]] = [HLocked 0 HSink; HLocked 0 HSink].
Proof. repeat split. Qed.

(* C04 -- the executable oracle is exactly the merge specification:
   is_merge / check_stream are sound and complete for MergeOf. *)
From Coq Require Import List ZArith Bool Arith Lia.
From Coq.Strings Require Import Byte.
Import ListNotations.
From Zap Require Import Base.Wire C04.Model C04.Atomic.

Definition lths {B} (ths : list (list B)) : nat -> list B := fun t => nth t ths [].

Lemma nth_setn_same {B} (l : list B) i v d : i < length l -> nth i (setn l i v) d = v.
Proof. revert i. induction l as [|x r IH]; intros [|i] H; cbn in *; try lia; auto. apply IH. lia. Qed.
Lemma nth_setn_other {B} (l : list B) i v d t : t <> i -> nth t (setn l i v) d = nth t l d.
Proof. revert i t. induction l as [|x r IH]; intros [|i] [|t] H; cbn; auto; try congruence. Qed.
Lemma setn_length {B} (l : list B) i v : length (setn l i v) = length l.
Proof. revert i. induction l as [|x r IH]; intros [|i]; cbn; auto. Qed.

Lemma nth_cons_lt {B} (l : list (list B)) i x tl : nth i l [] = x :: tl -> i < length l.
Proof. intros H. destruct (Nat.lt_ge_cases i (length l)) as [|G]; [assumption|]. rewrite nth_overflow in H by exact G. discriminate. Qed.

(* putting an element taken from the head of thread i in front of a merge of the rest *)
Lemma merge_cons {B} (ths : list (list B)) i x tl sigma :
  nth i ths [] = x :: tl -> MergeOf (lths (setn ths i tl)) sigma -> MergeOf (lths ths) (x :: sigma).
Proof.
  intros Hi (lab & Hm & Ho). exists ((i, x) :: lab). split; [cbn; now rewrite Hm|].
  intros t. unfold owned. cbn [filter fst]. specialize (Ho t). unfold lths in *.
  destruct (Nat.eqb_spec i t) as [->|Hne].
  - cbn [map snd]. fold (owned t lab). rewrite Ho, nth_setn_same by (eapply nth_cons_lt; eauto). now rewrite Hi.
  - fold (owned t lab). rewrite Ho. apply nth_setn_other. congruence.
Qed.

Lemma merge_nil {B} (ths : list (list B)) : (forall t, nth t ths [] = []) -> MergeOf (lths ths) [].
Proof. intros H. exists []. split; [reflexivity|]. intros t. unfold lths. now rewrite H. Qed.

Lemma forallb_nil_nth {B} (ths : list (list B)) : forallb is_nil ths = true <-> forall t, nth t ths [] = [].
Proof.
  induction ths as [|th r IH]; cbn.
  - split; [intros _ [|t]; reflexivity|reflexivity].
  - rewrite andb_true_iff, IH. split.
    + intros [H1 H2] [|t]; [destruct th; [reflexivity|discriminate]|apply H2].
    + intros H. split; [specialize (H 0); cbn in H; now subst|intros t; apply (H (S t))].
Qed.

Lemma pops_in x ths ths' :
  In ths' (pops x ths) <-> exists i tl, nth i ths [] = x :: tl /\ ths' = setn ths i tl.
Proof.
  revert ths'. induction ths as [|th r IH]; intros ths'; cbn [pops].
  - split; [intros []|]. intros (i & tl & H & _). destruct i; discriminate.
  - rewrite in_app_iff, in_map_iff. split.
    + intros [H|(y & <- & H)].
      * destruct th as [|y tl]; [destruct H|]. destruct (bytes_eqb x y) eqn:E; [|destruct H].
        apply bytes_eqb_eq in E. subst y. destruct H as [<-|[]]. exists 0, tl. auto.
      * apply IH in H. destruct H as (i & tl & H & ->). exists (S i), tl. auto.
    + intros (i & tl & H & ->). destruct i as [|i]; cbn in H.
      * left. subst th. rewrite (proj2 (bytes_eqb_eq x x) eq_refl). now left.
      * right. exists (setn r i tl). split; [reflexivity|]. apply IH. eauto.
Qed.

Theorem is_merge_sound sigma : forall ths, is_merge sigma ths = true -> MergeOf (lths ths) sigma.
Proof.
  induction sigma as [|x r IH]; intros ths H; cbn [is_merge] in H.
  - apply merge_nil. now apply forallb_nil_nth.
  - apply existsb_exists in H. destruct H as (ths' & Hin & Hm). apply pops_in in Hin.
    destruct Hin as (i & tl & Hi & ->). eapply merge_cons; eauto.
Qed.

Theorem is_merge_complete sigma : forall ths, MergeOf (lths ths) sigma -> is_merge sigma ths = true.
Proof.
  induction sigma as [|x r IH]; intros ths (lab & Hm & Ho); cbn [is_merge].
  - apply forallb_nil_nth. intros t. destruct lab; [|discriminate]. change (lths ths t = []). now rewrite <- (Ho t).
  - destruct lab as [|[i y] lab]; [discriminate|]. cbn in Hm. injection Hm as -> Hm.
    assert (Hi : nth i ths [] = x :: owned i lab).
    { change (lths ths i = x :: owned i lab). rewrite <- (Ho i). unfold owned. cbn [filter fst]. now rewrite Nat.eqb_refl. }
    apply existsb_exists. exists (setn ths i (owned i lab)). split; [apply pops_in; eauto|].
    apply IH. exists lab. split; [exact Hm|]. intros t. unfold lths.
    destruct (Nat.eq_dec t i) as [->|Hne].
    + now rewrite nth_setn_same by (eapply nth_cons_lt; eauto).
    + rewrite nth_setn_other by exact Hne. change (owned t lab = lths ths t). rewrite <- (Ho t). unfold owned. cbn [filter fst].
      destruct (Nat.eqb_spec i t); [congruence|reflexivity].
Qed.

(* ---- splitting a stream into lines ---- *)
Lemma split_nl_concat s : forall cur ls rest, split_nl cur s = (ls, rest) -> rev cur ++ s = concat ls ++ rest.
Proof.
  induction s as [|b r IH]; intros cur ls rest H; cbn [split_nl] in H; rewrite <- ?rev_alt in H.
  - injection H as <- <-. cbn. now rewrite app_nil_r.
  - destruct (Byte.eqb b nl) eqn:E.
    + destruct (split_nl [] r) as [ls' rest'] eqn:F. injection H as <- <-.
      apply IH in F. cbn in F. cbn [concat rev]. rewrite <- !app_assoc. cbn. now rewrite F.
    + apply IH in H. cbn [rev] in H. rewrite <- app_assoc in H. exact H.
Qed.

Lemma split_nl_line l : wf_line l = true -> forall cur s,
  split_nl cur (l ++ s) = (let '(ls, rest) := split_nl [] s in ((rev cur ++ l) :: ls, rest)).
Proof.
  induction l as [|b r IH]; intros W cur s; [discriminate|].
  cbn [wf_line] in W. destruct r as [|c r'].
  - cbn [app split_nl]. rewrite W. destruct (split_nl [] s). rewrite <- rev_alt. cbn [rev]. reflexivity.
  - apply andb_true_iff in W as [W1 W2]. apply negb_true_iff in W1.
    change ((b :: c :: r') ++ s) with (b :: ((c :: r') ++ s)). cbn [split_nl]. rewrite W1.
    rewrite (IH W2). destruct (split_nl [] s). cbn [rev]. now rewrite <- app_assoc.
Qed.

Lemma split_nl_lines sigma : Forall (fun l => wf_line l = true) sigma -> split_nl [] (concat sigma) = (sigma, []).
Proof.
  induction sigma as [|l r IH]; intros F; [reflexivity|].
  inversion F as [|? ? Hl Hr]; subst. cbn [concat]. rewrite (split_nl_line l Hl), (IH Hr). reflexivity.
Qed.

Theorem check_stream_sound ths s : check_stream ths s = true -> StreamOk (lths ths) s.
Proof.
  unfold check_stream. destruct (split_nl [] s) as [ls rest] eqn:E. intros H.
  apply andb_true_iff in H as [H1 H2]. destruct rest; [|discriminate].
  exists ls. split; [now apply is_merge_sound|]. apply split_nl_concat in E. cbn in E. now rewrite app_nil_r in E.
Qed.

Lemma merge_elems {B} (ths : nat -> list B) sigma x : MergeOf ths sigma -> In x sigma -> exists t, In x (ths t).
Proof.
  intros (lab & Hm & Ho) Hin. subst sigma. apply in_map_iff in Hin. destruct Hin as ([t y] & E & Hin). cbn in E. subst y.
  exists t. rewrite <- (Ho t). unfold owned. apply in_map_iff. exists (t, x). split; [reflexivity|].
  apply filter_In. split; [exact Hin|cbn; apply Nat.eqb_refl].
Qed.

Theorem check_stream_complete ths s :
  (forall t l, In l (nth t ths []) -> wf_line l = true) -> StreamOk (lths ths) s -> check_stream ths s = true.
Proof.
  intros W (sigma & M & ->). unfold check_stream.
  rewrite split_nl_lines.
  - cbn. now apply is_merge_complete.
  - apply Forall_forall. intros l Hl. destruct (merge_elems _ _ _ M Hl) as (t & Ht). eapply W; eauto.
Qed.

(* ---- the hinted serial order is a merge, whatever the hint ---- *)
Lemma merge_concat {B} (ths : list (list B)) : MergeOf (lths ths) (concat ths).
Proof.
  induction ths as [|th r IH] using rev_ind.
  - apply merge_nil. intros [|t]; reflexivity.
  - destruct IH as (lab & Hm & Ho). exists (lab ++ map (pair (length r)) th). split.
    + rewrite map_app, Hm, concat_app. cbn. rewrite app_nil_r, map_map. cbn. now rewrite map_id.
    + intros t. rewrite owned_app, Ho. unfold lths, owned.
      destruct (Nat.lt_trichotomy t (length r)) as [L|[->|G]].
      * rewrite app_nth1 by exact L. replace (filter _ (map (pair (length r)) th)) with (@nil (nat * B)); [cbn; now rewrite app_nil_r|].
        symmetry. clear -L. induction th as [|y th IH]; [reflexivity|]. cbn. destruct (Nat.eqb_spec (length r) t); [lia|exact IH].
      * rewrite nth_overflow by lia. rewrite app_nth2, Nat.sub_diag by lia. cbn [nth app].
        clear. induction th as [|y th IH]; [reflexivity|]. cbn. rewrite Nat.eqb_refl. cbn. now rewrite IH.
      * rewrite nth_overflow by lia. rewrite (nth_overflow (r ++ [th])) by (rewrite app_length; cbn; lia). cbn [app].
        clear -G. induction th as [|y th IH]; [reflexivity|]. cbn. destruct (Nat.eqb_spec (length r) t); [lia|exact IH].
Qed.

Theorem pick_merge {B} hint : forall ths : list (list B), MergeOf (lths ths) (pick hint ths).
Proof.
  induction hint as [|t h IH]; intros ths; cbn [pick]; [apply merge_concat|].
  destruct (nth t ths []) as [|x tl] eqn:E; [apply IH|]. eapply merge_cons; eauto.
Qed.

(* MergeOf is preserved when every element is replaced by a list of elements *)
Lemma merge_flat_map {B C} (f : B -> list C) ths sigma :
  MergeOf ths sigma -> MergeOf (fun t => flat_map f (ths t)) (flat_map f sigma).
Proof.
  intros (lab & Hm & Ho). exists (flat_map (fun p => map (pair (fst p)) (f (snd p))) lab). split.
  - subst sigma. clear. induction lab as [|[t x] lab IH]; [reflexivity|]. cbn. rewrite map_app, IH, map_map. cbn. now rewrite map_id.
  - intros t. rewrite <- (Ho t). clear. unfold owned. induction lab as [|[u x] lab IH]; [reflexivity|].
    cbn [flat_map fst snd filter]. rewrite filter_app, map_app, IH.
    destruct (Nat.eqb_spec u t) as [->|Hne]; cbn [map snd flat_map]; f_equal.
    + induction (f x) as [|c r IHr]; [reflexivity|]. cbn. rewrite Nat.eqb_refl. cbn. now rewrite IHr.
    + induction (f x) as [|c r IHr]; [reflexivity|]. cbn. destruct (Nat.eqb_spec u t); [contradiction|exact IHr].
Qed.

(* C04 -- concurrent logging delivers every entry exactly once as an intact line.

   Model (no proofs in this file):

   1. A generic interleaving machine: threads are lists of atomic instructions
      [ILock l | IUnlock l | IAct l a], a schedule is a [list nat] of thread ids,
      a blocked thread's turn is a no-op.  Actions act on the state of the
      object guarded by lock [l]; nothing in the machine makes a critical
      section atomic -- that is what the theorems prove.

   2. zap's sinks as actions on a sink object (zapcore/write_syncer.go,
      zapcore/buffered_write_syncer.go + bufio.Writer, writer.go):
        AApp u c      the underlying sink number u receives the chunk c of a
                      Write call (an underlying write is deliberately NOT atomic:
                      a line arrives in arbitrary chunks);
        ABWrite sz p  body of BufferedWriteSyncer.Write (pre-flush rule, then
                      bufio.Writer.Write with its fill-flush-continue loop);
        ABFlush       body of Sync (bufio Flush; ws.Sync has no stream effect).

   3. zap's logging path compiled to instructions (zapcore/core.go ioCore.Write,
      zapcore/tee.go multiCore.Write, zapcore/entry.go CheckedEntry.Write):
      a log call visits the branches of the tee in order; at each branch the
      entry is encoded privately (zapcore/json_encoder.go EncodeEntry returns an
      owned buffer -- here: the line is a value of the entry) and handed to the
      branch's sink in ONE Write call
         Lock(ws)/CombineWriteSyncers(ws1..wsk):  Lock; chunks to ws1; ..; chunks to wsk; Unlock
         BufferedWriteSyncer:                     Lock mu; ABWrite; Unlock mu
      followed by the branch's Sync when the level is above Error.  Logger.Sync
      and the flush ticks are further operations any thread may issue.

   4. The specification, independent of the machine: [MergeOf] (every thread's
      lines appear exactly, in its order, nothing else) and the executable
      checker [check_stream] run by the driver on the bytes the real sinks
      received. *)
From Coq Require Import List ZArith Bool Arith Lia.
From Coq.Strings Require Import Byte.
Import ListNotations.
From Zap Require Import Base.Wire.

Definition is_nil {A} (l : list A) : bool := match l with [] => true | _ => false end.
Definition upd {B} (f : nat -> B) (k : nat) (v : B) : nat -> B :=
  fun x => if Nat.eqb x k then v else f x.

(* ------------------------------------------------------------------ *)
(* 1. the interleaving machine                                          *)
(* ------------------------------------------------------------------ *)
Section Machine.
  Variable St : Type.                 (* state of one lock-guarded object *)
  Variable Act : Type.                (* atomic actions on it *)
  Variable act : Act -> St -> St.
  Variable Item : Type.               (* one sink call = one critical section *)
  Variable sec_of : Item -> nat * list Act.   (* its lock/object and its actions *)

  Inductive instr := ILock (l : nat) | IUnlock (l : nat) | IAct (l : nat) (a : Act).

  Record mstate := { conts : nat -> list instr;        (* per thread: rest of its code *)
                     holder : nat -> option nat;       (* per lock: who holds it *)
                     obj : nat -> St }.                (* per lock: the guarded object *)

  Definition step (s : mstate) (t : nat) : mstate :=
    match conts s t with
    | [] => s
    | ILock l :: k =>
        match holder s l with
        | None => {| conts := upd (conts s) t k; holder := upd (holder s) l (Some t); obj := obj s |}
        | Some _ => s                                   (* blocked: the turn is lost *)
        end
    | IUnlock l :: k => {| conts := upd (conts s) t k; holder := upd (holder s) l None; obj := obj s |}
    | IAct l a :: k => {| conts := upd (conts s) t k; holder := holder s;
                          obj := upd (obj s) l (act a (obj s l)) |}
    end.

  Definition minit (code : nat -> list instr) (o0 : nat -> St) : mstate :=
    {| conts := code; holder := fun _ => None; obj := o0 |}.
  Definition run (code : nat -> list instr) (o0 : nat -> St) (sched : list nat) : mstate :=
    fold_left step sched (minit code o0).
  Definition complete (s : mstate) : Prop := forall t, conts s t = [].

  (* s.Lock(); body; s.Unlock() *)
  Definition compile_item (it : Item) : list instr :=
    ILock (fst (sec_of it)) :: map (IAct (fst (sec_of it))) (snd (sec_of it)) ++ [IUnlock (fst (sec_of it))].
  Definition flat (its : list Item) : list instr := flat_map compile_item its.
  (* the same call with the mutex dropped (used only by the _refuted lemmas) *)
  Definition compile_item_nolock (it : Item) : list instr := map (IAct (fst (sec_of it))) (snd (sec_of it)).
  Definition flat_nolock (its : list Item) : list instr := flat_map compile_item_nolock its.

  (* serial execution of whole sink calls *)
  Definition exec_acts (acts : list Act) (x : St) : St := fold_left (fun x a => act a x) acts x.
  Definition exec_items (its : list Item) (x : St) : St :=
    fold_left (fun x it => exec_acts (snd (sec_of it)) x) its x.
  Definition on_lock (l : nat) (its : list Item) : list Item :=
    filter (fun it => Nat.eqb (fst (sec_of it)) l) its.
End Machine.
Arguments ILock {Act}. Arguments IUnlock {Act}. Arguments IAct {Act}.
Arguments conts {St Act}. Arguments holder {St Act}. Arguments obj {St Act}.

(* ------------------------------------------------------------------ *)
(* 4a. the merge specification                                          *)
(* ------------------------------------------------------------------ *)
(* [lab] labels every element of the result with the thread it came from *)
Definition owned {B} (t : nat) (lab : list (nat * B)) : list B :=
  map snd (filter (fun p => Nat.eqb (fst p) t) lab).
(* sigma is a merge of the per-thread lists ths: each thread's elements occur
   exactly, in that thread's order, and there is nothing else *)
Definition MergeOf {B} (ths : nat -> list B) (sigma : list B) : Prop :=
  exists lab : list (nat * B), map snd lab = sigma /\ forall t, owned t lab = ths t.

(* the byte stream s is the concatenation of such a merge: every line intact,
   none torn, interleaved, merged, duplicated or lost, per-thread order kept *)
Definition StreamOk (ths : nat -> list bytes) (s : bytes) : Prop :=
  exists sigma, MergeOf ths sigma /\ s = concat sigma.

(* ------------------------------------------------------------------ *)
(* 2. sink objects                                                      *)
(* ------------------------------------------------------------------ *)
Record sinkst := { outs : nat -> bytes;   (* byte stream received by underlying sink u *)
                   bbuf : bytes }.        (* bufio.Writer buffer (BufferedWriteSyncer only) *)
Inductive sact := AApp (u : nat) (c : bytes) | ABWrite (size : nat) (p : bytes) | ABFlush.

Definition sink0 : sinkst := {| outs := fun _ => []; bbuf := [] |}.
Definition app_out (x : sinkst) (u : nat) (c : bytes) : sinkst :=
  {| outs := upd (outs x) u (outs x u ++ c); bbuf := bbuf x |}.
(* bufio.Writer.Flush over a sink that accepts everything *)
Definition sflush (x : sinkst) : sinkst :=
  match bbuf x with
  | [] => x
  | _ => {| outs := upd (outs x) 0 (outs x 0 ++ bbuf x); bbuf := [] |}
  end.
(* bufio.Writer.Write:  for len(p) > b.Available() { if b.Buffered()==0 { write p
   directly } else { fill the buffer; Flush }; p = p[n:] }; copy the rest.
   The loop body runs at most twice (after a fill+flush the buffer is empty). *)
Fixpoint bwrite (fuel size : nat) (x : sinkst) (p : bytes) : sinkst :=
  match fuel with
  | 0 => x
  | S f =>
      if size - length (bbuf x) <? length p then
        match bbuf x with
        | [] => {| outs := upd (outs x) 0 (outs x 0 ++ p); bbuf := [] |}
        | _ => let n := size - length (bbuf x) in
               bwrite f size (sflush {| outs := outs x; bbuf := bbuf x ++ firstn n p |}) (skipn n p)
        end
      else {| outs := outs x; bbuf := bbuf x ++ p |}
  end.
(* BufferedWriteSyncer.Write under s.mu:
   if len(bs) > s.writer.Available() && s.writer.Buffered() > 0 { Flush }; s.writer.Write(bs) *)
Definition bws_write (size : nat) (x : sinkst) (p : bytes) : sinkst :=
  let x1 := if (size - length (bbuf x) <? length p) && negb (is_nil (bbuf x)) then sflush x else x in
  bwrite 3 size x1 p.
(* the same without zap's pre-flush rule (only for the _refuted lemma) *)
Definition bws_write_noflush (size : nat) (x : sinkst) (p : bytes) : sinkst := bwrite 3 size x p.

Definition sact_run (a : sact) (x : sinkst) : sinkst :=
  match a with
  | AApp u c => app_out x u c
  | ABWrite size p => bws_write size x p
  | ABFlush => sflush x
  end.

(* ------------------------------------------------------------------ *)
(* 3. zap's logging path                                                *)
(* ------------------------------------------------------------------ *)
(* the sink of one ioCore (one branch of the tee) *)
Inductive bkind :=
| KLocked (k : nat)          (* zapcore.Lock(ws) (k = 1) / zap.CombineWriteSyncers / zap.Open: one mutex around k sinks *)
| KBuffered (size : nat).    (* &BufferedWriteSyncer{WS: ws, Size: size} *)
Definition nsinks (kd : bkind) : nat := match kd with KLocked k => k | KBuffered _ => 1 end.

(* one log call: per branch, the chunks in which that branch's line reaches an
   underlying sink (the line is their concatenation); esync = level above Error *)
Record entry := { echunks : list (list bytes); esync : bool }.
Inductive op := OLog (e : entry) | OSync | OTick (j : nat).
Definition eline (j : nat) (e : entry) : bytes := concat (nth j (echunks e) []).

(* sink calls (critical sections) *)
Inductive item := IWrite (j : nat) (kd : bkind) (chunks : list bytes) | IFlush (j : nat).
(* lockedWriteSyncer.Write -> [multiWriteSyncer.Write: for each w { w.Write(p) }] ;
   BufferedWriteSyncer.Write *)
Definition write_acts (kd : bkind) (chunks : list bytes) : list sact :=
  match kd with
  | KLocked k => flat_map (fun u => map (AApp u) chunks) (seq 0 k)
  | KBuffered size => [ABWrite size (concat chunks)]
  end.
Definition item_sec (it : item) : nat * list sact :=
  match it with
  | IWrite j kd chunks => (j, write_acts kd chunks)
  | IFlush j => (j, [ABFlush])
  end.
Definition item_lines (it : item) : list bytes :=
  match it with IWrite _ _ chunks => [concat chunks] | IFlush _ => [] end.

Definition branches (cfg : list bkind) : list (nat * bkind) := combine (seq 0 (length cfg)) cfg.
(* CheckedEntry.Write: for each core { ioCore.Write: EncodeEntry; out.Write(buf.Bytes()); buf.Free();
   if ent.Level > ErrorLevel { c.Sync() } } *)
Definition log_items (cfg : list bkind) (e : entry) : list item :=
  flat_map (fun jk => IWrite (fst jk) (snd jk) (nth (fst jk) (echunks e) []) ::
                      (if esync e then [IFlush (fst jk)] else [])) (branches cfg).
Definition op_items (cfg : list bkind) (o : op) : list item :=
  match o with
  | OLog e => log_items cfg e
  | OSync => map (fun jk => IFlush (fst jk)) (branches cfg)      (* Logger.Sync -> multiCore.Sync *)
  | OTick j => [IFlush j]                                        (* flushLoop: <-ticker.C; s.Sync() *)
  end.
Definition thread_items (cfg : list bkind) (ops : list op) : list item := flat_map (op_items cfg) ops.
Definition thread_lines (j : nat) (ops : list op) : list bytes :=
  flat_map (fun o => match o with OLog e => [eline j e] | _ => [] end) ops.

Definition zinstr := instr sact.
Definition zstate := mstate sinkst sact.
Definition zcode (cfg : list bkind) (prog : list (list op)) : nat -> list zinstr :=
  fun t => flat sact item item_sec (thread_items cfg (nth t prog [])).
Definition zrun (cfg : list bkind) (prog : list (list op)) (sched : list nat) : zstate :=
  run sinkst sact sact_run (zcode cfg prog) (fun _ => sink0) sched.
Definition zcomplete (s : zstate) : Prop := complete sinkst sact s.
Definition prog_lines (j : nat) (prog : list (list op)) : nat -> list bytes :=
  fun t => thread_lines j (nth t prog []).
(* what the underlying sink u of branch j has received once the logger is
   finally synced (Logger.Sync / BufferedWriteSyncer.Stop by the owner) *)
Definition final_out (s : zstate) (j u : nat) : bytes := outs (sflush (obj s j)) u.

(* variants of the code that exist only to be refuted *)
(* (a) the mutex dropped *)
Definition zcode_nolock (cfg : list bkind) (prog : list (list op)) : nat -> list zinstr :=
  fun t => flat_nolock sact item item_sec (thread_items cfg (nth t prog [])).
(* (b) ioCore.Write handing the line to the sink in two Write calls *)
Definition split_last (chunks : list bytes) : list bytes * list bytes :=
  (removelast chunks, match chunks with [] => [] | _ => [last chunks []] end).
Definition log_items_two (cfg : list bkind) (e : entry) : list item :=
  flat_map (fun jk => let c := nth (fst jk) (echunks e) [] in
                      [IWrite (fst jk) (snd jk) (fst (split_last c)); IWrite (fst jk) (snd jk) (snd (split_last c))])
           (branches cfg).
Definition zcode_two (cfg : list bkind) (prog : list (list op)) : nat -> list zinstr :=
  fun t => flat sact item item_sec
             (flat_map (fun o => match o with OLog e => log_items_two cfg e | _ => op_items cfg o end) (nth t prog [])).

(* ------------------------------------------------------------------ *)
(* 4b. the executable oracle                                            *)
(* ------------------------------------------------------------------ *)
Definition nl : byte := x0a.
(* complete newline-terminated lines of a stream (newline kept) and the unterminated rest.
   [cur] is the current line reversed; [rev_append cur [] = rev cur] (List.rev_alt) is used
   because the extracted [rev] is quadratic and lines of several hundred KiB are judged *)
Fixpoint split_nl (cur : bytes) (s : bytes) : list bytes * bytes :=
  match s with
  | [] => ([], rev_append cur [])
  | b :: r => if Byte.eqb b nl
              then let '(ls, rest) := split_nl [] r in (rev_append (b :: cur) [] :: ls, rest)
              else split_nl (b :: cur) r
  end.
(* all ways of taking x from the head of one thread *)
Fixpoint pops (x : bytes) (ths : list (list bytes)) : list (list (list bytes)) :=
  match ths with
  | [] => []
  | th :: r =>
      (match th with
       | y :: tl => if bytes_eqb x y then [tl :: r] else []
       | [] => []
       end) ++ map (cons th) (pops x r)
  end.
Fixpoint is_merge (sigma : list bytes) (ths : list (list bytes)) {struct sigma} : bool :=
  match sigma with
  | [] => forallb is_nil ths
  | x :: r => existsb (is_merge r) (pops x ths)
  end.
Definition check_stream (ths : list (list bytes)) (s : bytes) : bool :=
  let '(ls, rest) := split_nl [] s in is_nil rest && is_merge ls ths.
(* a line: newline-terminated, no newline inside *)
Fixpoint wf_line (l : bytes) : bool :=
  match l with
  | [] => false
  | [b] => Byte.eqb b nl
  | b :: r => negb (Byte.eqb b nl) && wf_line r
  end.

(* ------------------------------------------------------------------ *)
(* wire                                                                 *)
(* ------------------------------------------------------------------ *)
(* input = (cfg threads hints)
     cfg     = (kind ...)            kind = (0 k) | (1 size)
     threads = ((op ...) ...)        op = (0 sync (line_for_branch_0 ...)) | (1) | (2 j)
     hints   = ((tid ...) ...)       per branch: the order in which the sink calls of the
                                     threads were committed in the observed run
   observation = (branch ...)        branch = ((stream_of_sink_0 ...) aligned)
   The lines of the input are produced by the harness with a sequential
   reference logger; [aligned] is the harness probe "every underlying Write call
   was a whole number of lines (exactly one for a locked sink)". *)
Definition dec_kind (s : sx) : bkind :=
  match sx_z (sx_nth s 0) with
  | 0%Z => KLocked (sx_n (sx_nth s 1))
  | _ => KBuffered (sx_n (sx_nth s 1))
  end.
Definition dec_op (s : sx) : op :=
  match sx_z (sx_nth s 0) with
  | 0%Z => OLog {| echunks := map (fun l => [sx_b l]) (sx_l (sx_nth s 2)); esync := sx_bool (sx_nth s 1) |}
  | 1%Z => OSync
  | _ => OTick (sx_n (sx_nth s 1))
  end.
Definition dec_cfg (i : sx) : list bkind := map dec_kind (sx_l (sx_nth i 0)).
Definition dec_prog (i : sx) : list (list op) := map (fun t => map dec_op (sx_l t)) (sx_l (sx_nth i 1)).
Definition dec_hint (i : sx) (j : nat) : list nat := map sx_n (sx_l (sx_nth (sx_nth i 2) j)).

Fixpoint setn {B} (l : list B) (i : nat) (v : B) : list B :=
  match l, i with
  | [], _ => []
  | _ :: r, 0 => v :: r
  | x :: r, S n => x :: setn r n v
  end.
(* follow the hinted commit order; whatever the hint leaves over is appended thread by thread *)
Fixpoint pick {B} (hint : list nat) (ths : list (list B)) : list B :=
  match hint with
  | [] => concat ths
  | t :: h => match nth t ths [] with
              | x :: tl => x :: pick h (setn ths t tl)
              | [] => pick h ths
              end
  end.
Definition write_items_on (cfg : list bkind) (j : nat) (ops : list op) : list item :=
  filter (fun it => match it with IWrite _ _ _ => true | IFlush _ => false end)
         (on_lock sact item item_sec j (thread_items cfg ops)).
(* serial execution of the sink calls of branch j in the hinted order, then the final Sync *)
Definition serial_branch (cfg : list bkind) (prog : list (list op)) (hint : list nat) (j : nat) : sinkst :=
  sflush (exec_items sinkst sact sact_run item item_sec
            (pick hint (map (write_items_on cfg j) prog)) sink0).

(* the serial reference: every sink call of the branch executed on the sink object *)
Definition model_serial (i : sx) : sx :=
  let cfg := dec_cfg i in
  let prog := dec_prog i in
  SL (map (fun jk =>
             let x := serial_branch cfg prog (dec_hint i (fst jk)) (fst jk) in
             SL [SL (map (fun u => SB (outs x u)) (seq 0 (nsinks (snd jk)))); SZ 1])
          (branches cfg)).

(* What the driver runs.  Executing the sink calls one after the other appends every line to
   the END of the stream received so far ([outs x u ++ c]), which costs (number of lines) x
   (stream length) list cells: too much once entries of several hundred KiB are logged.  The
   lines of the calls in the hinted order, concatenated once, are the same streams:
   [model i = model_serial i] for EVERY i (Proofs.model_serial_eq, Props C04_model_serial). *)
Definition serial_lines (cfg : list bkind) (prog : list (list op)) (hint : list nat) (j : nat) : bytes :=
  concat (flat_map item_lines (pick hint (map (write_items_on cfg j) prog))).
Definition model (i : sx) : sx :=
  let cfg := dec_cfg i in
  let prog := dec_prog i in
  SL (map (fun jk =>
             let s := serial_lines cfg prog (dec_hint i (fst jk)) (fst jk) in
             SL [SL (map (fun u => SB s) (seq 0 (nsinks (snd jk)))); SZ 1])
          (branches cfg)).

Definition spec (i o : sx) : bool :=
  let cfg := dec_cfg i in
  let prog := dec_prog i in
  Nat.eqb (length (sx_l o)) (length cfg) &&
  forallb (fun jk =>
             let ob := sx_nth o (fst jk) in
             let ths := map (thread_lines (fst jk)) prog in
             Z.eqb (sx_z (sx_nth ob 1)) 1 &&
             Nat.eqb (length (sx_l (sx_nth ob 0))) (nsinks (snd jk)) &&
             forallb (fun st => match st with SB s => check_stream ths s | _ => false end) (sx_l (sx_nth ob 0)))
          (branches cfg).

(* well-formed case: every submitted line is one newline-terminated line *)
Definition wf (i : sx) : bool :=
  let cfg := dec_cfg i in
  let prog := dec_prog i in
  forallb (fun jk => forallb (fun ops => forallb wf_line (thread_lines (fst jk) ops)) prog) (branches cfg).

(* C04 -- proofs about zap's logging path over the interleaving machine. *)
From Coq Require Import List ZArith Bool Arith Lia.
From Coq.Strings Require Import Byte.
Import ListNotations.
From Zap Require Import Base.Wire C04.Model C04.Atomic C04.Merge.

Notation zexec_acts := (exec_acts sinkst sact sact_run).
Notation zexec_items := (exec_items sinkst sact sact_run item item_sec).
Notation zon_lock := (on_lock sact item item_sec).

(* ------------------------------------------------------------------ *)
(* A. serial behaviour of the sink calls                                *)
(* ------------------------------------------------------------------ *)
Lemma exec_app_chunks u chunks : forall x,
  bbuf (zexec_acts (map (AApp u) chunks) x) = bbuf x /\
  forall v, outs (zexec_acts (map (AApp u) chunks) x) v = if Nat.eqb v u then outs x v ++ concat chunks else outs x v.
Proof.
  induction chunks as [|c r IH]; intros x; cbn [map concat].
  - split; [reflexivity|]. intros v. cbn. destruct (Nat.eqb v u); [now rewrite app_nil_r|reflexivity].
  - unfold exec_acts in *. cbn [fold_left sact_run]. destruct (IH (app_out x u c)) as [B O]. split; [exact B|].
    intros v. rewrite O. cbn [app_out outs]. unfold upd. destruct (Nat.eqb_spec v u) as [->|]; [|reflexivity].
    now rewrite <- app_assoc.
Qed.

Lemma exec_acts_app a b x : zexec_acts (a ++ b) x = zexec_acts b (zexec_acts a x).
Proof. unfold exec_acts. apply fold_left_app. Qed.

Lemma exec_locked_write chunks k : forall a x,
  bbuf (zexec_acts (flat_map (fun u => map (AApp u) chunks) (seq a k)) x) = bbuf x /\
  forall v, outs (zexec_acts (flat_map (fun u => map (AApp u) chunks) (seq a k)) x) v =
            if (a <=? v) && (v <? a + k) then outs x v ++ concat chunks else outs x v.
Proof.
  induction k as [|k IH]; intros a x; cbn [seq flat_map].
  - split; [reflexivity|]. intros v. unfold exec_acts. cbn [fold_left].
    destruct (Nat.leb_spec a v), (Nat.ltb_spec v (a + 0)); cbn [andb]; try reflexivity; lia.
  - rewrite exec_acts_app. destruct (exec_app_chunks a chunks x) as [B1 O1].
    destruct (IH (S a) (zexec_acts (map (AApp a) chunks) x)) as [B2 O2]. split; [now rewrite B2|].
    intros v. rewrite O2, O1.
    destruct (Nat.eqb_spec v a) as [->|Hne].
    + replace (S a <=? a) with false by (symmetry; apply Nat.leb_gt; lia). cbn [andb].
      rewrite Nat.leb_refl. replace (a <? a + S k) with true by (symmetry; apply Nat.ltb_lt; lia). reflexivity.
    + destruct (Nat.leb_spec (S a) v), (Nat.leb_spec a v), (Nat.ltb_spec v (S a + k)), (Nat.ltb_spec v (a + S k)); cbn; try reflexivity; lia.
Qed.

(* an item of branch j whose sink has kind kd *)
Definition bitem (j : nat) (kd : bkind) (it : item) : Prop :=
  it = IFlush j \/ exists chunks, it = IWrite j kd chunks.

Lemma sflush_nil x : bbuf x = [] -> sflush x = x.
Proof. intros H. unfold sflush. now rewrite H. Qed.

Lemma serial_locked j k its : Forall (bitem j (KLocked k)) its -> forall x, bbuf x = [] ->
  bbuf (zexec_items its x) = [] /\
  forall u, u < k -> outs (zexec_items its x) u = outs x u ++ concat (flat_map item_lines its).
Proof.
  induction 1 as [|it r Hit _ IH]; intros x Hx.
  - split; [exact Hx|]. intros u _. cbn. now rewrite app_nil_r.
  - unfold exec_items in *. cbn [fold_left].
    destruct Hit as [->|(chunks & ->)]; cbn [item_sec snd item_lines flat_map app].
    + cbn. rewrite (sflush_nil x Hx). now apply IH.
    + cbn [write_acts]. destruct (exec_locked_write chunks k 0 x) as [B O].
      destruct (IH (zexec_acts (flat_map (fun u => map (AApp u) chunks) (seq 0 k)) x)) as [B' O']; [now rewrite B|].
      split; [exact B'|]. intros u Hu. rewrite (O' u Hu), O. cbn [Nat.leb andb].
      replace (u <? 0 + k) with true by (symmetry; apply Nat.ltb_lt; lia).
      cbn [concat]. now rewrite <- app_assoc.
Qed.

(* BufferedWriteSyncer: whole-write alignment (DESIGN Appendix F, C12) on the raw stream *)
Definition BInv (acc : list bytes) (x : sinkst) : Prop :=
  exists done rest, acc = done ++ rest /\ outs x 0 = concat done /\ bbuf x = concat rest.

Lemma binv_flush acc x : BInv acc x -> BInv acc (sflush x) /\ bbuf (sflush x) = [].
Proof.
  intros (done & rest & A & O & B). unfold sflush. destruct (bbuf x) as [|b r] eqn:E.
  - split; [|exact E]. exists done, rest. now rewrite E.
  - split; [|reflexivity]. exists (done ++ rest), []. cbn [outs bbuf]. rewrite upd_same. repeat split.
    + now rewrite app_nil_r.
    + now rewrite concat_app, O, B.
Qed.

Lemma binv_direct acc x p : BInv acc x -> bbuf x = [] ->
  BInv (acc ++ [p]) {| outs := upd (outs x) 0 (outs x 0 ++ p); bbuf := [] |}.
Proof.
  intros (done & rest & A & O & B) E. exists (done ++ rest ++ [p]), []. cbn [outs bbuf]. rewrite upd_same. repeat split.
  - now rewrite A, !app_nil_r, app_assoc.
  - rewrite !concat_app, O. cbn. rewrite app_nil_r. rewrite E in B. now rewrite <- B.
Qed.

Lemma binv_append acc x p : BInv acc x -> BInv (acc ++ [p]) {| outs := outs x; bbuf := bbuf x ++ p |}.
Proof.
  intros (done & rest & A & O & B). exists done, (rest ++ [p]). cbn [outs bbuf]. repeat split.
  - now rewrite A, app_assoc.
  - exact O.
  - rewrite concat_app, B. cbn. now rewrite app_nil_r.
Qed.

Lemma binv_write size acc x p : BInv acc x -> BInv (acc ++ [p]) (bws_write size x p).
Proof.
  intros I. unfold bws_write.
  destruct ((size - length (bbuf x) <? length p) && negb (is_nil (bbuf x))) eqn:C.
  - destruct (binv_flush acc x I) as [I1 E1]. cbn [bwrite]. rewrite E1.
    destruct (size - length (@nil byte) <? length p); [now apply binv_direct|].
    rewrite <- E1. now apply binv_append.
  - cbn [bwrite]. destruct (size - length (bbuf x) <? length p) eqn:D.
    + cbn [andb] in C. apply negb_false_iff in C. destruct (bbuf x) eqn:E; [|discriminate]. now apply binv_direct.
    + now apply binv_append.
Qed.

Lemma serial_buffered j size its : Forall (bitem j (KBuffered size)) its -> forall acc x, BInv acc x ->
  BInv (acc ++ flat_map item_lines its) (zexec_items its x).
Proof.
  induction 1 as [|it r Hit _ IH]; intros acc x I.
  - cbn. now rewrite app_nil_r.
  - unfold exec_items in *. cbn [fold_left].
    destruct Hit as [->|(chunks & ->)]; cbn [item_sec snd item_lines flat_map app].
    + cbn. apply IH. now apply binv_flush.
    + cbn [write_acts]. unfold exec_acts at 2. cbn [fold_left sact_run].
      change (concat chunks :: flat_map item_lines r) with ([concat chunks] ++ flat_map item_lines r).
      rewrite app_assoc. apply IH. now apply binv_write.
Qed.

Lemma binv_sink0 : BInv [] sink0.
Proof. exists [], []. auto. Qed.

(* serial execution of the calls of one branch from the empty sink, then the final Sync *)
Lemma serial_out j kd its : Forall (bitem j kd) its -> forall u, u < nsinks kd ->
  outs (sflush (zexec_items its sink0)) u = concat (flat_map item_lines its).
Proof.
  intros F u Hu. destruct kd as [k|size]; cbn [nsinks] in Hu.
  - destruct (serial_locked j k its F sink0 eq_refl) as [B O]. rewrite (sflush_nil _ B). now rewrite (O u Hu).
  - assert (u = 0) by lia. subst u.
    pose proof (serial_buffered j size its F [] sink0 binv_sink0) as I. cbn [app] in I.
    destruct (binv_flush _ _ I) as [(done & rest & A & O & B) E]. rewrite E in B.
    rewrite O, A, concat_app, <- B. now rewrite app_nil_r.
Qed.

(* before the final Sync a buffered sink holds a whole number of lines: a prefix of the order *)
Lemma serial_buffered_prefix j size its : Forall (bitem j (KBuffered size)) its ->
  exists n, outs (zexec_items its sink0) 0 = concat (firstn n (flat_map item_lines its)).
Proof.
  intros F. pose proof (serial_buffered j size its F [] sink0 binv_sink0) as (done & rest & A & O & _).
  cbn [app] in A. exists (length done). rewrite A, firstn_app, Nat.sub_diag, firstn_all. cbn. now rewrite app_nil_r.
Qed.

(* ------------------------------------------------------------------ *)
(* B. shape of the compiled code                                        *)
(* ------------------------------------------------------------------ *)
Lemma on_lock_app l a b : zon_lock l (a ++ b) = zon_lock l a ++ zon_lock l b.
Proof. unfold on_lock. apply filter_app. Qed.

Lemma on_lock_all l its : (forall it, In it its -> fst (item_sec it) = l) -> zon_lock l its = its.
Proof.
  induction its as [|it r IH]; intros H; [reflexivity|]. unfold on_lock in *. cbn [filter].
  rewrite (H it (or_introl eq_refl)), Nat.eqb_refl. f_equal. apply IH. intros i Hi. apply H. now right.
Qed.
Lemma on_lock_none l its : (forall it, In it its -> fst (item_sec it) <> l) -> zon_lock l its = [].
Proof.
  induction its as [|it r IH]; intros H; [reflexivity|]. unfold on_lock in *. cbn [filter].
  destruct (Nat.eqb_spec (fst (item_sec it)) l) as [E|_]; [now elim (H it (or_introl eq_refl))|].
  apply IH. intros i Hi. apply H. now right.
Qed.

(* per-branch code generators: everything they emit for branch (j, kd) is a call on lock j *)
Definition per_branch (f : nat * bkind -> list item) : Prop :=
  forall jk it, In it (f jk) -> fst (item_sec it) = fst jk.

Lemma on_lock_branches_aux f (Hf : per_branch f) j kd : forall c a,
  (a <= j -> nth_error c (j - a) = Some kd ->
   zon_lock j (flat_map f (combine (seq a (length c)) c)) = f (j, kd)) /\
  (j < a -> zon_lock j (flat_map f (combine (seq a (length c)) c)) = []).
Proof.
  induction c as [|k0 c IH]; intros a; cbn [length seq combine flat_map].
  - split; [intros _ H; destruct (j - a); discriminate|reflexivity].
  - destruct (IH (S a)) as [IH1 IH2]. split.
    + intros La Hn. rewrite on_lock_app. destruct (Nat.eq_dec a j) as [->|Hne].
      * rewrite Nat.sub_diag in Hn. cbn in Hn. injection Hn as ->.
        rewrite IH2 by lia. rewrite app_nil_r. apply on_lock_all. intros it Hi. apply (Hf _ _ Hi).
      * rewrite (on_lock_none j (f (a, k0))) by (intros it Hi; rewrite (Hf _ _ Hi); cbn; lia).
        cbn [app]. apply IH1; [lia|]. replace (j - a) with (S (j - S a)) in Hn by lia. exact Hn.
    + intros L. rewrite on_lock_app, IH2 by lia. rewrite app_nil_r.
      apply on_lock_none. intros it Hi. rewrite (Hf _ _ Hi). cbn. lia.
Qed.

Lemma on_lock_branches f (Hf : per_branch f) cfg j kd : nth_error cfg j = Some kd ->
  zon_lock j (flat_map f (branches cfg)) = f (j, kd).
Proof.
  intros H. unfold branches. apply (proj1 (on_lock_branches_aux f Hf j kd cfg 0)); [lia|now rewrite Nat.sub_0_r].
Qed.

Definition log_gen (e : entry) (jk : nat * bkind) : list item :=
  IWrite (fst jk) (snd jk) (nth (fst jk) (echunks e) []) :: (if esync e then [IFlush (fst jk)] else []).
Definition sync_gen (jk : nat * bkind) : list item := [IFlush (fst jk)].

Lemma log_gen_pb e : per_branch (log_gen e).
Proof. intros jk it [<-|H]; [reflexivity|]. cbn in H. destruct (esync e); [destruct H as [<-|[]]; reflexivity|destruct H]. Qed.
Lemma sync_gen_pb : per_branch sync_gen.
Proof. intros jk it [<-|[]]. reflexivity. Qed.

Lemma op_items_on cfg j kd o : nth_error cfg j = Some kd ->
  Forall (bitem j kd) (zon_lock j (op_items cfg o)) /\
  flat_map item_lines (zon_lock j (op_items cfg o)) = match o with OLog e => [eline j e] | _ => [] end.
Proof.
  intros H. destruct o as [e| |j']; cbn [op_items].
  - unfold log_items. change (fun jk : nat * bkind => _) with (log_gen e).
    rewrite (on_lock_branches _ (log_gen_pb e) cfg j kd H). unfold log_gen. cbn [fst snd]. split.
    + constructor; [right; eauto|]. destruct (esync e); [constructor; [now left|constructor]|constructor].
    + cbn [flat_map item_lines app]. unfold eline. destruct (esync e); reflexivity.
  - replace (map (fun jk : nat * bkind => IFlush (fst jk)) (branches cfg)) with (flat_map sync_gen (branches cfg))
      by (induction (branches cfg) as [|x r IHr]; [reflexivity|cbn; now rewrite IHr]).
    rewrite (on_lock_branches _ sync_gen_pb cfg j kd H). cbn. split; [constructor; [now left|constructor]|reflexivity].
  - unfold on_lock. cbn [filter item_sec fst]. destruct (Nat.eqb_spec j' j) as [->|]; cbn; split; auto.
    constructor; [now left|constructor].
Qed.

Lemma thread_items_on cfg j kd ops : nth_error cfg j = Some kd ->
  Forall (bitem j kd) (zon_lock j (thread_items cfg ops)) /\
  flat_map item_lines (zon_lock j (thread_items cfg ops)) = thread_lines j ops.
Proof.
  intros H. induction ops as [|o r [IH1 IH2]]; [split; [constructor|reflexivity]|].
  unfold thread_items, thread_lines in *. cbn [flat_map]. rewrite on_lock_app.
  destruct (op_items_on cfg j kd o H) as [F L]. split.
  - apply Forall_app. split; assumption.
  - rewrite flat_map_app, L, IH2. reflexivity.
Qed.

Lemma merge_ext {B} (f g : nat -> list B) sigma : (forall t, f t = g t) -> MergeOf f sigma -> MergeOf g sigma.
Proof. intros E (lab & Hm & Ho). exists lab. split; [exact Hm|]. intros t. now rewrite Ho. Qed.

Lemma owned_in {B} t (x : B) lab : In (t, x) lab -> In x (owned t lab).
Proof. intros H. unfold owned. apply in_map_iff. exists (t, x). split; [reflexivity|]. apply filter_In. split; [exact H|cbn; apply Nat.eqb_refl]. Qed.

(* ------------------------------------------------------------------ *)
(* C. the concurrent theorems                                           *)
(* ------------------------------------------------------------------ *)
(* every complete schedule leaves branch j in the state of a serial execution of
   its sink calls, in an order whose lines are a merge of the threads' lines *)
Lemma branch_serial cfg prog sched j kd :
  nth_error cfg j = Some kd -> zcomplete (zrun cfg prog sched) ->
  exists its, Forall (bitem j kd) its /\
              MergeOf (prog_lines j prog) (flat_map item_lines its) /\
              obj (zrun cfg prog sched) j = zexec_items its sink0.
Proof.
  intros Hk Hc.
  destruct (atomicity sinkst sact sact_run item item_sec (fun t => thread_items cfg (nth t prog [])) (fun _ => sink0) sched Hc j)
    as (lab & Ho & Hobj).
  exists (map snd lab). split; [|split].
  - apply Forall_forall. intros it Hin. apply in_map_iff in Hin. destruct Hin as ([t it'] & E & Hin). cbn in E. subst it'.
    apply owned_in in Hin. rewrite Ho in Hin.
    destruct (thread_items_on cfg j kd (nth t prog []) Hk) as [F _]. rewrite Forall_forall in F. now apply F.
  - apply (merge_ext (fun t => flat_map item_lines (zon_lock j (thread_items cfg (nth t prog []))))).
    + intros t. unfold prog_lines. apply (thread_items_on cfg j kd _ Hk).
    + apply merge_flat_map. exists lab. split; [reflexivity|exact Ho].
  - exact Hobj.
Qed.

(* Lock(ws) / CombineWriteSyncers / Open: at completion (no final Sync needed) every
   underlying sink of the branch holds exactly a merge of the submitted lines *)
Theorem locked_thm cfg prog sched j k :
  nth_error cfg j = Some (KLocked k) -> zcomplete (zrun cfg prog sched) ->
  exists sigma, MergeOf (prog_lines j prog) sigma /\
                forall u, u < k -> outs (obj (zrun cfg prog sched) j) u = concat sigma.
Proof.
  intros Hk Hc. destruct (branch_serial cfg prog sched j _ Hk Hc) as (its & F & M & O).
  exists (flat_map item_lines its). split; [exact M|]. intros u Hu. rewrite O.
  destruct (serial_locked j k its F sink0 eq_refl) as [_ H]. now rewrite (H u Hu).
Qed.

(* BufferedWriteSyncer: after the final Sync the sink holds a merge; before it, a
   whole number of lines of that merge *)
Theorem buffered_thm cfg prog sched j size :
  nth_error cfg j = Some (KBuffered size) -> zcomplete (zrun cfg prog sched) ->
  exists sigma, MergeOf (prog_lines j prog) sigma /\
                final_out (zrun cfg prog sched) j 0 = concat sigma /\
                exists n, outs (obj (zrun cfg prog sched) j) 0 = concat (firstn n sigma).
Proof.
  intros Hk Hc. destruct (branch_serial cfg prog sched j _ Hk Hc) as (its & F & M & O).
  exists (flat_map item_lines its). split; [exact M|]. unfold final_out. rewrite O. split.
  - apply (serial_out j (KBuffered size) its F 0). cbn. lia.
  - apply (serial_buffered_prefix j size its F).
Qed.

(* every branch of a tee, whatever its sink, receives the full set *)
Theorem tee_thm cfg prog sched :
  zcomplete (zrun cfg prog sched) ->
  forall j kd, nth_error cfg j = Some kd ->
  exists sigma, MergeOf (prog_lines j prog) sigma /\
                forall u, u < nsinks kd -> final_out (zrun cfg prog sched) j u = concat sigma.
Proof.
  intros Hc j kd Hk. destruct (branch_serial cfg prog sched j _ Hk Hc) as (its & F & M & O).
  exists (flat_map item_lines its). split; [exact M|]. intros u Hu. unfold final_out. rewrite O.
  now apply (serial_out j kd its F u).
Qed.

(* at every moment of every schedule at which the mutex of branch j is free, its
   sinks hold whole lines only: a merge of prefixes of the threads' lines *)
Theorem quiescent_thm cfg prog sched j kd :
  nth_error cfg j = Some kd -> holder (zrun cfg prog sched) j = None ->
  exists (pre : nat -> list bytes) sigma,
    (forall t, exists rest, pre t ++ rest = prog_lines j prog t) /\ MergeOf pre sigma /\
    match kd with
    | KLocked k => forall u, u < k -> outs (obj (zrun cfg prog sched) j) u = concat sigma
    | KBuffered _ => exists n, outs (obj (zrun cfg prog sched) j) 0 = concat (firstn n sigma)
    end.
Proof.
  intros Hk Hh.
  destruct (atomicity_any sinkst sact sact_run item item_sec (fun t => thread_items cfg (nth t prog [])) (fun _ => sink0) sched j)
    as (lab & part & Hobj & Hpart & Hpre).
  rewrite (Hpart Hh) in Hobj.
  change (obj (zrun cfg prog sched) j = zexec_items (map snd lab) sink0) in Hobj.
  assert (F : Forall (bitem j kd) (map snd lab)).
  { apply Forall_forall. intros it Hin. apply in_map_iff in Hin. destruct Hin as ([t it'] & E & Hin). cbn in E. subst it'.
    apply owned_in in Hin. destruct (Hpre t) as (rest & P).
    destruct (thread_items_on cfg j kd (nth t prog []) Hk) as [F _]. rewrite Forall_forall in F. apply F.
    rewrite <- P. apply in_or_app. now left. }
  exists (fun t => flat_map item_lines (owned t lab)), (flat_map item_lines (map snd lab)). split; [|split].
  - intros t. destruct (Hpre t) as (rest & P). exists (flat_map item_lines rest).
    rewrite <- flat_map_app, P. unfold prog_lines. apply (thread_items_on cfg j kd _ Hk).
  - apply merge_flat_map. exists lab. split; [reflexivity|auto].
  - rewrite Hobj. destruct kd as [k|size].
    + intros u Hu. destruct (serial_locked j k _ F sink0 eq_refl) as [_ H]. now rewrite (H u Hu).
    + apply (serial_buffered_prefix j size _ F).
Qed.

(* ------------------------------------------------------------------ *)
(* D. the model can express the failures                                *)
(* ------------------------------------------------------------------ *)
Lemma prog_lines_lths j prog t : prog_lines j prog t = lths (map (thread_lines j) prog) t.
Proof.
  unfold prog_lines, lths. revert t. induction prog as [|p r IH]; intros [|t]; cbn [map nth]; auto.
Qed.

Lemma stream_ok_check j prog s :
  (forall t l, In l (nth t (map (thread_lines j) prog) []) -> wf_line l = true) ->
  StreamOk (prog_lines j prog) s -> check_stream (map (thread_lines j) prog) s = true.
Proof.
  intros W (sigma & M & E). apply check_stream_complete; [exact W|]. exists sigma. split; [|exact E].
  eapply merge_ext; [|exact M]. intros t. apply prog_lines_lths.
Qed.

Definition ent (c : byte) : entry := {| echunks := [[[c]; [nl]]]; esync := false |}.
Definition two_threads : list (list op) := [[OLog (ent x61)]; [OLog (ent x62)]].

Lemma two_threads_wf t l : In l (nth t (map (thread_lines 0) two_threads) []) -> wf_line l = true.
Proof.
  destruct t as [|[|t]]; intros H.
  - simpl in H. destruct H as [<-|[]]. reflexivity.
  - simpl in H. destruct H as [<-|[]]. reflexivity.
  - simpl in H. destruct t; contradiction.
Qed.

(* (a) the mutex dropped: "a" "\n" and "b" "\n" interleave as "ab\n\n" *)
Theorem unlocked_refuted :
  exists cfg prog sched,
    let s := run sinkst sact sact_run (zcode_nolock cfg prog) (fun _ => sink0) sched in
    complete sinkst sact s /\ ~ StreamOk (prog_lines 0 prog) (outs (obj s 0) 0).
Proof.
  exists [KLocked 1], two_threads, [0; 1; 0; 1]. split.
  - intros [|[|[|t]]]; vm_compute; reflexivity.
  - intros H. apply (stream_ok_check 0 two_threads _ two_threads_wf) in H. vm_compute in H. discriminate.
Qed.

(* (b) two sink calls per entry (line, then newline), each under the mutex: same tearing *)
Theorem two_writes_refuted :
  exists cfg prog sched,
    let s := run sinkst sact sact_run (zcode_two cfg prog) (fun _ => sink0) sched in
    complete sinkst sact s /\ ~ StreamOk (prog_lines 0 prog) (outs (obj s 0) 0).
Proof.
  exists [KLocked 1], two_threads, [0; 0; 0; 1; 1; 1; 1; 1; 1; 0; 0; 0]. split.
  - intros [|[|[|t]]]; vm_compute; reflexivity.
  - intros H. apply (stream_ok_check 0 two_threads _ two_threads_wf) in H. vm_compute in H. discriminate.
Qed.

(* (c) BufferedWriteSyncer without zap's pre-flush rule: bufio's fill-flush-continue
   loop puts "ab\nc" into the sink -- a torn line at a crash point (size 4, "ab\n" then "cd\n") *)
Theorem noflush_refuted :
  exists size p q,
    let x := bws_write_noflush size (bws_write_noflush size sink0 p) q in
    wf_line p = true /\ wf_line q = true /\
    ~ exists n, outs x 0 = concat (firstn n [p; q]).
Proof.
  exists 4, [x61; x62; x0a], [x63; x64; x0a]. split; [reflexivity|]. split; [reflexivity|].
  intros (n & H). vm_compute in H. destruct n as [|[|[|n]]]; discriminate.
Qed.

(* ------------------------------------------------------------------ *)
(* E. wire                                                              *)
(* ------------------------------------------------------------------ *)
Lemma branches_in cfg jk : In jk (branches cfg) ->
  nth_error cfg (fst jk) = Some (snd jk) /\ forall d, nth (fst jk) (branches cfg) d = jk.
Proof.
  unfold branches. intros H.
  assert (G : forall c a, In jk (combine (seq a (length c)) c) ->
            a <= fst jk /\ nth_error c (fst jk - a) = Some (snd jk) /\
            forall d, nth (fst jk - a) (combine (seq a (length c)) c) d = jk).
  { induction c as [|k0 c IH]; intros a Hin; [destruct Hin|]. cbn [length seq combine] in *.
    destruct Hin as [<-|Hin].
    - cbn [fst snd]. rewrite Nat.sub_diag. auto.
    - destruct (IH (S a) Hin) as (L & N & D). split; [lia|].
      replace (fst jk - a) with (S (fst jk - S a)) by lia. auto. }
  destruct (G cfg 0 H) as (_ & N & D). rewrite Nat.sub_0_r in *. auto.
Qed.

Lemma branches_length cfg : length (branches cfg) = length cfg.
Proof. unfold branches. rewrite combine_length, seq_length. apply Nat.min_id. Qed.

Lemma write_items_lines cfg j kd ops : nth_error cfg j = Some kd ->
  Forall (bitem j kd) (write_items_on cfg j ops) /\
  flat_map item_lines (write_items_on cfg j ops) = thread_lines j ops.
Proof.
  intros H. destruct (thread_items_on cfg j kd ops H) as [F L]. unfold write_items_on. rewrite <- L. split.
  - apply Forall_forall. intros it Hi. apply filter_In in Hi. rewrite Forall_forall in F. now apply F.
  - clear. induction (zon_lock j (thread_items cfg ops)) as [|it r IH]; [reflexivity|].
    cbn [filter]. destruct it; cbn [flat_map item_lines app]; [now rewrite IH|exact IH].
Qed.

Lemma nth_map_nil {A B} (f : list A -> list B) (l : list (list A)) t : f [] = [] -> nth t (map f l) [] = f (nth t l []).
Proof. intros H. revert t. induction l as [|x r IH]; intros [|t]; cbn; auto. Qed.

Lemma pick_bitems cfg prog hint j kd : nth_error cfg j = Some kd ->
  Forall (bitem j kd) (pick hint (map (write_items_on cfg j) prog)).
Proof.
  intros Hk. set (its := pick hint (map (write_items_on cfg j) prog)).
  assert (M : MergeOf (lths (map (write_items_on cfg j) prog)) its) by apply pick_merge.
  apply Forall_forall. intros it Hi. destruct (merge_elems _ _ _ M Hi) as (t & Ht). unfold lths in Ht.
  rewrite (nth_map_nil (write_items_on cfg j)) in Ht by reflexivity.
  destruct (write_items_lines cfg j kd (nth t prog []) Hk) as [F _]. rewrite Forall_forall in F. now apply F.
Qed.

(* the stream every underlying sink of branch j holds after the serial execution of the sink calls
   (and the final Sync) is the concatenation of the lines of those calls *)
Lemma serial_branch_outs cfg prog hint j kd : nth_error cfg j = Some kd ->
  forall u, u < nsinks kd ->
  outs (serial_branch cfg prog hint j) u = serial_lines cfg prog hint j.
Proof.
  intros Hk u Hu. unfold serial_branch, serial_lines.
  exact (serial_out j kd _ (pick_bitems cfg prog hint j kd Hk) u Hu).
Qed.

Lemma serial_branch_ok cfg prog hint j kd : nth_error cfg j = Some kd ->
  forall u, u < nsinks kd ->
  StreamOk (lths (map (thread_lines j) prog)) (outs (serial_branch cfg prog hint j) u).
Proof.
  intros Hk u Hu. rewrite (serial_branch_outs cfg prog hint j kd Hk u Hu). unfold serial_lines.
  set (its := pick hint (map (write_items_on cfg j) prog)).
  assert (M : MergeOf (lths (map (write_items_on cfg j) prog)) its) by apply pick_merge.
  exists (flat_map item_lines its). split; [|reflexivity].
  apply (merge_ext (fun t => flat_map item_lines (lths (map (write_items_on cfg j) prog) t))).
  - intros t. unfold lths. rewrite (nth_map_nil (write_items_on cfg j)) by reflexivity.
    rewrite (nth_map_nil (thread_lines j)) by reflexivity. apply (write_items_lines cfg j kd _ Hk).
  - now apply merge_flat_map.
Qed.

(* the wire model (lines concatenated once) IS the serial reference, for every input *)
Theorem model_serial_eq i : model i = model_serial i.
Proof.
  unfold model, model_serial. f_equal. apply map_ext_in. intros jk Hin.
  destruct (branches_in _ _ Hin) as [Hk _].
  f_equal. f_equal. f_equal. apply map_ext_in. intros u Hu. apply in_seq in Hu.
  f_equal. symmetry. apply (serial_branch_outs _ _ _ _ _ Hk). lia.
Qed.

Lemma nth_map_lt {A B} (f : A -> B) l n d d' : n < length l -> nth n (map f l) d = f (nth n l d').
Proof. revert n. induction l as [|x r IH]; intros [|n] H; cbn in *; try lia; auto. apply IH. lia. Qed.

Theorem spec_model i : wf i = true -> spec i (model i) = true.
Proof.
  intros W. rewrite model_serial_eq. unfold spec, model_serial, wf in *. cbn [sx_l].
  rewrite map_length, branches_length, Nat.eqb_refl. cbn [andb].
  apply forallb_forall. intros jk Hin.
  rewrite forallb_forall in W. specialize (W jk Hin).
  destruct (branches_in _ _ Hin) as [Hk Hn].
  assert (L : fst jk < length (branches (dec_cfg i))).
  { rewrite branches_length. apply nth_error_Some. now rewrite Hk. }
  match goal with |- context [sx_nth (SL (map ?F ?l)) (fst jk)] =>
    assert (E : sx_nth (SL (map F l)) (fst jk) = F jk)
      by (unfold sx_nth; cbn [sx_l]; now rewrite (nth_map_lt F l _ _ (0, KLocked 0) L), Hn);
    rewrite !E; clear E end.
  unfold sx_nth. cbn [sx_l nth sx_z].
  rewrite map_length, seq_length, Nat.eqb_refl. cbn [andb Z.eqb Pos.eqb].
  apply forallb_forall. intros st Hst. apply in_map_iff in Hst. destruct Hst as (u & <- & Hu).
  apply in_seq in Hu. apply check_stream_complete.
  - intros t l Hl. rewrite (nth_map_nil (thread_lines (fst jk))) in Hl by reflexivity.
    destruct (Nat.lt_ge_cases t (length (dec_prog i))) as [Lt|G].
    + rewrite forallb_forall in W. specialize (W (nth t (dec_prog i) []) (nth_In _ _ Lt)).
      rewrite forallb_forall in W. now apply W.
    + rewrite nth_overflow in Hl by exact G. destruct Hl.
  - apply (serial_branch_ok _ _ _ _ _ Hk). lia.
Qed.

(* the hypothesis of the concurrent theorems is satisfiable for every configuration and program *)
Theorem complete_exists_thm cfg prog : exists sched, zcomplete (zrun cfg prog sched).
Proof.
  apply (complete_exists sinkst sact sact_run item item_sec (fun t => thread_items cfg (nth t prog [])) (fun _ => sink0) (length prog)).
  intros t Ht. now rewrite nth_overflow.
Qed.

(* Bystanders.  A case may carry, after (cfg threads hints), a description of anything else
   that happens in the process while the judged loggers run -- other loggers whose sinks fail
   in Write or Sync, failing marshalers, reflection failures, panicking Stringers, a failing
   branch hidden in the judged tee.  Neither the requirement on the judged sinks (spec, wf)
   nor the model looks at it: whatever that history is, every judged sink must hold a merge
   of the lines submitted to it, and the model delivers one. *)
Theorem bystanders_thm (cfg threads hints : sx) (extra : list sx) :
  (forall o, spec (SL (cfg :: threads :: hints :: extra)) o = spec (SL [cfg; threads; hints]) o) /\
  model (SL (cfg :: threads :: hints :: extra)) = model (SL [cfg; threads; hints]) /\
  wf (SL (cfg :: threads :: hints :: extra)) = wf (SL [cfg; threads; hints]) /\
  (wf (SL [cfg; threads; hints]) = true ->
   spec (SL (cfg :: threads :: hints :: extra)) (model (SL (cfg :: threads :: hints :: extra))) = true).
Proof.
  split; [|split; [|split]].
  - intros o. reflexivity.
  - reflexivity.
  - reflexivity.
  - intros W. apply spec_model. exact W.
Qed.

(* C04 -- proofs about zap's logging path over the interleaving machine. *)
From Coq Require Import List ZArith Bool Arith Lia.
From Coq.Strings Require Import Byte.
Import ListNotations.
From Zap Require Import Base.Wire C04.Model C04.Atomic C04.Merge.

Notation zexec_acts := (exec_acts sinkst sact sact_run).
Notation zexec_items := (exec_items sinkst sact sact_run item item_sec).
Notation zon_lock := (on_lock sact item item_sec).

(* ------------------------------------------------------------------ *)
(* A. serial behaviour of the sink calls                                *)
(* ------------------------------------------------------------------ *)
Lemma exec_app_chunks u chunks : forall x,
  bbuf (zexec_acts (map (AApp u) chunks) x) = bbuf x /\
  forall v, outs (zexec_acts (map (AApp u) chunks) x) v = if Nat.eqb v u then outs x v ++ concat chunks else outs x v.
Proof.
  induction chunks as [|c r IH]; intros x; cbn [map concat].
  - split; [reflexivity|]. intros v. cbn. destruct (Nat.eqb v u); [now rewrite app_nil_r|reflexivity].
  - unfold exec_acts in *. cbn [fold_left sact_run]. destruct (IH (app_out x u c)) as [B O]. split; [exact B|].
    intros v. rewrite O. cbn [app_out outs]. unfold upd. destruct (Nat.eqb_spec v u) as [->|]; [|reflexivity].
    now rewrite <- app_assoc.
Qed.

Lemma exec_acts_app a b x : zexec_acts (a ++ b) x = zexec_acts b (zexec_acts a x).
Proof. unfold exec_acts. apply fold_left_app. Qed.

Lemma exec_locked_write chunks k : forall a x,
  bbuf (zexec_acts (flat_map (fun u => map (AApp u) chunks) (seq a k)) x) = bbuf x /\
  forall v, outs (zexec_acts (flat_map (fun u => map (AApp u) chunks) (seq a k)) x) v =
            if (a <=? v) && (v <? a + k) then outs x v ++ concat chunks else outs x v.
Proof.
  induction k as [|k IH]; intros a x; cbn [seq flat_map].
  - split; [reflexivity|]. intros v. unfold exec_acts. cbn [fold_left].
    destruct (Nat.leb_spec a v), (Nat.ltb_spec v (a + 0)); cbn [andb]; try reflexivity; lia.
  - rewrite exec_acts_app. destruct (exec_app_chunks a chunks x) as [B1 O1].
    destruct (IH (S a) (zexec_acts (map (AApp a) chunks) x)) as [B2 O2]. split; [now rewrite B2|].
    intros v. rewrite O2, O1.
    destruct (Nat.eqb_spec v a) as [->|Hne].
    + replace (S a <=? a) with false by (symmetry; apply Nat.leb_gt; lia). cbn [andb].
      rewrite Nat.leb_refl. replace (a <? a + S k) with true by (symmetry; apply Nat.ltb_lt; lia). reflexivity.
    + destruct (Nat.leb_spec (S a) v), (Nat.leb_spec a v), (Nat.ltb_spec v (S a + k)), (Nat.ltb_spec v (a + S k)); cbn; try reflexivity; lia.
Qed.

(* an item of branch j whose sink has kind kd *)
Definition bitem (j : nat) (kd : bkind) (it : item) : Prop :=
  it = IFlush j \/ exists chunks, it = IWrite j kd chunks.

Lemma sflush_nil x : bbuf x = [] -> sflush x = x.
Proof. intros H. unfold sflush. now rewrite H. Qed.

Lemma serial_locked j k its : Forall (bitem j (KLocked k)) its -> forall x, bbuf x = [] ->
  bbuf (zexec_items its x) = [] /\
  forall u, u < k -> outs (zexec_items its x) u = outs x u ++ concat (flat_map item_lines its).
Proof.
  induction 1 as [|it r Hit _ IH]; intros x Hx.
  - split; [exact Hx|]. intros u _. cbn. now rewrite app_nil_r.
  - unfold exec_items in *. cbn [fold_left].
    destruct Hit as [->|(chunks & ->)]; cbn [item_sec snd item_lines flat_map app].
    + cbn. rewrite (sflush_nil x Hx). now apply IH.
    + cbn [write_acts]. destruct (exec_locked_write chunks k 0 x) as [B O].
      destruct (IH (zexec_acts (flat_map (fun u => map (AApp u) chunks) (seq 0 k)) x)) as [B' O']; [now rewrite B|].
      split; [exact B'|]. intros u Hu. rewrite (O' u Hu), O. cbn [Nat.leb andb].
      replace (u <? 0 + k) with true by (symmetry; apply Nat.ltb_lt; lia).
      cbn [concat]. now rewrite <- app_assoc.
Qed.

(* BufferedWriteSyncer: whole-write alignment (DESIGN Appendix F, C12) on the raw stream *)
Definition BInv (acc : list bytes) (x : sinkst) : Prop :=
  exists done rest, acc = done ++ rest /\ outs x 0 = concat done /\ bbuf x = concat rest.

Lemma binv_flush acc x : BInv acc x -> BInv acc (sflush x) /\ bbuf (sflush x) = [].
Proof.
  intros (done & rest & A & O & B). unfold sflush. destruct (bbuf x) as [|b r] eqn:E.
  - split; [|exact E]. exists done, rest. now rewrite E.
  - split; [|reflexivity]. exists (done ++ rest), []. cbn [outs bbuf]. rewrite upd_same. repeat split.
    + now rewrite app_nil_r.
    + now rewrite concat_app, O, B.
Qed.

Lemma binv_direct acc x p : BInv acc x -> bbuf x = [] ->
  BInv (acc ++ [p]) {| outs := upd (outs x) 0 (outs x 0 ++ p); bbuf := [] |}.
Proof.
  intros (done & rest & A & O & B) E. exists (done ++ rest ++ [p]), []. cbn [outs bbuf]. rewrite upd_same. repeat split.
  - now rewrite A, !app_nil_r, app_assoc.
  - rewrite !concat_app, O. cbn. rewrite app_nil_r. rewrite E in B. now rewrite <- B.
Qed.

Lemma binv_append acc x p : BInv acc x -> BInv (acc ++ [p]) {| outs := outs x; bbuf := bbuf x ++ p |}.
Proof.
  intros (done & rest & A & O & B). exists done, (rest ++ [p]). cbn [outs bbuf]. repeat split.
  - now rewrite A, app_assoc.
  - exact O.
  - rewrite concat_app, B. cbn. now rewrite app_nil_r.
Qed.

Lemma binv_write size acc x p : BInv acc x -> BInv (acc ++ [p]) (bws_write size x p).
Proof.
  intros I. unfold bws_write.
  destruct ((size - length (bbuf x) <? length p) && negb (is_nil (bbuf x))) eqn:C.
  - destruct (binv_flush acc x I) as [I1 E1]. cbn [bwrite]. rewrite E1.
    destruct (size - length (@nil byte) <? length p); [now apply binv_direct|].
    rewrite <- E1. now apply binv_append.
  - cbn [bwrite]. destruct (size - length (bbuf x) <? length p) eqn:D.
    + cbn [andb] in C. apply negb_false_iff in C. destruct (bbuf x) eqn:E; [|discriminate]. now apply binv_direct.
    + now apply binv_append.
Qed.

Lemma serial_buffered j size its : Forall (bitem j (KBuffered size)) its -> forall acc x, BInv acc x ->
  BInv (acc ++ flat_map item_lines its) (zexec_items its x).
Proof.
  induction 1 as [|it r Hit _ IH]; intros acc x I.
  - cbn. now rewrite app_nil_r.
  - unfold exec_items in *. cbn [fold_left].
    destruct Hit as [->|(chunks & ->)]; cbn [item_sec snd item_lines flat_map app].
    + cbn. apply IH. now apply binv_flush.
    + cbn [write_acts]. unfold exec_acts at 2. cbn [fold_left sact_run].
      change (concat chunks :: flat_map item_lines r) with ([concat chunks] ++ flat_map item_lines r).
      rewrite app_assoc. apply IH. now apply binv_write.
Qed.

Lemma binv_sink0 : BInv [] sink0.
Proof. exists [], []. auto. Qed.

(* serial execution of the calls of one branch from the empty sink, then the final Sync *)
Lemma serial_out j kd its : Forall (bitem j kd) its -> forall u, u < nsinks kd ->
  outs (sflush (zexec_items its sink0)) u = concat (flat_map item_lines its).
Proof.
  intros F u Hu. destruct kd as [k|size]; cbn [nsinks] in Hu.
  - destruct (serial_locked j k its F sink0 eq_refl) as [B O]. rewrite (sflush_nil _ B). now rewrite (O u Hu).
  - assert (u = 0) by lia. subst u.
    pose proof (serial_buffered j size its F [] sink0 binv_sink0) as I. cbn [app] in I.
    destruct (binv_flush _ _ I) as [(done & rest & A & O & B) E]. rewrite E in B.
    rewrite O, A, concat_app, <- B. now rewrite app_nil_r.
Qed.

(* before the final Sync a buffered sink holds a whole number of lines: a prefix of the order *)
Lemma serial_buffered_prefix j size its : Forall (bitem j (KBuffered size)) its ->
  exists n, outs (zexec_items its sink0) 0 = concat (firstn n (flat_map item_lines its)).
Proof.
  intros F. pose proof (serial_buffered j size its F [] sink0 binv_sink0) as (done & rest & A & O & _).
  cbn [app] in A. exists (length done). rewrite A, firstn_app, Nat.sub_diag, firstn_all. cbn. now rewrite app_nil_r.
Qed.

(* ------------------------------------------------------------------ *)
(* B. shape of the compiled code                                        *)
(* ------------------------------------------------------------------ *)
Lemma on_lock_app l a b : zon_lock l (a ++ b) = zon_lock l a ++ zon_lock l b.
Proof. unfold on_lock. apply filter_app. Qed.

Lemma on_lock_all l its : (forall it, In it its -> fst (item_sec it) = l) -> zon_lock l its = its.
Proof.
  induction its as [|it r IH]; intros H; [reflexivity|]. unfold on_lock in *. cbn [filter].
  rewrite (H it (or_introl eq_refl)), Nat.eqb_refl. f_equal. apply IH. intros i Hi. apply H. now right.
Qed.
Lemma on_lock_none l its : (forall it, In it its -> fst (item_sec it) <> l) -> zon_lock l its = [].
Proof.
  induction its as [|it r IH]; intros H; [reflexivity|]. unfold on_lock in *. cbn [filter].
  destruct (Nat.eqb_spec (fst (item_sec it)) l) as [E|_]; [now elim (H it (or_introl eq_refl))|].
  apply IH. intros i Hi. apply H. now right.
Qed.

(* per-branch code generators: everything they emit for branch (j, kd) is a call on lock j *)
Definition per_branch (f : nat * bkind -> list item) : Prop :=
  forall jk it, In it (f jk) -> fst (item_sec it) = fst jk.

Lemma on_lock_branches_aux f (Hf : per_branch f) j kd : forall c a,
  (a <= j -> nth_error c (j - a) = Some kd ->
   zon_lock j (flat_map f (combine (seq a (length c)) c)) = f (j, kd)) /\
  (j < a -> zon_lock j (flat_map f (combine (seq a (length c)) c)) = []).
Proof.
  induction c as [|k0 c IH]; intros a; cbn [length seq combine flat_map].
  - split; [intros _ H; destruct (j - a); discriminate|reflexivity].
  - destruct (IH (S a)) as [IH1 IH2]. split.
    + intros La Hn. rewrite on_lock_app. destruct (Nat.eq_dec a j) as [->|Hne].
      * rewrite Nat.sub_diag in Hn. cbn in Hn. injection Hn as ->.
        rewrite IH2 by lia. rewrite app_nil_r. apply on_lock_all. intros it Hi. apply (Hf _ _ Hi).
      * rewrite (on_lock_none j (f (a, k0))) by (intros it Hi; rewrite (Hf _ _ Hi); cbn; lia).
        cbn [app]. apply IH1; [lia|]. replace (j - a) with (S (j - S a)) in Hn by lia. exact Hn.
    + intros L. rewrite on_lock_app, IH2 by lia. rewrite app_nil_r.
      apply on_lock_none. intros it Hi. rewrite (Hf _ _ Hi). cbn. lia.
Qed.

Lemma on_lock_branches f (Hf : per_branch f) cfg j kd : nth_error cfg j = Some kd ->
  zon_lock j (flat_map f (branches cfg)) = f (j, kd).
Proof.
  intros H. unfold branches. apply (proj1 (on_lock_branches_aux f Hf j kd cfg 0)); [lia|now rewrite Nat.sub_0_r].
Qed.

Definition log_gen (e : entry) (jk : nat * bkind) : list item :=
  IWrite (fst jk) (snd jk) (nth (fst jk) (echunks e) []) :: (if esync e then [IFlush (fst jk)] else []).
Definition sync_gen (jk : nat * bkind) : list item := [IFlush (fst jk)].

Lemma log_gen_pb e : per_branch (log_gen e).
Proof. intros jk it [<-|H]; [reflexivity|]. cbn in H. destruct (esync e); [destruct H as [<-|[]]; reflexivity|destruct H]. Qed.
Lemma sync_gen_pb : per_branch sync_gen.
Proof. intros jk it [<-|[]]. reflexivity. Qed.

Lemma op_items_on cfg j kd o : nth_error cfg j = Some kd ->
  Forall (bitem j kd) (zon_lock j (op_items cfg o)) /\
  flat_map item_lines (zon_lock j (op_items cfg o)) = match o with OLog e => [eline j e] | _ => [] end.
Proof.
  intros H. destruct o as [e| |j']; cbn [op_items].
  - unfold log_items. change (fun jk : nat * bkind => _) with (log_gen e).
    rewrite (on_lock_branches _ (log_gen_pb e) cfg j kd H). unfold log_gen. cbn [fst snd]. split.
    + constructor; [right; eauto|]. destruct (esync e); [constructor; [now left|constructor]|constructor].
    + cbn [flat_map item_lines app]. unfold eline. destruct (esync e); reflexivity.
  - replace (map (fun jk : nat * bkind => IFlush (fst jk)) (branches cfg)) with (flat_map sync_gen (branches cfg))
      by (induction (branches cfg) as [|x r IHr]; [reflexivity|cbn; now rewrite IHr]).
    rewrite (on_lock_branches _ sync_gen_pb cfg j kd H). cbn. split; [constructor; [now left|constructor]|reflexivity].
  - unfold on_lock. cbn [filter item_sec fst]. destruct (Nat.eqb_spec j' j) as [->|]; cbn; split; auto.
    constructor; [now left|constructor].
Qed.

Lemma thread_items_on cfg j kd ops : nth_error cfg j = Some kd ->
  Forall (bitem j kd) (zon_lock j (thread_items cfg ops)) /\
  flat_map item_lines (zon_lock j (thread_items cfg ops)) = thread_lines j ops.
Proof.
  intros H. induction ops as [|o r [IH1 IH2]]; [split; [constructor|reflexivity]|].
  unfold thread_items, thread_lines in *. cbn [flat_map]. rewrite on_lock_app.
  destruct (op_items_on cfg j kd o H) as [F L]. split.
  - apply Forall_app. split; assumption.
  - rewrite flat_map_app, L, IH2. reflexivity.
Qed.

Lemma merge_ext {B} (f g : nat -> list B) sigma : (forall t, f t = g t) -> MergeOf f sigma -> MergeOf g sigma.
Proof. intros E (lab & Hm & Ho). exists lab. split; [exact Hm|]. intros t. now rewrite Ho. Qed.

Lemma owned_in {B} t (x : B) lab : In (t, x) lab -> In x (owned t lab).
Proof. intros H. unfold owned. apply in_map_iff. exists (t, x). split; [reflexivity|]. apply filter_In. split; [exact H|cbn; apply Nat.eqb_refl]. Qed.

(* ------------------------------------------------------------------ *)
(* C. the concurrent theorems                                           *)
(* ------------------------------------------------------------------ *)
(* every complete schedule leaves branch j in the state of a serial execution of
   its sink calls, in an order whose lines are a merge of the threads' lines *)
Lemma branch_serial cfg prog sched j kd :
  nth_error cfg j = Some kd -> zcomplete (zrun cfg prog sched) ->
  exists its, Forall (bitem j kd) its /\
              MergeOf (prog_lines j prog) (flat_map item_lines its) /\
              obj (zrun cfg prog sched) j = zexec_items its sink0.
Proof.
  intros Hk Hc.
  destruct (atomicity sinkst sact sact_run item item_sec (fun t => thread_items cfg (nth t prog [])) (fun _ => sink0) sched Hc j)
    as (lab & Ho & Hobj).
  exists (map snd lab). split; [|split].
  - apply Forall_forall. intros it Hin. apply in_map_iff in Hin. destruct Hin as ([t it'] & E & Hin). cbn in E. subst it'.
    apply owned_in in Hin. rewrite Ho in Hin.
    destruct (thread_items_on cfg j kd (nth t prog []) Hk) as [F _]. rewrite Forall_forall in F. now apply F.
  - apply (merge_ext (fun t => flat_map item_lines (zon_lock j (thread_items cfg (nth t prog []))))).
    + intros t. unfold prog_lines. apply (thread_items_on cfg j kd _ Hk).
    + apply merge_flat_map. exists lab. split; [reflexivity|exact Ho].
  - exact Hobj.
Qed.

(* Lock(ws) / CombineWriteSyncers / Open: at completion (no final Sync needed) every
   underlying sink of the branch holds exactly a merge of the submitted lines *)
Theorem locked_thm cfg prog sched j k :
  nth_error cfg j = Some (KLocked k) -> zcomplete (zrun cfg prog sched) ->
  exists sigma, MergeOf (prog_lines j prog) sigma /\
                forall u, u < k -> outs (obj (zrun cfg prog sched) j) u = concat sigma.
Proof.
  intros Hk Hc. destruct (branch_serial cfg prog sched j _ Hk Hc) as (its & F & M & O).
  exists (flat_map item_lines its). split; [exact M|]. intros u Hu. rewrite O.
  destruct (serial_locked j k its F sink0 eq_refl) as [_ H]. now rewrite (H u Hu).
Qed.

(* BufferedWriteSyncer: after the final Sync the sink holds a merge; before it, a
   whole number of lines of that merge *)
Theorem buffered_thm cfg prog sched j size :
  nth_error cfg j = Some (KBuffered size) -> zcomplete (zrun cfg prog sched) ->
  exists sigma, MergeOf (prog_lines j prog) sigma /\
                final_out (zrun cfg prog sched) j 0 = concat sigma /\
                exists n, outs (obj (zrun cfg prog sched) j) 0 = concat (firstn n sigma).
Proof.
  intros Hk Hc. destruct (branch_serial cfg prog sched j _ Hk Hc) as (its & F & M & O).
  exists (flat_map item_lines its). split; [exact M|]. unfold final_out. rewrite O. split.
  - apply (serial_out j (KBuffered size) its F 0). cbn. lia.
  - apply (serial_buffered_prefix j size its F).
Qed.

(* every branch of a tee, whatever its sink, receives the full set *)
Theorem tee_thm cfg prog sched :
  zcomplete (zrun cfg prog sched) ->
  forall j kd, nth_error cfg j = Some kd ->
  exists sigma, MergeOf (prog_lines j prog) sigma /\
                forall u, u < nsinks kd -> final_out (zrun cfg prog sched) j u = concat sigma.
Proof.
  intros Hc j kd Hk. destruct (branch_serial cfg prog sched j _ Hk Hc) as (its & F & M & O).
  exists (flat_map item_lines its). split; [exact M|]. intros u Hu. unfold final_out. rewrite O.
  now apply (serial_out j kd its F u).
Qed.

(* C04 — stub *)
From Zap Require Import Base.Wire C04.Model.

(* C04 -- the generic theorem: in the interleaving machine of Model.v, for code
   in which every action sits between Lock l and Unlock l of its object's mutex,
   every schedule leaves every object in the state produced by a SERIAL
   execution of whole critical sections, in an order that is a merge of the
   threads' own orders (re-homed from DESIGN Appendix B: the invariant ties the
   dynamic holder of a mutex to the static position of the holder's code). *)
From Coq Require Import List ZArith Bool Arith Lia.
Import ListNotations.
From Zap Require Import Base.Wire C04.Model.

Lemma upd_same {B} (f : nat -> B) k v : upd f k v k = v.
Proof. unfold upd. now rewrite Nat.eqb_refl. Qed.
Lemma upd_other {B} (f : nat -> B) k v x : x <> k -> upd f k v x = f x.
Proof. intros H. unfold upd. destruct (Nat.eqb_spec x k); [contradiction|reflexivity]. Qed.

Lemma owned_app {B} t (a b : list (nat * B)) : owned t (a ++ b) = owned t a ++ owned t b.
Proof. unfold owned. now rewrite filter_app, map_app. Qed.
Lemma owned_one_same {B} t (x : B) : owned t [(t, x)] = [x].
Proof. unfold owned. cbn. now rewrite Nat.eqb_refl. Qed.
Lemma owned_one_other {B} t u (x : B) : u <> t -> owned t [(u, x)] = [].
Proof. intros H. unfold owned. cbn. destruct (Nat.eqb_spec u t); [contradiction|reflexivity]. Qed.

Section Atomic.
  Variable St : Type.
  Variable Act : Type.
  Variable act : Act -> St -> St.
  Variable Item : Type.
  Variable sec_of : Item -> nat * list Act.
  Variable prog : nat -> list Item.
  Variable o0 : nat -> St.

  Notation flat' := (flat Act Item sec_of).
  Notation on_lock' := (on_lock Act Item sec_of).
  Notation exec_acts' := (exec_acts St Act act).
  Notation exec_items' := (exec_items St Act act Item sec_of).
  Notation step' := (step St Act act).
  Notation state := (mstate St Act).

  Definition code : nat -> list (instr Act) := fun t => flat' (prog t).

  Definition outside (lg : nat -> list (nat * Item)) (s : state) (t : nat) : Prop :=
    exists rem, conts s t = flat' rem /\ (forall l, holder s l <> Some t) /\
                forall l, owned t (lg l) ++ on_lock' l rem = on_lock' l (prog t).
  Definition inside (lg : nat -> list (nat * Item)) (s : state) (t : nat) : Prop :=
    exists it done todo rem,
      snd (sec_of it) = done ++ todo /\
      conts s t = map (IAct (fst (sec_of it))) todo ++ IUnlock (fst (sec_of it)) :: flat' rem /\
      holder s (fst (sec_of it)) = Some t /\
      (forall l, l <> fst (sec_of it) -> holder s l <> Some t) /\
      (forall l, owned t (lg l) ++ on_lock' l (it :: rem) = on_lock' l (prog t)) /\
      obj s (fst (sec_of it)) = exec_acts' done (exec_items' (map snd (lg (fst (sec_of it)))) (o0 (fst (sec_of it)))).
  Definition Inv (s : state) : Prop :=
    exists lg, (forall t, outside lg s t \/ inside lg s t) /\
               (forall l, holder s l = None -> obj s l = exec_items' (map snd (lg l)) (o0 l)).

  Lemma inv_init : Inv (minit St Act code o0).
  Proof.
    exists (fun _ => []). split.
    - intros t. left. exists (prog t). cbn. split; [reflexivity|]. split; [intros l; discriminate|reflexivity].
    - intros l _. reflexivity.
  Qed.

  Lemma on_lock_cons_same it rem : on_lock' (fst (sec_of it)) (it :: rem) = it :: on_lock' (fst (sec_of it)) rem.
  Proof. unfold on_lock. cbn [filter]. now rewrite Nat.eqb_refl. Qed.
  Lemma on_lock_cons_other l it rem : l <> fst (sec_of it) -> on_lock' l (it :: rem) = on_lock' l rem.
  Proof. intros H. unfold on_lock. cbn [filter]. destruct (Nat.eqb_spec (fst (sec_of it)) l); [congruence|reflexivity]. Qed.

  Lemma exec_acts_snoc done a x : exec_acts' (done ++ [a]) x = act a (exec_acts' done x).
  Proof. unfold exec_acts. now rewrite fold_left_app. Qed.
  Lemma exec_items_snoc its it x : exec_items' (its ++ [it]) x = exec_acts' (snd (sec_of it)) (exec_items' its x).
  Proof. unfold exec_items. now rewrite fold_left_app. Qed.

  (* threads other than the one that moved keep their status *)
  Lemma other_kept lg lg' s s' t u :
    u <> t ->
    conts s' u = conts s u ->
    (forall l, holder s l = Some u -> holder s' l = Some u /\ obj s' l = obj s l /\ lg' l = lg l) ->
    (forall l, holder s' l = Some u -> holder s l = Some u) ->
    (forall l, owned u (lg' l) = owned u (lg l)) ->
    outside lg s u \/ inside lg s u -> outside lg' s' u \/ inside lg' s' u.
  Proof.
    intros Hne Hc Hfw Hbw Hown [O|I].
    - left. destruct O as (rem & C & H & P). exists rem. repeat split.
      + now rewrite Hc.
      + intros l E. apply (H l). now apply Hbw.
      + intros l. rewrite Hown. apply P.
    - right. destruct I as (it & done & todo & rem & Hs & C & H & Hn & P & O).
      destruct (Hfw _ H) as (H' & O' & L').
      exists it, done, todo, rem. repeat split; auto.
      + now rewrite Hc.
      + intros l Hl E. apply (Hn l Hl). now apply Hbw.
      + intros l. rewrite Hown. apply P.
      + now rewrite O', L'.
  Qed.

  Lemma inv_step s t : Inv s -> Inv (step' s t).
  Proof.
    intros (lg & HT & HN). unfold step.
    destruct (HT t) as [O|I].
    - (* outside a critical section *)
      destruct O as (rem & C & H & P). rewrite C.
      destruct rem as [|it rem]; [cbn; exists lg; split; [exact HT|exact HN]|].
      cbn [flat flat_map compile_item app].
      destruct (holder s (fst (sec_of it))) as [h|] eqn:Hh; [exists lg; split; [exact HT|exact HN]|].
      exists lg. split.
      + intros u. destruct (Nat.eq_dec u t) as [->|Hne].
        * right. exists it, [], (snd (sec_of it)), rem. cbn [conts holder obj app].
          rewrite !upd_same. repeat split.
          -- now rewrite <- app_assoc.
          -- intros l Hl. rewrite upd_other by exact Hl. apply H.
          -- exact P.
          -- cbn. now apply HN.
        * apply (other_kept lg lg s _ t u Hne); cbn [conts holder obj]; auto.
          -- now apply upd_other.
          -- intros l E. assert (l <> fst (sec_of it)) by congruence. now rewrite upd_other.
          -- intros l. unfold upd. destruct (Nat.eqb_spec l (fst (sec_of it))); [intros [= ->]; contradiction|auto].
      + intros l. cbn [holder obj]. unfold upd. destruct (Nat.eqb_spec l (fst (sec_of it))); [discriminate|apply HN].
    - (* inside the critical section of [it] *)
      destruct I as (it & done & todo & rem & Hs & C & H & Hn & P & O). rewrite C.
      destruct todo as [|a todo]; cbn [map app].
      + (* Unlock: the section is committed *)
        rewrite app_nil_r in Hs.
        exists (upd lg (fst (sec_of it)) (lg (fst (sec_of it)) ++ [(t, it)])). split.
        * intros u. destruct (Nat.eq_dec u t) as [->|Hne].
          -- left. exists rem. cbn [conts holder]. rewrite upd_same. repeat split.
             ++ intros l. unfold upd. destruct (Nat.eqb_spec l (fst (sec_of it))); [discriminate|now apply Hn].
             ++ intros l. specialize (P l). unfold upd. destruct (Nat.eqb_spec l (fst (sec_of it))) as [->|Hl].
                ** rewrite on_lock_cons_same in P. rewrite owned_app, owned_one_same, <- app_assoc. exact P.
                ** rewrite on_lock_cons_other in P by exact Hl. exact P.
          -- apply (other_kept lg _ s _ t u Hne); cbn [conts holder obj]; auto.
             ++ now apply upd_other.
             ++ intros l E. assert (l <> fst (sec_of it)) by congruence. now rewrite !upd_other.
             ++ intros l. unfold upd. destruct (Nat.eqb_spec l (fst (sec_of it))); [discriminate|auto].
             ++ intros l. unfold upd. destruct (Nat.eqb_spec l (fst (sec_of it))) as [->|]; [|reflexivity].
                rewrite owned_app, owned_one_other by (intros E; apply Hne; now symmetry). now rewrite app_nil_r.
        * intros l. cbn [holder obj]. unfold upd. destruct (Nat.eqb_spec l (fst (sec_of it))) as [->|Hl].
          -- intros _. rewrite O, map_app. cbn [map snd]. rewrite exec_items_snoc. now rewrite Hs.
          -- apply HN.
      + (* one action inside the section *)
        exists lg. split.
        * intros u. destruct (Nat.eq_dec u t) as [->|Hne].
          -- right. exists it, (done ++ [a]), todo, rem. cbn [conts holder obj]. rewrite !upd_same. repeat split; auto.
             ++ now rewrite <- app_assoc.
             ++ now rewrite exec_acts_snoc, O.
          -- apply (other_kept lg lg s _ t u Hne); cbn [conts holder obj]; auto.
             ++ now apply upd_other.
             ++ intros l E. assert (l <> fst (sec_of it)) by congruence. now rewrite upd_other.
        * intros l E. cbn [holder obj] in *. assert (l <> fst (sec_of it)) by congruence.
          rewrite upd_other by assumption. now apply HN.
  Qed.

  Lemma inv_run sched : Inv (run St Act act code o0 sched).
  Proof.
    unfold run. generalize inv_init. generalize (minit St Act code o0).
    induction sched as [|t r IH]; intros s I; [exact I|]. cbn [fold_left]. apply IH. now apply inv_step.
  Qed.

  Lemma flat_nil rem : flat' rem = [] -> rem = [].
  Proof. destruct rem; [reflexivity|discriminate]. Qed.

  (* every complete schedule: each object is in the state of a serial execution
     of whole critical sections, in an order merging the threads' orders *)
  Theorem atomicity sched :
    complete St Act (run St Act act code o0 sched) ->
    forall l, exists lab : list (nat * Item),
      (forall t, owned t lab = on_lock' l (prog t)) /\
      obj (run St Act act code o0 sched) l = exec_items' (map snd lab) (o0 l).
  Proof.
    intros Hc l. destruct (inv_run sched) as (lg & HT & HN).
    assert (Out : forall t, outside lg (run St Act act code o0 sched) t /\ conts (run St Act act code o0 sched) t = []).
    { intros t. split; [|apply Hc]. destruct (HT t) as [O|I]; [exact O|].
      destruct I as (it & done & todo & rem & _ & C & _). rewrite (Hc t) in C. destruct todo; discriminate. }
    exists (lg l). split.
    - intros t. destruct (Out t) as ((rem & C & _ & P) & E). rewrite E in C. symmetry in C. apply flat_nil in C. subst rem.
      specialize (P l). cbn in P. now rewrite app_nil_r in P.
    - apply HN. destruct (holder (run St Act act code o0 sched) l) as [h|] eqn:Hh; [|reflexivity].
      destruct (Out h) as ((rem & _ & H & _) & _). now elim (H l).
  Qed.

  (* every schedule, complete or not: each object is in the state of a serial
     execution of committed sections plus the part already executed by the
     present holder; committed sections are prefixes of the threads' orders *)
  Theorem atomicity_any sched l :
    exists (lab : list (nat * Item)) (part : list Act),
      obj (run St Act act code o0 sched) l = exec_acts' part (exec_items' (map snd lab) (o0 l)) /\
      (holder (run St Act act code o0 sched) l = None -> part = []) /\
      (forall t, exists rest, owned t lab ++ rest = on_lock' l (prog t)).
  Proof.
    destruct (inv_run sched) as (lg & HT & HN).
    destruct (holder (run St Act act code o0 sched) l) as [h|] eqn:Hh.
    - destruct (HT h) as [O|I].
      + destruct O as (rem & _ & H & _). now elim (H l).
      + destruct I as (it & done & todo & rem & Hs & C & H & Hn & P & O).
        destruct (Nat.eq_dec l (fst (sec_of it))) as [->|Hl]; [|now elim (Hn l Hl)].
        exists (lg (fst (sec_of it))), done. repeat split; auto; try discriminate.
        intros t. destruct (HT t) as [(rem' & _ & _ & P')|(it' & _ & _ & rem' & _ & _ & _ & _ & P' & _)]; eexists; apply P'.
    - exists (lg l), []. repeat split; auto.
      + cbn. now apply HN.
      + intros t. destruct (HT t) as [(rem' & _ & _ & P')|(it' & _ & _ & rem' & _ & _ & _ & _ & P' & _)]; eexists; apply P'.
  Qed.
  (* ---- the hypothesis [complete] is satisfiable for every program with finitely
     many threads: running the threads one after the other never blocks ---- *)
  Notation run_from := (fold_left step').
  Definition all_free (s : state) : Prop := forall l, holder s l = None.

  Lemma step_act s t l a k : conts s t = IAct l a :: k ->
    step' s t = {| conts := upd (conts s) t k; holder := holder s; obj := upd (obj s) l (act a (obj s l)) |}.
  Proof. intros C. unfold step. now rewrite C. Qed.
  Lemma step_lock s t l k : conts s t = ILock l :: k -> holder s l = None ->
    step' s t = {| conts := upd (conts s) t k; holder := upd (holder s) l (Some t); obj := obj s |}.
  Proof. intros C H. unfold step. now rewrite C, H. Qed.
  Lemma step_unlock s t l k : conts s t = IUnlock l :: k ->
    step' s t = {| conts := upd (conts s) t k; holder := upd (holder s) l None; obj := obj s |}.
  Proof. intros C. unfold step. now rewrite C. Qed.

  Lemma alone_acts l t acts : forall k s,
    conts s t = map (IAct l) acts ++ k ->
    conts (run_from (repeat t (length acts)) s) t = k /\
    holder (run_from (repeat t (length acts)) s) = holder s /\
    (forall u, u <> t -> conts (run_from (repeat t (length acts)) s) u = conts s u).
  Proof.
    induction acts as [|a r IH]; intros k s C; cbn [length repeat fold_left]; [auto|].
    cbn [map app] in C. rewrite (step_act s t l a _ C).
    match goal with |- context [run_from _ ?s1] => destruct (IH k s1) as (A & B & D) end.
    { cbn [conts]. now rewrite upd_same. }
    split; [exact A|]. split; [rewrite B; reflexivity|].
    intros u Hu. rewrite (D u Hu). cbn [conts]. now apply upd_other.
  Qed.

  Lemma alone_item it t k s :
    conts s t = compile_item Act Item sec_of it ++ k -> all_free s ->
    conts (run_from (repeat t (length (compile_item Act Item sec_of it))) s) t = k /\
    all_free (run_from (repeat t (length (compile_item Act Item sec_of it))) s) /\
    (forall u, u <> t -> conts (run_from (repeat t (length (compile_item Act Item sec_of it))) s) u = conts s u).
  Proof.
    intros C F. unfold compile_item in *. cbn [length app] in *. rewrite app_length, map_length. cbn [length].
    rewrite <- app_assoc in C. cbn [app] in C.
    cbn [repeat fold_left]. rewrite (step_lock s t _ _ C (F _)).
    rewrite repeat_app, fold_left_app. cbn [repeat fold_left].
    match goal with |- context [run_from (repeat t (length (snd (sec_of it)))) ?s1] =>
      destruct (alone_acts (fst (sec_of it)) t (snd (sec_of it)) (IUnlock (fst (sec_of it)) :: k) s1) as (A & B & D) end.
    { cbn [conts]. now rewrite upd_same. }
    rewrite (step_unlock _ t _ _ A). cbn [conts holder]. rewrite upd_same. split; [reflexivity|]. split.
    - intros l. cbn [holder]. rewrite B. cbn [holder]. unfold upd. destruct (Nat.eqb l (fst (sec_of it))); [reflexivity|apply F].
    - intros u Hu. rewrite upd_other by exact Hu. rewrite (D u Hu). cbn [conts]. now apply upd_other.
  Qed.

  Lemma alone_thread t its : forall s,
    conts s t = flat' its -> all_free s ->
    conts (run_from (repeat t (length (flat' its))) s) t = [] /\
    all_free (run_from (repeat t (length (flat' its))) s) /\
    (forall u, u <> t -> conts (run_from (repeat t (length (flat' its))) s) u = conts s u).
  Proof.
    induction its as [|it r IH]; intros s C F; cbn [flat flat_map length repeat fold_left]; [auto|].
    cbn [flat flat_map] in C. rewrite app_length, repeat_app, fold_left_app.
    destruct (alone_item it t _ s C F) as (A & B & D).
    destruct (IH _ A B) as (A' & B' & D'). split; [exact A'|]. split; [exact B'|].
    intros u Hu. etransitivity; [exact (D' u Hu)|exact (D u Hu)].
  Qed.

  Theorem complete_exists n : (forall t, n <= t -> prog t = []) ->
    exists sched, complete St Act (run St Act act code o0 sched).
  Proof.
    intros Hn.
    assert (G : forall m, m <= n -> exists sched,
              let s := run St Act act code o0 sched in
              all_free s /\ (forall t, t < m -> conts s t = []) /\ (forall t, m <= t -> conts s t = code t)).
    { induction m as [|m IH]; intros Hm.
      - exists []. cbn. repeat split; auto. intros t Ht. lia.
      - destruct IH as (sched & F & Done & Rest); [lia|].
        exists (sched ++ repeat m (length (flat' (prog m)))). unfold run in *. rewrite fold_left_app.
        destruct (alone_thread m (prog m) _ (Rest m (le_n m)) F) as (A & B & D).
        split; [exact B|]. split.
        + intros t Ht. destruct (Nat.eq_dec t m) as [->|Hne]; [exact A|]. rewrite (D t Hne). apply Done. lia.
        + intros t Ht. rewrite (D t) by lia. apply Rest. lia. }
    destruct (G n (le_n n)) as (sched & _ & Done & Rest). exists sched. intros t.
    destruct (Nat.lt_ge_cases t n) as [L|L]; [now apply Done|]. rewrite (Rest t L). unfold code. now rewrite (Hn t L).
  Qed.
End Atomic.

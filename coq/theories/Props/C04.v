(* C04 -- concurrent logging delivers every entry exactly once as an intact line.
   Only statements closed by [exact]; the proofs are in C04/{Atomic,Merge,Proofs}.v.

   Reading guide.  [cfg] is the list of branches of the tee (one ioCore each):
   [KLocked k] = zapcore.Lock / zap.CombineWriteSyncers / zap.Open around k
   underlying sinks, [KBuffered size] = a BufferedWriteSyncer.  [prog] is any number
   of threads, each any sequence of log calls (any lines, handed to the underlying
   sinks in any chunks, any level), Logger.Sync calls and flush ticks.  [sched] is
   any schedule (list of thread ids).  [zrun cfg prog sched] runs the instruction
   level interleaving machine, in which an underlying write is NOT atomic.
   [StreamOk ths s]: the byte stream s is the concatenation of a merge of the
   per-thread line lists ths -- each line intact, none torn, interleaved, merged,
   duplicated or lost, and each thread's lines in the order it logged them. *)
From Coq Require Import List Bool Arith.
From Coq.Strings Require Import Byte.
Import ListNotations.
From Zap Require Import Base.Wire C04.Model C04.Atomic C04.Merge C04.Proofs.

(* the generic mutual-exclusion theorem: for ANY program whose actions sit inside
   Lock l .. Unlock l of their object, ANY number of threads and locks, every complete
   schedule leaves every object in the state of a serial execution of whole critical
   sections in an order merging the threads' orders *)
Theorem C04_atomicity :
  forall (St Act : Type) (act : Act -> St -> St) (Item : Type) (sec_of : Item -> nat * list Act)
         (prog : nat -> list Item) (o0 : nat -> St) (sched : list nat),
    complete St Act (run St Act act (code Act Item sec_of prog) o0 sched) ->
    forall l, exists lab : list (nat * Item),
      (forall t, owned t lab = on_lock Act Item sec_of l (prog t)) /\
      obj (run St Act act (code Act Item sec_of prog) o0 sched) l =
        exec_items St Act act Item sec_of (map snd lab) (o0 l).
Proof. exact atomicity. Qed.
Print Assumptions C04_atomicity.

(* Lock(sink), CombineWriteSyncers, Open: for every configuration, program and complete
   schedule, every underlying sink of a locked branch holds exactly a merge of the
   submitted lines (the same merge for all sinks of the branch), even without a final Sync *)
Theorem C04_locked :
  forall cfg prog sched j k,
    nth_error cfg j = Some (KLocked k) -> zcomplete (zrun cfg prog sched) ->
    exists sigma, MergeOf (prog_lines j prog) sigma /\
                  forall u, u < k -> outs (obj (zrun cfg prog sched) j) u = concat sigma.
Proof. exact locked_thm. Qed.
Print Assumptions C04_locked.

(* BufferedWriteSyncer of any size (entries larger than the buffer included), with
   concurrent Sync calls and flush ticks: after the final Sync the sink holds a merge of
   the submitted lines; before it, a whole number of lines of that merge *)
Theorem C04_buffered :
  forall cfg prog sched j size,
    nth_error cfg j = Some (KBuffered size) -> zcomplete (zrun cfg prog sched) ->
    exists sigma, MergeOf (prog_lines j prog) sigma /\
                  final_out (zrun cfg prog sched) j 0 = concat sigma /\
                  exists n, outs (obj (zrun cfg prog sched) j) 0 = concat (firstn n sigma).
Proof. exact buffered_thm. Qed.
Print Assumptions C04_buffered.

(* every branch of a tee, whatever its sink, receives the full set: after the final Sync
   every underlying sink of every branch holds a merge of the lines submitted to that branch *)
Theorem C04_tee :
  forall cfg prog sched,
    zcomplete (zrun cfg prog sched) ->
    forall j kd, nth_error cfg j = Some kd ->
    exists sigma, MergeOf (prog_lines j prog) sigma /\
                  forall u, u < nsinks kd -> final_out (zrun cfg prog sched) j u = concat sigma.
Proof. exact tee_thm. Qed.
Print Assumptions C04_tee.

(* not only at the end: at every moment of every schedule (complete or not) at which the
   mutex of a branch is free, its sinks hold whole lines only -- a merge of prefixes of
   the threads' lines (nothing torn at a crash point between sink calls) *)
Theorem C04_quiescent :
  forall cfg prog sched j kd,
    nth_error cfg j = Some kd -> holder (zrun cfg prog sched) j = None ->
    exists (pre : nat -> list bytes) sigma,
      (forall t, exists rest, pre t ++ rest = prog_lines j prog t) /\ MergeOf pre sigma /\
      match kd with
      | KLocked k => forall u, u < k -> outs (obj (zrun cfg prog sched) j) u = concat sigma
      | KBuffered _ => exists n, outs (obj (zrun cfg prog sched) j) 0 = concat (firstn n sigma)
      end.
Proof. exact quiescent_thm. Qed.
Print Assumptions C04_quiescent.

(* the hypothesis "complete schedule" is satisfiable for every configuration and program
   (running the threads one after the other never blocks), so none of the theorems above is vacuous *)
Theorem C04_complete_exists : forall cfg prog, exists sched, zcomplete (zrun cfg prog sched).
Proof. exact complete_exists_thm. Qed.
Print Assumptions C04_complete_exists.

(* the oracle run on the real sinks' bytes is the specification: sound, and complete on
   newline-terminated lines *)
Theorem C04_is_merge_sound :
  forall ths s, check_stream ths s = true -> StreamOk (fun t => nth t ths []) s.
Proof. exact check_stream_sound. Qed.
Print Assumptions C04_is_merge_sound.

Theorem C04_is_merge_complete :
  forall ths s, (forall t l, In l (nth t ths []) -> wf_line l = true) ->
    StreamOk (fun t => nth t ths []) s -> check_stream ths s = true.
Proof. exact check_stream_complete. Qed.
Print Assumptions C04_is_merge_complete.

(* the model is able to express the failures the property excludes *)
(* without the mutex two lines tear *)
Theorem C04_unlocked_refuted :
  exists cfg prog sched,
    let s := run sinkst sact sact_run (zcode_nolock cfg prog) (fun _ => sink0) sched in
    complete sinkst sact s /\ ~ StreamOk (prog_lines 0 prog) (outs (obj s 0) 0).
Proof. exact unlocked_refuted. Qed.
Print Assumptions C04_unlocked_refuted.

(* if ioCore.Write handed an entry to the sink in two calls, lines of different threads interleave *)
Theorem C04_two_writes_refuted :
  exists cfg prog sched,
    let s := run sinkst sact sact_run (zcode_two cfg prog) (fun _ => sink0) sched in
    complete sinkst sact s /\ ~ StreamOk (prog_lines 0 prog) (outs (obj s 0) 0).
Proof. exact two_writes_refuted. Qed.
Print Assumptions C04_two_writes_refuted.

(* without zap's flush-before-write rule bufio splits a line across two sink writes *)
Theorem C04_noflush_refuted :
  exists size p q,
    let x := bws_write_noflush size (bws_write_noflush size sink0 p) q in
    wf_line p = true /\ wf_line q = true /\ ~ exists n, outs x 0 = concat (firstn n [p; q]).
Proof. exact noflush_refuted. Qed.
Print Assumptions C04_noflush_refuted.

(* bystanders: the harness records in a 4th component of the case whatever else happened in the
   process around the judged loggers (other loggers hitting failing sinks in Write or Sync, failing
   marshalers, reflection failures, panicking Stringers, a failing branch hidden in the judged tee).
   The requirement on the judged sinks does not depend on that history, and neither does the model:
   for ANY such history every judged sink must hold -- and in the model does hold -- a merge of the
   lines submitted to it *)
Theorem C04_bystanders :
  forall (cfg threads hints : sx) (extra : list sx),
    (forall o, spec (SL (cfg :: threads :: hints :: extra)) o = spec (SL [cfg; threads; hints]) o) /\
    model (SL (cfg :: threads :: hints :: extra)) = model (SL [cfg; threads; hints]) /\
    wf (SL (cfg :: threads :: hints :: extra)) = wf (SL [cfg; threads; hints]) /\
    (wf (SL [cfg; threads; hints]) = true ->
     spec (SL (cfg :: threads :: hints :: extra)) (model (SL (cfg :: threads :: hints :: extra))) = true).
Proof. exact bystanders_thm. Qed.
Print Assumptions C04_bystanders.

(* the wire model the driver runs concatenates the lines of the sink calls of a branch in the
   commit order once (linear in the size of the case, so that entries of several hundred KiB can
   be judged); for EVERY input that is exactly what the serial execution of those sink calls on
   the sink objects (Lock: chunk appends; BufferedWriteSyncer: pre-flush rule + bufio) leaves in
   every underlying sink after the final Sync *)
Theorem C04_model_serial : forall i, model i = model_serial i.
Proof. exact model_serial_eq. Qed.
Print Assumptions C04_model_serial.

(* the driver's oracle accepts what the model computes, for every well-formed case *)
Theorem C04_wire : forall i, wf i = true -> spec i (model i) = true.
Proof. exact spec_model. Qed.
Print Assumptions C04_wire.

(* non-vacuity: a tee of Lock(sink) and a 4-byte BufferedWriteSyncer, two threads, one
   complete schedule (thread 0 entirely, then thread 1): both branches hold "a\nb\n" *)
Definition ex_cfg := [KLocked 1; KBuffered 4].
Definition ex_ent (c : byte) := {| echunks := [[[c]; [x0a]]; [[c; x0a]]]; esync := false |}.
Definition ex_prog := [[OLog (ex_ent x61); OSync]; [OLog (ex_ent x62)]].
Definition ex_sched := repeat 0 20 ++ repeat 1 20.
Example C04_example_complete : forall t, conts (zrun ex_cfg ex_prog ex_sched) t = [].
Proof. intros [|[|[|t]]]; vm_compute; reflexivity. Qed.
Example C04_example_streams :
  outs (obj (zrun ex_cfg ex_prog ex_sched) 0) 0 = [x61; x0a; x62; x0a] /\
  final_out (zrun ex_cfg ex_prog ex_sched) 1 0 = [x61; x0a; x62; x0a] /\
  check_stream (map (thread_lines 0) ex_prog) [x61; x0a; x62; x0a] = true /\
  check_stream (map (thread_lines 0) ex_prog) [x61; x62; x0a; x0a] = false.
Proof. vm_compute. repeat split. Qed.

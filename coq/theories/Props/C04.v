(* C04 — stub: no theorems yet *)
From Zap Require Import Base.Wire C04.Model C04.Proofs.

(* C19 — stub: no theorems yet *)
From Zap Require Import Base.Wire C19.Model C19.Proofs.

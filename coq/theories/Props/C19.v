(* C19 — Open, Config.Build and std-log redirection are all-or-nothing; URLs validated.
   Only statements closed by [exact]; the proofs are in C19/{Registry,Open,Proofs}.v.
   The model (C19/Model.v) follows writer.go, sink.go, config.go, encoder.go and
   global.go of the FIXED tree; the pre-fix code is kept as [..._orig] and the full
   statements are refuted for it below (the three defects repaired by the "fix:"
   commits). *)
From Coq Require Import List ZArith Bool Permutation.
From Coq.Strings Require Import Byte.
Import ListNotations.
From Zap Require Import Base.Wire C19.Model C19.Registry C19.Open C19.Proofs.

(* ---------------------------------------------------------------- Open *)
(* For every registry, every list of paths and every outcome of every opener
   (file opens, factories): either every path yielded a sink, nothing was closed,
   every sink receives every write exactly once and closeAll closes every closable
   sink exactly once — or some path failed, no writer is returned, and every sink
   that had been opened is closed exactly once (os.Stdout/os.Stderr never) and was
   never written to. *)
Theorem C19_open_atomic : forall (r : sreg) (ps : list purl) (next : nat),
  let o := open r ps next in
  map skd (o_sinks o) = path_kinds r ps /\ NoDup (ids (o_sinks o)) /\
  match o_writers o with
  | Some ws =>
      Forall (fun u => snd (new_sink r u) <> None) ps /\ length ws = length ps
      /\ o_sinks o = ws /\ o_evs o = [] /\ o_nerr o = 0
      /\ (forall n s, In s ws -> count (is_write (sid s)) (writes n ws) = n)
      /\ (forall s, In s ws -> count (is_close (sid s)) (close_all ws) = if closable s then 1 else 0)
  | None =>
      Exists (fun u => snd (new_sink r u) = None) ps
      /\ o_nerr o = length (filter (path_fails r) ps) /\ o_nerr o <> 0
      /\ (forall s, In s (o_sinks o) -> count (is_close (sid s)) (o_evs o) = if closable s then 1 else 0)
      /\ (forall s, count (is_write (sid s)) (o_evs o) = 0)
  end.
Proof. exact open_atomic. Qed.
Print Assumptions C19_open_atomic.

(* ---------------------------------------------------------------- Config.Build *)
(* Over every encoder registry, sink registry and configuration (hence every early
   return of Build and every failing subset/position of the output and error-output
   paths): a logger is returned only with a Level, an encoder and all sinks of both
   lists open and unclosed, the n entries reaching every output sink and the m
   internal errors every error-output sink; otherwise every sink opened on the way
   has been closed exactly once. *)
Theorem C19_build_atomic : forall (er : ereg) (r : sreg) (cfg : bcfg),
  let b := build er r cfg in
  match b_ws b with
  | Some (ws1, ws2) =>
      b_cls b = BOk /\ c_level cfg = true
      /\ (exists id, new_encoder er (c_timekey cfg) (c_enctime cfg) (c_encoding cfg) = EOk id)
      /\ b_sinks b = ws1 ++ ws2 /\ b_evs b = [] /\ NoDup (ids (ws1 ++ ws2))
      /\ map skd ws1 = path_kinds r (c_out cfg) /\ length ws1 = length (c_out cfg)
      /\ map skd ws2 = path_kinds r (c_errp cfg) /\ length ws2 = length (c_errp cfg)
      /\ (forall n m s, In s ws1 -> count (is_write (sid s)) (writes n ws1 ++ writes m ws2) = n)
      /\ (forall n m s, In s ws2 -> count (is_write (sid s)) (writes n ws1 ++ writes m ws2) = m)
  | None =>
      b_cls b <> BOk /\ all_undone (b_sinks b) (b_evs b)
  end.
Proof. exact build_atomic. Qed.
Print Assumptions C19_build_atomic.

(* pre-fix Build (level checked after openSinks): Config{Encoding: "json", OutputPaths:
   ["/ok"]} without a Level returns "missing Level" with sink 0 open and unclosed *)
Theorem C19_build_orig_refuted : ~ build_atomic_stmt build_orig.
Proof. exact build_atomic_orig_refuted. Qed.
Print Assumptions C19_build_orig_refuted.
Theorem C19_build_orig_leak :
  let b := build_orig ereg0 sreg0 leak_cfg in
  b_cls b = BLevel /\ b_ws b = None /\ b_sinks b = [mkS 0 KFile] /\ b_evs b = [].
Proof. exact build_orig_leaks. Qed.
Print Assumptions C19_build_orig_leak.

(* ---------------------------------------------------------------- std-log redirection *)
(* For every prior (flags, prefix, writer) and every level value: an error leaves the
   standard logger exactly as it was; success (exactly the seven named levels) sets
   flags 0, prefix "", the zap writer at that level, and the returned function
   restores the prior flags and prefix (and os.Stderr, as documented) from any later
   state.  RedirectStdLog is the instance l = InfoLevel. *)
Theorem C19_redirect_atomic : forall (st : stdlog) (l : Z),
  match redirect st l with
  | (None, st') => named_level l = false /\ st' = st
  | (Some saved, st') =>
      named_level l = true /\ st' = mkL 0 [] (WZap l)
      /\ forall st'', restore saved st'' = mkL (l_flags st) (l_prefix st) WStderr
  end.
Proof. exact redirect_atomic. Qed.
Print Assumptions C19_redirect_atomic.
Theorem C19_redirect_orig_refuted : ~ redirect_atomic_stmt redirect_orig.
Proof. exact redirect_atomic_orig_refuted. Qed.
Print Assumptions C19_redirect_orig_refuted.

(* ---------------------------------------------------------------- file URLs *)
(* A URL whose scheme is empty or "file" (any registry in which "file" is the built-in
   factory): nothing is opened unless it has no user info, port, query or fragment and
   an empty or "localhost" host; then exactly u.Path is opened ("stdout"/"stderr"
   designate the process streams instead). *)
Theorem C19_file_url : forall (r : sreg) (u : purl),
  lookup r s_file = Some 0 -> u_abs u = false -> u_perr u = false ->
  (u_scheme u = [] \/ u_scheme u = s_file) ->
  (file_url_ok u = false -> new_sink r u = ([], None)) /\
  (file_url_ok u = true -> is_std_path (u_path u) = true -> new_sink r u = ([], Some KStd)) /\
  (file_url_ok u = true -> is_std_path (u_path u) = false ->
     new_sink r u = ([CFile (u_path u)], if u_ok u then Some KFile else None)).
Proof. exact file_url_thm. Qed.
Print Assumptions C19_file_url.
Theorem C19_file_url_ok : forall u,
  file_url_ok u = true <->
  u_user u = false /\ u_port u = [] /\ u_query u = [] /\ u_frag u = []
  /\ (u_hostname u = [] \/ u_hostname u = s_localhost).
Proof. exact file_url_ok_iff. Qed.
Print Assumptions C19_file_url_ok.

(* ---------------------------------------------------------------- registries *)
(* RegisterSink, any registry, any name: never panics; succeeds iff the name is
   non-empty, a valid RFC 3986 scheme (ASCII) and its lower-cased form is not yet
   registered; a failure leaves the registry unchanged; a success adds exactly the
   lower-cased name. *)
Theorem C19_registry : forall (r : sreg) (name : bytes) (f : nat),
  let '(c, r') := register r name f in
  c <> RPanic /\
  (name = [] -> c = RErrEmpty) /\
  (name <> [] -> valid_scheme name = false -> c = RErrInvalid) /\
  (name <> [] -> valid_scheme name = true -> lookup r (ascii_lower name) <> None -> c = RErrDup) /\
  (c = ROk <-> reg_accepts r name) /\
  (c <> ROk -> r' = r) /\
  (c = ROk -> r' = r ++ [(ascii_lower name, f)]).
Proof. exact register_spec. Qed.
Print Assumptions C19_registry.
(* schemes are matched case-insensitively: after a successful registration every
   spelling equal to the name up to ASCII case finds the new factory (url.Parse
   lower-cases the scheme it looks up), and no other key changes *)
Theorem C19_registry_case_insensitive : forall r name f s,
  reg_accepts r name -> ascii_lower s = ascii_lower name ->
  lookup (snd (register r name f)) (ascii_lower s) = Some f.
Proof. exact lookup_registered. Qed.
Print Assumptions C19_registry_case_insensitive.
Theorem C19_registry_frame : forall r name f k,
  k <> ascii_lower name -> lookup (snd (register r name f)) k = lookup r k.
Proof. exact lookup_other. Qed.
Print Assumptions C19_registry_frame.
(* after any sequence of registration attempts, a path resolves as the declarative
   reading says: the first valid registered name equal to the written scheme up to
   ASCII case, "file"/no scheme being the built-in file sink *)
Theorem C19_resolution : forall (names : list (bytes * nat)) (u : purl),
  ids_pos names -> wf_purl u = true ->
  new_sink (reg_all sreg0 names) u = spec_path names u.
Proof. intros names u H W. exact (new_sink_spec _ names u (Inv_case names) H W). Qed.
Print Assumptions C19_resolution.
(* an accepted name is a valid scheme, hence ASCII; false of the pre-fix code, which
   lower-cased first: "\u212Aelvin" was accepted and registered as "kelvin" *)
Theorem C19_registry_rejects_malformed : forall r name f,
  fst (register r name f) = ROk -> valid_scheme name = true /\ forallb is_ascii name = true.
Proof.
  intros r name f H. pose proof (registry_rejects_malformed_fixed r name [] f H) as V.
  exact (conj V (valid_scheme_ascii name V)).
Qed.
Print Assumptions C19_registry_rejects_malformed.
Theorem C19_registry_orig_refuted : ~ registry_rejects_malformed register_orig.
Proof. exact registry_rejects_malformed_orig_refuted. Qed.
Print Assumptions C19_registry_orig_refuted.
Theorem C19_registry_orig_kelvin :
  register_orig sreg0 kelvin_name kelvin_lowered 1 = (ROk, sreg0 ++ [(kelvin_lowered, 1)])
  /\ valid_scheme kelvin_name = false /\ forallb is_ascii kelvin_name = false.
Proof. exact registry_kelvin_orig. Qed.
Print Assumptions C19_registry_orig_kelvin.
(* RegisterEncoder: succeeds iff the name is non-empty and absent; otherwise the
   registry is unchanged *)
Theorem C19_encoder_registry : forall (r : ereg) (name : bytes) (v : nat * bool),
  let '(c, r') := register_enc r name v in
  (c = ROk <-> name <> [] /\ lookup r name = None) /\
  (name = [] -> c = RErrEmpty) /\
  (name <> [] -> lookup r name <> None -> c = RErrDup) /\
  (c <> ROk -> r' = r) /\
  (c = ROk -> r' = r ++ [(name, v)]).
Proof. exact register_enc_spec. Qed.
Print Assumptions C19_encoder_registry.

(* ---------------------------------------------------------------- histories: nothing is left wedged *)
(* Mixed histories of RegisterSink, Open, RegisterEncoder, Config.Build and the
   redirection on the same two registries (wire kind 5).  A rejected registration -
   empty, malformed or already registered name, in any spelling - is a no-op for the
   rest of the history: every later operation runs on exactly the registries it would
   have run on without it. *)
Theorem C19_rejected_registration_is_noop : forall (r : sreg) (er : ereg) (id : nat) (op : sx) (t : list sx),
  (tag op = 0%Z -> fst (register r (sx_b (sx_nth op 1)) id) <> ROk ->
   model_mix_ops r er id (op :: t) =
   SL [SZ 0; SZ (rres_code (fst (register r (sx_b (sx_nth op 1)) id))); enc_keys (keys r)]
   :: model_mix_ops r er (S id) t) /\
  (tag op = 2%Z -> fst (register_enc er (sx_b (sx_nth op 1)) (id, sx_bool (sx_nth op 2))) <> ROk ->
   model_mix_ops r er id (op :: t) =
   SL [SZ 0; SZ (rres_code (fst (register_enc er (sx_b (sx_nth op 1)) (id, sx_bool (sx_nth op 2))))); enc_keys (keys er)]
   :: model_mix_ops r er (S id) t).
Proof. intros r er id op t. exact (conj (mix_rejected_sink r er id op t) (mix_rejected_enc r er id op t)). Qed.
Print Assumptions C19_rejected_registration_is_noop.
(* The harness runs every operation under a watchdog and records one that did not
   return as [blocked].  The oracle accepts that marker nowhere: not as the observation
   of a case, and an accepted history has exactly one observation per operation, none
   of them [blocked] - after whatever registration, Open, Build or redirection was
   rejected earlier in the history, every later operation must have returned. *)
Theorem C19_blocked_rejected : forall i, spec i blocked = false.
Proof. exact blocked_rejected. Qed.
Print Assumptions C19_blocked_rejected.
Theorem C19_history_all_returned : forall i o, history_kind i = true -> spec i o = true ->
  length (sx_l o) = length (sx_l (sx_nth i 1)) /\ Forall (fun ob => is_blocked ob = false) (sx_l o).
Proof. exact history_returned. Qed.
Print Assumptions C19_history_all_returned.

(* ---------------------------------------------------------------- every destination receives every write *)
(* The writer returned by Open / CombineWriteSyncers (zapcore.Lock over
   zapcore.NewMultiWriteSyncer; wire kind 6) over ANY list of destinations, each answering
   the Write with any (n, err): the calls made are exactly one Write per destination, in
   order - whatever the other destinations answered (a rejected write (0, err), a short
   write, an error after a full write ...); the returned error consists of the errors of
   exactly the destinations that failed, in order; the returned count is the smallest
   count any destination reported (io.Writer: n <= len). *)
Theorem C19_write_reaches_every_destination : forall (ds : list (wbeh * nat)) (len : nat),
  let r := comb_write ds len in
  wr_evs r = map WWrite (map snd ds)
  /\ (NoDup (map snd ds) -> forall d, In d (map snd ds) ->
      wcount (is_wwrite d) (wr_evs r) = 1 /\ wcount (is_wsync d) (wr_evs r) = 0)
  /\ wr_errs r = map snd (filter (fun p => w_err (fst p)) ds)
  /\ (Forall (fun p => w_n (fst p) <= len) ds -> wr_n r = fold_right Nat.min len (map (fun p => w_n (fst p)) ds)).
Proof. exact comb_write_all. Qed.
Print Assumptions C19_write_reaches_every_destination.
(* what the destinations answer has no influence on which destinations are written to *)
Theorem C19_write_delivery_ignores_answers : forall (ds ds' : list (wbeh * nat)) (len len' : nat),
  map snd ds = map snd ds' -> wr_evs (comb_write ds len) = wr_evs (comb_write ds' len').
Proof. exact comb_write_answers_irrelevant. Qed.
Print Assumptions C19_write_delivery_ignores_answers.
Theorem C19_sync_reaches_every_destination : forall (ds : list (wbeh * nat)),
  let r := comb_sync ds in
  wr_evs r = map WSync (map snd ds)
  /\ (NoDup (map snd ds) -> forall d, In d (map snd ds) ->
      wcount (is_wsync d) (wr_evs r) = 1 /\ wcount (is_wwrite d) (wr_evs r) = 0)
  /\ wr_errs r = map snd (filter (fun p => w_serr (fst p)) ds).
Proof. exact comb_sync_all. Qed.
Print Assumptions C19_sync_reaches_every_destination.
(* One entry on the logger of Config.Build (ds1: OutputPaths, ds2: ErrorOutputPaths, any
   answers): every output destination receives the entry once; every error-output
   destination receives one line (Write + Sync) for the caller that cannot be found (cl)
   and one naming every output destination that rejected the entry. *)
Theorem C19_logger_entry_reaches_every_destination : forall (cl : bool) (len : nat) (ds1 ds2 : list (wbeh * nat)),
  NoDup (map snd ds1 ++ map snd ds2) ->
  let r := step_res 2 cl len 0 ds1 ds2 in
  let k := b2n cl + b2n (existsb (fun p => w_err (fst p)) ds1) in
  (forall d, In d (map snd ds1) -> wcount (is_wwrite d) (wr_evs r) = 1 /\ wcount (is_wsync d) (wr_evs r) = 0)
  /\ (forall d, In d (map snd ds2) -> wcount (is_wwrite d) (wr_evs r) = k /\ wcount (is_wsync d) (wr_evs r) = k)
  /\ wr_errs r = (if is_nil ds2 then [] else map snd (filter (fun p => w_err (fst p)) ds1)).
Proof. exact logger_entry_all. Qed.
Print Assumptions C19_logger_entry_reaches_every_destination.
(* Histories (all three modes): after any sequence of Writes / entries and Syncs over nd
   destinations, with any answers at every step, destination d < nd has received exactly
   as many Writes as there were Write steps and as many Syncs as there were Sync steps -
   no answer given earlier in the history, by any destination, loses a later write. *)
Theorem C19_history_reaches_every_destination : forall (mode : Z) (cl : bool) (len : nat) (steps : list sx) (nd d : nat),
  Forall (fun st => length (dec_behs (sx_nth st 1)) = nd) steps -> d < nd ->
  wcount (is_wwrite d) (history_evs mode cl len steps) = length (filter is_write_step steps)
  /\ wcount (is_wsync d) (history_evs mode cl len steps) = length (filter (fun st => negb (is_write_step st)) steps).
Proof. exact history_delivery. Qed.
Print Assumptions C19_history_reaches_every_destination.

(* ---------------------------------------------------------------- overlapping registrations *)
(* Registration is atomic.  RegisterSink / RegisterEncoder hold the registry's mutex from the
   duplicate check to the insert, so a call is ONE step ([register] / [register_enc]) and
   an execution of any number of overlapping calls is a sequence of such steps: an
   interleaving [sched] of the calls [calls] (goroutine g: name, factory number).  For every
   registry, every set of calls, every interleaving and every key k (scheme up to ASCII
   case / exact encoder name): every call designating k returns nil or "already registered"
   (losers_ok); if k was taken, no call is accepted and k keeps its owner; if k was free,
   either no call designates it, or EXACTLY ONE call designating it returns nil and
   afterwards k resolves to that call's factory / constructor - a later overlapping call
   never replaces it. *)
Theorem C19_registration_atomic_sinks : forall (r : sreg) (calls sched : list (bytes * nat)) (k : bytes),
  Permutation calls sched ->
  let res := conc_sreg r sched in
  losers_ok skey k sched (fst res) = true /\
  match lookup r k with
  | Some v => winners skey k sched (fst res) = [] /\ lookup (snd res) k = Some v
  | None => (winners skey k sched (fst res) = [] /\ lookup (snd res) k = None
             /\ Forall (fun op => has_key skey k (fst op) = false) sched)
            \/ exists id, winners skey k sched (fst res) = [id] /\ lookup (snd res) k = Some id
  end.
Proof. exact (fun r calls sched k _ => conc_sreg_atomic sched r k). Qed.
Print Assumptions C19_registration_atomic_sinks.
Theorem C19_registration_atomic_encoders : forall (r : ereg) (calls sched : list (bytes * nat)) (k : bytes),
  Permutation calls sched ->
  let res := conc_ereg r sched in
  losers_ok ekey k sched (fst res) = true /\
  match lookup r k with
  | Some v => winners ekey k sched (fst res) = [] /\ lookup (snd res) k = Some v
  | None => (winners ekey k sched (fst res) = [] /\ lookup (snd res) k = None
             /\ Forall (fun op => has_key ekey k (fst op) = false) sched)
            \/ exists id, winners ekey k sched (fst res) = [id] /\ lookup (snd res) k = Some (id, true)
  end.
Proof. exact (fun r calls sched k _ => conc_ereg_atomic sched r k). Qed.
Print Assumptions C19_registration_atomic_encoders.
(* the oracle run on the observations of overlapping calls (wire kind 7) accepts no
   observation in which a key was accepted twice, or in which a call designating a key
   returned anything but nil / "already registered" *)
Theorem C19_overlapping_accepted_at_most_once : forall i o, sx_z (sx_nth i 0) = 7%Z -> spec i o = true ->
  let ops := dec_cops (sx_nth i 2) in
  exists codes looks ks, o = obs_conc codes looks ks /\ length codes = length ops /\
    forall k,
      if Z.eqb (sx_z (sx_nth i 1)) 0
      then length (winners skey k ops codes) <= 1 /\ losers_ok skey k ops codes = true
      else length (winners ekey k ops codes) <= 1 /\ losers_ok ekey k ops codes = true.
Proof. exact conc_accepted. Qed.
Print Assumptions C19_overlapping_accepted_at_most_once.
(* two goroutines register "Race" / "RACE" at the same time: in both interleavings one call
   is accepted; an observation with both accepted is rejected by the oracle, and so is one
   in which the registry holds the factory of the call that was rejected *)
Example C19_example_overlap :
  let a := ([x52; x61; x63; x65], 2) in let b := ([x52; x41; x43; x45], 3) in
  let ops := SL [SL [SB (fst a); SZ 2]; SL [SB (fst b); SZ 3]] in
  let i := SL [SZ 7; SZ 0; ops] in
  let ks := SL [SB s_file; SB [x72; x61; x63; x65]] in
  fst (conc_sreg sreg0 [a; b]) = [0; 3]%Z /\ fst (conc_sreg sreg0 [b; a]) = [0; 3]%Z
  /\ model i = SL [SL [SZ 0; SZ 3]; SL [SZ 2; SZ 2]; ks]
  /\ spec i (model i) = true
  /\ spec i (SL [SL [SZ 0; SZ 0]; SL [SZ 3; SZ 3]; ks]) = false
  /\ spec i (SL [SL [SZ 0; SZ 3]; SL [SZ 3; SZ 3]; ks]) = false.
Proof. vm_compute. repeat split. Qed.

(* ---------------------------------------------------------------- wire *)
(* the oracle the driver runs on the implementation's observations accepts the
   model's observation on every well-formed case of every kind *)
Theorem C19_wire : forall i, wf i = true -> spec i (model i) = true.
Proof. exact spec_model. Qed.
Print Assumptions C19_wire.

(* ---------------------------------------------------------------- non-vacuity *)
Definition ex_ok : purl := mkU false [] false [x63] false [x68] [] [x2f; x6f; x6b] [] [] true.      (* c://h/ok *)
Definition ex_bad : purl := mkU false [] false [x63] false [x68] [] [x2f; x6e; x6f] [] [] false.    (* c://h/no, factory fails *)
Definition ex_std : purl := mkU false s_stdout false [] false [] [] s_stdout [] [] true.            (* stdout *)
Definition ex_reg : sreg := reg_all sreg0 [([x43], 1)].                                           (* RegisterSink("C") *)
(* three sinks opened, the third path fails: both closable sinks closed once, stdout untouched *)
Example C19_example_open_failure :
  let o := open ex_reg [ex_ok; ex_std; ex_bad; ex_ok] 0 in
  o_writers o = None /\ o_nerr o = 1 /\ o_sinks o = [mkS 0 KTest; mkS 1 KStd; mkS 2 KTest]
  /\ o_evs o = [EClose 0; EClose 2] /\ o_calls o = [CFact 1; CFact 1; CFact 1].
Proof. vm_compute. repeat split. Qed.
Example C19_example_open_success :
  let o := open ex_reg [ex_ok; ex_std] 0 in
  o_writers o = Some [mkS 0 KTest; mkS 1 KStd] /\ o_evs o = []
  /\ writes 2 [mkS 0 KTest; mkS 1 KStd] = [EWrite 0; EWrite 1; EWrite 0; EWrite 1].
Proof. vm_compute. repeat split. Qed.
(* Build: error output fails after the outputs opened: the output sink is closed *)
Example C19_example_build :
  let b := build ereg0 ex_reg (mkB true true s_json true [ex_ok] [ex_ok; ex_bad]) in
  b_cls b = BSink /\ b_sinks b = [mkS 0 KTest; mkS 1 KTest] /\ b_evs b = [EClose 1; EClose 0].
Proof. vm_compute. repeat split. Qed.
Example C19_example_redirect :
  redirect (mkL 3 [x70] WUser) 6 = (None, mkL 3 [x70] WUser)
  /\ redirect (mkL 3 [x70] WUser) 2 = (Some (3%Z, [x70]), mkL 0 [] (WZap 2)).
Proof. vm_compute. repeat split. Qed.
Example C19_example_accepts : reg_accepts sreg0 [x43; x2b; x31] /\ ~ reg_accepts sreg0 [x46; x49; x4c; x45].
Proof. split; [vm_compute; repeat split; discriminate|intros (_ & _ & H); vm_compute in H; discriminate]. Qed.
(* a well-formed wire case: Open("C://h/ok", "stdout") after RegisterSink("C") *)
Example C19_example_wf :
  let u1 := SL [SZ 0; SB [x43; x3a; x2f; x2f; x68; x2f; x6f; x6b]; SZ 0; SB [x63]; SZ 0; SB [x68]; SB [x68]; SB [];
                SB [x2f; x6f; x6b]; SB []; SB []; SZ 1; SB []] in
  let i := SL [SZ 0; SL [SL [SB [x43]; SB [x63]]]; SL [u1]; SZ 2] in
  wf i = true /\ model i = SL [SZ 0; SZ 0; SL [SL [SZ 1; SZ 1]]; SL [SL [SZ 0; SZ 2; SZ 0]]; SL [SL [SZ 0; SZ 2; SZ 1]]; SL [SZ 0; SZ 0]].
Proof. vm_compute. split; reflexivity. Qed.
(* a mixed history: RegisterSink("C"), RegisterSink("c") (rejected: registered), Open("C://h/ok");
   the third operation not returning is rejected by the oracle *)
Example C19_example_mixed :
  let u1 := SL [SZ 0; SB [x43; x3a; x2f; x2f; x68; x2f; x6f; x6b]; SZ 0; SB [x63]; SZ 0; SB [x68]; SB [x68]; SB [];
                SB [x2f; x6f; x6b]; SB []; SB []; SZ 1; SB []] in
  let i := SL [SZ 5; SL [SL [SZ 0; SB [x43]; SB [x63]]; SL [SZ 0; SB [x63]; SB [x63]]; SL [SZ 1; SL [u1]; SZ 1]]] in
  let ks := SL [SB [x63]; SB s_file] in
  wf i = true
  /\ model i = SL [SL [SZ 0; SZ 0; ks]; SL [SZ 0; SZ 3; ks];
                  SL [SL [SZ 0; SZ 0; SL [SL [SZ 1; SZ 2]]; SL [SL [SZ 0; SZ 1; SZ 0]]; SL [SL [SZ 0; SZ 1; SZ 1]]; SL [SZ 0; SZ 0]]; ks]]
  /\ spec i (model i) = true
  /\ spec i (SL [SL [SZ 0; SZ 0; ks]; SL [SZ 0; SZ 3; ks]; blocked]) = false
  /\ spec i (SL [SL [SZ 0; SZ 0; ks]; SL [SZ 0; SZ 3; ks]]) = false.
Proof. vm_compute. repeat split. Qed.

(* the multi-destination writer: three destinations, the first rejects the write with
   (0, err), the second takes 5 of 12 bytes without an error, the third fails after a full
   write: all three are written to, the error names destinations 0 and 2, 0 bytes reported;
   an observation in which the destinations after the rejecting one received nothing is
   rejected by the oracle *)
Example C19_example_multi :
  let bs := SL [SL [SZ 0; SZ 1; SZ 0]; SL [SZ 5; SZ 0; SZ 1]; SL [SZ 12; SZ 1; SZ 0]] in
  let i := SL [SZ 6; SZ 0; SZ 0; SZ 12; SZ 3; SZ 0; SL [SL [SZ 0; bs; SL []]; SL [SZ 1; bs; SL []]]] in
  let one := SL [SZ 1; SZ 0] in let syn := SL [SZ 0; SZ 1] in let none := SL [SZ 0; SZ 0] in
  wf i = true
  /\ model i = SL [SL [SL [one; one; one]; SL []; SZ 0; SL [SZ 0; SZ 2]]; SL [SL [syn; syn; syn]; SL []; SZ 0; SL [SZ 1]]]
  /\ spec i (model i) = true
  /\ spec i (SL [SL [SL [one; none; none]; SL []; SZ 0; SL [SZ 0]]; SL [SL [syn; syn; syn]; SL []; SZ 0; SL [SZ 1]]]) = false
  /\ spec i (SL [SL [SL [one; none; none]; SL []; SZ 0; SL [SZ 0; SZ 2]]; SL [SL [syn; syn; syn]; SL []; SZ 0; SL [SZ 1]]]) = false.
Proof. vm_compute. repeat split. Qed.

(* C12 -- BufferedWriteSyncer delivers every byte once, in order, in whole writes.
   Only statements closed by [exact]; the proofs are in C12/Proofs.v and C12/ConcProofs.v.
   Vocabulary (C12/Model.v): [run (init size outs) ops] = final state and, per operation, its
   result and the sink events it caused; [outs] = the sink's outcome script ([reliable]: it never
   fails); [accepted ops] = the Write arguments; [received evs] = what the sink holds, one entry per
   sink write; [Grp acc sw b] = acc splits into groups, one sink write per group, plus the writes
   whose concatenation is the buffer b.  Sizes: any Z (0 -> 256 KiB, negative -> bufio's 4096). *)
From Coq Require Import List ZArith Bool Arith.
From Coq.Strings Require Import Byte.
Import ListNotations.
From Zap Require Import Base.Wire C12.Model C12.Proofs C12.Conc C12.ConcProofs.

(* ---- delivery: every state of every history (hence every crash point) ---- *)
(* the sink holds whole accepted writes, grouped, in order; the rest is in the buffer, which
   never exceeds the configured size *)
Theorem C12_whole : forall c outs ops, reliable outs = true ->
  let '(s, tr) := run (init c outs) ops in
  Grp (accepted ops) (received (all_evs tr)) (buf (w s)) /\ length (buf (w s)) <= eff_size c.
Proof. exact whole_thm. Qed.
Print Assumptions C12_whole.

(* "the configured size" is the Size field itself whenever it is positive -- not rounded up to a page,
   a power of two or any other granularity, for small and for large sizes alike; only 0 (zap's default,
   256 KiB) and negative sizes (bufio's default, 4096) are replaced *)
Theorem C12_size_configured : forall c : Z,
  ((0 < c)%Z -> Z.of_nat (eff_size c) = c) /\ (c = 0%Z -> eff_size c = 256 * 1024) /\ ((c < 0)%Z -> eff_size c = 4096).
Proof. exact size_configured_thm. Qed.
Print Assumptions C12_size_configured.

(* so for every positive Size, at every point of every history, at most Size bytes are held back *)
Theorem C12_held_back_configured : forall c outs ops, (0 < c)%Z -> reliable outs = true ->
  (Z.of_nat (length (buf (w (fst (run (init c outs) ops))))) <= c)%Z.
Proof. exact held_configured_thm. Qed.
Print Assumptions C12_held_back_configured.

(* no byte lost, duplicated or reordered *)
Theorem C12_stream : forall c outs ops, reliable outs = true ->
  let '(s, tr) := run (init c outs) ops in
  concat (received (all_evs tr)) ++ buf (w s) = concat (accepted ops).
Proof. exact stream_rel_thm. Qed.
Print Assumptions C12_stream.

(* abrupt termination after any prefix ops1 of any history ops1 ++ ops2: the sink content at that
   point is whole-write aligned w.r.t. the writes accepted so far, and is extended, never
   rewritten, by what follows *)
Theorem C12_crash : forall c outs ops1 ops2, reliable outs = true ->
  let '(s1, tr1) := run (init c outs) ops1 in
  let '(s2, tr2) := run (init c outs) (ops1 ++ ops2) in
  Grp (accepted ops1) (received (all_evs tr1)) (buf (w s1)) /\
  exists more, tr2 = tr1 ++ more /\ received (all_evs tr2) = received (all_evs tr1) ++ received (all_evs more).
Proof. exact crash_thm. Qed.
Print Assumptions C12_crash.

(* ---- Sync, a processed tick, Stop (first or repeated, before or after use) ---- *)
(* afterwards nothing is held back and the sink was synced after its last write *)
Theorem C12_sync : forall c outs ops o, reliable outs = true ->
  let '(s0, tr0) := run (init c outs) ops in
  let '(s1, r, es) := Model.step s0 o in
  flushing o (loop s0) = true -> buf (w s1) = [] /\ dirty_of false (all_evs tr0 ++ es) = false.
Proof. exact sync_thm. Qed.
Print Assumptions C12_sync.

(* everything accepted before it is in the sink at every later point of the history *)
Theorem C12_acked : forall c outs ops o ops2, reliable outs = true ->
  flushing o (loop (fst (run (init c outs) ops))) = true ->
  let '(s2, tr2) := run (init c outs) (ops ++ o :: ops2) in
  exists more, concat (received (all_evs tr2)) = concat (accepted ops) ++ more.
Proof. exact acked_thm. Qed.
Print Assumptions C12_acked.

(* over a reliable sink every Write returns (len, nil), Sync and Stop return nil *)
Theorem C12_results : forall c outs ops, reliable outs = true ->
  Forall2 res_ok ops (map fst (snd (run (init c outs) ops))).
Proof. exact results_thm. Qed.
Print Assumptions C12_results.

(* ---- lifecycle ---- *)
(* the flush goroutine runs exactly from the first Write to the first Stop after it
   (Write/Sync before use initialise lazily; Stop before any use is a no-op) *)
Theorem C12_lifecycle : forall c outs ops, reliable outs = true ->
  loop (fst (run (init c outs) ops)) = is_running (spec_phase ops).
Proof. exact lifecycle_thm. Qed.
Print Assumptions C12_lifecycle.

(* the same for ANY sink (errors, short writes, failing Sync) and both code versions: the lifecycle does
   not depend on what the sink answers *)
Theorem C12_lifecycle_any_sink : forall fx c outs ops,
  loop (fst (run_gen fx (init c outs) ops)) = is_running (spec_phase ops).
Proof. exact lifecycle_any_thm. Qed.
Print Assumptions C12_lifecycle_any_sink.

(* once ANY Stop has returned -- first or repeated, before or after the first Write, whatever the
   sink answered -- no flush goroutine is left; a loop ended by a Stop never comes back *)
Theorem C12_stop_ends_loop : forall fx c outs ops ops2,
  loop (fst (run_gen fx (init c outs) (ops ++ [Stop]))) = false /\
  (loop (fst (run_gen fx (init c outs) ops)) = true ->
   loop (fst (run_gen fx (init c outs) (ops ++ Stop :: ops2))) = false).
Proof. exact stop_ends_loop_thm. Qed.
Print Assumptions C12_stop_ends_loop.

(* Stops on a syncer that has not been written to change nothing at all: they do not use up the one
   effective Stop -- the first Write afterwards starts the loop and the next Stop ends it *)
Theorem C12_early_stop_noop : forall fx c outs n bs ops,
  fst (run_gen fx (init c outs) (repeat Stop n)) = init c outs /\
  loop (fst (run_gen fx (init c outs) (repeat Stop n ++ [Write bs]))) = true /\
  loop (fst (run_gen fx (init c outs) (repeat Stop n ++ Write bs :: ops ++ [Stop]))) = false.
Proof. exact early_stop_noop_thm. Qed.
Print Assumptions C12_early_stop_noop.

(* Stop may be repeated: from any state at all, with any sink, a Stop that follows a Stop changes
   neither the buffer nor the flags, writes nothing to the sink (at most it syncs it) *)
Theorem C12_stop_idempotent : forall fx s,
  let s1 := fst (fst (step_gen fx s Stop)) in
  let '(s2, r, es) := step_gen fx s1 Stop in
  w s2 = w s1 /\ inited s2 = inited s1 /\ stopped s2 = stopped s1 /\ loop s2 = loop s1 /\
  (es = [] \/ es = [ES]) /\ (reliable (k s1) = true -> r = RStop 0).
Proof. exact stop_idempotent_thm. Qed.
Print Assumptions C12_stop_idempotent.

(* ---- unreliable sink: ANY outcome script (errors, short writes), both code versions ---- *)
(* the bytes the Writes reported as consumed are, in order and exactly once, the bytes in the
   sink followed by the bytes still buffered *)
Theorem C12_faulty_stream : forall fx c outs ops,
  let '(s, tr) := run_gen fx (init c outs) ops in
  consumed ops tr = concat (received (all_evs tr)) ++ buf (w s).
Proof. exact faulty_stream_thm. Qed.
Print Assumptions C12_faulty_stream.

(* the model's loop bound for bufio.Writer.Write is never the reason for a result *)
Theorem C12_fuel_enough : forall b k0 p extra, outs_wf k0 = true ->
  bwrite (wfuel p + extra) b k0 p = bwrite (wfuel p) b k0 p.
Proof. exact wfuel_enough. Qed.
Print Assumptions C12_fuel_enough.

(* ---- the model can express the failures ---- *)
(* bufio.Writer.Write WITHOUT zap's flush-before-write rule does split a caller's write *)
Theorem C12_split_without_preflush_refuted : ~ (forall s bs, RInv s ->
  let '(s1, r, es) := naive_write s bs in
  forall acc sw, Grp acc sw (buf (w s)) -> Grp (acc ++ [bs]) (sw ++ received es) (buf (w s1))).
Proof. exact naive_not_whole. Qed.
Print Assumptions C12_split_without_preflush_refuted.

(* the ORIGINAL Stop/Write (pre-fix): a completed Stop could leave accepted data in the buffer *)
Theorem C12_stop_flushes_orig_refuted : ~ (forall c ops,
  let '(s, tr) := run_gen false (init c []) (ops ++ [Stop]) in buf (w s) = []).
Proof. exact stop_flushes_orig_refuted. Qed.
Print Assumptions C12_stop_flushes_orig_refuted.

(* ---- liveness: interleaving model of the lock, the stop/done channels and the flush loop ---- *)
(* any number of threads, any call sequences, any schedule: from the state reached, all calls can
   still run to completion -- no reachable deadlock *)
Theorem C12_live : forall progs sched, exists sched', all_done (crun false progs (sched ++ sched')) = true.
Proof. exact live_thm. Qed.
Print Assumptions C12_live.

(* a Stop that got past <-done finds the flush loop exited; it stays exited; and once every call
   has returned and some Stop took effect, the loop has exited *)
Theorem C12_loop_exits : forall progs sched,
  let s := crun false progs sched in
  (forall i pc todo, nth_error (thr s) i = Some (pc, todo) -> past_wait pc = true -> lp s = LExit) /\
  (forall m, lp s = LExit -> lp (Conc.step false s m) = LExit) /\
  (all_done s = true -> stp s = true -> lp s = LExit).
Proof. exact (fun progs sched => conj (exit_after_wait progs sched)
               (conj (fun m => exit_stable progs sched m) (exit_when_done progs sched))). Qed.
Print Assumptions C12_loop_exits.

(* waiting for the loop while holding the lock (issue 1428) deadlocks *)
Theorem C12_live_lockwait_refuted :
  ~ (forall progs sched, exists sched', all_done (crun true progs (sched ++ sched')) = true).
Proof. exact lockwait_refuted. Qed.
Print Assumptions C12_live_lockwait_refuted.

(* ---- the executable oracles mean the property (independently of the model) ---- *)
(* whatever trace the strong oracle accepts -- in particular one recorded from the real
   implementation -- consists of whole-write groups in order with a bounded remainder, only
   successful results, and the documented lifecycle *)
Theorem C12_oracle_sound : forall c ops tr alive, strong_ok c ops tr alive = true ->
  (exists groups rest, accepted ops = concat groups ++ rest /\ received (all_evs tr) = map (@concat byte) groups /\
                       length (concat rest) <= eff_size c) /\
  Forall2 res_ok ops (map fst tr) /\ alive = is_running (spec_phase ops).
Proof. exact oracle_sound. Qed.
Print Assumptions C12_oracle_sound.

(* and it judges every point of the history, not only its end: after each of the first n operations
   (any n) the sink holds whole-write groups and what is held back is at most the configured size *)
Theorem C12_oracle_sound_every_point : forall c ops tr alive n, strong_ok c ops tr alive = true ->
  exists groups rest, accepted (firstn n ops) = concat groups ++ rest /\
    received (all_evs (firstn n tr)) = map (@concat byte) groups /\ length (concat rest) <= eff_size c.
Proof. exact oracle_sound_every_point. Qed.
Print Assumptions C12_oracle_sound_every_point.

(* whatever the lifecycle oracle accepts (any sink) -- per-operation goroutine liveness, tick results and
   the final tick as recorded from the real implementation -- is the documented lifecycle: the flush
   goroutine is present exactly from the first Write to the first Stop after it, in particular it is
   gone after every Stop; a tick is served exactly while it runs and reaches the sink at no other time *)
Theorem C12_life_oracle_sound : forall ops tr live alive, life_ok ops tr live alive = true ->
  live = map is_running (phases Fresh ops) /\ alive = is_running (spec_phase ops) /\
  (forall n, nth_error ops n = Some Stop -> nth_error live n = Some false) /\
  (forall n d es, nth_error ops n = Some Tick -> nth_error tr n = Some (RT d, es) ->
     d = is_running (spec_phase (firstn n ops)) /\ (d = false -> es = [])).
Proof. exact life_oracle_sound. Qed.
Print Assumptions C12_life_oracle_sound.

(* whatever trace the weak oracle (unreliable sinks, raw bufio) accepts has stream integrity *)
Theorem C12_weak_oracle_sound : forall ops tr p, wrun p ops tr = true ->
  exists p', p ++ consumed ops tr = concat (received (all_evs tr)) ++ p'.
Proof. exact weak_oracle_sound. Qed.
Print Assumptions C12_weak_oracle_sound.

(* ---- wire: the oracle the driver runs accepts what the model observes, for every case ---- *)
Theorem C12_wire : forall i, spec i (model i) = true.
Proof. exact spec_model. Qed.
Print Assumptions C12_wire.

(* ---- non-vacuity ---- *)
Example C12_reliable_nonvacuous : reliable [] = true /\ reliable [out_ok; out_ok] = true.
Proof. split; reflexivity. Qed.
(* size 4: "abc", "de" (does not fit: pre-flush), "fghij" (larger than the buffer), Sync *)
Example C12_example :
  snd (run (init 4 []) [Write [x61; x62; x63]; Write [x64; x65]; Write [x66; x67; x68; x69; x6a]; Sync]) =
  [ (RW 3 0, []); (RW 2 0, [EW [x61; x62; x63] 3]);
    (RW 5 0, [EW [x64; x65] 2; EW [x66; x67; x68; x69; x6a] 5]); (RS 0, [ES]) ].
Proof. vm_compute. reflexivity. Qed.
(* without the pre-flush rule the same writes are split: "abcd" reaches the sink *)
Example C12_example_split :
  snd (naive_write (fst (fst (naive_write (init 4 []) [x61; x62; x63]))) [x64; x65]) = [EW [x61; x62; x63; x64] 4].
Proof. vm_compute. reflexivity. Qed.
(* pre-fix vs. repaired code on Write; Stop; Write; Stop *)
Example C12_example_orig : 
  snd (run_gen false (init 4 []) [Write [x61; x62]; Stop; Write [x63; x64]; Stop]) =
    [(RW 2 0, []); (RStop 0, [EW [x61; x62] 2; ES]); (RW 2 0, []); (RStop 0, [])] /\
  snd (run (init 4 []) [Write [x61; x62]; Stop; Write [x63; x64]; Stop]) =
    [(RW 2 0, []); (RStop 0, [EW [x61; x62] 2; ES]); (RW 2 0, [EW [x63; x64] 2]); (RStop 0, [ES])].
Proof. exact stop_flushes_orig_witness. Qed.
(* Stop before the first Write, use, Stop again: loop absent, running, gone; also over a sink whose every call fails *)
Example C12_example_early_stop :
  lives (init 4 []) [Stop; Write [x61; x62]; Tick; Stop; Tick; Stop] = [false; true; true; false; false; false] /\
  lives (init 4 [{| o_short := Some 0; o_err := true |}; {| o_short := None; o_err := true |}])
        [Stop; Write [x61; x62]; Tick; Stop; Tick; Stop] = [false; true; true; false; false; false].
Proof. split; vm_compute; reflexivity. Qed.
(* a sticky error: the flush fails once, every later Write fails, nothing more reaches the sink *)
Example C12_example_sticky :
  snd (run (init 4 [{| o_short := Some 1; o_err := true |}]) [Write [x61; x62; x63]; Write [x64; x65]; Write [x66]; Sync]) =
  [ (RW 3 0, []); (RW 0 1, [EW [x61; x62; x63] 1]); (RW 0 1, []); (RS 1, [ES]) ].
Proof. vm_compute. reflexivity. Qed.
(* the deadlocking schedule of the lock-holding variant completes under the repaired shape *)
Example C12_example_live : crun true stuck_progs stuck_sched = stuck_state /\
  all_done (crun false stuck_progs (stuck_sched ++ [MT 0; MLoop; MLoop; MStopSel; MT 0; MT 0; MT 0; MT 0])) = true.
Proof. split; [exact stuck_reached|exact stuck_sched_fine]. Qed.

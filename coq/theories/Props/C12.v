(* C12 — stub: no theorems yet *)
From Zap Require Import Base.Wire C12.Model C12.Proofs.

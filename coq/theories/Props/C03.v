(* C03 — stub: no theorems yet *)
From Zap Require Import Base.Wire C03.Model C03.Proofs.

(* C03 — Field constructors and zap.Any deliver exactly the value they were given.
   Only statements closed by [exact]; the proofs are in C03/Arith.v, C03/Proofs.v, C03/Theorems.v.
   [T] is the table set regenerated from the source on every run (Gen/Constructors.v, Gen/AddTo.v,
   Gen/AnyTable.v); [construct], [addto], [equals], [any_lookup] are the semantics of those tables
   (C03/Lang.v); [expected], [spec_any], [payload_self] are the specification (C03/Model.v).
   Ambient state: [construct] and [addto] take the identity of the location the process-global
   variable time.Local points to WHILE THEY RUN ([la]: while a Field is built, [lb]: while it is
   encoded).  The two moments are different moments and time.Local is assignable, so the theorems
   quantify over [la] and [lb] independently. *)
From Coq Require Import List ZArith Bool String.
From Coq.Strings Require Import Byte.
Import ListNotations.
From Zap Require Import Base.Wire C03.Lang C03.Arith C03.Model C03.Proofs C03.Theorems C03.Effects.
Local Open Scope Z_scope.

(* The low-bits theorem.  A chain of integer conversions T0 -> T1 -> ... -> Tn -> T0' (T0' of the
   width and signedness of T0) is the identity on every value of T0 IFF every intermediate width
   is at least the width of T0 (same-width signed/unsigned reinterpretations included). *)
Theorem C03_lowbits : forall t0 t0' ch, same_sw t0 t0' = true ->
  (chain_ok t0 ch = true <-> forall z, in_num t0 z -> run_chain (ch ++ [t0']) z = z).
Proof. exact lowbits. Qed.
Print Assumptions C03_lowbits.

(* The reflective checker of the integer packings accepts the regenerated table, and what it
   guarantees: for every integer struct-literal constructor, packing the value into Field.Integer
   (an int64) and unpacking it in AddTo's arm gives the value back, for every value of the type. *)
Theorem C03_roundtrip_ok : roundtrip_ok = true.
Proof. exact roundtrip_ok_true. Qed.
Print Assumptions C03_roundtrip_ok.
Theorem C03_roundtrip_ok_sound : roundtrip_ok = true ->
  forall c n ft ie m ue, In c (t_ctors T) ->
    c_param c = TNum n -> c_body c = BLit ft KKey (Some ie) None None ->
    assoc ft (t_arms T) = Some (ACall m (Some ue)) ->
    forall la lb stack z, in_num n z ->
    exists iz, eval (env0 la (VI z) stack) ie = Some (VI iz) /\ in_numb NInt64 iz = true /\
               forall k s x, eval (fenv lb {| f_ty := 0; f_key := k; f_int := iz; f_str := s; f_ifc := x |} VNil) ue = Some (VI z).
Proof. exact roundtrip_ok_sound. Qed.
Print Assumptions C03_roundtrip_ok_sound.

(* Every constructor of the generated table (exported or helper, scalar, pointer, slice, generic,
   zapfield), every key, every value of its parameter type -- every integer of each width, every
   float/complex bit pattern (NaN payloads, -0), every instant and location, nil/non-nil pointers,
   nil/empty/non-empty slices, nil errors, arbitrary user payloads: the Field is built, AddTo does
   not panic, and the encoder receives exactly the specified delivery of that value: the value
   itself under the method class of its type; a nil pointer as an explicit null; a nil error as
   nothing; a slice as the array of its elements in order (nil errors skipped) -- and this for EVERY
   pair of ambient states [la] (time.Local while the Field is built) and [lb] (time.Local while it
   is encoded): what the encoder receives is a function of the original value alone ([expected]
   of a non-Dict constructor does not look at [lb]). *)
Theorem C03_roundtrip : forall c, In c (t_ctors T) -> is_dict c = false ->
  forall la lb stack k v, in_typeb (c_param c) v = true ->
  exists f cs, construct T ctor_fuel la stack (c_name c) k v = Some f /\
               addto T (addto_fuel v) lb f = Some cs /\
               expected lb stack (c_name c) (c_param c) k v = Some (norm_calls cs).
Proof. exact roundtrip_thm. Qed.
Print Assumptions C03_roundtrip.

(* [expected] of a constructor other than Dict ignores the ambient state altogether *)
Theorem C03_expected_ambient_free : forall c, is_dict c = false ->
  forall lb lb' stack k v, expected lb stack (c_name c) (c_param c) k v = expected lb' stack (c_name c) (c_param c) k v.
Proof. exact expected_amb_free. Qed.
Print Assumptions C03_expected_ambient_free.

(* A constructor reads nothing from the process: for every constructor (Dict included) and every
   value, the Field is the same whatever time.Local points to while the constructor runs.  (A
   constructor that records "this time is in the local zone" instead of the zone itself, leaving
   AddTo to look the zone up again later, is refuted here and in C03_roundtrip.) *)
Theorem C03_construct_ambient_free : forall c, In c (t_ctors T) ->
  forall la la' stack k v, in_typeb (c_param c) v = true ->
  construct T ctor_fuel la stack (c_name c) k v = construct T ctor_fuel la' stack (c_name c) k v.
Proof. exact construct_amb. Qed.
Print Assumptions C03_construct_ambient_free.

(* ObjectValues (the generic constructor whose marshal method is on *T): for EVERY slice -- any
   identity (aliasing windows into a larger array included), any length, any elements -- the array
   encoder is handed, in order, the ADDRESS OF THE CALLER'S OWN ELEMENT i ([VRef a i x]: element i of
   the slice with identity a), never the address of a copy ([VPtr y], any y): what an encoder that
   keeps the marshaler sees later, and what a marshal method that updates its receiver updates, is
   the caller's element.  (C03_roundtrip states the same through [expected]; this is the direct form.) *)
Theorem C03_object_values_identity : forall la lb stack k a l,
  exists f, construct T ctor_fuel la stack ($"ObjectValues") k (VSlice a l) = Some f /\
            addto T (addto_fuel (VSlice a l)) lb f = Some [(($"AddArray"), k, VCalls (refs_from ($"AppendObject") a 0 l))].
Proof. exact object_values_thm. Qed.
Print Assumptions C03_object_values_identity.

(* Errors (and, by C03_any, zap.Any on a []error): for EVERY slice of errors -- nil elements, plain
   errors, fmt.Formatter errors with a %+v form of their own, error groups of any depth, nil pointers
   whose Error method cannot be called, Error methods that panic -- the array encoder receives, in
   order, nothing for a nil element and otherwise one object holding EXACTLY the calls that
   zap.Error(errs[i]) makes for that very element ([as_error]): the same representation as the typed
   constructor of the element, errorVerbose / errorCauses / "<nil>" included.  (C03_roundtrip states
   the delivery through [expected]; this is the direct, relational form.) *)
Theorem C03_errors_elementwise : forall la lb stack k a l, forallb (in_typeb (TIface IError)) l = true ->
  exists f cs, construct T ctor_fuel la stack ($"Errors") k (VSlice a l) = Some f /\
               error_elems la lb l = Some cs /\
               addto T (addto_fuel (VSlice a l)) lb f = Some [(($"AddArray"), k, VCalls cs)].
Proof. exact errors_thm. Qed.
Print Assumptions C03_errors_elementwise.

(* What encodeError does with an error is, for EVERY error (any message, Formatter or not, groups of
   any depth with nil / nil-pointer / panicking members anywhere) and every key, the specified
   delivery of that error ([exp_err], written against what the error exposes), failure included. *)
Theorem C03_error_delivery : forall e k,
  exp_err k e = (norm_calls (fst (enc_error k e)), snd (enc_error k e)).
Proof. exact norm_enc_error. Qed.
Print Assumptions C03_error_delivery.

(* Dict / dictField: an object holding, in order, what each member adds; panics iff a member does *)
Theorem C03_dict : forall nm, nm = $"Dict" \/ nm = $"dictField" -> forall la lb stack k a l,
  construct T ctor_fuel la stack nm k (VSlice a l) = Some (dict_field k (VSlice a l)) /\
  option_map norm_calls (addto T (addto_fuel (VSlice a l)) lb (dict_field k (VSlice a l))) = exp_dict lb k (VSlice a l).
Proof. intros nm H la lb stack k a l. exact (conj (dict_construct nm H la stack k (VSlice a l)) (dict_addto lb k a l)). Qed.
Print Assumptions C03_dict.

(* Time: for EVERY instant (unbounded) and location the encoder receives the same instant in the
   same location -- no time-zone change --, whatever time.Local points to when the Field is built
   ([la]) and when it is encoded ([lb]), the value's own location being the then-local one or not;
   instants representable as int64 nanoseconds -- MinInt64 and MaxInt64 included -- travel as
   (UnixNano, Location), the location ALWAYS being carried in the Field; all others as the time.Time
   itself. *)
Theorem C03_time : forall la lb stack k t,
  match construct T ctor_fuel la stack ($"Time") k (VTime t) with
  | Some f =>
      addto T 2 lb f = Some [(($"AddTime"), k, VTime t)] /\
      (min_nano <= tinst t <= max_nano ->
         f = {| f_ty := 16; f_key := k; f_int := tinst t; f_str := []; f_ifc := VLoc (tloc t) |}) /\
      (~ (min_nano <= tinst t <= max_nano) ->
         f = {| f_ty := 17; f_key := k; f_int := 0; f_str := []; f_ifc := VTime t |})
  | None => False
  end.
Proof. exact time_thm. Qed.
Print Assumptions C03_time.

(* zap.Any: for every dynamic type (listed or not) and every set of implemented interfaces that
   agrees with the implements table on listed types, the type switch chooses the constructor the
   specification names: the typed constructor of the type if there is one, else Object, Array,
   NamedError, Stringer in that priority, else Reflect. *)
Theorem C03_any : forall ty impls, consistent ty (has impls) ->
  any_lookup (t_any T) ty impls = spec_any ty impls.
Proof. exact any_thm_list. Qed.
Print Assumptions C03_any.

(* ... and its order respects interface shadowing: the interface clauses are, in order,
   ObjectMarshaler, ArrayMarshaler, error, Stringer, and no concrete clause comes after a clause
   for an interface its type implements (time.Time, time.Duration and their pointers are Stringers) *)
Theorem C03_any_order :
  filter (fun e => is_iface (fst e)) (t_any T) =
    [(TIface IObjM, $"Object"); (TIface IArrM, $"Array"); (TIface IError, $"NamedError"); (TIface IStringer, $"Stringer")]
  /\ no_shadow (t_any T) [] = true.
Proof. exact (conj any_iface_order any_no_shadow). Qed.
Print Assumptions C03_any_order.

(* CONCURRENT CALLS.  Everything above is about a constructor that runs alone.  zap.Any and the
   constructors are called from many goroutines at once (every key/value pair of a SugaredLogger call
   goes through zap.Any), and they stay functions of their arguments there because of a fact about
   their source text, regenerated on every run (Gen/CtorEffects.v): what each of them -- the 78
   constructors, their helpers, zap.Any, the dispatch method anyFieldC[T].Any, everything they call or
   hand on as a function value ([effects_closedb]) -- touches outside its own frame.  [pure_ctorsb]: no
   such variable is ever written by them (assigned, incremented, address taken), and every one they
   read is frozen: a constant of another package (zapcore.XxxType) or a package-level variable that no
   code of the package writes and that is not exported (_minTimeInt64).  A dispatch variable, a scratch
   Field, a cache or a counter parked at package level breaks this theorem by name. *)
Theorem C03_constructors_pure : pure_ctorsb = true /\ effects_closedb = true.
Proof. exact (conj constructors_pure effects_closed). Qed.
Print Assumptions C03_constructors_pure.

(* What that buys, for EVERY set of threads and EVERY schedule.  A thread is a call of a tabulated
   function c whose accesses outside its frame are those listed for c ([Some c]; what it does inside
   its frame is arbitrary), or any other code of the process ([None]: reads what it likes, writes only
   variables that are not frozen).  Threads move one access at a time in the order [sched] says.
   Then at every moment of every interleaving, what a constructor call is going to return is what it
   returns when it runs alone from the initial state -- in particular the Field it has returned, once
   it has ([PRet r]): the Field the theorems above are about. *)
Theorem C03_schedule_free : forall (R V : Type) (ts : list (option name * prog R V)), Forall call_ok ts ->
  forall sched st j c p, nth_error ts j = Some (Some c, p) ->
  exists p', nth_error (snd (exec R V sched st (tagged ts))) j = Some (true, p') /\
             run R V (fst (exec R V sched st (tagged ts))) p' = run R V st p /\
             (forall r, p' = PRet r -> r = run R V st p).
Proof. exact (fun R V => @schedule_free R V). Qed.
Print Assumptions C03_schedule_free.

(* The hypothesis is not decoration.  zap.Any with its dispatch variable hoisted to package level
   ("so that it takes no space in Any's frame") is, alone, the same function; its footprint is
   {write c, read c}; and under the schedule 0 1 0 of two calls Any("k", int64(22864)), Any("k", uint64(7))
   the first returns a Uint64 field holding 0 -- anyFieldC[uint64].Any's lenient assertion swallows the
   type mismatch.  The shape the source has (a local) returns its own Field under the same schedule. *)
Example C03_example_hoisted_dispatch_interferes :
  let ts := [(true, any_hoisted (TNum NInt64) [] [x6b] (VI 22864)); (true, any_hoisted (TNum NUint64) [] [x6b] (VI 7))] in
  let st0 : store name := fun _ => [] in
  fp_within [(($"c"), AWrite); (($"c"), ARead)] (any_hoisted (TNum NInt64) [] [x6b] (VI 22864)) /\
  run _ _ st0 (any_hoisted (TNum NInt64) [] [x6b] (VI 22864)) = run _ _ st0 (any_local (TNum NInt64) [] [x6b] (VI 22864)) /\
  run _ _ st0 (any_local (TNum NInt64) [] [x6b] (VI 22864)) =
    Some {| f_ty := 11; f_key := [x6b]; f_int := 22864; f_str := []; f_ifc := VNil |} /\
  nth_error (snd (exec _ _ [0%nat; 1%nat; 0%nat] st0 ts)) 0 =
    Some (true, PRet (Some {| f_ty := 18; f_key := [x6b]; f_int := 0; f_str := []; f_ifc := VNil |})).
Proof.
  split; [apply any_hoisted_within|]. split; [apply any_hoisted_alone|]. vm_compute. split; reflexivity.
Qed.
Example C03_example_local_dispatch_within_empty_footprint :
  fp_within [] (any_local (TNum NInt64) [] [x6b] (VI 22864)) /\ In (($"Any"), []) eff.
Proof. split; [apply any_local_within|]. vm_compute. tauto. Qed.
Example C03_example_effects_obligation_discriminates :
  pure_tableb [(($"Any"), [(($"c"), AWrite); (($"c"), ARead)])] [$"c"] = false /\
  pure_tableb [(($"Time"), [(($"time.Local"), ARead)])] [] = false /\
  pure_tableb [(($"Time"), [(($"_minTimeInt64"), ARead); (($"zapcore.TimeType"), ARead)])] [$"c"] = true.
Proof. vm_compute. repeat split; reflexivity. Qed.

(* Fields built from the same input are the same Field and compare equal -- also when time.Local
   was re-pointed between the two constructor calls ([la] / [la']) *)
Theorem C03_equal_inputs : forall la la' stack c k v f g,
  built la stack c k v f -> built la' stack c k v g ->
  f = g /\ (payload_self (c_param c) v = true -> equals T f g = Some true).
Proof. exact equal_inputs_thm. Qed.
Print Assumptions C03_equal_inputs.

(* Field.Equals never panics on Fields built by the constructors (any two constructors, any values) *)
Theorem C03_equals_total : forall la1 la2 stack c1 k1 v1 f c2 k2 v2 g,
  built la1 stack c1 k1 v1 f -> built la2 stack c2 k2 v2 g -> equals T f g <> None.
Proof. exact equals_total_thm. Qed.
Print Assumptions C03_equals_total.

Theorem C03_equals_sym : forall la1 la2 stack c1 k1 v1 f c2 k2 v2 g,
  built la1 stack c1 k1 v1 f -> built la2 stack c2 k2 v2 g -> equals T f g = equals T g f.
Proof. exact equals_sym_thm. Qed.
Print Assumptions C03_equals_sym.

(* PARTIAL: reflexive whenever the payloads that Equals compares with reflect.DeepEqual equal
   themselves (guard [payload_self]: no NaN / func inside a value-kind user payload).  Outside the
   guard Equals is not reflexive: known finding "equals-deepequal-nonreflexive". *)
Theorem C03_equals_refl_partial : forall la stack c k v f,
  built la stack c k v f -> payload_self (c_param c) v = true -> equals T f f = Some true.
Proof. exact equals_refl_thm. Qed.
Print Assumptions C03_equals_refl_partial.

(* the guard cannot be dropped: Reflect("k", NaN) *)
Example C03_equals_refl_guard_needed :
  exists f, construct T ctor_fuel loc_local [] ($"Reflect") [x6b] (VF64 nan64) = Some f /\ equals T f f = Some false.
Proof. eexists. split. { vm_compute. reflexivity. } vm_compute. reflexivity. Qed.

(* The ORIGINAL Equals (before the two fix: commits), kept as documentation of the defects:
   it panicked on a Stringer / Inline payload of slice type, and a Complex128 field holding NaN
   was not equal to itself. *)
Theorem C03_equals_total_orig_refuted : ~ equals_total_orig.
Proof. exact equals_total_orig_refuted. Qed.
Print Assumptions C03_equals_total_orig_refuted.
Theorem C03_equals_refl_orig_refuted : ~ equals_refl_orig.
Proof. exact equals_refl_orig_refuted. Qed.
Print Assumptions C03_equals_refl_orig_refuted.

(* non-vacuity *)
Example C03_example_int32_min :
  option_map snd (deliver 1 1 [] ($"Int32") [x6b] (VI (-2147483648))) = Some [(($"AddInt32"), [x6b], VI (-2147483648))].
Proof. vm_compute. reflexivity. Qed.
Example C03_example_uint64_max :
  option_map snd (deliver 1 1 [] ($"Uint64") [x6b] (VI 18446744073709551615)) = Some [(($"AddUint64"), [x6b], VI 18446744073709551615)].
Proof. vm_compute. reflexivity. Qed.
Example C03_example_float_nan_payload :
  option_map snd (deliver 1 1 [] ($"Float64") [x6b] (VF64 0x7FF8DEADBEEF0001)) = Some [(($"AddFloat64"), [x6b], VF64 0x7FF8DEADBEEF0001)].
Proof. vm_compute. reflexivity. Qed.
Example C03_example_nil_pointer :
  option_map snd (deliver 1 1 [] ($"Int8p") [x6b] VNil) = Some [(($"AddReflected"), [x6b], VNil)].
Proof. vm_compute. reflexivity. Qed.
(* two elements with the same content are still delivered as two different addresses *)
Example C03_example_object_values_addresses :
  let o := VOpq {| oty := 5; oaddr := 0; ocontent := 2; ocmp := true; oself := true; ostr := []; oerr := eplain [] |} in
  option_map snd (deliver 1 1 [] ($"ObjectValues") [x6b] (VSlice 7 [o; o])) =
    Some [(($"AddArray"), [x6b], VCalls [(($"AppendObject"), [], VRef 7 0 o); (($"AppendObject"), [], VRef 7 1 o)])].
Proof. vm_compute. reflexivity. Qed.
Example C03_example_time_boundaries :
  option_map (fun r => f_ty (fst r)) (deliver 1 1 [] ($"Time") [] (VTime {| tinst := max_nano; tloc := 3 |})) = Some 16 /\
  option_map (fun r => f_ty (fst r)) (deliver 1 1 [] ($"Time") [] (VTime {| tinst := max_nano + 1; tloc := 3 |})) = Some 17 /\
  option_map (fun r => f_ty (fst r)) (deliver 1 1 [] ($"Time") [] (VTime {| tinst := min_nano; tloc := 0 |})) = Some 16 /\
  option_map (fun r => f_ty (fst r)) (deliver 1 1 [] ($"Time") [] (VTime {| tinst := min_nano - 1; tloc := 0 |})) = Some 17.
Proof. vm_compute. repeat split; reflexivity. Qed.
Example C03_example_any_duration_is_not_a_stringer_case :
  any_lookup (t_any T) (TNum NDuration) [IStringer] = $"Duration".
Proof. vm_compute. reflexivity. Qed.
Example C03_example_wf :
  wf (SL [SZ 0; SB ($"Int32"); SB [x6b]; SL [SZ 0; SZ (-7)]; SB []; SL [SZ 1; SZ 1]]) = true.
Proof. vm_compute. reflexivity. Qed.
(* the ambient state is not decoration.  A local time (location 7 = what time.Local points to while
   the Field is built) is encoded after time.Local has been re-pointed to location 0 (UTC): the
   encoder still receives it in location 7, because the Field carries the location ... *)
Example C03_example_time_zone_survives_relocation :
  deliver 7 0 [] ($"Time") [x6b] (VTime {| tinst := 1700000000123456789; tloc := 7 |}) =
    Some ({| f_ty := 16; f_key := [x6b]; f_int := 1700000000123456789; f_str := []; f_ifc := VLoc 7 |},
          [(($"AddTime"), [x6b], VTime {| tinst := 1700000000123456789; tloc := 7 |})]).
Proof. vm_compute. reflexivity. Qed.
(* ... whereas a Field that does NOT carry it (Interface nil: no constructor builds one, C03_time)
   is delivered in whatever zone is local at the moment of encoding: the model can tell the two
   apart, so C03_roundtrip / C03_time / C03_construct_ambient_free are not vacuous in [la], [lb] *)
Example C03_example_ambient_matters :
  let f := {| f_ty := 16; f_key := [x6b]; f_int := 5; f_str := []; f_ifc := VNil |} in
  addto T 2 7 f = Some [(($"AddTime"), [x6b], VTime {| tinst := 5; tloc := 7 |})] /\
  addto T 2 0 f = Some [(($"AddTime"), [x6b], VTime {| tinst := 5; tloc := 0 |})].
Proof. vm_compute. split; reflexivity. Qed.
Example C03_example_wf_ambient :
  wf (SL [SZ 0; SB ($"Time"); SB [x6b]; SL [SZ 8; SZ 1700000000123456789; SZ 7]; SB []; SL [SZ 7; SZ 0]]) = true.
Proof. vm_compute. reflexivity. Qed.

(* errors carry more than Error(): a fmt.Formatter element of zap.Errors keeps its %+v form ... *)
Definition rich_err : val :=
  VOpq {| oty := 30; oaddr := 0; ocontent := 2; ocmp := true; oself := true; ostr := [];
          oerr := EMsg ($"rich") (Some ($"rich+stack")) None |}.
Example C03_example_errors_keeps_verbose :
  option_map snd (deliver 1 1 [] ($"Errors") [x6b] (VSlice 7 [VNil; rich_err])) =
    Some [(($"AddArray"), [x6b], VCalls [(($"AppendObject"), [], VCalls
            [(($"AddString"), ($"error"), VStr ($"rich")); (($"AddString"), ($"errorVerbose"), VStr ($"rich+stack"))])])].
Proof. vm_compute. reflexivity. Qed.
(* ... a group its members (nil members skipped, a nil pointer as "<nil>", members of members) ... *)
Example C03_example_error_group :
  error_calls [x6b] (EMsg ($"2 errors") (Some ($"verbose")) (Some [Some (eplain ($"a")); None; Some ENilPanic;
                                                                 Some (EMsg ($"g") None (Some []))])) =
    [(($"AddString"), [x6b], VStr ($"2 errors"));
     (($"AddArray"), ($"kCauses"), VCalls [
        (($"AppendObject"), [], VCalls [(($"AddString"), ($"error"), VStr ($"a"))]);
        (($"AppendObject"), [], VCalls [(($"AddString"), ($"error"), VStr ($"<nil>"))]);
        (($"AppendObject"), [], VCalls [(($"AddString"), ($"error"), VStr ($"g")); (($"AddArray"), ($"errorCauses"), VCalls [])])])].
Proof. vm_compute. reflexivity. Qed.
(* ... and an encoder that is handed something that merely forwards Error() (same message, nothing
   else) is told apart by the oracle: the case is well-formed and the observation is rejected *)
Example C03_example_forwarding_wrapper_rejected :
  let i := SL [SZ 0; SB ($"Errors"); SB [x6b]; sx_of_val (VSlice 7 [rich_err]); SB []; SL [SZ 1; SZ 1]] in
  let forwarded := [(($"AddArray"), [x6b], VCalls [(($"AppendObject"), [], VCalls [(($"AddString"), ($"error"), VStr ($"rich"))])])] in
  wf i = true /\ spec i (SL [SZ 0; sx_of_calls forwarded]) = false /\ spec i (model i) = true.
Proof. vm_compute. repeat split; reflexivity. Qed.

(* wire-level link: on every well-formed case the oracle the driver runs accepts what the model
   observes *)
Theorem C03_wire : forall i, wf i = true -> spec i (model i) = true.
Proof. exact wire_thm. Qed.
Print Assumptions C03_wire.

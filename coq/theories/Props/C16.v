(* C16 — stub: no theorems yet *)
From Zap Require Import Base.Wire C16.Model C16.Proofs.

(* C16 — console encoder lines have the documented shape with a valid JSON context. Statements only. *)
From Coq Require Import List ZArith Bool.
From Coq.Strings Require Import Byte.
Import ListNotations.
From Zap Require Import Base.Wire Enc.Bytes Enc.Fields Enc.JsonEnc Enc.JsonParse Enc.WireEnc Enc.JsonAst Enc.Wf Enc.Console
  Enc.Parse3 Enc.Parse4 Enc.ConsoleProof C16.Model C16.Conc C16.ConcProofs C16.Proofs.

(* The console encoder (columns collected in a slice encoder, "separator only if the line is
   non-empty", context rendered by a spaced JSON encoder clone with namespaces closed) produces
   exactly: the present columns in the order time, level, name, caller, function joined by the
   separator; the message if its key is set; if any field member exists, the separator and ONE JSON
   object holding the context and call-site fields; the stack on the following lines; the line
   ending - for every configuration (2^7 key patterns, any separator, nil/no-op/built-in
   sub-encoders), With-chain, entry and field tree. *)
Theorem C16_shape : forall c ctxs ent fs, forallb wf_flds ctxs = true -> wf_flds fs = true ->
  console_encode c (with_chain c true ctxs) ent fs = console_spec c ctxs ent fs.
Proof. exact console_shape. Qed.
Print Assumptions C16_shape.

(* the context object is valid JSON and decodes to the same members, in the same order, as the compact
   form the JSON encoder emits for the same fields *)
Theorem C16_ctx_same : forall v, tpre v -> parse (pv true v) = Some (jv_of v) /\ parse (pv false v) = Some (jv_of v).
Proof. exact context_same. Qed.
Print Assumptions C16_ctx_same.
Theorem C16_ctx_members : forall c, q_layout_escaped c = true -> forall ctxs fs,
  forallb wf_flds ctxs = true -> wf_flds fs = true ->
  tpre (TObj (close (ev_flds c fs (ev_with_chain c ctxs)))).
Proof. exact ctx_members. Qed.
Print Assumptions C16_ctx_members.

(* ---- concurrent use ----
   EncodeEntry is called without a lock, and every call borrows its column collector from a process-wide pool.
   In the machine of C16/Conc.v (collectors are heap objects passed by reference through the pool; a call is a
   sequence of atomic steps; the schedule decides who moves next AND which pooled collector a Get returns)
   the line of a finished call is the sequential model's line of ITS OWN (configuration, context, entry,
   fields) - for every assignment of calls to goroutines, every number of goroutines and every schedule: no
   interleaved other encode can change it. *)
Theorem C16_interleaving_independent : forall (jobs : nat -> job) (sched : list (nat * nat)) (t : nat) (out : bytes),
  pcs (run jobs true sched init) t = PDone out ->
  out = console_encode (j_cfg (jobs t)) (j_ctx (jobs t)) (j_ent (jobs t)) (j_fs (jobs t)).
Proof. exact conc_safe. Qed.
Print Assumptions C16_interleaving_independent.

(* hence the line is a FUNCTION of the call alone: equal calls, made by any goroutines in any two runs with
   any other traffic, return equal bytes *)
Theorem C16_line_function : forall jobs1 jobs2 sched1 sched2 t1 t2 out1 out2,
  jobs1 t1 = jobs2 t2 ->
  pcs (run jobs1 true sched1 init) t1 = PDone out1 ->
  pcs (run jobs2 true sched2 init) t2 = PDone out2 ->
  out1 = out2.
Proof. exact line_function. Qed.
Print Assumptions C16_line_function.

(* not vacuous: after any schedule, every call can be run to completion *)
Theorem C16_conc_completes : forall jobs rf sched t,
  exists more out, pcs (run jobs rf (sched ++ more) init) t = PDone out.
Proof. exact conc_completes. Qed.
Print Assumptions C16_conc_completes.

(* and not true by construction: with the two statements of putSliceEncoder swapped (the collector is
   published before it is truncated) a schedule exists under which a call returns another entry's columns *)
Theorem C16_publish_before_reset_refuted :
  exists jobs sched t out, pcs (run jobs false sched init) t = PDone out /\ bytes_eqb out (job_line (jobs t)) = false.
Proof. exact publish_before_reset_refuted. Qed.
Print Assumptions C16_publish_before_reset_refuted.

(* the rows of the harness's concurrent phase are judged by the same oracle: a line produced for wire case i
   under any schedule is accepted by spec i *)
Theorem C16_conc_wire : forall jobs sched t out i, wf i = true -> jobs t = case_job i ->
  pcs (run jobs true sched init) t = PDone out -> spec i (SL [SB out]) = true.
Proof. exact conc_wire_spec. Qed.
Print Assumptions C16_conc_wire.

Theorem C16_wire : forall i, wf i = true -> spec i (model i) = true.
Proof. exact wire_thm. Qed.
Print Assumptions C16_wire.

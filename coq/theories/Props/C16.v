(* C16 — console encoder lines have the documented shape with a valid JSON context. Statements only. *)
From Coq Require Import List ZArith Bool.
From Coq.Strings Require Import Byte.
Import ListNotations.
From Zap Require Import Base.Wire Enc.Bytes Enc.Fields Enc.JsonEnc Enc.JsonParse Enc.WireEnc Enc.JsonAst Enc.Wf Enc.Console
  Enc.Parse3 Enc.Parse4 Enc.ConsoleProof C16.Model C16.Proofs.

(* The console encoder (columns collected in a slice encoder, "separator only if the line is
   non-empty", context rendered by a spaced JSON encoder clone with namespaces closed) produces
   exactly: the present columns in the order time, level, name, caller, function joined by the
   separator; the message if its key is set; if any field member exists, the separator and ONE JSON
   object holding the context and call-site fields; the stack on the following lines; the line
   ending - for every configuration (2^7 key patterns, any separator, nil/no-op/built-in
   sub-encoders), With-chain, entry and field tree. *)
Theorem C16_shape : forall c ctxs ent fs, forallb wf_flds ctxs = true -> wf_flds fs = true ->
  console_encode c (with_chain c true ctxs) ent fs = console_spec c ctxs ent fs.
Proof. exact console_shape. Qed.
Print Assumptions C16_shape.

(* the context object is valid JSON and decodes to the same members, in the same order, as the compact
   form the JSON encoder emits for the same fields *)
Theorem C16_ctx_same : forall v, tpre v -> parse (pv true v) = Some (jv_of v) /\ parse (pv false v) = Some (jv_of v).
Proof. exact context_same. Qed.
Print Assumptions C16_ctx_same.
Theorem C16_ctx_members : forall c, q_layout_escaped c = true -> forall ctxs fs,
  forallb wf_flds ctxs = true -> wf_flds fs = true ->
  tpre (TObj (close (ev_flds c fs (ev_with_chain c ctxs)))).
Proof. exact ctx_members. Qed.
Print Assumptions C16_ctx_members.

Theorem C16_wire : forall i, wf i = true -> spec i (model i) = true.
Proof. exact wire_thm. Qed.
Print Assumptions C16_wire.

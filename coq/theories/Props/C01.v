(* C01 — the JSON encoder always emits one well-formed JSON object per entry, on one line.
   Statements only; proofs in Enc/Refine*.v, Enc/Parse*.v, C01/Proofs.v. *)
From Coq Require Import List ZArith Bool.
From Coq.Strings Require Import Byte.
Import ListNotations.
From Zap Require Import Base.Wire Enc.Bytes Enc.Fields Enc.JsonEnc Enc.JsonParse Enc.WireEnc Enc.JsonAst Enc.Wf
  Enc.Refine5 Enc.Parse1 Enc.Parse3 Enc.Parse4 C01.Model C01.Proofs.

(* The byte-level encoder — separator logic driven by the LAST BYTE written,
   namespaces as a counter saved/zeroed/restored around nested objects — prints
   exactly the tree-level entry, for every EncoderConfig (any keys, nil / no-op /
   built-in sub-encoders, any line ending), every With-chain, every entry and every
   field tree (any nesting of objects, arrays, inline marshalers, namespaces left
   open at any depth, marshaler errors, Stringer/error panics, reflection failures). *)
Theorem C01_refines : forall c ctxs ent fs,
  q_nil_caller_guard c = true -> forallb wf_flds ctxs = true -> wf_flds fs = true -> wf_entry ent = true ->
  encode_entry c false (with_chain c false ctxs) ent fs =
    Some (pv false (TObj (entry_members c ctxs ent fs)) ++ resolved_le c).
Proof. exact json_refines. Qed.
Print Assumptions C01_refines.

(* ... and that output is exactly one syntactically valid JSON object (the RFC 8259
   parser of Enc/JsonParse.v accepts it and returns an object), contains no byte
   below 0x20, and is followed by the configured line ending.  The only hypotheses
   are the executable monitors [wf_*] (Enc/Wf.v), evaluated by the driver on every case:
   every finite float text of strconv is one JSON number, every reflected text of
   encoding/json parses as one JSON value without control bytes.  (Enc/Parse5.v: the
   parser is stable under more fuel and under a delimited suffix, so the stand-alone
   check implies the in-context fact.) *)
Theorem C01_wellformed : forall c ctxs ent fs,
  q_nil_caller_guard c = true -> q_layout_escaped c = true ->
  forallb wf_flds ctxs = true -> wf_flds fs = true -> wf_entry ent = true ->
  exists out,
    encode_entry c false (with_chain c false ctxs) ent fs = Some out /\
    line_obj (resolved_le c) out = Some (jv_mem (entry_members c ctxs ent fs)).
Proof. exact entry_valid_wf. Qed.
Print Assumptions C01_wellformed.

(* one line: with the default line ending the output holds exactly one line break, at its end *)
Theorem C01_no_control_bytes : forall sp v, tpre v -> no_ctl (pv sp v) = true.
Proof. exact tree_no_ctl. Qed.
Print Assumptions C01_no_control_bytes.

(* string escaping: whatever the bytes (invalid UTF-8, quotes, controls), the escaped
   form is read back as the original with each invalid byte replaced by U+FFFD *)
Theorem C01_escape_roundtrip : forall s X f, length (escape s) < f ->
  p_string f (escape s ++ QUOTE :: X) [] = Some (sanitize s, X).
Proof. exact string_roundtrip. Qed.
Print Assumptions C01_escape_roundtrip.

(* the two repaired defects, as statements about the pre-fix behaviour of the model *)
Theorem C01_layout_orig_refuted :
  exists out, line_of (cfg0 false true SActive) (ent0 false) = Some out /\ line_ok [NL] out = false.
Proof. exact layout_orig_refuted. Qed.
Print Assumptions C01_layout_orig_refuted.
Theorem C01_nilcaller_orig_refuted : line_of (cfg0 true false SNil) (ent0 true) = None.
Proof. exact nilcaller_orig_refuted. Qed.
Print Assumptions C01_nilcaller_orig_refuted.

(* wire level: the oracle the driver runs accepts what the model observes *)
Theorem C01_wire : forall i, wf i = true -> spec i (model i) = true.
Proof. exact wire_thm. Qed.
Print Assumptions C01_wire.

(* non-vacuity: the fixed configurations satisfy the hypotheses and give valid lines *)
Example C01_example_layout :
  exists out, line_of (cfg0 true true SActive) (ent0 false) = Some out /\ line_ok [NL] out = true.
Proof. exact layout_fixed_ok. Qed.
Example C01_example_nilcaller :
  exists out, line_of (cfg0 true true SNil) (ent0 true) = Some out /\ line_ok [NL] out = true.
Proof. exact nilcaller_fixed_ok. Qed.

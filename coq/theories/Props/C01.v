(* C01 — stub: no theorems yet *)
From Zap Require Import Base.Wire C01.Model C01.Proofs.

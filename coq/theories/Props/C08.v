(* C08 — stub: no theorems yet *)
From Zap Require Import Base.Wire C08.Model C08.Proofs.

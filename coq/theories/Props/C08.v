(* C08 — output is independent of logging history and of pooled-object reuse.
   Only statements closed by [exact]; the proofs are in C08/{Hygiene,Safe,Proofs,Facts}.v. *)
From Coq Require Import List ZArith Bool String.
From Coq.Strings Require Import Byte.
Import ListNotations.
From Zap Require Import Base.Wire Enc.Bytes Enc.Fields.
From Zap Require Import C08.Hygiene Gen.PoolFacts C08.Model C08.Safe C08.Proofs C08.Facts.

(* ---- hygiene of the facts regenerated from zap's source on every run ---- *)

(* for every pooled struct, every field is assigned between Get and hand-over - the same way on
   every path, never depending on the state the recycled object was left in (k <> KDep) -, or is
   cleared before Put (and New() leaves it visibly empty too), or is the one declared capacity field
   (Stack.storage) *)
Theorem C08_hygiene : forall s, In s pool_facts -> forall f, In f (ps_fields s) ->
  (exists k, lookup f (ps_acquire s) = Some k /\ k <> KDep) \/
  ((lookup f (ps_release s) = Some KZero \/ lookup f (ps_release s) = Some KTrunc) /\ new_visible_empty s f = true) \/
  In f (capacity (ps_name s)).
Proof. exact hygiene_fields. Qed.
Print Assumptions C08_hygiene.

(* soundness of the hygiene check, for ANY struct facts: an object that went round the pool any
   number of times through arbitrary users is, after the acquire assignments, field for field
   what a New() object is after the same assignments *)
Theorem C08_hygiene_sound : forall cap s, hygienic cap s = true ->
  forall o, pooled s o -> forall inp f, In f (ps_fields s) -> ~ In f cap ->
  g_acquire s inp o f = g_acquire s inp (g_new s) f.
Proof. exact hygiene_sound. Qed.
Print Assumptions C08_hygiene_sound.

(* ... and the check is not vacuous: a field neither assigned on acquire (on every path alike) nor
   cleared on release makes two pool histories distinguishable *)
Theorem C08_unhygienic_leaks : forall s f,
  acq_kind s f = None -> lookup f (ps_release s) = None ->
  exists o, pooled s o /\ forall inp, g_acquire s inp o f <> g_acquire s inp (g_new s) f.
Proof. exact unhygienic_leaks. Qed.
Print Assumptions C08_unhygienic_leaks.

(* every path through every Get, and every path to every Put, of the regenerated facts leaves each
   field in one and the same state: no branch on the recycled object's own state (its capacity, its
   length, a flag the previous user left) decides WHETHER or HOW a field is reset *)
Theorem C08_get_paths_agree : forall s, In s pool_facts -> forall f,
  lookup f (ps_acquire s) <> Some KDep /\ lookup f (ps_release s) <> Some KDep.
Proof. exact path_independent_fields. Qed.
Print Assumptions C08_get_paths_agree.

(* ... which matters: a Get that assigns a field on every path, but differently on paths selected by
   the recycled object (buffer.Pool.Get with "if cap(buf.bs) > max { buf.bs = make([]byte, n) } else
   { buf.Reset() }"), on a struct that is not cleared before its Put, fails the hygiene check and
   makes two pool histories distinguishable *)
Theorem C08_path_dependent_acquire_leaks : forall s f,
  lookup f (ps_acquire s) = Some KDep -> lookup f (ps_release s) = None ->
  field_ok [] s f = false /\
  exists o, pooled s o /\ forall inp, g_acquire s inp o f <> g_acquire s inp (g_new s) f.
Proof. exact path_dependent_acquire_leaks. Qed.
Print Assumptions C08_path_dependent_acquire_leaks.

(* the "reset on Get" mechanisms, as regenerated: on every path buffer.Pool.Get truncates the buffer
   and getCheckedEntry resets every field of the entry *)
Theorem C08_get_resets :
  lookup "bs" (ps_acquire (facts PBuf)) = Some KTrunc /\
  map (fun f => lookup f (ps_acquire (facts PCE))) ["Entry"; "ErrorOutput"; "dirty"; "after"; "cores"] =
  [Some KZero; Some KZero; Some KZero; Some KZero; Some KTrunc].
Proof. exact (conj buffer_get_resets checked_entry_get_resets). Qed.
Print Assumptions C08_get_resets.

(* the model's New / acquire / release code is, field by field, what the generated facts say *)
Theorem C08_model_matches_facts : forall p,
  (forall i f, In f (ps_fields (facts p)) -> gproj p (alloc p i) f = g_new (facts p) f) /\
  (forall a o f, input_ok p a -> clean p o -> In f (ps_fields (facts p)) -> ~ In f (capacity (pname p)) ->
     gproj p (m_acquire p a o) f = g_acquire (facts p) (gproj p (m_acquire p a (alloc p 0))) (gproj p o) f) /\
  (forall o f, In f (ps_fields (facts p)) -> gproj p (m_release p o) f = g_release (facts p) (gproj p o) f).
Proof. exact model_matches_facts. Qed.
Print Assumptions C08_model_matches_facts.

(* the pool invariant used below is exactly the conclusion of the hygiene theorem *)
Theorem C08_clean_is_hygiene : forall p o, clean p o <-> (clean_by_facts p o /\ cap_ok p o).
Proof. exact clean_iff_facts. Qed.
Print Assumptions C08_clean_is_hygiene.

(* in every function of zap that holds a pooled buffer - or a CheckedEntry, pooled encoder, slice
   encoder, error wrapper or stack from its Get to its Put - (regenerated event order): once freed /
   put back the object is never used, freed or returned again (CheckedEntry.Write: the cores, the error
   output and the CheckWriteHook, which is handed the entry itself, all come before putCheckedEntry),
   and a buffer that is not freed is returned *)
Theorem C08_ownership_facts : forall f, In f own_facts ->
  (forall pre post, of_events f = (pre ++ BFree :: post)%list ->
     ~ In BUse post /\ ~ In BFree post /\ ~ In BRet post) /\
  (In BFree (of_events f) \/ In BRet (of_events f)).
Proof. exact own_discipline. Qed.
Print Assumptions C08_ownership_facts.

(* the functions that hold a pooled object are not a hand-written list alone: every function of zapcore
   that calls getSliceEncoder / putSliceEncoder (regenerated census) is one of the functions whose event
   order is checked above (its Put follows its last use), takes and returns exactly one collector, and
   stores no reference to the collector's elems in anything that outlives the Put (no occurrence of
   x.elems other than x.elems[i], range x.elems, len / cap) - a temporary collector for NESTED arrays that
   is taken from the pool and put back while the outer collector still refers to its storage is rejected *)
Theorem C08_pool_holders : forall h, In h pool_holders ->
  (exists f, In f own_facts /\ of_fn f = (ph_fn h ++ "/" ++ ph_var h)%string /\ disc_ok (of_events f) = true) /\
  ph_gets h = 1 /\ ph_puts h = 1 /\ ph_escapes h = [].
Proof. exact pool_holders_known. Qed.
Print Assumptions C08_pool_holders.

Theorem C08_pool_holder_escape_rejected : forall owned h e r, ph_escapes h = e :: r -> holder_ok owned h = false.
Proof. exact holder_escape_rejected. Qed.
Print Assumptions C08_pool_holder_escape_rejected.

Theorem C08_pool_holder_unknown_rejected : forall owned h,
  ~ In (ph_fn h ++ "/" ++ ph_var h)%string owned -> holder_ok owned h = false.
Proof. exact holder_unknown_rejected. Qed.
Print Assumptions C08_pool_holder_unknown_rejected.

(* ---- state shared by a whole logger family (not pooled: reached through a copied pointer) ---- *)

(* clone() copies the pointer to the EncoderConfig, so a logger's long-lived encoder, the per-call clone
   EncodeEntry works on and every encoder derived through With / Named / Clone look at ONE configuration
   (EncodeLevel, EncodeTime, EncodeDuration, EncodeCaller, EncodeName, NewReflectedEncoder, LineEnding,
   ConsoleSeparator, the keys), and EncodeEntry / Clone / writeContext run on the long-lived encoder
   itself.  Regenerated from the source on every run: no method of jsonEncoder / consoleEncoder (nor
   putJSONEncoder, addFields) assigns through that pointer or hands it on, and the methods that run on
   the long-lived encoder neither assign to their receiver, nor call a method that mutates it, nor hand
   it on *)
Theorem C08_shared_state_readonly : forall f, In f shared_facts -> sf_cfg_writes f = [] /\ sf_recv_writes f = [].
Proof. exact shared_no_writes. Qed.
Print Assumptions C08_shared_state_readonly.

(* ... where the methods that run on the long-lived encoder are exactly these, and the fallback paths
   (EncodeEntry for a level / name / caller callback that appends nothing, AppendTime, AppendDuration)
   are among the listed functions *)
Theorem C08_shared_entry_points :
  map sf_fn (filter sf_entry shared_facts) =
  ["consoleEncoder.Clone"; "consoleEncoder.EncodeEntry"; "consoleEncoder.addSeparatorIfNecessary";
   "consoleEncoder.writeContext"; "jsonEncoder.Clone"; "jsonEncoder.EncodeEntry"; "jsonEncoder.clone"]%string /\
  forallb (fun n => existsb (String.eqb n) (map sf_fn shared_facts))
          ["jsonEncoder.EncodeEntry"; "jsonEncoder.AppendTime"; "jsonEncoder.AppendDuration"; "jsonEncoder.AddReflected";
           "jsonEncoder.AppendReflected"; "putJSONEncoder"; "addFields"]%string = true.
Proof. exact (conj shared_entry_points shared_fallback_paths_listed). Qed.
Print Assumptions C08_shared_entry_points.

(* soundness of that check, for any facts and any semantics of the listed functions that assigns to
   family-wide state only where its facts say the source does: after any history of calls by any
   members of the family the shared state is what the constructor left, and the output of a call is
   the same after any two histories *)
Theorem C08_shared_sound : forall (V I O : Type) facts, shared_readonly facts = true ->
  forall (h1 h2 : list (path V I O * I)),
  Forall (fun pi => conforms facts (fst pi)) h1 -> Forall (fun pi => conforms facts (fst pi)) h2 ->
  forall s, frun h1 s = s /\ forall p i, fobserve h1 s p i = fobserve h2 s p i.
Proof. exact shared_sound_both. Qed.
Print Assumptions C08_shared_sound.

(* ... instantiated with the regenerated facts: the bytes of a call do not depend on what the logger,
   its With / Named children, its siblings or clones of its encoder encoded before *)
Theorem C08_family_history_independent : forall (V I O : Type) (h1 h2 : list (path V I O * I)),
  Forall (fun pi => conforms shared_facts (fst pi)) h1 ->
  Forall (fun pi => conforms shared_facts (fst pi)) h2 ->
  forall s p i, fobserve h1 s p i = fobserve h2 s p i.
Proof. exact family_history_independent. Qed.
Print Assumptions C08_family_history_independent.

(* ... and the check is not vacuous: a path that assigns one location of the family-wide state a value
   it does not hold (EncodeEntry's fallback storing LowercaseLevelEncoder in the shared EncodeLevel)
   and whose output reads it is rejected by the check and gives different outputs for the identical
   call before and after itself *)
Theorem C08_shared_write_leaks : forall (V I : Type) (f : string) (v : V) (s : fstore V) (i : I), s f <> v ->
  let w := {| p_name := "w"%string; p_out := fun st _ => st f; p_writes := fun _ _ => [(f, v)] |} in
  conforms [{| sf_fn := "w"%string; sf_entry := true; sf_cfg_writes := [f]; sf_recv_writes := [] |}] w /\
  shared_readonly [{| sf_fn := "w"%string; sf_entry := true; sf_cfg_writes := [f]; sf_recv_writes := [] |}] = false /\
  fobserve [(w, i)] s w i <> fobserve [] s w i.
Proof. exact (@shared_write_leaks). Qed.
Print Assumptions C08_shared_write_leaks.

(* ---- non-interference ---- *)

(* rely/guarantee form: every operation (Core.Write with the JSON or console encoder, With,
   a Logger call with caller/stack capture, zap.Stack, Core.Check + Write without a Logger),
   whatever clean objects and whatever
   not-already-owned buffers its Gets return, never touches a buffer it does not own, frees each
   buffer once, puts back only clean objects, and returns exactly its specification *)
Theorem C08_operation : forall o ow, safe (op_prog o) ow (fun _ r => r = op_spec o).
Proof. exact op_safe. Qed.
Print Assumptions C08_operation.

(* for all histories (operations and garbage collections) and all adversaries: the observation
   is the operation's specification, a function of the operation alone *)
Theorem C08_observe : forall h adv o, observe h adv o = inl (op_spec o).
Proof. exact observe_spec. Qed.
Print Assumptions C08_observe.

(* per-entry state of a recycled CheckedEntry never outlives its entry: a Core.Check(ent, nil).Write()
   driven without a zap.Logger (exp/zapslog's Handler, direct zapcore users - nothing on that path
   assigns ErrorOutput or the hook) makes nothing observable but the sink writes of its own cores,
   after any history: no write on an earlier Logger's ErrorOutput (not even when one of its cores
   fails), no earlier entry's hook, no earlier entry's core, no re-use diagnostic *)
Theorem C08_bare_check_silent : forall h adv cores ent fs,
  exists evs, observe h adv (OCheck cores None ent fs) = inl (OutEvents evs) /\
              Forall (fun ev => exists k b, ev = SinkWrite k b) evs.
Proof. exact bare_check_silent. Qed.
Print Assumptions C08_bare_check_silent.

(* the last user of a pooled CheckedEntry is the entry's CheckWriteHook (Panic / Fatal / DPanic in
   development, After / Should): after any history and under any adversary, whatever the hook logs
   through cores of its own before it looks (those calls take CheckedEntries from the same pool), it
   finds in the CheckedEntry it is handed exactly the entry that was logged - this call's message,
   level, name, caller and stack - and that is the last thing the call makes observable *)
Theorem C08_hook_sees_logged_entry : forall h adv lg ent cs fs hk,
  l_hook lg = Some hk ->
  exists pre, observe h adv (OLog lg ent cs fs) =
                inl (OutEvents (pre ++ p_nested 0 (hk_nested hk) ++ [Hook (hk_id hk) (p_log_entry lg ent cs)])) /\
              Forall (fun ev => (exists k b, ev = SinkWrite k b) \/ ev = ErrOut) pre.
Proof. exact hook_sees_logged_entry. Qed.
Print Assumptions C08_hook_sees_logged_entry.

Theorem C08_bare_hook_sees_entry : forall h adv cores hk ent fs,
  exists pre, observe h adv (OCheck cores (Some hk) ent fs) =
                inl (OutEvents (pre ++ p_nested 0 (hk_nested hk) ++ [Hook (hk_id hk) ent])) /\
              Forall (fun ev => exists k b, ev = SinkWrite k b) pre.
Proof. exact bare_hook_sees_entry. Qed.
Print Assumptions C08_bare_hook_sees_entry.

(* ... and every line of the hook's own logging is the line of one of its own calls *)
Theorem C08_hook_own_lines : forall l call ev, In ev (p_nested call l) ->
  exists i cores nent nfs co c,
    nth_error l i = Some (cores, nent, nfs) /\ nth_error cores co = Some c /\ co_fail c = false /\
    ev = HookWrite (call + i) co (p_core_line c nent nfs).
Proof. exact p_nested_lines. Qed.
Print Assumptions C08_hook_own_lines.

Theorem C08_history_independent : forall h1 h2 adv1 adv2 o, observe h1 adv1 o = observe h2 adv2 o.
Proof. exact history_independent. Qed.
Print Assumptions C08_history_independent.

(* ownership discipline: in no history does any operation read, write or free a buffer it does
   not own, dereference a nil pooled pointer, or loop in Capture *)
Theorem C08_no_use_after_free : forall h adv,
  Forall (fun r => exists x, r = inl x) (snd (run_hist h adv sh_init)).
Proof. exact no_fault_in_history. Qed.
Print Assumptions C08_no_use_after_free.

(* for all programs (one operation list per goroutine) and all schedules (which goroutine performs
   its next pool interaction, what the pool hands out, when the collector empties the pools): no
   goroutine faults and every completed operation produced its specification *)
Theorem C08_schedules : forall progs sc,
  Forall (fun th => t_fault th = None /\ forall o r, In (o, r) (t_done th) -> r = op_spec o)
         (m_threads (mrun (minit progs) sc)).
Proof. exact schedules_thm. Qed.
Print Assumptions C08_schedules.

Theorem C08_wire : forall i, spec i (model i) = true.
Proof. exact spec_model. Qed.
Print Assumptions C08_wire.

(* ---- non-vacuity ---- *)
Definition ex_cfg : ecfg := {| c_msg := [x6d]; c_lvl := [x6c]; c_name := [x6e]; c_caller := [x63]; c_stack := [x73]; c_le := [NL]; c_sep := [TAB] |}.
Definition ex_enc : enc := {| e_cfg := ex_cfg; e_spaced := false; e_ns := 0; e_buf := [] |}.
Definition ex_ent : entry := {| en_lvl := [x69]; en_name := []; en_msg := [x68]; en_stack := []; en_caller := None |}.
Definition ex_json : core := {| co_enc := ex_enc; co_console := false; co_fail := false |}.
Definition ex_cons : core := {| co_enc := ex_enc; co_console := true; co_fail := false |}.
Definition ex_fs : list pf := [PNs [x6e]; PRefl [x72] (ROk [x31]); PErr [x65] [x78] [[x79]]].
Definition ex_log : logger := {| l_cores := [ex_json; ex_cons]; l_hook := Some {| hk_id := 7; hk_nested := [] |}; l_errout := true; l_caller := true; l_stack := true |}.

(* {"l":"i","m":"h","n":{"r":1,"e":"x","eCauses":[{"error":"y"}]}}\n after a history that recycles
   every pool, with the adversary always taking the most recently pooled object *)
Example C08_example_line :
  observe [HOp (OWrite ex_json ex_ent ex_fs); HOp (OWith ex_enc ex_fs); HOp (OWrite ex_cons ex_ent ex_fs); HGC;
           HOp (OLog ex_log ex_ent [5; 6; 7] ex_fs); HOp (OTake (seq 1 70))]
          (repeat 1 40) (OWrite ex_json ex_ent ex_fs)
  = inl (OutBytes (ascii [123; 34; 108; 34; 58; 34; 105; 34; 44; 34; 109; 34; 58; 34; 104; 34; 44; 34; 110; 34; 58; 123;
                          34; 114; 34; 58; 49; 44; 34; 101; 34; 58; 34; 120; 34; 44; 34; 101; 67; 97; 117; 115; 101; 115; 34; 58;
                          91; 123; 34; 101; 114; 114; 111; 114; 34; 58; 34; 121; 34; 125; 93; 125; 125; 10]%N)).
Proof. vm_compute. reflexivity. Qed.

(* three goroutines, an interleaved schedule with a collection in the middle: all operations complete *)
Example C08_example_schedule :
  map (fun th => (List.length (t_done th), t_fault th))
      (m_threads (mrun (minit [[OWrite ex_json ex_ent ex_fs; OWrite ex_cons ex_ent ex_fs]; [OLog ex_log ex_ent [1; 2] ex_fs]; [OTake [1; 2; 3]]])
                       (List.concat (repeat [SRun 0 1; SRun 1 1; SRun 2 1; SRun 1 2; SGC; SRun 0 0] 40))))
  = [(2, None); (1, None); (1, None)].
Proof. vm_compute. reflexivity. Qed.

(* the pool invariant is needed: the model CAN express the failures the property is about *)
(* (a) a pooled encoder whose reflectBuf still points at a buffer that is itself in the pool:
       the line being built is wiped by resetReflectBuf *)
Example C08_stale_reflectbuf_is_observable :
  snd (exec (op_prog (OWrite ex_json ex_ent ex_fs)) [1; 1]
            {| sh_pools := {| pl_json := [{| j_cfg := None; j_buf := None; j_spaced := false; j_ns := 0; j_rbuf := Some 0; j_renc := Some 0 |}];
                              pl_buf := [{| b_id := 0; b_bs := []; b_pool := true |}];
                              pl_slice := []; pl_ce := []; pl_errc := []; pl_errz := []; pl_stack := [] |}; sh_next := 1 |})
  <> inl (op_spec (OWrite ex_json ex_ent ex_fs)).
Proof. vm_compute. discriminate. Qed.
(* (b) a pooled slice encoder that was not truncated: the console line starts with a stale column *)
Example C08_untruncated_elems_is_observable :
  snd (exec (op_prog (OWrite ex_cons ex_ent [])) [0; 1]
            {| sh_pools := {| pl_json := []; pl_buf := []; pl_slice := [{| s_elems := [[x21]] |}]; pl_ce := [];
                              pl_errc := []; pl_errz := []; pl_stack := [] |}; sh_next := 0 |})
  <> inl (op_spec (OWrite ex_cons ex_ent [])).
Proof. vm_compute. discriminate. Qed.
(* (c) a pooled CheckedEntry is harmless whatever it holds, because reset() runs on Get *)
Example C08_dirty_checked_entry_is_harmless :
  snd (exec (op_prog (OLog ex_log ex_ent [5; 6] [])) [1]
            {| sh_pools := {| pl_json := []; pl_buf := []; pl_slice := [];
                              pl_ce := [{| ce_ent := ex_ent; ce_errout := true; ce_dirty := true; ce_after := Some {| hk_id := 9; hk_nested := [] |}; ce_cores := [ex_cons; ex_cons] |}];
                              pl_errc := []; pl_errz := []; pl_stack := [] |}; sh_next := 0 |})
  = inl (op_spec (OLog ex_log ex_ent [5; 6] [])).
Proof. vm_compute. reflexivity. Qed.
(* (c') ... also for a bare Check + Write (no Logger overwrites ErrorOutput) whose second core fails:
        the stale error output, hook and cores stay silent *)
Definition ex_bad : core := {| co_enc := ex_enc; co_console := true; co_fail := true |}.
Example C08_stale_error_output_is_harmless :
  snd (exec (op_prog (OCheck [ex_json; ex_bad] None ex_ent [])) [1]
            {| sh_pools := {| pl_json := []; pl_buf := []; pl_slice := [];
                              pl_ce := [{| ce_ent := ex_ent; ce_errout := true; ce_dirty := false; ce_after := Some {| hk_id := 9; hk_nested := [] |}; ce_cores := [ex_cons; ex_cons] |}];
                              pl_errc := []; pl_errz := []; pl_stack := [] |}; sh_next := 0 |})
  = inl (OutEvents [SinkWrite 0 (ascii [123; 34; 108; 34; 58; 34; 105; 34; 44; 34; 109; 34; 58; 34; 104; 34; 125; 10]%N)]).
Proof. vm_compute. reflexivity. Qed.
(*      and reset() is what does it: Write on the same entry as the pool held it reports the failure on
        the earlier Logger's error output and fires the earlier hook *)
Example C08_unreset_checked_entry_is_observable :
  snd (exec (run_m (ce_write {| ce_ent := ex_ent; ce_errout := true; ce_dirty := false; ce_after := Some {| hk_id := 9; hk_nested := [] |}; ce_cores := [ex_bad] |} []) OutEvents)
            [] sh_init)
  = inl (OutEvents [ErrOut; Hook 9 ex_ent]).
Proof. vm_compute. reflexivity. Qed.
(* (c'') a Panic whose hook logs twice through a tee of its own before it looks at its entry, after a
        history, the adversary always handing out the most recently pooled objects (so the hook's
        calls get the CheckedEntries of the history, never the one in use): the hook's lines are its
        own and it sees the panic entry *)
Definition ex_hook : hookd := {| hk_id := 3; hk_nested := [([ex_json; ex_bad], ex_ent, []); ([ex_cons], ex_ent, [])] |}.
Definition ex_panic : entry := {| en_lvl := [x70]; en_name := [x6e]; en_msg := [x62; x6f; x6f; x6d]; en_stack := []; en_caller := None |}.
Example C08_hook_that_logs_sees_its_entry :
  observe [HOp (OLog ex_log ex_ent [5; 6] []); HOp (OCheck [ex_json] None ex_ent [])] (repeat 1 60)
          (OLog {| l_cores := [ex_json]; l_hook := Some ex_hook; l_errout := true; l_caller := false; l_stack := false |} ex_panic [1; 2] [])
  = inl (OutEvents [SinkWrite 0 (ascii [123; 34; 108; 34; 58; 34; 112; 34; 44; 34; 110; 34; 58; 34; 110; 34; 44; 34; 109; 34; 58; 34; 98; 111; 111; 109; 34; 125; 10]%N);
                    HookWrite 0 0 (ascii [123; 34; 108; 34; 58; 34; 105; 34; 44; 34; 109; 34; 58; 34; 104; 34; 125; 10]%N);
                    HookWrite 1 0 (ascii [105; 9; 104; 10]%N);
                    Hook 3 ex_panic]).
Proof. vm_compute. reflexivity. Qed.
(* (d) a Stack whose storage were empty makes Capture's growth loop diverge *)
Example C08_empty_storage_diverges :
  snd (exec (op_prog (OTake [1; 2])) [1]
            {| sh_pools := {| pl_json := []; pl_buf := []; pl_slice := []; pl_ce := []; pl_errc := []; pl_errz := [];
                              pl_stack := [{| k_pcs := []; k_frames := None; k_storage := [] |}] |}; sh_next := 0 |})
  = inr Diverge.
Proof. vm_compute. reflexivity. Qed.

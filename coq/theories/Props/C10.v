(* C10 — field and sink failures are contained and reported; the entry is never lost. Statements only. *)
From Coq Require Import List ZArith Bool.
From Coq.Strings Require Import Byte.
Import ListNotations.
From Zap Require Import Base.Wire Enc.Bytes Enc.Fields Enc.JsonEnc Enc.JsonParse Enc.WireEnc Enc.JsonAst Enc.Wf
  Enc.Parse3 Enc.Parse4 Enc.Console C02.Model C10.Model C10.Proofs.

(* Whatever fails inside the field trees, the entry is still one valid JSON object that decodes to the
   reference members: there is no hypothesis excluding faults (marshaler errors at any depth,
   panicking or nil Stringers and errors, values encoding/json rejects are all in [fld]). *)
Theorem C10_entry_still_valid : forall c ctxs ent fs,
  q_nil_caller_guard c = true -> q_layout_escaped c = true ->
  forallb wf_flds ctxs = true -> wf_flds fs = true -> wf_entry ent = true ->
  exists out,
    encode_entry c false (with_chain c false ctxs) ent fs = Some out /\
    line_obj (resolved_le c) out = Some (jv_mem (entry_members c ctxs ent fs)).
Proof. exact entry_valid_wf. Qed.
Print Assumptions C10_entry_still_valid.

(* ... and in those members a failing field shows up as exactly one extra '<key>Error' string member,
   next to whatever the field had already contributed; its siblings are untouched *)
Theorem C10_object_error : forall c k calls msg o,
  ev_fld c (FObject k (Obj calls (Some msg))) o = push (ev_fld c (FObject k (Obj calls None)) o) (str_m (k ++ s_Error) msg).
Proof. exact obj_error. Qed.
Print Assumptions C10_object_error.
Theorem C10_inline_error : forall c calls msg o,
  ev_fld c (FInline (Obj calls (Some msg))) o = push (ev_fld c (FInline (Obj calls None)) o) (str_m s_Error msg).
Proof. exact inline_error. Qed.
Print Assumptions C10_inline_error.
Theorem C10_array_error : forall c k es msg o, snd (Refine4.ev_elems' c false es) = None ->
  ev_fld c (FArray k (Arr es (Some msg) false)) o = push (ev_fld c (FArray k (Arr es None false)) o) (str_m (k ++ s_Error) msg).
Proof. exact arr_error. Qed.
Print Assumptions C10_array_error.
Theorem C10_stringer_panic : forall c k m o, ev_fld c (FStringer k (OPanic m)) o = push o (str_m (k ++ s_Error) (panic_err m)).
Proof. exact stringer_panic. Qed.
Print Assumptions C10_stringer_panic.
Theorem C10_stringer_nil : forall c k o, ev_fld c (FStringer k ONilPtr) o = push o (str_m k s_nilptr).
Proof. exact stringer_nil. Qed.
Print Assumptions C10_stringer_nil.
Theorem C10_error_panic : forall c k m v g o, ev_fld c (FError k (ErrV (OPanic m) v g)) o = push o (str_m (k ++ s_Error) (panic_err m)).
Proof. exact error_panic. Qed.
Print Assumptions C10_error_panic.
Theorem C10_reflect_failure : forall c k m o, ev_fld c (FReflect k (RErr m)) o = push o (str_m (k ++ s_Error) m).
Proof. exact reflect_fail. Qed.
Print Assumptions C10_reflect_failure.
Theorem C10_siblings_intact : forall c fs1 f fs2 o, ev_flds c (fs1 ++ f :: fs2) o = ev_flds c fs2 (ev_fld c f (ev_flds c fs1 o)).
Proof. exact siblings. Qed.
Print Assumptions C10_siblings_intact.

(* sinks and cores: for every tree of cores (tees and forwarding wrappers to any depth, each ioCore with
   its own JSON or console encoder), every per-sink outcome and every entry, CheckedEntry.Write +
   multiCore.Write + ioCore.Write reach every sink exactly once, in order, whatever failed before (the
   remaining cores of a tee still get the entry), hand it the line its own encoder produces for THIS
   entry, and collect every write error, in order, into the one report on the error output *)
Theorem C10_sink_all_written : forall line hi k c, fst (entry_write line hi k c) = spec_events line hi k c.
Proof. exact sink_events. Qed.
Print Assumptions C10_sink_all_written.
Theorem C10_sink_write_errors_reported : forall line hi k c, snd (entry_write line hi k c) = spec_write_errs k c.
Proof. exact sink_errs. Qed.
Print Assumptions C10_sink_write_errors_reported.

(* what the sinks receive is the entry, intact: the line of a JSON core decodes to exactly the reference
   members of the entry, the line of a console core is exactly the documented shape - there is no
   hypothesis about the outcomes of the other sinks or of earlier entries *)
Theorem C10_sink_line_json : forall c ctxs ent fs,
  q_nil_caller_guard c = true -> q_layout_escaped c = true ->
  forallb wf_flds ctxs = true -> wf_flds fs = true -> wf_entry ent = true ->
  line_obj (resolved_le c) (entry_line c ctxs ent fs false) = Some (jv_mem (entry_members c ctxs ent fs)).
Proof. exact line_json. Qed.
Print Assumptions C10_sink_line_json.
Theorem C10_sink_line_console : forall c ctxs ent fs, forallb wf_flds ctxs = true -> wf_flds fs = true ->
  entry_line c ctxs ent fs true = Console.console_spec c ctxs ent fs.
Proof. exact line_console. Qed.
Print Assumptions C10_sink_line_console.
(* over sequences of entries (each logged through a logger derived by a prefix of the With chain): the
   k-th entry reaches every sink of the tree once, in order, as its own line, and exactly its own write
   failures are collected, whatever the outcomes of the entries before it ... *)
Theorem C10_sink_sequence : forall c ctxs t es k e, nth_error es k = Some e ->
  nth_error (run_seq c ctxs t es) k = Some (spec_events (pent_line c ctxs e) (p_hi e) k t, spec_write_errs k t).
Proof. exact seq_entry. Qed.
Print Assumptions C10_sink_sequence.
(* ... and each of those lines passes the oracle's reading of "the sink received the entry" *)
Theorem C10_sink_entry_intact : forall c ctxs e con, q_nil_caller_guard c = true -> q_layout_escaped c = true ->
  forallb wf_flds ctxs = true -> wf_pent e = true ->
  payload_ok c (firstn (p_d e) ctxs) (p_ent e) (p_fs e) con (pent_line c ctxs e con) = true.
Proof. exact seq_entry_intact. Qed.
Print Assumptions C10_sink_entry_intact.

(* the full statement (sync failures reported too) is false of the code: ioCore.Write drops the
   error of the Sync it performs for entries above ErrorLevel (known finding iocore-sync-error-ignored) *)
Theorem C10_sink_full_refuted : ~ sink_full.
Proof. exact sink_full_refuted. Qed.
Print Assumptions C10_sink_full_refuted.
Theorem C10_sink_reported_partial : forall line hi k c, no_sync_fault c = true ->
  snd (entry_write line hi k c) = spec_write_errs k c ++ spec_sync_errs hi k c.
Proof. exact sink_reported_partial. Qed.
Print Assumptions C10_sink_reported_partial.

Theorem C10_wire : forall i, case_ok i -> spec i (model i) = true.
Proof. exact wire_thm. Qed.
Print Assumptions C10_wire.

Example C10_example_sink :
  entry_write (fun con => if con then [x43] else [x4a]) true 0
    (STee [SLeaf 0 false [{| werr := Some [x45]; serr := None |}]; SWrap (STee [SLeaf 1 true []; SLeaf 2 false [{| werr := Some [x46]; serr := None |}]])])
  = ([EvW 0 [x4a]; EvW 1 [x43]; EvS 1; EvW 2 [x4a]], [[x45]; [x46]]).
Proof. vm_compute. reflexivity. Qed.

(* C10 — field and sink failures are contained and reported; the entry is never lost. Statements only. *)
From Coq Require Import List ZArith Bool.
From Coq.Strings Require Import Byte.
Import ListNotations.
From Zap Require Import Base.Wire Enc.Bytes Enc.Fields Enc.JsonEnc Enc.JsonParse Enc.WireEnc Enc.JsonAst Enc.Wf
  Enc.Parse3 Enc.Parse4 C02.Model C10.Model C10.Proofs.

(* Whatever fails inside the field trees, the entry is still one valid JSON object that decodes to the
   reference members: there is no hypothesis excluding faults (marshaler errors at any depth,
   panicking or nil Stringers and errors, values encoding/json rejects are all in [fld]). *)
Theorem C10_entry_still_valid : forall c ctxs ent fs,
  q_nil_caller_guard c = true -> q_layout_escaped c = true ->
  forallb wf_flds ctxs = true -> wf_flds fs = true -> wf_entry ent = true ->
  exists out,
    encode_entry c false (with_chain c false ctxs) ent fs = Some out /\
    line_obj (resolved_le c) out = Some (jv_mem (entry_members c ctxs ent fs)).
Proof. exact entry_valid_wf. Qed.
Print Assumptions C10_entry_still_valid.

(* ... and in those members a failing field shows up as exactly one extra '<key>Error' string member,
   next to whatever the field had already contributed; its siblings are untouched *)
Theorem C10_object_error : forall c k calls msg o,
  ev_fld c (FObject k (Obj calls (Some msg))) o = push (ev_fld c (FObject k (Obj calls None)) o) (str_m (k ++ s_Error) msg).
Proof. exact obj_error. Qed.
Print Assumptions C10_object_error.
Theorem C10_inline_error : forall c calls msg o,
  ev_fld c (FInline (Obj calls (Some msg))) o = push (ev_fld c (FInline (Obj calls None)) o) (str_m s_Error msg).
Proof. exact inline_error. Qed.
Print Assumptions C10_inline_error.
Theorem C10_array_error : forall c k es msg o, snd (Refine4.ev_elems' c false es) = None ->
  ev_fld c (FArray k (Arr es (Some msg) false)) o = push (ev_fld c (FArray k (Arr es None false)) o) (str_m (k ++ s_Error) msg).
Proof. exact arr_error. Qed.
Print Assumptions C10_array_error.
Theorem C10_stringer_panic : forall c k m o, ev_fld c (FStringer k (OPanic m)) o = push o (str_m (k ++ s_Error) (panic_err m)).
Proof. exact stringer_panic. Qed.
Print Assumptions C10_stringer_panic.
Theorem C10_stringer_nil : forall c k o, ev_fld c (FStringer k ONilPtr) o = push o (str_m k s_nilptr).
Proof. exact stringer_nil. Qed.
Print Assumptions C10_stringer_nil.
Theorem C10_error_panic : forall c k m v g o, ev_fld c (FError k (ErrV (OPanic m) v g)) o = push o (str_m (k ++ s_Error) (panic_err m)).
Proof. exact error_panic. Qed.
Print Assumptions C10_error_panic.
Theorem C10_reflect_failure : forall c k m o, ev_fld c (FReflect k (RErr m)) o = push o (str_m (k ++ s_Error) m).
Proof. exact reflect_fail. Qed.
Print Assumptions C10_reflect_failure.
Theorem C10_siblings_intact : forall c fs1 f fs2 o, ev_flds c (fs1 ++ f :: fs2) o = ev_flds c fs2 (ev_fld c f (ev_flds c fs1 o)).
Proof. exact siblings. Qed.
Print Assumptions C10_siblings_intact.

(* sinks and cores: for every tree of cores (tees and forwarding wrappers to any depth), every
   per-sink outcome and every entry, CheckedEntry.Write + multiCore.Write + ioCore.Write reach every
   sink exactly once, in order, whatever failed before (the remaining cores of a tee still get the entry),
   and collect every write error, in order, into the one report on the error output *)
Theorem C10_sink_all_written : forall hi k c, fst (entry_write hi k c) = spec_events hi k c.
Proof. exact sink_events. Qed.
Print Assumptions C10_sink_all_written.
Theorem C10_sink_write_errors_reported : forall hi k c, snd (entry_write hi k c) = spec_write_errs k c.
Proof. exact sink_errs. Qed.
Print Assumptions C10_sink_write_errors_reported.

(* the full statement (sync failures reported too) is false of the code: ioCore.Write drops the
   error of the Sync it performs for entries above ErrorLevel (known finding iocore-sync-error-ignored) *)
Theorem C10_sink_full_refuted : ~ sink_full.
Proof. exact sink_full_refuted. Qed.
Print Assumptions C10_sink_full_refuted.
Theorem C10_sink_reported_partial : forall hi k c, no_sync_fault c = true ->
  snd (entry_write hi k c) = spec_write_errs k c ++ spec_sync_errs hi k c.
Proof. exact sink_reported_partial. Qed.
Print Assumptions C10_sink_reported_partial.

Theorem C10_wire : forall i, case_ok i -> spec i (model i) = true.
Proof. exact wire_thm. Qed.
Print Assumptions C10_wire.

Example C10_example_sink :
  entry_write true 0 (STee [SLeaf 0 [{| werr := Some [x45]; serr := None |}]; SWrap (STee [SLeaf 1 []; SLeaf 2 [{| werr := Some [x46]; serr := None |}]])])
  = ([EvW 0; EvW 1; EvS 1; EvW 2], [[x45]; [x46]]).
Proof. vm_compute. reflexivity. Qed.

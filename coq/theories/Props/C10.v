(* C10 — stub: no theorems yet *)
From Zap Require Import Base.Wire C10.Model C10.Proofs.

(* C10 — field and sink failures are contained and reported; the entry is never lost. Statements only. *)
From Coq Require Import List ZArith Bool.
From Coq.Strings Require Import Byte.
Import ListNotations.
From Zap Require Import Base.Wire Enc.Bytes Enc.Fields Enc.JsonEnc Enc.JsonParse Enc.WireEnc Enc.JsonAst Enc.Wf
  Enc.Parse3 Enc.Parse4 Enc.Console C02.Model C10.Model C10.Proofs.

(* Whatever fails inside the field trees, the entry is still one valid JSON object that decodes to the
   reference members: there is no hypothesis excluding faults (marshaler errors at any depth,
   panicking or nil Stringers and errors, values encoding/json rejects are all in [fld]). *)
Theorem C10_entry_still_valid : forall c ctxs ent fs,
  q_nil_caller_guard c = true -> q_layout_escaped c = true ->
  forallb wf_flds ctxs = true -> wf_flds fs = true -> wf_entry ent = true ->
  exists out,
    encode_entry c false (with_chain c false ctxs) ent fs = Some out /\
    line_obj (resolved_le c) out = Some (jv_mem (entry_members c ctxs ent fs)).
Proof. exact entry_valid_wf. Qed.
Print Assumptions C10_entry_still_valid.

(* ... and in those members a failing field shows up as exactly one extra '<key>Error' string member,
   next to whatever the field had already contributed; its siblings are untouched *)
Theorem C10_object_error : forall c k calls msg o,
  ev_fld c (FObject k (Obj calls (Some msg))) o = push (ev_fld c (FObject k (Obj calls None)) o) (str_m (k ++ s_Error) msg).
Proof. exact obj_error. Qed.
Print Assumptions C10_object_error.
Theorem C10_inline_error : forall c calls msg o,
  ev_fld c (FInline (Obj calls (Some msg))) o = push (ev_fld c (FInline (Obj calls None)) o) (str_m s_Error msg).
Proof. exact inline_error. Qed.
Print Assumptions C10_inline_error.
Theorem C10_array_error : forall c k es msg o, snd (Refine4.ev_elems' c false es) = None ->
  ev_fld c (FArray k (Arr es (Some msg) false)) o = push (ev_fld c (FArray k (Arr es None false)) o) (str_m (k ++ s_Error) msg).
Proof. exact arr_error. Qed.
Print Assumptions C10_array_error.
Theorem C10_stringer_panic : forall c k m o, ev_fld c (FStringer k (OPanic m)) o = push o (str_m (k ++ s_Error) (panic_err m)).
Proof. exact stringer_panic. Qed.
Print Assumptions C10_stringer_panic.
Theorem C10_stringer_nil : forall c k o, ev_fld c (FStringer k ONilPtr) o = push o (str_m k s_nilptr).
Proof. exact stringer_nil. Qed.
Print Assumptions C10_stringer_nil.
Theorem C10_error_panic : forall c k m v g o, ev_fld c (FError k (ErrV (OPanic m) v g)) o = push o (str_m (k ++ s_Error) (panic_err m)).
Proof. exact error_panic. Qed.
Print Assumptions C10_error_panic.
Theorem C10_reflect_failure : forall c k m o, ev_fld c (FReflect k (RErr m)) o = push o (str_m (k ++ s_Error) m).
Proof. exact reflect_fail. Qed.
Print Assumptions C10_reflect_failure.
Theorem C10_siblings_intact : forall c fs1 f fs2 o, ev_flds c (fs1 ++ f :: fs2) o = ev_flds c fs2 (ev_fld c f (ev_flds c fs1 o)).
Proof. exact siblings. Qed.
Print Assumptions C10_siblings_intact.

(* sinks and cores: for every tree of cores (tees and forwarding wrappers to any depth, each ioCore with
   its own JSON or console encoder), every per-sink outcome and every entry, CheckedEntry.Write +
   multiCore.Write + ioCore.Write reach every sink exactly once, in order, whatever failed before (the
   remaining cores of a tee still get the entry), hand it the line its own encoder produces for THIS
   entry, and collect every write error, in order, into the one report on the error output *)
Theorem C10_sink_all_written : forall line hi k c, fst (entry_write line hi k c) = spec_events line hi k c.
Proof. exact sink_events. Qed.
Print Assumptions C10_sink_all_written.
Theorem C10_sink_write_errors_reported : forall line hi k c, snd (entry_write line hi k c) = spec_write_errs k c.
Proof. exact sink_errs. Qed.
Print Assumptions C10_sink_write_errors_reported.

(* WriteSyncer combinators between a core and its sinks (zapcore.Lock, AddSync, NewMultiWriteSyncer,
   zap.CombineWriteSyncers, zap.Open, BufferedWriteSyncer, nested in any way): Write through the stack
   returns exactly the errors the property's reading lists over the flattened sinks ... *)
Theorem C10_writesyncer_errors : forall k w, ws_errs k w = flat_map (sk_errs k) (ws_sinks None true w).
Proof. exact (fun k w => ws_errs_spec k w true). Qed.
Print Assumptions C10_writesyncer_errors.
(* ... a failure is contained in its round: a sink that is not behind a BufferedWriteSyncer is written
   for EVERY entry of every sequence - whatever failed in earlier rounds, on this sink or any other -
   and its report is this round's outcome only *)
Theorem C10_sink_unbuffered_always_written : forall line hi k c l s, In l (leaves c) -> In s (l_sinks l) -> s_guard s = None ->
  In (EvW (s_id s) (line (l_con l))) (fst (entry_write line hi k c)).
Proof. exact sink_unbuffered_written. Qed.
Print Assumptions C10_sink_unbuffered_always_written.
Theorem C10_sink_unbuffered_report : forall k s, s_guard s = None -> sk_errs k s = raw_err (s_outs s) k.
Proof. exact unbuffered_errs. Qed.
Print Assumptions C10_sink_unbuffered_report.
(* ... and a sink behind a BufferedWriteSyncer is written as long as no write behind that buffer has failed
   (bufio.Writer keeps its first error: afterwards that error is reported again for every entry) *)
Theorem C10_sink_buffered_written_until_failure : forall line hi k c l s g, In l (leaves c) -> In s (l_sinks l) -> s_guard s = Some g ->
  (forall j, (j < k)%nat -> fails_at g j = false) ->
  In (EvW (s_id s) (line (l_con l))) (fst (entry_write line hi k c)).
Proof. exact sink_buffered_written. Qed.
Print Assumptions C10_sink_buffered_written_until_failure.

(* what the sinks receive is the entry, intact: the line of a JSON core decodes to exactly the reference
   members of the entry, the line of a console core is exactly the documented shape - there is no
   hypothesis about the outcomes of the other sinks or of earlier entries *)
Theorem C10_sink_line_json : forall c ctxs ent fs,
  q_nil_caller_guard c = true -> q_layout_escaped c = true ->
  forallb wf_flds ctxs = true -> wf_flds fs = true -> wf_entry ent = true ->
  line_obj (resolved_le c) (entry_line c ctxs ent fs false) = Some (jv_mem (entry_members c ctxs ent fs)).
Proof. exact line_json. Qed.
Print Assumptions C10_sink_line_json.
Theorem C10_sink_line_console : forall c ctxs ent fs, forallb wf_flds ctxs = true -> wf_flds fs = true ->
  entry_line c ctxs ent fs true = Console.console_spec c ctxs ent fs.
Proof. exact line_console. Qed.
Print Assumptions C10_sink_line_console.
(* over sequences of entries (each logged through a logger derived by a prefix of the With chain): the
   k-th entry reaches every sink of the tree once, in order, as its own line, and exactly its own write
   failures are collected, whatever the outcomes of the entries before it ... *)
Theorem C10_sink_sequence : forall c ctxs t es k e, nth_error es k = Some e ->
  nth_error (run_seq c ctxs t es) k = Some (spec_events (pent_line c ctxs e) (p_hi e) k t, spec_write_errs k t).
Proof. exact seq_entry. Qed.
Print Assumptions C10_sink_sequence.
(* ... and each of those lines passes the oracle's reading of "the sink received the entry" *)
Theorem C10_sink_entry_intact : forall c ctxs e con, q_nil_caller_guard c = true -> q_layout_escaped c = true ->
  forallb wf_flds ctxs = true -> wf_pent e = true ->
  payload_ok c (firstn (p_d e) ctxs) (p_ent e) (p_fs e) con (pent_line c ctxs e con) = true.
Proof. exact seq_entry_intact. Qed.
Print Assumptions C10_sink_entry_intact.

(* the full statement (sync failures reported too) is false of the code: ioCore.Write drops the
   error of the Sync it performs for entries above ErrorLevel (known finding iocore-sync-error-ignored) *)
Theorem C10_sink_full_refuted : ~ sink_full.
Proof. exact sink_full_refuted. Qed.
Print Assumptions C10_sink_full_refuted.
Theorem C10_sink_reported_partial : forall line hi k c, no_sync_fault c = true ->
  snd (entry_write line hi k c) = spec_write_errs k c ++ spec_sync_errs hi k c.
Proof. exact sink_reported_partial. Qed.
Print Assumptions C10_sink_reported_partial.

Theorem C10_wire : forall i, case_ok i -> spec i (model i) = true.
Proof. exact wire_thm. Qed.
Print Assumptions C10_wire.

Example C10_example_sink :
  entry_write (fun con => if con then [x43] else [x4a]) true 0
    (STee [SLeaf false (WSink 0 [{| werr := Some [x45]; serr := None |}]); SWrap (STee [SLeaf true (WSink 1 []); SLeaf false (WSink 2 [{| werr := Some [x46]; serr := None |}])])])
  = ([EvW 0 [x4a]; EvW 1 [x43]; EvS 1; EvW 2 [x4a]], [[x45]; [x46]]).
Proof. vm_compute. reflexivity. Qed.
(* round 1 of: a core over Lock(sink 0), whose write failed in round 0; a core over CombineWriteSyncers(sink 1
   behind AddSync-of-a-Writer, sink 2); a core over a BufferedWriteSyncer whose sink 3 failed in round 0 *)
Example C10_example_combinators :
  let bad := [{| werr := Some [x45]; serr := None |}] in
  entry_write (fun _ => [x4a]) true 1
    (STee [SLeaf false (WPass (WSink 0 bad)); SLeaf false (WPass (WMulti [WNoSync (WSink 1 []); WSink 2 []])); SLeaf false (WBuf (WSink 3 bad))])
  = ([EvW 0 [x4a]; EvS 0; EvW 1 [x4a]; EvW 2 [x4a]; EvS 2], [[x45]]).
Proof. vm_compute. reflexivity. Qed.

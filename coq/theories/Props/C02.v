(* C02 — JSON output decodes to exactly the logged values, in order, at the right nesting.
   Statements only. *)
From Coq Require Import List ZArith Bool.
From Coq.Strings Require Import Byte.
Import ListNotations.
From Zap Require Import Base.Wire Enc.Bytes Enc.Decimal Enc.Base64 Enc.Fields Enc.JsonEnc Enc.JsonParse Enc.WireEnc Enc.JsonAst Enc.Wf Enc.MapEnc
  Enc.Parse1 Enc.Parse3 Enc.Parse4 Enc.MapAgree Enc.Codec C02.Model C02.Proofs.

(* Decoding the emitted line (RFC 8259 parser, strings unescaped, invalid UTF-8 already
   replaced) yields exactly [jv_mem (entry_members ...)]: the metadata members under the
   configured keys in the order level, time, name, caller, function, message with the
   omission rules of [meta_members]; then the context fields of the With chain; then the
   call-site fields, in the order added; namespaces nest everything that follows at their
   level; objects, arrays, inline and dict marshalers nest per [ev_fld]; the stack trace
   last, at top level.  All configurations, chains, entries and field trees. *)
Theorem C02_decodes : forall c ctxs ent fs,
  q_nil_caller_guard c = true -> q_layout_escaped c = true ->
  forallb wf_flds ctxs = true -> wf_flds fs = true -> wf_entry ent = true ->
  exists out,
    encode_entry c false (with_chain c false ctxs) ent fs = Some out /\
    line_obj (resolved_le c) out = Some (jv_mem (entry_members c ctxs ent fs)).
Proof. exact entry_valid_wf. Qed.
Print Assumptions C02_decodes.

(* strings are recoverable byte for byte, each invalid UTF-8 byte replaced by U+FFFD; valid ASCII untouched *)
Theorem C02_string_roundtrip : forall s X f, length (escape s) < f ->
  p_string f (escape s ++ QUOTE :: X) [] = Some (sanitize s, X).
Proof. exact string_roundtrip. Qed.
Print Assumptions C02_string_roundtrip.
Theorem C02_string_ascii_identity : forall s, forallb (fun b => negb (0x80 <=? bN b)%N) s = true -> sanitize s = s.
Proof. exact sanitize_ascii. Qed.
Print Assumptions C02_string_ascii_identity.

(* integers: every integer (in particular the full signed and unsigned 64-bit ranges) is recovered from its text *)
Theorem C02_int_roundtrip : forall z, parse_Z (print_Z z) = Some z.
Proof. exact int_roundtrip. Qed.
Print Assumptions C02_int_roundtrip.

(* binary fields: standard padded base64, decodable to the original bytes *)
Theorem C02_base64 : forall s, decode64 (encode64 s) = Some s.
Proof. exact base64_roundtrip. Qed.
Print Assumptions C02_base64.

(* floats: the token is strconv's text for the value's own bits and bit size (bit-for-bit recovery is
   strconv's shortest-round-trip guarantee, an assumption the harness monitors); NaN/Inf are strings *)
Theorem C02_float_token : forall f,
  jv_of (TA (float_atom f)) =
  match fcls f with
  | FFin => JNum (ftxt f)
  | FNaN => JStr [x4e; x61; x4e] | FPInf => JStr [x2b; x49; x6e; x66] | FNInf => JStr [x2d; x49; x6e; x66]
  end.
Proof. exact float_token. Qed.
Print Assumptions C02_float_token.

(* the in-memory map encoder (model of memory_encoder.go: map + current-namespace pointer, last write
   wins) records exactly the last-write-wins view of the tree the JSON encoder emits, every typed leaf
   replaced by its documented JSON representation - for every field tree that contains no reflected
   value rejected by encoding/json (the map encoder stores such a value raw) *)
Theorem C02_map_agrees : forall c fs, ok_flds fs ->
  mmap (leaf_atom c) (MO (map_encode fs)) = viewT (TObj (close (ev_flds c fs octx0))).
Proof. exact map_agrees. Qed.
Print Assumptions C02_map_agrees.

(* wire level (line half; the map half is C02_map_agrees, compared on the wire after sorting keys) *)
Theorem C02_wire : forall i, wf i = true -> spec_line i (model i) = true.
Proof. exact wire_line. Qed.
Print Assumptions C02_wire.

(* sanity *)
Example C02_example_int : parse_Z (print_Z (-9223372036854775808)) = Some (-9223372036854775808)%Z /\
                          parse_Z (print_Z 18446744073709551615) = Some 18446744073709551615%Z.
Proof. split; vm_compute; reflexivity. Qed.
Example C02_example_b64 : decode64 (encode64 [x66; x6f; x6f; x62]) = Some [x66; x6f; x6f; x62].
Proof. vm_compute. reflexivity. Qed.

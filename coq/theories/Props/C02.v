(* C02 — stub: no theorems yet *)
From Zap Require Import Base.Wire C02.Model C02.Proofs.

(* C18 — stub: no theorems yet *)
From Zap Require Import Base.Wire C18.Model C18.Proofs.

(* C18 -- the slog handler reproduces slog's attribute and group semantics.
   Only statements closed by [exact]; the proofs are in C18/Proofs.v.
   Model: C18/Model.v ([run_fixed] = exp/zapslog/handler.go after the two fix: commits;
   [run_orig] = the code before them, kept for the _refuted lemmas). *)
From Coq Require Import List ZArith Bool.
From Coq.Strings Require Import Byte.
Import ListNotations.
From Zap Require Import Base.Wire C18.Model C18.Proofs.
Local Open Scope Z_scope.

(* one attribute, any tree of typed values / named groups / inline groups / empty groups /
   empty attrs / LogValuers, in front of anything ([tail]): the field built by
   convertAttrToField contributes exactly what the contract says, and it is zap.Skip()
   exactly when the contract says the attribute shows nothing *)
Theorem C18_attr : forall k v tail,
  denote_f (convert k v) tail = attr_sem (k, v) ++ tail /\
  is_skip (convert k v) = is_nil (attr_sem (k, v)).
Proof. exact (fun k v tail => conj (convert_denote k v tail) (convert_skip k v)). Qed.
Print Assumptions C18_attr.

(* the model converts a LogValuer layer by layer; the code calls Value.Resolve() (all layers
   at once) and converts the result: the same function *)
Theorem C18_logvaluer_resolved : forall k v, convert k (VLogValuer v) = convert k (resolve v).
Proof. exact convert_resolve. Qed.
Print Assumptions C18_logvaluer_resolved.

(* for every derivation sequence (WithGroup/WithAttrs in any order, any length), every core
   enabler, every slog level, message and record: Enabled and the emitted entry (mapped
   level, message, logger name, attribute tree) are what the contract specifies *)
Theorem C18_semantics : forall en name ops l m rec,
  map observe (run_fixed en name (chain ops l m rec)) = [spec_out en name ops l m rec].
Proof. exact semantics_thm. Qed.
Print Assumptions C18_semantics.

(* the same on the field list itself: what Handle hands to an enabled core denotes the
   contract's tree *)
Theorem C18_semantics_fields : forall name ops l m rec,
  exists e, run_fixed (fun _ => true) name (chain ops l m rec) = [(true, Some e)] /\
            denote (e_fields e) = spec_sem ops rec /\
            e_level e = spec_level l /\ e_msg e = m /\ e_name e = name.
Proof. exact semantics_fields. Qed.
Print Assumptions C18_semantics_fields.

(* for every program (any derivation tree, branching, Handle / Logger calls anywhere, the
   core's enabler changed anywhere, any interleaving): every Handle shows what the contract
   specifies for the derivation sequence of its own handler under the enabler in force when
   the record is logged *)
Theorem C18_programs : forall en name p,
  map observe (run_fixed en name p) = spec_run en name [[]] p.
Proof. exact program_thm. Qed.
Print Assumptions C18_programs.

(* deriving never affects parents or siblings: in any program every Handle gives what the
   same handler gives when derived alone from a fresh root (groups slice in an explicit heap)
   on a core that has had the enabler now in force all along (no earlier level matters) *)
Theorem C18_isolated : forall en name p,
  map observe (run_fixed en name p) =
  flat_map (fun x : hitem => match x with (en', ops, l, m, rec) => map observe (run_fixed en' name (chain ops l m rec)) end)
           (handled_paths en [[]] p).
Proof. exact isolated_thm. Qed.
Print Assumptions C18_isolated.

(* the same on the raw entries (the very field lists handed to the core, not only their
   denotation), by abstraction of the heap: a handler is a pure value determined by its own
   derivation.  It does not depend on the conversion function: it holds before the fix too. *)
Theorem C18_isolated_entries : forall en name p,
  run_fixed en name p =
  flat_map (fun x : hitem => match x with (en', ops, l, m, rec) => run_fixed en' name (chain ops l m rec) end)
           (handled_paths en [[]] p).
Proof. exact isolated_raw_fixed. Qed.
Print Assumptions C18_isolated_entries.

Theorem C18_isolated_entries_orig : forall en name p,
  run_orig en name p =
  flat_map (fun x : hitem => match x with (en', ops, l, m, rec) => run_orig en' name (chain ops l m rec) end)
           (handled_paths en [[]] p).
Proof. exact isolated_raw_orig. Qed.
Print Assumptions C18_isolated_entries_orig.

Theorem C18_level_monotone : forall l1 l2, l1 <= l2 -> convert_slog_level l1 <= convert_slog_level l2.
Proof. exact level_monotone. Qed.
Print Assumptions C18_level_monotone.

(* Error(2) from slog 8, Warn(1) on [4,8), Info(0) on [0,4), Debug(-1) below 0 *)
Theorem C18_level_thresholds : forall l,
  (convert_slog_level l = 2 <-> 8 <= l) /\
  (convert_slog_level l = 1 <-> 4 <= l < 8) /\
  (convert_slog_level l = 0 <-> 0 <= l < 4) /\
  (convert_slog_level l = -1 <-> l < 0).
Proof. exact level_thresholds. Qed.
Print Assumptions C18_level_thresholds.

(* a record is handled iff the core enables the mapped level, Enabled says the same, and the
   entry carries the mapped level -- for any handler state, hence after any derivation *)
Theorem C18_enabled_iff : forall cv en hp h l m rec,
  enabled en l = en (convert_slog_level l) /\
  (handle cv en hp h l m rec <> None <-> en (convert_slog_level l) = true) /\
  (forall e, handle cv en hp h l m rec = Some e ->
             e_level e = convert_slog_level l /\ e_msg e = m /\ e_name e = h_name h).
Proof. exact enabled_thm. Qed.
Print Assumptions C18_enabled_iff.

Theorem C18_enabled_programs : forall cv wg name p en hp st,
  Forall (fun o : out => fst o = match snd o with Some _ => true | None => false end)
         (run cv wg en name hp st p).
Proof. exact run_enabled. Qed.
Print Assumptions C18_enabled_programs.

(* ---- the core's level moves while handlers exist (zap.AtomicLevel.SetLevel, a dynamic
   LevelEnablerFunc): the enabler is state of the core threaded through the program, no
   handler holds a copy of it ---- *)
(* a slog.Logger asks Enabled and calls Handle only if so; Handle asks the core again *)
Theorem C18_logger_gate : forall cv en hp h l m rec,
  logger_log cv en hp h l m rec = handle cv en hp h l m rec.
Proof. exact logger_log_handle. Qed.
Print Assumptions C18_logger_gate.

(* after any history whatsoever the next record -- through Handle or through a Logger, on
   any handler, derived before or after any level move -- is handled according to the
   enabler in force now *)
Theorem C18_level_current : forall en name pre i l m rec,
  let expect := spec_out (cur_en en pre) name (nth i (paths_after [[]] pre) []) l m rec in
  map observe (run_fixed en name (pre ++ [CHandle i l m rec])) = map observe (run_fixed en name pre) ++ [expect] /\
  map observe (run_fixed en name (pre ++ [CLog i l m rec])) = map observe (run_fixed en name pre) ++ [expect].
Proof. exact level_current. Qed.
Print Assumptions C18_level_current.

(* handling depends on the CURRENT level only: once the enabler has been set to [e] (and not
   changed since), Enabled = e (mapped level) and an entry is written iff so, whatever
   enabler the root handler was built on and whatever moves, in whatever direction, came
   before; the derivation sequence is that of the program with its level moves erased *)
Theorem C18_level_current_only : forall en name pre e q i l m rec,
  no_level_change q = true ->
  let hist := pre ++ CEnabler e :: q in
  let expect := spec_out e name (nth i (paths_after [[]] (strip_levels hist)) []) l m rec in
  (map observe (run_fixed en name (hist ++ [CHandle i l m rec])) = map observe (run_fixed en name hist) ++ [expect] /\
   map observe (run_fixed en name (hist ++ [CLog i l m rec])) = map observe (run_fixed en name hist) ++ [expect]) /\
  fst expect = e (convert_slog_level l) /\
  (snd expect <> None <-> e (convert_slog_level l) = true).
Proof. exact level_current_only. Qed.
Print Assumptions C18_level_current_only.

(* this is not a triviality of the model: a handler that caches the core's minimum level at
   NewHandler time (copied by every derivation) and lets Enabled consult the cache first
   fails it as soon as the level is lowered ... *)
Theorem C18_level_snapshot_refuted : ~ follows_level_snapshot.
Proof. exact snapshot_refuted. Qed.
Print Assumptions C18_level_snapshot_refuted.

Theorem C18_level_snapshot_witness :
  map observe (run_snapshot (en_of_mask 8) [] snap_prog) =
    [(false, Some (0, [], [], [(kg, Node [(kx, Leaf [x31])])])); (false, None)] /\
  spec_run (en_of_mask 8) [] [[]] snap_prog =
    [(true, Some (0, [], [], [(kg, Node [(kx, Leaf [x31])])])); (true, Some (0, [], [], [(kg, Node [(kx, Leaf [x31])])]))] /\
  map observe (run_fixed (en_of_mask 8) [] snap_prog) = spec_run (en_of_mask 8) [] [[]] snap_prog.
Proof. exact snapshot_witness. Qed.
Print Assumptions C18_level_snapshot_witness.

(* ... and only then: on a core whose enabler never changes, the snapshot variant and the
   code are indistinguishable on every program (cases with a fixed enabler cannot tell) *)
Theorem C18_level_snapshot_needs_a_move : forall en name p,
  no_level_change p = true -> run_snapshot en name p = run_fixed en name p.
Proof. exact snapshot_same_at_fixed_level. Qed.
Print Assumptions C18_level_snapshot_needs_a_move.

(* ---- the code before the fix (documentation of the defects) ---- *)
(* WithGroup(""): {"":{"x":1}} instead of {"x":1} *)
Theorem C18_withgroup_empty_refuted :
  map observe (run_orig all_on [] (chain [OGroup []] 0 [] [(kx, one)])) =
    [(true, Some (0, [], [], [([], Node [(kx, Leaf [x31])])]))] /\
  spec_out all_on [] [OGroup []] 0 [] [(kx, one)] = (true, Some (0, [], [], [(kx, Leaf [x31])])).
Proof. exact withgroup_empty_refuted. Qed.
Print Assumptions C18_withgroup_empty_refuted.

(* WithAttrs(g = group without attrs): {"g":{}} instead of {} *)
Theorem C18_empty_group_refuted :
  map observe (run_orig all_on [] (chain [OAttrs [(kg, VGroup [])]] 0 [] [])) =
    [(true, Some (0, [], [], [(kg, Node [])]))] /\
  spec_out all_on [] [OAttrs [(kg, VGroup [])]] 0 [] [] = (true, Some (0, [], [], [])).
Proof. exact empty_group_refuted. Qed.
Print Assumptions C18_empty_group_refuted.

(* a LogValuer resolving to an empty group, inside a group of the record: {"x":{"g":{}}} *)
Theorem C18_empty_group_logvaluer_refuted :
  map observe (run_orig all_on [] (chain [] 0 [] [(kx, VGroup [(kg, VLogValuer (VGroup []))])])) =
    [(true, Some (0, [], [], [(kx, Node [(kg, Node [])])]))] /\
  spec_out all_on [] [] 0 [] [(kx, VGroup [(kg, VLogValuer (VGroup []))])] = (true, Some (0, [], [], [])).
Proof. exact empty_group_logvaluer_refuted. Qed.
Print Assumptions C18_empty_group_logvaluer_refuted.

(* WithGroup("g") then an inline group holding only an empty Attr: {"g":{}} instead of {} *)
Theorem C18_inline_empties_refuted :
  map observe (run_orig all_on [] (chain [OGroup kg] 0 [] [([], VGroup [([], vnull)])])) =
    [(true, Some (0, [], [], [(kg, Node [])]))] /\
  spec_out all_on [] [OGroup kg] 0 [] [([], VGroup [([], vnull)])] = (true, Some (0, [], [], [])).
Proof. exact inline_empties_refuted. Qed.
Print Assumptions C18_inline_empties_refuted.

Theorem C18_semantics_orig_refuted : ~ semantics_orig.
Proof. exact semantics_orig_refuted. Qed.
Print Assumptions C18_semantics_orig_refuted.

(* isolation is not a triviality of the model: with append instead of make+copy it fails *)
Theorem C18_isolated_append_refuted : ~ isolated_append.
Proof. exact isolated_append_refuted. Qed.
Print Assumptions C18_isolated_append_refuted.

(* wire: the oracle the driver runs accepts what the model observes, on every case *)
Theorem C18_wire : forall i, spec i (model i) = true.
Proof. exact spec_model. Qed.
Print Assumptions C18_wire.

(* ---- non-vacuity ---- *)
(* WithGroup("a").WithAttrs(<empty>).WithGroup("").WithGroup("b").WithAttrs(x=1, g={}) ;
   Handle(""={y=<LogValuer 1>, ""=<nil>}) at slog level 5
   -> warn, {"a":{"b":{"x":1,"y":1}}} *)
Example C18_example :
  map observe (run_fixed all_on kg
    (chain [OGroup ka; OAttrs [([], vnull)]; OGroup []; OGroup kb; OAttrs [(kx, one); (kg, VGroup [])]]
           5 ka [([], VGroup [(ky, VLogValuer one); ([], vnull)])])) =
  [(true, Some (1, ka, kg,
     [(ka, Node [(kb, Node [(kx, Leaf [x31]); (ky, Leaf [x31])])])]))].
Proof. vm_compute. reflexivity. Qed.

(* branching: the make+copy code keeps siblings apart (cf. isolated_append_refuted) *)
Example C18_example_siblings :
  map observe (run_fixed all_on [] alias_prog) =
  [(true, Some (0, [], [], [(ka, Node [(kb, Node [(kc, Node [(kx, Node [(kx, Leaf [x31])])])])])]))].
Proof. exact alias_prog_fixed. Qed.

(* a disabled level is not handled *)
Example C18_example_disabled :
  map observe (run_fixed (en_of_mask 12) [] (chain [] 3 [] [(kx, one)])) = [(false, None)].
Proof. vm_compute. reflexivity. Qed.

(* built at warn, derived, lowered to debug, raised to error, lowered to info; a handler
   derived before the moves (1) and one derived after them (2), slog level -4 / 0 / 4 *)
Example C18_example_level_moves :
  map (fun o => fst (observe o))
      (run_fixed (en_of_mask 12) []
         [CGroup 0 kg; CLog 1 0 [] []; CEnabler (en_of_mask 15); CLog 1 0 [] []; CHandle 1 (-4) [] [];
          CEnabler (en_of_mask 8); CHandle 1 4 [] []; CEnabler (en_of_mask 14); CAttrs 0 [(kx, one)];
          CLog 2 0 [] []; CLog 1 0 [] []; CHandle 2 (-4) [] []]) =
  [false; true; true; false; true; true; false].
Proof. vm_compute. reflexivity. Qed.

(* C17 — zapio.Writer logs exactly the lines of the byte stream, however it is chunked.
   Only statements closed by [exact]; the proofs are in C17/Proofs.v. *)
From Coq Require Import List Bool ZArith.
From Coq.Strings Require Import Byte.
Import ListNotations.
From Zap Require Import Base.Wire C17.Model C17.Proofs.

(* for every history of Write (any chunking, empty writes included), Sync/Close
   and level changes: messages = newline-delimited lines of the flattened stream,
   empty interior lines kept, Sync a split point, no empty message at Sync/Close *)
Theorem C17_lines : forall en ops, messages en ops = lines en [] (flatten ops).
Proof. exact lines_thm. Qed.
Print Assumptions C17_lines.

Theorem C17_chunking : forall en ops1 ops2, flatten ops1 = flatten ops2 -> messages en ops1 = messages en ops2.
Proof. exact chunking_thm. Qed.
Print Assumptions C17_chunking.

Theorem C17_returns_len : forall ops s, snd (run s ops) = write_lens ops.
Proof. exact returns_thm. Qed.
Print Assumptions C17_returns_len.

Theorem C17_disabled : forall ops, no_enable ops = true ->
  messages false ops = [] /\ buff (fst (fst (run (init false) ops))) = [].
Proof. exact disabled_thm. Qed.
Print Assumptions C17_disabled.

Theorem C17_close_empties : forall en ops, buff (fst (fst (run (init en) (ops ++ [S_])))) = [].
Proof. exact close_empties. Qed.
Print Assumptions C17_close_empties.

Theorem C17_no_loss : forall ops, only_writes ops = true ->
  let ms := messages true (ops ++ [S_]) in
  let p := pending true [] (map B (stream ops)) in
  stream ops = join_nl (lines true [] (map B (stream ops))) ++ p /\
  ms = lines true [] (map B (stream ops)) ++ (if is_nil p then [] else [p]).
Proof. exact no_loss_thm. Qed.
Print Assumptions C17_no_loss.

(* the functions the driver runs on the harness' cases -- accumulator versions of
   the model and of the oracle, able to judge lines of a megabyte -- are the
   reference model and the reference oracle, on every input and every observation *)
Theorem C17_model_fast : forall i, model i = model_ref i.
Proof. exact model_fast_thm. Qed.
Print Assumptions C17_model_fast.

Theorem C17_spec_fast : forall i o, spec i o = spec_ref i o.
Proof. exact spec_fast_thm. Qed.
Print Assumptions C17_spec_fast.

(* the oracle is the property: it accepts an observation iff the messages are the
   lines of the flattened stream and every Write returned len(p) *)
Theorem C17_spec_is_lines : forall i o, spec i o =
  (sx_eqb (sx_nth o 0) (of_blist (lines (fst (dec_case i)) [] (flatten (snd (dec_case i))))) &&
   sx_eqb (sx_nth o 1) (SL (map of_nat (write_lens (snd (dec_case i)))))).
Proof. exact spec_is_lines. Qed.
Print Assumptions C17_spec_is_lines.

Theorem C17_wire : forall i, spec i (model i) = true.
Proof. exact spec_model. Qed.
Print Assumptions C17_wire.

(* non-vacuity / sanity: "a\n\nb" "" "c\n" "d" Close  ->  a, "", bc, d *)
Example C17_example :
  messages true [W [x61; x0a; x0a; x62]; W []; W [x63; x0a]; W [x64]; S_] = [[x61]; []; [x62; x63]; [x64]].
Proof. vm_compute. reflexivity. Qed.

(* the accumulator versions compute (not only provably equal): a 300-byte line cut in
   three, its terminator sharing a chunk with the head of the next line *)
Example C17_example_fast :
  let a := repeat x61 100 in
  model (SL [SZ 1%Z; SL [SL [SZ 0%Z; SB a]; SL [SZ 0%Z; SB a]; SL [SZ 0%Z; SB (a ++ [x0a; x62])]; SL [SZ 0%Z; SB [x63; x0a]]; SL [SZ 1%Z]]])
  = SL [SL [SB (a ++ a ++ a); SB [x62; x63]]; SL [SZ 100%Z; SZ 100%Z; SZ 102%Z; SZ 2%Z]].
Proof. vm_compute. reflexivity. Qed.

(* C17 — zapio.Writer logs exactly the lines of the byte stream, however it is chunked.
   Only statements closed by [exact]; the proofs are in C17/Proofs.v. *)
From Coq Require Import List Bool.
From Coq.Strings Require Import Byte.
Import ListNotations.
From Zap Require Import Base.Wire C17.Model C17.Proofs.

(* for every history of Write (any chunking, empty writes included), Sync/Close
   and level changes: messages = newline-delimited lines of the flattened stream,
   empty interior lines kept, Sync a split point, no empty message at Sync/Close *)
Theorem C17_lines : forall en ops, messages en ops = lines en [] (flatten ops).
Proof. exact lines_thm. Qed.
Print Assumptions C17_lines.

Theorem C17_chunking : forall en ops1 ops2, flatten ops1 = flatten ops2 -> messages en ops1 = messages en ops2.
Proof. exact chunking_thm. Qed.
Print Assumptions C17_chunking.

Theorem C17_returns_len : forall ops s, snd (run s ops) = write_lens ops.
Proof. exact returns_thm. Qed.
Print Assumptions C17_returns_len.

Theorem C17_disabled : forall ops, no_enable ops = true ->
  messages false ops = [] /\ buff (fst (fst (run (init false) ops))) = [].
Proof. exact disabled_thm. Qed.
Print Assumptions C17_disabled.

Theorem C17_close_empties : forall en ops, buff (fst (fst (run (init en) (ops ++ [S_])))) = [].
Proof. exact close_empties. Qed.
Print Assumptions C17_close_empties.

Theorem C17_no_loss : forall ops, only_writes ops = true ->
  let ms := messages true (ops ++ [S_]) in
  let p := pending true [] (map B (stream ops)) in
  stream ops = join_nl (lines true [] (map B (stream ops))) ++ p /\
  ms = lines true [] (map B (stream ops)) ++ (if is_nil p then [] else [p]).
Proof. exact no_loss_thm. Qed.
Print Assumptions C17_no_loss.

Theorem C17_wire : forall i, spec i (model i) = true.
Proof. exact spec_model. Qed.
Print Assumptions C17_wire.

(* non-vacuity / sanity: "a\n\nb" "" "c\n" "d" Close  ->  a, "", bc, d *)
Example C17_example :
  messages true [W [x61; x0a; x0a; x62]; W []; W [x63; x0a]; W [x64]; S_] = [[x61]; []; [x62; x63]; [x64]].
Proof. vm_compute. reflexivity. Qed.

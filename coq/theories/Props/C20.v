(* C20 -- Level names and the level HTTP endpoint set exactly the requested level.
   Only statements closed by [exact]; the proofs are in C20/Proofs.v.

   G is the record of name tables regenerated from zapcore/level.go and level.go on
   every run (Gen/Levels.v); [level_string], [level_capital], [level_unmarshal_text],
   [serve], [run] are the model of the Go code over those tables (C20/Model.v);
   [spec_parse], [spec_name], [spec_names_level], [accept_list] are the hand-written
   specification.  Levels are integers; [valid_level l] is -1 <= l <= 5 (debug..fatal).
   A text operation returns (new value of the target, ok).
   [world], [sh_step], [sh_final], [snapshot] model AtomicLevel as a handle on a shared cell (see the
   section "one level, many holders" below); [spec_update], [spec_sh_step], [last_accepted] are the
   specification's side of it. *)
From Coq Require Import List ZArith Bool.
From Coq.Strings Require Import Byte.
Import ListNotations.
From Zap Require Import Base.Wire C20.Model C20.Proofs.
Open Scope Z_scope.

(* the regenerated tables are the documented ones: seven names, their capitals, the
   aliases "warning" and "", Level(%d)/LEVEL(%d) for anything else, constants -1..5, 6 *)
Theorem C20_generated_tables : checker G = true.
Proof. exact G_checked. Qed.
Print Assumptions C20_generated_tables.

(* String / CapitalString / MarshalText of every level value *)
Theorem C20_names : forall l,
  level_string G l = spec_name l /\ level_capital G l = spec_capital l /\
  level_marshal_text G l = level_string G l.
Proof. exact (fun l => conj (level_string_spec G G_checked l) (conj (level_capital_spec G G_checked l) eq_refl)). Qed.
Print Assumptions C20_names.

(* every valid level round-trips through its lower-case name, its capital name and its
   marshalled text, whatever the target held before *)
Theorem C20_roundtrip : forall l tgt, valid_level l = true ->
  level_unmarshal_text G tgt (level_string G l) = (l, true) /\
  level_unmarshal_text G tgt (level_capital G l) = (l, true) /\
  level_unmarshal_text G tgt (level_marshal_text G l) = (l, true).
Proof. exact (roundtrip_thm G G_checked). Qed.
Print Assumptions C20_roundtrip.

(* Set, ParseLevel, AtomicLevel.UnmarshalText (allocated or zero value), ParseAtomicLevel
   are UnmarshalText on the right target (flag, encoding/json and yaml reach the same
   method through flag.Value / encoding.TextUnmarshaler: observed, see props/C20.json) *)
Theorem C20_entry_points : forall tgt t,
  level_set G tgt t = level_unmarshal_text G tgt t /\
  parse_level G t = level_unmarshal_text G 0 t /\
  atomic_unmarshal_text G (Some tgt) t = level_unmarshal_text G tgt t /\
  atomic_unmarshal_text G None t = level_unmarshal_text G 0 t /\
  parse_atomic_level G t = level_unmarshal_text G 0 t.
Proof. exact (entry_points_thm G G_checked). Qed.
Print Assumptions C20_entry_points.

(* parsing is ASCII-case-insensitive: texts equal up to ASCII case parse alike ... *)
Theorem C20_case_insensitive : forall tgt t t', ascii_lower t = ascii_lower t' ->
  level_unmarshal_text G tgt t = level_unmarshal_text G tgt t'.
Proof. exact (case_insensitive_thm G G_checked). Qed.
Print Assumptions C20_case_insensitive.

(* ... in particular every case variant of a valid level's name reads as that level *)
Theorem C20_any_case_of_name : forall l tgt t, valid_level l = true ->
  ascii_lower t = level_string G l -> level_unmarshal_text G tgt t = (l, true).
Proof. exact (any_case_of_name_thm G G_checked). Qed.
Print Assumptions C20_any_case_of_name.

(* the accepted texts are exactly the case variants of the seven names, of "warning" and
   the empty string; any other byte string is rejected and the target keeps its value *)
Theorem C20_accept_exact : forall tgt t,
  (forall l, level_unmarshal_text G tgt t = (l, true) <-> In (ascii_lower t, l) accept_list) /\
  ((forall l, ~ In (ascii_lower t, l) accept_list) -> level_unmarshal_text G tgt t = (tgt, false)).
Proof. exact (accept_exact_thm G G_checked). Qed.
Print Assumptions C20_accept_exact.

Theorem C20_reject_unchanged : forall tgt t l ok,
  level_unmarshal_text G tgt t = (l, ok) -> ok = false -> l = tgt /\ spec_parse t = None.
Proof. exact (reject_unchanged_thm G G_checked). Qed.
Print Assumptions C20_reject_unchanged.

Theorem C20_empty_info : forall tgt, level_unmarshal_text G tgt [] = (0, true).
Proof. exact (empty_info_thm G G_checked). Qed.
Print Assumptions C20_empty_info.

(* a text containing any byte >= 0x80 names no level, whatever the low seven bits of that byte spell
   (asciiToLower must fold ASCII letters only); the target keeps its value *)
Theorem C20_high_bit_rejected : forall tgt t, existsb high_bit t = true ->
  level_unmarshal_text G tgt t = (tgt, false).
Proof. exact (high_bit_rejected_thm G G_checked). Qed.
Print Assumptions C20_high_bit_rejected.

(* ... and the premise is met, e.g. by "info" with the high bit set on its first byte *)
Example C20_ex_high_bit :
  existsb high_bit [xe9; x6e; x66; x6f] = true /\ ascii_lower [xe9; x6e; x66; x6f] = [xe9; x6e; x66; x6f].
Proof. vm_compute. split; reflexivity. Qed.

(* what String/CapitalString print for the other 249 values is not a level name *)
Theorem C20_invalid_level_text_rejected : forall l tgt, valid_level l = false ->
  level_unmarshal_text G tgt (level_string G l) = (tgt, false) /\
  level_unmarshal_text G tgt (level_capital G l) = (tgt, false).
Proof. exact (invalid_level_text_rejected_thm G G_checked). Qed.
Print Assumptions C20_invalid_level_text_rejected.

(* one HTTP request (any method, content type, form, body) against level cur:
   a PUT naming a valid level l is answered 200, sets exactly l and reports it;
   otherwise the level is unchanged, GET is answered 200 with the level in force,
   a PUT 400 and any other method 405 with an error body;
   the level changes only if the request is a PUT naming the new level;
   a live logger sharing the AtomicLevel lets through exactly the levels >= the new one *)
Theorem C20_http_step : forall cur r,
  let o := serve G cur r in
  (forall l, spec_names_level r = Some l ->
     status o = 200 /\ after o = l /\ payload o = spec_payload l /\ valid_level l = true) /\
  (spec_names_level r = None ->
     after o = cur /\
     (bytes_eqb (r_method r) s_get = true -> status o = 200 /\ payload o = spec_payload cur) /\
     (bytes_eqb (r_method r) s_get = false ->
        status o = (if bytes_eqb (r_method r) s_put then 400 else 405) /\ kind o = 2)) /\
  (after o <> cur -> bytes_eqb (r_method r) s_put = true /\ spec_names_level r = Some (after o)) /\
  mask o = enabled_mask (after o).
Proof. exact (http_step_thm G G_checked). Qed.
Print Assumptions C20_http_step.

(* the model's handler, completely: it is the specification's response function *)
Theorem C20_http_serve : forall cur r,
  serve G cur r =
  if bytes_eqb (r_method r) s_get then
    {| status := 200; kind := 1; payload := spec_payload cur; after := cur; mask := enabled_mask cur |}
  else match spec_names_level r with
       | Some l => {| status := 200; kind := 1; payload := spec_payload l; after := l; mask := enabled_mask l |}
       | None => {| status := if bytes_eqb (r_method r) s_put then 400 else 405;
                    kind := 2; payload := []; after := cur; mask := enabled_mask cur |}
       end.
Proof. exact (serve_spec G G_checked). Qed.
Print Assumptions C20_http_serve.

(* any sequence of requests against one AtomicLevel: every response is correct for the
   level in force when its request arrived, and the level at the end is that of the last
   PUT naming a valid level, else the initial one (so it is the initial or a valid level) *)
Theorem C20_http_history : forall init rs,
  hist_ok init rs (run G init rs) /\
  final_level G init rs = spec_final init rs /\
  last (map after (run G init rs)) init = spec_final init rs /\
  (spec_final init rs = init \/ valid_level (spec_final init rs) = true).
Proof. exact (http_history_thm G G_checked). Qed.
Print Assumptions C20_http_history.

Theorem C20_http_unchanged_without_named_put : forall init rs,
  (forall r, In r rs -> spec_names_level r = None) -> final_level G init rs = init.
Proof. exact (history_unchanged_thm G G_checked). Qed.
Print Assumptions C20_http_unchanged_without_named_put.

(* ---- one level, many holders ----
   An AtomicLevel is a handle on a cell (level.go: struct{ l *atomic.Int32 }); cores, loggers, the
   http mux, zap.Config.Level and plain variables hold COPIES of the handle.  A [world] is a heap of
   cells plus the list of holders (kind, address); [sh_step G] is the model of one operation issued
   through one holder (copy the handle, NewAtomicLevelAt, UnmarshalText -- directly or through
   flag.TextVar / encoding/json / yaml.v3 into the variable or a live Config --, SetLevel, ServeHTTP);
   [spec_update o] = the holder the operation addresses and the level it names, if it names one
   (valid level text, SetLevel, PUT naming a valid level); [level_seen w h] = the level holder h's
   handle gives access to; [wf_world] = every handle points into the heap (true of [init_world]). *)

(* no operation -- in particular no text decoded into a variable that is already shared --
   re-points, replaces or drops the handle of any holder *)
Theorem C20_shared_handles_kept : forall w ops h x, nth_error (w_holders w) h = Some x ->
  nth_error (w_holders (sh_final G w ops)) h = Some x.
Proof. exact (shared_handles_kept_thm G G_checked). Qed.
Print Assumptions C20_shared_handles_kept.

(* an accepted update issued through holder h is in force for EVERY holder of the same level
   (the variable itself, copies taken before, the logger, the mux, the Config), and for no other *)
Theorem C20_shared_update : forall w o h l a, wf_world w ->
  spec_update o = Some (h, l) -> handle_of w h = Some a ->
  forall j aj, handle_of w j = Some aj ->
    level_seen (fst (sh_step G w o)) j = Some (if Nat.eqb aj a then l else cell_load (w_cells w) aj).
Proof. exact (shared_update_thm G G_checked). Qed.
Print Assumptions C20_shared_update.

(* anything else (rejected text, a request that names no valid level, a copy, an unrelated new
   AtomicLevel) changes the level seen through no holder; rejected text reports an error and leaves
   the whole world untouched *)
Theorem C20_shared_rejected : forall w o, wf_world w -> spec_update o = None ->
  (forall j aj, handle_of w j = Some aj ->
     level_seen (fst (sh_step G w o)) j = Some (cell_load (w_cells w) aj)) /\
  (forall h t, o = SText h t -> handle_of w h <> None -> sh_step G w o = (w, of_bool false)).
Proof. exact (shared_rejected_thm G G_checked). Qed.
Print Assumptions C20_shared_rejected.

(* after any history every holder still is what it was and sees the level of the last accepted
   update addressed to ANY holder of its level, else the level it started with *)
Theorem C20_shared_history : forall w ops j k a, wf_world w ->
  nth_error (w_holders w) j = Some (k, a) ->
  nth_error (w_holders (sh_final G w ops)) j = Some (k, a) /\
  level_seen (sh_final G w ops) j = Some (last_accepted w ops a (cell_load (w_cells w) a)).
Proof. exact (shared_history_thm G G_checked). Qed.
Print Assumptions C20_shared_history.

(* all holders of one level agree after every history, whichever holder each update went through *)
Theorem C20_shared_agree : forall w ops i j a, wf_world w ->
  handle_of w i = Some a -> handle_of w j = Some a ->
  level_seen (sh_final G w ops) i = level_seen (sh_final G w ops) j /\
  handle_of (sh_final G w ops) i = handle_of (sh_final G w ops) j.
Proof. exact (shared_agree_thm G G_checked). Qed.
Print Assumptions C20_shared_agree.

(* what each holder REPORTS is that level in its own form: Level() for a variable or a Config,
   (levels let through, Logger.Level()) for a logger, 200 + {"level":"<name>"} for GET on a mux;
   and the model's step is the oracle's state machine, with the result the oracle expects *)
Theorem C20_shared_reports : forall w o,
  snapshot G w = spec_snapshot w /\
  fst (sh_step G w o) = spec_sh_step w o /\ spec_res w o (snd (sh_step G w o)) = true.
Proof. exact (fun w o => conj (snapshot_spec G G_checked w) (sh_step_spec G G_checked w o)). Qed.
Print Assumptions C20_shared_reports.

(* documentation of the behaviour before the fix (zapcore.Level.UnmarshalText retried with
   bytes.ToLower): for ANY function that maps the witness U+0130 "nfo" to "info" -- which
   Go's bytes.ToLower does -- the original code accepts a text the specification rejects *)
Theorem C20_reject_orig_refuted : forall go_to_lower,
  go_to_lower orig_witness_text = orig_witness_lowered -> ~ reject_full_orig go_to_lower.
Proof. exact reject_full_orig_refuted. Qed.
Print Assumptions C20_reject_orig_refuted.

Theorem C20_orig_witness :
  level_unmarshal_text_orig G 42 orig_witness_text orig_witness_lowered = (0, true) /\
  spec_result 42 orig_witness_text = (42, false) /\
  level_unmarshal_text G 42 orig_witness_text = (42, false).
Proof. exact orig_accepts_non_ascii. Qed.
Print Assumptions C20_orig_witness.

(* the oracle the driver runs accepts what the model observes, on every well-formed case *)
Theorem C20_wire : forall i, wf i = true -> spec i (model i) = true.
Proof. exact spec_model. Qed.
Print Assumptions C20_wire.

(* ---- non-vacuity ---- *)
Example C20_ex_valid : valid_level 3 = true /\ valid_level 6 = false /\ valid_level (-128) = false.
Proof. vm_compute. auto. Qed.

(* "WaRnInG" reads as warn into a target holding 42; "warnin" is rejected, 42 stays *)
Example C20_ex_text :
  level_unmarshal_text G 42 [x57; x61; x52; x6e; x49; x6e; x47] = (1, true) /\
  level_unmarshal_text G 42 [x77; x61; x72; x6e; x69; x6e] = (42, false) /\
  level_string G 3 = [x64; x70; x61; x6e; x69; x63] /\
  level_capital G (-128) = [x4c; x45; x56; x45; x4c; x28; x2d; x31; x32; x38; x29].
Proof. vm_compute. auto. Qed.

Definition ex_json (t : bytes) : request :=
  {| r_method := s_put; r_ctype := []; r_form := []; r_json := JOk [t] false |}.
Definition ex_form (t : bytes) : request :=
  {| r_method := s_put; r_ctype := s_form_ctype; r_form := [(s_level, t)]; r_json := JErr |}.
Definition ex_get : request := {| r_method := s_get; r_ctype := []; r_form := []; r_json := JErr |}.
Definition ex_post (t : bytes) : request :=
  {| r_method := [x50; x4f; x53; x54]; r_ctype := []; r_form := []; r_json := JOk [t] false |}.

(* PUT {"level":"debug"}; PUT {"level":"bogus"}; GET; PUT level=ERROR (form); POST {"level":"info"};
   PUT level= (form); PUT {"level":""}:  statuses, levels after each request, and the wire check *)
Example C20_ex_history :
  let rs := [ex_json [x64; x65; x62; x75; x67]; ex_json [x62; x6f; x67; x75; x73]; ex_get;
             ex_form [x45; x52; x52; x4f; x52]; ex_post [x69; x6e; x66; x6f]; ex_form []; ex_json []] in
  map status (run G 4 rs) = [200; 400; 200; 200; 405; 400; 200] /\
  map after (run G 4 rs) = [-1; -1; -1; 2; 2; 2; 0] /\
  map mask (run G 4 rs) = [127; 127; 127; 120; 120; 120; 126] /\
  spec_names_level (ex_form [x45; x52; x52; x4f; x52]) = Some 2 /\
  spec_final 4 rs = 0.
Proof. vm_compute. repeat split; reflexivity. Qed.

(* the oracle is not trivially true: on the case (1 2 #c4b06e666f ..) -- U+0130 "nfo" into a
   target holding 2 -- it accepts the model's observation (rejected, 2 kept) and rejects the
   observation the code before the fix produced (accepted as info by all eleven entry points) *)
Example C20_ex_oracle :
  let t := [xc4; xb0; x6e; x66; x6f] in
  let i := SL [SZ 1; SZ 2; SB t; SL [SB t]; SL [SB t]] in
  let acc := SL [SZ 0; SZ 1] in
  wf i = true /\
  model i = SL [SL [SZ 2; SZ 0]; SL [SZ 2; SZ 0]; SL [SZ 0; SZ 0]; SL [SZ 2; SZ 0]; SL [SZ 2; SZ 0]; SL [SZ 2; SZ 0];
                SL [SZ 0; SZ 0]; SL [SZ 0; SZ 0]; SL [SZ 2; SZ 0]; SL [SZ 2; SZ 0]; SL [SZ 2; SZ 0]] /\
  spec i (SL [acc; acc; acc; acc; acc; acc; acc; acc; acc; acc; acc]) = false.
Proof. vm_compute. repeat split; reflexivity. Qed.

(* ... and on a one-request history: PUT with an undecodable body against level 46 must leave 46
   (the observation of mutation M4, level reset to info, is rejected) *)
Example C20_ex_oracle_http :
  let i := SL [SZ 2; SZ 46; SL [SL [SB s_put; SB []; SL []; SL [SZ 1; SL []; SZ 0]]]] in
  model i = SL [SL [SZ 400; SZ 2; SB []; SZ 46; SZ 0]] /\
  spec i (SL [SL [SZ 400; SZ 2; SB []; SZ 0; SZ 126]]) = false /\
  spec i (SL [SL [SZ 405; SZ 2; SB []; SZ 46; SZ 0]]) = true.
Proof. vm_compute. repeat split; reflexivity. Qed.

(* ---- one level, many holders: non-vacuity ---- *)
Definition ex_debug : bytes := [x64; x65; x62; x75; x67].
Definition ex_bogus : bytes := [x62; x6f; x67; x75; x73].
(* variable at info; copy into a logger, a mux, a Config; "debug" decoded into the variable; "bogus"
   rejected; PUT level=ERROR through the mux; SetLevel(warn) through the Config; an unrelated
   AtomicLevel at fatal in a variable:  the levels seen through the six holders at the end *)
Example C20_ex_shared :
  let ops := [SCopy 0 1; SCopy 0 2; SCopy 0 3; SText 0 ex_debug; SText 0 ex_bogus;
              SReq 2 (ex_form [x45; x52; x52; x4f; x52]); SFresh 5 0; SSet 3 1; SText 4 ex_debug] in
  let w := sh_final G (init_world 0 0) ops in
  wf_world (init_world 0 0) /\
  map (level_seen w) [0; 1; 2; 3; 4; 5]%nat = [Some 1; Some 1; Some 1; Some 1; Some (-1); None] /\
  map (level_seen (sh_final G (init_world 0 0) (firstn 4 ops))) [0; 1; 2; 3]%nat = [Some (-1); Some (-1); Some (-1); Some (-1)] /\
  last_accepted (init_world 0 0) ops 0 0 = 1 /\
  spec (SL [SZ 3; SZ 0; SZ 0; SL [SL [SZ 0; SZ 0; SZ 1]; SL [SZ 2; SZ 0; SB ex_debug; SZ 0]]])
       (SL [SL [SL []; SL [SZ 0; SL [SZ 126; SZ 0]]]; SL [SZ 1; SL [SZ (-1); SL [SZ 127; SZ (-1)]]]]) = true.
Proof. split; [exact (init_world_wf 0 0)|]. vm_compute. repeat split; reflexivity. Qed.

(* the sharing theorems are about something: with an UnmarshalText that assigns a freshly parsed
   AtomicLevel to its receiver, the variable reads debug while the logger built from it earlier still
   stands at info and the two no longer share a cell ... *)
Example C20_ex_repoint_splits :
  let w := fold_left (fun w o => fst (sh_step_repoint G w o)) repoint_ops (init_world 0 0) in
  level_seen w 0 = Some (-1) /\ level_seen w 1 = Some 0 /\ handle_of w 0 <> handle_of w 1 /\
  level_seen (sh_final G (init_world 0 0) repoint_ops) 0 = Some (-1) /\
  level_seen (sh_final G (init_world 0 0) repoint_ops) 1 = Some (-1).
Proof. exact repoint_splits. Qed.

(* ... and the oracle rejects that observation (logger still at info: mask 126, level 0) *)
Example C20_ex_oracle_shared :
  spec (SL [SZ 3; SZ 0; SZ 0; SL [SL [SZ 0; SZ 0; SZ 1]; SL [SZ 2; SZ 0; SB ex_debug; SZ 0]]])
       (SL [SL [SL []; SL [SZ 0; SL [SZ 126; SZ 0]]]; SL [SZ 1; SL [SZ (-1); SL [SZ 126; SZ 0]]]]) = false.
Proof. vm_compute. reflexivity. Qed.

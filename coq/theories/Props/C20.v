(* C20 -- Level names and the level HTTP endpoint set exactly the requested level.
   Only statements closed by [exact]; the proofs are in C20/Proofs.v.

   G is the record of name tables regenerated from zapcore/level.go and level.go on
   every run (Gen/Levels.v); [level_string], [level_capital], [level_unmarshal_text],
   [serve], [run] are the model of the Go code over those tables (C20/Model.v);
   [spec_parse], [spec_name], [spec_names_level], [accept_list] are the hand-written
   specification.  Levels are integers; [valid_level l] is -1 <= l <= 5 (debug..fatal).
   A text operation returns (new value of the target, ok). *)
From Coq Require Import List ZArith Bool.
From Coq.Strings Require Import Byte.
Import ListNotations.
From Zap Require Import Base.Wire C20.Model C20.Proofs.
Open Scope Z_scope.

(* the regenerated tables are the documented ones: seven names, their capitals, the
   aliases "warning" and "", Level(%d)/LEVEL(%d) for anything else, constants -1..5, 6 *)
Theorem C20_generated_tables : checker G = true.
Proof. exact G_checked. Qed.
Print Assumptions C20_generated_tables.

(* String / CapitalString / MarshalText of every level value *)
Theorem C20_names : forall l,
  level_string G l = spec_name l /\ level_capital G l = spec_capital l /\
  level_marshal_text G l = level_string G l.
Proof. exact (fun l => conj (level_string_spec G G_checked l) (conj (level_capital_spec G G_checked l) eq_refl)). Qed.
Print Assumptions C20_names.

(* every valid level round-trips through its lower-case name, its capital name and its
   marshalled text, whatever the target held before *)
Theorem C20_roundtrip : forall l tgt, valid_level l = true ->
  level_unmarshal_text G tgt (level_string G l) = (l, true) /\
  level_unmarshal_text G tgt (level_capital G l) = (l, true) /\
  level_unmarshal_text G tgt (level_marshal_text G l) = (l, true).
Proof. exact (roundtrip_thm G G_checked). Qed.
Print Assumptions C20_roundtrip.

(* Set, ParseLevel, AtomicLevel.UnmarshalText (allocated or zero value), ParseAtomicLevel
   are UnmarshalText on the right target (flag, encoding/json and yaml reach the same
   method through flag.Value / encoding.TextUnmarshaler: observed, see props/C20.json) *)
Theorem C20_entry_points : forall tgt t,
  level_set G tgt t = level_unmarshal_text G tgt t /\
  parse_level G t = level_unmarshal_text G 0 t /\
  atomic_unmarshal_text G (Some tgt) t = level_unmarshal_text G tgt t /\
  atomic_unmarshal_text G None t = level_unmarshal_text G 0 t /\
  parse_atomic_level G t = level_unmarshal_text G 0 t.
Proof. exact (entry_points_thm G G_checked). Qed.
Print Assumptions C20_entry_points.

(* parsing is ASCII-case-insensitive: texts equal up to ASCII case parse alike ... *)
Theorem C20_case_insensitive : forall tgt t t', ascii_lower t = ascii_lower t' ->
  level_unmarshal_text G tgt t = level_unmarshal_text G tgt t'.
Proof. exact (case_insensitive_thm G G_checked). Qed.
Print Assumptions C20_case_insensitive.

(* ... in particular every case variant of a valid level's name reads as that level *)
Theorem C20_any_case_of_name : forall l tgt t, valid_level l = true ->
  ascii_lower t = level_string G l -> level_unmarshal_text G tgt t = (l, true).
Proof. exact (any_case_of_name_thm G G_checked). Qed.
Print Assumptions C20_any_case_of_name.

(* the accepted texts are exactly the case variants of the seven names, of "warning" and
   the empty string; any other byte string is rejected and the target keeps its value *)
Theorem C20_accept_exact : forall tgt t,
  (forall l, level_unmarshal_text G tgt t = (l, true) <-> In (ascii_lower t, l) accept_list) /\
  ((forall l, ~ In (ascii_lower t, l) accept_list) -> level_unmarshal_text G tgt t = (tgt, false)).
Proof. exact (accept_exact_thm G G_checked). Qed.
Print Assumptions C20_accept_exact.

Theorem C20_reject_unchanged : forall tgt t l ok,
  level_unmarshal_text G tgt t = (l, ok) -> ok = false -> l = tgt /\ spec_parse t = None.
Proof. exact (reject_unchanged_thm G G_checked). Qed.
Print Assumptions C20_reject_unchanged.

Theorem C20_empty_info : forall tgt, level_unmarshal_text G tgt [] = (0, true).
Proof. exact (empty_info_thm G G_checked). Qed.
Print Assumptions C20_empty_info.

(* what String/CapitalString print for the other 249 values is not a level name *)
Theorem C20_invalid_level_text_rejected : forall l tgt, valid_level l = false ->
  level_unmarshal_text G tgt (level_string G l) = (tgt, false) /\
  level_unmarshal_text G tgt (level_capital G l) = (tgt, false).
Proof. exact (invalid_level_text_rejected_thm G G_checked). Qed.
Print Assumptions C20_invalid_level_text_rejected.

(* one HTTP request (any method, content type, form, body) against level cur:
   a PUT naming a valid level l is answered 200, sets exactly l and reports it;
   otherwise the level is unchanged, GET is answered 200 with the level in force,
   a PUT 400 and any other method 405 with an error body;
   the level changes only if the request is a PUT naming the new level;
   a live logger sharing the AtomicLevel lets through exactly the levels >= the new one *)
Theorem C20_http_step : forall cur r,
  let o := serve G cur r in
  (forall l, spec_names_level r = Some l ->
     status o = 200 /\ after o = l /\ payload o = spec_payload l /\ valid_level l = true) /\
  (spec_names_level r = None ->
     after o = cur /\
     (bytes_eqb (r_method r) s_get = true -> status o = 200 /\ payload o = spec_payload cur) /\
     (bytes_eqb (r_method r) s_get = false ->
        status o = (if bytes_eqb (r_method r) s_put then 400 else 405) /\ kind o = 2)) /\
  (after o <> cur -> bytes_eqb (r_method r) s_put = true /\ spec_names_level r = Some (after o)) /\
  mask o = enabled_mask (after o).
Proof. exact (http_step_thm G G_checked). Qed.
Print Assumptions C20_http_step.

(* the model's handler, completely: it is the specification's response function *)
Theorem C20_http_serve : forall cur r,
  serve G cur r =
  if bytes_eqb (r_method r) s_get then
    {| status := 200; kind := 1; payload := spec_payload cur; after := cur; mask := enabled_mask cur |}
  else match spec_names_level r with
       | Some l => {| status := 200; kind := 1; payload := spec_payload l; after := l; mask := enabled_mask l |}
       | None => {| status := if bytes_eqb (r_method r) s_put then 400 else 405;
                    kind := 2; payload := []; after := cur; mask := enabled_mask cur |}
       end.
Proof. exact (serve_spec G G_checked). Qed.
Print Assumptions C20_http_serve.

(* any sequence of requests against one AtomicLevel: every response is correct for the
   level in force when its request arrived, and the level at the end is that of the last
   PUT naming a valid level, else the initial one (so it is the initial or a valid level) *)
Theorem C20_http_history : forall init rs,
  hist_ok init rs (run G init rs) /\
  final_level G init rs = spec_final init rs /\
  last (map after (run G init rs)) init = spec_final init rs /\
  (spec_final init rs = init \/ valid_level (spec_final init rs) = true).
Proof. exact (http_history_thm G G_checked). Qed.
Print Assumptions C20_http_history.

Theorem C20_http_unchanged_without_named_put : forall init rs,
  (forall r, In r rs -> spec_names_level r = None) -> final_level G init rs = init.
Proof. exact (history_unchanged_thm G G_checked). Qed.
Print Assumptions C20_http_unchanged_without_named_put.

(* documentation of the behaviour before the fix (zapcore.Level.UnmarshalText retried with
   bytes.ToLower): for ANY function that maps the witness U+0130 "nfo" to "info" -- which
   Go's bytes.ToLower does -- the original code accepts a text the specification rejects *)
Theorem C20_reject_orig_refuted : forall go_to_lower,
  go_to_lower orig_witness_text = orig_witness_lowered -> ~ reject_full_orig go_to_lower.
Proof. exact reject_full_orig_refuted. Qed.
Print Assumptions C20_reject_orig_refuted.

Theorem C20_orig_witness :
  level_unmarshal_text_orig G 42 orig_witness_text orig_witness_lowered = (0, true) /\
  spec_result 42 orig_witness_text = (42, false) /\
  level_unmarshal_text G 42 orig_witness_text = (42, false).
Proof. exact orig_accepts_non_ascii. Qed.
Print Assumptions C20_orig_witness.

(* the oracle the driver runs accepts what the model observes, on every well-formed case *)
Theorem C20_wire : forall i, wf i = true -> spec i (model i) = true.
Proof. exact spec_model. Qed.
Print Assumptions C20_wire.

(* ---- non-vacuity ---- *)
Example C20_ex_valid : valid_level 3 = true /\ valid_level 6 = false /\ valid_level (-128) = false.
Proof. vm_compute. auto. Qed.

(* "WaRnInG" reads as warn into a target holding 42; "warnin" is rejected, 42 stays *)
Example C20_ex_text :
  level_unmarshal_text G 42 [x57; x61; x52; x6e; x49; x6e; x47] = (1, true) /\
  level_unmarshal_text G 42 [x77; x61; x72; x6e; x69; x6e] = (42, false) /\
  level_string G 3 = [x64; x70; x61; x6e; x69; x63] /\
  level_capital G (-128) = [x4c; x45; x56; x45; x4c; x28; x2d; x31; x32; x38; x29].
Proof. vm_compute. auto. Qed.

Definition ex_json (t : bytes) : request :=
  {| r_method := s_put; r_ctype := []; r_form := []; r_json := JOk [t] false |}.
Definition ex_form (t : bytes) : request :=
  {| r_method := s_put; r_ctype := s_form_ctype; r_form := [(s_level, t)]; r_json := JErr |}.
Definition ex_get : request := {| r_method := s_get; r_ctype := []; r_form := []; r_json := JErr |}.
Definition ex_post (t : bytes) : request :=
  {| r_method := [x50; x4f; x53; x54]; r_ctype := []; r_form := []; r_json := JOk [t] false |}.

(* PUT {"level":"debug"}; PUT {"level":"bogus"}; GET; PUT level=ERROR (form); POST {"level":"info"};
   PUT level= (form); PUT {"level":""}:  statuses, levels after each request, and the wire check *)
Example C20_ex_history :
  let rs := [ex_json [x64; x65; x62; x75; x67]; ex_json [x62; x6f; x67; x75; x73]; ex_get;
             ex_form [x45; x52; x52; x4f; x52]; ex_post [x69; x6e; x66; x6f]; ex_form []; ex_json []] in
  map status (run G 4 rs) = [200; 400; 200; 200; 405; 400; 200] /\
  map after (run G 4 rs) = [-1; -1; -1; 2; 2; 2; 0] /\
  map mask (run G 4 rs) = [127; 127; 127; 120; 120; 120; 126] /\
  spec_names_level (ex_form [x45; x52; x52; x4f; x52]) = Some 2 /\
  spec_final 4 rs = 0.
Proof. vm_compute. repeat split; reflexivity. Qed.

(* the oracle is not trivially true: on the case (1 2 #c4b06e666f ..) -- U+0130 "nfo" into a
   target holding 2 -- it accepts the model's observation (rejected, 2 kept) and rejects the
   observation the code before the fix produced (accepted as info by all eleven entry points) *)
Example C20_ex_oracle :
  let t := [xc4; xb0; x6e; x66; x6f] in
  let i := SL [SZ 1; SZ 2; SB t; SL [SB t]; SL [SB t]] in
  let acc := SL [SZ 0; SZ 1] in
  wf i = true /\
  model i = SL [SL [SZ 2; SZ 0]; SL [SZ 2; SZ 0]; SL [SZ 0; SZ 0]; SL [SZ 2; SZ 0]; SL [SZ 2; SZ 0]; SL [SZ 2; SZ 0];
                SL [SZ 0; SZ 0]; SL [SZ 0; SZ 0]; SL [SZ 2; SZ 0]; SL [SZ 2; SZ 0]; SL [SZ 2; SZ 0]] /\
  spec i (SL [acc; acc; acc; acc; acc; acc; acc; acc; acc; acc; acc]) = false.
Proof. vm_compute. repeat split; reflexivity. Qed.

(* ... and on a one-request history: PUT with an undecodable body against level 46 must leave 46
   (the observation of mutation M4, level reset to info, is rejected) *)
Example C20_ex_oracle_http :
  let i := SL [SZ 2; SZ 46; SL [SL [SB s_put; SB []; SL []; SL [SZ 1; SL []; SZ 0]]]] in
  model i = SL [SL [SZ 400; SZ 2; SB []; SZ 46; SZ 0]] /\
  spec i (SL [SL [SZ 400; SZ 2; SB []; SZ 0; SZ 126]]) = false /\
  spec i (SL [SL [SZ 405; SZ 2; SB []; SZ 46; SZ 0]]) = true.
Proof. vm_compute. repeat split; reflexivity. Qed.

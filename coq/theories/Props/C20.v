(* C20 — stub: no theorems yet *)
From Zap Require Import Base.Wire C20.Model C20.Proofs.

(* C06 — stub: no theorems yet *)
From Zap Require Import Base.Wire C06.Model C06.Proofs.

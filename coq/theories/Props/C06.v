(* C06 — Panic and Fatal always terminate, after the entry is written and flushed.
   Only statements closed by [exact]; proofs are in C06/Proofs.v (on top of C05's core-tree theorems).
   [log_call w lg io (fam_of m) l] is the model of one call of front-end method m at level l on logger
   lg (core tree, development flag, panic and fatal hooks) in world w (AtomicLevel values): the list
   of core events (Write / Sync / hook) and the terminal action that ends it, if any. *)
From Coq Require Import List Bool ZArith.
From Coq.Strings Require Import Byte.
Import ListNotations.
From Zap Require Import Base.Wire C05.Cores C05.CoreProofs C05.Sampling C05.Model C06.Pool C06.PoolProofs C06.Model C06.Proofs.
Open Scope Z_scope.

(* every front-end method that can log at a terminal level (Panic, Fatal, and DPanic in development)
   - whatever the core tree, the AtomicLevel values, the level filters (so also when the level is
   disabled or every core is a no-op) and the configured hooks - writes the cores that accepted and
   then runs the terminal action *)
Theorem C06_terminates : forall w lg io m l,
  In m methods -> can_log m l = true -> terminal lg l ->
  log_call w lg io (fam_of m) l =
  (write_events io l (cores_of (check w (lcore lg) l None)), Some (expected_action lg l)).
Proof. exact terminates_thm. Qed.
Print Assumptions C06_terminates.

(* the same for ANY answer of Core.Check (nil, a sampler that dropped the entry, a custom core):
   Logger.check attaches the hook regardless, CheckedEntry.Write runs it after the cores *)
Theorem C06_any_check_answer : forall lg io l e,
  terminal lg l -> finish lg io l e = (write_events io l (cores_of e), Some (expected_action lg l)).
Proof. exact finish_terminal. Qed.
Print Assumptions C06_any_check_answer.

(* ... and whatever the message: [front_call w lg io m l msg] is the call of method m at level l whose
   arguments amount to the message msg (what fmt makes of the arguments, what bytes.TrimSpace leaves
   of a std-log line: empty, blank, anything).  What a call does never depends on it; a terminal call
   terminates for every message, and the default panic action carries exactly that message *)
Theorem C06_message_irrelevant : forall w lg io m l msg,
  fst (front_call w lg io m l msg) = log_call w lg io (fam_of m) l.
Proof. exact message_irrelevant. Qed.
Print Assumptions C06_message_irrelevant.
Theorem C06_any_message : forall w lg io m l msg,
  In m methods -> can_log m l = true -> terminal lg l ->
  front_call w lg io m l msg =
  (write_events io l (cores_of (check w (lcore lg) l None)), Some (expected_action lg l),
   panic_value (Some (expected_action lg l)) msg).
Proof. exact any_message_thm. Qed.
Print Assumptions C06_any_message.
Theorem C06_panic_carries_message : forall w lg io m l msg,
  In m methods -> can_log m l = true -> terminal lg l -> expected_action lg l = APanic ->
  snd (front_call w lg io m l msg) = Some msg.
Proof. exact panic_carries_message. Qed.
Print Assumptions C06_panic_carries_message.

(* the action is the configured hook, except that a nil or WriteThenNoop hook means the default
   (panic with the message / exit status 1) *)
Theorem C06_hook_override : forall lg,
  ((on_fatal lg = HNil \/ on_fatal lg = HNoop) -> expected_action lg FatalL = AExit) /\
  ((on_panic lg = HNil \/ on_panic lg = HNoop) -> expected_action lg PanicL = APanic /\ expected_action lg DPanicL = APanic) /\
  (forall k, on_fatal lg = HCustom k -> expected_action lg FatalL = ACustom k) /\
  (forall k, on_panic lg = HCustom k -> expected_action lg PanicL = ACustom k /\ expected_action lg DPanicL = ACustom k).
Proof. exact expected_action_defaults. Qed.
Print Assumptions C06_hook_override.

(* DPanic terminates exactly in development mode *)
Theorem C06_dpanic_iff_dev : forall w lg io m,
  In m methods -> can_log m DPanicL = true ->
  (snd (log_call w lg io (fam_of m) DPanicL) <> None <-> dev lg = true).
Proof. exact dpanic_iff_dev. Qed.
Print Assumptions C06_dpanic_iff_dev.

(* no other call ever runs a terminal action (any family, any of the 256 level values) *)
Theorem C06_no_spurious_termination : forall w lg io f l,
  ~ terminal lg l ->
  log_call w lg io f l = (write_events io l (cores_of (check w (lcore lg) l None)), None).
Proof. exact not_terminal_thm. Qed.
Print Assumptions C06_no_spurious_termination.

(* before control is lost the entry has been handed to every accepting core, in order, the hooks due
   have run, every IO core's Write is immediately followed by the Sync of its sink, and a buffered
   sink (abstractly: Sync moves everything queued to the file) holds every line in the file *)
Theorem C06_written_first : forall w lg m l,
  In m methods -> can_log m l = true -> terminal lg l ->
  let evs := fst (log_call w lg all_io (fam_of m) l) in
  writes_of evs = delivered w (lcore lg) l /\
  ev_hooks_of evs = hooks_due w (lcore lg) l /\
  sync_ok true evs = true /\
  (forall id, flushed_lines id evs 0 0 = count_writes id (delivered w (lcore lg) l)).
Proof. exact written_first_thm. Qed.
Print Assumptions C06_written_first.

(* "so the final message is never left in a buffer", for every stack of WriteSyncer combinators between an
   IO core and its sinks.  [ws] is such a stack with its state: recording sinks whose Write only stages the
   bytes and whose Sync commits them, below any nesting of BufferedWriteSyncers (any Size, stopped or not,
   anything in their buffers), zapcore.Lock, AddSync and multi-WriteSyncers; [sk_run ns sy s] = the Writes of
   lengths ns, then (sy) a Sync; [sk_pending 0 s] = per sink, the bytes written at the top that it has not
   committed.
   A Sync reaches every sink: after it, whatever was written before and however long, nothing is pending *)
Theorem C06_sync_reaches_every_sink : forall s ns, Forall (eq 0) (sk_pending 0 (sk_run ns true s)).
Proof. exact (fun s ns => sync_reaches_every_sink s ns 0). Qed.
Print Assumptions C06_sync_reaches_every_sink.
(* no stack loses or duplicates a byte (per sink: on the way + committed grows by what is written at the top),
   so a sink with nothing pending has committed everything that was ever written *)
Theorem C06_sink_stack_conserves : forall s ns sy,
  sk_held 0 (sk_run ns sy s) = map (Z.add (zsum ns)) (sk_held 0 s).
Proof. exact (fun s ns sy => stack_conserves s ns sy 0). Qed.
Print Assumptions C06_sink_stack_conserves.
(* before control is lost, for every sink stack: [st] gives every IO leaf its stack in any state, [lens] the
   lengths of the encoded entries (any).  When the terminal action runs, every sink below every core that
   accepted the entry has nothing pending, i.e. it has committed everything that was ever written to it *)
Theorem C06_committed_before_control_is_lost : forall w lg m l lens st,
  In m methods -> can_log m l = true -> terminal lg l ->
  let st' := run_evs lens st (fst (log_call w lg all_io (fam_of m) l)) in
  forall id, In id (delivered w (lcore lg) l) ->
    Forall (eq 0) (sk_pending 0 (st' id)) /\ map (Z.add 0) (sk_committed (st' id)) = sk_held 0 (st' id).
Proof. exact committed_first_thm. Qed.
Print Assumptions C06_committed_before_control_is_lost.

(* ---- "even when the entry is sampled out": samplers that really drop (C05/Sampling.v) ----
   [log_call_s dec w lg io (fam_of m) l] is the same call on a tree whose samplers drop: the samplers are numbered
   in pre-order and [dec k] says whether sampler k's counter answers "drop" for this entry - ARBITRARY in every
   theorem below (which entries a sampler drops is C11's).  A sampler that drops returns the CheckedEntry it was
   handed, with every core an earlier branch of a tee registered on it.
   Whatever the samplers decide, every front-end method terminates after writing what Core.Check registered *)
Theorem C06_terminates_sampled : forall dec w lg io m l,
  In m methods -> can_log m l = true -> terminal lg l ->
  log_call_s dec w lg io (fam_of m) l =
  (write_events io l (cores_of (check_s dec w (lcore lg) 0 l None)), Some (expected_action lg l)).
Proof. exact terminates_s_thm. Qed.
Print Assumptions C06_terminates_sampled.
(* samplers that never drop: the call of the theorems above *)
Theorem C06_no_drop_is_plain : forall w lg io f l, log_call_s no_drop w lg io f l = log_call w lg io f l.
Proof. exact no_drop_plain_thm. Qed.
Print Assumptions C06_no_drop_is_plain.
(* before control is lost the entry has been handed, in order, to exactly the leaves all of whose level filters
   enable the level and none of whose samplers dropped it ([delivered_s]: a specification over root-to-leaf paths
   that never runs Check), the hooks due have run, every Write is followed by the Sync of its sink, and an
   (abstract) buffered sink holds every line *)
Theorem C06_written_first_sampled : forall dec w lg m l,
  In m methods -> can_log m l = true -> terminal lg l ->
  let evs := fst (log_call_s dec w lg all_io (fam_of m) l) in
  writes_of evs = delivered_s dec w (lcore lg) 0 l /\
  ev_hooks_of evs = hooks_due_s dec w (lcore lg) 0 l /\
  sync_ok true evs = true /\
  (forall id, flushed_lines id evs 0 0 = count_writes id (delivered_s dec w (lcore lg) 0 l)).
Proof. exact written_first_s_thm. Qed.
Print Assumptions C06_written_first_sampled.
(* a drop takes the entry from the sampler's own subtree and from nothing else: for ANY root-to-leaf path of the
   tree ([ens] = the level enablers on it, [ss] = the samplers on it), if every enabler on the path enables the
   level and no sampler on the path drops, the leaf is written before control is lost - whatever the samplers, the
   disabled filters and the declining wrappers before, between or after it in a tee (at any depth) do *)
Theorem C06_drop_spares_every_other_core : forall dec w lg m l ens ss id,
  In m methods -> can_log m l = true -> terminal lg l ->
  In (ens, ss, id) (paths_s (lcore lg) 0) ->
  forallb (fun en => on w en l) ens = true -> (forall s, In s ss -> dec s = false) ->
  In id (writes_of (fst (log_call_s dec w lg all_io (fam_of m) l))).
Proof. exact drop_spares_others_thm. Qed.
Print Assumptions C06_drop_spares_every_other_core.
(* ... and every sink below every such leaf, whatever the sink stack, has committed everything ever written to it *)
Theorem C06_committed_before_control_is_lost_sampled : forall dec w lg m l lens st,
  In m methods -> can_log m l = true -> terminal lg l ->
  let st' := run_evs lens st (fst (log_call_s dec w lg all_io (fam_of m) l)) in
  forall id, In id (delivered_s dec w (lcore lg) 0 l) ->
    Forall (eq 0) (sk_pending 0 (st' id)) /\ map (Z.add 0) (sk_committed (st' id)) = sk_held 0 (st' id).
Proof. exact committed_first_s_thm. Qed.
Print Assumptions C06_committed_before_control_is_lost_sampled.

(* zapio.Writer (not among the front ends the property enumerates) returns early from Write when its
   level is disabled, also at Panic/Fatal: the statement holds for it only when the level is enabled
   (known finding zapio-terminal-disabled) *)
Theorem C06_zapio_partial : forall w lg io l,
  enabled w (lcore lg) l = true -> terminal lg l ->
  log_call w lg io (fam_of zapio_method) l =
  (write_events io l (cores_of (check w (lcore lg) l None)), Some (expected_action lg l)).
Proof. exact zapio_partial. Qed.
Print Assumptions C06_zapio_partial.
Theorem C06_zapio_full_refuted : ~ zapio_full.
Proof. exact zapio_full_refuted. Qed.
Print Assumptions C06_zapio_full_refuted.

(* the code before the zapgrpc fix: Fatalln on a logger with Fatal disabled returned *)
Theorem C06_terminates_orig_refuted : ~ terminates_orig_full.
Proof. exact terminates_orig_refuted. Qed.
Print Assumptions C06_terminates_orig_refuted.

(* ---- the terminal action works on the entry that was logged, whatever is logged in between ----
   CheckWriteAction.OnWrite panics with ce.Message, custom hooks read ce.Level / ce.Message / ce.LoggerName of the
   *CheckedEntry they are handed; CheckedEntries are recycled through a sync.Pool.  C06/Pool.v is the machine: a heap
   of entries, the pool, any number of threads each making log calls (Get + reset, fill, one read of ce.Entry per
   core, the hook looks, Put - the order of zapcore/entry.go), a schedule interleaving the steps of all threads in
   any way and choosing, for every Get, any pooled element or a new one.  A log call a hook, a sink or a marshaler
   makes before it looks at the entry is a call of another thread that runs in a gap of the call it is nested in.
   For EVERY such run: every core of every call was handed, and the hook of every call found in its CheckedEntry,
   the entry that very call logged *)
Theorem C06_hook_sees_logged_entry : forall jobs sc i d,
  In d (t_done (p_thr (prun false sc (pinit jobs)) i)) ->
  d_saw d = d_ent d /\ Forall (eq (d_ent d)) (d_reads d).
Proof. exact hook_sees_logged_entry. Qed.
Print Assumptions C06_hook_sees_logged_entry.
(* ... also for a call that never gets to its Put (the hook has looked and panics, exits, calls Goexit) *)
Theorem C06_hook_sees_logged_entry_when_it_looks : forall jobs sc i a j r,
  let t := p_thr (prun false sc (pinit jobs)) i in
  t_pc t = PPut a -> t_todo t = j :: r -> t_saw t = j_ent j /\ Forall (eq (j_ent j)) (t_reads t).
Proof. exact hook_sees_logged_entry_now. Qed.
Print Assumptions C06_hook_sees_logged_entry_when_it_looks.
(* the records are of the calls the threads were given, in order: calls made ++ calls still to make *)
Theorem C06_calls_accounted : forall early jobs sc i,
  let t := p_thr (prun early sc (pinit jobs)) i in
  map d_ent (t_done t) ++ map j_ent (t_todo t) = map j_ent (jobs i).
Proof. exact calls_accounted. Qed.
Print Assumptions C06_calls_accounted.
(* with the front ends: in any run, any call that logged (l, msg, name) through any front-end method at a terminal
   level - the hook finds exactly that entry, and the terminal action acting on what it finds ends the call as the
   property says: the default action panics with msg; a custom hook that first logs through another logger and then
   delegates to WriteThenPanic / WriteThenGoexit / WriteThenFatal or switches on ce.Level panics with msg / calls
   Goexit / exits as the level l demands ([spec_term]: the oracle's terminal observation) *)
Theorem C06_terminal_action_on_logged_entry : forall dec w lg io m l msg name jobs sc i d,
  In m methods -> can_log m l = true -> terminal lg l ->
  In d (t_done (p_thr (prun false sc (pinit jobs)) i)) ->
  d_ent d = {| en_level := l; en_msg := msg; en_name := name |} ->
  d_saw d = {| en_level := l; en_msg := msg; en_name := name |} /\
  hook_term (snd (log_call_s dec w lg io (fam_of m) l)) (d_saw d) = spec_term lg l msg.
Proof. exact action_on_logged_entry. Qed.
Print Assumptions C06_terminal_action_on_logged_entry.
Theorem C06_logging_hook_is_the_action : forall lg,
  (forall k m, on_fatal lg = HHook k m -> expected_action lg FatalL = AHook k m) /\
  (forall k m, on_panic lg = HHook k m -> expected_action lg PanicL = AHook k m /\ expected_action lg DPanicL = AHook k m).
Proof. exact expected_action_hook. Qed.
Print Assumptions C06_logging_hook_is_the_action.
(* the interleaving the wire model runs (thread 1 makes [nested] complete calls and thread 2 advances [conc] steps
   in every gap of the call of thread 0, sync.Pool handing out what was put back last) is one of them: the call
   runs to its end, all k cores and the hook get the entry logged *)
Theorem C06_wire_interleaving : forall e k nested conc, wire_seen false e k nested conc = (repeat e k, e).
Proof. exact wire_seen_logged. Qed.
Print Assumptions C06_wire_interleaving.
(* "hooks panic, so put the entry back first" is refuted: a hook that logs before it looks finds the other entry *)
Theorem C06_early_release_refuted : ~ early_release_safe.
Proof. exact early_release_refuted. Qed.
Print Assumptions C06_early_release_refuted.

(* ---- composite cores written through their own Write method; cores whose Write fails ----
   zap's own wrappers let the cores beneath them register individually in Core.Check, so CheckedEntry.Write calls
   the IO cores directly.  A user-defined wrapper of the usual shape (filter / audit / metrics core: embed the Core,
   Check adds ITSELF when the wrapped core is enabled, Write forwards to the wrapped core) puts multiCore.Write,
   levelFilterCore.Write, lazyWithCore.Write, the sampler's promoted Write and hooked.Write between the CheckedEntry
   and the IO cores.  [xcore] is a composition as its Write methods see it (any nesting of tees, filters, samplers,
   lazy cores, hooked cores and wrappers over IO cores), [fails id] says that the sink of IO core id fails every
   Write, [hfails h] that a hook function of set h returns an error - both ARBITRARY below.
   Core.Write of a composite hands the entry to every IO core beneath it along the edges that forward Write
   ([x_reach]: all of a tee's cores, in order, whatever the others returned; none beneath a hooked core, whose
   Write runs the hooks only), runs the hook sets due, and reports an error exactly when something failed *)
Theorem C06_composite_write_reaches_every_core : forall fails hfails hi c,
  writes_of (fst (x_write fails hfails hi c)) = x_reach c /\
  ev_fhooks_of (fst (x_write fails hfails hi c)) = x_hooks c /\
  ev_hooks_of (fst (x_write fails hfails hi c)) = [] /\
  snd (x_write fails hfails hi c) = existsb fails (x_reach c) || existsb hfails (x_hooks c).
Proof. exact composite_write_thm. Qed.
Print Assumptions C06_composite_write_reaches_every_core.
(* ... and above error level every healthy one of them is synced right after its Write, at every position of every tee *)
Theorem C06_healthy_core_synced_whatever_fails : forall fails hfails c id,
  In id (x_reach c) -> fails id = false ->
  exists a b, fst (x_write fails hfails true c) = a ++ EWrite id :: ESync id :: b.
Proof. exact healthy_core_synced. Qed.
Print Assumptions C06_healthy_core_synced_whatever_fails.
(* "return on the first error" in multiCore.Write is refuted: the healthy core behind a failing one is lost *)
Theorem C06_tee_first_error_refuted : ~ tee_first_error_full.
Proof. exact tee_first_error_refuted. Qed.
Print Assumptions C06_tee_first_error_refuted.
(* the wrapper as Core.Check sees it is a leaf whose enabler is the wrapped core's Enabled (wire: a truth table over
   the 256 values of zapcore.Level), so every theorem above about what Check registers applies to trees with wrappers *)
Theorem C06_wrapper_registers_when_enabled : forall (f : level -> bool) w l,
  -128 <= l <= 127 -> on w (dec_en (SL [SZ 2; SB (tbl_of f)])) l = f l.
Proof. exact fwd_enabler_spec. Qed.
Print Assumptions C06_wrapper_registers_when_enabled.
(* [log_call_x fx dec w lg (fam_of m) l]: the call on a logger whose CheckedEntry may hold wrappers ([fe_fw fx id] = what
   wrapper id wraps; [lcore lg] = the tree as Check sees it) and whose cores may fail ([fe_fails fx], [fe_hfails fx]).
   Whatever is wrapped, whatever fails, whatever the samplers decide, every front-end method at a terminal level
   writes every core on the CheckedEntry through its Write method and then runs the terminal action *)
Theorem C06_terminates_forwarding : forall fx dec w lg m l,
  In m methods -> can_log m l = true -> terminal lg l ->
  log_call_x fx dec w lg (fam_of m) l =
  (fst (ce_write fx true (cores_of (check_s dec w (lcore lg) 0 l None))), Some (expected_action lg l)).
Proof. exact terminates_x_thm. Qed.
Print Assumptions C06_terminates_forwarding.
(* before control is lost the entry has been handed, in order, to every IO core it had to reach ([must_reach]: the
   leaves on accepting paths and, for every wrapper on an accepting path, every leaf its Write reaches - the failing
   ones included), the hooks due have run, and every HEALTHY one of these IO cores has been synced right after its
   Write, so that the file behind a buffered sink holds the line - whichever other cores failed *)
Theorem C06_written_first_forwarding : forall fx dec w lg m l,
  In m methods -> can_log m l = true -> terminal lg l ->
  let evs := fst (log_call_x fx dec w lg (fam_of m) l) in
  writes_of evs = must_reach fx dec w lg l /\
  ev_hooks_of evs = hooks_due_s dec w (lcore lg) 0 l /\
  ev_fhooks_of evs = flat_map (fhooks_of fx) (delivered_s dec w (lcore lg) 0 l) /\
  sync_ok_x (fe_fails fx) true evs = true /\
  (forall id, In id (must_reach fx dec w lg l) -> fe_fails fx id = false ->
     (exists a b, evs = a ++ EWrite id :: ESync id :: b) /\
     flushed_lines_x (fe_fails fx) id evs 0 0 = count_writes id (must_reach fx dec w lg l)).
Proof. exact written_first_x_thm. Qed.
Print Assumptions C06_written_first_forwarding.
(* ... and every sink below every such healthy IO core, whatever the sink stack, has committed everything *)
Theorem C06_committed_before_control_is_lost_forwarding : forall fx dec w lg m l lens st,
  In m methods -> can_log m l = true -> terminal lg l ->
  let st' := run_evs_x (fe_fails fx) lens st (fst (log_call_x fx dec w lg (fam_of m) l)) in
  forall id, In id (must_reach fx dec w lg l) -> fe_fails fx id = false ->
    Forall (eq 0) (sk_pending 0 (st' id)) /\ map (Z.add 0) (sk_committed (st' id)) = sk_held 0 (st' id).
Proof. exact committed_first_x_thm. Qed.
Print Assumptions C06_committed_before_control_is_lost_forwarding.
(* no wrapper and nothing fails: the call of the theorems further up *)
Theorem C06_forwarding_conservative : forall dec w lg f l,
  log_call_x fx_plain dec w lg f l = log_call_s dec w lg all_io f l.
Proof. exact forwarding_conservative. Qed.
Print Assumptions C06_forwarding_conservative.

Theorem C06_wire : forall i, wf i = true -> spec i (model i) = true.
Proof. exact spec_model. Qed.
Print Assumptions C06_wire.

(* ---- non-vacuity ---- *)
Definition ex_logger : logger :=
  {| lcore := Tee [Leaf 0 (ELvl InfoL); Hooked (Leaf 1 (ELvl InvalidL)) 3; Sampled (Leaf 2 (EAtom 0))];
     dev := true; on_panic := HNoop; on_fatal := HCustom 9 |}.
Example C06_example_methods : length methods = 58%nat /\ In fatalln methods.
Proof. vm_compute. split; [reflexivity|tauto]. Qed.
Example C06_example_fatal :
  log_call (fun _ => ErrorL) ex_logger all_io FGrpcPrintln FatalL =
  ([EWrite 0; ESync 0; EWrite 2; ESync 2], Some (ACustom 9)).
Proof. vm_compute. reflexivity. Qed.
Example C06_example_dpanic_disabled :
  log_call (fun _ => InvalidL) {| lcore := Nop; dev := true; on_panic := HNil; on_fatal := HNil |} all_io FSugarln DPanicL = ([], Some APanic) /\
  log_call (fun _ => InvalidL) {| lcore := Nop; dev := false; on_panic := HNil; on_fatal := HNil |} all_io FSugarln DPanicL = ([], None).
Proof. vm_compute. split; reflexivity. Qed.
Example C06_example_wf : wf (SL [SL [SZ 1]; SL []; SZ 1; SL [SZ 0]; SL [SZ 1]; SZ 0; SL [SL [SZ 2; SZ 7; SZ 3; SZ 5]]]) = true.
Proof. vm_compute. reflexivity. Qed.
(* a blank line through the std-log bridge at Panic level on a no-op core: the panic carries the empty message *)
Example C06_example_blank_stdlog :
  front_call (fun _ => InvalidL) {| lcore := Nop; dev := false; on_panic := HNil; on_fatal := HNil |} all_io
             {| m_recv := RStdLog; m_kind := KLog; m_suffix := SNone |} PanicL [] = ([], Some APanic, Some []) /\
  model (SL [SL [SZ 1]; SL []; SZ 0; SL [SZ 0]; SL [SZ 0]; SZ 0; SL [SL [SZ 4; SZ 0; SZ 0; SZ 4; SB []]]]) =
  SL [SL [SL [SL []; SL [SZ 0; SB []]; SL []; SL []; SL []]]; SL []].
Proof. vm_compute. split; reflexivity. Qed.
(* a 300-byte Fatal entry after a 20-byte Info entry, through BufferedWriteSyncer{Size: 128} around a stopped
   BufferedWriteSyncer around Lock around a multi-WriteSyncer of a sink and a BufferedWriteSyncer{Size: 64}
   over a sink: the Info entry sits in the outer buffer (20 bytes pending for both sinks), the Fatal entry
   pushes it out and goes past every buffer (320 bytes staged in both sinks), and the Sync commits them *)
Definition ex_stack : ws :=
  SkBuf 128 false 0 (SkBuf 0 true 0 (SkLock (SkMulti [SkAddSync (SkSink 0 0); SkBuf 64 false 0 (SkSink 0 0)]))).
Example C06_example_stack :
  sk_pending 0 (sk_write 20 ex_stack) = [20; 20] /\
  sk_pending 0 (sk_write 300 (sk_write 20 ex_stack)) = [320; 320] /\
  sk_pending 0 (sk_sync (sk_write 300 (sk_write 20 ex_stack))) = [0; 0] /\
  sk_committed (sk_sync (sk_write 300 (sk_write 20 ex_stack))) = [320; 320].
Proof. vm_compute. repeat split; reflexivity. Qed.
(* tee[audit core, sampler(first 1, thereafter 0)(console core)], the same Panic message four times on one logger:
   the sampler drops the console core's copy from the second time on; the audit core is written and synced every
   time, and the panic follows.  (wire: tree, no cells, development off, nil hooks, in-process, four calls) *)
Definition ex_audit_tee : sx :=
  SL [SZ 2; SL [SZ 0; SZ 0; SL [SZ 0; SZ (-1)]]; SL [SZ 8; SL [SZ 0; SZ 1; SL [SZ 0; SZ (-1)]]; SZ 1; SZ 0]].
Definition ex_panic_call : sx := SL [SZ 0; SZ 6; SZ 0; SZ 4; SB [x68; x69]; SL []; SL []; SZ 1690].
Example C06_example_sampled_out_sibling :
  model (SL [ex_audit_tee; SL []; SZ 0; SL [SZ 0]; SL [SZ 0]; SZ 0; SL [ex_panic_call; ex_panic_call; ex_panic_call]]) =
  SL [SL [SL [SL [SL [SZ 0; SZ 0]; SL [SZ 1; SZ 0]; SL [SZ 0; SZ 1]; SL [SZ 1; SZ 1]]; SL [SZ 0; SB [x68; x69]]; SL []; SL [SL [SZ 0; SZ 0]]; SL []];
              SL [SL [SL [SZ 0; SZ 0]; SL [SZ 1; SZ 0]]; SL [SZ 0; SB [x68; x69]]; SL []; SL [SL [SZ 0; SZ 1]]; SL []];
              SL [SL [SL [SZ 0; SZ 0]; SL [SZ 1; SZ 0]]; SL [SZ 0; SB [x68; x69]]; SL []; SL [SL [SZ 0; SZ 1]]; SL []]]; SL []] /\
  (* the oracle rejects an observation in which the dropped repeat did not reach the audit core *)
  spec (SL [ex_audit_tee; SL []; SZ 0; SL [SZ 0]; SL [SZ 0]; SZ 0; SL [ex_panic_call]])
       (SL [SL [SL [SL []; SL [SZ 0; SB [x68; x69]]; SL []; SL [SL [SZ 0; SZ 1]]]]; SL []]) = false.
Proof. vm_compute. repeat split; reflexivity. Qed.
(* a logger named "m" whose panic hook (kind 6, number 7) makes 2 log calls through another logger while another
   goroutine logs, then reads the entry and delegates to WriteThenPanic; one entry hook (4) on the only core.
   Logger.Panic("hi"): the entry hook and the terminal hook report (4, "hi", "m"), the panic carries "hi"; the oracle
   rejects a run in which the hook found the other logger's entry, and one in which a level-dispatching hook
   (mode 3) therefore returned *)
Definition ex_hooked_leaf : sx := SL [SZ 3; SL [SZ 0; SZ 0; SL [SZ 0; SZ (-1)]]; SZ 4].
Definition ex_noise_case (mode : Z) : sx :=
  SL [ex_hooked_leaf; SL []; SZ 0; SL [SZ 6; SZ 7; SZ mode]; SL [SZ 0]; SZ 0; SL [ex_panic_call]; SL [];
      SL [SB [x6d]; SZ 2; SZ 1; SZ 1]].
Definition ex_seen_ok : sx := SL [SZ 4; SB [x68; x69]; SB [x6d]].
Example C06_example_logging_hook :
  model (ex_noise_case 1) =
  SL [SL [SL [SL [SL [SZ 0; SZ 0]; SL [SZ 1; SZ 0]; SL [SZ 2; SZ 4]]; SL [SZ 4; SZ 7; SL [SZ 0; SB [x68; x69]]]; SL []; SL [];
              SL [ex_seen_ok; ex_seen_ok]]]; SL []] /\
  spec (ex_noise_case 1)
       (SL [SL [SL [SL [SL [SZ 0; SZ 0]; SL [SZ 1; SZ 0]; SL [SZ 2; SZ 4]]; SL [SZ 4; SZ 7; SL [SZ 0; SB [x61; x75; x78]]]; SL []; SL [];
                    SL [ex_seen_ok; SL [SZ 0; SB [x61; x75; x78]; SB [x61; x75; x78]]]]]; SL []]) = false /\
  spec (ex_noise_case 3)
       (SL [SL [SL [SL [SL [SZ 0; SZ 0]; SL [SZ 1; SZ 0]; SL [SZ 2; SZ 4]]; SL [SZ 4; SZ 7; SL []]; SL []; SL [];
                    SL [ex_seen_ok; ex_seen_ok]]]; SL []]) = false /\
  (* the same interleaving with "Put, then hook": the hook finds a recycled entry *)
  snd (wire_seen true panic_entry 1 1 0) = aux_entry.
Proof. vm_compute. repeat split; reflexivity. Qed.
(* an audit wrapper (number 100) around tee[core 0 whose sink is broken, core 1, hooked core 2 (hook set 4), filter
   that lets only Fatal through over core 3], Logger.Panic("hi") with a custom panic hook: the broken core is tried,
   cores 1 and 3 are written and synced (levelFilterCore.Write does not ask the level), hook set 4 runs, then the
   hook; the oracle rejects the run of a tee that stopped at the broken core *)
Definition ex_lf (id : Z) : sx := SL [SZ 0; SZ id; SL [SZ 0; SZ (-1)]].
Definition ex_wrapped_tee : sx :=
  SL [SZ 9; SL [SZ 2; ex_lf 0; ex_lf 1; SL [SZ 3; ex_lf 2; SZ 4]; SL [SZ 4; ex_lf 3; SL [SZ 0; SZ 5]]]; SZ 100].
Definition ex_fwd_case : sx :=
  SL [ex_wrapped_tee; SL []; SZ 0; SL [SZ 5; SZ 7]; SL [SZ 0]; SZ 0; SL [ex_panic_call]; SL []; SL []; SL [SZ 0]].
Definition ex_seen_hi : sx := SL [SZ 4; SB [x68; x69]; SB []].
Example C06_example_forwarding :
  model ex_fwd_case =
  SL [SL [SL [SL [SL [SZ 0; SZ 0]; SL [SZ 0; SZ 1]; SL [SZ 1; SZ 1]; SL [SZ 3; SZ 4]; SL [SZ 0; SZ 3]; SL [SZ 1; SZ 3]];
              SL [SZ 3; SZ 7]; SL []; SL []; SL [ex_seen_hi; ex_seen_hi]]]; SL []] /\
  spec ex_fwd_case (model ex_fwd_case) = true /\
  spec ex_fwd_case (SL [SL [SL [SL [SL [SZ 0; SZ 0]]; SL [SZ 3; SZ 7]; SL []; SL []; SL [ex_seen_hi]]]; SL []]) = false /\
  (* the same tee on the CheckedEntry without a wrapper: CheckedEntry.Write goes on after the broken core, too *)
  fst (log_call_x {| fe_fw := fun _ => None; fe_fails := fun i => Nat.eqb i 0; fe_hfails := fun _ => false |} no_drop (fun _ => 0)
         {| lcore := Tee [Leaf 0 (ELvl InfoL); Leaf 1 (ELvl InfoL)]; dev := false; on_panic := HNil; on_fatal := HNil |} FLogger FatalL) =
  [EWrite 0; EWrite 1; ESync 1].
Proof. vm_compute. repeat split; reflexivity. Qed.

(* C15 — stub: no theorems yet *)
From Zap Require Import Base.Wire C15.Model C15.Proofs.

(* C15 — caller and stack annotations identify the user's call site.
   Only statements closed by [exact]; the proofs are in C15/Proofs.v.

   Reading guide.  [us] is the goroutine's stack, innermost first, from the function that makes
   the log call outwards: the call site and its callers, followed by whatever else is on the stack
   (the call may be nested in a Stringer / error / Formatter an outer log.Printf is formatting, in
   the io.Writer of an outer *log.Logger, in a hook / marshaler / sink of another zap logger, in a
   deferred function during a panic, below deep recursion).  [us] is an ARBITRARY list of frames:
   only its head, the call site itself, must not be a function whose name starts with "log."
   ([hd_not_log us]; [FL id] frames are the "log."-prefixed ones).  The theorems
   C15_context_independent .. C15_std_count_all_refuted say it in so many words: the reported frame
   is a function of the call site and the configured skip only.  [cs] is ANY list of conversions applied to zap.New(core):
   Sugar / Desugar / With / WithLazy / Named / WithOptions(AddCallerSkip n | WithCaller b |
   AddStacktrace en | other) / L() / S(); [f] is any front end (every *Logger method, every
   *SugaredLogger method, the std-log bridge through any log function) whose receiver kind is
   the kind [cs] produces; [total_skip cs] is the sum of the AddCallerSkip values in [cs];
   [fuel] bounds the iterations of Capture's doubling loop: the theorems hold for every fuel
   from [length us + 12] upwards, i.e. the loop has always terminated by then; [storage] is
   the size of whatever pooled slab the capture got (the pool only ever holds slabs >= 64,
   C15_capture_history). *)
From Coq Require Import List ZArith Bool.
Import ListNotations.
From Zap Require Import Base.Wire C15.Model C15.Proofs.
Local Open Scope Z_scope.

(* the model of the code computes exactly what the property demands, for every chain of
   conversions, front end, level, user stack, pooled storage size *)
Theorem C15_refines_spec : forall fuel core cs f lvl us storage,
  fe_sugared f = chain_kind cs -> 0 <= total_skip cs -> (1 <= storage)%nat ->
  (length us + 12 <= fuel)%nat -> hd_not_log us = true ->
  log_via fuel f (apply_chain (HL (new_logger core)) cs) lvl us storage = expected_zap core cs f lvl us.
Proof. exact log_via_spec. Qed.
Print Assumptions C15_refines_spec.

(* the reported frame = the user's frame, shifted outward by exactly the configured skip *)
Theorem C15_frame : forall fuel core cs f lvl us storage,
  fe_sugared f = chain_kind cs -> 0 <= total_skip cs -> (1 <= storage)%nat ->
  (length us + 12 <= fuel)%nat -> hd_not_log us = true ->
  core (fe_level f lvl) = true -> cfg_caller_on cs = true ->
  caller_of (log_via fuel f (apply_chain (HL (new_logger core)) cs) lvl us storage)
  = nth_error us (Z.to_nat (total_skip cs)).
Proof. exact frame_thm. Qed.
Print Assumptions C15_frame.

(* wrapper functions of any depth with a matching AddCallerSkip: the caller of the outermost wrapper *)
Theorem C15_wrappers : forall fuel core cs f lvl (ws : list frame) (u : frame) (rest : list frame) storage,
  fe_sugared f = chain_kind cs -> total_skip cs = Z.of_nat (length ws) -> (1 <= storage)%nat ->
  (length (ws ++ u :: rest) + 12 <= fuel)%nat -> hd_not_log (ws ++ u :: rest) = true ->
  core (fe_level f lvl) = true -> cfg_caller_on cs = true ->
  caller_of (log_via fuel f (apply_chain (HL (new_logger core)) cs) lvl (ws ++ u :: rest) storage) = Some u.
Proof. exact wrappers_thm. Qed.
Print Assumptions C15_wrappers.

Theorem C15_caller_only_when_enabled : forall fuel core cs f lvl us storage,
  fe_sugared f = chain_kind cs -> 0 <= total_skip cs -> (1 <= storage)%nat ->
  (length us + 12 <= fuel)%nat -> hd_not_log us = true ->
  cfg_caller_on cs = false ->
  caller_of (log_via fuel f (apply_chain (HL (new_logger core)) cs) lvl us storage) = None.
Proof. exact caller_off_thm. Qed.
Print Assumptions C15_caller_only_when_enabled.

(* the accumulated skip behind any chain: Sugar +2 / Desugar -2 cancel against the two extra
   frames of the sugared front ends *)
Theorem C15_chain_skip : forall cs h,
  callerSkip (base_of (apply_chain h cs))
  = callerSkip (base_of h) + total_skip cs
    + kind_delta (is_sugared (apply_chain h cs)) - kind_delta (is_sugared h).
Proof. exact (fun cs h => proj1 (apply_chain_state cs h)). Qed.
Print Assumptions C15_chain_skip.

(* Capture(skip, Full) returns the complete call chain whatever its depth and whatever pooled
   storage it starts from: the doubling loop terminates and never truncates *)
Theorem C15_capture_complete : forall stk skip storage,
  (1 <= storage)%nat ->
  exists fuel, forall fuel', (fuel <= fuel')%nat ->
    exists s', capture fuel' skip Full stk storage = Some (skipn (Z.to_nat (skip + captureSelfSkip)) stk, s')
               /\ (storage <= s')%nat.
Proof. exact capture_complete_thm. Qed.
Print Assumptions C15_capture_complete.

(* every history of captures against the pool (any object handed out by Get, grown storages
   returned by Free): no capture diverges, each returns its whole stack, storages stay >= 64 *)
Theorem C15_capture_history : forall ops p, pool_ok p ->
  exists p', run_caps ops p = Some (map cap_result ops, p') /\ pool_ok p'.
Proof. exact pool_history. Qed.
Print Assumptions C15_capture_history.

(* the model can express the failures: a capture without the loop truncates at the slab;
   a loop that re-allocates without doubling never ends on a stack that fills the slab *)
Theorem C15_capture_trunc_refuted :
  exists stk skip, capture_trunc skip stk initStorage <> skipn (Z.to_nat (skip + captureSelfSkip)) stk.
Proof. exact capture_trunc_refuted. Qed.
Print Assumptions C15_capture_trunc_refuted.

Theorem C15_capture_nogrow_diverges : forall fuel skip stk len,
  (len <= length (skipn (Z.to_nat skip) stk))%nat ->
  grow_nogrow fuel skip stk len (callers skip len stk) = None.
Proof. exact grow_nogrow_diverges. Qed.
Print Assumptions C15_capture_nogrow_diverges.

(* stack traces are attached exactly for the levels configured *)
Theorem C15_stack_levels : forall fuel core cs f lvl us storage,
  fe_sugared f = chain_kind cs -> 0 <= total_skip cs -> (1 <= storage)%nat ->
  (length us + 12 <= fuel)%nat -> hd_not_log us = true ->
  core (fe_level f lvl) = true -> (Z.to_nat (total_skip cs) < length us)%nat ->
  (stack_of (log_via fuel f (apply_chain (HL (new_logger core)) cs) lvl us storage) <> []
   <-> cfg_stack_on cs (fe_level f lvl) = true).
Proof. exact stack_levels_thm. Qed.
Print Assumptions C15_stack_levels.

(* ... start at the reported frame ... *)
Theorem C15_stack_starts_at_caller : forall fuel core cs f lvl us storage,
  fe_sugared f = chain_kind cs -> 0 <= total_skip cs -> (1 <= storage)%nat ->
  (length us + 12 <= fuel)%nat -> hd_not_log us = true ->
  core (fe_level f lvl) = true -> cfg_caller_on cs = true -> cfg_stack_on cs (fe_level f lvl) = true ->
  hd_error (stack_of (log_via fuel f (apply_chain (HL (new_logger core)) cs) lvl us storage))
  = caller_of (log_via fuel f (apply_chain (HL (new_logger core)) cs) lvl us storage).
Proof. exact stack_starts_at_caller_thm. Qed.
Print Assumptions C15_stack_starts_at_caller.

(* ... and contain the complete call chain, only the final (runtime) frame dropped *)
Theorem C15_stack_complete : forall fuel core cs f lvl us storage,
  fe_sugared f = chain_kind cs -> 0 <= total_skip cs -> (1 <= storage)%nat ->
  (length us + 12 <= fuel)%nat -> hd_not_log us = true ->
  core (fe_level f lvl) = true -> cfg_stack_on cs (fe_level f lvl) = true ->
  forall u r, skipn (Z.to_nat (total_skip cs)) us = u :: r ->
  stack_of (log_via fuel f (apply_chain (HL (new_logger core)) cs) lvl us storage) = u :: removelast r /\
  (r <> [] ->
   stack_of (log_via fuel f (apply_chain (HL (new_logger core)) cs) lvl us storage) ++ [last r u]
   = skipn (Z.to_nat (total_skip cs)) us).
Proof. exact stack_complete_thm. Qed.
Print Assumptions C15_stack_complete.

(* a skip that passes the end of the stack: no annotation, and the failure is reported *)
Theorem C15_skip_past_the_end : forall fuel core cs f lvl us storage,
  fe_sugared f = chain_kind cs -> 0 <= total_skip cs -> (1 <= storage)%nat ->
  (length us + 12 <= fuel)%nat -> hd_not_log us = true ->
  core (fe_level f lvl) = true -> cfg_caller_on cs = true ->
  (length us <= Z.to_nat (total_skip cs))%nat ->
  log_via fuel f (apply_chain (HL (new_logger core)) cs) lvl us storage
  = Entry {| e_caller := None; e_stack := []; e_err := true |}.
Proof. exact past_the_end_thm. Qed.
Print Assumptions C15_skip_past_the_end.

(* the std-log bridge finds the user's frame above ANY number (< 16) of log-package frames *)
Theorem C15_std_any_log_depth : forall fuel core cs lv (lf us : list frame) storage l,
  apply_chain (HL (new_logger core)) cs = HL l ->
  0 <= total_skip cs -> (1 <= storage)%nat -> (length lf + length us + 6 <= fuel)%nat ->
  forallb is_log_frame lf = true -> (length lf < stdLogScan)%nat -> hd_not_log us = true ->
  log_std fuel l lv lf us storage
  = expected (core lv) (cfg_caller_on cs) (cfg_stack_on cs lv) (total_skip cs) us.
Proof. exact std_any_depth_thm. Qed.
Print Assumptions C15_std_any_log_depth.

(* STACK-CONTEXT INDEPENDENCE.  The goroutine's stack is [near ++ ctx]: [near] = the call site and
   its callers as far as the configured skip reaches, [ctx] = ANYTHING further out (log-package
   frames of an outer log.Printf / *log.Logger, frames of another zap logger's hook / encoder / sink,
   fmt, runtime.gopanic, hundreds of recursion frames, or nothing at all on a fresh goroutine).
   For every front end, chain, level and slab: the reported caller, whether an entry is produced and
   the frame the trace starts at are the same in any two contexts, and the caller is the frame of
   [near] at the configured skip *)
Theorem C15_context_independent : forall fuel1 fuel2 core cs f lvl (near ctx1 ctx2 : list frame) storage1 storage2,
  fe_sugared f = chain_kind cs -> 0 <= total_skip cs -> (1 <= storage1)%nat -> (1 <= storage2)%nat ->
  (length (near ++ ctx1) + 12 <= fuel1)%nat -> (length (near ++ ctx2) + 12 <= fuel2)%nat ->
  hd_not_log near = true -> (Z.to_nat (total_skip cs) < length near)%nat ->
  let out1 := log_via fuel1 f (apply_chain (HL (new_logger core)) cs) lvl (near ++ ctx1) storage1 in
  let out2 := log_via fuel2 f (apply_chain (HL (new_logger core)) cs) lvl (near ++ ctx2) storage2 in
  caller_of out1 = caller_of out2 /\
  hd_error (stack_of out1) = hd_error (stack_of out2) /\
  is_entry out1 = is_entry out2 /\
  (core (fe_level f lvl) = true -> cfg_caller_on cs = true ->
   caller_of out1 = nth_error near (Z.to_nat (total_skip cs))).
Proof. exact context_independent_thm. Qed.
Print Assumptions C15_context_independent.

(* the trace in a context: the call site's own chain from the reported frame, then the whole
   context whatever it is, minus the final frame *)
Theorem C15_stack_in_context : forall fuel core cs f lvl (near ctx : list frame) storage,
  fe_sugared f = chain_kind cs -> 0 <= total_skip cs -> (1 <= storage)%nat ->
  (length (near ++ ctx) + 12 <= fuel)%nat ->
  hd_not_log near = true -> (Z.to_nat (total_skip cs) < length near)%nat ->
  core (fe_level f lvl) = true -> cfg_stack_on cs (fe_level f lvl) = true -> ctx <> [] ->
  stack_of (log_via fuel f (apply_chain (HL (new_logger core)) cs) lvl (near ++ ctx) storage)
  = skipn (Z.to_nat (total_skip cs)) near ++ removelast ctx.
Proof. exact stack_in_context_thm. Qed.
Print Assumptions C15_stack_in_context.

Theorem C15_slog_context_independent : forall fuel1 fuel2 core os m slvl (near ctx1 ctx2 : list frame) storage1 storage2,
  0 <= hopts_skip os -> (1 <= storage1)%nat -> (1 <= storage2)%nat ->
  (length (near ++ ctx1) + 8 <= fuel1)%nat -> (length (near ++ ctx2) + 8 <= fuel2)%nat ->
  (Z.to_nat (hopts_skip os) < length near)%nat ->
  let out1 := slog_log slog_handle fuel1 (new_handler core os) m slvl (near ++ ctx1) storage1 in
  let out2 := slog_log slog_handle fuel2 (new_handler core os) m slvl (near ++ ctx2) storage2 in
  caller_of out1 = caller_of out2 /\
  (core (convertSlogLevel slvl) = true -> hcfg_caller false os = true ->
   caller_of out1 = nth_error near (Z.to_nat (hopts_skip os))).
Proof. exact slog_context_independent_thm. Qed.
Print Assumptions C15_slog_context_independent.

(* the std-log bridge above any chain [lf] of log-package frames of its own, in any context -- [ctx]
   may consist of log-package frames only: the scan stops at the call site *)
Theorem C15_std_context_independent : forall fuel core cs lv (lf near ctx : list frame) storage l,
  apply_chain (HL (new_logger core)) cs = HL l ->
  0 <= total_skip cs -> (1 <= storage)%nat -> (length lf + length (near ++ ctx) + 6 <= fuel)%nat ->
  forallb is_log_frame lf = true -> (length lf < stdLogScan)%nat ->
  hd_not_log near = true -> (Z.to_nat (total_skip cs) < length near)%nat ->
  core lv = true -> cfg_caller_on cs = true ->
  caller_of (log_std fuel l lv lf (near ++ ctx) storage) = nth_error near (Z.to_nat (total_skip cs)).
Proof. exact std_context_independent_thm. Qed.
Print Assumptions C15_std_context_independent.

(* the model can express the failure: a scan that counts EVERY log frame among the 16 it looks at
   (no break at the first frame outside the log package) agrees with the code on every stack that
   has no log frame further out than the call site -- which is every call made from plain code -- *)
Theorem C15_std_count_all_plain_agrees : forall fuel l lv lf us storage,
  forallb is_log_frame lf = true -> forallb (fun f => negb (is_log_frame f)) us = true ->
  log_std_countall fuel l lv lf us storage = log_std fuel l lv lf us storage.
Proof. exact std_countall_plain_agrees. Qed.
Print Assumptions C15_std_count_all_plain_agrees.

(* ... and names a frame of fmt (frame 21) instead of the call site (frame 10) for a Print made
   from a String method that a *log.Logger's Printf is formatting; the code names frame 10 *)
Theorem C15_std_count_all_refuted :
  hd_not_log ctx_near = true /\ (Z.to_nat (total_skip ctx_chain) < length ctx_near)%nat /\
  caller_of (log_std 100 (base_of (apply_chain (HL (new_logger ctx_core)) ctx_chain)) InfoLevel (std_frames 0 0)
                     (ctx_near ++ ctx_stringer) initStorage) = Some (FU 10) /\
  caller_of (log_std_countall 100 (base_of (apply_chain (HL (new_logger ctx_core)) ctx_chain)) InfoLevel (std_frames 0 0)
                              (ctx_near ++ ctx_stringer) initStorage) = Some (FU 21) /\
  caller_of (log_std_countall 100 (base_of (apply_chain (HL (new_logger ctx_core)) ctx_chain)) InfoLevel (std_frames 0 0)
                              (ctx_near ++ [FU 40; FU 99]) initStorage) = Some (FU 10).
Proof. exact std_countall_refuted. Qed.
Print Assumptions C15_std_count_all_refuted.

(* pre-fix behaviour, kept as documentation (definitions ..._orig):
   fixed skip of 3 -> log.Panic through NewStdLog names the log package *)
Theorem C15_std_fixed_depth_refuted :
  exists f us, fe_sugared f = chain_kind [CWithOptions [OWithCaller true]] /\
    log_via_orig 100 f (apply_chain (HL (new_logger (en_level DebugLevel))) [CWithOptions [OWithCaller true]]) 0 us initStorage
    <> expected_zap (en_level DebugLevel) [CWithOptions [OWithCaller true]] f 0 us.
Proof. exact std_orig_refuted. Qed.
Print Assumptions C15_std_fixed_depth_refuted.

(* zapslog: caller = the frame WithCallerSkip frames above the call site slog recorded; the
   trace starts there and is attached from the configured slog level upwards *)
Theorem C15_slog : forall fuel core os m slvl us storage,
  0 <= hopts_skip os -> (1 <= storage)%nat -> (length us + 8 <= fuel)%nat ->
  slog_log slog_handle fuel (new_handler core os) m slvl us storage = expected_slog core os slvl us.
Proof. exact slog_spec. Qed.
Print Assumptions C15_slog.

Theorem C15_slog_frame : forall fuel core os m slvl us storage,
  0 <= hopts_skip os -> (1 <= storage)%nat -> (length us + 8 <= fuel)%nat ->
  core (convertSlogLevel slvl) = true -> hcfg_caller false os = true ->
  let out := slog_log slog_handle fuel (new_handler core os) m slvl us storage in
  caller_of out = nth_error us (Z.to_nat (hopts_skip os)) /\
  (stack_of out <> [] -> hcfg_stack 8 os <= slvl) /\
  (hcfg_stack 8 os <= slvl -> stack_of out = removelast (skipn (Z.to_nat (hopts_skip os)) us)).
Proof. exact slog_frame_thm. Qed.
Print Assumptions C15_slog_frame.

(* pre-fix zapslog: WithCallerSkip moved the trace but not the caller *)
Theorem C15_slog_skip_refuted :
  exists os us, 0 <= hopts_skip os /\
    slog_log slog_handle_orig 100 (new_handler (en_level DebugLevel) os) 2 4 us initStorage
    <> expected_slog (en_level DebugLevel) os 4 us.
Proof. exact slog_orig_refuted. Qed.
Print Assumptions C15_slog_skip_refuted.

(* EntryCaller.TrimmedPath keeps the leaf directory and the file name *)
Theorem C15_trimmed_path : forall d file lt, trimmed_path d file lt = trimmed_spec d file lt.
Proof. exact trimmed_path_spec. Qed.
Print Assumptions C15_trimmed_path.

Theorem C15_trimmed_path_leaf : forall pre dir base lt,
  has_byte slash dir = false -> has_byte slash base = false ->
  trimmed_path true (pre ++ slash :: dir ++ slash :: base) lt = dir ++ slash :: base ++ colon :: lt.
Proof. exact trimmed_path_leaf. Qed.
Print Assumptions C15_trimmed_path_leaf.

(* SESSIONS: any number of calls, one after the other, on the SAME values - the logger [cs]
   produces, values derived from it by further conversions [extra], the std-log bridges built once
   from it (their closure's captured variable is threaded through the calls), the session's slog
   handler, interleaved with anything else that only reads or clones them (KOther), each call with
   whatever pooled slab it happens to get: every call gets exactly the entry the property demands
   of it alone; in particular a recovered log.Panic* leaves nothing behind *)
Theorem C15_session : forall fuel core cs os calls,
  (forall us, (length us + 12 <= fuel us)%nat) ->
  Forall (call_ok cs os) calls ->
  run_calls (sstep bridge_call fuel (apply_chain (HL (new_logger core)) cs) (new_handler core os))
            (init_bridges (apply_chain (HL (new_logger core)) cs)) calls
  = map (fun cn => expected_call core cs os (fst cn)) calls.
Proof. exact session_thm. Qed.
Print Assumptions C15_session.

(* the entry of a call is the same after any two histories, and is the one demanded *)
Theorem C15_session_history_independent : forall fuel core cs os pre1 pre2 cn,
  (forall us, (length us + 12 <= fuel us)%nat) ->
  Forall (call_ok cs os) pre1 -> Forall (call_ok cs os) pre2 -> call_ok cs os cn ->
  let run calls := run_calls (sstep bridge_call fuel (apply_chain (HL (new_logger core)) cs) (new_handler core os))
                             (init_bridges (apply_chain (HL (new_logger core)) cs)) calls in
  last (run (pre1 ++ [cn])) None = last (run (pre2 ++ [cn])) None
  /\ last (run (pre1 ++ [cn])) None = expected_call core cs os (fst cn).
Proof. exact session_history_independent. Qed.
Print Assumptions C15_session_history_independent.

(* the n-th call of any session reports the frame of ITS OWN stack at the configured skip *)
Theorem C15_session_frame : forall fuel core cs os calls n extra f lvl us storage,
  (forall us, (length us + 12 <= fuel us)%nat) ->
  Forall (call_ok cs os) calls ->
  nth_error calls n = Some (KZap extra f lvl us, storage) ->
  core (fe_level f lvl) = true -> cfg_caller_on (cs ++ extra) = true ->
  exists o,
    nth_error (run_calls (sstep bridge_call fuel (apply_chain (HL (new_logger core)) cs) (new_handler core os))
                         (init_bridges (apply_chain (HL (new_logger core)) cs)) calls) n = Some (Some o)
    /\ caller_of o = nth_error us (Z.to_nat (total_skip (cs ++ extra))).
Proof. exact session_frame. Qed.
Print Assumptions C15_session_frame.

(* the model can express the failure: a bridge closure that assigns the derived logger to its
   captured variable reports, for a Print after a recovered Panic, the caller's caller *)
Theorem C15_bridge_leak_refuted :
  Forall (call_ok leak_chain []) leak_calls /\
  run_calls (sstep bridge_call_leak (fun us => (length us + 12)%nat) (apply_chain (HL (new_logger leak_core)) leak_chain)
                   (new_handler leak_core []))
            (init_bridges (apply_chain (HL (new_logger leak_core)) leak_chain)) leak_calls
  = [Some (Entry {| e_caller := Some (FU 10); e_stack := []; e_err := false |});
     Some (Entry {| e_caller := Some (FU 11); e_stack := []; e_err := false |})]
  /\ map (fun cn => expected_call leak_core leak_chain [] (fst cn)) leak_calls
  = [Some (Entry {| e_caller := Some (FU 10); e_stack := []; e_err := false |});
     Some (Entry {| e_caller := Some (FU 10); e_stack := []; e_err := false |})].
Proof. exact bridge_leak_refuted. Qed.
Print Assumptions C15_bridge_leak_refuted.

(* the oracle the driver runs accepts what the model observes, on every well-formed case *)
Theorem C15_wire : forall i, wf i = true -> spec i (model i) = true.
Proof. exact spec_model. Qed.
Print Assumptions C15_wire.

(* ---- non-vacuity ---- *)
Definition ex_core : enabler := en_level DebugLevel.
Definition ex_us : list frame := [FU 10; FU 11; FU 12; FU 13; FU 99].
(* New(core, AddCaller()).Sugar().With(..).WithOptions(AddCallerSkip(2), AddStacktrace(Warn)).Desugar().Sugar(): Errorw from
   two wrappers deep reports frame 12 and a trace 12,13 *)
Definition ex_chain : list conv :=
  [CWithOptions [OWithCaller true]; CSugar; CWith true; CWithOptions [OAddCallerSkip 2; OAddStacktrace (en_level WarnLevel)]; CDesugar; CSugar].
Example C15_example_hyps :
  fe_sugared (FeSugar 2 3) = chain_kind ex_chain /\ 0 <= total_skip ex_chain /\ hd_not_log ex_us = true /\
  ex_core (fe_level (FeSugar 2 3) 0) = true /\ cfg_caller_on ex_chain = true /\
  cfg_stack_on ex_chain (fe_level (FeSugar 2 3) 0) = true /\ cfg_stack_on ex_chain InfoLevel = false.
Proof. vm_compute. repeat split; discriminate. Qed.
Example C15_example_sugar :
  log_via 40 (FeSugar 2 3) (apply_chain (HL (new_logger ex_core)) ex_chain) 0 ex_us initStorage
  = Entry {| e_caller := Some (FU 12); e_stack := [FU 12; FU 13]; e_err := false |}.
Proof. vm_compute. reflexivity. Qed.
(* the same chain ending in a plain Logger, through log.Panicln of NewStdLogAt(l, Error) *)
Example C15_example_std :
  log_via 40 (FeStd 1 6) (apply_chain (HL (new_logger ex_core)) (ex_chain ++ [CDesugar])) ErrorLevel ex_us initStorage
  = Entry {| e_caller := Some (FU 12); e_stack := [FU 12; FU 13]; e_err := false |}.
Proof. vm_compute. reflexivity. Qed.
(* a 200-frame stack is captured whole starting from the 64-entry slab *)
Example C15_example_deep :
  option_map (fun r => length (fst r)) (capture 10 0 Full (deep_stack 200) initStorage) = Some 198%nat.
Proof. vm_compute. reflexivity. Qed.
Example C15_example_slog :
  slog_log slog_handle 40 (new_handler ex_core [HWithCaller true; HWithCallerSkip 1; HAddStacktraceAt 4]) 2 4 ex_us initStorage
  = Entry {| e_caller := Some (FU 11); e_stack := [FU 11; FU 12; FU 13]; e_err := false |}.
Proof. vm_compute. reflexivity. Qed.
Example C15_example_wire :
  wf (SL [SZ 0; SL [SZ 1; SZ 2; SZ 3]; SL [SL [SZ 5; SL [SL [SZ 1; SZ 1]; SL [SZ 0; SZ 1]]]; SL [SZ 0]]; SZ 0; SL [SZ 0; SZ (-1)];
          SL [SZ 10; SZ 11; SZ 12]]) = true.
Proof. vm_compute. reflexivity. Qed.
(* log.Print (RedirectStdLog) made from a String method that the package-level log.Printf is formatting: the
   stack ships three "log."-prefixed frames (30 31 32) further out; well-formed, and the caller is frame 10 *)
Definition ex_nested : sx :=
  SL [SZ 0; SL [SZ 2; SZ 2; SZ 0]; SL [SL [SZ 5; SL [SL [SZ 1; SZ 1]]]]; SZ 0; SL [SZ 0; SZ (-1)];
      SL [SZ 10; SZ 11; SZ 20; SZ 21; SL [SZ 30; SZ 1]; SL [SZ 31; SZ 1]; SL [SZ 32; SZ 1]; SZ 40; SZ 99]].
Example C15_example_nested : wf ex_nested = true /\ model ex_nested = SL [SZ 1; SL [SZ 10]; SL []; SZ 0].
Proof. vm_compute. split; reflexivity. Qed.
(* a case whose call site itself is "log."-prefixed is outside the theorems *)
Example C15_example_site_in_log_package :
  wf (SL [SZ 0; SL [SZ 2; SZ 0; SZ 0]; SL [SL [SZ 5; SL [SL [SZ 1; SZ 1]]]]; SZ 0; SL [SZ 0; SZ (-1)];
          SL [SL [SZ 10; SZ 1]; SZ 11; SZ 99]]) = false.
Proof. vm_compute. reflexivity. Qed.
(* a session on one logger: Panicln through NewStdLog (recovered), Print on the same bridge, Infow on
   l.Sugar(), a zapgrpc call, slog Warn: well-formed, and every call reports frame 10 *)
Definition ex_session : sx :=
  SL [SZ 3; SL [SL [SZ 5; SL [SL [SZ 1; SZ 1]]]]; SL [SL [SZ 0; SZ 1]]; SL [SZ 0; SZ (-1)];
      SL [SL [SZ 0; SL []; SL [SZ 2; SZ 0; SZ 6]; SZ 0; SL [SZ 10; SZ 11; SZ 99]];
          SL [SZ 0; SL []; SL [SZ 2; SZ 0; SZ 0]; SZ 0; SL [SZ 10; SZ 11; SZ 99]];
          SL [SZ 0; SL [SL [SZ 0]]; SL [SZ 1; SZ 2; SZ 1]; SZ 0; SL [SZ 10; SZ 11; SZ 99]];
          SL [SZ 2; SZ 0];
          SL [SZ 1; SZ 2; SZ 4; SL [SZ 10; SZ 11; SZ 99]]]].
Example C15_example_session_wf : wf ex_session = true.
Proof. vm_compute. reflexivity. Qed.
Example C15_example_session :
  model ex_session
  = SL [SL [SZ 1; SL [SZ 10]; SL []; SZ 0]; SL [SZ 1; SL [SZ 10]; SL []; SZ 0]; SL [SZ 1; SL [SZ 10]; SL []; SZ 0];
        SL [SZ 2]; SL [SZ 1; SL [SZ 10]; SL []; SZ 0]].
Proof. vm_compute. reflexivity. Qed.

(* C13 -- zap's writers and WriteSyncer combinators honour the io.Writer contract.
   Only statements closed by [exact]; the proofs are in C13/{Multi,Comb,Writers,Mutex,Handles,BwsFault,Proofs}.v.
   [write Fixed] / [stdlog_write Fixed] model the repaired code (fix: commits in /repo);
   [Orig] is the code as it was, kept to document the two defects (…_orig_refuted). *)
From Coq Require Import List ZArith Bool.
From Coq.Strings Require Import Byte.
Import ListNotations.
From Zap Require Import Base.Wire C13.Model C13.Proofs.
Local Open Scope Z_scope.

(* ---- multi-WriteSyncer: every number and order of sinks, every outcome vector ---- *)

(* identical bytes to every sink, once each, in order, whatever the sinks return *)
Theorem C13_multi_bytes : forall v (l : list sink) p,
  w_ev (write v (multi_of l) p) = map (fun s => EWrite (s_id s) p) l.
Proof. exact multi_bytes. Qed.
Print Assumptions C13_multi_bytes.

(* the smallest count any sink reported (sinks within the io.Writer contract 0 <= n <= len p) *)
Theorem C13_multi_min : forall (l : list sink) p, (forall s, In s l -> 0 <= s_n s <= zlen p) ->
  w_n (write Fixed (multi_of l) p) = smallest (zlen p) (map s_n l).
Proof. exact multi_min_fixed. Qed.
Print Assumptions C13_multi_min.

(* ... which is a count some sink reported, and no sink reported less *)
Theorem C13_multi_min_char : forall (l : list sink) p, l <> [] -> (forall s, In s l -> s_n s <= zlen p) ->
  let n := w_n (write Fixed (multi_of l) p) in
  In n (map s_n l) /\ (forall s, In s l -> n <= s_n s).
Proof. exact multi_min_char. Qed.
Print Assumptions C13_multi_min_char.

(* no assumption on the sinks at all: min(len p, all counts); a single sink is returned as is *)
Theorem C13_multi_count_general : forall (l : list sink) p,
  w_n (write Fixed (multi_of l) p) =
  match l with [s] => s_n s | _ => Z.min (zlen p) (smallest (zlen p) (map s_n l)) end.
Proof. exact multi_count_general. Qed.
Print Assumptions C13_multi_count_general.

(* pre-fix behaviour (DESIGN section 6 #1): the fold "nWritten == 0 && n != 0" does not compute the minimum *)
Theorem C13_multi_min_orig_refuted : ~ multi_min_stmt Orig.
Proof. exact multi_min_orig_refuted. Qed.
Print Assumptions C13_multi_min_orig_refuted.

(* the witnesses, on the original fold: counts [0,5] and [3,0,5] report 5 although a sink took 0 bytes;
   no sink at all: a short count with a nil error *)
Theorem C13_multi_min_orig_witness :
  write_orig (multi_of [sk 1 0; sk 2 5]) hello = (5, [], [EWrite 1 hello; EWrite 2 hello]) /\
  smallest (zlen hello) [0; 5] = 0 /\
  w_n (write_orig (multi_of [sk 1 3; sk 2 0; sk 3 5]) hello) = 5 /\
  write_orig (multi_of []) hello = (0, [], []).
Proof. exact (conj eq_refl (conj eq_refl (conj multi_min_orig_refuted_305 multi_empty_orig_short))). Qed.
Print Assumptions C13_multi_min_orig_witness.

(* all errors of all sinks, in order (nil iff every sink returned nil) *)
Theorem C13_multi_errs : forall v (l : list sink) p, w_e (write v (multi_of l) p) = concat (map s_we l).
Proof. exact multi_errs. Qed.
Print Assumptions C13_multi_errs.

(* Sync reaches every sink once, in order, and returns all their errors *)
Theorem C13_multi_sync : forall (l : list sink),
  sync (multi_of l) = (concat (map s_se l), map (fun s => ESync (s_id s)) l).
Proof. exact multi_sync. Qed.
Print Assumptions C13_multi_sync.

(* the multi-syncer itself honours the contract: never a short count with a nil error when the
   short sinks report errors; (len p, nil) when every sink accepted p -- also with no sink *)
Theorem C13_multi_contract : forall (l : list sink) p, (forall s, In s l -> s_n s <= zlen p) ->
  (forall s, In s l -> s_n s < zlen p -> s_we s <> []) ->
  let r := write Fixed (multi_of l) p in w_n r < zlen p -> w_e r <> [].
Proof. exact multi_contract. Qed.
Print Assumptions C13_multi_contract.

Theorem C13_multi_full_accept : forall (l : list sink) p, (forall s, In s l -> s_n s = zlen p /\ s_we s = []) ->
  let r := write Fixed (multi_of l) p in w_n r = zlen p /\ w_e r = [].
Proof. exact multi_full_accept. Qed.
Print Assumptions C13_multi_full_accept.

(* ---- AddSync, Lock, NewMultiWriteSyncer(w): relay ---- *)
Theorem C13_relay :
  (forall v w p, write v (add_sync w) p = write v w p) /\
  (forall v w p, w_n (write v (lock w) p) = w_n (write v w p) /\ w_e (write v (lock w) p) = w_e (write v w p)) /\
  (forall v w p, observe 0 (w_ev (write v (lock w) p)) =
                 if is_locked w then observe 0 (w_ev (write v w p)) else observe 1 (w_ev (write v w p))) /\
  (forall w, fst (sync (lock w)) = fst (sync w)) /\
  (forall w, lock (lock w) = lock w) /\
  (forall w, is_syncer w = true -> add_sync w = w) /\
  (forall w, is_syncer w = false -> sync (add_sync w) = ([], []) /\ is_syncer (add_sync w) = true) /\
  (forall w, new_multi [w] = w).
Proof. exact relay_thm. Qed.
Print Assumptions C13_relay.

(* every object built from sinks by any nesting of AddSync / Lock / NewMultiWriteSyncer /
   CombineWriteSyncers: same bytes to every sink once in order, smallest count, all errors, Sync
   reaches every sink that has one, exactly one mutex per effective Lock; Go's typing is preserved *)
Theorem C13_combinators : forall p e, x_typed e = true -> x_dom (zlen p) e = true -> forall d,
  (w_n (write Fixed (eval e) p), w_e (write Fixed (eval e) p), observe d (w_ev (write Fixed (eval e) p)))
    = ref_write e p d /\
  (fst (sync (eval e)), observe d (snd (sync (eval e)))) = ref_sync e d /\
  well_typed (eval e) = true /\ is_syncer (eval e) = x_syncer e.
Proof. exact comb_thm. Qed.
Print Assumptions C13_combinators.

(* ---- Lock: mutual exclusion under every schedule ---- *)
(* any number of threads, any sequence of Write (0) / Sync (1) calls per thread through one
   Lock(sink), any schedule: no two wrapped calls overlap; the sink's in-flight counter never exceeds 1 *)
Theorem C13_lock_mutex : forall (prog : list (list Z)) (sched : list nat),
  let s := run (locked_prog prog) sched in
  ~ overlap (locked_prog prog) s /\ (maxc s <= 1)%nat /\ (cur s <= 1)%nat.
Proof. exact lock_mutex_prog. Qed.
Print Assumptions C13_lock_mutex.

(* the same for any thread code that uses the one lock well-bracketed with its calls inside *)
Theorem C13_lock_mutex_general : forall codes, (forall t, wb Out (codes t) = true) -> forall sched,
  ~ overlap codes (run codes sched) /\ (maxc (run codes sched) <= 1)%nat /\ (cur (run codes sched) <= 1)%nat.
Proof. exact lock_mutex. Qed.
Print Assumptions C13_lock_mutex_general.

(* the model can express the failure: without Lock two calls do overlap *)
Theorem C13_lock_mutex_unlocked_refuted :
  exists prog sched, overlap (unlocked_prog prog) (run (unlocked_prog prog) sched) /\
                     maxc (run (unlocked_prog prog) sched) = 2%nat.
Proof. exact unlocked_refuted. Qed.
Print Assumptions C13_lock_mutex_unlocked_refuted.

(* ---- Lock: mutual exclusion between DIFFERENT HANDLES onto the same sink ---- *)
(* a lockedWriteSyncer is a reference to a lock cell.  Lock on an already locked syncer returns
   the same cell and allocates nothing; so do AddSync, the single-sink short cut of
   NewMultiWriteSyncer and CombineWriteSyncers of one locked syncer *)
Theorem C13_handles_same_cell : forall fresh c o,
  h_lock Reuse fresh (HLocked c o) = (HLocked c o, fresh) /\
  h_add_sync (HLocked c o) = HLocked c o /\
  h_new_multi [HLocked c o] = HLocked c o /\
  h_combine Reuse fresh [HLocked c o] = (HLocked c o, fresh).
Proof. exact (fun fresh c o => conj eq_refl (conj eq_refl (conj eq_refl eq_refl))). Qed.
Print Assumptions C13_handles_same_cell.

(* every handle graph: handle 0 a locked syncer over the sink built by any of zap's constructors
   (root kind r), every further handle obtained from earlier handles (and other sinks) by Lock /
   AddSync / NewMultiWriteSyncer / CombineWriteSyncers, in any number and order: every path
   from every handle to the sink passes through the root's lock cell, exactly once *)
Theorem C13_handles_guarded : forall r ds, Forall (fun o => guarded 0 o = true) (graph Reuse r ds).
Proof. exact graph_guarded. Qed.
Print Assumptions C13_handles_guarded.

(* ... hence for every handle graph, any number of threads, any sequence of Write (0) / Sync (1)
   calls per thread through any of the handles, and every schedule: no two calls are inside the
   sink at the same time, through whatever handles they came *)
Theorem C13_handles_mutex : forall r ds (prog : list (list (Z * Z))) (sched : list nat),
  let codes := handle_prog Reuse r ds prog in
  let s := grun codes sched in
  ~ g_overlap codes s /\ (gmax s <= 1)%nat /\ (gcur s <= 1)%nat.
Proof. exact handles_mutex. Qed.
Print Assumptions C13_handles_mutex.

(* the same for any handles that share a cell on every path to the sink, and for any thread
   code that uses one cell well-bracketed with its sink calls inside, whatever other mutexes it takes *)
Theorem C13_handles_mutex_general : forall c hs, Forall (fun o => guarded c o = true) hs ->
  forall (prog : list (list (Z * Z))) sched,
  let codes := handle_codes hs prog in
  ~ g_overlap codes (grun codes sched) /\ (gmax (grun codes sched) <= 1)%nat /\ (gcur (grun codes sched) <= 1)%nat.
Proof. exact (fun c hs H prog sched => handles_mutex_general c hs prog sched H). Qed.
Print Assumptions C13_handles_mutex_general.
Theorem C13_cell_mutex : forall c codes, (forall t, gwb c Out (codes t) = true) -> forall sched,
  ~ g_overlap codes (grun codes sched) /\ (gmax (grun codes sched) <= 1)%nat /\ (gcur (grun codes sched) <= 1)%nat.
Proof. exact cell_mutex. Qed.
Print Assumptions C13_cell_mutex.

(* one call through handle number h reaches the sink as often as its derivation says (the root
   once, Lock and AddSync relay, a multi-syncer calls each of its sinks) *)
Theorem C13_handles_reach : forall m r ds prog,
  map sinks (graph m r ds) = reaches ds /\ prog_begins (graph m r ds) prog = total_reach ds prog.
Proof. exact (fun m r ds prog => conj (graph_reaches m r ds) (prog_begins_reach m r ds prog)). Qed.
Print Assumptions C13_handles_reach.

(* the model can express the failure: a Lock that strips an existing lock layer and wraps the sink
   in a new lockedWriteSyncer (a second mutex) lets the original and the re-locked handle overlap *)
Theorem C13_handles_rewrap_refuted :
  exists r ds prog sched,
    let codes := handle_prog Rewrap r ds prog in
    g_overlap codes (grun codes sched) /\ gmax (grun codes sched) = 2%nat.
Proof. exact rewrap_refuted. Qed.
Print Assumptions C13_handles_rewrap_refuted.

(* ---- the writers zap implements: (len p, nil) when p was accepted ---- *)
Theorem C13_full_accept :
  (* std-log bridge: any payload, enabled or not *)
  stdlog_accept_stmt Fixed /\
  (* TestingWriter: len p, nil; logs p without its trailing newlines; fails the test iff asked *)
  (forall mf p, testing_write mf p = (zlen p, 0, [trim_right_nl p], mf) /\ stripped (trim_right_nl p) p = true) /\
  (* zapio.Writer: every Write of any sequence on one writer *)
  (forall en ps, zapio_writes en ps = map zlen ps) /\
  (* BufferedWriteSyncer over an accepting sink: every Write of every history of Write/Sync/Stop,
     every buffer size; what reached the sink is a prefix of what was written *)
  (forall size ops, 0 <= size ->
     fst (bws_run (eff_size size) bws0 ops) = bop_lens ops /\
     exists rest, sink_of (snd (bws_run (eff_size size) bws0 ops)) ++ rest = bop_bytes ops).
Proof.
  exact (conj stdlog_accept_fixed
        (conj (fun mf p => conj (testing_accept mf p) (testing_stripped p))
        (conj zapio_accept
              (fun size ops H => bws_run_spec (eff_size size) (eff_size_pos size H) ops bws0
                                   (Z.lt_le_incl _ _ (eff_size_pos size H)))))).
Qed.
Print Assumptions C13_full_accept.

(* pre-fix behaviour (DESIGN section 6 #2): "  hello \n" returned (5, nil) for a 9-byte write *)
Theorem C13_full_accept_stdlog_orig_refuted : ~ stdlog_accept_stmt Orig.
Proof. exact stdlog_accept_orig_refuted. Qed.
Print Assumptions C13_full_accept_stdlog_orig_refuted.

Theorem C13_full_accept_stdlog_orig_witness :
  stdlog_write_orig true sp_hello_nl [] = (5, 0, [hello]) /\ zlen sp_hello_nl = 9.
Proof. exact stdlog_orig_witness. Qed.
Print Assumptions C13_full_accept_stdlog_orig_witness.

(* what the bridge logs for ASCII payloads: p without the white space around it *)
Theorem C13_stdlog_message : forall p,
  exists a b, p = a ++ trim2 ascii_space p ++ b /\ forallb ascii_space a = true /\ forallb ascii_space b = true /\
    (forall x r, trim2 ascii_space p = x :: r -> ascii_space x = false) /\
    (forall x r, rev (trim2 ascii_space p) = x :: r -> ascii_space x = false).
Proof. exact (trim2_spec ascii_space). Qed.
Print Assumptions C13_stdlog_message.
Theorem C13_stdlog_message_is_trim : forall p, ascii_trim p = trim2 ascii_space p.
Proof. exact ascii_trim_trim2. Qed.
Print Assumptions C13_stdlog_message_is_trim.

(* ---- BufferedWriteSyncer over ANY sink behaviour: the io.Writer contract of its Write ---- *)
(* The wrapped sink answers each of its Write calls from a script (full, short or zero count, with
   or without an error) and its Sync may fail; bufio.Writer's sticky error, its retry of a short
   direct write and io.ErrShortWrite on a short flush are modelled.  For every buffer size, every
   history of Write / Sync / Stop / tick (before and after Stop) and every script: every Write
   returns 0 <= n <= len p, and a count short of len p only together with an error. *)
Theorem C13_bws_contract : forall size (ops : list fop), 0 <= size ->
  Forall2 (fun o r => match o with
                      | FW p _ => exists n e, r = FRW n e /\ 0 <= n <= zlen p /\ (n = zlen p \/ e <> 0)
                      | _ => True
                      end)
          ops (fst (f_run (eff_size size) fbw0 ops)).
Proof. exact (fun size ops H => f_run_contract (eff_size size) (eff_size_pos size H) ops fbw0). Qed.
Print Assumptions C13_bws_contract.

(* over a sink that is healthy throughout (every scripted answer a full count with a nil error, every
   Sync of the sink nil): every Write returns (len p, nil), every Sync and Stop returns nil *)
Theorem C13_bws_healthy : forall size (ops : list fop), 0 <= size -> forallb fop_healthy ops = true ->
  Forall2 (fun o r => match o with
                      | FW p _ => r = FRW (zlen p) 0
                      | FSync _ _ | FStop _ _ => r = FRE []
                      | FTick _ _ => r = FRT
                      end)
          ops (fst (f_run (eff_size size) fbw0 ops)).
Proof. exact (fun size ops H Hh => f_run_healthy (eff_size size) (eff_size_pos size H) ops fbw0 Hh eq_refl). Qed.
Print Assumptions C13_bws_healthy.

(* ---- the oracle run by the driver is the proved property ---- *)
Theorem C13_wire : forall i, wf i = true -> spec i (model i) = true.
Proof. exact spec_model. Qed.
Print Assumptions C13_wire.

(* ---- non-vacuity ---- *)
(* counts [3,0,5] with the middle sink failing: 0 and that error; before the fix: 5 *)
Example C13_ex_multi :
  let l := [sk 1 3; {| s_id := 2; s_n := 0; s_we := [21]; s_se := [22] |}; sk 3 5] in
  write Fixed (multi_of l) hello = (0, [21], [EWrite 1 hello; EWrite 2 hello; EWrite 3 hello]) /\
  w_n (write Orig (multi_of l) hello) = 5 /\
  sync (multi_of l) = ([22], [ESync 1; ESync 2; ESync 3]) /\
  (forall s, In s l -> 0 <= s_n s <= zlen hello).
Proof.
  intros l. split; [vm_compute; reflexivity|]. split; [vm_compute; reflexivity|]. split; [vm_compute; reflexivity|].
  intros s [<-|[<-|[<-|[]]]]; vm_compute; split; discriminate.
Qed.
(* Lock(AddSync(Lock(sink))) is one mutex; CombineWriteSyncers of two sinks holds one around both *)
Example C13_ex_comb :
  let e := XLock (XAddSync (XLock (XLeaf 1 true 5 [] []))) in
  let c := XCombine [XLeaf 1 true 2 [7] []; XAddSync (XLeaf 2 false 5 [] [])] in
  x_typed e = true /\ x_dom (zlen hello) e = true /\ eval e = Locked (Leaf 1 true 5 [] []) /\
  ref_write e hello 0 = (5, [], [obs_w 1 hello 1]) /\
  x_typed c = true /\ x_dom (zlen hello) c = true /\
  ref_write c hello 0 = (2, [7], [obs_w 1 hello 1; obs_w 2 hello 1]) /\
  ref_sync c 0 = ([], [obs_s 1 1]).
Proof. vm_compute. repeat split. Qed.
(* a complete schedule of two threads: both calls done, never more than one in flight *)
Example C13_ex_lock :
  let prog := [[0; 1]; [0]] in
  let s := run (locked_prog prog) [0%nat; 1%nat; 0%nat; 0%nat; 0%nat; 1%nat; 1%nat; 1%nat; 0%nat; 1%nat; 0%nat; 0%nat; 0%nat] in
  fin s = total_calls prog /\ maxc s = 1%nat.
Proof. vm_compute. split; reflexivity. Qed.
(* valid cases of every kind exist *)
Example C13_ex_wf :
  wf (SL [SZ 1; SL [SZ 4; SL [SL [SZ 0; SZ 1; SZ 1; SZ 0; SL []; SL []]; SL [SZ 0; SZ 2; SZ 1; SZ 5; SL []; SL []]]]; SB hello]) = true /\
  wf (SL [SZ 2; SZ 0; SZ 1; SB sp_hello_nl; SB hello]) = true /\
  wf (SL [SZ 2; SZ 3; SZ 4; SL [SL [SZ 0; SB hello]; SL [SZ 1]]]) = true /\
  wf (SL [SZ 3; SL [SL [SZ 0]]; SL [SZ 0; SZ 0; SZ 0; SZ 0]]) = true.
Proof. vm_compute. repeat split. Qed.
(* BufferedWriteSyncer over a faulty sink: after Stop a sink that keeps all but one byte and reports
   no error makes the Write fail with io.ErrShortWrite (-1), which then sticks; a (short, nil) answer
   to a write that bypasses the buffer is asked again with the rest; Sync reports the flush error
   and the sink's Sync error; a valid case of kind (2 4 ..) *)
Example C13_ex_bws_fault :
  fst (f_run 8 fbw0 [FW hello []; FStop [] 0; FW hello [(1, 0)]; FW hello []]) = [FRW 5 0; FRE []; FRW 5 (-1); FRW 0 (-1)] /\
  f_run 4 fbw0 [FW hello [(2, 0)]; FSync [(0, 7)] 33; FW hello []] =
    ([FRW 5 0; FRE [7; 33]; FRW 0 7], [SW hello; SW [x6c; x6f]; SS]) /\
  wf (SL [SZ 2; SZ 4; SZ 4; SL [SL [SZ 0; SB hello; SL [SL [SZ 1; SZ 0]]]; SL [SZ 2; SL []; SZ 0]]]) = true.
Proof. vm_compute. repeat split. Qed.
(* handles: Lock(sink), Lock of it, CombineWriteSyncers of that with another sink (a second mutex
   around the first), a multi of handles 0 and 1: all go through cell 0; a call through the last
   one reaches the sink twice; thread 0 parked inside the sink, nobody else gets in *)
Example C13_ex_handles :
  let ds := [DLock 0; DCombine [1; -1]; DMulti [0; 1]] in
  let prog := [[(0, 0)]; [(1, 1)]; [(2, 0)]; [(3, 1)]] in
  graph Reuse 0 ds = [HLocked 0 HSink; HLocked 0 HSink; HLocked 1 (HMulti [HLocked 0 HSink; HOther]);
                      HMulti [HLocked 0 HSink; HLocked 0 HSink]] /\
  reaches ds = [1; 1; 1; 2]%nat /\
  model (SL [SZ 4; SZ 1; SZ 0; SL [SL [SZ 0; SZ 0]; SL [SZ 3; SL [SZ 1; SZ (-1)]]; SL [SZ 2; SL [SZ 0; SZ 1]]];
             SL [SL [SL [SZ 0; SZ 0]]; SL [SL [SZ 1; SZ 1]]; SL [SL [SZ 2; SZ 0]]; SL [SL [SZ 3; SZ 1]]]; SL []])
    = SL [SZ 1; SZ 5] /\
  gmax (grun (handle_prog Reuse 0 ds prog) (gate_sched (graph Reuse 0 ds) prog)) = 1%nat /\
  gmax (grun (handle_prog Rewrap 0 ds prog) (gate_sched (graph Rewrap 0 ds) prog)) = 2%nat.
Proof. vm_compute. repeat split. Qed.

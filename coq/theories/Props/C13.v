(* C13 — stub: no theorems yet *)
From Zap Require Import Base.Wire C13.Model C13.Proofs.

(* C09 — The documented concurrent API is free of data races, deadlocks and panics.
   Only statements closed by [exact]; the proofs are in C09/{Race,Deadlock,Inst,Proofs}.v.

   Model (C09/Sem.v): a program is any number of threads; each thread runs any sequence
   of method summaries (Gen/AccessFacts.v, regenerated from the repository on every run)
   on any object instances; [run prog sched] is the interleaving semantics (mutexes and
   RW-mutexes, sync.Once, spawn, atomics, channel close/receive) along the schedule
   [sched : list tid].  A data race on location x is a reachable state in which two
   different threads are both about to access x, at least one access a plain write (or
   one plain and one atomic). *)
From Coq Require Import List Bool.
Import ListNotations.
From Zap Require Import Base.Wire C09.Sem C09.Deadlock C09.Facts C09.Orig C09.Model C09.Proofs Gen.AccessFacts.
From Zap Require C09.Release Gen.ReleaseFacts.

(* soundness of the decidable discipline, for ANY table of summaries: if every field is
   (a) never written, or (e) only accessed atomically, or (b) accessed only under one
   lock (writes under the exclusive lock), or (c) written only inside one once body and
   read only inside it or after that once completed in the same thread — then no program
   built from the table, on any instances, under any schedule, reaches a race state on a
   non-exempt field *)
Theorem C09_discipline_sound : forall Us ex, discipline_ok Us ex = true ->
  forall prog, from_facts Us prog -> forall sched i f, memb f ex = false ->
  ~ race_state (i, f) (run eqb2 prog sched).
Proof. exact discipline_sound_thm. Qed.
Print Assumptions C09_discipline_sound.

(* the summaries extracted from the repository's working tree satisfy the discipline
   (exempt = the three BufferedWriteSyncer fields of the locked-initialisation pattern,
   class (d), which are covered by the -race runs only) *)
Theorem C09_facts : discipline_ok U exempt = true.
Proof. exact facts_thm. Qed.
Print Assumptions C09_facts.

(* hence: every concurrent mix of the summarised methods is race-free in the model *)
Theorem C09_race_free : forall prog, from_facts U prog -> forall sched i f, memb f exempt = false ->
  ~ race_state (i, f) (run eqb2 prog sched).
Proof. exact (discipline_sound_thm U exempt facts_thm). Qed.
Print Assumptions C09_race_free.

(* no lock/once deadlock, for ANY table: if nested acquisitions strictly descend in rank
   (acyclic waits-for relation) and no summary waits on a channel while holding a lock or
   running a once body (the shape of #1428), then in every reachable state a thread
   blocked on a lock or a once implies that some thread can step, and a thread waiting
   on a channel holds nothing *)
Theorem C09_no_deadlock : forall Us rkf, deadlock_ok Us rkf = true ->
  forall prog, from_facts Us prog -> forall sched,
    let s := run eqb2 prog sched in
    (forall t, blocked_lo s t -> exists t', can_step s t' = true) /\
    (forall t c, waits_chan s t c -> forall r, ~ holdsP s t r).
Proof. exact no_deadlock_thm. Qed.
Print Assumptions C09_no_deadlock.

Theorem C09_facts_deadlock : deadlock_ok U rk = true.
Proof. exact facts_deadlock_thm. Qed.
Print Assumptions C09_facts_deadlock.

(* the summary of lazyWithCore BEFORE the fix violates the discipline, and the violation
   is a real race of the model: two goroutines logging through one fresh WithLazy
   logger, schedule [0;0;0] — thread 0 is about to write Core inside once.Do while
   thread 1 is about to read it in the promoted Enabled *)
Theorem C09_facts_refuted :
  discipline_ok U_orig [] = false /\ field_ok U_orig 0 = false /\
  from_facts U_orig prog_orig /\ race_state (0, 0) (run eqb2 prog_orig sched_orig).
Proof. exact facts_orig_refuted. Qed.
Print Assumptions C09_facts_refuted.

(* ---- recycled objects (sync.Pool): C09/Release.v, Gen/ReleaseFacts.v ----

   Per function and recycled variable v, the extracted skeleton [body : stm] carries the events
   on v (handed back / used / rebound) with branches, loops, returns and deferred code;
   [fn_trace body tr]: tr is the event sequence of some path through the function, deferred code
   included; [good false tr]: v is never handed back twice and never touched after it was handed
   back.  The decidable check covers every path: *)
Theorem C09_release_sound : forall body, Release.release_ok body = true ->
  forall tr, Release.fn_trace body tr -> Release.good false tr = true.
Proof. exact Release.release_sound. Qed.
Print Assumptions C09_release_sound.

(* the skeletons extracted from the repository's working tree pass the check ... *)
Theorem C09_release_facts : Release.release_all_ok ReleaseFacts.release_units = true.
Proof. exact release_facts_thm. Qed.
Print Assumptions C09_release_facts.

(* ... hence on every path through every function of zap that hands a recycled object back *)
Theorem C09_release_paths : forall name body, In (name, body) ReleaseFacts.release_units ->
  forall tr, Release.fn_trace body tr -> Release.good false tr = true.
Proof. exact release_paths_thm. Qed.
Print Assumptions C09_release_paths.

(* what the discipline buys: a pool (free copies per object, Get of a free copy or of a new
   object, Put by anybody of anything, copies dropped at any time), any number of goroutines, any
   interleaving [h].  If every goroutine keeps the discipline on every object -- uses and puts
   only what it got and has not put back since -- then no object is ever held by two goroutines,
   and every use of an object happens while the user is its only holder *)
Theorem C09_pool_exclusive : forall h s, Release.pruns h s -> Release.disciplined h ->
  (forall t1 t2 x, Release.holds s t1 x = true -> Release.holds s t2 x = true -> t1 = t2) /\
  (forall h1 t x h2, h = h1 ++ Release.AUse t x :: h2 -> forall s1, Release.pruns h1 s1 ->
     Release.holds s1 t x = true /\ forall t', Release.holds s1 t' x = true -> t' = t).
Proof. exact Release.pool_exclusive. Qed.
Print Assumptions C09_pool_exclusive.

(* ... and what one double Put costs (the shape of seed c09d): goroutine 0 gets object 7 and puts
   it twice; goroutines 1 and 2, each keeping the discipline, then both hold it *)
Theorem C09_double_put_shares : exists s, Release.pruns Release.double_put_run s /\
  Release.holds s 1 7 = true /\ Release.holds s 2 7 = true /\
  Release.disciplined [Release.AGet 1 7; Release.AGet 2 7] /\
  Release.good true (Release.proj 0 7 Release.double_put_run) = false.
Proof. exact Release.double_put_shares. Qed.
Print Assumptions C09_double_put_shares.

(* the oracle run by the driver is the proved property: on every well-formed case the
   model reports no race, no lock deadlock, no panic *)
Theorem C09_wire : forall i, wf i = true -> spec i (model i) = true.
Proof. exact wire_thm. Qed.
Print Assumptions C09_wire.

(* non-vacuity *)
Example C09_table_nonempty : 50 <= List.length units.
Proof. exact units_nonempty. Qed.

(* a program of the theorem's shape: 3 threads over the first three summaries, instance 7 *)
Example C09_program_exists : from_facts U [thread_of [(7, nth 0 U CNil); (7, nth 1 U CNil)]; thread_of [(7, nth 2 U CNil)]; thread_of []].
Proof.
  intros k [<-|[<-|[<-|[]]]]; eexists; (split; [|reflexivity]); intros c Hc; cbn in Hc;
    repeat (destruct Hc as [<-|Hc]; [vm_compute; auto 10|]); destruct Hc.
Qed.

Example C09_release_table_nonempty : 20 <= List.length ReleaseFacts.release_units.
Proof. exact release_units_nonempty. Qed.

(* the release check can say no, and what it rejects is a real path: acquire, defer the release,
   release by hand on an early return -- the deferred release then hands the object back again *)
Example C09_double_release_rejected : Release.release_ok c09d_shape = false /\
  exists tr, Release.fn_trace c09d_shape tr /\ Release.good false tr = false.
Proof. exact c09d_shape_rejected. Qed.

(* the checkers can say no: a field written under the lock but read without it; the
   shape of #1428 (waiting for the flush loop while holding the mutex it needs) *)
Example C09_unlocked_read_rejected :
  discipline_ok [CCrit 1 true (CAcc 0 true CNil) CNil; CAcc 0 false CNil] [] = false.
Proof. vm_compute. reflexivity. Qed.
Example C09_1428_shape_rejected :
  deadlock_ok [CCrit 1 true (CClose 2 (CRecv 3 CNil)) CNil; CCrit 1 true CNil (CRecv 2 (CClose 3 CNil))] (fun _ => 0) = false.
Proof. vm_compute. reflexivity. Qed.
(* ... and the semantics really deadlocks on it: Stop holds mu and waits for done; the
   flush loop needs mu before it can close done *)
Example C09_1428_deadlocks :
  let s := run eqb2 [thread_of [(0, CCrit 1 true (CClose 2 (CRecv 3 CNil)) CNil)];
                     thread_of [(0, CCrit 1 true CNil (CRecv 2 (CClose 3 CNil)))]] [0; 0; 1; 0; 1] in
  can_step s 0 = false /\ can_step s 1 = false.
Proof. vm_compute. auto. Qed.

(* C09 — The documented concurrent API is free of data races, deadlocks and panics.
   Only statements closed by [exact]; the proofs are in C09/{Race,Deadlock,Inst,Proofs}.v.

   Model (C09/Sem.v): a program is any number of threads; each thread runs any sequence
   of method summaries (Gen/AccessFacts.v, regenerated from the repository on every run)
   on any object instances; [run prog sched] is the interleaving semantics (mutexes and
   RW-mutexes, sync.Once, spawn, atomics, channel close/receive) along the schedule
   [sched : list tid].  A data race on location x is a reachable state in which two
   different threads are both about to access x, at least one access a plain write (or
   one plain and one atomic). *)
From Coq Require Import List Bool.
Import ListNotations.
From Zap Require Import Base.Wire C09.Sem C09.Deadlock C09.Facts C09.Orig C09.Model C09.Proofs Gen.AccessFacts.

(* soundness of the decidable discipline, for ANY table of summaries: if every field is
   (a) never written, or (e) only accessed atomically, or (b) accessed only under one
   lock (writes under the exclusive lock), or (c) written only inside one once body and
   read only inside it or after that once completed in the same thread — then no program
   built from the table, on any instances, under any schedule, reaches a race state on a
   non-exempt field *)
Theorem C09_discipline_sound : forall Us ex, discipline_ok Us ex = true ->
  forall prog, from_facts Us prog -> forall sched i f, memb f ex = false ->
  ~ race_state (i, f) (run eqb2 prog sched).
Proof. exact discipline_sound_thm. Qed.
Print Assumptions C09_discipline_sound.

(* the summaries extracted from the repository's working tree satisfy the discipline
   (exempt = the three BufferedWriteSyncer fields of the locked-initialisation pattern,
   class (d), which are covered by the -race runs only) *)
Theorem C09_facts : discipline_ok U exempt = true.
Proof. exact facts_thm. Qed.
Print Assumptions C09_facts.

(* hence: every concurrent mix of the summarised methods is race-free in the model *)
Theorem C09_race_free : forall prog, from_facts U prog -> forall sched i f, memb f exempt = false ->
  ~ race_state (i, f) (run eqb2 prog sched).
Proof. exact (discipline_sound_thm U exempt facts_thm). Qed.
Print Assumptions C09_race_free.

(* no lock/once deadlock, for ANY table: if nested acquisitions strictly descend in rank
   (acyclic waits-for relation) and no summary waits on a channel while holding a lock or
   running a once body (the shape of #1428), then in every reachable state a thread
   blocked on a lock or a once implies that some thread can step, and a thread waiting
   on a channel holds nothing *)
Theorem C09_no_deadlock : forall Us rkf, deadlock_ok Us rkf = true ->
  forall prog, from_facts Us prog -> forall sched,
    let s := run eqb2 prog sched in
    (forall t, blocked_lo s t -> exists t', can_step s t' = true) /\
    (forall t c, waits_chan s t c -> forall r, ~ holdsP s t r).
Proof. exact no_deadlock_thm. Qed.
Print Assumptions C09_no_deadlock.

Theorem C09_facts_deadlock : deadlock_ok U rk = true.
Proof. exact facts_deadlock_thm. Qed.
Print Assumptions C09_facts_deadlock.

(* the summary of lazyWithCore BEFORE the fix violates the discipline, and the violation
   is a real race of the model: two goroutines logging through one fresh WithLazy
   logger, schedule [0;0;0] — thread 0 is about to write Core inside once.Do while
   thread 1 is about to read it in the promoted Enabled *)
Theorem C09_facts_refuted :
  discipline_ok U_orig [] = false /\ field_ok U_orig 0 = false /\
  from_facts U_orig prog_orig /\ race_state (0, 0) (run eqb2 prog_orig sched_orig).
Proof. exact facts_orig_refuted. Qed.
Print Assumptions C09_facts_refuted.

(* the oracle run by the driver is the proved property: on every well-formed case the
   model reports no race, no lock deadlock, no panic *)
Theorem C09_wire : forall i, wf i = true -> spec i (model i) = true.
Proof. exact wire_thm. Qed.
Print Assumptions C09_wire.

(* non-vacuity *)
Example C09_table_nonempty : 50 <= List.length units.
Proof. exact units_nonempty. Qed.

(* a program of the theorem's shape: 3 threads over the first three summaries, instance 7 *)
Example C09_program_exists : from_facts U [thread_of [(7, nth 0 U CNil); (7, nth 1 U CNil)]; thread_of [(7, nth 2 U CNil)]; thread_of []].
Proof.
  intros k [<-|[<-|[<-|[]]]]; eexists; (split; [|reflexivity]); intros c Hc; cbn in Hc;
    repeat (destruct Hc as [<-|Hc]; [vm_compute; auto 10|]); destruct Hc.
Qed.

(* the checkers can say no: a field written under the lock but read without it; the
   shape of #1428 (waiting for the flush loop while holding the mutex it needs) *)
Example C09_unlocked_read_rejected :
  discipline_ok [CCrit 1 true (CAcc 0 true CNil) CNil; CAcc 0 false CNil] [] = false.
Proof. vm_compute. reflexivity. Qed.
Example C09_1428_shape_rejected :
  deadlock_ok [CCrit 1 true (CClose 2 (CRecv 3 CNil)) CNil; CCrit 1 true CNil (CRecv 2 (CClose 3 CNil))] (fun _ => 0) = false.
Proof. vm_compute. reflexivity. Qed.
(* ... and the semantics really deadlocks on it: Stop holds mu and waits for done; the
   flush loop needs mu before it can close done *)
Example C09_1428_deadlocks :
  let s := run eqb2 [thread_of [(0, CCrit 1 true (CClose 2 (CRecv 3 CNil)) CNil)];
                     thread_of [(0, CCrit 1 true CNil (CRecv 2 (CClose 3 CNil)))]] [0; 0; 1; 0; 1] in
  can_step s 0 = false /\ can_step s 1 = false.
Proof. vm_compute. auto. Qed.

(* C09 — stub: no theorems yet *)
From Zap Require Import Base.Wire C09.Model C09.Proofs.

(* C07 — Logger context is exact and isolated across derived loggers.
   Only statements closed by [exact]; the proofs are in C07/{Proofs,Sim,Path,Main,Iso,Alias,Pool,Fault,Level}.v.

   Vocabulary (C07/Model.v).  A configuration is a root composition [comp] of cores (JSON, console,
   observer leaves under tee / sampler / hooked / level-increased / lazy wrappers).  A program is a
   list of operations, executed in order: [ODerive parent step w] (With, WithLazy, Named,
   WithOptions(Fields), Sugar, Desugar — plain or sugared) and [OLog node hi msg fields w]; [w] is the
   value a world variable has at that moment, which MUTABLE marshalers ([SMObj] ...) read when they are
   invoked; [hi : lvq] is the level of the call ([lv hi]: zapcore.Level by number, Debug -1 .. Error 2) AND
   the level state at that moment ([le hi]: the value of every AtomicLevel of the configuration -- leaves and
   IncreaseLevel filters may share AtomicLevels that the program changes with SetLevel between any two
   operations, in both directions, also into states where a filter enables what the core it wraps
   rejects).  A derivation carries no level state: no With reads one.  [run_events]: the operational model of zap's code (loggers holding cores, encoder states,
   observer contexts, a store of sync.Once cells).  [spec_events]: the specification — a logger IS its
   derivation path (name segments + context items); a call emits, on every sink its level reaches,
   the line printed from the tree-level semantics (Enc/JsonAst.v) of: level, dot-joined non-empty
   segments, message, the path's fields in order (a With/Fields item evaluated at derivation, a
   WithLazy item at its first use, an observer's Fields when rendered), then the call-site fields. *)
From Coq Require Import List ZArith Bool.
From Coq.Strings Require Import Byte.
Import ListNotations.
From Zap Require Import Base.Wire Enc.Bytes Enc.Fields Enc.JsonEnc Enc.JsonAst Enc.Wf.
From Zap Require Import C07.Model C07.Proofs C07.Sim C07.Path C07.Main C07.Iso C07.Alias C07.Pool C07.Fault C07.Level.

(* for every configuration, every program (any tree shape, any number of nodes, any order of
   derivations and uses, mutable marshalers included): every logging call makes observable exactly
   what its own path prescribes — on every core type *)
Theorem C07_exact : forall c ops, wf_comp c = true -> forallb wf_op ops = true ->
  run_events c ops = spec_events c ops.
Proof. exact exact_thm. Qed.
Print Assumptions C07_exact.

(* Logger.Named: empty segments ignored, the others dot-joined *)
Theorem C07_named : forall sg s,
  path_name (sg ++ [s]) =
    if is_nil s then path_name sg else if is_nil (path_name sg) then s else path_name sg ++ [DOT] ++ s.
Proof. exact path_name_snoc. Qed.
Print Assumptions C07_named.

(* every wrapper's With keeps the wrapper and is With at every leaf (tee, sampler, hooked, level filter) *)
Theorem C07_wrapper_with_commutes : forall w fs p,
  shape_of (pwith w fs p) = shape_of p /\ leaves (pwith w fs p) = map (pwith w fs) (leaves p).
Proof. exact wrapper_with_commutes. Qed.
Print Assumptions C07_wrapper_with_commutes.

(* ... including through lazyWithCore cells of the root composition: With on it yields the expected
   core of the one-item path, evaluates exactly the cells still pending, leaves the others alone *)
Theorem C07_root_with : forall w c fs sg m, NoDup (all_ids c) -> root_ok m sg c ->
  exists sg', rwith w fs c sg = (pexp (mark_all w (all_ids c) m) c [PEager w fs], sg') /\
              root_ok (mark_all w (all_ids c) m) sg' c /\
              (forall id, ~ In id (all_ids c) -> lookup id sg' = lookup id sg).
Proof. exact rwith_spec. Qed.
Print Assumptions C07_root_with.

(* with_compose: the encoder state after a chain of Withs continues the fold (bytes and open
   namespaces carried across With), and the line an io core writes after ANY chain of Withs is the
   print of the tree of all the chain's fields in order followed by the call-site fields *)
Theorem C07_with_compose : forall c sp ctxs1 ctxs2,
  with_chain c sp (ctxs1 ++ ctxs2) = fold_left (fun s fs => enc_flds c sp fs s) ctxs2 (with_chain c sp ctxs1).
Proof. exact with_compose. Qed.
Print Assumptions C07_with_compose.
Theorem C07_json_line : forall hi nm msg ctxs fs, forallb wf_flds ctxs = true -> wf_flds fs = true ->
  encode_entry c07_cfg false (with_chain c07_cfg false ctxs) (mk_entry hi nm msg) fs =
    Some (json_line hi nm msg (concat ctxs ++ fs)).
Proof. exact json_leaf. Qed.
Print Assumptions C07_json_line.
Theorem C07_console_line : forall hi nm msg ctxs fs, forallb wf_flds ctxs = true -> wf_flds fs = true ->
  console_line c07_cfg (with_chain c07_cfg true ctxs) (mk_entry hi nm msg) fs =
    console_spec_line hi nm msg (concat ctxs ++ fs).
Proof. exact console_leaf. Qed.
Print Assumptions C07_console_line.

(* isolation, pure model.  What the call [OLog n hi msg fs w] issued after ANY program emits is the
   function [path_emits] of the logger's own path and of the evaluation worlds of the lazily evaluated
   contexts on that path: *)
Theorem C07_emits_own_path : forall c ops n sn hi msg fs w,
  wf_comp c = true -> forallb wf_op ops = true -> wf_sflds fs = true ->
  nth_error (snodes (sfinal c ops)) n = Some sn ->
  emits c ops n hi msg fs w = path_emits (root_of c) (smarks (sfinal c ops)) sn hi msg fs w.
Proof. exact emits_path. Qed.
Print Assumptions C07_emits_own_path.
(* ... so two loggers with the same path whose lazy contexts were evaluated at the same moments emit
   the same, in any two programs (in particular: before and after any further derivations and calls
   on parents, siblings, descendants, in any order) *)
Theorem C07_isolated : forall c ops1 ops2 n1 n2 sn hi msg fs w,
  wf_comp c = true -> forallb wf_op ops1 = true -> forallb wf_op ops2 = true -> wf_sflds fs = true ->
  nth_error (snodes (sfinal c ops1)) n1 = Some sn -> nth_error (snodes (sfinal c ops2)) n2 = Some sn ->
  (forall id, In id (all_ids (root_of c) ++ lazy_ids (items sn)) ->
     lookup id (smarks (sfinal c ops1)) = lookup id (smarks (sfinal c ops2))) ->
  emits c ops1 n1 hi msg fs w = emits c ops2 n2 hi msg fs w.
Proof. exact isolated_thm. Qed.
Print Assumptions C07_isolated.
(* a logger's path never changes *)
Theorem C07_path_stable : forall c ops extra n sn,
  nth_error (snodes (sfinal c ops)) n = Some sn -> nth_error (snodes (sfinal c (ops ++ extra))) n = Some sn.
Proof. exact path_stable. Qed.
Print Assumptions C07_path_stable.
(* with static fields: a function of the name and of the sequence of field lists alone — not of the
   rest of the tree, the order of operations, the worlds, or which steps were lazy *)
Theorem C07_isolated_static : forall c ops1 ops2 n1 n2 sn1 sn2 hi msg fs w1 w2,
  wf_comp c = true -> forallb wf_op ops1 = true -> forallb wf_op ops2 = true -> wf_sflds fs = true ->
  static_comp c = true -> forallb static_op ops1 = true -> static_sflds fs = true ->
  nth_error (snodes (sfinal c ops1)) n1 = Some sn1 -> nth_error (snodes (sfinal c ops2)) n2 = Some sn2 ->
  path_name (segs sn1) = path_name (segs sn2) -> map item_fs (items sn1) = map item_fs (items sn2) ->
  emits c ops1 n1 hi msg fs w1 = emits c ops2 n2 hi msg fs w2.
Proof. exact isolated_static_thm. Qed.
Print Assumptions C07_isolated_static.

(* isolation, heap models: the two places where memory is shared and mutated *)
Theorem C07_observer_with_no_alias : forall (T : Type) (d : T) (newcap : nat -> nat -> nat),
  (forall c n, n <= newcap c n) ->
  forall ops h obs, Forall (valid T h) obs ->
  map (read T (fst (orun T d newcap h obs ops))) (snd (orun T d newcap h obs ops)) = prun T (map (read T h) obs) ops.
Proof. exact observer_no_alias. Qed.
Print Assumptions C07_observer_with_no_alias.
Theorem C07_clone_fresh_buffer : forall h e bs dns, ebuf e < length h ->
  bread (fst (io_with h e bs dns)) (snd (io_with h e bs dns)) = bread h e ++ bs /\
  ens (snd (io_with h e bs dns)) = ens e + dns /\
  (forall e0, ebuf e0 < length h -> bread (fst (io_with h e bs dns)) e0 = bread h e0).
Proof. exact clone_fresh_buffer_thm. Qed.
Print Assumptions C07_clone_fresh_buffer.
(* the models can express the failures: the two-index append leaks a sibling's field; a Clone sharing
   buf changes the parent (these are NOT zap's code: mutations the check must catch) *)
Theorem C07_observer_two_index_refuted :
  let '(h, obs) := orun2 [[]] [nil_slice] alias_witness in
  map (read nat h) obs <> prun nat (map (read nat [[]]) [nil_slice]) alias_witness /\
  nth 4 (map (read nat h) obs) [] = [1; 2; 3; 20].
Proof. exact observer_two_index_refuted. Qed.
Print Assumptions C07_observer_two_index_refuted.
Theorem C07_clone_shared_refuted :
  exists h e bs, ebuf e < length h /\ bread (fst (io_with_shared h e bs 0)) e <> bread h e.
Proof. exact clone_shared_refuted. Qed.
Print Assumptions C07_clone_shared_refuted.

(* recorded entries.  contextObserver.Write gives every recorded entry an array of its own: for every
   program of With and Write steps on any tree of observers (any order, several entries per logger, any
   append growth policy) every logger's context AND every recorded entry, read in the FINAL heap, is its
   pure value -- context of its logger ++ its own call-site fields ... *)
Theorem C07_observer_entries_stable : forall (T : Type) (d : T) (newcap : nat -> nat -> nat),
  (forall c n, n <= newcap c n) ->
  forall ops st, ovalid T st ->
  oreads T (orunw T d newcap (obs_write T) st ops) = prunw T (fst (oreads T st)) (snd (oreads T st)) ops /\
  ovalid T (orunw T d newcap (obs_write T) st ops).
Proof. exact observer_entries_stable. Qed.
Print Assumptions C07_observer_entries_stable.
(* ... so the entries recorded by [ops1], read again after ANY further operations [ops2] (later entries of
   the same logger or of any other, later derivations), are what they were when read at once *)
Theorem C07_observer_entries_reread : forall (T : Type) (d : T) (newcap : nat -> nat -> nat),
  (forall c n, n <= newcap c n) ->
  forall ops1 ops2 st, ovalid T st ->
  firstn (length (ologs T (orunw T d newcap (obs_write T) st ops1)))
         (snd (oreads T (orunw T d newcap (obs_write T) st (ops1 ++ ops2)))) =
  snd (oreads T (orunw T d newcap (obs_write T) st ops1)).
Proof. exact observer_entries_reread. Qed.
Print Assumptions C07_observer_entries_reread.
(* the mutation all := append(co.context, fields...) (NOT zap's code): after With(1,2).With(3) -- len 3,
   cap 4 -- the second entry logged through that logger overwrites the call-site field of the first,
   although each entry was right when read immediately after its own call *)
Theorem C07_observer_write_append_refuted :
  let st := orunw nat 0 double_cap (obs_write_append nat 0 double_cap) ost0 write_witness in
  snd (oreads nat st) <> snd (prunw nat [[]] [] write_witness) /\
  snd (oreads nat st) = [[1; 2; 3; 20]; [1; 2; 3; 20]] /\
  snd (oreads nat (orunw nat 0 double_cap (obs_write_append nat 0 double_cap) ost0 (firstn 3 write_witness))) = [[1; 2; 3; 10]].
Proof. exact observer_write_append_refuted. Qed.
Print Assumptions C07_observer_write_append_refuted.
(* in the operational model and in the specification alike, the end-of-history view of the calls of a
   program (what every sink holds for them, Model.v [enc_end]) taken after any further operations is
   their view taken at once: entries are values, nothing logged or derived later rewrites them *)
Theorem C07_end_view_stable : forall c ops extra nk,
  firstn (length (run_events c ops)) (map (enc_log_end nk) (run_events c (ops ++ extra))) = map (enc_log_end nk) (run_events c ops) /\
  firstn (length (spec_events c ops)) (map (enc_log_end nk) (spec_events c (ops ++ extra))) = map (enc_log_end nk) (spec_events c ops).
Proof. exact end_view_stable. Qed.
Print Assumptions C07_end_view_stable.

(* WithLazy.  (a) once: an evaluation world, once recorded, never changes;  (b) first use: it is the
   world of the first later operation that uses the context (an enabled call from, or a With /
   WithOptions(Fields) derivation on, a logger holding it — [used_ids]);  (c) with fields that do not
   depend on the moment of evaluation, WithLazy is With. *)
Theorem C07_lazy_once : forall root ops ss, mext (smarks ss) (smarks (fst (srun root ss ops))).
Proof. exact marks_once. Qed.
Print Assumptions C07_lazy_once.
Theorem C07_lazy_first_use : forall root ops ss id, lookup id (smarks ss) = None ->
  lookup id (smarks (fst (srun root ss ops))) = first_use root ss ops id.
Proof. exact lazy_first_use. Qed.
Print Assumptions C07_lazy_first_use.
Theorem C07_lazy : forall c ops,
  wf_comp c = true -> forallb wf_op ops = true -> static_comp c = true -> forallb static_op ops = true ->
  run_events c (map eagerize ops) = run_events c ops.
Proof. exact lazy_as_with_thm. Qed.
Print Assumptions C07_lazy.

(* the specification's totalised default (world 0 for a lazily evaluated item that is not marked) is
   never read: the walk reads only the marks of the cells the entry reaches and of the path, and at a
   logging call all of those are marked *)
Theorem C07_spec_reads : forall m1 m2 hi nm msg w fs c ch nn,
  (forall id, In id (log_ids hi c ++ lazy_ids ch) -> lookup id m1 = lookup id m2) ->
  swalk m1 hi nm msg w fs c ch nn = swalk m2 hi nm msg w fs c ch nn.
Proof. exact swalk_ext. Qed.
Print Assumptions C07_spec_reads.
Theorem C07_spec_marked : forall hi root its w m,
  all_marked (mark_all w (log_marks hi root its) m) (log_ids hi root ++ lazy_ids its).
Proof. exact spec_marked. Qed.
Print Assumptions C07_spec_marked.

(* a sub-composition that is disabled at the entry's level emits nothing and registers nothing, whether or
   not an earlier core of a tee already accepted the entry: in particular a hooked core around it does not
   run its hooks (hooked.Check after "fix: hooked.Check runs the hooks only when the wrapped core accepted
   the entry"), and a lazyWithCore around it is not evaluated (lazyWithCore.Check asks originalCore.Enabled first) *)
Theorem C07_disabled_silent : forall m hi nm msg w fs c ch nn, senabled hi c = false ->
  swalk m hi nm msg w fs c ch nn = ([], [], nn).
Proof. exact swalk_disabled. Qed.
Print Assumptions C07_disabled_silent.

(* FAULTS.  Sinks may fail the write of any calls ([fls]: per logging call, the sinks whose Write returns an
   error -- nothing, a part or all of the line consumed; a failing sink keeps nothing of that line).  For every
   configuration, every program and EVERY such assignment the observation is the specification's ... *)
Theorem C07_exact_under_faults : forall c ops fls, wf_comp c = true -> forallb wf_op ops = true ->
  apply_faults fls (run_events c ops) = apply_faults fls (spec_events c ops).
Proof. exact faults_exact. Qed.
Print Assumptions C07_exact_under_faults.
(* ... in which a fault removes the failing sink's own line of that call and nothing else: every sink that
   did not fail the write of call j -- among them the sink that failed EARLIER writes, and every logger derived
   after the fault -- holds for call j exactly the fault-free history's line(s); the hook events are untouched;
   no call is added or lost *)
Theorem C07_fault_local : forall fls l j k, existsb (Nat.eqb k) (nth j fls []) = false ->
  filter (is_out k) (nth j (apply_faults fls l) []) = filter (is_out k) (nth j l []).
Proof. exact fault_local. Qed.
Print Assumptions C07_fault_local.
Theorem C07_fault_aux : forall fls l j,
  filter is_aux (nth j (apply_faults fls l) []) = filter is_aux (nth j l []).
Proof. exact fault_aux. Qed.
Print Assumptions C07_fault_aux.
Theorem C07_fault_dropped : forall fls l j k, existsb (Nat.eqb k) (nth j fls []) = true ->
  filter (is_out k) (nth j (apply_faults fls l) []) = [].
Proof. exact fault_dropped. Qed.
Print Assumptions C07_fault_dropped.
Theorem C07_fault_free : forall n l, apply_faults (repeat [] n) l = l /\ length (apply_faults (repeat [] n) l) = length l.
Proof. exact fault_free. Qed.
Print Assumptions C07_fault_free.

(* the buffer pool (C07/Pool.v): the context buffers of derived loggers come from a process-wide pool into
   which ioCore.Write puts the entry buffer back exactly once, whether the sink accepted the line or failed.
   For every program of With and Write steps on any tree of io-backed loggers -- any order, any sink failures,
   any choice the pool makes among its free buffers (or none: a new buffer) -- every logger's context read in
   the FINAL heap and every delivered line is the pure value: the context of its parent ++ its own fields;
   prefix ++ the context of its own logger ++ its call-site fields.  The invariant: free buffers are pairwise
   distinct and held by no live logger. *)
Theorem C07_pool_contexts_exact : forall ops s, pinv s ->
  preads (fold_left (pstep 1) ops s) = fold_left pure_step ops (preads s) /\ pinv (fold_left (pstep 1) ops s).
Proof. exact pool_contexts_exact. Qed.
Print Assumptions C07_pool_contexts_exact.
(* the model can express the failure: with a second Free on the error branch (NOT zap's code: the class of
   mutation the check must catch) one failed write, then the siblings 1.With(a) and 1.With(b): both read "sb" *)
Theorem C07_pool_double_free_refuted :
  fst (preads (fold_left (pstep 2) pool_witness pool0)) = [[]; [x73]; [x73; x62]; [x73; x62]] /\
  fst (fold_left pure_step pool_witness (preads pool0)) = [[]; [x73]; [x73; x61]; [x73; x62]] /\
  fst (preads (fold_left (pstep 1) pool_witness pool0)) = [[]; [x73]; [x73; x61]; [x73; x62]].
Proof. exact pool_double_free_refuted. Qed.
Print Assumptions C07_pool_double_free_refuted.

(* LEVEL STATE.  Levels gate, they never edit.  [path_lines]: the lines of a path over a composition, one per
   sink -- a function of the level NUMBER printed in the line, the name, the message, the path's items and
   the call-site fields; no threshold, static or atomic, is consulted.  Under ANY level state the lines a
   walk of the specification delivers are lines of the path, in order (a sub-list: a disabled part delivers
   nothing); all of them when every filter admits the entry *)
Theorem C07_level_gate : forall m hi nm msg w fs c ch nn,
  sublist (lines_of (res_evs (swalk m hi nm msg w fs c ch nn))) (path_lines m (lv hi) nm msg w fs c ch).
Proof. exact level_gate. Qed.
Print Assumptions C07_level_gate.
Theorem C07_level_open : forall m hi nm msg w fs c ch nn, all_admit hi c = true ->
  lines_of (res_evs (swalk m hi nm msg w fs c ch nn)) = path_lines m (lv hi) nm msg w fs c ch.
Proof. exact level_open. Qed.
Print Assumptions C07_level_open.
(* ... and so does the operational model of zap's code, after ANY program: whatever the levels and level
   states of the earlier calls, whatever the AtomicLevels were when logger n and its ancestors were derived
   (before or after any SetLevel), whatever they are now, the call delivers nothing but lines of n's own
   derivation path -- With / WithLazy / WithOptions(Fields) / Sugar().With under a level filter never yields
   the parent's context *)
Theorem C07_levels_gate_only : forall c ops n sn hi msg fs w,
  wf_comp c = true -> forallb wf_op ops = true -> wf_sflds fs = true ->
  nth_error (snodes (sfinal c ops)) n = Some sn ->
  sublist (lines_of (emits c ops n hi msg fs w))
          (path_lines (mark_all w (log_marks hi (root_of c) (items sn)) (smarks (sfinal c ops)))
                      (lv hi) (path_name (segs sn)) msg w fs (root_of c) (items sn)).
Proof. exact levels_gate_only. Qed.
Print Assumptions C07_levels_gate_only.
Theorem C07_levels_open_all : forall c ops n sn hi msg fs w,
  wf_comp c = true -> forallb wf_op ops = true -> wf_sflds fs = true ->
  nth_error (snodes (sfinal c ops)) n = Some sn -> all_admit hi (root_of c) = true ->
  lines_of (emits c ops n hi msg fs w) =
    path_lines (mark_all w (log_marks hi (root_of c) (items sn)) (smarks (sfinal c ops)))
               (lv hi) (path_name (segs sn)) msg w fs (root_of c) (items sn).
Proof. exact levels_open_all. Qed.
Print Assumptions C07_levels_open_all.
(* the level history is not part of a logger: two programs that differ only in the levels and level states
   of their calls ([relevel]) build the same loggers, and with static fields every logger emits the same, at
   any level and level state, after either *)
Theorem C07_paths_level_free : forall c ops1 ops2, Forall2 relevel ops1 ops2 ->
  snodes (sfinal c ops1) = snodes (sfinal c ops2).
Proof. exact paths_level_free. Qed.
Print Assumptions C07_paths_level_free.
Theorem C07_level_history_static : forall c ops1 ops2 n sn hi msg fs w,
  wf_comp c = true -> forallb wf_op ops1 = true -> forallb wf_op ops2 = true -> wf_sflds fs = true ->
  static_comp c = true -> forallb static_op ops1 = true -> static_sflds fs = true ->
  Forall2 relevel ops1 ops2 -> nth_error (snodes (sfinal c ops1)) n = Some sn ->
  emits c ops1 n hi msg fs w = emits c ops2 n hi msg fs w.
Proof. exact level_history_static. Qed.
Print Assumptions C07_level_history_static.

(* the oracle the driver runs is the proved specification: [spec] compares the whole observation -- the
   per-call part and the end-of-history part (every entry re-read after the whole program) -- with what
   [spec_events] prescribes *)
Theorem C07_wire : forall i, wf i = true -> spec i (model i) = true.
Proof. exact spec_model. Qed.
Print Assumptions C07_wire.

(* ---------- non-vacuity ---------- *)
Definition sf (k v : bytes) : sfld := SF (FString k v).
Definition ex_comp : comp := CTee [CFilt (LStat 1) (CLazy [SMObj [x72]] CJson); CHook CObs].
Definition ex_ops : list op :=
  [ ODerive 0 (SWith [sf [x61] [x31]]) 1;                 (* 1 = root.With(a=1) *)
    ODerive 1 (SNamed [x78]) 1;                           (* 2 = 1.Named("x") *)
    ODerive 1 (SWithLazy [SMStr [x6c]]) 2;                (* 3 = 1.WithLazy(l=<world>) *)
    ODerive 3 (SNamed []) 2;                              (* 4 = 3.Named("") *)
    ODerive 1 (SWith [SF (FNamespace [x6e]); sf [x62] [x32]]) 3;   (* 5 = 1.With(namespace n, b=2): sibling of 3 *)
    OLog 4 (at_lvl 1) [x6d] [sf [x63] [x33]] 5;                 (* first use of 3's core, through its clone 4 *)
    OLog 3 (at_lvl 1) [x6d] [] 7;
    OLog 5 (at_lvl 1) [x6d] [sf [x63] [x33]] 8;
    OLog 2 (at_lvl 1) [x6d] [] 9 ].
Example C07_example_wf : wf_comp ex_comp = true /\ forallb wf_op ex_ops = true.
Proof. vm_compute. split; reflexivity. Qed.
(* the third call: logger 5, Warn: both sinks; fields a, then namespace n { b, c }, name empty *)
Example C07_example_line :
  nth 2 (run_events ex_comp ex_ops) [] =
    [EOut 0 (Some (json_line 1 [] [x6d]
        [FObject [x72] (Obj [FInt k_w 1] None); FString [x61] [x31]; FNamespace [x6e]; FString [x62] [x32]; FString [x63] [x33]]));
     EOut 1 (Some (json_line 1 [] [x6d]
        [FString [x61] [x31]; FNamespace [x6e]; FString [x62] [x32]; FString [x63] [x33]]));
     EHook [] [x6d]].
Proof. vm_compute. reflexivity. Qed.
(* the lazily evaluated stringer of logger 3: the JSON core shows the world of its first use (5, through the clone 4)
   also in the later call at world 7; the observer, which stores the Field itself, shows the world at which it is rendered *)
Example C07_example_lazy :
  nth 1 (run_events ex_comp ex_ops) [] =
    [EOut 0 (Some (json_line 1 [] [x6d] [FObject [x72] (Obj [FInt k_w 1] None); FString [x61] [x31]; FStringer [x6c] (OOk [x35])]));
     EOut 1 (Some (json_line 1 [] [x6d] [FString [x61] [x31]; FStringer [x6c] (OOk [x37])])); EHook [] [x6d]].
Proof. vm_compute. reflexivity. Qed.
Example C07_example_name : nth 3 (run_events ex_comp ex_ops) [] =
    [EOut 0 (Some (json_line 1 [x78] [x6d] [FObject [x72] (Obj [FInt k_w 1] None); FString [x61] [x31]]));
     EOut 1 (Some (json_line 1 [x78] [x6d] [FString [x61] [x31]])); EHook [x78] [x6d]].
Proof. vm_compute. reflexivity. Qed.
(* bytes of one line *)
Example C07_example_bytes :
  json_line 1 [x78] [x6d] [FString [x61] [x31]] =
    [x7b;x22;x6c;x65;x76;x65;x6c;x22;x3a;x22;x77;x61;x72;x6e;x22;x2c;x22;x6c;x6f;x67;x67;x65;x72;x22;x3a;x22;x78;x22;x2c;
     x22;x6d;x73;x67;x22;x3a;x22;x6d;x22;x2c;x22;x61;x22;x3a;x22;x31;x22;x7d;x0a].
Proof. vm_compute. reflexivity. Qed.
(* the example with the JSON sink failing the write of the second call: that line is lost, the observer's
   line and the hook event of the same call and every other call are unchanged *)
Example C07_example_fault :
  nth 1 (apply_faults [[]; [0]] (run_events ex_comp ex_ops)) [] =
    [EOut 1 (Some (json_line 1 [] [x6d] [FString [x61] [x31]; FStringer [x6c] (OOk [x37])])); EHook [] [x6d]] /\
  nth 2 (apply_faults [[]; [0]] (run_events ex_comp ex_ops)) [] = nth 2 (run_events ex_comp ex_ops) [].
Proof. vm_compute. split; reflexivity. Qed.
Example C07_example_pool_inv : pinv pool0.
Proof. exact pool0_inv. Qed.
(* the end-of-history view of the example: one element per call, one column per sink; the first call's
   entry on the observer sink is still the line of logger 4 with its own call-site field c=3 *)
Example C07_example_end_view :
  nth 0 (map (enc_log_end 2) (run_events ex_comp ex_ops)) (SL []) =
    SL [SL [SL [SB (json_line 1 [] [x6d] [FObject [x72] (Obj [FInt k_w 1] None); FString [x61] [x31]; FStringer [x6c] (OOk [x35]); FString [x63] [x33]])]];
        SL [SL [SB (json_line 1 [] [x6d] [FString [x61] [x31]; FStringer [x6c] (OOk [x35]); FString [x63] [x33]])]]].
Proof. vm_compute. reflexivity. Qed.

(* LEVEL STATE: zap.IncreaseLevel(Info) over a JSON leaf built with AtomicLevel 0 (Debug at construction).
   Logger 1 is derived while the leaf is at Debug; the leaf is then raised to Warn -- the filter now enables
   Info, which the wrapped core rejects -- and the sibling 2 and the grandchild 3 are derived in THAT state.
   At Warn all three carry their own paths; at Info nothing is delivered; after lowering again, Info entries
   of the loggers derived in the raised state carry their paths too. *)
Definition lv_comp : comp := CFilt (LStat 0) (CFilt (LAtom 0) CJson).
Definition lv_ops : list op :=
  [ ODerive 0 (SWith [sf [x6b] [x31]]) 1;                                  (* 1 = root.With(k=1), leaf at Debug *)
    (* SetLevel(Warn) *)
    ODerive 0 (SWith [sf [x6b] [x32]]) 1;                                  (* 2 = root.With(k=2), leaf at Warn *)
    ODerive 2 (SFields [SF (FNamespace [x6e]); sf [x6a] [x34]]) 1;          (* 3 = 2.WithOptions(Fields(namespace n, j=4)) *)
    OLog 1 {| lv := 1; le := [1%Z] |} [x6d] [] 1;
    OLog 2 {| lv := 1; le := [1%Z] |} [x6d] [] 1;
    OLog 3 {| lv := 2; le := [1%Z] |} [x6d] [sf [x63] [x33]] 1;
    OLog 2 {| lv := 0; le := [1%Z] |} [x6d] [] 1;                          (* Info while the leaf is at Warn: not delivered *)
    (* SetLevel(Debug) *)
    OLog 3 {| lv := 0; le := [(-1)%Z] |} [x6d] [] 1;
    OLog 0 {| lv := (-1); le := [(-1)%Z] |} [x6d] [] 1 ].                  (* Debug: the filter's own level rejects it *)
Example C07_example_levels :
  run_events lv_comp lv_ops =
    [ [EOut 0 (Some (json_line 1 [] [x6d] [FString [x6b] [x31]]))];
      [EOut 0 (Some (json_line 1 [] [x6d] [FString [x6b] [x32]]))];
      [EOut 0 (Some (json_line 2 [] [x6d] [FString [x6b] [x32]; FNamespace [x6e]; FString [x6a] [x34]; FString [x63] [x33]]))];
      [];
      [EOut 0 (Some (json_line 0 [] [x6d] [FString [x6b] [x32]; FNamespace [x6e]; FString [x6a] [x34]]))];
      [] ].
Proof. vm_compute. reflexivity. Qed.
(* the same through the wire: (3 a level) operations become the level state of the later calls *)
Example C07_example_setlevel :
  dec_ops [(-1)%Z] [SL [SZ 1; SZ 0; SZ 1; SB [x6d]; SL []; SZ 1]; SL [SZ 3; SZ 0; SZ 2];
                     SL [SZ 0; SZ 0; SL [SZ 4]; SZ 1]; SL [SZ 1; SZ 1; SZ 2; SB [x6d]; SL []; SZ 1]] =
    [OLog 0 {| lv := 1; le := [(-1)%Z] |} [x6d] [] 1; ODerive 0 SSugar 1; OLog 1 {| lv := 2; le := [2%Z] |} [x6d] [] 1].
Proof. vm_compute. reflexivity. Qed.
Example C07_example_relevel : Forall2 relevel lv_ops (map (fun o => match o with OLog n _ m f w => OLog n (at_lvl 2) m f w | _ => o end) lv_ops).
Proof. repeat constructor. Qed.

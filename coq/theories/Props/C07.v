(* C07 — stub: no theorems yet *)
From Zap Require Import Base.Wire C07.Model C07.Proofs.

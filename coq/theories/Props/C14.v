(* C14 — stub: no theorems yet *)
From Zap Require Import Base.Wire C14.Model C14.Proofs.

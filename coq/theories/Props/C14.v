(* C14 — SugaredLogger never drops or misattributes loosely-typed arguments.
   Only statements closed by [exact]; the proofs are in C14/Proofs.v.

   Every theorem of the first group is generic: it holds for ANY type V of Go values, ANY
   type F of fields, ANY behaviour of the three type assertions (as_field = .(Field),
   is_error = .(error), as_string = .(string)) and ANY zap.Any / zap.NamedError /
   Array("invalid", ..) — the argument lists, loggers, With chains and calls are universally
   quantified, with no bound on length.  [items] is the specification's reading of an
   argument list (Model.v, second half); [sweeten] is the model of sweetenFields' index loop. *)
From Coq Require Import List ZArith Bool Sorted.
From Coq.Strings Require Import Byte.
Import ListNotations.
From Zap Require Import Base.Wire C14.Model C14.Proofs.

(* no index is ever out of range and the loop terminates, whatever the argument list *)
Theorem C14_total :
  forall V F (as_field : V -> option F) is_error as_string any_fld named_error (args : list V),
  exists s, sweep V F as_field is_error as_string any_fld named_error (S (length args)) args 0 sw_init = Done s.
Proof. exact sweep_total. Qed.
Print Assumptions C14_total.

(* no With chain / logging call of any family at any level ends in a run-time panic of the
   sugar layer (fmt_facts: Sprintln's result ends in a newline) *)
Theorem C14_never_crash :
  forall V F (as_field : V -> option F) is_error as_string any_fld named_error array_invalid
         (lg : logger F) (withs : list (step V)) (c : call V),
  fmt_facts V as_string c ->
  snd (run V F as_field is_error as_string any_fld named_error array_invalid lg withs c) <> TCrash.
Proof. exact never_crash. Qed.
Print Assumptions C14_never_crash.

(* accounting: the sweep returns exactly the fields of the consumed items and makes exactly
   the diagnostic calls of the reported items; the items tile the positions 0..n-1 (nothing
   vanishes, nothing is used twice); each item holds what sits at its position(s); an item is
   consumed xor reported; consumed <-> logged; reported -> identified by a diagnostic *)
Theorem C14_account :
  forall V F (as_field : V -> option F) is_error as_string any_fld named_error array_invalid (args : list V),
  let its := items V F as_field is_error as_string 0 false args in
  sweeten V F as_field is_error as_string any_fld named_error array_invalid args
    = Done (fields_of V F any_fld named_error its, diag_calls_of V F any_fld named_error array_invalid its) /\
  concat (map span its) = seq 0 (length args) /\
  Forall (item_at V F as_field is_error as_string args) its /\
  (forall it, In it its -> (out_field V F any_fld named_error it = None <-> reported it = true)) /\
  (forall it f, In it its -> out_field V F any_fld named_error it = Some f -> In f (fields_of V F any_fld named_error its)) /\
  (forall f, In f (fields_of V F any_fld named_error its) -> exists it, In it its /\ out_field V F any_fld named_error it = Some f) /\
  (forall it, In it its -> identified V F any_fld named_error array_invalid its it).
Proof. exact account_thm. Qed.
Print Assumptions C14_account.

(* order: the items (hence the output fields, a filter_map over them) follow the positions *)
Theorem C14_order :
  forall V F (as_field : V -> option F) is_error as_string (args : list V),
  StronglySorted lt (map start (items V F as_field is_error as_string 0 false args)) /\
  NoDup (concat (map span (items V F as_field is_error as_string 0 false args))).
Proof. exact order_thm. Qed.
Print Assumptions C14_order.

(* a typed field in key position is the Field found there, and is in the output unchanged *)
Theorem C14_typed_unchanged :
  forall V F (as_field : V -> option F) is_error as_string any_fld named_error array_invalid (args : list V) p f,
  In (IField p f) (items V F as_field is_error as_string 0 false args) ->
  (exists a, nth_error args p = Some a /\ as_field a = Some f) /\
  exists fs calls, sweeten V F as_field is_error as_string any_fld named_error array_invalid args = Done (fs, calls) /\ In f fs.
Proof. exact typed_unchanged_thm. Qed.
Print Assumptions C14_typed_unchanged.

(* only typed fields: they come back unchanged, in order, with no diagnostic *)
Theorem C14_all_typed :
  forall V F (as_field : V -> option F) is_error as_string any_fld named_error array_invalid fs (args : list V),
  map as_field args = map Some fs ->
  sweeten V F as_field is_error as_string any_fld named_error array_invalid args = Done (fs, []).
Proof. exact all_typed_thm. Qed.
Print Assumptions C14_all_typed.

(* string-keyed pairs (any values, typed fields and errors included) become Any(key, value), in order *)
Theorem C14_pairs_any :
  forall V F (as_field : V -> option F) is_error as_string any_fld named_error array_invalid (kvs : list (V * bytes * V)),
  Forall (good_key V F as_field is_error as_string) kvs ->
  sweeten V F as_field is_error as_string any_fld named_error array_invalid (flat_pairs V kvs)
    = Done (map (fun t => any_fld (snd (fst t)) (snd t)) kvs, []).
Proof. exact pairs_any_thm. Qed.
Print Assumptions C14_pairs_any.

(* ... also inside arbitrary lists: a pair item is a string key followed by its value, logged as Any *)
Theorem C14_pair_at :
  forall V F (as_field : V -> option F) is_error as_string any_fld named_error array_invalid (args : list V) p k v,
  In (IPair p k v) (items V F as_field is_error as_string 0 false args) ->
  (exists a, nth_error args p = Some a /\ as_string a = Some k /\ nth_error args (S p) = Some v) /\
  exists fs calls, sweeten V F as_field is_error as_string any_fld named_error array_invalid args = Done (fs, calls) /\ In (any_fld k v) fs.
Proof. exact pair_at_thm. Qed.
Print Assumptions C14_pair_at.

(* the first bare error is logged as NamedError("error", e); every further one is reported *)
Theorem C14_first_error :
  forall V F (as_field : V -> option F) is_error as_string any_fld named_error array_invalid (args : list V),
  let its := items V F as_field is_error as_string 0 false args in
  match filter (is_err_item V F) its with
  | [] => True
  | first :: rest =>
      (exists p e, first = IFirstErr p e /\ out_field V F any_fld named_error first = Some (named_error key_error e)) /\
      Forall (fun it => exists p e, it = IExtraErr p e /\
                In (multipleErrMsg, [named_error key_error e]) (diag_calls_of V F any_fld named_error array_invalid its)) rest
  end.
Proof. exact first_error_thm. Qed.
Print Assumptions C14_first_error.

(* With / WithLazy: never fail; the context grows by exactly the well-formed arguments; the
   diagnostics are error-level entries (if that level is enabled) with the receiver's context *)
Theorem C14_with :
  forall V F (as_field : V -> option F) is_error as_string any_fld named_error array_invalid (lg : logger F) (args : list V),
  let its := items V F as_field is_error as_string 0 false args in
  swith V F as_field is_error as_string any_fld named_error array_invalid lg args
    = Done (with_ctx F lg (fields_of V F any_fld named_error its),
            spec_diag_entries lg (diag_calls_of V F any_fld named_error array_invalid its)).
Proof. exact with_thm. Qed.
Print Assumptions C14_with.

(* content of the diagnostics when the error level is enabled: one entry per further bare error,
   one for the dangling key (value under "ignored"), one listing (position, key, value) of every
   non-string-keyed pair *)
Theorem C14_diags :
  forall V F (as_field : V -> option F) is_error as_string any_fld named_error array_invalid (lg : logger F) (args : list V),
  lg_en lg ErrorLevel = true ->
  let its := items V F as_field is_error as_string 0 false args in
  exists lg', swith V F as_field is_error as_string any_fld named_error array_invalid lg args = Done (lg',
    map (fun e => Build_entry ErrorLevel multipleErrMsg (lg_ctx lg ++ [named_error key_error e])) (extra_errs V F its)
    ++ map (fun k => Build_entry ErrorLevel oddNumberErrMsg (lg_ctx lg ++ [any_fld key_ignored k])) (danglings V F its)
    ++ match bad_pairs V F its with
       | [] => []
       | ps => [Build_entry ErrorLevel nonStringKeyErrMsg (lg_ctx lg ++ [array_invalid ps])]
       end).
Proof. exact diags_thm. Qed.
Print Assumptions C14_diags.

(* limitation made explicit: the report IS an error-level entry, so a core that does not enable
   ErrorLevel (e.g. a logger at PanicLevel) drops it -- the malformed arguments then vanish *)
Theorem C14_diags_need_error_level :
  forall V F (as_field : V -> option F) is_error as_string any_fld named_error array_invalid (lg : logger F) (args : list V),
  lg_en lg ErrorLevel = false ->
  exists lg', swith V F as_field is_error as_string any_fld named_error array_invalid lg args = Done (lg', []).
Proof. exact diags_need_error_level. Qed.
Print Assumptions C14_diags_need_error_level.

(* a call of any family at an enabled level: its diagnostics, then exactly one entry at that level
   with the prescribed message and context ++ well-formed arguments.  [not_empty_template] is the
   guard of the known finding sugar-empty-template-with-args (f-family: template <> "" \/ no args) *)
Theorem C14_call_enabled :
  forall V F (as_field : V -> option F) is_error as_string any_fld named_error array_invalid (lg : logger F) (c : call V),
  lg_en lg (c_lvl c) = true -> fmt_facts V as_string c -> not_empty_template V c ->
  let its := items V F as_field is_error as_string 0 false (call_context c) in
  exists msg, msg_ok V c msg = true /\
    do_call V F as_field is_error as_string any_fld named_error array_invalid lg c =
      (spec_diag_entries lg (diag_calls_of V F any_fld named_error array_invalid its)
         ++ [Build_entry (c_lvl c) msg (lg_ctx lg ++ fields_of V F any_fld named_error its)],
       terminal lg (c_lvl c)).
Proof. exact call_enabled. Qed.
Print Assumptions C14_call_enabled.

Theorem C14_call_disabled :
  forall V F (as_field : V -> option F) is_error as_string any_fld named_error array_invalid (lg : logger F) (c : call V),
  lg_en lg (c_lvl c) = false -> fmt_facts V as_string c ->
  let its := items V F as_field is_error as_string 0 false (call_context c) in
  do_call V F as_field is_error as_string any_fld named_error array_invalid lg c = ([], TNone) \/
  do_call V F as_field is_error as_string any_fld named_error array_invalid lg c =
    (spec_diag_entries lg (diag_calls_of V F any_fld named_error array_invalid its), terminal lg (c_lvl c)).
Proof. exact call_disabled. Qed.
Print Assumptions C14_call_disabled.

(* ---- the level gate, for an ARBITRARY enabler predicate [lg_en lg : Z -> bool] and ANY level ----
   (a plain zapcore.Level below Debug, a non-monotone LevelEnablerFunc, an AtomicLevel; named
   levels, zapr-style verbosity levels below Debug, levels above Fatal).
   SugaredLogger.log/logln go on past their early return exactly when the core's enabler accepts
   the level or the level is DPanic or above; when they do not, nothing at all is produced *)
Theorem C14_gate :
  forall V F (as_field : V -> option F) is_error as_string any_fld named_error array_invalid (lg : logger F) (c : call V),
  (sugar_gate lg (c_lvl c) = true <-> lg_en lg (c_lvl c) = true \/ (DPanicLevel <= c_lvl c)%Z) /\
  (sugar_gate lg (c_lvl c) = false ->
   do_call V F as_field is_error as_string any_fld named_error array_invalid lg c = ([], TNone)).
Proof. exact gate_thm. Qed.
Print Assumptions C14_gate.

(* the sugared call of any family delivers its entry (at the call's level, fields = context ++
   well-formed arguments) IF AND ONLY IF the core's enabler accepts the level: the sugar never
   decides on its own that a level the core enables is "disabled" *)
Theorem C14_delivers_iff_enabled :
  forall V F (as_field : V -> option F) is_error as_string any_fld named_error array_invalid (lg : logger F) (c : call V),
  fmt_facts V as_string c ->
  (delivered V F as_field is_error as_string any_fld named_error lg c
     (fst (do_call V F as_field is_error as_string any_fld named_error array_invalid lg c))
   <-> lg_en lg (c_lvl c) = true).
Proof. exact delivers_iff_enabled. Qed.
Print Assumptions C14_delivers_iff_enabled.

(* the same over a history of With/WithLazy calls and enabler changes (AtomicLevel.SetLevel ...):
   the entries are the With diagnostics followed by the call's entries, and the call's entry is
   delivered iff the enabler in force WHEN THE CALL IS MADE accepts the level *)
Theorem C14_history_delivers_iff :
  forall V F (as_field : V -> option F) is_error as_string any_fld named_error array_invalid
         (lg : logger F) (steps : list (step V)) (c : call V),
  fmt_facts V as_string c ->
  let lg' := fst (spec_withs V F as_field is_error as_string any_fld named_error array_invalid lg steps) in
  exists call_es,
    fst (run V F as_field is_error as_string any_fld named_error array_invalid lg steps c)
      = snd (spec_withs V F as_field is_error as_string any_fld named_error array_invalid lg steps) ++ call_es /\
    (delivered V F as_field is_error as_string any_fld named_error lg' c call_es
     <-> final_en V (lg_en lg) steps (c_lvl c) = true).
Proof. exact history_delivers_iff. Qed.
Print Assumptions C14_history_delivers_iff.

(* the wire's enabler descriptions cover every finite set of levels and every threshold *)
Theorem C14_wire_enabler :
  (forall ls l, dec_en (SL [SZ 0; SL (map SZ ls)]) l = true <-> In l ls) /\
  (forall k min l, k <> 0%Z -> dec_en (SL [SZ k; SZ min]) l = (min <=? l)%Z).
Proof. exact wire_enabler. Qed.
Print Assumptions C14_wire_enabler.

(* ---- the core composition under the logger (Model.v, section Cores) ----
   The Logger's core is a stack: the observer, eager With pushed down to it, a lazyWithCore per
   WithLazy, and any wrapper installed with WithOptions(WrapCore(..)) before, between or after them:
   self-registering forwarders (Check adds the wrapper itself, Write forwards to the embedded core --
   the only way lazyWithCore.Write is ever reached), embedding wrappers, Tee, RegisterHooks,
   NewIncreaseLevelCore.  For EVERY such history in which no forwarder sits above a hooked core, an
   entry written with fields fs is recorded by the observer exactly once, with
   context ++ (fields of every With/WithLazy, in order) ++ fs. *)
Theorem C14_core_deliver :
  forall F (ks : list (cstep F)) (ctx fs : list F),
  ks_ok F false ks = true ->
  deliver F (build F (CObs ctx) ks) fs = [ctx ++ ks_fields F ks ++ fs].
Proof. exact build_deliver. Qed.
Print Assumptions C14_core_deliver.

(* With and WithLazy deliver the same context through every core composition *)
Theorem C14_lazy_is_eager :
  forall F (ks : list (cstep F)) (ctx fs : list F),
  ks_ok F false ks = true ->
  deliver F (build F (CObs ctx) ks) fs = deliver F (build F (CObs ctx) (ks_eager F ks)) fs.
Proof. exact lazy_is_eager. Qed.
Print Assumptions C14_lazy_is_eager.

(* the delivered context does not depend on the core composition: the stack built by a history of
   With / WithLazy / enabler changes / WrapCore steps delivers the context of the flat logger that
   [run] and [spec] use (which ignore the WrapCore steps), for the call's entry and for every diagnostic *)
Theorem C14_core_composition_transparent :
  forall V F (as_field : V -> option F) is_error as_string any_fld named_error array_invalid
         (lg : logger F) (steps : list (step V)) (fs : list F),
  let ks := ksteps_of V F as_field is_error as_string any_fld named_error steps in
  ks_ok F false ks = true ->
  deliver F (build F (CObs (lg_ctx lg)) ks) fs =
  [lg_ctx (fst (spec_withs V F as_field is_error as_string any_fld named_error array_invalid lg steps)) ++ fs].
Proof. exact core_composition_transparent. Qed.
Print Assumptions C14_core_composition_transparent.

(* ... and the model's observation of a history is that of the history without its WrapCore steps *)
Theorem C14_wraps_erasable :
  forall V F (as_field : V -> option F) is_error as_string any_fld named_error array_invalid
         (steps : list (step V)) (lg : logger F) (c : call V),
  run V F as_field is_error as_string any_fld named_error array_invalid lg steps c
  = run V F as_field is_error as_string any_fld named_error array_invalid lg (erase_wraps V steps) c.
Proof. exact run_erase_wraps. Qed.
Print Assumptions C14_wraps_erasable.

(* the limit (zapcore/hook.go: "our downstream had a chance to register itself"): a forwarder
   directly above a hooked core writes nothing -- outside [ks_ok], never generated *)
Theorem C14_forward_over_hooked_loses :
  forall F (ctx fs : list F), deliver F (CWrap WFwd (CWrap WHook (CObs ctx))) fs = [].
Proof. exact fwd_over_hook_loses. Qed.
Print Assumptions C14_forward_over_hooked_loses.

(* messages.  print-style = Sprint (given Sprint() = "" and Sprint(s) = s); println-style =
   Sprintln without its newline; printf-style = template when there are no arguments, Sprintf
   otherwise -- PARTIAL: proved for template <> "" \/ args = [] *)
Theorem C14_message_print :
  forall V (as_string : V -> option bytes) (args : list V) sprintf sprint,
  (args = [] -> sprint = []) ->
  (forall a s, args = [a] -> as_string a = Some s -> sprint = s) ->
  get_message V as_string [] args sprintf sprint = sprint.
Proof. exact message_print. Qed.
Print Assumptions C14_message_print.

Theorem C14_message_ln : forall m, get_messageln (m ++ [x0a]) = Some m.
Proof. exact message_ln. Qed.
Print Assumptions C14_message_ln.

Theorem C14_messages_partial :
  forall V (as_string : V -> option bytes) template (args : list V) sprintf sprint,
  template <> [] \/ args = [] ->
  get_message V as_string template args sprintf sprint = if is_nil args then template else sprintf.
Proof. exact message_f_partial. Qed.
Print Assumptions C14_messages_partial.

(* the full printf statement (no guard) is false of the code: getMessage("", [1; 2]) is Sprint *)
Theorem C14_messages_full_refuted : ~ messages_full.
Proof. exact messages_full_refuted. Qed.
Print Assumptions C14_messages_full_refuted.

(* the same deviation at the wire: Infof("", 1, 2) -- the oracle rejects the model's (= the code's) output *)
Theorem C14_wire_kf_refuted : fmt_wf kf_witness = true /\ spec kf_witness (model kf_witness) = false.
Proof. exact kf_witness_refuted. Qed.
Print Assumptions C14_wire_kf_refuted.

(* wire link: the oracle the driver runs accepts the model's observation on every case
   satisfying the fmt facts and outside the known finding *)
Theorem C14_wire : forall i, wf i = true -> spec i (model i) = true.
Proof. exact spec_model. Qed.
Print Assumptions C14_wire.

(* ---- non-vacuity ---- *)
(* ("k", 1, err1, err2, 7, 8, field, "d"): three fields (Any k 1, Error err1, the field), three
   diagnostics (further error, dangling key, one invalid pair at position 4) *)
Example C14_example_sweep :
  match w_sweeten ex_args with
  | Done ([f1; f2; f3], [(m1, [d1]); (m2, [d2]); (m3, [d3])]) =>
      f1 = w_any [x6b] (ex_int 1) /\ f2 = w_named_error key_error (ex_err 1) /\ Some f3 = w_as_field (ex_fld [x66]) /\
      m1 = multipleErrMsg /\ d1 = w_named_error key_error (ex_err 2) /\
      m2 = oddNumberErrMsg /\ d2 = w_any key_ignored (ex_str [x64]) /\
      m3 = nonStringKeyErrMsg /\ d3 = w_array_invalid [(4, ex_int 7, ex_int 8)]
  | _ => False
  end.
Proof. vm_compute. repeat split; reflexivity. Qed.

Example C14_example_wf : wf ex_case = true /\ spec ex_case (model ex_case) = true /\
  length (sx_l (sx_nth (model ex_case) 1)) = 7.
Proof. vm_compute. repeat split; reflexivity. Qed.

(* the gate on concrete cases: Logw(Level(-2), "m", ex_args...) on a core whose enabler is the plain
   zapcore.Level(-3): 3 diagnostics + the entry at level -2; the same on an AtomicLevel at Info moved
   to -3 after a With; nothing once it is moved back to Info; a LevelEnablerFunc accepting {-2, 7} only
   delivers the entry (its diagnostics are lost: Error is off) *)
Example C14_example_gate :
  wf (gate_case (SL [SZ 1; SZ (-3)]) [] (-2) ex_args) = true /\
  length (sx_l (sx_nth (model (gate_case (SL [SZ 1; SZ (-3)]) [] (-2) ex_args)) 1)) = 4 /\
  length (sx_l (sx_nth (model (gate_case (SL [SZ 2; SZ 0]) [SL [SZ 0; SZ 0; SL []]; SL [SZ 1; SL [SZ 2; SZ (-3)]]] (-2) ex_args)) 1)) = 4 /\
  length (sx_l (sx_nth (model (gate_case (SL [SZ 2; SZ (-3)]) [SL [SZ 1; SL [SZ 2; SZ 0]]] (-2) ex_args)) 1)) = 0 /\
  length (sx_l (sx_nth (model (gate_case (SL [SZ 0; SL [SZ (-2); SZ 7]]) [] (-2) ex_args)) 1)) = 1 /\
  length (sx_l (sx_nth (model (gate_case (SL [SZ 0; SL [SZ (-2); SZ 7]]) [] 7 ex_args)) 1)) = 1 /\
  length (sx_l (sx_nth (model (gate_case (SL [SZ 0; SL [SZ (-2); SZ 7]]) [] 0 ex_args)) 1)) = 0 /\
  spec (gate_case (SL [SZ 1; SZ (-3)]) [] (-2) ex_args) (SL [SZ 0; SL []]) = false.
Proof. vm_compute. repeat split; reflexivity. Qed.

Example C14_example_good_key :
  Forall (good_key sx sx w_as_field w_is_error w_as_string) [(ex_str [x6b], [x6b], ex_err 1); (ex_str [x64], [x64], ex_fld [x66])].
Proof. repeat constructor. Qed.

Example C14_example_fmt_facts : fmt_facts sx w_as_string (dec_call ex_case) /\ not_empty_template sx (dec_call ex_case).
Proof. split; exact I. Qed.

(* the composition of seed c14i: WithLazy(ex_args...) and THEN a self-registering forwarder; also a
   forwarder below, a Tee and an IncreaseLevel core between, a hook on top.  The model's observation
   is the one without the wrappers (7 entries), the history is well formed, and the core stack
   delivers the three well-formed With fields followed by the written field *)
Definition wrap_case (steps : list sx) : sx :=
  SL [ SL [SZ 1; SZ (-1)]; SZ 0; SL steps;
       SL [SZ 0; SZ 0; SB [x6d]; SL ex_args; SB []; SB []; SB [x0a]; SZ 0] ].
Definition wrap_steps : list sx :=
  [SL [SZ 2; SZ 0]; SL [SZ 2; SZ 2]; SL [SZ 0; SZ 1; SL ex_args]; SL [SZ 2; SZ 0]; SL [SZ 2; SZ 4]; SL [SZ 2; SZ 3]].
Example C14_example_wrap :
  model (wrap_case wrap_steps) = model ex_case_lazy_only /\
  spec (wrap_case wrap_steps) (model (wrap_case wrap_steps)) = true /\
  ks_ok sx false (w_ksteps_of (dec_withs (wrap_case wrap_steps))) = true /\
  ks_ok sx false (w_ksteps_of (dec_withs (wrap_case [SL [SZ 2; SZ 3]; SL [SZ 2; SZ 0]]))) = false /\
  (forall x, map (@length sx) (deliver sx (build sx (CObs []) (w_ksteps_of (dec_withs (wrap_case wrap_steps)))) [x]) = [4]).
Proof. repeat split; vm_compute; reflexivity. Qed.

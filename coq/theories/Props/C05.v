(* C05 — stub: no theorems yet *)
From Zap Require Import Base.Wire C05.Model C05.Proofs.

(* C05 — An entry is written exactly where its level is enabled; reported levels agree.
   Only statements closed by [exact]; proofs are in C05/CoreProofs.v and C05/Proofs.v.
   The model (C05/Cores.v) follows zapcore's Check/Enabled/Level methods, Logger.check and the
   front-end guards; [delivered], [hooks_due], [accepts], [min_delivered] are the specification
   (the root-to-leaf paths of the tree with the level filters on them).
   Levels range over all of Z (so over all 256 int8 values), enablers are arbitrary functions,
   AtomicLevel cells hold arbitrary values, trees have any depth and fan-out. *)
From Coq Require Import List Bool ZArith.
Import ListNotations.
From Zap Require Import Base.Wire C05.Cores C05.CoreProofs C05.Sampling C05.SamplingProofs C05.Updates C05.UpdatesProofs C05.Model C05.Proofs.
Open Scope Z_scope.

(* Core.Check registers exactly the leaves all of whose level filters enable the level - whatever
   was registered before (e is the entry passed in by an enclosing tee), to any depth *)
Theorem C05_delivery : forall w c l e,
  leaves_of (cores_of (check w c l e)) = leaves_of (cores_of e) ++ delivered w c l.
Proof. exact delivery_thm. Qed.
Print Assumptions C05_delivery.

(* through every front end (Logger, Check/Write, the sugared variants, zapio, the std-log bridge,
   the gRPC adapter) with their pre-checks: the leaves written are the delivered ones, the hooks
   run are the due ones - at every level value *)
Theorem C05_front_ends : forall w c f l,
  leaves_of (call_writers w c f l) = delivered w c l /\
  hooks_of (call_writers w c f l) = hooks_due w c l.
Proof. exact (fun w c f l => conj (logger_delivery_thm w c f l) (logger_hooks_thm w c f l)). Qed.
Print Assumptions C05_front_ends.

(* a tee delivers to each branch independently *)
Theorem C05_tee_independent : forall w cs l,
  delivered w (Tee cs) l = flat_map (fun c => delivered w c l) cs.
Proof. exact delivered_tee. Qed.
Print Assumptions C05_tee_independent.

(* a level-increasing wrapper only ever narrows *)
Theorem C05_filter_narrows : forall w c en l,
  delivered w (Filter c en) l = (if on w en l then delivered w c l else []) /\
  incl (delivered w (Filter c en) l) (delivered w c l) /\
  (enabled w (Filter c en) l = true -> enabled w c l = true).
Proof. exact filter_narrows_thm. Qed.
Print Assumptions C05_filter_narrows.

(* NewIncreaseLevelCore accepts an enabler iff it allows no valid level at which the wrapped core
   delivers nothing *)
Theorem C05_increase_validation : forall w c en,
  increase_ok w c en = true <-> (forall l, is_valid l = true -> on w en l = true -> delivered w c l <> []).
Proof. exact increase_ok_thm. Qed.
Print Assumptions C05_increase_validation.

(* hooks fire exactly once for each entry their wrapped core accepts and never otherwise *)
Theorem C05_hook_once : forall w c l e,
  hooks_of (cores_of (check w c l e)) = hooks_of (cores_of e) ++ hooks_due w c l.
Proof. exact hooks_thm. Qed.
Print Assumptions C05_hook_once.

(* a disabled entry: no core and no hook is written through any front end; below DPanic no user
   payload (message argument, call-site field) is evaluated either *)
Theorem C05_disabled_silent : forall w c io f l,
  enabled w c l = false ->
  call_writers w c f l = [] /\ (l < DPanicL -> payload_evals w c io f l = 0%nat).
Proof. exact disabled_silent_thm. Qed.
Print Assumptions C05_disabled_silent.

(* Enabled(l) says exactly whether something is delivered, for every level value *)
Theorem C05_enabled_iff_delivered : forall w c l,
  enabled w c l = true <-> delivered w c l <> [].
Proof. exact (fun w c l => eq_ind_r (fun b => b = true <-> _) (accepts_true w c l) (enabled_accepts w l c)). Qed.
Print Assumptions C05_enabled_iff_delivered.

(* the reported minimum level (Logger.Level, LevelOf) is consistent with delivery *)
Theorem C05_level_consistent : forall w c,
  (forall l, is_valid l = true -> l < level_of w c -> delivered w c l = []) /\
  (is_valid (level_of w c) = true -> delivered w c (level_of w c) <> []).
Proof. exact level_consistent_thm. Qed.
Print Assumptions C05_level_consistent.

(* ... and it is exactly the lowest valid level at which something is delivered, InvalidLevel when
   there is none, as long as the AtomicLevels hold values in _minLevel..InvalidLevel *)
Theorem C05_level_exact : forall w c,
  (forall a, In a (cells c) -> min_level <= w a <= InvalidL) ->
  level_of w c = min_delivered w c.
Proof. exact level_exact_thm. Qed.
Print Assumptions C05_level_exact.

(* the gRPC adapter's V *)
Theorem C05_grpc_v : forall w c n, grpc_v w c n = true <-> delivered w c (grpc_level n) <> [].
Proof. exact (fun w c n => eq_ind_r (fun b => b = true <-> _) (accepts_true w c (grpc_level n)) (enabled_accepts w (grpc_level n) c)). Qed.
Print Assumptions C05_grpc_v.

(* With (and the lazy variant) changes nothing about delivery *)
Theorem C05_with_preserves : forall w c l e,
  cores_of (check w (with_core c) l e) = cores_of (check w c l e) /\
  enabled w (with_core c) l = enabled w c l.
Proof. exact (fun w c l e => conj (check_with_core w c l e) (enabled_with_core w c l)). Qed.
Print Assumptions C05_with_preserves.

(* every interleaving of AtomicLevel changes and log calls on any number of loggers sharing the
   cells: each call is decided by the latest value of every cell *)
Theorem C05_atomic_history : forall w0 cs ops,
  map (fun ws => (leaves_of ws, hooks_of ws)) (hrun w0 cs ops) = hspec w0 cs [] ops.
Proof. exact (fun w0 cs ops => atomic_history_thm cs ops w0 [] w0 (fun a => eq_refl)). Qed.
Print Assumptions C05_atomic_history.

(* ---- every way of changing a shared AtomicLevel (C05/Updates.v) ----
   An AtomicLevel value is a handle on one shared cell; besides SetLevel the API changes the cell
   through UnmarshalText (directly, via flag.TextVar, via json/yaml decoding into a live AtomicLevel or
   zap.Config) and through the ServeHTTP PUT handler (JSON body or form). *)

(* what a route stores: exactly the level the text names (case-insensitively, "warning" = warn, the
   empty text = info except in a form), and nothing when it names none *)
Theorem C05_update_routes : forall r t, upd_value r t = spec_upd_value r t.
Proof. exact upd_value_spec. Qed.
Print Assumptions C05_update_routes.

(* every interleaving of updates - SetLevel or a text by any route, through any of any number of
   handles ([hc] says which cell a handle points to) - and log calls on any number of loggers derived
   from the cells: each call is decided by what the latest successful update of every cell stored *)
Theorem C05_update_history : forall hc w0 cs ops,
  map (fun ws => (leaves_of ws, hooks_of ws)) (urun hc w0 cs ops) = uspec hc w0 cs [] ops.
Proof. exact (fun hc w0 cs ops => update_history_thm hc cs ops w0 [] w0 (fun a => eq_refl)). Qed.
Print Assumptions C05_update_history.

(* ... and afterwards Enabled, the reported level (Logger.Level, LevelOf) and the gRPC adapter's V of
   every derived core agree with that delivery *)
Theorem C05_update_queries : forall hc w0 ops c,
  let w := ufinal hc w0 ops in
  let wl := ulatest hc w0 ops in
  (forall l, enabled w c l = true <-> delivered wl c l <> []) /\
  level_ok wl c (level_of w c) /\
  ((forall a, In a (cells c) -> min_level <= wl a <= InvalidL) -> level_of w c = min_delivered wl c) /\
  (forall n, grpc_v w c n = true <-> delivered wl c (grpc_level n) <> []).
Proof. exact update_queries_thm. Qed.
Print Assumptions C05_update_queries.

(* ---- samplers that really drop (C05/Sampling.v) ----
   Every sampler node is numbered by its pre-order position (k = number of the first one of the
   tree at hand); [dec] says which samplers' counters answer "drop" for the entry.  WHICH entries
   are dropped is C11's business: the statements hold for every [dec].  [effective dec l] is the
   decision that counts (only the levels debug..fatal are sampled). *)

(* Core.Check with dropping samplers registers exactly the leaves all of whose level filters
   enable the level and none of whose samplers drops - and keeps, in place, everything that was
   registered before (e is the entry passed in by an enclosing tee): a drop takes nothing away
   from a sibling branch *)
Theorem C05_sampler_delivery : forall dec w c k l e,
  leaves_of (cores_of (check_s dec w c k l e)) = leaves_of (cores_of e) ++ delivered_s (effective dec l) w c k l.
Proof. exact sampler_delivery_thm. Qed.
Print Assumptions C05_sampler_delivery.

Theorem C05_sampler_keeps_registered : forall dec w c k l e,
  cores_of (check_s dec w c k l e) = cores_of e ++ cores_of (check_s dec w c k l None).
Proof. exact sampler_check_keeps_thm. Qed.
Print Assumptions C05_sampler_keeps_registered.

(* hooks fire exactly once for each entry their wrapped core accepts after sampling, never otherwise *)
Theorem C05_sampler_hook_once : forall dec w c k l e,
  hooks_of (cores_of (check_s dec w c k l e)) = hooks_of (cores_of e) ++ hooks_due_s (effective dec l) w c k l.
Proof. exact sampler_hooks_thm. Qed.
Print Assumptions C05_sampler_hook_once.

(* a tee delivers to each branch independently, whatever the samplers in the branches decide *)
Theorem C05_sampler_tee_independent : forall dec w c r k l,
  delivered_s dec w (Tee []) k l = [] /\
  delivered_s dec w (Tee (c :: r)) k l = delivered_s dec w c k l ++ delivered_s dec w (Tee r) (k + nsamp c) l.
Proof. exact sampler_tee_independent_thm. Qed.
Print Assumptions C05_sampler_tee_independent.

(* a sampler takes away the leaves beneath itself when it drops and nothing else; sampling never
   delivers where the level filters do not *)
Theorem C05_sampler_local : forall dec w c k l,
  delivered_s dec w (Sampled c) k l = (if dec k then [] else delivered_s dec w c (S k) l) /\
  incl (delivered_s dec w c k l) (delivered w c l).
Proof. exact sampler_local_thm. Qed.
Print Assumptions C05_sampler_local.

(* through every front end *)
Theorem C05_sampler_front_ends : forall dec w c f l,
  leaves_of (call_writers_s dec w c f l) = delivered_s (effective dec l) w c 0 l /\
  hooks_of (call_writers_s dec w c f l) = hooks_due_s (effective dec l) w c 0 l.
Proof. exact sampler_front_ends_thm. Qed.
Print Assumptions C05_sampler_front_ends.

Theorem C05_sampler_disabled_silent : forall dec w c io f l,
  enabled w c l = false ->
  call_writers_s dec w c f l = [] /\ (l < DPanicL -> payload_evals_s dec w c io f l = 0%nat).
Proof. exact sampler_disabled_silent_thm. Qed.
Print Assumptions C05_sampler_disabled_silent.

(* With re-wraps the samplers around the same counters and changes nothing *)
Theorem C05_sampler_with_preserves : forall dec w c k l e,
  cores_of (check_s dec w (with_core c) k l e) = cores_of (check_s dec w c k l e).
Proof. exact sampler_with_preserves_thm. Qed.
Print Assumptions C05_sampler_with_preserves.

(* when no sampler drops this is the model and the specification of the theorems above *)
Theorem C05_sampler_no_drop : forall w c k l e,
  check_s no_drop w c k l e = check w c l e /\
  delivered_s no_drop w c k l = delivered w c l /\
  hooks_due_s no_drop w c k l = hooks_due w c l.
Proof. exact sampler_no_drop_thm. Qed.
Print Assumptions C05_sampler_no_drop.

(* ---- sibling loggers: the hook list of a hooked core is a value ----
   Registering one more hook (zap.Hooks through WithOptions, zapcore.RegisterHooks on the logger's core)
   builds a new core; the core it started from, and every other core built from that one before or
   afterwards, keeps its own hooks. *)

(* one more hook on a core: what was due before, then the new hook iff the entry is accepted *)
Theorem C05_hook_registration : forall w c h l e,
  hooks_of (cores_of (check w (Hooked c h) l e)) =
  hooks_of (cores_of e) ++ hooks_due w c l ++ (if accepts w c l then [h] else []).
Proof. exact hook_registration_thm. Qed.
Print Assumptions C05_hook_registration.

(* any number of loggers derived from each other in any order (With, WithLazy, Named, WithOptions,
   Sugar().Desugar(), zap.Hooks, RegisterHooks - every kind but IncreaseLevel, which changes delivery),
   calls through any of them at any time, at every level through every front end: each call delivers
   what the root delivers and fires, after the due hooks of the root's tree, exactly the hooks
   registered on ITS OWN derivation path, once each in registration order, iff the entry is accepted -
   never a hook registered on a sibling, however many registrations the common parent was built by *)
Theorem C05_sibling_hooks : forall w root ops,
  Forall (fun o => keeps_delivery o = true) ops ->
  srun w root [root] ops = sspec w root [[]] ops.
Proof. exact sibling_hooks_thm. Qed.
Print Assumptions C05_sibling_hooks.

(* in the histories of the wire model a step never changes a logger derived earlier *)
Theorem C05_derivation_appends : forall ok uv w c cs o,
  exists tl, snd (next_state ok uv w c cs o) = cs ++ tl.
Proof. exact derivation_appends. Qed.
Print Assumptions C05_derivation_appends.

(* ---- the code before the fix commits (documentation of the defects) ---- *)
Theorem C05_hook_once_orig_refuted : ~ hook_once_orig_full.
Proof. exact hook_once_orig_refuted. Qed.
Print Assumptions C05_hook_once_orig_refuted.
Theorem C05_tee_level_orig_refuted : ~ level_consistent_orig_full.
Proof. exact tee_level_orig_refuted. Qed.
Print Assumptions C05_tee_level_orig_refuted.
Theorem C05_filter_enabled_orig_refuted : ~ enabled_orig_full.
Proof. exact filter_enabled_orig_refuted. Qed.
Print Assumptions C05_filter_enabled_orig_refuted.
Theorem C05_filter_level_orig_refuted :
  level_of_orig stale_world stale_witness = WarnL /\ delivered stale_world stale_witness WarnL = [] /\
  ~ level_ok stale_world stale_witness (level_of_orig stale_world stale_witness).
Proof. exact filter_level_orig_refuted. Qed.
Print Assumptions C05_filter_level_orig_refuted.

(* the oracle the driver runs accepts the model's observation on every input *)
Theorem C05_wire : forall i, spec i (model i) = true.
Proof. exact spec_model. Qed.
Print Assumptions C05_wire.

(* ---- non-vacuity ---- *)
Definition ex_tree : core :=
  Tee [Leaf 0 (ELvl DebugL);
       Hooked (Filter (Tee [Leaf 1 (EAtom 0); Lazy (Leaf 2 (EFn (fun l => l =? WarnL)))]) (ELvl WarnL)) 7;
       Sampled (Leaf 3 (ELvl ErrorL))].
Example C05_example_warn :
  delivered (fun _ => InfoL) ex_tree WarnL = [0; 1; 2]%nat /\ hooks_due (fun _ => InfoL) ex_tree WarnL = [7]%nat /\
  cores_of (check (fun _ => InfoL) ex_tree WarnL None) = [WLeaf 0; WLeaf 1; WLeaf 2; WHook 7].
Proof. vm_compute. repeat split; reflexivity. Qed.
Example C05_example_info :
  cores_of (check (fun _ => InfoL) ex_tree InfoL None) = [WLeaf 0] /\ level_of (fun _ => InfoL) ex_tree = DebugL /\
  level_of (fun _ => InfoL) (Tee [Nop; Leaf 1 (EAtom 0)]) = InfoL /\ level_of (fun _ => 100) (Tee [Nop; Leaf 1 (EAtom 0)]) = InvalidL.
Proof. vm_compute. repeat split; reflexivity. Qed.
Example C05_example_increase :
  increase_ok (fun _ => InfoL) (Leaf 0 (ELvl WarnL)) (ELvl ErrorL) = true /\
  increase_ok (fun _ => InfoL) (Leaf 0 (ELvl WarnL)) (ELvl InfoL) = false.
Proof. vm_compute. split; reflexivity. Qed.
(* two handles (0, 1) of cell 0 and one of cell 1: "DEBUG" through the second handle opens every
   logger built from cell 0; a text that names no level and an empty form change nothing; a later
   SetLevel through the first handle closes them again *)
Example C05_example_updates :
  let hc := fun h : nat => match h with 2 => 1 | _ => 0 end%nat in
  let cs := [Leaf 0 (EAtom 0); Hooked (Tee [Leaf 1 (EAtom 0); Leaf 2 (EAtom 1)]) 9] in
  map (fun ws => (leaves_of ws, hooks_of ws))
    (urun hc (fun _ => InfoL) cs
       [UCall 0 FLogger DebugL; UUpd 1 (UText RJson ex_DEBUG); UCall 0 FLogger DebugL; UCall 1 FSugar DebugL;
        UUpd 0 (UText RUnmarshal ex_trace); UUpd 1 (UText RPutForm []); UCall 1 FCheck DebugL;
        UUpd 0 (USet ErrorL); UCall 1 FLogger WarnL; UCall 0 FLogger WarnL])
  = [([], []); ([0], []); ([1], [9]); ([1], [9]); ([2], [9]); ([], [])]%nat /\
  upd_value RPutJson [] = Some InfoL /\ upd_value RPutForm [] = None /\
  upd_value RYaml ex_WaRnInG = Some WarnL /\ upd_value RFlag ex_Level2 = None.
Proof. vm_compute. repeat split; reflexivity. Qed.
(* a sampled branch after an accepting hooked branch of a tee: the sampler (number 0) drops, the
   sibling keeps its entry and its hook; when it does not drop both branches are written *)
Definition ex_sampled : core :=
  Tee [Hooked (Leaf 0 (ELvl DebugL)) 7; Sampled (Tee [Leaf 1 (ELvl InfoL); Sampled (Leaf 2 (ELvl InfoL))])].
Example C05_example_sampler_drop :
  cores_of (check_s (fun k => Nat.eqb k 0) (fun _ => InfoL) ex_sampled 0 InfoL None) = [WLeaf 0; WHook 7] /\
  delivered_s (fun k => Nat.eqb k 0) (fun _ => InfoL) ex_sampled 0 InfoL = [0]%nat /\
  consulted (fun k => Nat.eqb k 0) (fun _ => InfoL) ex_sampled 0 InfoL = [0]%nat /\
  cores_of (check_s (fun k => Nat.eqb k 1) (fun _ => InfoL) ex_sampled 0 InfoL None) = [WLeaf 0; WHook 7; WLeaf 1] /\
  consulted (fun k => Nat.eqb k 1) (fun _ => InfoL) ex_sampled 0 InfoL = [0; 1]%nat /\
  cores_of (check_s (fun _ => true) (fun _ => InfoL) ex_sampled 0 100 None) = [WLeaf 0; WHook 7; WLeaf 1; WLeaf 2].
Proof. vm_compute. repeat split; reflexivity. Qed.
Example C05_example_counters :
  map (fun n => drop_at n 2 3) [1; 2; 3; 4; 5; 6; 7; 8] = [false; false; true; true; false; true; true; false] /\
  map (fun n => drop_at n 1 0) [1; 2; 3] = [false; true; true] /\
  map (fun n => drop_at n 0 1) [1; 2] = [false; false].
Proof. vm_compute. repeat split; reflexivity. Qed.
(* a parent built by three successive registrations (hooks 1 2 3), a With child of it, then three
   siblings: hook 10 on the parent, hook 11 on the With child, hook 12 on the parent again; calls through
   the siblings in the order last, first, middle, then the parent, then a disabled call *)
Example C05_example_siblings :
  srun (fun _ => InfoL) (Leaf 0 (ELvl InfoL)) [Leaf 0 (ELvl InfoL)]
    [SDerive 0 6 1; SDerive 1 7 2; SDerive 2 6 3; SDerive 3 0 0;
     SDerive 3 6 10; SDerive 4 7 11; SDerive 3 6 12;
     SCall 7 FLogger InfoL; SCall 5 FSugar WarnL; SCall 6 FCheck InfoL; SCall 3 FLogger InfoL; SCall 5 FLogger DebugL]
  = [([0], [1; 2; 3; 12]); ([0], [1; 2; 3; 10]); ([0], [1; 2; 3; 11]); ([0], [1; 2; 3]); ([], [])]%nat.
Proof. vm_compute. reflexivity. Qed.

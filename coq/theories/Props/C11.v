(* C11 — stub: no theorems yet *)
From Zap Require Import Base.Wire C11.Model C11.Proofs.

(* C11 — Sampler admits the first N then every Mth entry per level and message per tick.
   Only statements closed by [exact]; the proofs are in C11/Proofs.v and C11/ConcProofs.v.

   Vocabulary (C11/Model.v): [outcomes c ops] is what the model of zapcore/sampler.go observes for a
   history [ops] of Check calls (Log), With derivations and further NewSamplerWithOptions calls
   (NewRoot) — per Log: the decisions passed to the hook, whether the entry reached the wrapped
   core, and through how many With contexts.  [spec_outcomes] is the specification: entries are
   classified (skipped: level disabled; passed: enabled but outside Debug..Fatal; keyed by (sampler
   family, level, fnv32a(msg) mod 4096) otherwise); per key the earlier stamps are cut into windows
   (a window opens at the first entry not stamped before the current window's end and ends one tick
   after that entry's stamp), positions are numbered from 1, and position p is kept iff p <= N or
   (M > 0 and (p - N) mod M = 0).
   [wf_run]: Go's typing of the arguments (0 <= N, M <= MaxInt64, tick and stamps are int64), the
   no_overflow condition (stamp + tick fits in int64) and fewer than 2^64 calls. *)
From Coq Require Import List Bool ZArith Permutation.
From Coq.Strings Require Import Byte.
Import ListNotations.
From Zap Require Import Base.Wire C11.Model C11.Proofs C11.ConcProofs.
Open Scope Z_scope.

(* every history: any N, M, tick; any stamps (equal, decreasing, on the window boundary, before the
   epoch); colliding messages; disabled and out-of-range levels; With-derived cores; several samplers *)
Theorem C11_sequential : forall c ops, wf_run c ops = true -> outcomes c ops = spec_outcomes c ops.
Proof. exact sequential_thm. Qed.
Print Assumptions C11_sequential.

(* the specification's one-pass window state is "cut into windows, number each from 1":
   for the stamps of one budget, from an open window (e, p): the stamps before e continue the
   numbering at p + 1; the first stamp t that is not before e is position 1 of the window ending at t + tick *)
Theorem C11_windows : forall N M tick e p ts,
  key_decs N M tick (Some (e, p)) ts =
  let '(w, rest) := take_window e ts in
  number N M (p + 1) w ++
  match rest with [] => [] | t :: r => keeps N M 1 :: key_decs N M tick (Some (t + tick, 1)) r end.
Proof. exact key_decs_window. Qed.
Print Assumptions C11_windows.

(* ... and [spec_decs] on the entries of one budget is exactly that *)
Theorem C11_spec_one_key : forall c k es pre,
  Forall (fun e => se_cls e = CKey k) es ->
  spec_decs c pre es =
  map dec_of_bool (key_decs (c_first c) (c_thereafter c) (c_tick c) (wstate (c_tick c) (hist k pre)) (map se_tn es)).
Proof. exact spec_decs_one_key. Qed.
Print Assumptions C11_spec_one_key.

(* budgets are independent: the outcomes of the entries of budget k are those prescribed for the
   subsequence of budget-k entries alone (messages colliding under fnv32a mod 4096 are one budget) *)
Theorem C11_key_independent : forall c k ops, wf_run c ops = true ->
  let es := sentries ops in
  map snd (filter (fun p => has_key k (fst p)) (combine es (outcomes c ops))) =
  outcomes_of (spec_decs c [] (filter (has_key k) es)) (filter (has_key k) es).
Proof. intros c k ops. exact (subsequence_thm c (has_key k) ops (has_key_closed k)). Qed.
Print Assumptions C11_key_independent.

(* entries at disabled levels consume no budget (deleting them changes no other outcome) and are
   neither decided nor forwarded *)
Theorem C11_disabled_no_budget : forall c ops, wf_run c ops = true ->
  let es := sentries ops in
  map snd (filter (fun p => counts_budget (fst p)) (combine es (outcomes c ops))) =
  outcomes_of (spec_decs c [] (filter counts_budget es)) (filter counts_budget es).
Proof. intros c ops. exact (subsequence_thm c counts_budget ops counts_budget_closed). Qed.
Print Assumptions C11_disabled_no_budget.

Theorem C11_disabled_silent : forall c ops, wf_run c ops = true ->
  Forall (fun p => se_cls (fst p) = CSkip -> snd p = {| o_hooks := []; o_fwd := false; o_ctx := 0 |})
         (combine (sentries ops) (outcomes c ops)).
Proof. exact disabled_silent. Qed.
Print Assumptions C11_disabled_silent.

(* enabled entries with a level outside Debug..Fatal pass unsampled: forwarded, hook not called *)
Theorem C11_out_of_range_pass : forall c ops, wf_run c ops = true ->
  Forall (fun p => se_cls (fst p) = CPass -> snd p = {| o_hooks := []; o_fwd := true; o_ctx := se_depth (fst p) |})
         (combine (sentries ops) (outcomes c ops)).
Proof. exact out_of_range_pass. Qed.
Print Assumptions C11_out_of_range_pass.

(* the hook is called at most once per entry (exactly once per decided entry, by C11_sequential),
   with the decision actually applied: LogSampled iff forwarded *)
Theorem C11_hook_once : forall c ops, wf_run c ops = true -> forallb hook_matches (outcomes c ops) = true.
Proof. exact hook_once. Qed.
Print Assumptions C11_hook_once.

(* messages are distinguished only by fnv32a mod 4096: replacing messages by colliding ones changes nothing *)
Theorem C11_collide_share : forall c f ops, (forall m, bucket (f m) = bucket m) -> wf_run c ops = true ->
  outcomes c (map (rename f) ops) = outcomes c ops.
Proof. exact collide_share. Qed.
Print Assumptions C11_collide_share.

(* With-derived cores share their parent's budget *)
Theorem C11_with_shares : forall c ops, no_new_root ops = true -> wf_run c ops = true ->
  map decided (outcomes c ops) = map decided (outcomes c (map via_parent ops)).
Proof. exact with_shares. Qed.
Print Assumptions C11_with_shares.

(* ---- concurrent use: Load / Add / Store / CAS of IncCheckReset as separate atomic steps ---- *)

(* the sequential model is the atomic-step machine run by a lone goroutine *)
Theorem C11_solo_refines : forall c R cn t,
  let '(c', n) := inc_check_reset (c_tick c) {| resetAt := R; cnt := cn |} t in
  let fin := crun c (cinit R cn [t]) (repeat 0%nat 5) in
  g_reset fin = resetAt c' /\ g_cnt fin = cnt c' /\
  g_thr fin = [{| t_tn := t; t_pc := PDone; t_ret := Some n; t_hooks := [decision c n];
                  t_fwd := if dropped (s_first c) (s_thereafter c) n then 0%nat else 1%nat |}].
Proof. exact solo_refines. Qed.
Print Assumptions C11_solo_refines.

(* per-entry accounting for EVERY schedule and any stamps (window resets may race): at every point
   each entry has at most one decision, one hook call carrying it, and is forwarded iff sampled *)
Theorem C11_accounting : forall c R cn tns sched,
  Forall (fun t => acct_ok c t = true) (g_thr (crun c (cinit R cn tns) sched)).
Proof. exact accounting_thm. Qed.
Print Assumptions C11_accounting.

Theorem C11_accounting_done : forall c t, acct_ok c t = true -> is_done t = true ->
  exists n, t_ret t = Some n /\ t_hooks t = [decision c n] /\
            t_fwd t = (if dropped (s_first c) (s_thereafter c) n then 0 else 1)%nat.
Proof. exact acct_done. Qed.
Print Assumptions C11_accounting_done.

(* inside an open window (every stamp before resetAt = R, counter at c0): for every schedule that lets
   all calls return, the values returned by the Adds are a permutation of c0+1 .. c0+k, so the number of
   sampled entries (= hook calls with LogSampled = forwarded entries) is exactly the number the
   sequential specification keeps for k further entries of that window, in whatever order *)
Theorem C11_atomic_exact : forall c R c0 tns sched,
  wf_cfg c = true -> 0 <= c0 -> c0 + Z.of_nat (length tns) < two64 ->
  Forall (fun t => t < R) tns ->
  let fin := crun c (cinit R c0 tns) sched in
  all_done fin = true ->
  Permutation (rets (g_thr fin)) (zseq (c0 + 1) (length tns)) /\
  n_sampled (all_hooks (g_thr fin)) =
    count_true (key_decs (c_first c) (c_thereafter c) (c_tick c) (Some (R, c0)) tns) /\
  total_fwd (g_thr fin) = n_sampled (all_hooks (g_thr fin)) /\
  length (all_hooks (g_thr fin)) = length tns /\
  g_reset fin = R /\ g_cnt fin = c0 + Z.of_nat (length tns).
Proof. exact atomic_exact_thm. Qed.
Print Assumptions C11_atomic_exact.

(* closed form of the specification: of the first L entries of a window, min(L, N) + (L - N) / M are kept *)
Theorem C11_kept_count : forall N M (L : nat), 0 <= N -> 0 <= M ->
  Z.of_nat (count_true (map (keeps N M) (zseq 1 L))) =
  Z.min (Z.of_nat L) N + (if M =? 0 then 0 else Z.max 0 (Z.of_nat L - N) / M).
Proof. exact kept_count_thm. Qed.
Print Assumptions C11_kept_count.

(* ---- the code before the fix (cells started with resetAt = 0), kept as documentation ---- *)
Theorem C11_sequential_orig_refuted : ~ (forall c ops, wf_run c ops = true -> outcomes_orig c ops = spec_outcomes c ops).
Proof. exact sequential_orig_refuted. Qed.
Print Assumptions C11_sequential_orig_refuted.

Theorem C11_sequential_orig_partial : forall c ops,
  wf_run c ops = true -> stamps_ge 0 ops = true -> outcomes_orig c ops = spec_outcomes c ops.
Proof. exact sequential_orig_partial. Qed.
Print Assumptions C11_sequential_orig_partial.

(* ---- wire: the oracle the driver runs is the proved property ---- *)
Theorem C11_wire : forall i, wf i = true -> spec i (model i) = true.
Proof. exact spec_model. Qed.
Print Assumptions C11_wire.

(* ---- non-vacuity ---- *)
Definition ex_entry (core : nat) (lvl : Z) (msg : bytes) (tn : Z) (en : bool) : op :=
  Log {| e_core := core; e_lvl := lvl; e_msg := msg; e_tn := tn; e_en := en |}.
Definition ex_cfg : cfg := {| c_first := 2; c_thereafter := 3; c_tick := 10 |}.
(* N = 2, M = 3, tick = 10: one key, stamps 0 0 5 9 9 9 9 | 10 (new window) 19 19 | 20; a disabled entry
   and an out-of-range one in between; a With-derived core and a second sampler *)
Definition ex_ops : list op :=
  [ex_entry 0 0 [x61] 0 true; ex_entry 0 0 [x61] 0 true; ex_entry 0 0 [x61] 5 true; ex_entry 0 0 [x61] 9 false;
   ex_entry 0 0 [x61] 9 true; ex_entry 0 0 [x61] 9 true; With 0; ex_entry 1 0 [x61] 9 true; ex_entry 1 7 [x61] 9 true;
   ex_entry 1 0 [x61] 10 true; ex_entry 0 0 [x61] 19 true; ex_entry 0 0 [x61] 19 true; NewRoot; ex_entry 2 0 [x61] 19 true;
   ex_entry 0 0 [x61] 20 true].
Example C11_example_wf : wf_run ex_cfg ex_ops = true.
Proof. vm_compute. reflexivity. Qed.
Example C11_example :
  map (fun o => (o_hooks o, o_fwd o, o_ctx o)) (outcomes ex_cfg ex_ops) =
  [([2], true, 0%nat); ([2], true, 0%nat); ([1], false, 0%nat); ([], false, 0%nat);
   ([1], false, 0%nat); ([2], true, 0%nat); ([1], false, 0%nat); ([], true, 1%nat);
   ([2], true, 1%nat); ([2], true, 0%nat); ([1], false, 0%nat); ([2], true, 0%nat);
   ([2], true, 0%nat)].
Proof. vm_compute. reflexivity. Qed.

(* fnv32a: "msg-5" and "msg-269" collide mod 4096 (bucket 3288) but not as 32-bit hashes *)
Example C11_example_collision :
  fnv32a [x6d; x73; x67; x2d; x35] = 3311475928 /\ fnv32a [x6d; x73; x67; x2d; x32; x36; x39] = 699735256 /\
  bucket [x6d; x73; x67; x2d; x35] = 3288 /\ bucket [x6d; x73; x67; x2d; x32; x36; x39] = 3288.
Proof. vm_compute. repeat split; reflexivity. Qed.

(* the atomic-step machine can express inexact counts: three goroutines racing a window reset
   (all stamped 5, resetAt = 0, N = 2, M = 0): two of them are told "2", all three are sampled,
   where a sequential run keeps two.  The open-window hypothesis of C11_atomic_exact is what excludes this. *)
Definition race_cfg : cfg := {| c_first := 2; c_thereafter := 0; c_tick := 10 |}.
Definition race_sched : list nat := [0; 1; 0; 0; 2; 2; 1; 1; 1; 0; 0; 1; 1; 2; 2]%nat.
Example C11_example_reset_race :
  let fin := crun race_cfg (cinit 0 0 [5; 5; 5]) race_sched in
  all_done fin = true /\ rets (g_thr fin) = [1; 2; 2] /\ n_sampled (all_hooks (g_thr fin)) = 3%nat /\
  count_true (key_decs 2 0 10 None [5; 5; 5]) = 2%nat.
Proof. vm_compute. repeat split; reflexivity. Qed.
(* and inside an open window the same three goroutines, under the same schedule, are exact *)
Example C11_example_open_window :
  let fin := crun race_cfg (cinit 15 1 [5; 5; 5]) race_sched in
  all_done fin = true /\ rets (g_thr fin) = [2; 4; 3] /\ n_sampled (all_hooks (g_thr fin)) = 1%nat.
Proof. vm_compute. repeat split; reflexivity. Qed.

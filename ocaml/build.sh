#!/bin/sh
# extract the Coq models and build the driver (run from anywhere)
set -e
cd "$(dirname "$0")"
rm -f model.ml model.mli
timeout 600 coqc -Q ../coq/theories Zap ../coq/theories/Extract/Extract.v >/dev/null
timeout 600 ocamlfind ocamlopt -O3 -w -a -package str model.mli model.ml driver.ml -o driver 2>/dev/null || \
timeout 600 ocamlfind ocamlopt -w -a model.mli model.ml driver.ml -o driver

(* Correspondence driver: reads "<input-sexp>\t<observation-sexp>" lines, runs the
   extracted Coq model and spec oracle of property P on them, prints one verdict
   line per case:   <M1|M0> <S1|S0> [<expected observation>]                     *)
open Model

(* ---- numbers ---- *)
let rec pos_of_int (i : int) : positive =
  if i = 1 then XH else if i land 1 = 1 then XI (pos_of_int (i lsr 1)) else XO (pos_of_int (i lsr 1))
let z_of_int (i : int) : z = if i = 0 then Z0 else if i > 0 then Zpos (pos_of_int i) else Zneg (pos_of_int (-i))
let ten = z_of_int 10
let z_of_string (s : string) : z =
  let neg = String.length s > 0 && s.[0] = '-' in
  let start = if neg then 1 else 0 in
  let len = String.length s - start in
  if len = 0 then failwith ("bad int: " ^ s);
  let v =
    if len <= 18 then z_of_int (int_of_string (String.sub s start len))
    else begin
      let acc = ref Z0 in
      for k = start to String.length s - 1 do
        let d = Char.code s.[k] - 48 in
        if d < 0 || d > 9 then failwith ("bad int: " ^ s);
        acc := Z.add (Z.mul !acc ten) (z_of_int d)
      done; !acc end in
  if neg then Z.opp v else v
let rec pos_to_int_opt (p : positive) (depth : int) : int option =
  if depth > 61 then None else
  match p with
  | XH -> Some 1
  | XO q -> (match pos_to_int_opt q (depth + 1) with Some v -> Some (2 * v) | None -> None)
  | XI q -> (match pos_to_int_opt q (depth + 1) with Some v -> Some (2 * v + 1) | None -> None)
let rec string_of_pos_slow (v : z) (acc : string) : string =
  match v with
  | Z0 -> if acc = "" then "0" else acc
  | _ -> let (q, r) = Z.div_eucl v ten in
         let d = (match r with Z0 -> 0 | Zpos p -> (match pos_to_int_opt p 0 with Some i -> i | None -> 0) | Zneg _ -> 0) in
         string_of_pos_slow q (String.make 1 (Char.chr (48 + d)) ^ acc)
let string_of_z (v : z) : string =
  match v with
  | Z0 -> "0"
  | Zpos p -> (match pos_to_int_opt p 0 with Some i -> string_of_int i | None -> string_of_pos_slow v "")
  | Zneg p -> (match pos_to_int_opt p 0 with Some i -> "-" ^ string_of_int i | None -> "-" ^ string_of_pos_slow (Zpos p) "")

(* ---- bytes: [byte] is a 256-constant-constructor variant, declared x00..xff in
   order, so its runtime representation is the immediate 0..255; checked at startup
   against the extracted Byte.to_N *)
let byte_of_int (i : int) : byte = Obj.magic i
let int_of_byte (b : byte) : int = Obj.magic b
let () =
  for i = 0 to 255 do
    let n = to_N0 (byte_of_int i) in
    let ok = (match n with N0 -> i = 0 | Npos p -> pos_to_int_opt p 0 = Some i) in
    if not ok then (prerr_endline "byte representation self-test failed"; exit 3)
  done
let hexd = "0123456789abcdef"
let hexval c = match c with
  | '0'..'9' -> Char.code c - 48 | 'a'..'f' -> Char.code c - 87 | 'A'..'F' -> Char.code c - 55
  | _ -> failwith "bad hex"

(* ---- S-expressions:  int | #hex | symbol | ( ... ) ---- *)
let parse (s : string) (pos : int ref) : sx =
  let n = String.length s in
  let rec skip () = if !pos < n && s.[!pos] = ' ' then (incr pos; skip ()) in
  let rec item () : sx =
    skip ();
    if !pos >= n then failwith "unexpected end";
    match s.[!pos] with
    | '(' -> incr pos; let acc = ref [] in
             let rec loop () = skip ();
               if !pos >= n then failwith "unclosed (";
               if s.[!pos] = ')' then incr pos else (acc := item () :: !acc; loop ()) in
             loop (); SL (List.rev !acc)
    | '#' -> incr pos; let st = !pos in
             while !pos < n && s.[!pos] <> ' ' && s.[!pos] <> ')' && s.[!pos] <> '(' do incr pos done;
             let len = !pos - st in
             if len land 1 = 1 then failwith "odd hex";
             let l = ref [] in
             let k = ref (st + len - 2) in
             while !k >= st do
               l := byte_of_int (hexval s.[!k] * 16 + hexval s.[!k + 1]) :: !l; k := !k - 2 done;
             SB !l
    | c when (c >= '0' && c <= '9') || c = '-' ->
             let st = !pos in
             incr pos;
             while !pos < n && s.[!pos] >= '0' && s.[!pos] <= '9' do incr pos done;
             SZ (z_of_string (String.sub s st (!pos - st)))
    | _ -> let st = !pos in
             while !pos < n && s.[!pos] <> ' ' && s.[!pos] <> ')' && s.[!pos] <> '(' do incr pos done;
             let w = String.sub s st (!pos - st) in
             SB (List.init (String.length w) (fun i -> byte_of_int (Char.code w.[i])))
  in item ()

let rec print (b : Buffer.t) (x : sx) : unit =
  match x with
  | SZ v -> Buffer.add_string b (string_of_z v)
  | SB l -> Buffer.add_char b '#';
            List.iter (fun c -> let i = int_of_byte c in
                        Buffer.add_char b hexd.[i lsr 4]; Buffer.add_char b hexd.[i land 15]) l
  | SL l -> Buffer.add_char b '(';
            List.iteri (fun i y -> if i > 0 then Buffer.add_char b ' '; print b y) l;
            Buffer.add_char b ')'

let () =
  let prop = z_of_int (int_of_string Sys.argv.(1)) in
  let ic = if Array.length Sys.argv > 2 then open_in Sys.argv.(2) else stdin in
  let out = Buffer.create 65536 in
  (try while true do
    let line = input_line ic in
    (* side-channel lines ("!VIOL", "!ASSUME", "!INFO") carry no case: the runner reads them itself *)
    if String.length line > 0 && line.[0] <> '!' then begin
      let verdict =
        try
          let tab = String.index line '\t' in
          let i = parse (String.sub line 0 tab) (ref 0) in
          let o = parse (String.sub line (tab + 1) (String.length line - tab - 1)) (ref 0) in
          let m = dispatch_model prop i in
          let me = sx_eqb m o in
          let se = dispatch_spec prop i o in
          let b = Buffer.create 256 in
          Buffer.add_string b (if me then "M1" else "M0");
          Buffer.add_string b (if se then " S1" else " S0");
          if not me then (Buffer.add_char b ' '; print b m);
          Buffer.contents b
        with
        | Stack_overflow -> "ERR stack-overflow"
        | e -> "ERR " ^ Printexc.to_string e in
      Buffer.add_string out verdict; Buffer.add_char out '\n';
      if Buffer.length out > 60000 then (print_string (Buffer.contents out); Buffer.clear out)
    end
  done with End_of_file -> ());
  print_string (Buffer.contents out)

#!/bin/sh
# Build the framework from files on disk only (offline).
set -e
cd "$(dirname "$0")"
export GOFLAGS=-mod=mod GOPROXY=off GOSUMDB=off GOTOOLCHAIN=local
mkdir -p work evidence replays
( cd coq && coq_makefile -f _CoqProject -o Makefile >/dev/null && timeout 3000 make -j16 )
./ocaml/build.sh
( cd harness && cp /repo/go.sum go.sum && cat /repo/exp/go.sum >> go.sum && sort -u go.sum -o go.sum && go build -tags verif -o ../work/zapdrive . )
echo setup-ok

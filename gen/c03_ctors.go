package main

// Generator "Constructors": field.go array.go error.go exp/zapfield/zapfield.go
//   -> Gen/Constructors.v   (ctors : list ctor, wrappers : list (name * loop))
//   -> harness/gen_c03_registry.go (constructor name -> the real function, generics instantiated)
//
// Source shapes recognised (anything else is an error):
//
//	func C(key string, val T) Field { return Field{Key: key, Type: zapcore.XType, Integer|String|Interface: E} }
//	func C(key string, val T) Field { return D(key, E) }                       delegation + conversion
//	func C(key string, val *T) Field { if val == nil { return nilField(key) }; return D(key, *val) }
//	func Bool(..) { var ival int64; if val { ival = 1 }; return Field{.. Integer: ival} }
//	func Time(..) { if val.Before(_min) || val.After(_max) { return Field{..} }; return Field{..} }
//	func Cs(key string, xs []T) Field { return Array(key, wrapper(xs)) }  + wrapper's MarshalLogArray loop
//	generic variants (type parameters constrained by ObjectMarshaler, Stringer, ObjectMarshalerPtr, ~string)
//	wrapper loops: arr.M(e) | if err := arr.M(e); err != nil { return err } | the same through a
//	    recover-guarded helper h(arr, e) making exactly one arr.AppendString(x.String()) call (stringerHelper)
//
// E is an expression of c03_common.go.

import (
	"fmt"
	"go/ast"
	"go/token"
	"path/filepath"
	"sort"
	"strings"
)

func init() { generators["Constructors"] = genC03Constructors }

var c03CtorFiles = map[string]string{
	"field.go": "zap", "array.go": "zap", "error.go": "zap", "exp/zapfield/zapfield.go": "zapfield",
}

type c03Ctor struct {
	name     string // qualified: "Int32", "zapfield.Str"
	pkg      string
	exported bool
	param    string // Coq gty
	body     string // Coq body
	decl     *ast.FuncDecl
	hasKey   bool
	hasVal   bool
	variadic bool
	goParam  string // printed Go type of the value parameter
}

func c03IsFieldType(s *c03Src, e ast.Expr) bool {
	switch s.src(e) {
	case "Field", "zap.Field", "zapcore.Field":
		return true
	}
	return false
}

type c03Collect struct {
	s        *c03Src
	funcs    map[string]*ast.FuncDecl // qualified name -> decl (functions returning Field)
	fpkg     map[string]string
	order    []string
	wrappers map[string]bool
	wtypes   map[string]*ast.TypeSpec
	wpkg     map[string]string
	methods  map[string]*ast.FuncDecl // "<qualified type>.<method>"
	helpers  map[string]*ast.FuncDecl // every other package-level function, by qualified name
	vars     map[string]ast.Expr
}

func c03Qual(pkg, n string) string {
	if pkg == "zapfield" {
		return "zapfield." + n
	}
	return n
}

func c03RecvTypeName(e ast.Expr) string {
	switch x := e.(type) {
	case *ast.StarExpr:
		return "*" + c03RecvTypeName(x.X)
	case *ast.Ident:
		return x.Name
	case *ast.IndexExpr:
		return c03RecvTypeName(x.X)
	case *ast.IndexListExpr:
		return c03RecvTypeName(x.X)
	}
	return "?"
}

func c03CollectAll(s *c03Src) (*c03Collect, error) {
	c := &c03Collect{s: s, funcs: map[string]*ast.FuncDecl{}, fpkg: map[string]string{}, wrappers: map[string]bool{},
		wtypes: map[string]*ast.TypeSpec{}, wpkg: map[string]string{}, methods: map[string]*ast.FuncDecl{}, helpers: map[string]*ast.FuncDecl{}, vars: map[string]ast.Expr{}}
	for _, f := range s.files {
		for _, d := range f.f.Decls {
			switch x := d.(type) {
			case *ast.FuncDecl:
				if x.Recv != nil {
					tn := c03RecvTypeName(x.Recv.List[0].Type)
					c.methods[c03Qual(f.pkg, tn)+"."+x.Name.Name] = x
					continue
				}
				if x.Type.Results == nil || len(x.Type.Results.List) != 1 || !c03IsFieldType(s, x.Type.Results.List[0].Type) {
					c.helpers[c03Qual(f.pkg, x.Name.Name)] = x
					continue
				}
				q := c03Qual(f.pkg, x.Name.Name)
				c.funcs[q] = x
				c.fpkg[q] = f.pkg
				c.order = append(c.order, q)
			case *ast.GenDecl:
				if x.Tok == token.TYPE {
					for _, sp := range x.Specs {
						ts := sp.(*ast.TypeSpec)
						c.wtypes[c03Qual(f.pkg, ts.Name.Name)] = ts
						c.wpkg[c03Qual(f.pkg, ts.Name.Name)] = f.pkg
					}
				}
				if x.Tok == token.VAR && f.pkg == "zap" {
					for _, sp := range x.Specs {
						vs := sp.(*ast.ValueSpec)
						if len(vs.Names) == len(vs.Values) {
							for i, n := range vs.Names {
								c.vars[n.Name] = vs.Values[i]
							}
						}
					}
				}
			}
		}
	}
	for q, ts := range c.wtypes {
		if _, ok := ts.Type.(*ast.ArrayType); !ok {
			continue
		}
		if c.methods[q+".MarshalLogArray"] != nil || c.methods[q+".MarshalLogObject"] != nil {
			c.wrappers[q] = true
		}
	}
	return c, nil
}

func (c *c03Collect) flatParams(fd *ast.FuncDecl) (names []string, types []ast.Expr) {
	for _, p := range fd.Type.Params.List {
		if len(p.Names) == 0 {
			names = append(names, "_")
			types = append(types, p.Type)
		}
		for _, n := range p.Names {
			names = append(names, n.Name)
			types = append(types, p.Type)
		}
	}
	return
}

func (c *c03Collect) isKeyType(te *c03TEnv, e ast.Expr) bool {
	if id, ok := e.(*ast.Ident); ok {
		return id.Name == "string" || te.strlike[id.Name]
	}
	return false
}

func (c *c03Collect) translate(q string) (*c03Ctor, error) {
	s := c.s
	fd := c.funcs[q]
	pkg := c.fpkg[q]
	te, err := s.typeParams(pkg, fd.Type.TypeParams)
	if err != nil {
		return nil, fmt.Errorf("%s: %v", q, err)
	}
	ct := &c03Ctor{name: q, pkg: pkg, exported: ast.IsExported(fd.Name.Name), decl: fd, param: "TNone"}
	names, types := c.flatParams(fd)
	xe := &c03XEnv{s: s, te: te, pkg: pkg, subst: map[string]string{}, wrappers: c.wrappers, vars: c.vars}
	var valType ast.Expr
	switch len(names) {
	case 0:
	case 1:
		if c.isKeyType(te, types[0]) && names[0] == "key" {
			xe.key, ct.hasKey = names[0], true
		} else {
			xe.val, ct.hasVal, valType = names[0], true, types[0]
		}
	case 2:
		if !c.isKeyType(te, types[0]) {
			return nil, s.errf(fd, "%s: first parameter is not a string-like key", q)
		}
		xe.key, ct.hasKey = names[0], true
		xe.val, ct.hasVal, valType = names[1], true, types[1]
	default:
		return nil, s.errf(fd, "%s: more than two parameters", q)
	}
	if valType != nil {
		t, err := te.gty(valType)
		if err != nil {
			return nil, fmt.Errorf("%s: %v", q, err)
		}
		ct.param = t
		ct.goParam = s.src(valType)
		_, ct.variadic = valType.(*ast.Ellipsis)
	}
	b, err := c.stmts(xe, q, fd.Body.List)
	if err != nil {
		return nil, fmt.Errorf("%s: %v", q, err)
	}
	ct.body = b
	return ct, nil
}

func (c *c03Collect) keyExpr(xe *c03XEnv, e ast.Expr) (string, error) {
	switch x := e.(type) {
	case *ast.Ident:
		if x.Name == xe.key && xe.key != "" {
			return "KKey", nil
		}
	case *ast.BasicLit:
		if x.Kind == token.STRING && strings.HasPrefix(x.Value, `"`) && !strings.Contains(x.Value, `\`) {
			return "(KLit " + coqStr(strings.Trim(x.Value, `"`)) + ")", nil
		}
	case *ast.CallExpr: // string(k), k of a ~string type
		if id, ok := x.Fun.(*ast.Ident); ok && id.Name == "string" && len(x.Args) == 1 {
			return c.keyExpr(xe, x.Args[0])
		}
	}
	return "", c.s.errf(e, "key expression not understood")
}

func (c *c03Collect) stmts(xe *c03XEnv, q string, l []ast.Stmt) (string, error) {
	s := c.s
	if len(l) == 0 {
		return "", fmt.Errorf("empty body")
	}
	switch x := l[0].(type) {
	case *ast.ReturnStmt:
		if len(l) != 1 || len(x.Results) != 1 {
			return "", s.errf(x, "statements after return / multiple results")
		}
		return c.ret(xe, q, x.Results[0])
	case *ast.IfStmt:
		if x.Init != nil || x.Else != nil {
			return "", s.errf(x, "if with init or else")
		}
		// Bool's idiom: the preceding statement was `var ival int64`
		cond, err := xe.expr(x.Cond)
		if err != nil {
			return "", err
		}
		b1, err := c.stmts(xe, q, x.Body.List)
		if err != nil {
			return "", err
		}
		b2, err := c.stmts(xe, q, l[1:])
		if err != nil {
			return "", err
		}
		return "(BIf " + cond + " " + b1 + " " + b2 + ")", nil
	case *ast.DeclStmt:
		// var ival int64; if val { ival = 1 }
		if len(l) >= 3 && s.src(x) == "var ival int64" {
			if ifs, ok := l[1].(*ast.IfStmt); ok && ifs.Init == nil && ifs.Else == nil && len(ifs.Body.List) == 1 &&
				s.src(ifs.Body.List[0]) == "ival = 1" {
				cond, err := xe.expr(ifs.Cond)
				if err != nil {
					return "", err
				}
				if cond != "EVar" {
					return "", s.errf(ifs, "condition of the bool idiom is not the parameter")
				}
				xe.subst["ival"] = "(EIfBool EVar)"
				return c.stmts(xe, q, l[2:])
			}
		}
	}
	return "", s.errf(l[0], "statement not understood")
}

func (c *c03Collect) ret(xe *c03XEnv, q string, e ast.Expr) (string, error) {
	s := c.s
	switch x := e.(type) {
	case *ast.CompositeLit:
		if !c03IsFieldType(s, x.Type) {
			return "", s.errf(x, "composite literal of a type other than Field")
		}
		ft, key := "", "KNone"
		slot := map[string]string{}
		for _, el := range x.Elts {
			kv, ok := el.(*ast.KeyValueExpr)
			if !ok {
				return "", s.errf(el, "positional Field literal")
			}
			k := s.src(kv.Key)
			switch k {
			case "Key":
				ke, err := c.keyExpr(xe, kv.Value)
				if err != nil {
					return "", err
				}
				key = ke
			case "Type":
				ft = strings.TrimPrefix(s.src(kv.Value), "zapcore.")
				if !strings.HasSuffix(ft, "Type") || strings.ContainsAny(ft, " .(") {
					return "", s.errf(kv.Value, "Type is not a FieldType constant")
				}
			case "Integer", "String", "Interface":
				v, err := xe.expr(kv.Value)
				if err != nil {
					return "", err
				}
				slot[k] = v
			default:
				return "", s.errf(kv, "unknown Field member")
			}
		}
		if ft == "" {
			return "", s.errf(x, "Field literal without Type")
		}
		return fmt.Sprintf("(BLit %s %s %s %s %s)", coqStr(ft), key, coqOpt(slot["Integer"]), coqOpt(slot["String"]), coqOpt(slot["Interface"])), nil
	case *ast.CallExpr:
		callee := strings.TrimPrefix(s.src(x.Fun), "zap.")
		fd, ok := c.funcs[callee]
		if !ok {
			return "", s.errf(x, "call of %s, which is not a function returning Field", callee)
		}
		names, types := c.flatParams(fd)
		cte, err := s.typeParams(c.fpkg[callee], fd.Type.TypeParams)
		if err != nil {
			return "", err
		}
		if len(x.Args) != len(names) {
			return "", s.errf(x, "argument count")
		}
		key, arg := "KNone", ""
		switch len(names) {
		case 0:
		case 1:
			if c.isKeyType(cte, types[0]) && names[0] == "key" {
				if key, err = c.keyExpr(xe, x.Args[0]); err != nil {
					return "", err
				}
			} else if arg, err = xe.expr(x.Args[0]); err != nil {
				return "", err
			}
		case 2:
			if key, err = c.keyExpr(xe, x.Args[0]); err != nil {
				return "", err
			}
			if arg, err = xe.expr(x.Args[1]); err != nil {
				return "", err
			}
		}
		return fmt.Sprintf("(BDeleg %s %s %s)", coqStr(callee), key, coqOpt(arg)), nil
	}
	return "", s.errf(e, "returned expression not understood")
}

// ---------- wrappers ----------

// A loop body may delegate the append to a same-package helper of exactly this shape (the policy of
// Stringer fields applied to array elements):
//
//	func h(arr zapcore.ArrayEncoder, stringer fmt.Stringer) (retErr error) {
//	    defer func() { if err := recover(); err != nil {
//	        if v := reflect.ValueOf(stringer); v.Kind() == reflect.Ptr && v.IsNil() { arr.AppendString("<nil>"); return }
//	        retErr = fmt.Errorf("PANIC=%v", err) } }()
//	    arr.AppendString(stringer.String())
//	    return nil }
//
// On the path where String() does not panic -- the only one inside C03's quantifier; what happens to
// a panicking or nil element is C10's subject -- it makes exactly one call, arr.AppendString(x.String()),
// and returns nil.  Anything else is an error.
func (c *c03Collect) stringerHelper(pkg, name string) (method string, err error) {
	s := c.s
	fd := c.helpers[c03Qual(pkg, name)]
	if fd == nil {
		return "", fmt.Errorf("helper %s not found in the anchored files", name)
	}
	pn, pt := c.flatParams(fd)
	if fd.Recv != nil || fd.Type.TypeParams != nil || len(pn) != 2 || s.src(pt[0]) != "zapcore.ArrayEncoder" || s.src(pt[1]) != "fmt.Stringer" ||
		fd.Type.Results == nil || len(fd.Type.Results.List) != 1 || len(fd.Type.Results.List[0].Names) != 1 || s.src(fd.Type.Results.List[0].Type) != "error" {
		return "", s.errf(fd, "helper %s does not have the signature (arr zapcore.ArrayEncoder, x fmt.Stringer) (retErr error)", name)
	}
	arr, x, ret := pn[0], pn[1], fd.Type.Results.List[0].Names[0].Name
	want := fmt.Sprintf(`{ defer func() { if err := recover(); err != nil { if v := reflect.ValueOf(%[2]s); v.Kind() == reflect.Ptr && v.IsNil() { %[1]s.AppendString("<nil>") return } %[3]s = fmt.Errorf("PANIC=%%v", err) } }() %[1]s.AppendString(%[2]s.String()) return nil }`, arr, x, ret)
	if got := s.src(fd.Body); got != want {
		return "", s.errf(fd, "helper %s is not the known recover-guarded AppendString(x.String()) (want body %q)", name, want)
	}
	return "AppendString", nil
}

const c03ErrArrayBody = `{ for i := range errs { if errs[i] == nil { continue } elem := _errArrayElemPool.Get() elem.error = errs[i] err := arr.AppendObject(elem) elem.error = nil _errArrayElemPool.Put(elem) if err != nil { return err } } return nil }`
const c03ErrElemBody = `{ Error(e.error).AddTo(enc) return nil }`

func (c *c03Collect) wrapper(q string) (string, error) {
	s := c.s
	pkg := c.wpkg[q]
	if q == "errArray" {
		m := c.methods["errArray.MarshalLogArray"]
		if m == nil || s.src(m.Body) != c03ErrArrayBody {
			return "", fmt.Errorf("errArray.MarshalLogArray is not the known loop (skip nil, pooled errArrayElem, AppendObject)")
		}
		em := c.methods["*errArrayElem.MarshalLogObject"]
		if em == nil || s.src(em.Body) != c03ErrElemBody {
			return "", fmt.Errorf("errArrayElem.MarshalLogObject is not `Error(e.error).AddTo(enc); return nil`")
		}
		ef := c.funcs["Error"]
		if ef == nil || len(ef.Body.List) != 1 {
			return "", fmt.Errorf("func Error not found")
		}
		src := s.src(ef.Body.List[0])
		const pre, post = `return NamedError("`, `", err)`
		if !strings.HasPrefix(src, pre) || !strings.HasSuffix(src, post) {
			return "", s.errf(ef.Body.List[0], "Error is not NamedError(<literal>, err)")
		}
		return "(LErrs " + coqStr(src[len(pre):len(src)-len(post)]) + ")", nil
	}
	m := c.methods[q+".MarshalLogArray"]
	isObj := false
	if m == nil {
		m = c.methods[q+".MarshalLogObject"]
		isObj = true
	}
	if m.Recv == nil || len(m.Recv.List[0].Names) != 1 {
		return "", s.errf(m, "receiver")
	}
	recv := m.Recv.List[0].Names[0].Name
	pn, _ := c.flatParams(m)
	if len(pn) != 1 {
		return "", s.errf(m, "marshal method parameters")
	}
	encName := pn[0]
	if len(m.Body.List) != 2 || s.src(m.Body.List[1]) != "return nil" {
		return "", s.errf(m.Body, "wrapper method is not `for ... { } return nil`")
	}
	rs, ok := m.Body.List[0].(*ast.RangeStmt)
	if !ok || s.src(rs.X) != recv || rs.Tok != token.DEFINE {
		return "", s.errf(m.Body.List[0], "wrapper method does not range over its receiver")
	}
	te, err := s.typeParams(pkg, nil)
	if err != nil {
		return "", err
	}
	xe := &c03XEnv{s: s, te: te, pkg: pkg, subst: map[string]string{}, wrappers: c.wrappers, vars: c.vars, elem: map[string]bool{}}
	switch {
	case rs.Value != nil && s.src(rs.Key) == "_":
		xe.elem[s.src(rs.Value)] = true
	case rs.Value == nil && rs.Key != nil:
		xe.elem[recv+"["+s.src(rs.Key)+"]"] = true
		xe.elemLval = recv + "[" + s.src(rs.Key) + "]"
	default:
		return "", s.errf(rs, "range form")
	}
	body := rs.Body.List
	// var p P = &os[i]
	for len(body) > 1 {
		ds, ok := body[0].(*ast.DeclStmt)
		if !ok {
			break
		}
		gd := ds.Decl.(*ast.GenDecl)
		if gd.Tok != token.VAR || len(gd.Specs) != 1 {
			return "", s.errf(ds, "declaration in wrapper loop")
		}
		vs := gd.Specs[0].(*ast.ValueSpec)
		if len(vs.Names) != 1 || len(vs.Values) != 1 {
			return "", s.errf(ds, "declaration in wrapper loop")
		}
		v, err := xe.expr(vs.Values[0])
		if err != nil {
			return "", err
		}
		xe.subst[vs.Names[0].Name] = v
		body = body[1:]
	}
	if len(body) != 1 {
		return "", s.errf(rs.Body, "wrapper loop body has more than one statement")
	}
	appendCall := func(e ast.Expr) (string, string, error) {
		ce, ok := e.(*ast.CallExpr)
		if !ok {
			return "", "", s.errf(e, "not a call")
		}
		if id, isIdent := ce.Fun.(*ast.Ident); isIdent && len(ce.Args) == 2 && s.src(ce.Args[0]) == encName {
			m, err := c.stringerHelper(pkg, id.Name)
			if err != nil {
				return "", "", err
			}
			v, err := xe.expr(ce.Args[1])
			if err != nil {
				return "", "", err
			}
			return m, "(EStringOf " + v + ")", nil
		}
		sel, ok := ce.Fun.(*ast.SelectorExpr)
		if !ok || s.src(sel.X) != encName {
			if isObj && len(ce.Args) == 1 && s.src(ce.Args[0]) == encName && xe.elem[s.src(sel.X)] && sel.Sel.Name == "AddTo" {
				return "AddTo", "", nil
			}
			return "", "", s.errf(e, "not a call on the encoder")
		}
		if len(ce.Args) != 1 {
			return "", "", s.errf(e, "append with other than one argument")
		}
		v, err := xe.expr(ce.Args[0])
		return sel.Sel.Name, v, err
	}
	switch st := body[0].(type) {
	case *ast.ExprStmt:
		m, v, err := appendCall(st.X)
		if err != nil {
			return "", err
		}
		if m == "AddTo" {
			return "LFields", nil
		}
		return "(LAppend " + coqStr(m) + " " + v + ")", nil
	case *ast.IfStmt:
		as, ok := st.Init.(*ast.AssignStmt)
		if !ok || st.Else != nil || len(as.Lhs) != 1 || len(as.Rhs) != 1 || s.src(as.Lhs[0]) != "err" ||
			s.src(st.Cond) != "err != nil" || s.src(st.Body) != "{ return err }" {
			return "", s.errf(st, "not `if err := arr.M(e); err != nil { return err }`")
		}
		m, v, err := appendCall(as.Rhs[0])
		if err != nil {
			return "", err
		}
		return "(LAppendErr " + coqStr(m) + " " + v + ")", nil
	}
	return "", s.errf(body[0], "wrapper loop statement not understood")
}

// ---------- output ----------

func genC03Constructors(repo, out, harness string) error {
	s, err := c03Parse(repo, c03CtorFiles)
	if err != nil {
		return err
	}
	c, err := c03CollectAll(s)
	if err != nil {
		return err
	}
	var ctors []*c03Ctor
	for _, q := range c.order {
		if q == "Any" {
			continue // translated by the AnyTable generator
		}
		ct, err := c.translate(q)
		if err != nil {
			return err
		}
		ctors = append(ctors, ct)
	}
	if len(ctors) < 20 {
		return fmt.Errorf("only %d constructors found", len(ctors))
	}
	var b strings.Builder
	b.WriteString("(* GENERATED by gen/c03_ctors.go from field.go array.go error.go exp/zapfield/zapfield.go -- data only, do not edit *)\n")
	b.WriteString("From Coq Require Import List ZArith String.\nImport ListNotations.\nFrom Zap Require Import C03.Lang.\n\n")
	b.WriteString("Definition ctors : list ctor := [\n")
	for i, ct := range ctors {
		sep := ";"
		if i == len(ctors)-1 {
			sep = ""
		}
		fmt.Fprintf(&b, "  {| c_name := %s; c_param := %s;\n     c_body := %s |}%s\n", coqStr(ct.name), ct.param, ct.body, sep)
	}
	b.WriteString("].\n\n")
	var wq []string
	for q := range c.wrappers {
		wq = append(wq, q)
	}
	sort.Strings(wq)
	b.WriteString("Definition wrappers : list (name * loop) := [\n")
	for i, q := range wq {
		l, err := c.wrapper(q)
		if err != nil {
			return fmt.Errorf("wrapper %s: %v", q, err)
		}
		sep := ";"
		if i == len(wq)-1 {
			sep = ""
		}
		fmt.Fprintf(&b, "  (%s, %s)%s\n", coqStr(q), l, sep)
	}
	b.WriteString("].\n")
	if err := c03WriteFile(filepath.Join(out, "Constructors.v"), b.String()); err != nil {
		return err
	}
	return c03WriteRegistry(s, ctors, harness)
}

// harness/gen_c03_registry.go: every exported constructor as a value the harness can call through
// reflect; generic constructors instantiated at the harness's fixed user types.
func c03WriteRegistry(s *c03Src, ctors []*c03Ctor, harness string) error {
	var b strings.Builder
	b.WriteString("// Code generated by gen/c03_ctors.go from field.go array.go error.go exp/zapfield/zapfield.go; DO NOT EDIT.\n\n")
	b.WriteString("package main\n\nimport (\n\t\"fmt\"\n\n\t\"go.uber.org/zap\"\n\t\"go.uber.org/zap/exp/zapfield\"\n\t\"go.uber.org/zap/zapcore\"\n)\n\nvar _ fmt.Stringer\nvar _ zapcore.ObjectMarshaler\n\n")
	b.WriteString("type genC03Ctor struct {\n\tName     string\n\tFn       interface{}\n\tHasKey   bool\n\tHasVal   bool\n\tVariadic bool\n\tGoParam  string\n}\n\n")
	b.WriteString("var genC03Ctors = []genC03Ctor{\n")
	for _, ct := range ctors {
		if !ct.exported {
			continue
		}
		fn := "zap." + ct.decl.Name.Name
		if ct.pkg == "zapfield" {
			fn = "zapfield." + ct.decl.Name.Name
		}
		if tp := ct.decl.Type.TypeParams; tp != nil {
			var args []string
			for _, f := range tp.List {
				for range f.Names {
					cs := s.src(f.Type)
					switch {
					case cs == "zapcore.ObjectMarshaler":
						args = append(args, "zapcore.ObjectMarshaler")
					case cs == "fmt.Stringer":
						args = append(args, "fmt.Stringer")
					case cs == "any":
						args = append(args, "c03AddrObj")
					case strings.HasPrefix(cs, "ObjectMarshalerPtr["):
						args = append(args, "*c03AddrObj")
					case cs == "~string" && len(args) == 0:
						args = append(args, "c03KeyT")
					case cs == "~string":
						args = append(args, "c03StrT")
					case strings.HasPrefix(cs, "~[]"):
						args = append(args, "[]c03StrT")
					default:
						return fmt.Errorf("registry: constraint %s of %s", cs, ct.name)
					}
				}
			}
			// Strs[K ~string, V ~[]S, S ~string]: S is the element type of V
			fn += "[" + strings.Join(args, ", ") + "]"
		}
		fmt.Fprintf(&b, "\t{Name: %q, Fn: %s, HasKey: %v, HasVal: %v, Variadic: %v, GoParam: %q},\n", ct.name, fn, ct.hasKey, ct.hasVal, ct.variadic, ct.goParam)
	}
	b.WriteString("}\n")
	return c03WriteFile(filepath.Join(harness, "gen_c03_registry.go"), b.String())
}

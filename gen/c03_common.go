package main

// Shared helpers of the C03 generators (Constructors, AddTo, AnyTable): parsing of the anchored
// files, translation of Go type expressions and value expressions into the terms of
// coq/theories/C03/Lang.v, Coq pretty-printing.  Every function returns an error on a source shape
// it does not know ("fail loudly").

import (
	"bytes"
	"fmt"
	"go/ast"
	"go/parser"
	"go/printer"
	"go/token"
	"os"
	"path/filepath"
	"sort"
	"strconv"
	"strings"
)

type c03File struct {
	pkg  string // "zap", "zapcore", "zapfield"
	path string
	f    *ast.File
}

type c03Src struct {
	fset  *token.FileSet
	files []*c03File
}

func c03Parse(repo string, rels map[string]string) (*c03Src, error) {
	s := &c03Src{fset: token.NewFileSet()}
	keys := make([]string, 0, len(rels))
	for k := range rels {
		keys = append(keys, k)
	}
	sort.Strings(keys)
	for _, rel := range keys {
		p := filepath.Join(repo, rel)
		f, err := parser.ParseFile(s.fset, p, nil, parser.ParseComments)
		if err != nil {
			return nil, fmt.Errorf("parse %s: %v", rel, err)
		}
		s.files = append(s.files, &c03File{pkg: rels[rel], path: rel, f: f})
	}
	return s, nil
}

func (s *c03Src) src(n ast.Node) string {
	var b bytes.Buffer
	printer.Fprint(&b, s.fset, n)
	return strings.Join(strings.Fields(b.String()), " ")
}

func (s *c03Src) pos(n ast.Node) string {
	p := s.fset.Position(n.Pos())
	return fmt.Sprintf("%s:%d", filepath.Base(p.Filename), p.Line)
}

func (s *c03Src) errf(n ast.Node, format string, a ...interface{}) error {
	return fmt.Errorf("%s: %s  [source: %s]", s.pos(n), fmt.Sprintf(format, a...), c03Trunc(s.src(n)))
}

func c03Trunc(x string) string {
	if len(x) > 160 {
		return x[:160] + "..."
	}
	return x
}

// ---------- Coq printing ----------

func coqStr(s string) string { return `($"` + strings.ReplaceAll(s, `"`, `""`) + `")` }
func coqZ(z string) string {
	if strings.HasPrefix(z, "-") {
		return "(" + z + ")%Z"
	}
	return z + "%Z"
}
func coqOpt(x string) string {
	if x == "" {
		return "None"
	}
	return "(Some " + x + ")"
}

var c03NumNames = map[string]string{
	"int": "NInt", "int64": "NInt64", "int32": "NInt32", "int16": "NInt16", "int8": "NInt8",
	"uint": "NUint", "uint64": "NUint64", "uint32": "NUint32", "uint16": "NUint16", "uint8": "NUint8",
	"uintptr": "NUintptr",
}

// type environment of one function: generic type parameters resolved through their constraints
type c03TEnv struct {
	s       *c03Src
	tparams map[string]string // type parameter name -> Coq gty term
	strlike map[string]bool   // type parameters constrained by ~string
}

func (te *c03TEnv) gty(e ast.Expr) (string, error) {
	switch x := e.(type) {
	case *ast.Ident:
		if t, ok := te.tparams[x.Name]; ok {
			return t, nil
		}
		if n, ok := c03NumNames[x.Name]; ok {
			return "(TNum " + n + ")", nil
		}
		switch x.Name {
		case "bool":
			return "TBool", nil
		case "float64":
			return "TF64", nil
		case "float32":
			return "TF32", nil
		case "complex128":
			return "TC128", nil
		case "complex64":
			return "TC64", nil
		case "string":
			return "TString", nil
		case "error":
			return "(TIface IError)", nil
		case "any":
			return "(TIface IAny)", nil
		case "Field":
			return "TField", nil
		case "ObjectMarshaler": // inside package zapcore
			return "(TIface IObjM)", nil
		case "ArrayMarshaler":
			return "(TIface IArrM)", nil
		}
	case *ast.SelectorExpr:
		switch te.s.src(x) {
		case "time.Time":
			return "TTime", nil
		case "time.Duration":
			return "(TNum NDuration)", nil
		case "time.Location":
			return "TLoc", nil // only ever used behind a pointer
		case "fmt.Stringer":
			return "(TIface IStringer)", nil
		case "zapcore.ObjectMarshaler":
			return "(TIface IObjM)", nil
		case "zapcore.ArrayMarshaler":
			return "(TIface IArrM)", nil
		case "zapcore.Field", "zap.Field":
			return "TField", nil
		}
	case *ast.InterfaceType:
		if x.Methods == nil || len(x.Methods.List) == 0 {
			return "(TIface IAny)", nil
		}
	case *ast.StarExpr:
		if te.s.src(x.X) == "time.Location" {
			return "TLoc", nil
		}
		t, err := te.gty(x.X)
		if err != nil {
			return "", err
		}
		return "(TPtr " + t + ")", nil
	case *ast.ArrayType:
		if x.Len != nil {
			break
		}
		if id, ok := x.Elt.(*ast.Ident); ok && id.Name == "byte" {
			return "TBytes", nil
		}
		t, err := te.gty(x.Elt)
		if err != nil {
			return "", err
		}
		return "(TSlice " + t + ")", nil
	case *ast.Ellipsis:
		t, err := te.gty(x.Elt)
		if err != nil {
			return "", err
		}
		return "(TSlice " + t + ")", nil
	}
	return "", te.s.errf(e, "type expression not understood")
}

// resolve the type parameters of a generic function from their constraints
func (s *c03Src) typeParams(pkg string, fl *ast.FieldList) (*c03TEnv, error) {
	te := &c03TEnv{s: s, tparams: map[string]string{}, strlike: map[string]bool{}}
	if fl == nil {
		return te, nil
	}
	// first pass: names
	type tp struct {
		name string
		c    ast.Expr
	}
	var tps []tp
	for _, f := range fl.List {
		for _, n := range f.Names {
			tps = append(tps, tp{n.Name, f.Type})
		}
	}
	for _, p := range tps {
		cs := s.src(p.c)
		switch {
		case cs == "zapcore.ObjectMarshaler":
			te.tparams[p.name] = "(TIface IObjM)"
		case cs == "fmt.Stringer":
			te.tparams[p.name] = "(TIface IStringer)"
		case cs == "~string":
			te.tparams[p.name] = "TString"
			te.strlike[p.name] = true
		case cs == "any":
			// meaning given by a later ObjectMarshalerPtr[T] constraint
		case strings.HasPrefix(cs, "ObjectMarshalerPtr["):
			arg := strings.TrimSuffix(strings.TrimPrefix(cs, "ObjectMarshalerPtr["), "]")
			if err := s.checkObjectMarshalerPtr(); err != nil {
				return nil, err
			}
			te.tparams[arg] = "(TAddrOf IObjM)"
			te.tparams[p.name] = "(TPtr (TAddrOf IObjM))"
		case strings.HasPrefix(cs, "~[]"):
			el := strings.TrimPrefix(cs, "~[]")
			te.tparams[p.name] = "(TSlice " + "@" + el + ")" // patched below
		default:
			return nil, s.errf(p.c, "type-parameter constraint not understood for %s", p.name)
		}
	}
	for k, v := range te.tparams {
		if i := strings.Index(v, "@"); i >= 0 {
			el := strings.TrimSuffix(v[i+1:], ")")
			t, ok := te.tparams[el]
			if !ok {
				return nil, fmt.Errorf("type parameter %s: element type %s unknown", k, el)
			}
			te.tparams[k] = "(TSlice " + t + ")"
		}
	}
	for _, p := range tps {
		if _, ok := te.tparams[p.name]; !ok {
			return nil, s.errf(p.c, "type parameter %s has no understood meaning", p.name)
		}
	}
	return te, nil
}

// type ObjectMarshalerPtr[T any] interface { *T; zapcore.ObjectMarshaler }
func (s *c03Src) checkObjectMarshalerPtr() error {
	for _, f := range s.files {
		for _, d := range f.f.Decls {
			gd, ok := d.(*ast.GenDecl)
			if !ok || gd.Tok != token.TYPE {
				continue
			}
			for _, sp := range gd.Specs {
				ts := sp.(*ast.TypeSpec)
				if ts.Name.Name != "ObjectMarshalerPtr" {
					continue
				}
				got := s.src(ts)
				want := "ObjectMarshalerPtr[T any] interface { *T zapcore.ObjectMarshaler }"
				if got != want {
					return s.errf(ts, "ObjectMarshalerPtr is not the expected constraint (want %q)", want)
				}
				return nil
			}
		}
	}
	return fmt.Errorf("constraint ObjectMarshalerPtr not found")
}

// ---------- expressions ----------

type c03XEnv struct {
	s        *c03Src
	te       *c03TEnv
	pkg      string
	val      string            // name of the value parameter ("" if none)
	key      string            // name of the key parameter
	recv     string            // AddTo side: receiver name
	elem     map[string]bool   // names/expressions denoting the loop element, printed form
	elemLval string            // printed form of the slice element as an lvalue (recv[i], i the range key); "" if the loop ranges by value
	subst    map[string]string // local identifiers with a known meaning (Coq term)
	wrappers map[string]bool   // zap-internal named slice types with a marshal method (qualified names)
	vars     map[string]ast.Expr
}

func (xe *c03XEnv) wrapperName(n string) string {
	if xe.pkg == "zapfield" {
		return "zapfield." + n
	}
	return n
}

func c03IntLit(s *c03Src, e ast.Expr) (string, bool) {
	switch x := e.(type) {
	case *ast.BasicLit:
		if x.Kind == token.INT {
			if v, err := strconv.ParseInt(x.Value, 0, 64); err == nil {
				return strconv.FormatInt(v, 10), true
			}
		}
	case *ast.SelectorExpr:
		switch s.src(x) {
		case "math.MinInt64":
			return "-9223372036854775808", true
		case "math.MaxInt64":
			return "9223372036854775807", true
		}
	}
	return "", false
}

func (xe *c03XEnv) expr(e ast.Expr) (string, error) {
	s := xe.s
	if xe.elem != nil && xe.elem[s.src(e)] {
		return "EElem", nil
	}
	switch x := e.(type) {
	case *ast.ParenExpr:
		return xe.expr(x.X)
	case *ast.Ident:
		if t, ok := xe.subst[x.Name]; ok {
			return t, nil
		}
		if x.Name == xe.val && xe.val != "" {
			return "EVar", nil
		}
		if x.Name == "nil" {
			return "ENil", nil
		}
		if init, ok := xe.vars[x.Name]; ok {
			return xe.expr(init)
		}
	case *ast.BasicLit:
		if z, ok := c03IntLit(s, x); ok {
			return "(EZ " + coqZ(z) + ")", nil
		}
	case *ast.StarExpr:
		a, err := xe.expr(x.X)
		if err != nil {
			return "", err
		}
		return "(EDeref " + a + ")", nil
	case *ast.UnaryExpr:
		if x.Op == token.AND {
			// &recv[i] is the address of the caller's own element; the address of anything else that
			// denotes the element (a range value variable, a local copy) is the address of a COPY
			if xe.elemLval != "" && s.src(x.X) == xe.elemLval {
				return "EElemAddr", nil
			}
			a, err := xe.expr(x.X)
			if err != nil {
				return "", err
			}
			return "(EAddr " + a + ")", nil
		}
	case *ast.SelectorExpr:
		if id, ok := x.X.(*ast.Ident); ok && xe.recv != "" && id.Name == xe.recv {
			switch x.Sel.Name {
			case "Integer":
				return "EInteger", nil
			case "String":
				return "EString", nil
			case "Interface":
				return "EInterface", nil
			}
		}
		if z, ok := c03IntLit(s, x); ok {
			return "(EZ " + coqZ(z) + ")", nil
		}
	case *ast.TypeAssertExpr:
		if x.Type == nil {
			break
		}
		t, err := xe.te.gty(x.Type)
		if err != nil {
			return "", err
		}
		a, err := xe.expr(x.X)
		if err != nil {
			return "", err
		}
		return "(EAssert " + t + " " + a + ")", nil
	case *ast.BinaryExpr:
		switch x.Op {
		case token.LOR:
			a, err := xe.expr(x.X)
			if err != nil {
				return "", err
			}
			b, err := xe.expr(x.Y)
			if err != nil {
				return "", err
			}
			return "(EOr " + a + " " + b + ")", nil
		case token.EQL, token.NEQ:
			if id, ok := x.Y.(*ast.Ident); ok && id.Name == "nil" {
				a, err := xe.expr(x.X)
				if err != nil {
					return "", err
				}
				if x.Op == token.EQL {
					return "(EIsNil " + a + ")", nil
				}
				return "(ENotNil " + a + ")", nil
			}
			if z, ok := c03IntLit(s, x.Y); ok && x.Op == token.EQL {
				a, err := xe.expr(x.X)
				if err != nil {
					return "", err
				}
				return "(EEqZ " + a + " " + coqZ(z) + ")", nil
			}
		}
	case *ast.CallExpr:
		return xe.call(x)
	}
	return "", s.errf(e, "expression not understood")
}

func (xe *c03XEnv) call(x *ast.CallExpr) (string, error) {
	s := xe.s
	fun := x.Fun
	// generic instantiation of a wrapper type: objects[T](values)
	base := fun
	switch ix := fun.(type) {
	case *ast.IndexExpr:
		base = ix.X
	case *ast.IndexListExpr:
		base = ix.X
	}
	fs := s.src(base)
	arg1 := func() (string, error) {
		if len(x.Args) != 1 {
			return "", s.errf(x, "expected exactly one argument")
		}
		return xe.expr(x.Args[0])
	}
	if id, ok := base.(*ast.Ident); ok {
		if n, ok := c03NumNames[id.Name]; ok && base == fun {
			a, err := arg1()
			if err != nil {
				return "", err
			}
			return "(EConv " + n + " " + a + ")", nil
		}
		if id.Name == "string" && base == fun {
			a, err := arg1()
			if err != nil {
				return "", err
			}
			return "(EStrConv " + a + ")", nil
		}
		if xe.wrappers[xe.wrapperName(id.Name)] {
			a, err := arg1()
			if err != nil {
				return "", err
			}
			return "(EWrapAs " + coqStr(xe.wrapperName(id.Name)) + " " + a + ")", nil
		}
	}
	if base != fun {
		return "", s.errf(x, "generic instantiation of something that is not a zap-internal wrapper type")
	}
	switch fs {
	case "time.Duration":
		a, err := arg1()
		if err != nil {
			return "", err
		}
		return "(EConv NDuration " + a + ")", nil
	case "math.Float64bits":
		a, err := arg1()
		if err != nil {
			return "", err
		}
		return "(EF64bits " + a + ")", nil
	case "math.Float32bits":
		a, err := arg1()
		if err != nil {
			return "", err
		}
		return "(EF32bits " + a + ")", nil
	case "math.Float64frombits":
		a, err := arg1()
		if err != nil {
			return "", err
		}
		return "(EF64from " + a + ")", nil
	case "math.Float32frombits":
		a, err := arg1()
		if err != nil {
			return "", err
		}
		return "(EF32from " + a + ")", nil
	case "stacktrace.Take":
		return "EStack", nil
	case "time.Unix":
		if len(x.Args) == 2 {
			if z, ok := c03IntLit(s, x.Args[0]); ok && z == "0" {
				a, err := xe.expr(x.Args[1])
				if err != nil {
					return "", err
				}
				return "(ETimeUnix0 " + a + ")", nil
			}
		}
		return "", s.errf(x, "time.Unix with a non-zero seconds argument")
	}
	// method calls on a translated receiver
	if sel, ok := fun.(*ast.SelectorExpr); ok {
		switch sel.Sel.Name {
		case "UnixNano", "Location", "String":
			if len(x.Args) != 0 {
				break
			}
			a, err := xe.expr(sel.X)
			if err != nil {
				return "", err
			}
			return "(" + map[string]string{"UnixNano": "EUnixNano", "Location": "ELocation", "String": "EStringOf"}[sel.Sel.Name] + " " + a + ")", nil
		case "Before", "After", "In":
			if len(x.Args) != 1 {
				break
			}
			a, err := xe.expr(sel.X)
			if err != nil {
				return "", err
			}
			b, err := xe.expr(x.Args[0])
			if err != nil {
				return "", err
			}
			return "(" + map[string]string{"Before": "EBefore", "After": "EAfter", "In": "ETimeIn"}[sel.Sel.Name] + " " + a + " " + b + ")", nil
		}
	}
	return "", s.errf(x, "call not understood")
}

func c03WriteFile(path, content string) error {
	old, err := os.ReadFile(path)
	if err == nil && string(old) == content {
		return nil // keep the mtime: nothing to recompile
	}
	return os.WriteFile(path, []byte(content), 0o644)
}

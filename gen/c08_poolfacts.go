package main

// C08: per pooled struct of zap — field list, what New() stores, which fields are
// definitely assigned between Pool.Get and the first point where the object is
// handed on ("acquire"), and the state each field definitely has at Pool.Put
// ("release").  Output: coq/theories/Gen/PoolFacts.v (data only).
//
// The analysis is a definite-assignment pass over the statements of the function
// that contains the Get (resp. Put):
//   x.f = nil|false|0|""|T{}|make(T, 0[, c]) -> KZero (visibly empty)
//   x.f = x.f[:0]                 -> KTrunc
//   x.f = <anything else>         -> KVal
//   x.m()  (m a pointer method of the struct in the same package) -> m's body, inlined;
//                                    the states at its early returns are merged with the
//                                    state at its end (all of them continue in the caller)
//   if/else, switch               -> branch-wise, merged (a field assigned in only one
//                                    branch is NOT definitely assigned; a KVal in one
//                                    branch overrides an earlier clearing; KZero and
//                                    KTrunc merge to KTrunc: visibly empty on both paths)
//   ... whose condition reads the pooled object itself (a field that has not been
//   assigned yet - cap(x.bs) > max, len(x.cores) > 4, x.dirty - or x passed to a
//   function), and whose branches leave a field in DIFFERENT states
//                                 -> KDep: the field is assigned on every path, but WHICH
//                                    value it gets depends on the state the previous user
//                                    left the object in (a size guard that re-allocates
//                                    instead of resetting, a fast path for "small" objects).
//                                    Every path through a Get must end in the same state.
//   for/range                     -> body may run zero times (merged with the state before)
//   x passed on (argument, return value, unknown method) -> acquire analysis stops;
//                                    release analysis forgets everything known so far
// Anything it cannot classify makes the generator fail (the check then reports a
// broken obligation).
//
// Also emitted: own_facts (the order of uses and Put / Free of a pooled object in the function
// that holds it, see genOwnFacts) and shared_facts (assignments of the encoders' per-call code to
// state that a whole logger family shares WITHOUT a pool: the *EncoderConfig that clone() copies
// by pointer, and the receiver of the methods that run on a logger's long-lived encoder; see
// genSharedFacts).

import (
	"bytes"
	"fmt"
	"go/ast"
	"go/parser"
	"go/printer"
	"go/token"
	"os"
	"path/filepath"
	"strconv"
	"strings"
)

func init() { register2("PoolFacts", genPoolFacts) }

type poolSpec struct {
	Name string // label used in Coq
	Dir  string // package directory relative to the repository root
	Type string // struct type
	Get  string // the pool's Get, as printed source
	Put  string // the pool's Put, as printed source
}

var c08Pools = []poolSpec{
	{"jsonEncoder", "zapcore", "jsonEncoder", "_jsonPool.Get", "_jsonPool.Put"},
	{"sliceArrayEncoder", "zapcore", "sliceArrayEncoder", "_sliceEncoderPool.Get", "_sliceEncoderPool.Put"},
	{"CheckedEntry", "zapcore", "CheckedEntry", "_cePool.Get", "_cePool.Put"},
	{"zapcore.errArrayElem", "zapcore", "errArrayElem", "_errArrayElemPool.Get", "_errArrayElemPool.Put"},
	{"zap.errArrayElem", ".", "errArrayElem", "_errArrayElemPool.Get", "_errArrayElemPool.Put"},
	{"Buffer", "buffer", "Buffer", "p.p.Get", "p.p.Put"},
	{"Stack", "internal/stacktrace", "Stack", "_stackPool.Get", "_stackPool.Put"},
}

type fstate int

const (
	sUnset fstate = iota
	sZero
	sTrunc
	sVal
	sDep // assigned on every path, differently on paths selected by the recycled object's own state
)

func (s fstate) coq() string { return [...]string{"", "KZero", "KTrunc", "KVal", "KDep"}[s] }

type env map[string]fstate

func (e env) clone() env {
	c := env{}
	for k, v := range e {
		c[k] = v
	}
	return c
}

// dep: the paths being merged were selected by a condition that reads the pooled object's residual state
func mergeState(a, b fstate, dep bool) fstate {
	if a == b {
		return a
	}
	if a != sUnset && b != sUnset {
		if (a == sZero || a == sTrunc) && (b == sZero || b == sTrunc) {
			return sTrunc // nil on one path, [:0] on the other: visibly empty on both
		}
		if dep || a == sDep || b == sDep {
			return sDep
		}
		return sVal
	}
	// assigned on one path only: not cleared, not definitely set
	return sUnset
}

func mergeEnv(a, b env, dep bool) env {
	out := env{}
	for k, v := range a {
		out[k] = mergeState(v, b[k], dep)
	}
	for k, v := range b {
		if _, ok := a[k]; !ok {
			out[k] = mergeState(sUnset, v, dep)
		}
	}
	for k, v := range out {
		if v == sUnset {
			delete(out, k)
		}
	}
	return out
}

// does the expression read the pooled object's residual state: a field x.f that has not been assigned
// since the Get (resp. is not known at this point of the release path), a method of x, or x itself
// handed to a function?  Comparing the pointer x with nil does not.
func readsResidual(n ast.Node, x string, e env) bool {
	if n == nil {
		return false
	}
	found := false
	var walk func(n ast.Node)
	walk = func(n ast.Node) {
		if n == nil || found {
			return
		}
		switch v := n.(type) {
		case *ast.SelectorExpr:
			if id, ok := v.X.(*ast.Ident); ok && id.Name == x {
				if st, ok := e[v.Sel.Name]; !ok || st == sUnset || st == sDep {
					found = true
				}
				return
			}
			walk(v.X)
			return
		case *ast.BinaryExpr:
			if id, ok := v.X.(*ast.Ident); ok && id.Name == x {
				if y, ok := v.Y.(*ast.Ident); ok && y.Name == "nil" {
					return
				}
			}
		case *ast.Ident:
			if v.Name == x {
				found = true
			}
			return
		}
		ast.Inspect(n, func(c ast.Node) bool {
			if c == n || c == nil {
				return true
			}
			walk(c)
			return false
		})
	}
	walk(n)
	return found
}

type pkgInfo struct {
	fset    *token.FileSet
	files   []*ast.File
	methods map[string]*ast.FuncDecl // "Type.method" (pointer receivers)
}

func loadPkg(dir string) (*pkgInfo, error) {
	fset := token.NewFileSet()
	ents, err := os.ReadDir(dir)
	if err != nil {
		return nil, err
	}
	p := &pkgInfo{fset: fset, methods: map[string]*ast.FuncDecl{}}
	for _, e := range ents {
		n := e.Name()
		if e.IsDir() || !strings.HasSuffix(n, ".go") || strings.HasSuffix(n, "_test.go") {
			continue
		}
		f, err := parser.ParseFile(fset, filepath.Join(dir, n), nil, 0)
		if err != nil {
			return nil, err
		}
		p.files = append(p.files, f)
		for _, d := range f.Decls {
			fd, ok := d.(*ast.FuncDecl)
			if !ok || fd.Recv == nil || len(fd.Recv.List) != 1 {
				continue
			}
			if st, ok := fd.Recv.List[0].Type.(*ast.StarExpr); ok {
				if id, ok := st.X.(*ast.Ident); ok {
					p.methods[id.Name+"."+fd.Name.Name] = fd
				}
			}
		}
	}
	return p, nil
}

func (p *pkgInfo) src(n ast.Node) string {
	var b bytes.Buffer
	printer.Fprint(&b, p.fset, n)
	return b.String()
}

type analyzer struct {
	p       *pkgInfo
	typ     string
	release bool // release mode: an escape forgets, instead of stopping
	stopped bool
	depth   int
	depNest int        // > 0: inside a branch selected by a condition on the pooled object's residual state
	rets    [][]retEnv // per inlined method: the states at its return statements
}

// the state at a return statement of an inlined method (that path continues in the caller)
type retEnv struct {
	e   env
	dep bool
}

// does the expression mention x other than as the base of a selector x.f ?
func mentionsBare(n ast.Node, x string) bool {
	found := false
	var walk func(n ast.Node)
	walk = func(n ast.Node) {
		if n == nil || found {
			return
		}
		switch v := n.(type) {
		case *ast.SelectorExpr:
			if id, ok := v.X.(*ast.Ident); ok && id.Name == x {
				return // x.f : a field access, not a use of x itself
			}
			walk(v.X)
			return
		case *ast.Ident:
			if v.Name == x {
				found = true
			}
			return
		}
		ast.Inspect(n, func(c ast.Node) bool {
			if c == n || c == nil {
				return true
			}
			walk(c)
			return false
		})
	}
	walk(n)
	return found
}

func classify(rhs ast.Expr, x, field string) fstate {
	switch v := rhs.(type) {
	case *ast.Ident:
		if v.Name == "nil" || v.Name == "false" {
			return sZero
		}
	case *ast.BasicLit:
		if v.Value == "0" || v.Value == `""` {
			return sZero
		}
	case *ast.CompositeLit:
		if len(v.Elts) == 0 {
			return sZero
		}
	case *ast.CallExpr: // make(T, 0) / make(T, 0, c): visibly empty, like nil
		if id, ok := v.Fun.(*ast.Ident); ok && id.Name == "make" && len(v.Args) >= 2 {
			if l, ok := v.Args[1].(*ast.BasicLit); ok && l.Value == "0" {
				return sZero
			}
		}
	case *ast.SliceExpr:
		if sel, ok := v.X.(*ast.SelectorExpr); ok && v.Low == nil && v.High != nil && !v.Slice3 {
			if id, ok := sel.X.(*ast.Ident); ok && id.Name == x && sel.Sel.Name == field {
				if hl, ok := v.High.(*ast.BasicLit); ok && hl.Value == "0" {
					return sTrunc
				}
			}
		}
	}
	return sVal
}

// returns (env after, terminated): terminated = the block ends in a return
func (a *analyzer) block(stmts []ast.Stmt, x string, e env) (env, bool, error) {
	for _, s := range stmts {
		if a.stopped {
			return e, false, nil
		}
		var term bool
		var err error
		e, term, err = a.stmt(s, x, e)
		if err != nil {
			return nil, false, err
		}
		if term {
			return e, true, nil
		}
	}
	return e, false, nil
}

func (a *analyzer) escape(e env) env {
	if a.release {
		return env{}
	}
	a.stopped = true
	return e
}

func (a *analyzer) stmt(s ast.Stmt, x string, e env) (env, bool, error) {
	switch v := s.(type) {
	case *ast.AssignStmt:
		for _, r := range v.Rhs {
			if mentionsBare(r, x) {
				return a.escape(e), false, nil
			}
		}
		if len(v.Lhs) == len(v.Rhs) {
			for i, l := range v.Lhs {
				if sel, ok := l.(*ast.SelectorExpr); ok {
					if id, ok := sel.X.(*ast.Ident); ok && id.Name == x {
						e = e.clone()
						e[sel.Sel.Name] = classify(v.Rhs[i], x, sel.Sel.Name)
						continue
					}
				}
				if id, ok := l.(*ast.Ident); ok && id.Name == x {
					if a.release { // x (re)bound here: nothing is known about the new object
						e = env{}
						continue
					}
					return nil, false, fmt.Errorf("%s: pooled variable %s reassigned", a.p.fset.Position(v.Pos()), x)
				}
			}
		} else {
			for _, l := range v.Lhs {
				if sel, ok := l.(*ast.SelectorExpr); ok {
					if id, ok := sel.X.(*ast.Ident); ok && id.Name == x {
						e = e.clone()
						e[sel.Sel.Name] = sVal
					}
				}
			}
		}
		return e, false, nil
	case *ast.ExprStmt:
		if call, ok := v.X.(*ast.CallExpr); ok {
			if sel, ok := call.Fun.(*ast.SelectorExpr); ok {
				if id, ok := sel.X.(*ast.Ident); ok && id.Name == x {
					for _, arg := range call.Args {
						if mentionsBare(arg, x) {
							return a.escape(e), false, nil
						}
					}
					m, ok := a.p.methods[a.typ+"."+sel.Sel.Name]
					if !ok || a.depth > 4 {
						return a.escape(e), false, nil // unknown method of x: it may do anything
					}
					recv := m.Recv.List[0].Names[0].Name
					a.depth++
					a.rets = append(a.rets, nil)
					e2, term, err := a.block(m.Body.List, recv, e)
					rs := a.rets[len(a.rets)-1]
					a.rets = a.rets[:len(a.rets)-1]
					a.depth--
					if err != nil || a.stopped {
						return e2, false, err
					}
					// every path through the method ends here: the fall-through and each early return
					var outs []env
					dep := false
					if !term {
						outs = append(outs, e2)
					}
					for _, r := range rs {
						outs = append(outs, r.e)
						dep = dep || r.dep
					}
					if len(outs) == 0 {
						return e2, false, nil
					}
					r := outs[0]
					for _, o := range outs[1:] {
						r = mergeEnv(r, o, dep)
					}
					return r, false, nil
				}
			}
		}
		if mentionsBare(v.X, x) {
			return a.escape(e), false, nil
		}
		return e, false, nil
	case *ast.IfStmt:
		if v.Init != nil && mentionsBare(v.Init, x) {
			return a.escape(e), false, nil
		}
		dep := readsResidual(v.Cond, x, e) || (v.Init != nil && readsResidual(v.Init, x, e))
		if dep {
			a.depNest++
			defer func() { a.depNest-- }()
		}
		et, tt, err := a.block(v.Body.List, x, e)
		if err != nil {
			return nil, false, err
		}
		if a.stopped {
			return e, false, nil // escaped inside a branch: nothing in this statement counts
		}
		ee, te := e, false
		if v.Else != nil {
			switch el := v.Else.(type) {
			case *ast.BlockStmt:
				ee, te, err = a.block(el.List, x, e)
			default:
				ee, te, err = a.stmt(el, x, e)
			}
			if err != nil {
				return nil, false, err
			}
			if a.stopped {
				return e, false, nil
			}
		}
		switch {
		case tt && te:
			return e, true, nil
		case tt:
			return ee, false, nil
		case te:
			return et, false, nil
		}
		return mergeEnv(et, ee, dep), false, nil
	case *ast.SwitchStmt:
		dep := readsResidual(v.Tag, x, e) || (v.Init != nil && readsResidual(v.Init, x, e))
		for _, c := range v.Body.List {
			for _, ce := range c.(*ast.CaseClause).List {
				dep = dep || readsResidual(ce, x, e)
			}
		}
		if dep {
			a.depNest++
			defer func() { a.depNest-- }()
		}
		hasDefault := false
		var outs []env
		for _, c := range v.Body.List {
			cc := c.(*ast.CaseClause)
			if cc.List == nil {
				hasDefault = true
			}
			ec, tc, err := a.block(cc.Body, x, e)
			if err != nil {
				return nil, false, err
			}
			if a.stopped {
				return e, false, nil
			}
			if !tc {
				outs = append(outs, ec)
			}
		}
		if !hasDefault {
			outs = append(outs, e)
		}
		if len(outs) == 0 {
			return e, true, nil
		}
		r := outs[0]
		for _, o := range outs[1:] {
			r = mergeEnv(r, o, dep)
		}
		return r, false, nil
	case *ast.ForStmt:
		dep := readsResidual(v.Cond, x, e) || (v.Init != nil && readsResidual(v.Init, x, e))
		if dep {
			a.depNest++
			defer func() { a.depNest-- }()
		}
		eb, _, err := a.block(v.Body.List, x, e)
		if err != nil {
			return nil, false, err
		}
		if a.stopped {
			return e, false, nil
		}
		return mergeEnv(e, eb, dep), false, nil
	case *ast.RangeStmt:
		dep := readsResidual(v.X, x, e)
		if dep {
			a.depNest++
			defer func() { a.depNest-- }()
		}
		eb, _, err := a.block(v.Body.List, x, e)
		if err != nil {
			return nil, false, err
		}
		if a.stopped {
			return e, false, nil
		}
		return mergeEnv(e, eb, dep), false, nil
	case *ast.BlockStmt:
		return a.block(v.List, x, e)
	case *ast.ReturnStmt:
		if mentionsBare(v, x) {
			a.stopped = !a.release || a.stopped
		}
		if a.depth > 0 && len(a.rets) > 0 && !a.stopped { // a return of an inlined method: the path goes on in the caller
			a.rets[len(a.rets)-1] = append(a.rets[len(a.rets)-1], retEnv{e, a.depNest > 0})
		}
		return e, true, nil
	case *ast.BranchStmt: // continue / break: this path leaves the block
		return e, true, nil
	case *ast.DeclStmt, *ast.IncDecStmt, *ast.EmptyStmt, *ast.DeferStmt, *ast.GoStmt:
		if mentionsBare(s, x) {
			return a.escape(e), false, nil
		}
		return e, false, nil
	}
	return nil, false, fmt.Errorf("%s: statement shape %T not understood by the pool-facts translator", a.p.fset.Position(s.Pos()), s)
}

// finds `x := <get>()` (or `return <get>()`) / `<put>(x)` and the statement list around it
type site struct {
	fn    *ast.FuncDecl
	stmts []ast.Stmt // the block containing the site
	idx   int
	x     string
}

func (p *pkgInfo) findSites(target string, isPut bool) []site {
	var out []site
	for _, f := range p.files {
		for _, d := range f.Decls {
			fd, ok := d.(*ast.FuncDecl)
			if !ok || fd.Body == nil {
				continue
			}
			ast.Inspect(fd.Body, func(n ast.Node) bool {
				var list []ast.Stmt
				switch b := n.(type) {
				case *ast.BlockStmt:
					list = b.List
				case *ast.CaseClause:
					list = b.Body
				default:
					return true
				}
				for i, s := range list {
					switch v := s.(type) {
					case *ast.AssignStmt:
						if !isPut && len(v.Rhs) == 1 && len(v.Lhs) == 1 {
							if c, ok := v.Rhs[0].(*ast.CallExpr); ok && p.src(c.Fun) == target {
								if id, ok := v.Lhs[0].(*ast.Ident); ok {
									out = append(out, site{fd, list, i, id.Name})
								}
							}
						}
					case *ast.ReturnStmt:
						if !isPut && len(v.Results) == 1 {
							if c, ok := v.Results[0].(*ast.CallExpr); ok && p.src(c.Fun) == target {
								out = append(out, site{fd, list, i, ""})
							}
						}
					case *ast.ExprStmt:
						if c, ok := v.X.(*ast.CallExpr); ok && isPut && p.src(c.Fun) == target && len(c.Args) == 1 {
							if id, ok := c.Args[0].(*ast.Ident); ok {
								out = append(out, site{fd, list, i, id.Name})
							}
						}
					}
				}
				return true
			})
		}
	}
	return out
}

func (p *pkgInfo) structFields(typ string) ([]string, error) {
	for _, f := range p.files {
		for _, d := range f.Decls {
			gd, ok := d.(*ast.GenDecl)
			if !ok {
				continue
			}
			for _, sp := range gd.Specs {
				ts, ok := sp.(*ast.TypeSpec)
				if !ok || ts.Name.Name != typ {
					continue
				}
				st, ok := ts.Type.(*ast.StructType)
				if !ok {
					return nil, fmt.Errorf("type %s is not a struct", typ)
				}
				var out []string
				for _, fl := range st.Fields.List {
					if len(fl.Names) == 0 { // embedded
						t := fl.Type
						if s, ok := t.(*ast.StarExpr); ok {
							t = s.X
						}
						switch tt := t.(type) {
						case *ast.Ident:
							out = append(out, tt.Name)
						case *ast.SelectorExpr:
							out = append(out, tt.Sel.Name)
						default:
							return nil, fmt.Errorf("embedded field of %s not understood", typ)
						}
					}
					for _, n := range fl.Names {
						out = append(out, n.Name)
					}
				}
				return out, nil
			}
		}
	}
	return nil, fmt.Errorf("struct %s not found", typ)
}

// New: pool.New(func() *T { return &T{...} })
func (p *pkgInfo) newLiteral(typ string) (map[string]string, error) {
	var res map[string]string
	var ferr error
	n := 0
	for _, f := range p.files {
		ast.Inspect(f, func(nd ast.Node) bool {
			c, ok := nd.(*ast.CallExpr)
			if !ok || p.src(c.Fun) != "pool.New" || len(c.Args) != 1 {
				return true
			}
			fl, ok := c.Args[0].(*ast.FuncLit)
			if !ok || fl.Type.Results == nil || len(fl.Type.Results.List) != 1 || p.src(fl.Type.Results.List[0].Type) != "*"+typ {
				return true
			}
			n++
			if len(fl.Body.List) != 1 {
				ferr = fmt.Errorf("New of %s: body is not a single return", typ)
				return false
			}
			rs, ok := fl.Body.List[0].(*ast.ReturnStmt)
			if !ok || len(rs.Results) != 1 {
				ferr = fmt.Errorf("New of %s: body is not a single return", typ)
				return false
			}
			u, ok := rs.Results[0].(*ast.UnaryExpr)
			if !ok {
				ferr = fmt.Errorf("New of %s: not &T{...}", typ)
				return false
			}
			cl, ok := u.X.(*ast.CompositeLit)
			if !ok {
				ferr = fmt.Errorf("New of %s: not &T{...}", typ)
				return false
			}
			res = map[string]string{}
			for _, el := range cl.Elts {
				kv, ok := el.(*ast.KeyValueExpr)
				if !ok {
					ferr = fmt.Errorf("New of %s: positional literal", typ)
					return false
				}
				k := p.src(kv.Key)
				mk, ok := kv.Value.(*ast.CallExpr)
				if !ok || p.src(mk.Fun) != "make" || len(mk.Args) < 2 {
					ferr = fmt.Errorf("New of %s: field %s initialised by %s (only make(T, n[, c]) is understood)", typ, k, p.src(kv.Value))
					return false
				}
				ln, err := strconv.Atoi(p.src(mk.Args[1]))
				if err != nil || ln < 0 {
					ferr = fmt.Errorf("New of %s: field %s: length %s is not a literal", typ, k, p.src(mk.Args[1]))
					return false
				}
				if ln == 0 {
					res[k] = "NEmpty"
				} else {
					res[k] = fmt.Sprintf("NMake %d", ln)
				}
			}
			return false
		})
	}
	if ferr != nil {
		return nil, ferr
	}
	if n != 1 {
		return nil, fmt.Errorf("expected exactly one pool.New(func() *%s), found %d", typ, n)
	}
	return res, nil
}

// ---------------- ownership discipline facts ----------------
type ownSpec struct {
	Name    string // label
	Dir     string // package dir
	Recv    string // receiver type ("" for a plain function)
	Func    string
	Aliases []string // source texts that denote the buffer / pooled object
	Owner   string   // variable whose putJSONEncoder(...) detaches the buffer ("" if none)
	Put     string   // function (or pool method, as printed source) whose call Put(alias) returns the object to its pool; alias.Free() always does
}

var c08Owns = []ownSpec{
	{"ioCore.Write", "zapcore", "ioCore", "Write", []string{"buf"}, "", ""},
	{"jsonEncoder.EncodeEntry", "zapcore", "jsonEncoder", "EncodeEntry", []string{"final.buf", "ret"}, "final", ""},
	{"consoleEncoder.EncodeEntry", "zapcore", "consoleEncoder", "EncodeEntry", []string{"line"}, "", ""},
	{"consoleEncoder.writeContext", "zapcore", "consoleEncoder", "writeContext", []string{"context.buf"}, "context", ""},
	{"putJSONEncoder", "zapcore", "", "putJSONEncoder", []string{"enc.reflectBuf"}, "", ""},
	{"EntryCaller.FullPath", "zapcore", "EntryCaller", "FullPath", []string{"buf"}, "", ""},
	{"EntryCaller.TrimmedPath", "zapcore", "EntryCaller", "TrimmedPath", []string{"buf"}, "", ""},
	{"Logger.check", ".", "Logger", "check", []string{"buffer"}, "", ""},
	{"stacktrace.Take", "internal/stacktrace", "", "Take", []string{"buffer"}, "", ""},
	// the other pooled objects, in the function that holds them from Get to Put: everything the function
	// does with the object (field reads, passing it to a core, a marshaler, a hook) comes before the Put
	{"CheckedEntry.Write/ce", "zapcore", "CheckedEntry", "Write", []string{"ce"}, "", "putCheckedEntry"},
	{"jsonEncoder.EncodeEntry/final", "zapcore", "jsonEncoder", "EncodeEntry", []string{"final"}, "", "putJSONEncoder"},
	{"consoleEncoder.writeContext/context", "zapcore", "consoleEncoder", "writeContext", []string{"context"}, "", "putJSONEncoder"},
	{"consoleEncoder.EncodeEntry/arr", "zapcore", "consoleEncoder", "EncodeEntry", []string{"arr"}, "", "putSliceEncoder"},
	{"zapcore.errArray.MarshalLogArray/el", "zapcore", "errArray", "MarshalLogArray", []string{"el"}, "", ""},
	{"zap.errArray.MarshalLogArray/elem", ".", "errArray", "MarshalLogArray", []string{"elem"}, "", "_errArrayElemPool.Put"},
	{"Logger.check/stack", ".", "Logger", "check", []string{"stack"}, "", ""},
	{"stacktrace.Take/stack", "internal/stacktrace", "", "Take", []string{"stack"}, "", ""},
}

func (p *pkgInfo) findFunc(recv, name string) *ast.FuncDecl {
	for _, f := range p.files {
		for _, d := range f.Decls {
			fd, ok := d.(*ast.FuncDecl)
			if !ok || fd.Name.Name != name || fd.Body == nil {
				continue
			}
			if recv == "" {
				if fd.Recv == nil {
					return fd
				}
				continue
			}
			if fd.Recv == nil || len(fd.Recv.List) != 1 {
				continue
			}
			t := fd.Recv.List[0].Type
			if s, ok := t.(*ast.StarExpr); ok {
				t = s.X
			}
			if id, ok := t.(*ast.Ident); ok && id.Name == recv {
				return fd
			}
		}
	}
	return nil
}

type ownWalker struct {
	p       *pkgInfo
	aliases map[string]bool
	owner   string
	put     string
	events  []string
	late    []string // deferred
}

func (w *ownWalker) emit(dst *[]string, e string) {
	if e == "BUse" && len(*dst) > 0 && (*dst)[len(*dst)-1] == "BUse" {
		return
	}
	*dst = append(*dst, e)
}

func (w *ownWalker) isAlias(e ast.Expr) bool {
	switch e.(type) {
	case *ast.Ident, *ast.SelectorExpr:
		return w.aliases[w.p.src(e)]
	}
	return false
}

func (w *ownWalker) walk(n ast.Node, dst *[]string) {
	if n == nil {
		return
	}
	switch v := n.(type) {
	case *ast.DeferStmt:
		if fl, ok := v.Call.Fun.(*ast.FuncLit); ok {
			w.walk(fl.Body, &w.late)
		} else {
			w.walk(v.Call, &w.late)
		}
		return
	case *ast.CallExpr:
		if sel, ok := v.Fun.(*ast.SelectorExpr); ok && sel.Sel.Name == "Free" && w.isAlias(sel.X) {
			w.emit(dst, "BFree")
			return
		}
		if w.put != "" && w.p.src(v.Fun) == w.put && len(v.Args) == 1 && w.isAlias(v.Args[0]) {
			w.emit(dst, "BFree")
			return
		}
		if w.owner != "" && w.p.src(v.Fun) == "putJSONEncoder" && len(v.Args) == 1 && w.p.src(v.Args[0]) == w.owner {
			w.emit(dst, "BOwnerPut")
			return
		}
	case *ast.ReturnStmt:
		for _, r := range v.Results {
			if w.isAlias(r) {
				w.emit(dst, "BRet")
			} else {
				w.walk(r, dst)
			}
		}
		return
	case *ast.BinaryExpr:
		if id, ok := v.Y.(*ast.Ident); ok && id.Name == "nil" && w.isAlias(v.X) {
			return // comparing the pointer with nil does not touch the buffer
		}
	case *ast.AssignStmt:
		// x := alias  /  alias = nil : pointer copies, not uses;  x := alias.Bytes() : x aliases the contents
		if len(v.Lhs) == 1 && len(v.Rhs) == 1 {
			if w.isAlias(v.Rhs[0]) {
				if id, ok := v.Lhs[0].(*ast.Ident); ok {
					w.aliases[id.Name] = true
				}
				return
			}
			if w.isAlias(v.Lhs[0]) {
				w.walk(v.Rhs[0], dst)
				return
			}
			if c, ok := v.Rhs[0].(*ast.CallExpr); ok {
				if sel, ok := c.Fun.(*ast.SelectorExpr); ok && sel.Sel.Name == "Bytes" && w.isAlias(sel.X) {
					if id, ok := v.Lhs[0].(*ast.Ident); ok {
						w.emit(dst, "BUse")
						w.aliases[id.Name] = true
						return
					}
				}
			}
		}
	case *ast.Ident, *ast.SelectorExpr:
		if w.isAlias(v.(ast.Expr)) {
			w.emit(dst, "BUse")
			return
		}
	}
	// children in source order
	var kids []ast.Node
	ast.Inspect(n, func(c ast.Node) bool {
		if c == n {
			return true
		}
		if c != nil {
			kids = append(kids, c)
		}
		return false
	})
	for _, k := range kids {
		w.walk(k, dst)
	}
}

func genOwnFacts(repo string, pkgs map[string]*pkgInfo, b *strings.Builder) error {
	b.WriteString("\n(* what each function does, in source order, with the pooled buffer / pooled object it holds *)\n")
	b.WriteString("Definition own_facts : list ownfact := [\n")
	for i, sp := range c08Owns {
		p := pkgs[sp.Dir]
		if p == nil {
			var err error
			p, err = loadPkg(filepath.Join(repo, sp.Dir))
			if err != nil {
				return err
			}
			pkgs[sp.Dir] = p
		}
		fd := p.findFunc(sp.Recv, sp.Func)
		if fd == nil {
			return fmt.Errorf("%s: function not found", sp.Name)
		}
		w := &ownWalker{p: p, aliases: map[string]bool{}, owner: sp.Owner, put: sp.Put}
		for _, a := range sp.Aliases {
			w.aliases[a] = true
		}
		w.walk(fd.Body, &w.events)
		ev := append([]string(nil), w.events...)
		for _, e := range w.late {
			w.emit(&ev, e)
		}
		if len(ev) == 0 {
			return fmt.Errorf("%s: the buffer %v does not occur any more", sp.Name, sp.Aliases)
		}
		fmt.Fprintf(b, "  {| of_fn := \"%s\"; of_buf := \"%s\"; of_events := [%s] |}", sp.Name, sp.Aliases[0], strings.Join(ev, "; "))
		if i < len(c08Owns)-1 {
			b.WriteString(";")
		}
		b.WriteString("\n")
	}
	b.WriteString("].\n")
	return nil
}

// ---------------- census of the holders of a pooled object ----------------
// c08Owns is a hand-written table.  For the pools whose Get / Put are wrapped in package functions this pass
// lists EVERY function of the package that calls the wrappers: a function that newly takes an object from
// the pool (a temporary collector for nested arrays, say) has no ownership fact and fails holder_ok.  Per
// holder: the variable bound by x := get(), the number of get() and put(...) calls, and every occurrence of
// x.<field> (the slice fields of the pooled struct) that is not x.f[i], range x.f, len(x.f) / cap(x.f): a
// reference to the object's backing array stored or handed on (append(s.elems, x.elems)) outlives the Put.
type holderSpec struct {
	Pool   string
	Dir    string
	Get    string
	Put    string
	Fields []string
}

var c08Holders = []holderSpec{
	{"sliceArrayEncoder", "zapcore", "getSliceEncoder", "putSliceEncoder", []string{"elems"}},
}

func c08FuncLabel(fd *ast.FuncDecl) string {
	if r := c08RecvTypeName(fd); r != "" {
		return r + "." + fd.Name.Name
	}
	return fd.Name.Name
}

func genHolderFacts(repo string, pkgs map[string]*pkgInfo, b *strings.Builder) error {
	b.WriteString("\n(* every function that calls the Get / Put wrapper of a pool: variable, number of Gets and Puts, escaping storage *)\n")
	b.WriteString("Definition pool_holders : list pholder := [\n")
	var rows []string
	for _, sp := range c08Holders {
		p := pkgs[sp.Dir]
		if p == nil {
			var err error
			p, err = loadPkg(filepath.Join(repo, sp.Dir))
			if err != nil {
				return err
			}
			pkgs[sp.Dir] = p
		}
		isField := map[string]bool{}
		for _, f := range sp.Fields {
			isField[f] = true
		}
		found := 0
		for _, f := range p.files {
			for _, d := range f.Decls {
				fd, ok := d.(*ast.FuncDecl)
				if !ok || fd.Body == nil || fd.Name.Name == sp.Get || fd.Name.Name == sp.Put {
					continue
				}
				gets, puts := 0, 0
				vars := map[string]bool{}
				var order []string
				ast.Inspect(fd.Body, func(n ast.Node) bool {
					switch v := n.(type) {
					case *ast.CallExpr:
						if id, ok := v.Fun.(*ast.Ident); ok {
							if id.Name == sp.Get {
								gets++
							}
							if id.Name == sp.Put {
								puts++
							}
						}
					case *ast.AssignStmt:
						for i, r := range v.Rhs {
							c, ok := r.(*ast.CallExpr)
							if !ok || i >= len(v.Lhs) {
								continue
							}
							if id, ok := c.Fun.(*ast.Ident); ok && id.Name == sp.Get {
								if l, ok := v.Lhs[i].(*ast.Ident); ok && !vars[l.Name] {
									vars[l.Name] = true
									order = append(order, l.Name)
								}
							}
						}
					}
					return true
				})
				if gets+puts == 0 {
					continue
				}
				found++
				// escapes: x.f outside x.f[i] / range x.f / len(x.f) / cap(x.f)
				var esc []string
				var stack []ast.Node
				ast.Inspect(fd.Body, func(n ast.Node) bool {
					if n == nil {
						stack = stack[:len(stack)-1]
						return true
					}
					if sel, ok := n.(*ast.SelectorExpr); ok && isField[sel.Sel.Name] {
						if id, ok := sel.X.(*ast.Ident); ok && vars[id.Name] && len(stack) > 0 {
							allowed := false
							switch par := stack[len(stack)-1].(type) {
							case *ast.IndexExpr:
								allowed = par.X == ast.Expr(sel)
							case *ast.RangeStmt:
								allowed = par.X == ast.Expr(sel)
							case *ast.CallExpr:
								if fid, ok := par.Fun.(*ast.Ident); ok && (fid.Name == "len" || fid.Name == "cap") {
									allowed = true
								}
							}
							if !allowed {
								txt := strings.Join(strings.Fields(p.src(stack[len(stack)-1])), " ")
								if len(txt) > 90 {
									txt = txt[:90] + "..."
								}
								esc = append(esc, `"`+strings.ReplaceAll(txt, `"`, `'`)+`"`)
							}
						}
					}
					stack = append(stack, n)
					return true
				})
				v := "?"
				if len(order) > 0 {
					v = strings.Join(order, ",")
				}
				rows = append(rows, fmt.Sprintf("  {| ph_pool := \"%s\"; ph_fn := \"%s\"; ph_var := \"%s\"; ph_gets := %d; ph_puts := %d; ph_escapes := [%s] |}",
					sp.Pool, c08FuncLabel(fd), v, gets, puts, strings.Join(esc, "; ")))
			}
		}
		if found == 0 {
			return fmt.Errorf("%s: no function calls %s / %s any more: the census of holders needs the new names", sp.Pool, sp.Get, sp.Put)
		}
	}
	b.WriteString(strings.Join(rows, ";\n"))
	b.WriteString("\n].\n")
	return nil
}

// ---------------- family-wide state facts ----------------
// clone() copies the POINTER to the EncoderConfig: a logger's long-lived encoder, the per-call clone
// EncodeEntry works on and every encoder derived through With / Named / Clone share one configuration.
// EncodeEntry, Clone, clone, writeContext and addSeparatorIfNecessary moreover run ON the long-lived
// encoder, whose own fields every later call sees.  Per method of jsonEncoder / consoleEncoder (and the
// plain functions of the per-call path) this pass lists
//
//	cfg writes:  an assignment / ++ / -- whose target is a field of EncoderConfig reached through an
//	             encoder (x.EncodeLevel = ..., x.EncoderConfig.LineEnding = ..., *x.EncoderConfig = ...),
//	             unless the base variable is a local VALUE copy (c := *x.EncoderConfig; var c EncoderConfig;
//	             c := EncoderConfig{...}); the configuration pointer or the address of one of its fields
//	             handed to a function (arg:...)
//	recv writes: (entry methods only) an assignment to a field of the receiver (or of an alias of it), a
//	             call of a receiver method that itself mutates its receiver (fixpoint over the methods
//	             of both types; buffer methods other than Len / Bytes / String / Cap count), the receiver
//	             handed to a function
//
// The constructors (which fill in defaults in their by-value parameter before anything shares it) are
// not per-call code and not listed.  Syntactic (go/ast, no types): a field name of EncoderConfig that
// is not also a field of jsonEncoder identifies the target.
var c08SharedTypes = []string{"jsonEncoder", "consoleEncoder"}
var c08SharedFuncs = []string{"putJSONEncoder", "addFields"}
var c08SharedEntry = map[string]bool{
	"jsonEncoder.EncodeEntry": true, "jsonEncoder.Clone": true, "jsonEncoder.clone": true,
	"consoleEncoder.EncodeEntry": true, "consoleEncoder.Clone": true, "consoleEncoder.writeContext": true,
	"consoleEncoder.addSeparatorIfNecessary": true,
}
var c08BufReadOnly = map[string]bool{"Len": true, "Bytes": true, "String": true, "Cap": true}

type sharedFn struct {
	name string
	fd   *ast.FuncDecl
	recv string // receiver variable ("" for a plain function)
}

func c08RecvTypeName(fd *ast.FuncDecl) string {
	if fd.Recv == nil || len(fd.Recv.List) != 1 {
		return ""
	}
	t := fd.Recv.List[0].Type
	if s, ok := t.(*ast.StarExpr); ok {
		t = s.X
	}
	if id, ok := t.(*ast.Ident); ok {
		return id.Name
	}
	return ""
}

// x.a.b[i] -> ("x", ["a", "b"]); starred: a dereference occurs on the way
func c08SelChain(e ast.Expr) (base string, sels []string, starred bool, ok bool) {
	for {
		switch v := e.(type) {
		case *ast.ParenExpr:
			e = v.X
		case *ast.IndexExpr:
			e = v.X
		case *ast.StarExpr:
			starred = true
			e = v.X
		case *ast.SelectorExpr:
			sels = append([]string{v.Sel.Name}, sels...)
			e = v.X
		case *ast.Ident:
			return v.Name, sels, starred, true
		default:
			return "", nil, false, false
		}
	}
}

type sharedScan struct {
	p        *pkgInfo
	cfg, own map[string]bool
	fns      map[string]*sharedFn // "Type.method" / "func"
	mutating map[string]bool
}

// locals that hold a VALUE (a copy), not a pointer into shared state
func c08ValueLocals(fd *ast.FuncDecl) map[string]bool {
	out := map[string]bool{}
	isValue := func(e ast.Expr) bool {
		switch v := e.(type) {
		case *ast.StarExpr:
			return true // x := *p : a copy
		case *ast.CompositeLit:
			_ = v
			return true
		}
		return false
	}
	ast.Inspect(fd.Body, func(n ast.Node) bool {
		switch v := n.(type) {
		case *ast.AssignStmt:
			if v.Tok == token.DEFINE && len(v.Lhs) == len(v.Rhs) {
				for i, l := range v.Lhs {
					if id, ok := l.(*ast.Ident); ok && isValue(v.Rhs[i]) {
						out[id.Name] = true
					}
				}
			}
		case *ast.DeclStmt:
			if gd, ok := v.Decl.(*ast.GenDecl); ok {
				for _, sp := range gd.Specs {
					if vs, ok := sp.(*ast.ValueSpec); ok && vs.Type != nil {
						if _, ptr := vs.Type.(*ast.StarExpr); !ptr {
							for _, n := range vs.Names {
								out[n.Name] = true
							}
						}
					}
				}
			}
		}
		return true
	})
	return out
}

// the method a call recv.M(...) / recv.jsonEncoder.M(...) resolves to ("" if M is not a method of the encoders)
func (sc *sharedScan) resolve(typ, m string) string {
	if _, ok := sc.fns[typ+"."+m]; ok {
		return typ + "." + m
	}
	if typ == "consoleEncoder" { // embeds *jsonEncoder
		if _, ok := sc.fns["jsonEncoder."+m]; ok {
			return "jsonEncoder." + m
		}
	}
	return ""
}

// what fn does to its receiver (or an alias of it): field assignments, mutating calls, handing it on
func (sc *sharedScan) recvWrites(fn *sharedFn) []string {
	if fn.recv == "" {
		return nil
	}
	typ := c08RecvTypeName(fn.fd)
	alias := map[string]bool{fn.recv: true}
	isRecv := func(e ast.Expr) bool { // recv, an alias, recv.jsonEncoder
		base, sels, _, ok := c08SelChain(e)
		if !ok || !alias[base] {
			return false
		}
		return len(sels) == 0 || (len(sels) == 1 && sels[0] == "jsonEncoder")
	}
	var out []string
	add := func(s string) {
		for _, o := range out {
			if o == s {
				return
			}
		}
		out = append(out, s)
	}
	lhs := func(e ast.Expr) {
		base, sels, _, ok := c08SelChain(e)
		if ok && alias[base] && len(sels) > 0 {
			add(strings.Join(sels, "."))
		}
	}
	ast.Inspect(fn.fd.Body, func(n ast.Node) bool {
		switch v := n.(type) {
		case *ast.AssignStmt:
			if len(v.Lhs) == len(v.Rhs) {
				for i, l := range v.Lhs {
					if id, ok := l.(*ast.Ident); ok && isRecv(v.Rhs[i]) {
						alias[id.Name] = true
					}
				}
			}
			for _, l := range v.Lhs {
				lhs(l)
			}
		case *ast.IncDecStmt:
			lhs(v.X)
		case *ast.CallExpr:
			for _, a := range v.Args {
				x := a
				if u, ok := a.(*ast.UnaryExpr); ok && u.Op == token.AND {
					x = u.X
				}
				if isRecv(x) {
					add("arg:" + sc.p.src(v.Fun))
				}
			}
			if sel, ok := v.Fun.(*ast.SelectorExpr); ok {
				base, sels, _, ok := c08SelChain(sel.X)
				if ok && alias[base] {
					switch {
					case len(sels) == 0 || (len(sels) == 1 && sels[0] == "jsonEncoder"):
						t := typ
						if len(sels) == 1 {
							t = "jsonEncoder"
						}
						if m := sc.resolve(t, sel.Sel.Name); m != "" && sc.mutating[m] {
							add("call:" + sel.Sel.Name)
						}
					case sels[len(sels)-1] == "buf" || sels[len(sels)-1] == "reflectBuf":
						if !c08BufReadOnly[sel.Sel.Name] {
							add("call:" + strings.Join(sels, ".") + "." + sel.Sel.Name)
						}
					}
				}
			}
		}
		return true
	})
	return out
}

// assignments of fn that go through the configuration pointer
func (sc *sharedScan) cfgWrites(fn *sharedFn) []string {
	vals := c08ValueLocals(fn.fd)
	var out []string
	add := func(s string) { out = append(out, s) }
	lhs := func(e ast.Expr) {
		base, sels, starred, ok := c08SelChain(e)
		if !ok || len(sels) == 0 || vals[base] {
			return
		}
		last := sels[len(sels)-1]
		through := false
		for _, s := range sels[:len(sels)-1] {
			if s == "EncoderConfig" {
				through = true
			}
		}
		switch {
		case through:
			add("EncoderConfig." + last)
		case last == "EncoderConfig" && starred:
			add("*EncoderConfig")
		case sc.cfg[last] && !sc.own[last]:
			add(last)
		}
	}
	ast.Inspect(fn.fd.Body, func(n ast.Node) bool {
		switch v := n.(type) {
		case *ast.AssignStmt:
			for _, l := range v.Lhs {
				lhs(l)
			}
		case *ast.IncDecStmt:
			lhs(v.X)
		case *ast.CallExpr:
			for _, a := range v.Args {
				x, addr := a, false
				if u, ok := a.(*ast.UnaryExpr); ok && u.Op == token.AND {
					x, addr = u.X, true
				}
				base, sels, _, ok := c08SelChain(x)
				if !ok || len(sels) == 0 || vals[base] {
					continue
				}
				last := sels[len(sels)-1]
				if (last == "EncoderConfig" && !addr) || (addr && sc.cfg[last] && !sc.own[last]) {
					add("arg:" + last)
				}
			}
		}
		return true
	})
	return out
}

func genSharedFacts(repo string, pkgs map[string]*pkgInfo, b *strings.Builder) error {
	p := pkgs["zapcore"]
	if p == nil {
		var err error
		p, err = loadPkg(filepath.Join(repo, "zapcore"))
		if err != nil {
			return err
		}
		pkgs["zapcore"] = p
	}
	cfgF, err := p.structFields("EncoderConfig")
	if err != nil {
		return err
	}
	ownF, err := p.structFields("jsonEncoder")
	if err != nil {
		return err
	}
	sc := &sharedScan{p: p, cfg: map[string]bool{}, own: map[string]bool{}, fns: map[string]*sharedFn{}, mutating: map[string]bool{}}
	for _, f := range cfgF {
		sc.cfg[f] = true
	}
	for _, f := range ownF {
		sc.own[f] = true
	}
	if !sc.own["EncoderConfig"] {
		return fmt.Errorf("shared facts: jsonEncoder no longer embeds *EncoderConfig (fields %v)", ownF)
	}
	isShared := map[string]bool{}
	for _, t := range c08SharedTypes {
		isShared[t] = true
	}
	plain := map[string]bool{}
	for _, f := range c08SharedFuncs {
		plain[f] = true
	}
	var names []string
	for _, f := range p.files {
		for _, d := range f.Decls {
			fd, ok := d.(*ast.FuncDecl)
			if !ok || fd.Body == nil {
				continue
			}
			fn := &sharedFn{fd: fd}
			if t := c08RecvTypeName(fd); t != "" {
				if !isShared[t] {
					continue
				}
				fn.name = t + "." + fd.Name.Name
				if ns := fd.Recv.List[0].Names; len(ns) == 1 {
					fn.recv = ns[0].Name
				}
			} else if plain[fd.Name.Name] {
				fn.name = fd.Name.Name
			} else {
				continue
			}
			if _, dup := sc.fns[fn.name]; dup {
				return fmt.Errorf("shared facts: %s declared twice", fn.name)
			}
			sc.fns[fn.name] = fn
			names = append(names, fn.name)
		}
	}
	for e := range c08SharedEntry {
		if sc.fns[e] == nil {
			return fmt.Errorf("shared facts: entry method %s not found", e)
		}
	}
	for _, f := range c08SharedFuncs {
		if sc.fns[f] == nil {
			return fmt.Errorf("shared facts: function %s not found", f)
		}
	}
	// which methods mutate their receiver: least fixpoint
	for changed := true; changed; {
		changed = false
		for _, n := range names {
			if !sc.mutating[n] && len(sc.recvWrites(sc.fns[n])) > 0 {
				sc.mutating[n] = true
				changed = true
			}
		}
	}
	// sorted by name: the order of declarations is not part of the facts
	for i := range names {
		for j := i + 1; j < len(names); j++ {
			if names[j] < names[i] {
				names[i], names[j] = names[j], names[i]
			}
		}
	}
	ql := func(l []string) string {
		var q []string
		for _, s := range l {
			q = append(q, `"`+strings.ReplaceAll(s, `"`, "'")+`"`)
		}
		return "[" + strings.Join(q, "; ") + "]"
	}
	b.WriteString("\n(* per method of the encoders (and plain function of the per-call path): its assignments through the\n")
	b.WriteString("   *EncoderConfig that a whole logger family shares, and - for the methods that run on a logger's\n")
	b.WriteString("   long-lived encoder (sf_entry) - to the receiver *)\n")
	b.WriteString("Definition shared_facts : list sharedfact := [\n")
	for i, n := range names {
		fn := sc.fns[n]
		var rw []string
		if c08SharedEntry[n] {
			rw = sc.recvWrites(fn)
		}
		entry := "false"
		if c08SharedEntry[n] {
			entry = "true"
		}
		fmt.Fprintf(b, "  {| sf_fn := \"%s\"; sf_entry := %s; sf_cfg_writes := %s; sf_recv_writes := %s |}", n, entry, ql(sc.cfgWrites(fn)), ql(rw))
		if i < len(names)-1 {
			b.WriteString(";")
		}
		b.WriteString("\n")
	}
	b.WriteString("].\n")
	return nil
}

func genPoolFacts(repo, out string) error {
	var b strings.Builder
	b.WriteString("(* GENERATED by gen/c08_poolfacts.go from the zap working tree (zapcore/json_encoder.go,\n")
	b.WriteString("   console_encoder.go, entry.go, error.go, error.go, buffer/pool.go, buffer/buffer.go,\n")
	b.WriteString("   internal/stacktrace/stack.go) on every run of ./check C08.  Data only; do not edit. *)\n")
	b.WriteString("From Coq Require Import List String.\nImport ListNotations.\nFrom Zap Require Import C08.Hygiene.\nOpen Scope string_scope.\n\n")
	b.WriteString("Definition pool_facts : list pstruct := [\n")
	pkgs := map[string]*pkgInfo{}
	for i, sp := range c08Pools {
		p := pkgs[sp.Dir]
		if p == nil {
			var err error
			p, err = loadPkg(filepath.Join(repo, sp.Dir))
			if err != nil {
				return err
			}
			pkgs[sp.Dir] = p
		}
		fields, err := p.structFields(sp.Type)
		if err != nil {
			return err
		}
		isField := map[string]bool{}
		for _, f := range fields {
			isField[f] = true
		}
		nw, err := p.newLiteral(sp.Type)
		if err != nil {
			return err
		}
		gets := p.findSites(sp.Get, false)
		puts := p.findSites(sp.Put, true)
		if len(gets) != 1 {
			return fmt.Errorf("%s: expected exactly one call of %s(), found %d", sp.Name, sp.Get, len(gets))
		}
		if len(puts) != 1 {
			return fmt.Errorf("%s: expected exactly one call of %s(x), found %d", sp.Name, sp.Put, len(puts))
		}
		acq := env{}
		if g := gets[0]; g.x != "" {
			a := &analyzer{p: p, typ: sp.Type}
			acq, _, err = a.block(g.stmts[g.idx+1:], g.x, env{})
			if err != nil {
				return err
			}
		}
		pt := puts[0]
		ra := &analyzer{p: p, typ: sp.Type, release: true}
		rel, _, err := ra.block(pt.stmts[:pt.idx], pt.x, env{})
		if err != nil {
			return err
		}
		for k := range acq {
			if !isField[k] {
				return fmt.Errorf("%s: assignment to unknown field %s", sp.Name, k)
			}
		}
		for k := range rel {
			if !isField[k] {
				return fmt.Errorf("%s: assignment to unknown field %s", sp.Name, k)
			}
		}
		for k := range nw {
			if !isField[k] {
				return fmt.Errorf("%s: New initialises unknown field %s", sp.Name, k)
			}
		}
		q := func(s string) string { return `"` + s + `"` }
		var fl, nl, al, rl []string
		for _, f := range fields {
			fl = append(fl, q(f))
			if v, ok := nw[f]; ok {
				nl = append(nl, fmt.Sprintf("(%s, %s)", q(f), v))
			}
			if v, ok := acq[f]; ok && v != sUnset {
				al = append(al, fmt.Sprintf("(%s, %s)", q(f), v.coq()))
			}
			if v, ok := rel[f]; ok && v != sUnset {
				rl = append(rl, fmt.Sprintf("(%s, %s)", q(f), v.coq()))
			}
		}
		fmt.Fprintf(&b, "  (* %s.%s: Get in %s, Put in %s *)\n", sp.Dir, sp.Type, gets[0].fn.Name.Name, pt.fn.Name.Name)
		fmt.Fprintf(&b, "  {| ps_name := %s;\n     ps_fields := [%s];\n     ps_new := [%s];\n     ps_acquire := [%s];\n     ps_release := [%s] |}",
			q(sp.Name), strings.Join(fl, "; "), strings.Join(nl, "; "), strings.Join(al, "; "), strings.Join(rl, "; "))
		if i < len(c08Pools)-1 {
			b.WriteString(";")
		}
		b.WriteString("\n")
	}
	b.WriteString("].\n")
	if err := genOwnFacts(repo, pkgs, &b); err != nil {
		return err
	}
	if err := genSharedFacts(repo, pkgs, &b); err != nil {
		return err
	}
	if err := genHolderFacts(repo, pkgs, &b); err != nil {
		return err
	}
	path := filepath.Join(out, "PoolFacts.v")
	if old, err := os.ReadFile(path); err == nil && string(old) == b.String() {
		return nil // unchanged: keep the timestamp so that nothing is rebuilt
	}
	if err := os.MkdirAll(out, 0o755); err != nil {
		return err
	}
	return os.WriteFile(path, []byte(b.String()), 0o644)
}

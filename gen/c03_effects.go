package main

// Generator "CtorEffects": field.go array.go error.go exp/zapfield/zapfield.go (+ every other
// non-test file of packages zap and zapfield, for the writers) -> Gen/CtorEffects.v
//
//	ctor_effects    : list (name * list (name * access))   per constructor: the variables OUTSIDE its own frame it touches
//	ctor_calls      : list (name * list name)              per constructor: the tabulated functions it calls or hands on as values
//	written_globals : list name                            package-level variables that some code of the package assigns to,
//	                                                       increments or takes the address of (or that are exported: assignable
//	                                                       from anywhere)
//
// A field constructor (and zap.Any, and the dispatch method anyFieldC[T].Any) is called from arbitrary
// goroutines at the same time -- every SugaredLogger key/value pair goes through zap.Any -- and it is
// specified as a FUNCTION of its arguments.  What makes a Go function a function of its arguments is
// that everything it computes with lives in its own frame: its parameters and its locals.  This
// generator makes that fact explicit.  For every function of the anchored files that returns a Field,
// for zap.Any and for the methods they reach, it lists each access to a variable that is NOT in the
// function's own frame:
//
//	g            a package-level variable of the same package (declared in any file of the package)
//	pkg.Name     a selector on an imported package in value position (a variable or a constant of that
//	             package: the syntax cannot tell; the checker knows which names are constants)
//
// with the kind of access: AWrite for an assignment (g = .., g.f = .., g[i] = .., *g = .., g++, for g = range)
// or an address-of (&g, &g.f: whoever holds the address may write), ARead for every other occurrence.
// Identifier resolution is the go/parser's (ast.Object): a parameter, a local or a named result that
// shadows a package-level name resolves to the local declaration and is not listed.  Calls of
// functions of other packages are not followed (time.Unix, math.Float64bits, stacktrace.Take ..: the
// Constructors generator refuses any call it does not know); calls of package-level functions of the
// same package must be calls of tabulated functions (anything else is an error), and every tabulated
// callee is checked by the same obligation (C03/Effects.v: effects_closedb).
//
// The obligation over this table (C03/Effects.v pure_ctorsb, theorem C03_constructors_pure): no AWrite at
// all, every ARead of a package-level variable is of one that is not in written_globals (a variable
// that is initialised where it is declared and never touched again: _minTimeInt64), every ARead of
// pkg.Name is of a constant (zapcore.XxxType, math.MaxInt64).  What it buys is proved once and for all
// in C03/Effects.v (schedule_free): a function with such a footprint returns, under EVERY
// interleaving with any number of other constructor calls and with arbitrary other code of the
// process, the Field it returns when it runs alone.

import (
	"fmt"
	"go/ast"
	"go/parser"
	"go/token"
	"os"
	"path/filepath"
	"sort"
	"strings"
)

func init() { generators["CtorEffects"] = genC03Effects }

type c03Access struct {
	name  string
	write bool
	pos   string
}

// one package: every non-test file, parsed with object resolution
type c03EffPkg struct {
	name     string // "zap", "zapfield"
	dir      string
	fset     *token.FileSet
	files    map[string]*ast.File // base name -> file
	vars     map[string]bool      // package-level variable names
	exported map[string]bool
	topSpecs map[*ast.ValueSpec]bool
	funcs    map[string]*ast.FuncDecl   // package-level functions
	methods  map[string][]*ast.FuncDecl // method name -> declarations
	types    map[string]bool
	fileOf   map[*ast.FuncDecl]*ast.File
}

func c03EffParsePkg(repo, rel, name string) (*c03EffPkg, error) {
	p := &c03EffPkg{name: name, dir: filepath.Join(repo, rel), fset: token.NewFileSet(), files: map[string]*ast.File{},
		vars: map[string]bool{}, exported: map[string]bool{}, topSpecs: map[*ast.ValueSpec]bool{}, funcs: map[string]*ast.FuncDecl{},
		methods: map[string][]*ast.FuncDecl{}, types: map[string]bool{}, fileOf: map[*ast.FuncDecl]*ast.File{}}
	ents, err := os.ReadDir(p.dir)
	if err != nil {
		return nil, err
	}
	for _, e := range ents {
		n := e.Name()
		if e.IsDir() || !strings.HasSuffix(n, ".go") || strings.HasSuffix(n, "_test.go") {
			continue
		}
		f, err := parser.ParseFile(p.fset, filepath.Join(p.dir, n), nil, 0)
		if err != nil {
			return nil, fmt.Errorf("parse %s: %v", n, err)
		}
		if f.Name.Name != name {
			continue
		}
		p.files[n] = f
		for _, d := range f.Decls {
			switch x := d.(type) {
			case *ast.FuncDecl:
				p.fileOf[x] = f
				if x.Recv == nil {
					p.funcs[x.Name.Name] = x
				} else {
					p.methods[x.Name.Name] = append(p.methods[x.Name.Name], x)
				}
			case *ast.GenDecl:
				for _, sp := range x.Specs {
					switch s := sp.(type) {
					case *ast.ValueSpec:
						if x.Tok != token.VAR {
							continue
						}
						p.topSpecs[s] = true
						for _, id := range s.Names {
							if id.Name != "_" {
								p.vars[id.Name] = true
								if ast.IsExported(id.Name) {
									p.exported[id.Name] = true
								}
							}
						}
					case *ast.TypeSpec:
						p.types[s.Name.Name] = true
					}
				}
			}
		}
	}
	if len(p.files) == 0 {
		return nil, fmt.Errorf("no files of package %s in %s", name, p.dir)
	}
	return p, nil
}

func (p *c03EffPkg) pos(n ast.Node) string {
	q := p.fset.Position(n.Pos())
	return fmt.Sprintf("%s:%d", filepath.Base(q.Filename), q.Line)
}

// does this identifier denote a package-level variable of p?
func (p *c03EffPkg) isPkgVar(id *ast.Ident) bool {
	if id.Obj != nil {
		vs, ok := id.Obj.Decl.(*ast.ValueSpec)
		return ok && id.Obj.Kind == ast.Var && p.topSpecs[vs]
	}
	return p.vars[id.Name] // declared in another file of the package: unresolved within this file
}

// does this identifier denote a package-level function of p?
func (p *c03EffPkg) isPkgFunc(id *ast.Ident) bool {
	if id.Obj != nil {
		fd, ok := id.Obj.Decl.(*ast.FuncDecl)
		return ok && id.Obj.Kind == ast.Fun && fd.Recv == nil
	}
	_, ok := p.funcs[id.Name]
	return ok
}

func (p *c03EffPkg) isPkgType(id *ast.Ident) bool {
	if id.Obj != nil {
		return id.Obj.Kind == ast.Typ
	}
	return p.types[id.Name]
}

// the walker of one function body
type c03EffWalk struct {
	p       *c03EffPkg
	imports map[string]bool
	acc     []c03Access
	calls   []string // package-level functions called or used as values ("zap.X" for zapfield's uses of zap)
	mcalls  []string // names of methods called on something that is not an imported package
	err     error
}

func c03Imports(f *ast.File) map[string]bool {
	m := map[string]bool{}
	for _, im := range f.Imports {
		path := strings.Trim(im.Path.Value, `"`)
		n := path[strings.LastIndex(path, "/")+1:]
		if im.Name != nil {
			n = im.Name.Name
		}
		m[n] = true
	}
	return m
}

func (w *c03EffWalk) isImport(e ast.Expr) (string, bool) {
	id, ok := e.(*ast.Ident)
	if !ok || id.Obj != nil || !w.imports[id.Name] {
		return "", false
	}
	return id.Name, true
}

func (w *c03EffWalk) add(name string, write bool, n ast.Node) {
	w.acc = append(w.acc, c03Access{name, write, w.p.pos(n)})
}

// the variable an lvalue (or the operand of &) is rooted in
func (w *c03EffWalk) lvalue(e ast.Expr) {
	switch x := e.(type) {
	case *ast.Ident:
		if x.Name != "_" && w.p.isPkgVar(x) {
			w.add(x.Name, true, x)
		}
	case *ast.ParenExpr:
		w.lvalue(x.X)
	case *ast.SelectorExpr:
		if im, ok := w.isImport(x.X); ok {
			w.add(im+"."+x.Sel.Name, true, x)
			return
		}
		w.lvalue(x.X)
	case *ast.IndexExpr:
		w.lvalue(x.X)
		w.expr(x.Index)
	case *ast.StarExpr:
		// a store through a pointer held in a variable outside the frame reaches state outside the frame
		w.lvalue(x.X)
	case *ast.CompositeLit: // &T{..}: a fresh object
		w.expr(x)
	default:
		w.expr(e)
	}
}

func (w *c03EffWalk) exprs(l []ast.Expr) {
	for _, e := range l {
		w.expr(e)
	}
}

func (w *c03EffWalk) expr(e ast.Expr) {
	if e == nil || w.err != nil {
		return
	}
	switch x := e.(type) {
	case *ast.Ident:
		switch {
		case x.Name == "_":
		case w.p.isPkgVar(x):
			w.add(x.Name, false, x)
		case w.p.isPkgFunc(x): // a function used as a value: whoever receives it may call it
			w.calls = append(w.calls, x.Name)
		}
	case *ast.BasicLit:
	case *ast.ParenExpr:
		w.expr(x.X)
	case *ast.SelectorExpr:
		if im, ok := w.isImport(x.X); ok {
			if im == "zap" && w.p.name == "zapfield" { // a function of package zap used as a value
				w.calls = append(w.calls, "zap."+x.Sel.Name)
				return
			}
			w.add(im+"."+x.Sel.Name, false, x)
			return
		}
		w.expr(x.X) // a field or a method value of x.X
	case *ast.StarExpr:
		w.expr(x.X)
	case *ast.UnaryExpr:
		if x.Op == token.AND {
			w.lvalue(x.X)
			return
		}
		w.expr(x.X)
	case *ast.BinaryExpr:
		w.expr(x.X)
		w.expr(x.Y)
	case *ast.KeyValueExpr:
		w.expr(x.Key)
		w.expr(x.Value)
	case *ast.CompositeLit:
		// x.Type is a type.  The keys of a struct literal are field names; the syntax cannot tell them
		// from the keys of a literal of a named map type, so a key is followed only when it is not a
		// bare identifier or when it names a package-level variable
		for _, el := range x.Elts {
			if kv, ok := el.(*ast.KeyValueExpr); ok {
				if id, isID := kv.Key.(*ast.Ident); !isID || (id.Obj != nil && w.p.isPkgVar(id)) {
					w.expr(kv.Key)
				}
				w.expr(kv.Value)
				continue
			}
			w.expr(el)
		}
	case *ast.TypeAssertExpr:
		w.expr(x.X) // x.Type is a type
	case *ast.IndexExpr:
		if id, ok := x.X.(*ast.Ident); ok && (w.p.isPkgType(id) || w.p.isPkgFunc(id)) {
			w.expr(x.X) // instantiation of a generic function or type: the index is a type
			return
		}
		w.expr(x.X)
		w.expr(x.Index)
	case *ast.IndexListExpr:
		w.expr(x.X) // always an instantiation
	case *ast.SliceExpr:
		w.expr(x.X)
		w.expr(x.Low)
		w.expr(x.High)
		w.expr(x.Max)
	case *ast.CallExpr:
		w.call(x)
	case *ast.FuncLit:
		w.block(x.Body) // a closure runs with the same variables outside the frame in reach
	case *ast.ArrayType, *ast.MapType, *ast.ChanType, *ast.FuncType, *ast.InterfaceType, *ast.StructType, *ast.Ellipsis:
		// a type
	default:
		w.err = fmt.Errorf("%s: expression form %T not understood by the effects pass", w.p.pos(e), e)
	}
}

func (w *c03EffWalk) call(x *ast.CallExpr) {
	fun := x.Fun
	for {
		if pe, ok := fun.(*ast.ParenExpr); ok {
			fun = pe.X
			continue
		}
		break
	}
	switch f := fun.(type) {
	case *ast.Ident:
		w.expr(f) // a package-level function (recorded as a call), a func-typed variable (a read), a builtin, a type
	case *ast.SelectorExpr:
		if im, ok := w.isImport(f.X); ok {
			if im == "zap" && w.p.name == "zapfield" {
				w.calls = append(w.calls, "zap."+f.Sel.Name)
			}
			// a function (or a conversion to a type) of another package: not followed
		} else {
			w.mcalls = append(w.mcalls, f.Sel.Name)
			w.expr(f.X)
		}
	default:
		w.expr(fun) // instantiations, conversions to composite types, calls of computed functions
	}
	w.exprs(x.Args)
}

func (w *c03EffWalk) block(b *ast.BlockStmt) {
	if b != nil {
		w.stmts(b.List)
	}
}

func (w *c03EffWalk) stmts(l []ast.Stmt) {
	for _, s := range l {
		w.stmt(s)
	}
}

func (w *c03EffWalk) stmt(s ast.Stmt) {
	if s == nil || w.err != nil {
		return
	}
	switch x := s.(type) {
	case *ast.ExprStmt:
		w.expr(x.X)
	case *ast.AssignStmt:
		for _, l := range x.Lhs {
			if x.Tok == token.DEFINE { // := declares (or re-assigns) locals only
				continue
			}
			w.lvalue(l)
			if x.Tok != token.ASSIGN { // op=: also a read
				w.expr(l)
			}
		}
		w.exprs(x.Rhs)
	case *ast.IncDecStmt:
		w.lvalue(x.X)
		w.expr(x.X)
	case *ast.ReturnStmt:
		w.exprs(x.Results)
	case *ast.IfStmt:
		w.stmt(x.Init)
		w.expr(x.Cond)
		w.block(x.Body)
		w.stmt(x.Else)
	case *ast.BlockStmt:
		w.block(x)
	case *ast.ForStmt:
		w.stmt(x.Init)
		w.expr(x.Cond)
		w.stmt(x.Post)
		w.block(x.Body)
	case *ast.RangeStmt:
		if x.Tok == token.ASSIGN {
			if x.Key != nil {
				w.lvalue(x.Key)
			}
			if x.Value != nil {
				w.lvalue(x.Value)
			}
		}
		w.expr(x.X)
		w.block(x.Body)
	case *ast.SwitchStmt:
		w.stmt(x.Init)
		w.expr(x.Tag)
		for _, c := range x.Body.List {
			cc := c.(*ast.CaseClause)
			w.exprs(cc.List)
			w.stmts(cc.Body)
		}
	case *ast.TypeSwitchStmt:
		w.stmt(x.Init)
		switch a := x.Assign.(type) {
		case *ast.ExprStmt:
			w.expr(a.X)
		case *ast.AssignStmt:
			w.exprs(a.Rhs)
		}
		for _, c := range x.Body.List {
			w.stmts(c.(*ast.CaseClause).Body) // the case lists are types
		}
	case *ast.DeclStmt:
		gd, ok := x.Decl.(*ast.GenDecl)
		if !ok {
			w.err = fmt.Errorf("%s: declaration not understood", w.p.pos(x))
			return
		}
		for _, sp := range gd.Specs {
			if vs, ok := sp.(*ast.ValueSpec); ok {
				w.exprs(vs.Values)
			}
		}
	case *ast.DeferStmt:
		w.call(x.Call)
	case *ast.GoStmt:
		w.call(x.Call)
	case *ast.SendStmt:
		w.expr(x.Chan)
		w.expr(x.Value)
	case *ast.LabeledStmt:
		w.stmt(x.Stmt)
	case *ast.SelectStmt:
		for _, c := range x.Body.List {
			cc := c.(*ast.CommClause)
			w.stmt(cc.Comm)
			w.stmts(cc.Body)
		}
	case *ast.BranchStmt, *ast.EmptyStmt:
	default:
		w.err = fmt.Errorf("%s: statement form %T not understood by the effects pass", w.p.pos(s), s)
	}
}

func (p *c03EffPkg) walkFunc(fd *ast.FuncDecl) (*c03EffWalk, error) {
	w := &c03EffWalk{p: p, imports: c03Imports(p.fileOf[fd])}
	w.block(fd.Body)
	return w, w.err
}

// every package-level variable of p that some code of p writes (or hands out the address of), and the
// exported ones, which any importer may assign to
func (p *c03EffPkg) written() (map[string]string, error) {
	out := map[string]string{}
	for n := range p.exported {
		out[n] = "exported"
	}
	visit := func(f *ast.File, body *ast.BlockStmt, extra []ast.Expr) error {
		w := &c03EffWalk{p: p, imports: c03Imports(f)}
		w.block(body)
		w.exprs(extra)
		if w.err != nil {
			return w.err
		}
		for _, a := range w.acc {
			if a.write && !strings.Contains(a.name, ".") {
				if _, ok := out[a.name]; !ok {
					out[a.name] = a.pos
				}
			}
		}
		return nil
	}
	names := make([]string, 0, len(p.files))
	for n := range p.files {
		names = append(names, n)
	}
	sort.Strings(names)
	for _, n := range names {
		f := p.files[n]
		for _, d := range f.Decls {
			switch x := d.(type) {
			case *ast.FuncDecl:
				if err := visit(f, x.Body, nil); err != nil {
					return nil, err
				}
			case *ast.GenDecl: // initialisers (function literals in them run later; &g hands out an address)
				for _, sp := range x.Specs {
					if vs, ok := sp.(*ast.ValueSpec); ok {
						if err := visit(f, nil, vs.Values); err != nil {
							return nil, err
						}
					}
				}
			}
		}
	}
	return out, nil
}

func genC03Effects(repo, out, harness string) error {
	pz, err := c03EffParsePkg(repo, ".", "zap")
	if err != nil {
		return err
	}
	pf, err := c03EffParsePkg(repo, "exp/zapfield", "zapfield")
	if err != nil {
		return err
	}
	type entry struct {
		q     string
		p     *c03EffPkg
		fd    *ast.FuncDecl
		acc   []c03Access
		calls []string
	}
	var entries []*entry
	seen := map[string]bool{}
	var work []*entry
	push := func(q string, p *c03EffPkg, fd *ast.FuncDecl) {
		if seen[q] {
			return
		}
		seen[q] = true
		e := &entry{q: q, p: p, fd: fd}
		entries = append(entries, e)
		work = append(work, e)
	}
	// roots: every function of the anchored files that returns a Field (zap.Any included)
	anchored := []struct {
		p    *c03EffPkg
		file string
	}{{pz, "field.go"}, {pz, "array.go"}, {pz, "error.go"}, {pf, "zapfield.go"}}
	tmp := &c03Src{}
	for _, a := range anchored {
		f := a.p.files[a.file]
		if f == nil {
			return fmt.Errorf("anchored file %s not found", a.file)
		}
		tmp.fset = a.p.fset
		for _, d := range f.Decls {
			fd, ok := d.(*ast.FuncDecl)
			if !ok || fd.Recv != nil || fd.Type.Results == nil || len(fd.Type.Results.List) != 1 || !c03IsFieldType(tmp, fd.Type.Results.List[0].Type) {
				continue
			}
			push(c03Qual(a.p.name, fd.Name.Name), a.p, fd)
		}
	}
	if len(entries) < 20 {
		return fmt.Errorf("only %d constructors found", len(entries))
	}
	for len(work) > 0 {
		e := work[0]
		work = work[1:]
		w, err := e.p.walkFunc(e.fd)
		if err != nil {
			return fmt.Errorf("%s: %v", e.q, err)
		}
		// qualify the package-level variables of zapfield
		for _, a := range w.acc {
			if e.p.name == "zapfield" && !strings.Contains(a.name, ".") {
				a.name = "zapfield." + a.name
			}
			e.acc = append(e.acc, a)
		}
		cs := map[string]bool{}
		for _, c := range w.calls {
			tp, name := e.p, c
			if strings.HasPrefix(c, "zap.") {
				tp, name = pz, strings.TrimPrefix(c, "zap.")
			}
			fd := tp.funcs[name]
			if fd == nil {
				return fmt.Errorf("%s: uses %s, which is not a function of package %s", e.q, c, tp.name)
			}
			q := c03Qual(tp.name, name)
			push(q, tp, fd) // a helper that does not return a Field is tabulated as well
			cs[q] = true
		}
		for _, m := range w.mcalls {
			// a method call cannot be resolved syntactically: every method of that name declared in the package
			for _, md := range e.p.methods[m] {
				q := c03Qual(e.p.name, c03RecvTypeName(md.Recv.List[0].Type)) + "." + m
				q = strings.TrimPrefix(q, "*")
				push(q, e.p, md)
				cs[q] = true
			}
		}
		for q := range cs {
			e.calls = append(e.calls, q)
		}
		sort.Strings(e.calls)
	}
	written := map[string]string{}
	for _, p := range []*c03EffPkg{pz, pf} {
		wr, err := p.written()
		if err != nil {
			return err
		}
		for n, pos := range wr {
			if p.name == "zapfield" {
				n = "zapfield." + n
			}
			written[n] = pos
		}
	}
	var b strings.Builder
	b.WriteString("(* GENERATED by gen/c03_effects.go from field.go array.go error.go exp/zapfield/zapfield.go (accesses) and every\n   non-test file of packages zap and zapfield (writers) -- data only, do not edit *)\n")
	b.WriteString("From Coq Require Import List ZArith String.\nImport ListNotations.\nFrom Zap Require Import C03.Lang.\n\n")
	// human-readable summary of everything that is not a read of a constant-looking name
	said := map[string]bool{}
	for _, e := range entries {
		for _, a := range e.acc {
			if k := fmt.Sprint(e.q, " ", a.name, " ", a.write); said[k] {
				continue
			} else {
				said[k] = true
			}
			if a.write {
				fmt.Fprintf(&b, "(* %s WRITES %s, a variable outside its own frame (%s) *)\n", e.q, a.name, a.pos)
			} else if _, ok := written[a.name]; ok {
				fmt.Fprintf(&b, "(* %s reads %s (%s), which is written at %s *)\n", e.q, a.name, a.pos, written[a.name])
			}
		}
	}
	b.WriteString("Definition ctor_effects : list (name * list (name * access)) := [\n")
	for i, e := range entries {
		sep := ";"
		if i == len(entries)-1 {
			sep = ""
		}
		var as []string
		dedup := map[string]bool{}
		for _, a := range e.acc {
			k := "ARead"
			if a.write {
				k = "AWrite"
			}
			s := "(" + coqStr(a.name) + ", " + k + ")"
			if !dedup[s] {
				dedup[s] = true
				as = append(as, s)
			}
		}
		fmt.Fprintf(&b, "  (%s, [%s])%s\n", coqStr(e.q), strings.Join(as, "; "), sep)
	}
	b.WriteString("].\n\nDefinition ctor_calls : list (name * list name) := [\n")
	for i, e := range entries {
		sep := ";"
		if i == len(entries)-1 {
			sep = ""
		}
		var cs []string
		for _, c := range e.calls {
			cs = append(cs, coqStr(c))
		}
		fmt.Fprintf(&b, "  (%s, [%s])%s\n", coqStr(e.q), strings.Join(cs, "; "), sep)
	}
	b.WriteString("].\n\n")
	var wn []string
	for n := range written {
		wn = append(wn, n)
	}
	sort.Strings(wn)
	b.WriteString("Definition written_globals : list name := [\n")
	for i, n := range wn {
		sep := ";"
		if i == len(wn)-1 {
			sep = ""
		}
		fmt.Fprintf(&b, "  %s%s  (* %s *)\n", coqStr(n), sep, written[n])
	}
	b.WriteString("].\n")
	return c03WriteFile(filepath.Join(out, "CtorEffects.v"), b.String())
}

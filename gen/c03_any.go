package main

// Generator "AnyTable": field.go:Any -> Gen/AnyTable.v
//   any_table  : list (gty * name)    the type switch in source order (default = Reflect, checked)
//   implements : list (gty * iface)     which listed concrete type implements which listed interface
//
// Source shapes recognised (anything else is an error):
//
//	type anyFieldC[T any] func(string, T) Field
//	func (f anyFieldC[T]) Any(key string, val any) Field { v, _ := val.(T); return f(key, v) }
//	func Any(key string, value interface{}) Field {
//	    var c interface{ Any(string, any) Field }       (or the same declaration at package level: see below)
//	    switch value.(type) { case T: c = anyFieldC[T](Ctor) ... default: c = anyFieldC[any](Reflect) }
//	    return c.Any(key, value) }
//
// The implements table is computed here with package reflect for the standard-library and builtin
// types the switch lists (unnamed composite types have empty method sets; a pointer to a named type
// has the methods of the named type).  The harness re-derives it from the real types (including
// zap's interfaces) and reports any difference.

import (
	"fmt"
	"go/ast"
	"go/token"
	"path/filepath"
	"reflect"
	"strings"
	"time"
)

func init() { generators["AnyTable"] = genC03Any }

var c03IfaceMethods = []struct{ coq, method string }{
	{"IObjM", "MarshalLogObject"}, {"IArrM", "MarshalLogArray"}, {"IError", "Error"}, {"IStringer", "String"},
}

// reflect.Type of a listed concrete type, nil if it involves a zap type (Field)
func c03ReflectType(src string) (reflect.Type, bool) {
	base := map[string]reflect.Type{
		"bool": reflect.TypeOf(false), "complex128": reflect.TypeOf(complex128(0)), "complex64": reflect.TypeOf(complex64(0)),
		"float64": reflect.TypeOf(float64(0)), "float32": reflect.TypeOf(float32(0)),
		"int": reflect.TypeOf(int(0)), "int64": reflect.TypeOf(int64(0)), "int32": reflect.TypeOf(int32(0)),
		"int16": reflect.TypeOf(int16(0)), "int8": reflect.TypeOf(int8(0)), "string": reflect.TypeOf(""),
		"uint": reflect.TypeOf(uint(0)), "uint64": reflect.TypeOf(uint64(0)), "uint32": reflect.TypeOf(uint32(0)),
		"uint16": reflect.TypeOf(uint16(0)), "uint8": reflect.TypeOf(uint8(0)), "byte": reflect.TypeOf(byte(0)),
		"uintptr": reflect.TypeOf(uintptr(0)), "time.Time": reflect.TypeOf(time.Time{}), "time.Duration": reflect.TypeOf(time.Duration(0)),
		"error": reflect.TypeOf((*error)(nil)).Elem(),
	}
	switch {
	case strings.HasPrefix(src, "*"):
		t, ok := c03ReflectType(src[1:])
		if !ok {
			return nil, false
		}
		return reflect.PointerTo(t), true
	case strings.HasPrefix(src, "[]"):
		if src == "[]Field" {
			return nil, true // unnamed slice of a struct type: empty method set
		}
		t, ok := c03ReflectType(src[2:])
		if !ok {
			return nil, false
		}
		return reflect.SliceOf(t), true
	}
	t, ok := base[src]
	return t, ok
}

func genC03Any(repo, out, harness string) error {
	s, err := c03Parse(repo, map[string]string{"field.go": "zap"})
	if err != nil {
		return err
	}
	te, _ := s.typeParams("zap", nil)
	m := c03FindMethod(s, "anyFieldC", "Any")
	if m == nil {
		return fmt.Errorf("anyFieldC.Any not found")
	}
	if got, want := s.src(m.Body), "{ v, _ := val.(T) return f(key, v) }"; got != want {
		return s.errf(m, "anyFieldC.Any body changed (want %q)", want)
	}
	fd := c03FindMethod(s, "", "Any")
	if fd == nil {
		return fmt.Errorf("func Any not found")
	}
	// The dispatch variable: `return <c>.Any(key, value)`, <c> an identifier declared as
	// `var <c> interface{ Any(string, any) Field }` -- either by Any's first statement (its own frame) or
	// at package level.  WHERE it lives does not change what a call of Any computes when it runs alone
	// (this table); that it must live in Any's own frame for Any to be a function of its arguments under
	// concurrent calls is the obligation over Gen/CtorEffects.v (gen/c03_effects.go, C03_constructors_pure).
	const cType = "interface{ Any(string, any) Field }"
	body := fd.Body.List
	if len(body) < 2 {
		return s.errf(fd.Body, "Any is not `[var c ..;] switch value.(type) {..}; return c.Any(key, value)`")
	}
	rs, isRet := body[len(body)-1].(*ast.ReturnStmt)
	cv := ""
	if isRet && len(rs.Results) == 1 {
		if ce, ok := rs.Results[0].(*ast.CallExpr); ok {
			if sel, ok := ce.Fun.(*ast.SelectorExpr); ok {
				if id, ok := sel.X.(*ast.Ident); ok && s.src(rs.Results[0]) == id.Name+".Any(key, value)" {
					cv = id.Name
				}
			}
		}
	}
	if cv == "" || cv == "key" || cv == "value" {
		return s.errf(body[len(body)-1], "Any does not end in `return c.Any(key, value)`")
	}
	switch len(body) {
	case 3:
		if s.src(body[0]) != "var "+cv+" "+cType {
			return s.errf(body[0], "Any's first statement is not `var %s %s`", cv, cType)
		}
	case 2:
		found := false
		for _, d := range s.files[0].f.Decls {
			if gd, ok := d.(*ast.GenDecl); ok && gd.Tok == token.VAR {
				for _, sp := range gd.Specs {
					vs := sp.(*ast.ValueSpec)
					if len(vs.Names) == 1 && vs.Names[0].Name == cv {
						if len(vs.Values) != 0 || vs.Type == nil || s.src(vs.Type) != cType {
							return s.errf(vs, "the dispatch variable %s is not declared as `var %s %s`", cv, cv, cType)
						}
						found = true
					}
				}
			}
		}
		if !found {
			return s.errf(fd.Body, "Any dispatches through %s, which is declared neither by Any's first statement nor at package level in field.go", cv)
		}
	default:
		return s.errf(fd.Body, "Any is not `[var c ..;] switch value.(type) {..}; return c.Any(key, value)`")
	}
	ts, ok := body[len(body)-2].(*ast.TypeSwitchStmt)
	if !ok || ts.Init != nil || s.src(ts.Assign) != "value.(type)" {
		return s.errf(body[len(body)-2], "Any's statement before the return is not `switch value.(type)`")
	}
	type entry struct{ goT, coqT, ctor string }
	var tbl []entry
	sawDefault := false
	for i, cc := range ts.Body.List {
		cl := cc.(*ast.CaseClause)
		if len(cl.Body) != 1 {
			return s.errf(cl, "case with several statements")
		}
		body := s.src(cl.Body[0])
		if cl.List == nil {
			if i != len(ts.Body.List)-1 {
				return s.errf(cl, "default is not the last clause")
			}
			if body != cv+" = anyFieldC[any](Reflect)" {
				return s.errf(cl, "default arm is not Reflect")
			}
			sawDefault = true
			continue
		}
		if len(cl.List) != 1 {
			return s.errf(cl, "case with several types")
		}
		goT := s.src(cl.List[0])
		pre := cv + " = anyFieldC[" + goT + "]("
		if !strings.HasPrefix(body, pre) || !strings.HasSuffix(body, ")") {
			return s.errf(cl.Body[0], "arm is not `%s = anyFieldC[%s](Ctor)`", cv, goT)
		}
		ctor := body[len(pre) : len(body)-1]
		if strings.ContainsAny(ctor, " ([.") {
			return s.errf(cl.Body[0], "constructor expression not an identifier")
		}
		ct, err := te.gty(cl.List[0])
		if err != nil {
			return err
		}
		tbl = append(tbl, entry{goT, ct, ctor})
	}
	if !sawDefault {
		return s.errf(ts, "no default arm")
	}
	var b strings.Builder
	b.WriteString("(* GENERATED by gen/c03_any.go from field.go:Any -- data only, do not edit *)\n")
	b.WriteString("From Coq Require Import List ZArith String.\nImport ListNotations.\nFrom Zap Require Import C03.Lang.\n\n")
	b.WriteString("Definition any_table : list (gty * name) := [\n")
	for i, e := range tbl {
		sep := ";"
		if i == len(tbl)-1 {
			sep = ""
		}
		fmt.Fprintf(&b, "  (%s, %s)%s\n", e.coqT, coqStr(e.ctor), sep)
	}
	b.WriteString("].\n\n")
	var impl []string
	for _, e := range tbl {
		if strings.HasPrefix(e.coqT, "(TIface") {
			continue
		}
		rt, ok := c03ReflectType(e.goT)
		if !ok {
			return fmt.Errorf("Any lists the concrete type %s whose method set this generator cannot determine", e.goT)
		}
		if rt == nil {
			continue
		}
		for _, im := range c03IfaceMethods {
			if _, has := rt.MethodByName(im.method); has {
				impl = append(impl, fmt.Sprintf("  (%s, %s)", e.coqT, im.coq))
			}
		}
	}
	b.WriteString("Definition implements : list (gty * iface) := [\n" + strings.Join(impl, ";\n") + "\n].\n")
	return c03WriteFile(filepath.Join(out, "AnyTable.v"), b.String())
}

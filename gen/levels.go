package main

// Generator "Levels": zapcore/level.go + level.go  ->  Gen/Levels.v  (+ harness/gen_c20_levels.go)
//
// Source shapes recognised (anything else is an error):
//
//	type Level int8
//	const ( DebugLevel Level = iota - 1; InfoLevel; ...; _minLevel = DebugLevel; _maxLevel = FatalLevel;
//	        InvalidLevel = _maxLevel + 1 )           integer constant expressions over iota, + - ( ), other constants
//	func (l Level) String() string        { switch l { case C1[, C2]: return "lit" ... default: return fmt.Sprintf("pre%dpost", l) } }
//	func (l Level) CapitalString() string   same shape
//	func (l Level) MarshalText() ([]byte, error) { return []byte(l.String()), nil }
//	func (l *Level) unmarshalText(text []byte) bool {
//	        switch string(text) { case "a"[, "b"]: *l = C ... default: return false }; return true }
//	level.go:  const ( DebugLevel = zapcore.DebugLevel ... )

import (
	"fmt"
	"go/ast"
	"go/parser"
	"go/token"
	"os"
	"path/filepath"
	"strconv"
	"strings"
)

func init() { generators["Levels"] = genLevels }

type constEnv struct {
	vals  map[string]int64
	order []string
}

func evalConst(e ast.Expr, iota int64, env *constEnv) (int64, error) {
	switch x := e.(type) {
	case *ast.BasicLit:
		if x.Kind != token.INT {
			return 0, fmt.Errorf("non-integer literal %s in constant expression", x.Value)
		}
		return strconv.ParseInt(x.Value, 0, 64)
	case *ast.Ident:
		if x.Name == "iota" {
			return iota, nil
		}
		v, ok := env.vals[x.Name]
		if !ok {
			return 0, fmt.Errorf("constant %s used before its definition", x.Name)
		}
		return v, nil
	case *ast.ParenExpr:
		return evalConst(x.X, iota, env)
	case *ast.UnaryExpr:
		v, err := evalConst(x.X, iota, env)
		if err != nil {
			return 0, err
		}
		switch x.Op {
		case token.SUB:
			return -v, nil
		case token.ADD:
			return v, nil
		}
		return 0, fmt.Errorf("unsupported unary operator %s", x.Op)
	case *ast.BinaryExpr:
		a, err := evalConst(x.X, iota, env)
		if err != nil {
			return 0, err
		}
		b, err := evalConst(x.Y, iota, env)
		if err != nil {
			return 0, err
		}
		switch x.Op {
		case token.ADD:
			return a + b, nil
		case token.SUB:
			return a - b, nil
		case token.MUL:
			return a * b, nil
		}
		return 0, fmt.Errorf("unsupported binary operator %s", x.Op)
	case *ast.CallExpr: // conversion Level(expr)
		if id, ok := x.Fun.(*ast.Ident); ok && id.Name == "Level" && len(x.Args) == 1 {
			return evalConst(x.Args[0], iota, env)
		}
	}
	return 0, fmt.Errorf("unsupported constant expression %T", e)
}

// evalConstBlock evaluates one parenthesised const declaration with Go's implicit repetition rule.
func evalConstBlock(d *ast.GenDecl, env *constEnv) error {
	var lastValues []ast.Expr
	for i, s := range d.Specs {
		vs := s.(*ast.ValueSpec)
		values := vs.Values
		if len(values) == 0 {
			values = lastValues
		} else {
			lastValues = values
		}
		if len(values) != len(vs.Names) {
			return fmt.Errorf("const spec %v: %d names, %d values", vs.Names, len(vs.Names), len(values))
		}
		for j, n := range vs.Names {
			v, err := evalConst(values[j], int64(i), env)
			if err != nil {
				return fmt.Errorf("const %s: %v", n.Name, err)
			}
			if n.Name == "_" {
				continue
			}
			env.vals[n.Name] = v
			env.order = append(env.order, n.Name)
		}
	}
	return nil
}

type strCase struct {
	consts []string
	lit    string
}
type nameTable struct {
	cases    []strCase
	pre, suf string // default: fmt.Sprintf(pre + "%d" + suf, l)
}

func recvName(fd *ast.FuncDecl) (name string, ptr bool, typ string) {
	if fd.Recv == nil || len(fd.Recv.List) != 1 {
		return "", false, ""
	}
	f := fd.Recv.List[0]
	if len(f.Names) == 1 {
		name = f.Names[0].Name
	}
	switch t := f.Type.(type) {
	case *ast.Ident:
		return name, false, t.Name
	case *ast.StarExpr:
		if id, ok := t.X.(*ast.Ident); ok {
			return name, true, id.Name
		}
	}
	return name, false, ""
}

func strLit(e ast.Expr) (string, bool) {
	bl, ok := e.(*ast.BasicLit)
	if !ok || bl.Kind != token.STRING {
		return "", false
	}
	s, err := strconv.Unquote(bl.Value)
	return s, err == nil
}

// parseNameSwitch: func (l Level) X() string { switch l { case ...: return "..."; default: return fmt.Sprintf("...%d...", l) } }
func parseNameSwitch(fd *ast.FuncDecl) (*nameTable, error) {
	rn, ptr, typ := recvName(fd)
	if ptr || typ != "Level" || rn == "" {
		return nil, fmt.Errorf("%s: receiver is not (l Level)", fd.Name.Name)
	}
	if fd.Type.Params.NumFields() != 0 {
		return nil, fmt.Errorf("%s: unexpected parameters", fd.Name.Name)
	}
	if len(fd.Body.List) != 1 {
		return nil, fmt.Errorf("%s: body is not a single switch statement (%d statements)", fd.Name.Name, len(fd.Body.List))
	}
	sw, ok := fd.Body.List[0].(*ast.SwitchStmt)
	if !ok || sw.Init != nil {
		return nil, fmt.Errorf("%s: body is not a plain switch", fd.Name.Name)
	}
	if id, ok := sw.Tag.(*ast.Ident); !ok || id.Name != rn {
		return nil, fmt.Errorf("%s: switch tag is not the receiver", fd.Name.Name)
	}
	t := &nameTable{}
	seenDefault := false
	for _, c := range sw.Body.List {
		cc := c.(*ast.CaseClause)
		if len(cc.Body) != 1 {
			return nil, fmt.Errorf("%s: case body is not a single return", fd.Name.Name)
		}
		ret, ok := cc.Body[0].(*ast.ReturnStmt)
		if !ok || len(ret.Results) != 1 {
			return nil, fmt.Errorf("%s: case body is not a single-value return", fd.Name.Name)
		}
		if cc.List == nil { // default
			if seenDefault {
				return nil, fmt.Errorf("%s: two default clauses", fd.Name.Name)
			}
			seenDefault = true
			call, ok := ret.Results[0].(*ast.CallExpr)
			if !ok || len(call.Args) != 2 {
				return nil, fmt.Errorf("%s: default is not fmt.Sprintf(format, l)", fd.Name.Name)
			}
			sel, ok := call.Fun.(*ast.SelectorExpr)
			if !ok || sel.Sel.Name != "Sprintf" {
				return nil, fmt.Errorf("%s: default is not fmt.Sprintf", fd.Name.Name)
			}
			if pk, ok := sel.X.(*ast.Ident); !ok || pk.Name != "fmt" {
				return nil, fmt.Errorf("%s: default is not fmt.Sprintf", fd.Name.Name)
			}
			format, ok := strLit(call.Args[0])
			if !ok {
				return nil, fmt.Errorf("%s: Sprintf format is not a literal", fd.Name.Name)
			}
			if id, ok := call.Args[1].(*ast.Ident); !ok || id.Name != rn {
				return nil, fmt.Errorf("%s: Sprintf argument is not the receiver", fd.Name.Name)
			}
			parts := strings.Split(format, "%d")
			if len(parts) != 2 || strings.Contains(parts[0]+parts[1], "%") {
				return nil, fmt.Errorf("%s: format %q is not of the form pre%%dpost", fd.Name.Name, format)
			}
			t.pre, t.suf = parts[0], parts[1]
			continue
		}
		sc := strCase{}
		for _, e := range cc.List {
			id, ok := e.(*ast.Ident)
			if !ok {
				return nil, fmt.Errorf("%s: case expression is not a constant name", fd.Name.Name)
			}
			sc.consts = append(sc.consts, id.Name)
		}
		lit, ok := strLit(ret.Results[0])
		if !ok {
			return nil, fmt.Errorf("%s: case does not return a string literal", fd.Name.Name)
		}
		sc.lit = lit
		t.cases = append(t.cases, sc)
	}
	if !seenDefault {
		return nil, fmt.Errorf("%s: no default clause", fd.Name.Name)
	}
	return t, nil
}

type textCase struct {
	lits []string
	cnst string
}

// parseUnmarshalSwitch: func (l *Level) unmarshalText(text []byte) bool
func parseUnmarshalSwitch(fd *ast.FuncDecl) ([]textCase, error) {
	rn, ptr, typ := recvName(fd)
	if !ptr || typ != "Level" || rn == "" {
		return nil, fmt.Errorf("unmarshalText: receiver is not (l *Level)")
	}
	if fd.Type.Params.NumFields() != 1 || len(fd.Type.Params.List[0].Names) != 1 {
		return nil, fmt.Errorf("unmarshalText: expected one parameter")
	}
	pn := fd.Type.Params.List[0].Names[0].Name
	if len(fd.Body.List) != 2 {
		return nil, fmt.Errorf("unmarshalText: body is not `switch ...; return true` (%d statements)", len(fd.Body.List))
	}
	sw, ok := fd.Body.List[0].(*ast.SwitchStmt)
	if !ok || sw.Init != nil {
		return nil, fmt.Errorf("unmarshalText: first statement is not a plain switch")
	}
	conv, ok := sw.Tag.(*ast.CallExpr)
	if !ok || len(conv.Args) != 1 {
		return nil, fmt.Errorf("unmarshalText: switch tag is not string(%s)", pn)
	}
	if f, ok := conv.Fun.(*ast.Ident); !ok || f.Name != "string" {
		return nil, fmt.Errorf("unmarshalText: switch tag is not string(%s)", pn)
	}
	if a, ok := conv.Args[0].(*ast.Ident); !ok || a.Name != pn {
		return nil, fmt.Errorf("unmarshalText: switch tag is not string(%s)", pn)
	}
	ret, ok := fd.Body.List[1].(*ast.ReturnStmt)
	if !ok || len(ret.Results) != 1 {
		return nil, fmt.Errorf("unmarshalText: last statement is not `return true`")
	}
	if id, ok := ret.Results[0].(*ast.Ident); !ok || id.Name != "true" {
		return nil, fmt.Errorf("unmarshalText: last statement is not `return true`")
	}
	var out []textCase
	seenDefault := false
	for _, c := range sw.Body.List {
		cc := c.(*ast.CaseClause)
		if cc.List == nil {
			seenDefault = true
			if len(cc.Body) != 1 {
				return nil, fmt.Errorf("unmarshalText: default is not `return false`")
			}
			r, ok := cc.Body[0].(*ast.ReturnStmt)
			if !ok || len(r.Results) != 1 {
				return nil, fmt.Errorf("unmarshalText: default is not `return false`")
			}
			if id, ok := r.Results[0].(*ast.Ident); !ok || id.Name != "false" {
				return nil, fmt.Errorf("unmarshalText: default is not `return false`")
			}
			continue
		}
		tc := textCase{}
		for _, e := range cc.List {
			s, ok := strLit(e)
			if !ok {
				return nil, fmt.Errorf("unmarshalText: case expression is not a string literal")
			}
			tc.lits = append(tc.lits, s)
		}
		if len(cc.Body) != 1 {
			return nil, fmt.Errorf("unmarshalText: case %q body is not a single assignment", tc.lits)
		}
		as, ok := cc.Body[0].(*ast.AssignStmt)
		if !ok || as.Tok != token.ASSIGN || len(as.Lhs) != 1 || len(as.Rhs) != 1 {
			return nil, fmt.Errorf("unmarshalText: case %q body is not `*%s = Const`", tc.lits, rn)
		}
		st, ok := as.Lhs[0].(*ast.StarExpr)
		if !ok {
			return nil, fmt.Errorf("unmarshalText: case %q body is not `*%s = Const`", tc.lits, rn)
		}
		if id, ok := st.X.(*ast.Ident); !ok || id.Name != rn {
			return nil, fmt.Errorf("unmarshalText: case %q assigns to something other than *%s", tc.lits, rn)
		}
		id, ok := as.Rhs[0].(*ast.Ident)
		if !ok {
			return nil, fmt.Errorf("unmarshalText: case %q does not assign a named constant", tc.lits)
		}
		tc.cnst = id.Name
		out = append(out, tc)
	}
	if !seenDefault {
		return nil, fmt.Errorf("unmarshalText: no default clause")
	}
	return out, nil
}

// checkMarshalText: return []byte(l.String()), nil
func checkMarshalText(fd *ast.FuncDecl) (string, error) {
	rn, ptr, typ := recvName(fd)
	bad := fmt.Errorf("MarshalText: body is not `return []byte(%s.<Method>()), nil`", rn)
	if ptr || typ != "Level" || len(fd.Body.List) != 1 {
		return "", bad
	}
	ret, ok := fd.Body.List[0].(*ast.ReturnStmt)
	if !ok || len(ret.Results) != 2 {
		return "", bad
	}
	if id, ok := ret.Results[1].(*ast.Ident); !ok || id.Name != "nil" {
		return "", bad
	}
	conv, ok := ret.Results[0].(*ast.CallExpr)
	if !ok || len(conv.Args) != 1 {
		return "", bad
	}
	if at, ok := conv.Fun.(*ast.ArrayType); !ok || at.Len != nil {
		return "", bad
	} else if el, ok := at.Elt.(*ast.Ident); !ok || el.Name != "byte" {
		return "", bad
	}
	call, ok := conv.Args[0].(*ast.CallExpr)
	if !ok || len(call.Args) != 0 {
		return "", bad
	}
	sel, ok := call.Fun.(*ast.SelectorExpr)
	if !ok {
		return "", bad
	}
	if x, ok := sel.X.(*ast.Ident); !ok || x.Name != rn {
		return "", bad
	}
	return sel.Sel.Name, nil
}

func coqBytes(s string) string {
	if len(s) == 0 {
		return "[]"
	}
	var b strings.Builder
	b.WriteByte('[')
	for i := 0; i < len(s); i++ {
		if i > 0 {
			b.WriteString("; ")
		}
		fmt.Fprintf(&b, "x%02x", s[i])
	}
	b.WriteByte(']')
	return b.String()
}

func coqComment(s string) string {
	var b strings.Builder
	for i := 0; i < len(s); i++ {
		c := s[i]
		if c >= 0x20 && c < 0x7f && c != '*' && c != '(' && c != ')' && c != '"' {
			b.WriteByte(c)
		} else {
			fmt.Fprintf(&b, "\\x%02x", c)
		}
	}
	return b.String()
}

func lvCoqZ(v int64) string {
	if v < 0 {
		return fmt.Sprintf("(%d)", v)
	}
	return fmt.Sprint(v)
}

func genLevels(repo, out, harness string) error {
	fset := token.NewFileSet()
	path := filepath.Join(repo, "zapcore", "level.go")
	f, err := parser.ParseFile(fset, path, nil, parser.SkipObjectResolution)
	if err != nil {
		return err
	}
	env := &constEnv{vals: map[string]int64{}}
	var levelBlock []string // constants of the block declaring the level constants, in order
	var typeOK bool
	funcs := map[string]*ast.FuncDecl{}
	for _, d := range f.Decls {
		switch x := d.(type) {
		case *ast.GenDecl:
			if x.Tok == token.TYPE {
				for _, s := range x.Specs {
					ts := s.(*ast.TypeSpec)
					if ts.Name.Name == "Level" {
						if id, ok := ts.Type.(*ast.Ident); !ok || id.Name != "int8" || ts.Assign.IsValid() {
							return fmt.Errorf("type Level is no longer declared as int8")
						}
						typeOK = true
					}
				}
			}
			if x.Tok == token.CONST {
				declares := false
				for _, s := range x.Specs {
					vs := s.(*ast.ValueSpec)
					if id, ok := vs.Type.(*ast.Ident); ok && id.Name == "Level" {
						declares = true
					}
				}
				if !declares {
					continue
				}
				if levelBlock != nil {
					return fmt.Errorf("more than one const block declares Level constants")
				}
				before := len(env.order)
				if err := evalConstBlock(x, env); err != nil {
					return err
				}
				levelBlock = env.order[before:]
			}
		case *ast.FuncDecl:
			if _, _, typ := recvName(x); typ == "Level" {
				if _, dup := funcs[x.Name.Name]; dup {
					return fmt.Errorf("method %s declared twice", x.Name.Name)
				}
				funcs[x.Name.Name] = x
			}
		}
	}
	if !typeOK {
		return fmt.Errorf("type Level not found in %s", path)
	}
	if levelBlock == nil {
		return fmt.Errorf("no const block declaring Level constants found")
	}
	for _, need := range []string{"_minLevel", "_maxLevel", "InvalidLevel"} {
		if _, ok := env.vals[need]; !ok {
			return fmt.Errorf("constant %s not found", need)
		}
	}
	for _, need := range []string{"String", "CapitalString", "MarshalText", "unmarshalText", "UnmarshalText", "Set"} {
		if funcs[need] == nil {
			return fmt.Errorf("method Level.%s not found", need)
		}
	}
	strT, err := parseNameSwitch(funcs["String"])
	if err != nil {
		return err
	}
	capT, err := parseNameSwitch(funcs["CapitalString"])
	if err != nil {
		return err
	}
	marshalVia, err := checkMarshalText(funcs["MarshalText"])
	if err != nil {
		return err
	}
	um, err := parseUnmarshalSwitch(funcs["unmarshalText"])
	if err != nil {
		return err
	}
	resolve := func(name string) (int64, error) {
		v, ok := env.vals[name]
		if !ok {
			return 0, fmt.Errorf("switch case names unknown constant %s", name)
		}
		return v, nil
	}

	// root package aliases:  DebugLevel = zapcore.DebugLevel
	rootPath := filepath.Join(repo, "level.go")
	rf, err := parser.ParseFile(fset, rootPath, nil, parser.SkipObjectResolution)
	if err != nil {
		return err
	}
	type alias struct{ name, target string }
	var aliases []alias
	for _, d := range rf.Decls {
		gd, ok := d.(*ast.GenDecl)
		if !ok || gd.Tok != token.CONST {
			continue
		}
		for _, s := range gd.Specs {
			vs := s.(*ast.ValueSpec)
			for j, n := range vs.Names {
				if j >= len(vs.Values) {
					return fmt.Errorf("level.go: const %s has no value", n.Name)
				}
				sel, ok := vs.Values[j].(*ast.SelectorExpr)
				if !ok {
					return fmt.Errorf("level.go: const %s is not of the form zapcore.X", n.Name)
				}
				if pk, ok := sel.X.(*ast.Ident); !ok || pk.Name != "zapcore" {
					return fmt.Errorf("level.go: const %s is not of the form zapcore.X", n.Name)
				}
				if _, ok := env.vals[sel.Sel.Name]; !ok {
					return fmt.Errorf("level.go: const %s refers to unknown zapcore.%s", n.Name, sel.Sel.Name)
				}
				aliases = append(aliases, alias{n.Name, sel.Sel.Name})
			}
		}
	}
	if len(aliases) == 0 {
		return fmt.Errorf("level.go: no level constant aliases found")
	}

	var w strings.Builder
	w.WriteString("(* GENERATED by gen/levels.go from zapcore/level.go and level.go -- data only, do not edit.\n")
	w.WriteString("   Regenerated from the repository's working tree on every run of ./check C20. *)\n")
	w.WriteString("From Coq Require Import List ZArith.\nFrom Coq.Strings Require Import Byte.\nImport ListNotations.\nOpen Scope Z_scope.\n\n")
	w.WriteString("(* type Level int8 *)\nDefinition level_bits : Z := 8.\n\n")
	w.WriteString("(* the constants of the const block, in declaration order (name, value) *)\n")
	w.WriteString("Definition level_consts : list (list byte * Z) := [\n")
	for i, n := range levelBlock {
		sep := ";"
		if i == len(levelBlock)-1 {
			sep = ""
		}
		fmt.Fprintf(&w, "  (%s, %s)%s (* %s *)\n", coqBytes(n), lvCoqZ(env.vals[n]), sep, coqComment(n))
	}
	w.WriteString("].\n")
	fmt.Fprintf(&w, "Definition min_level : Z := %s.\nDefinition max_level : Z := %s.\nDefinition invalid_level : Z := %s.\n\n",
		lvCoqZ(env.vals["_minLevel"]), lvCoqZ(env.vals["_maxLevel"]), lvCoqZ(env.vals["InvalidLevel"]))
	writeNames := func(name, goName string, t *nameTable) error {
		fmt.Fprintf(&w, "(* Level.%s: switch cases in source order, then the default fmt.Sprintf(pre ++ %%d ++ post, l) *)\n", goName)
		fmt.Fprintf(&w, "Definition %s_table : list (Z * list byte) := [\n", name)
		var rows []string
		for _, c := range t.cases {
			for _, cn := range c.consts {
				v, err := resolve(cn)
				if err != nil {
					return err
				}
				rows = append(rows, fmt.Sprintf("  (%s, %s)", lvCoqZ(v), coqBytes(c.lit))+"\x00"+fmt.Sprintf(" (* %s -> %s *)", coqComment(cn), coqComment(c.lit)))
			}
		}
		for i, r := range rows {
			p := strings.SplitN(r, "\x00", 2)
			sep := ";"
			if i == len(rows)-1 {
				sep = ""
			}
			w.WriteString(p[0] + sep + p[1] + "\n")
		}
		w.WriteString("].\n")
		fmt.Fprintf(&w, "Definition %s_default_pre : list byte := %s. (* %s *)\n", name, coqBytes(t.pre), coqComment(t.pre))
		fmt.Fprintf(&w, "Definition %s_default_post : list byte := %s. (* %s *)\n\n", name, coqBytes(t.suf), coqComment(t.suf))
		return nil
	}
	if err := writeNames("string", "String", strT); err != nil {
		return err
	}
	if err := writeNames("capital", "CapitalString", capT); err != nil {
		return err
	}
	fmt.Fprintf(&w, "(* Level.MarshalText returns []byte(l.<this method>()) *)\nDefinition marshal_text_via : list byte := %s. (* %s *)\n\n", coqBytes(marshalVia), coqComment(marshalVia))
	w.WriteString("(* Level.unmarshalText: `switch string(text)` cases in source order (text, level assigned); default returns false *)\n")
	w.WriteString("Definition unmarshal_table : list (list byte * Z) := [\n")
	var urows [][2]string
	for _, c := range um {
		v, err := resolve(c.cnst)
		if err != nil {
			return err
		}
		for _, l := range c.lits {
			urows = append(urows, [2]string{fmt.Sprintf("  (%s, %s)", coqBytes(l), lvCoqZ(v)), fmt.Sprintf(" (* %s -> %s *)", coqComment(l), coqComment(c.cnst))})
		}
	}
	for i, r := range urows {
		sep := ";"
		if i == len(urows)-1 {
			sep = ""
		}
		w.WriteString(r[0] + sep + r[1] + "\n")
	}
	w.WriteString("].\n\n")
	w.WriteString("(* package zap, level.go: const X = zapcore.Y as (X, Y) *)\n")
	w.WriteString("Definition root_aliases : list (list byte * list byte) := [\n")
	for i, a := range aliases {
		sep := ";"
		if i == len(aliases)-1 {
			sep = ""
		}
		fmt.Fprintf(&w, "  (%s, %s)%s (* %s = zapcore.%s *)\n", coqBytes(a.name), coqBytes(a.target), sep, coqComment(a.name), coqComment(a.target))
	}
	w.WriteString("].\n")
	if err := os.MkdirAll(out, 0o755); err != nil {
		return err
	}
	if err := writeIfChanged(filepath.Join(out, "Levels.v"), w.String()); err != nil {
		return err
	}

	// every text of the three tables, for the harness's directed cases (so that an
	// alias added to the source is exercised on the real code in the same run)
	seen := map[string]bool{}
	var texts []string
	add := func(s string) {
		if !seen[s] {
			seen[s] = true
			texts = append(texts, s)
		}
	}
	for _, c := range um {
		for _, l := range c.lits {
			add(l)
		}
	}
	for _, c := range strT.cases {
		add(c.lit)
	}
	for _, c := range capT.cases {
		add(c.lit)
	}
	var g strings.Builder
	g.WriteString("// Code generated by gen/levels.go from zapcore/level.go; DO NOT EDIT.\n\npackage main\n\n")
	g.WriteString("// every string literal of Level.String, Level.CapitalString and Level.unmarshalText\nvar genC20Texts = []string{\n")
	for _, t := range texts {
		fmt.Fprintf(&g, "\t%q,\n", t)
	}
	g.WriteString("}\n")
	if st, err := os.Stat(harness); err == nil && st.IsDir() {
		if err := writeIfChanged(filepath.Join(harness, "gen_c20_levels.go"), g.String()); err != nil {
			return err
		}
	}
	return nil
}

// writeIfChanged keeps mtimes stable (so that make does not rebuild on an unchanged tree).
func writeIfChanged(path, content string) error {
	old, err := os.ReadFile(path)
	if err == nil && string(old) == content {
		return nil
	}
	return os.WriteFile(path, []byte(content), 0o644)
}

// C09: access summaries.  For every method of every shared type anchored by
// property C09 the extractor produces a structured summary
//
//	Acc f R|W · Atomic f · Crit l (excl|shared) body · Once o body · Spawn body ·
//	Recv c · Close c
//
// in program order (both branches of a conditional one after the other, a loop
// body once).  Methods of the receiver called on the receiver are inlined, so
// lock context is not lost; a call through a field (an interface or another
// object) is a read of that field; the methods promoted from an embedded
// interface field F are summarised as "Acc F R".  Everything outside these
// shapes is an error (the check then reports a broken obligation).
//
// A slice-typed field f has a second location "T.f[]", its backing array (elements and
// spare capacity), which a derived object that copied the slice header shares with the
// object it was derived from: every read of f is also a read of f[];
// append(x.f, ...) and append(x.f[a:b], ...) (anything but a three-index slice, which
// leaves no capacity to write into), x.f[i] = v, copy(x.f, ...), clear(x.f) are writes
// of f[], for x the receiver or a local struct copy of it (c := *recv) whose field f has
// not been reassigned.  A slice handed to another function or copied into a local
// variable is out of sight.
package main

import (
	"bytes"
	"fmt"
	"go/ast"
	"go/parser"
	"go/token"
	"path/filepath"
	"sort"
	"strings"
)

func init() { register2("AccessFacts", genAccessFacts) }

type c09Spec struct {
	dir     string
	name    string
	globals []string          // pseudo-type made of package-level variables
	funcs   []string          // its "methods" (package-level functions)
	extra   []string          // unexported methods that are entry points from other types
	exclude map[string]string // methods outside the documented concurrent surface -> why
	// fields whose referent is not safe for concurrent use and which the type exists to
	// serialise: a method call through such a field is also a write of the pseudo-location "f->"
	serialises []string
}

var c09Specs = []c09Spec{
	{dir: "zapcore", name: "lazyWithCore"},
	{dir: "zapcore", name: "sampler"},
	{dir: "zapcore", name: "counter"},
	{dir: "zapcore", name: "BufferedWriteSyncer", serialises: []string{"WS", "writer"}},
	{dir: "zapcore", name: "lockedWriteSyncer", serialises: []string{"ws"}},
	{dir: "zapcore", name: "hooked"},
	{dir: "zapcore", name: "multiCore"},
	{dir: "zapcore", name: "levelFilterCore"},
	{dir: "zapcore", name: "ioCore"},
	{dir: "zapcore", name: "multiWriteSyncer"},
	{dir: "zaptest/observer", name: "ObservedLogs", extra: []string{"add"}},
	{dir: "zaptest/observer", name: "contextObserver"},
	{dir: ".", name: "AtomicLevel", exclude: map[string]string{
		"UnmarshalText": "pointer-receiver initialiser of a zero AtomicLevel (allocates l when nil); on a constructed level it only calls SetLevel"}},
	{dir: ".", name: "globals", globals: []string{"_globalMu", "_globalL", "_globalS"}, funcs: []string{"L", "S", "ReplaceGlobals"}},
	{dir: ".", name: "Logger"},
	{dir: ".", name: "SugaredLogger"},
	{dir: "exp/zapslog", name: "Handler"},
	{dir: "internal/pool", name: "Pool"},
}

// class (d) fields (locked initialisation + spawned reader): not covered by the
// proved disciplines, listed in the evidence as covered by the -race runs only
var c09Exempt = []string{"BufferedWriteSyncer.ticker", "BufferedWriteSyncer.stop", "BufferedWriteSyncer.done"}

type act struct {
	k    byte // a acc, t atomic, c crit, o once, s spawn, r recv, x close
	id   int
	w    bool // acc: write; crit: exclusive
	body []act
}

const (
	fPlain = iota
	fLock
	fRWLock
	fOnce
	fAtomic
	fPAtomic
	fChan
	fIface
	fSafe // internally synchronised (sync.Pool)
)

type fieldInfo struct {
	name    string
	kind    int
	id      int // location (plain, atomic, the pointer of patomic, the chan variable) / lock / once
	id2     int // pointee of patomic, channel of chan, referent of a serialised field
	serial  bool
	methods []string
	hasArr  bool // slice-typed plain field
	arr     int  // its backing array "T.f[]"
}

type c09ids struct {
	names []string
}

func (a *c09ids) alloc(name string) int { a.names = append(a.names, name); return len(a.names) - 1 }

type c09pkg struct {
	files []*ast.File
}

type c09x struct {
	repo    string
	fset    *token.FileSet
	pkgs    map[string]*c09pkg
	ids     *c09ids
	errs    []string
	spec    c09Spec
	fields  map[string]*fieldInfo
	forder  []string
	methods map[string]*ast.FuncDecl
	isSlice bool
	elems   int
	recv    string
	stack   []string
	defers  [][]act
	pos     token.Pos
	cond    int             // nesting depth of conditional / loop bodies
	alias   map[string]bool // local variables that are plain copies of the receiver pointer
	// local struct copies of the receiver (c := *recv): c.f shares the backing array of recv.f
	// until c.f is assigned; valias[c][f] = c.f was reassigned
	valias map[string]map[string]bool
}

func (x *c09x) errf(format string, a ...interface{}) {
	p := ""
	if x.pos.IsValid() {
		pp := x.fset.Position(x.pos)
		p = fmt.Sprintf("%s:%d: ", filepath.Base(pp.Filename), pp.Line)
	}
	x.errs = append(x.errs, p+x.spec.name+": "+fmt.Sprintf(format, a...))
}

func c09load(fset *token.FileSet, repo, dir string) (*c09pkg, error) {
	matches, err := filepath.Glob(filepath.Join(repo, dir, "*.go"))
	if err != nil {
		return nil, err
	}
	sort.Strings(matches)
	p := &c09pkg{}
	for _, f := range matches {
		b := filepath.Base(f)
		if strings.HasSuffix(b, "_test.go") || strings.HasPrefix(b, "verif_") {
			continue
		}
		af, err := parser.ParseFile(fset, f, nil, parser.ParseComments)
		if err != nil {
			return nil, err
		}
		p.files = append(p.files, af)
	}
	if len(p.files) == 0 {
		return nil, fmt.Errorf("no Go files in %s", filepath.Join(repo, dir))
	}
	return p, nil
}

func (p *c09pkg) typeSpec(name string) *ast.TypeSpec {
	for _, f := range p.files {
		for _, d := range f.Decls {
			gd, ok := d.(*ast.GenDecl)
			if !ok || gd.Tok != token.TYPE {
				continue
			}
			for _, s := range gd.Specs {
				ts := s.(*ast.TypeSpec)
				if ts.Name.Name == name {
					return ts
				}
			}
		}
	}
	return nil
}

func recvTypeName(fd *ast.FuncDecl) string {
	if fd.Recv == nil || len(fd.Recv.List) != 1 {
		return ""
	}
	t := fd.Recv.List[0].Type
	if s, ok := t.(*ast.StarExpr); ok {
		t = s.X
	}
	if ix, ok := t.(*ast.IndexExpr); ok { // generic receiver Pool[T]
		t = ix.X
	}
	if id, ok := t.(*ast.Ident); ok {
		return id.Name
	}
	return ""
}

func (p *c09pkg) methodsOf(name string) map[string]*ast.FuncDecl {
	m := map[string]*ast.FuncDecl{}
	for _, f := range p.files {
		for _, d := range f.Decls {
			if fd, ok := d.(*ast.FuncDecl); ok && fd.Body != nil && recvTypeName(fd) == name {
				m[fd.Name.Name] = fd
			}
		}
	}
	return m
}

func (p *c09pkg) funcDecl(name string) *ast.FuncDecl {
	for _, f := range p.files {
		for _, d := range f.Decls {
			if fd, ok := d.(*ast.FuncDecl); ok && fd.Recv == nil && fd.Name.Name == name {
				return fd
			}
		}
	}
	return nil
}

func selName(e ast.Expr) string {
	if s, ok := e.(*ast.SelectorExpr); ok {
		if id, ok := s.X.(*ast.Ident); ok {
			return id.Name + "." + s.Sel.Name
		}
	}
	return ""
}

// method set of an interface type named by expression e as seen from package dir
func (x *c09x) ifaceMethods(dir string, e ast.Expr, depth int) ([]string, bool) {
	if depth > 6 {
		return nil, false
	}
	switch t := e.(type) {
	case *ast.Ident:
		p := x.pkgs[dir]
		if p == nil {
			return nil, false
		}
		ts := p.typeSpec(t.Name)
		if ts == nil {
			return nil, false
		}
		it, ok := ts.Type.(*ast.InterfaceType)
		if !ok {
			return nil, false
		}
		var out []string
		for _, m := range it.Methods.List {
			if len(m.Names) > 0 {
				for _, n := range m.Names {
					out = append(out, n.Name)
				}
				continue
			}
			sub, ok := x.ifaceMethods(dir, m.Type, depth+1)
			if !ok {
				return nil, false
			}
			out = append(out, sub...)
		}
		return out, true
	case *ast.SelectorExpr:
		switch selName(t) {
		case "io.Writer":
			return []string{"Write"}, true
		case "zapcore.LevelEnabler", "zapcore.Core", "zapcore.WriteSyncer":
			return x.ifaceMethods("zapcore", t.Sel, depth+1)
		}
	}
	return nil, false
}

func (x *c09x) classify(dir string, e ast.Expr) (kind int, methods []string) {
	switch selName(e) {
	case "sync.Mutex":
		return fLock, nil
	case "sync.RWMutex":
		return fRWLock, nil
	case "sync.Once":
		return fOnce, nil
	case "sync.Pool":
		return fSafe, nil
	}
	if n := selName(e); strings.HasPrefix(n, "atomic.") {
		return fAtomic, nil
	}
	if s, ok := e.(*ast.StarExpr); ok && strings.HasPrefix(selName(s.X), "atomic.") {
		return fPAtomic, nil
	}
	if _, ok := e.(*ast.ChanType); ok {
		return fChan, nil
	}
	if ms, ok := x.ifaceMethods(dir, e, 0); ok {
		return fIface, ms
	}
	return fPlain, nil
}

func (x *c09x) addField(name string, kind int, methods []string) {
	fi := &fieldInfo{name: name, kind: kind, methods: methods}
	q := x.spec.name + "." + name
	switch kind {
	case fPAtomic:
		fi.id = x.ids.alloc(q)
		fi.id2 = x.ids.alloc(q + "*")
	case fChan:
		fi.id = x.ids.alloc(q)
		fi.id2 = x.ids.alloc(q + "(chan)")
	default:
		fi.id = x.ids.alloc(q)
		for _, sname := range x.spec.serialises {
			if sname == name {
				fi.id2 = x.ids.alloc(q + "->")
				fi.serial = true
			}
		}
	}
	x.fields[name] = fi
	x.forder = append(x.forder, name)
}

func embeddedName(e ast.Expr) string {
	switch t := e.(type) {
	case *ast.Ident:
		return t.Name
	case *ast.SelectorExpr:
		return t.Sel.Name
	case *ast.StarExpr:
		return embeddedName(t.X)
	}
	return ""
}

// ---------------------------------------------------------------- expressions

func (x *c09x) isRecv(e ast.Expr) bool {
	if p, ok := e.(*ast.ParenExpr); ok {
		return x.isRecv(p.X)
	}
	id, ok := e.(*ast.Ident)
	if !ok || len(x.spec.globals) > 0 || x.recv == "" {
		return false
	}
	return id.Name == x.recv || x.alias[id.Name]
}

// the field of the shared object denoted by e, if any
func (x *c09x) fieldOf(e ast.Expr) *fieldInfo {
	if len(x.spec.globals) > 0 {
		if id, ok := e.(*ast.Ident); ok {
			return x.fields[id.Name]
		}
		return nil
	}
	if s, ok := e.(*ast.SelectorExpr); ok && x.isRecv(s.X) {
		if f, ok := x.fields[s.Sel.Name]; ok {
			return f
		}
	}
	return nil
}

// the slice field whose backing array e denotes with capacity to write into: x.f, x.f[a:b]
// (not x.f[a:b:c]), for x the receiver or a local struct copy of it whose f was not reassigned
func (x *c09x) backing(e ast.Expr) *fieldInfo {
	switch t := e.(type) {
	case *ast.ParenExpr:
		return x.backing(t.X)
	case *ast.SliceExpr:
		if t.Slice3 {
			return nil
		}
		return x.backing(t.X)
	case *ast.SelectorExpr:
		if f := x.fieldOf(t); f != nil {
			if f.hasArr {
				return f
			}
			return nil
		}
		if id, ok := t.X.(*ast.Ident); ok {
			if re, ok := x.valias[id.Name]; ok && !re[t.Sel.Name] {
				if f, ok := x.fields[t.Sel.Name]; ok && f.hasArr {
					return f
				}
			}
		}
	}
	return nil
}

func (x *c09x) read(f *fieldInfo) []act {
	switch f.kind {
	case fPlain, fIface, fPAtomic, fChan:
		if f.hasArr {
			return []act{{k: 'a', id: f.id}, {k: 'a', id: f.arr}}
		}
		return []act{{k: 'a', id: f.id}}
	case fAtomic, fSafe:
		return []act{{k: 't', id: f.id}}
	}
	x.errf("field %s (a lock or once) used as a value", f.name)
	return nil
}

func (x *c09x) exprs(es []ast.Expr) []act {
	var out []act
	for _, e := range es {
		out = append(out, x.ex(e)...)
	}
	return out
}

func (x *c09x) ex(e ast.Expr) []act {
	if e == nil {
		return nil
	}
	if e.Pos().IsValid() {
		x.pos = e.Pos()
	}
	if f := x.fieldOf(e); f != nil {
		return x.read(f)
	}
	switch t := e.(type) {
	case *ast.Ident:
		if x.isRecv(t) && x.isSlice {
			return []act{{k: 'a', id: x.elems}}
		}
		return nil
	case *ast.BasicLit, *ast.FuncLit, *ast.ArrayType, *ast.MapType, *ast.ChanType, *ast.FuncType, *ast.InterfaceType, *ast.StructType:
		return nil
	case *ast.ParenExpr:
		return x.ex(t.X)
	case *ast.SelectorExpr:
		if x.isRecv(t.X) {
			if _, ok := x.methods[t.Sel.Name]; ok {
				return nil // method value
			}
			if f := x.promotedIface(t.Sel.Name); f != nil {
				return x.read(f)
			}
			x.errf("unknown selector %s.%s", x.recv, t.Sel.Name)
			return nil
		}
		return x.ex(t.X)
	case *ast.StarExpr:
		if x.isRecv(t.X) {
			var out []act
			for _, n := range x.forder {
				f := x.fields[n]
				if f.kind == fPlain || f.kind == fIface || f.kind == fPAtomic || f.kind == fChan {
					out = append(out, act{k: 'a', id: f.id})
				}
			}
			return out
		}
		return x.ex(t.X)
	case *ast.UnaryExpr:
		if t.Op == token.ARROW {
			if f := x.fieldOf(t.X); f != nil && f.kind == fChan {
				return []act{{k: 'a', id: f.id}, {k: 'r', id: f.id2}}
			}
			x.errf("receive from something that is not a channel field")
			return nil
		}
		return x.ex(t.X)
	case *ast.BinaryExpr:
		return append(x.ex(t.X), x.ex(t.Y)...)
	case *ast.IndexExpr:
		return append(x.ex(t.X), x.ex(t.Index)...)
	case *ast.IndexListExpr:
		return x.ex(t.X)
	case *ast.SliceExpr:
		out := x.ex(t.X)
		out = append(out, x.ex(t.Low)...)
		out = append(out, x.ex(t.High)...)
		return append(out, x.ex(t.Max)...)
	case *ast.TypeAssertExpr:
		return x.ex(t.X)
	case *ast.KeyValueExpr:
		return x.ex(t.Value)
	case *ast.CompositeLit:
		return x.exprs(t.Elts)
	case *ast.CallExpr:
		return x.call(t)
	}
	x.errf("unsupported expression %T", e)
	return nil
}

func (x *c09x) promotedIface(method string) *fieldInfo {
	for _, n := range x.forder {
		f := x.fields[n]
		if f.kind == fIface {
			for _, m := range f.methods {
				if m == method {
					return f
				}
			}
		}
	}
	return nil
}

func (x *c09x) embeddedOf(kinds ...int) *fieldInfo {
	for _, n := range x.forder {
		f := x.fields[n]
		for _, k := range kinds {
			if f.kind == k && (n == "Mutex" || n == "RWMutex" || n == "Once") {
				return f
			}
		}
	}
	return nil
}

var c09builtins = map[string]bool{"len": true, "cap": true, "append": true, "make": true, "copy": true, "new": true, "clear": true,
	"panic": true, "delete": true, "min": true, "max": true, "string": true, "int": true, "int8": true, "int32": true,
	"int64": true, "uint64": true, "uint32": true, "uint8": true, "bool": true, "float64": true, "byte": true}

// (lock field, exclusive, acquire) if call is mu.Lock/RLock/Unlock/RUnlock on a lock of the object
func (x *c09x) lockCall(e ast.Expr) (f *fieldInfo, excl, acquire, ok bool) {
	c, isCall := e.(*ast.CallExpr)
	if !isCall {
		return
	}
	s, isSel := c.Fun.(*ast.SelectorExpr)
	if !isSel {
		return
	}
	m := s.Sel.Name
	if m != "Lock" && m != "Unlock" && m != "RLock" && m != "RUnlock" {
		return
	}
	if tf := x.fieldOf(s.X); tf != nil && (tf.kind == fLock || tf.kind == fRWLock) {
		f = tf
	} else if x.isRecv(s.X) {
		if _, declared := x.methods[m]; !declared {
			f = x.embeddedOf(fLock, fRWLock)
		}
	}
	if f == nil {
		return
	}
	return f, m == "Lock" || m == "Unlock", m == "Lock" || m == "RLock", true
}

func (x *c09x) inline(name string, body *ast.BlockStmt, recv string) []act {
	for _, s := range x.stack {
		if s == name {
			return nil // recursion: already summarised on the way down
		}
	}
	if len(x.stack) > 12 {
		x.errf("inlining too deep at %s", name)
		return nil
	}
	x.stack = append(x.stack, name)
	old, oldAlias, oldVal, oldCond := x.recv, x.alias, x.valias, x.cond
	if !strings.HasPrefix(name, "lit@") { // a method body has its own locals; a closure shares them
		x.alias = map[string]bool{}
		x.valias = map[string]map[string]bool{}
	}
	x.recv = recv
	out := x.fnBody(body)
	x.recv, x.alias, x.valias, x.cond = old, oldAlias, oldVal, oldCond
	x.stack = x.stack[:len(x.stack)-1]
	return out
}

// once.Do(func(){...}).  "Program-ordered after the once" is established syntactically, so the
// call must not sit under a condition or in a loop body (both branches are summarised one after
// the other, which would wrongly put the code after an un-taken branch "after the once").
func (x *c09x) onceAct(f *fieldInfo, lit *ast.FuncLit) []act {
	if x.cond > 0 {
		x.errf("%s.Do under a condition or in a loop: cannot be summarised soundly", f.name)
		return nil
	}
	return []act{{k: 'o', id: f.id, body: x.inline(fmt.Sprintf("lit@%d", lit.Pos()), lit.Body, x.recv)}}
}

func (x *c09x) under(list []ast.Stmt) []act {
	x.cond++
	out := x.stmts(list)
	x.cond--
	return out
}

func recvIdent(fd *ast.FuncDecl) string {
	if fd.Recv != nil && len(fd.Recv.List) == 1 && len(fd.Recv.List[0].Names) == 1 {
		return fd.Recv.List[0].Names[0].Name
	}
	return ""
}

func (x *c09x) call(c *ast.CallExpr) []act {
	args := x.exprs(c.Args)
	switch fn := c.Fun.(type) {
	case *ast.FuncLit:
		return append(args, x.inline(fmt.Sprintf("lit@%d", fn.Pos()), fn.Body, x.recv)...)
	case *ast.Ident:
		if fn.Name == "close" && len(c.Args) == 1 {
			if f := x.fieldOf(c.Args[0]); f != nil && f.kind == fChan {
				return []act{{k: 'a', id: f.id}, {k: 'x', id: f.id2}}
			}
			x.errf("close of something that is not a channel field")
			return nil
		}
		if (fn.Name == "append" || fn.Name == "copy" || fn.Name == "clear") && len(c.Args) > 0 {
			if f := x.backing(c.Args[0]); f != nil {
				return append(args, act{k: 'a', id: f.arr, w: true})
			}
		}
		if len(x.spec.globals) > 0 {
			for _, g := range x.spec.funcs {
				if g == fn.Name {
					fd := x.methods[g]
					return append(args, x.inline(g, fd.Body, "")...)
				}
			}
		}
		return args
	case *ast.SelectorExpr:
		m := fn.Sel.Name
		if _, _, _, ok := x.lockCall(c); ok {
			x.errf("lock operation in expression position")
			return nil
		}
		if f := x.fieldOf(fn); f != nil { // call of a func-valued field
			return append(args, x.read(f)...)
		}
		if f := x.fieldOf(fn.X); f != nil {
			switch f.kind {
			case fOnce:
				if m == "Do" && len(c.Args) == 1 {
					if lit, ok := c.Args[0].(*ast.FuncLit); ok {
						return x.onceAct(f, lit)
					}
				}
				x.errf("unsupported use of sync.Once field %s", f.name)
				return nil
			case fAtomic, fSafe:
				return append(args, act{k: 't', id: f.id})
			case fPAtomic:
				return append(args, act{k: 'a', id: f.id}, act{k: 't', id: f.id2})
			case fLock, fRWLock:
				x.errf("unsupported method %s on lock field %s", m, f.name)
				return nil
			default:
				if f.serial {
					return append(args, act{k: 'a', id: f.id}, act{k: 'a', id: f.id2, w: true})
				}
				return append(args, act{k: 'a', id: f.id})
			}
		}
		if x.isRecv(fn.X) {
			if fd, ok := x.methods[m]; ok {
				return append(args, x.inline(m, fd.Body, recvIdent(fd))...)
			}
			if m == "Do" && len(c.Args) == 1 {
				if f := x.embeddedOf(fOnce); f != nil {
					if lit, ok := c.Args[0].(*ast.FuncLit); ok {
						return x.onceAct(f, lit)
					}
				}
			}
			if f := x.promotedIface(m); f != nil {
				return append(args, act{k: 'a', id: f.id})
			}
			x.errf("call of unknown method %s on the receiver", m)
			return nil
		}
		return append(x.ex(fn.X), args...)
	case *ast.ParenExpr, *ast.ArrayType, *ast.IndexExpr, *ast.InterfaceType, *ast.StarExpr, *ast.MapType, *ast.FuncType:
		return append(x.ex(c.Fun), args...)
	}
	x.errf("unsupported call %T", c.Fun)
	return nil
}

// ---------------------------------------------------------------- statements

func (x *c09x) fnBody(b *ast.BlockStmt) []act {
	x.defers = append(x.defers, nil)
	out := x.stmts(b.List)
	d := x.defers[len(x.defers)-1]
	x.defers = x.defers[:len(x.defers)-1]
	return append(out, d...)
}

func (x *c09x) stmts(list []ast.Stmt) []act {
	var out []act
	for i := 0; i < len(list); i++ {
		s := list[i]
		x.pos = s.Pos()
		if es, ok := s.(*ast.ExprStmt); ok {
			if f, excl, acq, ok := x.lockCall(es.X); ok {
				if !acq {
					x.errf("release of %s without a matching acquire in the same block", f.name)
					continue
				}
				if i+1 < len(list) {
					if ds, ok := list[i+1].(*ast.DeferStmt); ok {
						if f2, excl2, acq2, ok := x.lockCall(ds.Call); ok && f2 == f && excl2 == excl && !acq2 {
							out = append(out, act{k: 'c', id: f.id, w: excl, body: x.stmts(list[i+2:])})
							return out
						}
					}
				}
				j := -1
				for k := i + 1; k < len(list); k++ {
					if es2, ok := list[k].(*ast.ExprStmt); ok {
						if f2, excl2, acq2, ok := x.lockCall(es2.X); ok && f2 == f && excl2 == excl && !acq2 {
							j = k
							break
						}
					}
				}
				if j < 0 {
					x.errf("acquire of %s without a matching release in the same block", f.name)
					continue
				}
				out = append(out, act{k: 'c', id: f.id, w: excl, body: x.stmts(list[i+1 : j])})
				i = j
				continue
			}
		}
		out = append(out, x.stmt(s)...)
	}
	return out
}

func (x *c09x) assignTarget(lhs ast.Expr, alsoRead bool) []act {
	if f := x.fieldOf(lhs); f != nil {
		switch f.kind {
		case fPlain, fIface, fPAtomic, fChan:
			var out []act
			if alsoRead {
				out = append(out, act{k: 'a', id: f.id})
			}
			return append(out, act{k: 'a', id: f.id, w: true})
		}
		x.errf("assignment to field %s of a synchronisation type", f.name)
		return nil
	}
	if ix, ok := lhs.(*ast.IndexExpr); ok && x.isRecv(ix.X) && x.isSlice {
		return append(x.ex(ix.Index), act{k: 'a', id: x.elems, w: true})
	}
	if ix, ok := lhs.(*ast.IndexExpr); ok {
		if f := x.backing(ix.X); f != nil { // x.f[i] = v
			return append(append(x.ex(ix.X), x.ex(ix.Index)...), act{k: 'a', id: f.arr, w: true})
		}
	}
	if se, ok := lhs.(*ast.SelectorExpr); ok { // c.f = ... on a struct copy of the receiver: c.f no longer shares recv.f's array
		if id, ok := se.X.(*ast.Ident); ok {
			if re, ok := x.valias[id.Name]; ok && x.cond == 0 {
				re[se.Sel.Name] = true
			}
		}
	}
	if id, ok := lhs.(*ast.Ident); ok && !x.isRecv(id) {
		return nil
	}
	return x.ex(lhs) // element / pointee of something reachable from a field: a read of the field
}

func (x *c09x) stmt(s ast.Stmt) []act {
	if s == nil {
		return nil
	}
	x.pos = s.Pos()
	switch t := s.(type) {
	case *ast.ExprStmt:
		return x.ex(t.X)
	case *ast.AssignStmt:
		out := x.exprs(t.Rhs)
		if len(t.Lhs) == len(t.Rhs) { // l := recv makes l another name of the shared object
			for i, r := range t.Rhs {
				if id, ok := t.Lhs[i].(*ast.Ident); ok && id.Name != "_" {
					if x.isRecv(r) && !x.isSlice {
						x.alias[id.Name] = true
					} else {
						delete(x.alias, id.Name)
					}
					if st, ok := r.(*ast.StarExpr); ok && x.isRecv(st.X) && !x.isSlice {
						x.valias[id.Name] = map[string]bool{}
					} else {
						delete(x.valias, id.Name)
					}
				}
			}
		}
		for _, l := range t.Lhs {
			out = append(out, x.assignTarget(l, t.Tok != token.ASSIGN && t.Tok != token.DEFINE)...)
		}
		return out
	case *ast.IncDecStmt:
		return x.assignTarget(t.X, true)
	case *ast.DeclStmt:
		var out []act
		if gd, ok := t.Decl.(*ast.GenDecl); ok {
			for _, sp := range gd.Specs {
				if vs, ok := sp.(*ast.ValueSpec); ok {
					out = append(out, x.exprs(vs.Values)...)
				}
			}
		}
		return out
	case *ast.ReturnStmt:
		return x.exprs(t.Results)
	case *ast.BlockStmt:
		return x.stmts(t.List)
	case *ast.IfStmt:
		out := x.stmt(t.Init)
		out = append(out, x.ex(t.Cond)...)
		out = append(out, x.under(t.Body.List)...)
		x.cond++
		out = append(out, x.stmt(t.Else)...)
		x.cond--
		return out
	case *ast.ForStmt:
		out := x.stmt(t.Init)
		out = append(out, x.ex(t.Cond)...)
		out = append(out, x.under(t.Body.List)...)
		out = append(out, x.stmt(t.Post)...)
		if t.Cond == nil { // for { select { case <-c: return } }: the loop ends by a receive on c
			for _, bs := range t.Body.List {
				if sel, ok := bs.(*ast.SelectStmt); ok {
					for _, cl := range sel.Body.List {
						cc := cl.(*ast.CommClause)
						if len(cc.Body) == 0 {
							continue
						}
						if _, isRet := cc.Body[len(cc.Body)-1].(*ast.ReturnStmt); !isRet {
							continue
						}
						if f := x.commChan(cc.Comm); f != nil {
							out = append(out, act{k: 'r', id: f.id2})
						}
					}
				}
			}
		}
		return out
	case *ast.RangeStmt:
		out := x.ex(t.X)
		return append(out, x.under(t.Body.List)...)
	case *ast.SwitchStmt:
		out := x.stmt(t.Init)
		out = append(out, x.ex(t.Tag)...)
		for _, cl := range t.Body.List {
			cc := cl.(*ast.CaseClause)
			out = append(out, x.exprs(cc.List)...)
			out = append(out, x.under(cc.Body)...)
		}
		return out
	case *ast.TypeSwitchStmt:
		out := x.stmt(t.Init)
		out = append(out, x.stmt(t.Assign)...)
		for _, cl := range t.Body.List {
			out = append(out, x.under(cl.(*ast.CaseClause).Body)...)
		}
		return out
	case *ast.SelectStmt:
		var out []act
		for _, cl := range t.Body.List {
			cc := cl.(*ast.CommClause)
			if cc.Comm != nil {
				if f := x.commChan(cc.Comm); f != nil {
					out = append(out, act{k: 'a', id: f.id})
				} else if u := commRecv(cc.Comm); u != nil {
					out = append(out, x.ex(u.X)...)
				} else {
					x.errf("unsupported communication in select")
				}
			}
			out = append(out, x.under(cc.Body)...)
		}
		return out
	case *ast.GoStmt:
		args := x.exprs(t.Call.Args)
		switch fn := t.Call.Fun.(type) {
		case *ast.FuncLit:
			return append(args, act{k: 's', body: x.inline(fmt.Sprintf("lit@%d", fn.Pos()), fn.Body, x.recv)})
		case *ast.SelectorExpr:
			if x.isRecv(fn.X) {
				if fd, ok := x.methods[fn.Sel.Name]; ok {
					return append(args, act{k: 's', body: x.inline(fn.Sel.Name, fd.Body, recvIdent(fd))})
				}
			}
		}
		x.errf("unsupported go statement")
		return nil
	case *ast.DeferStmt:
		if _, _, _, ok := x.lockCall(t.Call); ok {
			x.errf("deferred lock operation without the acquire just before it")
			return nil
		}
		d := x.call(t.Call)
		top := len(x.defers) - 1
		x.defers[top] = append(d, x.defers[top]...)
		return nil
	case *ast.LabeledStmt:
		return x.stmt(t.Stmt)
	case *ast.BranchStmt, *ast.EmptyStmt:
		return nil
	}
	x.errf("unsupported statement %T", s)
	return nil
}

func commRecv(s ast.Stmt) *ast.UnaryExpr {
	var e ast.Expr
	switch t := s.(type) {
	case *ast.ExprStmt:
		e = t.X
	case *ast.AssignStmt:
		if len(t.Rhs) == 1 {
			e = t.Rhs[0]
		}
	}
	if u, ok := e.(*ast.UnaryExpr); ok && u.Op == token.ARROW {
		return u
	}
	return nil
}

func (x *c09x) commChan(s ast.Stmt) *fieldInfo {
	if u := commRecv(s); u != nil {
		if f := x.fieldOf(u.X); f != nil && f.kind == fChan {
			return f
		}
	}
	return nil
}

// ---------------------------------------------------------------- driver

type c09unit struct {
	name string
	code []act
}

func (x *c09x) runSpec(spec c09Spec) []c09unit {
	x.spec = spec
	x.fields = map[string]*fieldInfo{}
	x.alias = map[string]bool{}
	x.valias = map[string]map[string]bool{}
	x.cond = 0
	x.forder = nil
	x.isSlice = false
	x.pos = token.NoPos
	p := x.pkgs[spec.dir]
	var units []c09unit
	if len(spec.globals) > 0 {
		for _, g := range spec.globals {
			kind := fPlain
			found := false
			for _, f := range p.files {
				for _, d := range f.Decls {
					gd, ok := d.(*ast.GenDecl)
					if !ok || gd.Tok != token.VAR {
						continue
					}
					for _, s := range gd.Specs {
						vs := s.(*ast.ValueSpec)
						for _, n := range vs.Names {
							if n.Name == g {
								found = true
								if vs.Type != nil {
									kind, _ = x.classify(spec.dir, vs.Type)
								}
							}
						}
					}
				}
			}
			if !found {
				x.errf("package-level variable %s not found", g)
				continue
			}
			x.addField(g, kind, nil)
		}
		x.methods = map[string]*ast.FuncDecl{}
		for _, fn := range spec.funcs {
			fd := p.funcDecl(fn)
			if fd == nil {
				x.errf("function %s not found", fn)
				continue
			}
			x.methods[fn] = fd
		}
		for _, fn := range spec.funcs {
			if fd := x.methods[fn]; fd != nil {
				x.stack = nil
				units = append(units, c09unit{spec.name + "." + fn, x.inline(fn, fd.Body, "")})
			}
		}
		return units
	}
	ts := p.typeSpec(spec.name)
	if ts == nil {
		x.errf("type not found in %s", spec.dir)
		return nil
	}
	switch t := ts.Type.(type) {
	case *ast.StructType:
		for _, f := range t.Fields.List {
			kind, ms := x.classify(spec.dir, f.Type)
			if len(f.Names) == 0 {
				x.addField(embeddedName(f.Type), kind, ms)
				continue
			}
			for _, n := range f.Names {
				x.addField(n.Name, kind, ms)
				if at, ok := f.Type.(*ast.ArrayType); ok && at.Len == nil && kind == fPlain {
					fi := x.fields[n.Name]
					fi.hasArr = true
					fi.arr = x.ids.alloc(spec.name + "." + n.Name + "[]")
				}
			}
		}
	case *ast.ArrayType:
		x.isSlice = true
		x.elems = x.ids.alloc(spec.name + ".elems")
	default:
		x.errf("unsupported kind of type %T", ts.Type)
		return nil
	}
	x.methods = p.methodsOf(spec.name)
	var names []string
	for n := range x.methods {
		names = append(names, n)
	}
	sort.Strings(names)
	declared := map[string]bool{}
	for _, n := range names {
		declared[n] = true
		if _, skip := spec.exclude[n]; skip {
			continue
		}
		isExtra := false
		for _, e := range spec.extra {
			if e == n {
				isExtra = true
			}
		}
		if !ast.IsExported(n) && !isExtra {
			continue
		}
		fd := x.methods[n]
		x.stack = nil
		units = append(units, c09unit{spec.name + "." + n, x.inline(n, fd.Body, recvIdent(fd))})
	}
	for _, fn := range x.forder { // promoted methods of embedded interface fields
		f := x.fields[fn]
		if f.kind != fIface {
			continue
		}
		if ts2 := ts.Type.(*ast.StructType); ts2 != nil {
			embedded := false
			for _, sf := range ts2.Fields.List {
				if len(sf.Names) == 0 && embeddedName(sf.Type) == fn {
					embedded = true
				}
			}
			if !embedded {
				continue
			}
		}
		for _, m := range f.methods {
			if !declared[m] {
				units = append(units, c09unit{spec.name + "." + m, []act{{k: 'a', id: f.id}}})
			}
		}
	}
	return units
}

func c09render(b *bytes.Buffer, as []act) {
	if len(as) == 0 {
		b.WriteString("CNil")
		return
	}
	a := as[0]
	switch a.k {
	case 'a':
		fmt.Fprintf(b, "CAcc %d %v (", a.id, a.w)
	case 't':
		fmt.Fprintf(b, "CAtomic %d (", a.id)
	case 'c':
		fmt.Fprintf(b, "CCrit %d %v (", a.id, a.w)
		c09render(b, a.body)
		b.WriteString(") (")
	case 'o':
		fmt.Fprintf(b, "COnce %d (", a.id)
		c09render(b, a.body)
		b.WriteString(") (")
	case 's':
		b.WriteString("CSpawn (")
		c09render(b, a.body)
		b.WriteString(") (")
	case 'r':
		fmt.Fprintf(b, "CRecv %d (", a.id)
	case 'x':
		fmt.Fprintf(b, "CClose %d (", a.id)
	}
	c09render(b, as[1:])
	b.WriteString(")")
}

// rank = nesting height: a resource acquired inside another gets a smaller rank
func c09ranks(units []c09unit) (map[int]int, error) {
	inner := map[int]map[int]bool{}
	all := map[int]bool{}
	var walk func(as []act, held []int)
	walk = func(as []act, held []int) {
		for _, a := range as {
			switch a.k {
			case 'c', 'o':
				all[a.id] = true
				for _, h := range held {
					if inner[h] == nil {
						inner[h] = map[int]bool{}
					}
					inner[h][a.id] = true
				}
				walk(a.body, append(append([]int(nil), held...), a.id))
			case 's':
				walk(a.body, nil)
			}
		}
	}
	for _, u := range units {
		walk(u.code, nil)
	}
	rank := map[int]int{}
	state := map[int]int{}
	var visit func(r int) (int, error)
	visit = func(r int) (int, error) {
		if state[r] == 2 {
			return rank[r], nil
		}
		if state[r] == 1 {
			return 0, fmt.Errorf("cyclic lock/once nesting through resource %d", r)
		}
		state[r] = 1
		m := 0
		var keys []int
		for k := range inner[r] {
			keys = append(keys, k)
		}
		sort.Ints(keys)
		for _, k := range keys {
			v, err := visit(k)
			if err != nil {
				return 0, err
			}
			if v+1 > m {
				m = v + 1
			}
		}
		state[r] = 2
		rank[r] = m
		return m, nil
	}
	var keys []int
	for k := range all {
		keys = append(keys, k)
	}
	sort.Ints(keys)
	for _, k := range keys {
		if _, err := visit(k); err != nil {
			return nil, err
		}
	}
	return rank, nil
}

func genAccessFacts(repo, out string) error {
	x := &c09x{repo: repo, fset: token.NewFileSet(), pkgs: map[string]*c09pkg{}, ids: &c09ids{}}
	dirs := map[string]bool{"zapcore": true}
	for _, s := range c09Specs {
		dirs[s.dir] = true
	}
	for d := range dirs {
		p, err := c09load(x.fset, repo, d)
		if err != nil {
			return err
		}
		x.pkgs[d] = p
	}
	var units []c09unit
	for _, s := range c09Specs {
		units = append(units, x.runSpec(s)...)
	}
	if len(x.errs) > 0 {
		return fmt.Errorf("cannot summarise:\n  %s", strings.Join(x.errs, "\n  "))
	}
	ranks, err := c09ranks(units)
	if err != nil {
		return err
	}
	var b bytes.Buffer
	b.WriteString("(* GENERATED by gen/c09_access.go from the repository's working tree — do not edit.\n")
	b.WriteString("   Access summaries of the shared types anchored by property C09 (data only). *)\n")
	b.WriteString("From Coq Require Import List String.\nFrom Coq.Strings Require Import Byte.\nImport ListNotations.\nOpen Scope string_scope.\nFrom Zap Require Import C09.Sem.\n\n")
	b.WriteString("(* names are byte lists (the extracted model must not mention Coq's string type) *)\n")
	b.WriteString("Definition units : list (list byte * code nat) := [\n")
	for i, u := range units {
		fmt.Fprintf(&b, "  ((* %s *) [", u.name)
		for j := 0; j < len(u.name); j++ {
			if j > 0 {
				b.WriteString("; ")
			}
			fmt.Fprintf(&b, "x%02x", u.name[j])
		}
		b.WriteString("],\n   ")
		c09render(&b, u.code)
		b.WriteString(")")
		if i+1 < len(units) {
			b.WriteString(";")
		}
		b.WriteString("\n")
	}
	b.WriteString("].\n\nDefinition id_names : list (nat * string) := [\n")
	for i, n := range x.ids.names {
		fmt.Fprintf(&b, "  (%d, %q)", i, n)
		if i+1 < len(x.ids.names) {
			b.WriteString(";")
		}
		b.WriteString("\n")
	}
	b.WriteString("].\n\n(* nesting height of locks and onces (inner resources have smaller rank) *)\nDefinition ranks : list (nat * nat) := [")
	var rk []int
	for k := range ranks {
		rk = append(rk, k)
	}
	sort.Ints(rk)
	for i, k := range rk {
		if i > 0 {
			b.WriteString("; ")
		}
		fmt.Fprintf(&b, "(%d, %d)", k, ranks[k])
	}
	b.WriteString("].\n\n(* fields following the locked-initialisation pattern (class (d)): not covered by the\n   proved disciplines, covered by the -race runs only *)\nDefinition exempt : list nat := [")
	first := true
	for _, e := range c09Exempt {
		for i, n := range x.ids.names {
			if n == e {
				if !first {
					b.WriteString("; ")
				}
				first = false
				fmt.Fprintf(&b, "%d", i)
			}
		}
	}
	b.WriteString("].\n")
	return writeIfChanged(filepath.Join(out, "AccessFacts.v"), b.String())
}

// C09: release facts.  zap recycles objects through sync.Pools; an object handed back twice,
// or touched after it was handed back, ends up in the hands of two goroutines (C09/Release.v,
// pool_exclusive / double_put_shares).  For every function of the repository (non-test files)
// that hands something back --
//
//	v.Free()  v.free()  v.Release()          (no arguments; v a variable or a field path x.f.g)
//	F(v), x.F(v)   F = put|Put|free|Free|release|Release, alone or followed by an upper-case
//	               letter (pool.Put(v), putJSONEncoder(v), b.pool.put(b))
//
// -- and for every such v the extractor produces the control-flow skeleton of the events on v
// (Gen/ReleaseFacts.v, data only; checked by C09.Release.release_ok, proved sound for every path):
//
//	ERel  the calls above
//	EAcq  v, or a prefix of the path v, is assigned / declared (v := pool.Get(), enc = nil)
//	EUse  any other occurrence of v or of something reached through v (v.f, v.m(), f(v), v[i]);
//	      a closure that is neither deferred nor free of v counts as one use where it is created
//	      (it must not hand v back or rebind it: error)
//
// if/else, switch, type switch, select (either branch; the case expressions first), for and range
// (any number of rounds), return and panic (end of the function: the deferred code runs),
// break / continue without label, defer (the call's arguments now, the call -- a release, a use,
// or the body of a function literal -- when the function returns).  goto, labels used by
// break/continue, fallthrough and a for-post statement that touches v are errors (the check then
// reports a broken obligation).  Calls are recognised by NAME: a function that hands its
// argument back under another name is out of sight.
package main

import (
	"bytes"
	"fmt"
	"go/ast"
	"go/parser"
	"go/token"
	"io/fs"
	"path/filepath"
	"regexp"
	"sort"
	"strings"
)

func init() { register2("ReleaseFacts", genReleaseFacts) }

var (
	relMethod = regexp.MustCompile(`^(free|Free|release|Release)$`)
	relFunc   = regexp.MustCompile(`^(put|Put|free|Free|release|Release)([A-Z].*)?$`)
)

// flow tree
type rnode struct {
	k    string // skip rel use acq seq if loop catch ret brk cont defer
	a, b *rnode
}

var rskip = &rnode{k: "skip"}

func rseq(ns ...*rnode) *rnode {
	out := rskip
	for i := len(ns) - 1; i >= 0; i-- {
		n := ns[i]
		if n == nil || n.k == "skip" {
			continue
		}
		if out.k == "skip" {
			out = n
		} else {
			out = &rnode{k: "seq", a: n, b: out}
		}
	}
	return out
}

func rif(a, b *rnode) *rnode {
	if a.k == "skip" && b.k == "skip" {
		return rskip
	}
	return &rnode{k: "if", a: a, b: b}
}

func rwrap(k string, a *rnode) *rnode {
	if a.k == "skip" {
		return rskip
	}
	return &rnode{k: k, a: a}
}

func (n *rnode) has(kinds ...string) bool {
	if n == nil {
		return false
	}
	for _, k := range kinds {
		if n.k == k {
			return true
		}
	}
	return n.a.has(kinds...) || n.b.has(kinds...)
}

func (n *rnode) coq(b *bytes.Buffer) {
	switch n.k {
	case "skip":
		b.WriteString("SSkip")
	case "rel":
		b.WriteString("SEv ERel")
	case "use":
		b.WriteString("SEv EUse")
	case "acq":
		b.WriteString("SEv EAcq")
	case "ret":
		b.WriteString("SRet")
	case "brk":
		b.WriteString("SBrk")
	case "cont":
		b.WriteString("SCont")
	case "seq", "if":
		b.WriteString(map[string]string{"seq": "SSeq (", "if": "SIf ("}[n.k])
		n.a.coq(b)
		b.WriteString(") (")
		n.b.coq(b)
		b.WriteString(")")
	case "loop", "catch", "defer":
		b.WriteString(map[string]string{"loop": "SLoop (", "catch": "SCatch (", "defer": "SDefer ("}[n.k])
		n.a.coq(b)
		b.WriteString(")")
	}
}

// x, x.f, x.f.g as a string
func relPath(e ast.Expr) (string, bool) {
	switch t := e.(type) {
	case *ast.Ident:
		return t.Name, true
	case *ast.ParenExpr:
		return relPath(t.X)
	case *ast.SelectorExpr:
		if p, ok := relPath(t.X); ok {
			return p + "." + t.Sel.Name, true
		}
	}
	return "", false
}

// the variable a call hands back, if it is a release call
func relTarget(c *ast.CallExpr) (string, bool) {
	switch fn := c.Fun.(type) {
	case *ast.SelectorExpr:
		if len(c.Args) == 0 && relMethod.MatchString(fn.Sel.Name) {
			return relPath(fn.X)
		}
		if len(c.Args) == 1 && relFunc.MatchString(fn.Sel.Name) {
			return relPath(c.Args[0])
		}
	case *ast.Ident:
		if len(c.Args) == 1 && relFunc.MatchString(fn.Name) {
			return relPath(c.Args[0])
		}
	}
	return "", false
}

type relWalker struct {
	fset *token.FileSet
	t    string // the target path
	errs []string
}

func (w *relWalker) errf(pos token.Pos, format string, a ...interface{}) {
	p := w.fset.Position(pos)
	w.errs = append(w.errs, fmt.Sprintf("%s:%d: %s: %s", filepath.Base(p.Filename), p.Line, w.t, fmt.Sprintf(format, a...)))
}

// p denotes the target or something reached through it
func (w *relWalker) through(p string) bool { return p == w.t || strings.HasPrefix(p, w.t+".") }

// assigning to p rebinds the target
func (w *relWalker) rebinds(p string) bool { return p == w.t || strings.HasPrefix(w.t, p+".") }

func (w *relWalker) exprs(es []ast.Expr) *rnode {
	var ns []*rnode
	for _, e := range es {
		ns = append(ns, w.expr(e))
	}
	return rseq(ns...)
}

func (w *relWalker) closure(lit *ast.FuncLit) *rnode {
	body := w.block(lit.Body.List)
	if body.has("rel", "acq") {
		w.errf(lit.Pos(), "a function literal that is not deferred hands the variable back or rebinds it")
	}
	if body.has("use", "rel", "acq") {
		return &rnode{k: "use"}
	}
	return rskip
}

func (w *relWalker) expr(e ast.Expr) *rnode {
	if e == nil {
		return rskip
	}
	if p, ok := relPath(e); ok {
		if w.through(p) {
			return &rnode{k: "use"}
		}
		return rskip
	}
	switch t := e.(type) {
	case *ast.BasicLit, *ast.ArrayType, *ast.MapType, *ast.ChanType, *ast.FuncType, *ast.InterfaceType, *ast.StructType, *ast.Ellipsis:
		return rskip
	case *ast.FuncLit:
		return w.closure(t)
	case *ast.ParenExpr:
		return w.expr(t.X)
	case *ast.SelectorExpr: // not a plain path: f().x
		return w.expr(t.X)
	case *ast.StarExpr:
		return w.expr(t.X)
	case *ast.UnaryExpr:
		return w.expr(t.X)
	case *ast.BinaryExpr:
		return rseq(w.expr(t.X), w.expr(t.Y))
	case *ast.IndexExpr:
		return rseq(w.expr(t.X), w.expr(t.Index))
	case *ast.IndexListExpr:
		return rseq(w.expr(t.X), w.exprs(t.Indices))
	case *ast.SliceExpr:
		return rseq(w.expr(t.X), w.expr(t.Low), w.expr(t.High), w.expr(t.Max))
	case *ast.TypeAssertExpr:
		return w.expr(t.X)
	case *ast.KeyValueExpr:
		return rseq(w.expr(t.Key), w.expr(t.Value))
	case *ast.CompositeLit:
		return w.exprs(t.Elts)
	case *ast.CallExpr:
		return w.call(t)
	}
	w.errf(e.Pos(), "unsupported expression %T", e)
	return rskip
}

func (w *relWalker) call(c *ast.CallExpr) *rnode {
	if tg, ok := relTarget(c); ok && tg == w.t {
		if len(c.Args) == 0 { // v.Free()
			return &rnode{k: "rel"}
		}
		return rseq(w.expr(c.Fun), &rnode{k: "rel"}) // x.put(v): x first
	}
	if lit, ok := c.Fun.(*ast.FuncLit); ok { // func(){...}() on the spot
		return rseq(w.exprs(c.Args), w.closure(lit))
	}
	return rseq(w.expr(c.Fun), w.exprs(c.Args))
}

func (w *relWalker) block(list []ast.Stmt) *rnode {
	var ns []*rnode
	for _, s := range list {
		ns = append(ns, w.stmt(s))
	}
	return rseq(ns...)
}

func (w *relWalker) assignTo(lhs ast.Expr) *rnode {
	if p, ok := relPath(lhs); ok {
		switch {
		case w.rebinds(p):
			return &rnode{k: "acq"}
		case w.through(p): // v.f = ...: a write through v
			return &rnode{k: "use"}
		}
		return rskip
	}
	return w.expr(lhs)
}

func isPanic(e ast.Expr) (*ast.CallExpr, bool) {
	if c, ok := e.(*ast.CallExpr); ok {
		if id, ok := c.Fun.(*ast.Ident); ok && id.Name == "panic" {
			return c, true
		}
	}
	return nil, false
}

func (w *relWalker) stmt(s ast.Stmt) *rnode {
	switch t := s.(type) {
	case nil, *ast.EmptyStmt:
		return rskip
	case *ast.ExprStmt:
		if c, ok := isPanic(t.X); ok {
			return rseq(w.exprs(c.Args), &rnode{k: "ret"})
		}
		return w.expr(t.X)
	case *ast.AssignStmt:
		ns := []*rnode{w.exprs(t.Rhs)}
		for _, l := range t.Lhs {
			if t.Tok != token.ASSIGN && t.Tok != token.DEFINE { // v += ...: read, then written
				ns = append(ns, w.expr(l))
			}
			ns = append(ns, w.assignTo(l))
		}
		return rseq(ns...)
	case *ast.IncDecStmt:
		return rseq(w.expr(t.X), w.assignTo(t.X))
	case *ast.SendStmt:
		return rseq(w.expr(t.Chan), w.expr(t.Value))
	case *ast.DeclStmt:
		var ns []*rnode
		if gd, ok := t.Decl.(*ast.GenDecl); ok && gd.Tok == token.VAR {
			for _, sp := range gd.Specs {
				vs := sp.(*ast.ValueSpec)
				ns = append(ns, w.exprs(vs.Values))
				for _, n := range vs.Names {
					ns = append(ns, w.assignTo(n))
				}
			}
		}
		return rseq(ns...)
	case *ast.ReturnStmt:
		return rseq(w.exprs(t.Results), &rnode{k: "ret"})
	case *ast.BlockStmt:
		return w.block(t.List)
	case *ast.IfStmt:
		els := rskip
		if t.Else != nil {
			els = w.stmt(t.Else)
		}
		return rseq(w.stmt(t.Init), w.expr(t.Cond), rif(w.block(t.Body.List), els))
	case *ast.ForStmt:
		if post := w.stmt(t.Post); post.k != "skip" {
			w.errf(t.Pos(), "the post statement of a for loop touches the variable")
		}
		return rseq(w.stmt(t.Init), rwrap("loop", rseq(w.expr(t.Cond), w.block(t.Body.List))))
	case *ast.RangeStmt:
		var bind []*rnode
		if t.Tok == token.DEFINE || t.Tok == token.ASSIGN {
			if t.Key != nil {
				bind = append(bind, w.assignTo(t.Key))
			}
			if t.Value != nil {
				bind = append(bind, w.assignTo(t.Value))
			}
		}
		return rseq(w.expr(t.X), rwrap("loop", rseq(rseq(bind...), w.block(t.Body.List))))
	case *ast.SwitchStmt:
		pre := []*rnode{w.stmt(t.Init), w.expr(t.Tag)}
		alt, hasDefault := rskip, false
		var bodies []*rnode
		for _, cl := range t.Body.List {
			cc := cl.(*ast.CaseClause)
			if cc.List == nil {
				hasDefault = true
			}
			pre = append(pre, w.exprs(cc.List))
			bodies = append(bodies, w.block(cc.Body))
		}
		return rseq(rseq(pre...), rwrap("catch", w.choice(bodies, hasDefault, alt)))
	case *ast.TypeSwitchStmt:
		pre := []*rnode{w.stmt(t.Init), w.stmt(t.Assign)}
		hasDefault := false
		var bodies []*rnode
		for _, cl := range t.Body.List {
			cc := cl.(*ast.CaseClause)
			if cc.List == nil {
				hasDefault = true
			}
			bodies = append(bodies, w.block(cc.Body))
		}
		return rseq(rseq(pre...), rwrap("catch", w.choice(bodies, hasDefault, rskip)))
	case *ast.SelectStmt:
		var bodies []*rnode
		for _, cl := range t.Body.List {
			cc := cl.(*ast.CommClause)
			bodies = append(bodies, rseq(w.stmt(cc.Comm), w.block(cc.Body)))
		}
		return rwrap("catch", w.choice(bodies, true, rskip))
	case *ast.GoStmt:
		return w.call(t.Call)
	case *ast.DeferStmt:
		c := t.Call
		if tg, ok := relTarget(c); ok && tg == w.t {
			if len(c.Args) == 0 {
				return &rnode{k: "defer", a: &rnode{k: "rel"}}
			}
			return rseq(w.expr(c.Fun), &rnode{k: "defer", a: &rnode{k: "rel"}})
		}
		if lit, ok := c.Fun.(*ast.FuncLit); ok {
			return rseq(w.exprs(c.Args), rwrap("defer", w.block(lit.Body.List)))
		}
		now := rseq(w.expr(c.Fun), w.exprs(c.Args))
		if sel, ok := c.Fun.(*ast.SelectorExpr); ok { // defer v.m(): v is used again when m runs
			if p, ok := relPath(sel.X); ok && w.through(p) {
				return rseq(now, &rnode{k: "defer", a: &rnode{k: "use"}})
			}
		}
		return now
	case *ast.BranchStmt:
		if t.Label != nil || t.Tok == token.GOTO || t.Tok == token.FALLTHROUGH {
			w.errf(t.Pos(), "unsupported branch statement %s", t.Tok)
			return rskip
		}
		if t.Tok == token.BREAK {
			return &rnode{k: "brk"}
		}
		return &rnode{k: "cont"}
	case *ast.LabeledStmt:
		return w.stmt(t.Stmt) // a label alone is harmless; its use by break/continue/goto is rejected
	}
	w.errf(s.Pos(), "unsupported statement %T", s)
	return rskip
}

// one of the bodies, or none of them when there is no default
func (w *relWalker) choice(bodies []*rnode, hasDefault bool, none *rnode) *rnode {
	out := none
	start := len(bodies) - 1
	if hasDefault && len(bodies) > 0 {
		out = bodies[start]
		start--
	}
	for i := start; i >= 0; i-- {
		out = rif(bodies[i], out)
	}
	return out
}

type relUnit struct {
	name string
	flow *rnode
}

func relFuncName(fd *ast.FuncDecl) string {
	if fd.Recv != nil && len(fd.Recv.List) == 1 {
		return recvTypeName(fd) + "." + fd.Name.Name
	}
	return fd.Name.Name
}

func genReleaseFacts(repo, out string) error {
	fset := token.NewFileSet()
	var files []string
	err := filepath.WalkDir(repo, func(path string, d fs.DirEntry, err error) error {
		if err != nil {
			return err
		}
		name := d.Name()
		if d.IsDir() {
			if path != repo && (strings.HasPrefix(name, ".") || name == "benchmarks" || name == "testdata" || name == "tools" || name == "assets" || name == "readme") {
				return filepath.SkipDir
			}
			return nil
		}
		if strings.HasSuffix(name, ".go") && !strings.HasSuffix(name, "_test.go") && !strings.HasPrefix(name, "verif_") {
			files = append(files, path)
		}
		return nil
	})
	if err != nil {
		return err
	}
	sort.Strings(files)
	var units []relUnit
	var errs []string
	nfuncs := 0
	for _, f := range files {
		af, err := parser.ParseFile(fset, f, nil, 0)
		if err != nil {
			return err
		}
		rel, _ := filepath.Rel(repo, f)
		one := func(name string, body *ast.BlockStmt) {
			nfuncs++
			var targets []string
			seen := map[string]bool{}
			ast.Inspect(body, func(n ast.Node) bool {
				if c, ok := n.(*ast.CallExpr); ok {
					if tg, ok := relTarget(c); ok && !seen[tg] {
						seen[tg] = true
						targets = append(targets, tg)
					}
				}
				return true
			})
			for _, tg := range targets {
				w := &relWalker{fset: fset, t: tg}
				flow := w.block(body.List)
				errs = append(errs, w.errs...)
				units = append(units, relUnit{rel + ": " + name + ": " + tg, flow})
			}
		}
		for _, d := range af.Decls {
			switch t := d.(type) {
			case *ast.FuncDecl:
				if t.Body != nil {
					one(relFuncName(t), t.Body)
				}
			case *ast.GenDecl: // function literals in package-level variable initialisers
				ast.Inspect(t, func(n ast.Node) bool {
					if lit, ok := n.(*ast.FuncLit); ok {
						one(fmt.Sprintf("func@%d", fset.Position(lit.Pos()).Line), lit.Body)
						return false
					}
					return true
				})
			}
		}
	}
	if len(errs) > 0 {
		return fmt.Errorf("cannot summarise:\n  %s", strings.Join(errs, "\n  "))
	}
	if len(units) < 10 {
		return fmt.Errorf("only %d release sites found in %d functions of %s: the extractor no longer recognises zap's pools", len(units), nfuncs, repo)
	}
	var b bytes.Buffer
	b.WriteString("(* GENERATED by gen/c09_release.go from the repository's working tree — do not edit.\n")
	b.WriteString("   Per function and recycled variable: the control-flow skeleton of the events on the variable\n")
	b.WriteString("   (handed back / used / rebound), deferred code included (data only). *)\n")
	b.WriteString("From Coq Require Import List String.\nImport ListNotations.\nOpen Scope string_scope.\nFrom Zap Require Import C09.Release.\n\n")
	fmt.Fprintf(&b, "(* %d functions scanned *)\n", nfuncs)
	b.WriteString("Definition release_units : list (string * stm) := [\n")
	for i, u := range units {
		fmt.Fprintf(&b, "  (%q,\n   ", u.name)
		u.flow.coq(&b)
		b.WriteString(")")
		if i+1 < len(units) {
			b.WriteString(";")
		}
		b.WriteString("\n")
	}
	b.WriteString("].\n")
	return writeIfChanged(filepath.Join(out, "ReleaseFacts.v"), b.String())
}

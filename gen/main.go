// gen: the go/ast translator of the verification framework (DESIGN.md section 4.1).
//
//	go run . -repo /repo -out ../coq/theories/Gen <Name>...
//
// It reads the working tree of the zap repository and writes data-only Coq files
// (never theorems).  Every generator recognises only the source shapes listed in
// its comment and exits non-zero on anything else ("fail loudly"): the runner
// reports that as a broken obligation.  Standard library only.
package main

import (
	"flag"
	"fmt"
	"os"
	"path/filepath"
)

type generator func(repo, out, harness string) error

var generators = map[string]generator{}

func main() {
	repo := flag.String("repo", "/repo", "zap working tree")
	out := flag.String("out", "", "directory receiving the generated .v files")
	harness := flag.String("harness", "", "harness directory receiving generated Go data (default <out>/../../../harness)")
	flag.Parse()
	if *out == "" || flag.NArg() == 0 {
		fmt.Fprintln(os.Stderr, "usage: gen -repo DIR -out DIR <Name>...")
		os.Exit(2)
	}
	h := *harness
	if h == "" {
		h = filepath.Join(*out, "..", "..", "..", "harness")
	}
	for _, name := range flag.Args() {
		g, ok := generators[name]
		if !ok {
			fmt.Fprintf(os.Stderr, "gen: unknown generator %q\n", name)
			os.Exit(2)
		}
		if err := g(*repo, *out, h); err != nil {
			fmt.Fprintf(os.Stderr, "gen %s: %v\n", name, err)
			os.Exit(1)
		}
	}
}

// gen: the translator.  Reads the working tree of the repository under
// verification with go/parser + go/ast and writes data-only Coq files
// (coq/theories/Gen/*.v).  It never emits theorems and fails loudly on any
// construct outside the shapes it knows.
//
//	go run . -repo /repo -out ../coq/theories/Gen <generator> ...
//
// One file per property family registers its generators by name in init().
package main

import (
	"flag"
	"fmt"
	"os"
	"sort"
)

var generators = map[string]func(repo, out string) error{}

func main() {
	repo := flag.String("repo", "/repo", "repository working tree")
	out := flag.String("out", "../coq/theories/Gen", "output directory")
	flag.Parse()
	names := flag.Args()
	if len(names) == 0 {
		for n := range generators {
			names = append(names, n)
		}
		sort.Strings(names)
	}
	if err := os.MkdirAll(*out, 0o755); err != nil {
		fmt.Fprintln(os.Stderr, err)
		os.Exit(2)
	}
	fail := false
	for _, n := range names {
		g, ok := generators[n]
		if !ok {
			fmt.Fprintf(os.Stderr, "gen: unknown generator %q\n", n)
			fail = true
			continue
		}
		if err := g(*repo, *out); err != nil {
			fmt.Fprintf(os.Stderr, "gen %s: %v\n", n, err)
			fail = true
		}
	}
	if fail {
		os.Exit(1)
	}
}

// writeIfChanged keeps the timestamp of an unchanged generated file (so that make
// does not rebuild its dependants on every run).
func writeIfChanged(path string, content []byte) error {
	old, err := os.ReadFile(path)
	if err == nil && string(old) == string(content) {
		return nil
	}
	return os.WriteFile(path, content, 0o644)
}

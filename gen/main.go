// gen: translator from zap's source (go/parser + go/ast) to data-only Coq files.
//
//	go run . -repo /repo -out ../coq/theories/Gen <name> ...
//
// Each generator lives in its own file (gen/cXX_*.go) and registers itself by
// name in `generators` from an init function.  A generator fails loudly (non-zero
// exit) on any construct outside the shapes it understands.
package main

import (
	"flag"
	"fmt"
	"os"
	"sort"
)

var generators = map[string]func(repo, out string) error{}

func main() {
	repo := flag.String("repo", "/repo", "zap working tree")
	out := flag.String("out", "../coq/theories/Gen", "output directory")
	flag.Parse()
	names := flag.Args()
	if len(names) == 0 {
		for n := range generators {
			names = append(names, n)
		}
		sort.Strings(names)
	}
	rc := 0
	for _, n := range names {
		g, ok := generators[n]
		if !ok {
			fmt.Fprintln(os.Stderr, "gen: unknown generator", n)
			rc = 2
			continue
		}
		if err := g(*repo, *out); err != nil {
			fmt.Fprintf(os.Stderr, "gen %s: %v\n", n, err)
			rc = 1
		}
	}
	os.Exit(rc)
}

module zapverif/gen

go 1.21

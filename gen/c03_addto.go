package main

// Generator "AddTo": zapcore/field.go -> Gen/AddTo.v
//   ftypes : list (name * Z)          the FieldType enumeration (const block with iota)
//   arms   : list (name * arm)        Field.AddTo's switch
//   eq_classes : list (name * eqclass) Field.Equals's switch (explicit cases; default = f == other)
//
// Source shapes recognised (anything else is an error):
//
//	const ( UnknownType FieldType = iota; XType; ... )                         no explicit values after the first
//	func (f Field) AddTo(enc ObjectEncoder) { var err error; switch f.Type { case XType: ARM ... default: panic(..) };
//	                                         if err != nil { enc.AddString(fmt.Sprintf("%sError", f.Key), err.Error()) } }
//	ARM = [err =] enc.M(f.Key[, E]) | err = E.MarshalLogObject(enc) | err = encodeStringer(f.Key, E, enc)
//	    | err = encodeError(f.Key, E, enc) | break | if f.Interface != nil { ARM } else { ARM }
//	func (f Field) Equals(other Field) bool { if f.Type != other.Type { return false }; if f.Key != other.Key { return false };
//	    switch f.Type { case ..: return bytes.Equal(f.Interface.([]byte), other.Interface.([]byte))
//	                    case ..: return reflect.DeepEqual(f.Interface, other.Interface)
//	                    case ..: return sameComplexNN(f.Interface.(complexNN), other.Interface.(complexNN))
//	                    default: return f == other } }

import (
	"fmt"
	"go/ast"
	"go/token"
	"path/filepath"
	"strings"
)

func init() { generators["AddTo"] = genC03AddTo }

func c03FindMethod(s *c03Src, recv, name string) *ast.FuncDecl {
	for _, f := range s.files {
		for _, d := range f.f.Decls {
			if fd, ok := d.(*ast.FuncDecl); ok && fd.Name.Name == name {
				if recv == "" && fd.Recv == nil {
					return fd
				}
				if fd.Recv != nil && recv != "" && c03RecvTypeName(fd.Recv.List[0].Type) == recv {
					return fd
				}
			}
		}
	}
	return nil
}

func c03FieldTypes(s *c03Src) ([]string, error) {
	for _, f := range s.files {
		for _, d := range f.f.Decls {
			gd, ok := d.(*ast.GenDecl)
			if !ok || gd.Tok != token.CONST || len(gd.Specs) == 0 {
				continue
			}
			first := gd.Specs[0].(*ast.ValueSpec)
			if first.Type == nil || s.src(first.Type) != "FieldType" {
				continue
			}
			if len(first.Values) != 1 || s.src(first.Values[0]) != "iota" {
				return nil, s.errf(first, "FieldType enumeration does not start with `= iota`")
			}
			var names []string
			for _, sp := range gd.Specs {
				vs := sp.(*ast.ValueSpec)
				if sp != gd.Specs[0] && (vs.Type != nil || len(vs.Values) != 0) {
					return nil, s.errf(vs, "FieldType constant with an explicit type or value")
				}
				if len(vs.Names) != 1 {
					return nil, s.errf(vs, "several names in one FieldType spec")
				}
				names = append(names, vs.Names[0].Name)
			}
			return names, nil
		}
	}
	return nil, fmt.Errorf("FieldType enumeration not found in zapcore/field.go")
}

func genC03AddTo(repo, out, harness string) error {
	s, err := c03Parse(repo, map[string]string{"zapcore/field.go": "zapcore"})
	if err != nil {
		return err
	}
	fts, err := c03FieldTypes(s)
	if err != nil {
		return err
	}
	known := map[string]bool{}
	for _, n := range fts {
		known[n] = true
	}
	te, _ := s.typeParams("zapcore", nil)

	// ---- AddTo ----
	fd := c03FindMethod(s, "Field", "AddTo")
	if fd == nil {
		return fmt.Errorf("Field.AddTo not found")
	}
	recv := fd.Recv.List[0].Names[0].Name
	pn := fd.Type.Params.List[0].Names[0].Name
	xe := &c03XEnv{s: s, te: te, pkg: "zapcore", recv: recv, subst: map[string]string{}, wrappers: map[string]bool{}, vars: map[string]ast.Expr{}}
	if len(fd.Body.List) != 3 || s.src(fd.Body.List[0]) != "var err error" {
		return s.errf(fd.Body, "AddTo is not `var err error; switch; if err != nil {..}`")
	}
	wantTail := fmt.Sprintf(`if err != nil { %s.AddString(fmt.Sprintf("%%sError", %s.Key), err.Error()) }`, pn, recv)
	if got := s.src(fd.Body.List[2]); got != wantTail {
		return s.errf(fd.Body.List[2], "AddTo's error epilogue changed (want %q)", wantTail)
	}
	sw, ok := fd.Body.List[1].(*ast.SwitchStmt)
	if !ok || sw.Init != nil || s.src(sw.Tag) != recv+".Type" {
		return s.errf(fd.Body.List[1], "AddTo does not switch on f.Type")
	}
	keyArg := recv + ".Key"
	var arm func(st ast.Stmt) (string, error)
	callArm := func(e ast.Expr, isErr bool) (string, error) {
		ce, ok := e.(*ast.CallExpr)
		if !ok {
			return "", s.errf(e, "arm is not a call")
		}
		fs := s.src(ce.Fun)
		switch {
		case fs == "encodeStringer" || fs == "encodeError":
			if !isErr || len(ce.Args) != 3 || s.src(ce.Args[0]) != keyArg || s.src(ce.Args[2]) != pn {
				return "", s.errf(ce, "%s(f.Key, E, enc) expected", fs)
			}
			a, err := xe.expr(ce.Args[1])
			if err != nil {
				return "", err
			}
			if fs == "encodeStringer" {
				return "(AStringer " + a + ")", nil
			}
			return "(AError " + a + ")", nil
		}
		sel, ok := ce.Fun.(*ast.SelectorExpr)
		if !ok {
			return "", s.errf(ce, "arm call not understood")
		}
		if s.src(sel.X) == pn {
			if len(ce.Args) < 1 || len(ce.Args) > 2 || s.src(ce.Args[0]) != keyArg {
				return "", s.errf(ce, "encoder call whose first argument is not f.Key")
			}
			a := ""
			if len(ce.Args) == 2 {
				var err error
				if a, err = xe.expr(ce.Args[1]); err != nil {
					return "", err
				}
			}
			return "(ACall " + coqStr(sel.Sel.Name) + " " + coqOpt(a) + ")", nil
		}
		if sel.Sel.Name == "MarshalLogObject" && isErr && len(ce.Args) == 1 && s.src(ce.Args[0]) == pn {
			a, err := xe.expr(sel.X)
			if err != nil {
				return "", err
			}
			return "(AInline " + a + ")", nil
		}
		return "", s.errf(ce, "arm call not understood")
	}
	block := func(l []ast.Stmt) (string, error) {
		if len(l) != 1 {
			return "", fmt.Errorf("%s: arm with %d statements", s.pos(sw), len(l))
		}
		return arm(l[0])
	}
	arm = func(st ast.Stmt) (string, error) {
		switch x := st.(type) {
		case *ast.ExprStmt:
			return callArm(x.X, false)
		case *ast.AssignStmt:
			if x.Tok != token.ASSIGN || len(x.Lhs) != 1 || len(x.Rhs) != 1 || s.src(x.Lhs[0]) != "err" {
				return "", s.errf(x, "assignment other than `err = ...`")
			}
			return callArm(x.Rhs[0], true)
		case *ast.BranchStmt:
			if x.Tok == token.BREAK && x.Label == nil {
				return "ASkip", nil
			}
		case *ast.IfStmt:
			if x.Init != nil || x.Else == nil {
				break
			}
			eb, ok := x.Else.(*ast.BlockStmt)
			if !ok {
				break
			}
			c, err := xe.expr(x.Cond)
			if err != nil {
				return "", err
			}
			a, err := block(x.Body.List)
			if err != nil {
				return "", err
			}
			b, err := block(eb.List)
			if err != nil {
				return "", err
			}
			return "(AIf " + c + " " + a + " " + b + ")", nil
		}
		return "", s.errf(st, "AddTo arm not understood")
	}
	var b strings.Builder
	b.WriteString("(* GENERATED by gen/c03_addto.go from zapcore/field.go -- data only, do not edit *)\n")
	b.WriteString("From Coq Require Import List ZArith String.\nImport ListNotations.\nFrom Zap Require Import C03.Lang.\n\n")
	b.WriteString("Definition ftypes : list (name * Z) := [\n")
	for i, n := range fts {
		sep := ";"
		if i == len(fts)-1 {
			sep = ""
		}
		fmt.Fprintf(&b, "  (%s, %d%%Z)%s\n", coqStr(n), i, sep)
	}
	b.WriteString("].\n\n")
	var arms []string
	sawDefault := false
	seen := map[string]bool{}
	for _, cc := range sw.Body.List {
		cl := cc.(*ast.CaseClause)
		if cl.List == nil {
			if len(cl.Body) != 1 || !strings.HasPrefix(s.src(cl.Body[0]), "panic(") {
				return s.errf(cl, "AddTo's default arm is not a panic")
			}
			sawDefault = true
			continue
		}
		a, err := block(cl.Body)
		if err != nil {
			return err
		}
		for _, e := range cl.List {
			n := s.src(e)
			if !known[n] || seen[n] {
				return s.errf(e, "case label is not a (fresh) FieldType constant")
			}
			seen[n] = true
			arms = append(arms, fmt.Sprintf("  (%s, %s)", coqStr(n), a))
		}
	}
	if !sawDefault {
		return s.errf(sw, "AddTo has no default arm")
	}
	b.WriteString("Definition arms : list (name * arm) := [\n" + strings.Join(arms, ";\n") + "\n].\n\n")

	// ---- Equals ----
	eq := c03FindMethod(s, "Field", "Equals")
	if eq == nil {
		return fmt.Errorf("Field.Equals not found")
	}
	er := eq.Recv.List[0].Names[0].Name
	eo := eq.Type.Params.List[0].Names[0].Name
	if len(eq.Body.List) != 3 ||
		s.src(eq.Body.List[0]) != fmt.Sprintf("if %s.Type != %s.Type { return false }", er, eo) ||
		s.src(eq.Body.List[1]) != fmt.Sprintf("if %s.Key != %s.Key { return false }", er, eo) {
		return s.errf(eq.Body, "Equals prologue changed (Type, then Key, then switch)")
	}
	esw, ok := eq.Body.List[2].(*ast.SwitchStmt)
	if !ok || esw.Init != nil || s.src(esw.Tag) != er+".Type" {
		return s.errf(eq.Body.List[2], "Equals does not switch on f.Type")
	}
	var eqs []string
	sawDefault = false
	seen = map[string]bool{}
	for _, cc := range esw.Body.List {
		cl := cc.(*ast.CaseClause)
		if len(cl.Body) != 1 {
			return s.errf(cl, "Equals arm with several statements")
		}
		body := s.src(cl.Body[0])
		if cl.List == nil {
			if body != fmt.Sprintf("return %s == %s", er, eo) {
				return s.errf(cl, "Equals default arm is not `return f == other`")
			}
			sawDefault = true
			continue
		}
		class := ""
		switch body {
		case fmt.Sprintf("return bytes.Equal(%s.Interface.([]byte), %s.Interface.([]byte))", er, eo):
			class = "QBytes"
		case fmt.Sprintf("return reflect.DeepEqual(%s.Interface, %s.Interface)", er, eo):
			class = "QDeep"
		case fmt.Sprintf("return sameComplex128(%s.Interface.(complex128), %s.Interface.(complex128))", er, eo):
			if err := c03CheckSameComplex(s, "sameComplex128", "math.Float64bits", "float64"); err != nil {
				return err
			}
			class = "QComplexBits"
		case fmt.Sprintf("return sameComplex64(%s.Interface.(complex64), %s.Interface.(complex64))", er, eo):
			if err := c03CheckSameComplex(s, "sameComplex64", "math.Float32bits", "float32"); err != nil {
				return err
			}
			class = "QComplexBits"
		default:
			return s.errf(cl.Body[0], "Equals arm not understood")
		}
		for _, e := range cl.List {
			n := s.src(e)
			if !known[n] || seen[n] {
				return s.errf(e, "case label is not a (fresh) FieldType constant")
			}
			if class == "QComplexBits" {
				want := map[string]string{"sameComplex128": "Complex128Type", "sameComplex64": "Complex64Type"}
				for fn, ft := range want {
					if strings.Contains(body, fn+"(") && n != ft {
						return s.errf(e, "%s used for %s", fn, n)
					}
				}
			}
			seen[n] = true
			eqs = append(eqs, fmt.Sprintf("  (%s, %s)", coqStr(n), class))
		}
	}
	if !sawDefault {
		return s.errf(esw, "Equals has no default arm")
	}
	b.WriteString("Definition eq_classes : list (name * eqclass) := [\n" + strings.Join(eqs, ";\n") + "\n].\n")
	return c03WriteFile(filepath.Join(out, "AddTo.v"), b.String())
}

// func sameComplex128(a, b complex128) bool {
//     return math.Float64bits(real(a)) == math.Float64bits(real(b)) && math.Float64bits(imag(a)) == math.Float64bits(imag(b)) }
func c03CheckSameComplex(s *c03Src, name, bits, _ string) error {
	fd := c03FindMethod(s, "", name)
	if fd == nil {
		return fmt.Errorf("%s not found", name)
	}
	want := fmt.Sprintf("{ return %s(real(a)) == %s(real(b)) && %s(imag(a)) == %s(imag(b)) }", bits, bits, bits, bits)
	ps := fd.Type.Params.List
	cty := "complex" + map[string]string{"math.Float64bits": "128", "math.Float32bits": "64"}[bits]
	if got := s.src(fd.Body); got != want || len(ps) != 1 || len(ps[0].Names) != 2 || ps[0].Names[0].Name != "a" ||
		ps[0].Names[1].Name != "b" || s.src(ps[0].Type) != cty {
		return s.errf(fd, "%s is not the bitwise comparison (want body %q)", name, want)
	}
	return nil
}

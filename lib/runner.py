import fcntl, glob, hashlib, json, os, re, shutil, subprocess, sys, time

ROOT = os.path.dirname(os.path.dirname(os.path.abspath(__file__)))
COQ = os.path.join(ROOT, "coq")
WORK = os.path.join(ROOT, "work")
GOENV = dict(os.environ, GOFLAGS="-mod=mod", GOPROXY="off", GOSUMDB="off", GOTOOLCHAIN="local",
             CGO_ENABLED=os.environ.get("CGO_ENABLED", "1"))

FORBIDDEN = re.compile(r"\b(Admitted|admit|Axiom|Axioms|Parameter|Parameters|Conjecture|Conjectures|Hypothesis|Variable)\b|Unset Guard|bypass_check|type-in-type|impredicative-set|Admit Obligations")

KERNEL_TB = [
    "Coq 8.16.1 kernel (coqc; coqchk in the thorough tier); vm_compute used in reflective proofs and Examples; no native_compute",
    "Extraction: Require Extraction + ExtrOcamlBasic only (Extract Inductive bool/option/unit/list/prod/sumbool/sumor, Extract Inlined Constant andb/orb/negb/fst/snd); N/Z/positive/nat/byte stay extracted datatypes; OCaml 4.13.1 ocamlfind ocamlopt",
    "ocaml/driver.ml glue (S-expression reader/printer, Obj.magic byte<->int self-tested at startup) and lib/runner.py",
    "Go harness /verif/harness (case generators, builders of real zap objects from cases, recording sinks/cores)",
]


def sh(cmd, cwd=None, timeout=3600, env=None, capture=True):
    try:
        p = subprocess.run(cmd, cwd=cwd, shell=isinstance(cmd, str), env=env, timeout=timeout,
                           stdout=subprocess.PIPE if capture else None, stderr=subprocess.STDOUT if capture else None,
                           text=True, errors="replace")
    except subprocess.TimeoutExpired as e:
        out = e.stdout or ""
        if isinstance(out, bytes):
            out = out.decode("utf-8", "replace")
        return 124, out + "\n[timed out after %s s]" % timeout
    return p.returncode, (p.stdout or "")


class Lock:
    def __enter__(self):
        os.makedirs(WORK, exist_ok=True)
        self.f = open(os.path.join(WORK, ".lock"), "w")
        fcntl.flock(self.f, fcntl.LOCK_EX)
        return self

    def __exit__(self, *a):
        fcntl.flock(self.f, fcntl.LOCK_UN)
        self.f.close()


def load_prop(pid):
    with open(os.path.join(ROOT, "props", pid + ".json")) as f:
        return json.load(f)


def scan_forbidden():
    """No Admitted/admit/Axiom/Parameter/... anywhere in the development (comments excluded)."""
    hits = []
    for path in glob.glob(os.path.join(COQ, "theories", "**", "*.v"), recursive=True):
        src = open(path, errors="replace").read()
        # strip (nested) comments
        out, depth, i = [], 0, 0
        while i < len(src):
            if src.startswith("(*", i):
                depth += 1; i += 2
            elif src.startswith("*)", i) and depth > 0:
                depth -= 1; i += 2
            else:
                if depth == 0:
                    out.append(src[i])
                i += 1
        code = "".join(out)
        in_section = 0
        for ln, line in enumerate(code.split("\n"), 1):
            if re.match(r"\s*Section\b", line):
                in_section += 1
            if re.match(r"\s*End\b", line) and in_section > 0:
                in_section -= 1
            m = FORBIDDEN.search(line)
            if m:
                w = m.group(0)
                if w in ("Hypothesis", "Variable") and in_section > 0:
                    continue
                if w in ("Hypothesis", "Variable") and not re.match(r"\s*(Hypothesis|Variable)\b", line):
                    continue
                hits.append("%s:%d: %s" % (os.path.relpath(path, ROOT), ln, line.strip()[:120]))
    return hits


def build_coq(clean=False):
    """Full .vo build (never -vos). Returns (ok, log)."""
    if not os.path.exists(os.path.join(COQ, "Makefile")) or clean:
        rc, out = sh("coq_makefile -f _CoqProject -o Makefile", cwd=COQ, timeout=120)
        if rc != 0:
            return False, out
    if clean:
        sh("make clean", cwd=COQ, timeout=300)
    rc, out = sh("timeout 3000 make -j16", cwd=COQ, timeout=3100)
    return rc == 0, out


def check_props_file(prop):
    """Recompile Props/Cxx.v alone to count theorems and collect Print Assumptions output."""
    rel = prop["coq_props"]
    src = open(os.path.join(COQ, rel)).read()
    theorems = re.findall(r"^\s*(?:Theorem|Corollary)\s+(\w+)", src, re.M)
    n_pa = len(re.findall(r"^\s*Print Assumptions\b", src, re.M))
    rc, out = sh("timeout 900 coqc -Q theories Zap %s" % rel, cwd=COQ, timeout=1000)
    closed = out.count("Closed under the global context")
    axioms = []
    if "Axioms:" in out:
        for blk in out.split("Axioms:")[1:]:
            for line in blk.split("\n")[1:]:
                m = re.match(r"^(\S+)\s*:", line)
                if m:
                    axioms.append(m.group(1))
                elif line.strip() == "" or line.startswith("Closed"):
                    break
    return {"ok": rc == 0, "theorems": theorems, "print_assumptions": n_pa, "closed": closed,
            "axioms": sorted(set(axioms)), "log": out[-3000:]}


def stale(target, sources):
    if not os.path.exists(target):
        return True
    t = os.path.getmtime(target)
    return any(os.path.getmtime(s) > t for s in sources if os.path.exists(s))


def build_driver():
    vs = glob.glob(os.path.join(COQ, "theories", "**", "*.v"), recursive=True)
    drv = os.path.join(ROOT, "ocaml", "driver")
    if stale(drv, vs + [os.path.join(ROOT, "ocaml", "driver.ml")]):
        rc, out = sh(os.path.join(ROOT, "ocaml", "build.sh"), timeout=1300)
        return rc == 0, out
    return True, ""


REPO = os.environ.get("VERIF_REPO", "/repo")


def harness_dir():
    """The harness module replaces go.uber.org/zap by /repo.  For development against a scratch
    worktree (VERIF_REPO=/tmp/...), a copy of the module with rewritten replace directives is used;
    registered commands never set VERIF_REPO."""
    src = os.path.join(ROOT, "harness")
    if REPO == "/repo":
        return src
    dst = os.path.join(WORK, "harness-alt")
    if os.path.exists(dst):
        shutil.rmtree(dst)
    shutil.copytree(src, dst)
    gm = open(os.path.join(dst, "go.mod")).read().replace("=> /repo/exp", "=> %s/exp" % REPO).replace("=> /repo\n", "=> %s\n" % REPO)
    open(os.path.join(dst, "go.mod"), "w").write(gm)
    return dst


def build_gen_and_harness(tags="verif", race=False, name="zapdrive"):
    """The harness is built against the repository's current working tree on every run."""
    cmd = "go build -tags %s %s -o %s ." % (tags, "-race" if race else "", os.path.join(WORK, name))
    rc, out = sh(cmd, cwd=harness_dir(), env=GOENV, timeout=1200)
    return rc == 0, out


def run_gen(prop):
    """Regenerate coq/theories/Gen/*.v from /repo's working tree (translator gen/)."""
    gens = prop.get("gen", [])
    if not gens:
        return True, ""
    os.makedirs(os.path.join(COQ, "theories", "Gen"), exist_ok=True)
    rc, out = sh("go run . -repo " + REPO + " -out %s %s" % (os.path.join(COQ, "theories", "Gen"), " ".join(gens)),
                 cwd=os.path.join(ROOT, "gen"), env=GOENV, timeout=600)
    return rc == 0, out


def known_findings():
    p = os.path.join(ROOT, "known_findings.json")
    if not os.path.exists(p):
        return []
    return json.load(open(p))


def write_replay(pid, name, body):
    os.makedirs(os.path.join(ROOT, "replays"), exist_ok=True)
    path = os.path.join("replays", "%s-%s.json" % (pid, name))
    with open(os.path.join(ROOT, path), "w") as f:
        json.dump(body, f, indent=1)
    return path


def write_evidence(pid, ev):
    # evidence is only ever written by runs against /repo itself; development runs against a
    # scratch worktree (VERIF_REPO) leave it under work/
    d = os.path.join(ROOT, "evidence") if REPO == "/repo" else os.path.join(WORK, "evidence-alt")
    os.makedirs(d, exist_ok=True)
    with open(os.path.join(d, pid + ".json"), "w") as f:
        json.dump(ev, f, indent=1)


def parse_meta(s):
    d = {}
    for kv in s.strip().split(","):
        if "=" in kv:
            k, v = kv.split("=", 1)
            d[k] = v
    return d


def run_cases(prop, pid, seed, tier, race=False):
    """Run the harness and the driver; return parsed rows + side-channel lines."""
    cases = os.path.join(WORK, "%s.%s.cases" % (pid, tier))
    results = os.path.join(WORK, "%s.%s.results" % (pid, tier))
    exe = os.path.join(WORK, "zapdrive-race" if race else "zapdrive")
    tmo = prop.get("timeout_thorough", 7200) if tier == "thorough" else prop.get("timeout_quick", 900)
    rc, out = sh([exe, pid, "-seed", str(seed), "-tier", tier, "-out", cases], timeout=tmo, env=GOENV)
    if rc != 0:
        # a harness that crashes or hangs against this tree is itself a finding: name the last case it emitted
        last = ""
        try:
            with open(cases, errors="replace") as fc:
                for line in fc:
                    if line.strip() and not line.startswith("!"):
                        last = line.split("\t")[0][:300]
        except OSError:
            pass
        how = "did not terminate within %d s" % tmo if rc == 124 else "exited with status %d" % rc
        # findings the harness had already written before it died are still reported (with their inputs)
        side = []
        try:
            with open(cases, errors="replace") as fc:
                side = [l.rstrip("\n").split("\t") for l in fc if l.startswith("!") and l.endswith("\n")]
        except OSError:
            pass
        return ([], side), "harness %s (last case emitted: %s): %s" % (how, last or "none", out[-4000:])
    rc2, out2 = sh("%s %d %s > %s" % (os.path.join(ROOT, "ocaml", "driver"), prop["num"], cases, results), timeout=tmo)
    if rc2 != 0:
        return None, "driver failed (rc=%d): %s" % (rc2, out2[-2000:])
    rows, side = [], []
    with open(cases, errors="replace") as fc, open(results) as fr:
        verdicts = iter(fr)
        idx = 0
        for line in fc:
            line = line.rstrip("\n")
            if not line:
                continue
            if line.startswith("!"):
                side.append(line.split("\t"))
                continue
            parts = line.split("\t")
            v = next(verdicts).rstrip("\n")
            rows.append({"idx": idx, "input": parts[0], "obs": parts[1] if len(parts) > 1 else "",
                         "meta": parse_meta(parts[2]) if len(parts) > 2 else {}, "verdict": v})
            idx += 1
    return (rows, side), ""


def main(argv):
    if not argv:
        print(__doc__ if __doc__ else "usage: check <Cxx> [quick|thorough]")
        return 2
    pid = argv[0]
    tier = os.environ.get("VERIF_TIER", "quick")
    replay = None
    i = 1
    while i < len(argv):
        if argv[i] in ("quick", "thorough"):
            tier = argv[i]
        elif argv[i] == "--replay":
            replay = argv[i + 1]; i += 1
        i += 1
    seed = int(os.environ.get("VERIF_SEED", "1") or "1")
    prop = load_prop(pid)
    if replay:
        return do_replay(prop, pid, replay)
    t0 = time.time()
    os.makedirs(WORK, exist_ok=True)
    viols = []          # (what, replay_body, found_input: bool)
    notes = []
    with Lock():
        okg, outg = run_gen(prop)
        okc, outc = build_coq(clean=(tier == "thorough" and os.environ.get("VERIF_NO_CLEAN") != "1"))
        pf = check_props_file(prop) if okc else {"ok": False, "theorems": [], "print_assumptions": 0, "closed": 0, "axioms": [], "log": outc[-3000:]}
        forb = scan_forbidden()
        if okc:
            okd, outd = build_driver()
        else:
            # A proof (or a reflective obligation over regenerated facts) no longer compiles.  The models
            # contain no proofs (Cxx/Model.v), so they may still build: run them anyway, so that the spec
            # oracle can look for a concrete failing input (DESIGN.md section 2, violation protocol).
            rcm, outm = sh("timeout 3000 make -k -j16 theories/Extract/Dispatch.vo", cwd=COQ, timeout=3100)
            if rcm == 0:
                okd, outd = build_driver()
            elif os.path.exists(os.path.join(ROOT, "ocaml", "driver")):
                # not even the models build: judge the cases with the model/oracle extracted by the last successful build
                okd, outd = True, ""
                notes.append("Coq build failed; cases judged by the previously extracted model and oracle")
            else:
                okd, outd = False, "coq build failed"
        okh, outh = build_gen_and_harness()
        if prop.get("race") and (tier == "thorough" or prop.get("race_quick")):
            okr, outr = build_gen_and_harness(race=True, name="zapdrive-race")
            if not okr:
                notes.append("race-instrumented harness did not build: " + outr[-500:])
        chk = None
        if tier == "thorough" and okc and prop.get("coqchk", True) and os.environ.get("VERIF_NO_COQCHK") != "1":
            mod = "Zap." + prop["coq_props"].replace("theories/", "").replace(".v", "").replace("/", ".")
            rcc, outcc = sh("timeout 2400 coqchk -silent -o -Q theories Zap %s" % mod, cwd=COQ, timeout=2500)
            chk = {"rc": rcc, "tail": outcc[-1500:]}
            if rcc != 0:
                notes.append("coqchk did not succeed: rc=%d" % rcc)
    obligations = len(pf["theorems"])
    discharged = obligations if (pf["ok"] and pf["closed"] == pf["print_assumptions"] and not forb) else 0
    if not okg:
        viols.append(("translator could not regenerate facts from /repo: " + outg[-1500:], {"kind": "obligation-broken", "theorem_or_correspondence": "gen/ translator", "log": outg[-3000:]}, False))
    if not okc or not pf["ok"]:
        viols.append(("Coq development does not compile", {"kind": "obligation-broken", "theorem_or_correspondence": prop["coq_props"], "log": (outc if not okc else pf["log"])[-3000:]}, False))
    elif pf["closed"] != pf["print_assumptions"]:
        allowed = set(prop.get("allowed_axioms", []))
        if not set(pf["axioms"]) <= allowed:
            viols.append(("a theorem depends on axioms: %s" % pf["axioms"], {"kind": "obligation-broken", "theorem_or_correspondence": prop["coq_props"], "axioms": pf["axioms"]}, False))
        else:
            discharged = obligations
    if forb:
        viols.append(("forbidden declaration in the development", {"kind": "obligation-broken", "hits": forb}, False))
    if not okh:
        viols.append(("harness does not build against /repo's working tree", {"kind": "correspondence-broken", "theorem_or_correspondence": "harness build", "log": outh[-3000:]}, False))
    if okc and not okd:
        viols.append(("extraction/driver build failed", {"kind": "obligation-broken", "log": outd[-3000:]}, False))

    rows, side = [], []
    if okh and okd:
        res, err = run_cases(prop, pid, seed, tier)
        if err:
            viols.append((err[:300], {"kind": "correspondence-broken", "theorem_or_correspondence": "harness run", "log": err}, False))
        if res is not None:
            rows, side = res
        if res is not None and not err:
            if prop.get("race") and tier == "thorough":
                res2, err2 = run_cases(prop, pid, seed, "thorough", race=True)
                if err2:
                    viols.append((err2[:300], {"kind": "correspondence-broken", "theorem_or_correspondence": "race run", "log": err2}, False))
                if res2 is not None:
                    side += res2[1]

    # ---- decide ----
    kfs = [k for k in known_findings() if k.get("property") == pid and k.get("status") == "known"]
    kf_hit = {}
    spec_fail = [r for r in rows if " S0" in r["verdict"] or r["verdict"].startswith("ERR")]
    mism = [r for r in rows if r["verdict"].startswith("M0")]
    assume_fail = [s for s in side if s[0] == "!ASSUME"]
    # W0 = the case's oracle values fail the executable well-formedness monitor: a broken
    # standard-library assumption, reported as such and excluded from the verdicts
    wf_fail = [r for r in rows if " W0" in r["verdict"]]
    assume_fail += [["!ASSUME", "oracle values of case %d are not well-formed: %s" % (r["idx"], r["input"][:200])] for r in wf_fail[:20]]
    spec_fail = [r for r in spec_fail if " W0" not in r["verdict"]]
    mism = [r for r in mism if " W0" not in r["verdict"]]

    def match_known(sig):
        for k in kfs:
            if k.get("signature") == sig:
                return k
        return None

    real_spec_fail = []
    for r in spec_fail:
        sig = r["meta"].get("kf", "")
        k = match_known(sig) if sig else None
        if k:
            kf_hit.setdefault(sig, []).append(r)
        else:
            real_spec_fail.append(r)
    real_mism = [r for r in mism if not (r["meta"].get("kf") and match_known(r["meta"]["kf"]))]
    for s in side:
        if s[0] == "!VIOL":
            what = s[1] if len(s) > 1 else "?"
            sig = ""
            m = re.match(r"^\[kf=([^\]]+)\]\s*(.*)$", what)
            if m:
                sig, what = m.group(1), m.group(2)
            k = match_known(sig) if sig else None
            if k:
                kf_hit.setdefault(sig, []).append({"input": s[2] if len(s) > 2 else "", "obs": what})
            else:
                viols.append((what, {"kind": "impl-violates-spec", "what": what, "case": s[2] if len(s) > 2 else "", "seed": seed, "tier": tier}, True))
    if real_spec_fail:
        r = min(real_spec_fail, key=lambda r: len(r["input"]))
        exp = r["verdict"].replace(" W0", "").split(" ", 2)[2] if r["verdict"].startswith("M0") and r["verdict"].count(" ") >= 2 else None
        viols.append(("implementation output rejected by the property's oracle (%d cases; smallest shown)" % len(real_spec_fail),
                      {"kind": "impl-violates-spec", "theorem_or_correspondence": prop.get("spec_name", pid + " spec oracle"),
                       "seed": seed, "tier": tier, "index": r["idx"], "case": r["input"], "observed": r["obs"],
                       "expected_by_model": exp, "meta": r["meta"], "failing_cases": len(real_spec_fail),
                       "rerun": "./check %s --replay <this file>" % pid}, True))
    elif real_mism:
        r = min(real_mism, key=lambda r: len(r["input"]))
        exp = r["verdict"].split(" ", 2)[2] if r["verdict"].count(" ") >= 2 else None
        viols.append(("model and implementation disagree on %d cases; the oracle accepts the implementation's outputs" % len(real_mism),
                      {"kind": "correspondence-broken", "theorem_or_correspondence": "correspondence %s model vs /repo" % pid,
                       "seed": seed, "tier": tier, "index": r["idx"], "case": r["input"], "observed": r["obs"],
                       "expected_by_model": exp, "meta": r["meta"], "disagreeing_cases": len(real_mism),
                       "rerun": "./check %s --replay <this file>" % pid}, False))

    # ---- evidence ----
    distinct_nt = len({hashlib.sha1(r["input"].encode()).hexdigest() for r in rows if r["meta"].get("nt") == "1"})
    dist = {}
    for r in rows:
        c = r["meta"].get("class", "?")
        dist[c] = dist.get(c, 0) + 1
    infos = {}
    for s in side:
        if s[0] == "!INFO" and len(s) > 1 and "=" in s[1]:
            k, v = s[1].split("=", 1)
            infos[k] = v
    nt_rows = [r for r in rows if r["meta"].get("nt") == "1"]
    samples = [{"case": r["input"][:600], "observed": r["obs"][:600]} for r in (nt_rows[:2] + nt_rows[len(nt_rows) // 2: len(nt_rows) // 2 + 1])]
    if not samples:
        samples = [{"case": r["input"][:600], "observed": r["obs"][:600]} for r in rows[:2]] or [{"obligation": t} for t in pf["theorems"][:3]]
    ev = {
        "property_id": pid, "tier": tier, "seed": seed, "level": "proof",
        "coverage": {
            "obligations": max(obligations, 1) if obligations else 1,
            "discharged": discharged,
            "checker_cmd": "make -C coq -j16 (coq_makefile, full .vo build) && coqc -Q theories Zap %s" % prop["coq_props"] + ("; coqchk -silent -o" if chk else ""),
            "trusted_base": KERNEL_TB + prop.get("trusted_base", []),
            "theorems": pf["theorems"],
            "print_assumptions_closed": pf["closed"],
            "axioms": pf["axioms"],
            "evaluations": len(rows),
            "distinct_nontrivial": distinct_nt,
            "rule": prop.get("rule", ""),
            "samples": samples,
            "input_distribution": dist,
            "model_impl_mismatches": len(mism),
            "oracle_rejections": len(spec_fail),
            "assumption_monitor_failures": len(assume_fail),
            "known_findings_hit": {k: len(v) for k, v in kf_hit.items()},
            "info": infos,
            "coqchk": chk,
        },
        "assumptions": prop.get("assumptions", []),
        "wall_s": round(time.time() - t0, 2),
        "violations": len(viols),
    }
    if notes:
        ev["coverage"]["notes"] = notes
    write_evidence(pid, ev)
    if REPO != "/repo":
        # a development run against a scratch worktree regenerated the fact files from THAT tree:
        # put the committed (clean-tree) versions back so that they are never committed by accident
        sh("git checkout -- coq/theories/Gen harness/gen_c03_registry.go harness/gen_c20_levels.go", cwd=ROOT, timeout=60)

    for sig, rs in kf_hit.items():
        k = match_known(sig)
        print("KNOWN-FINDING: property=%s %s (%d cases this run)" % (pid, k.get("what", sig), len(rs)))
    for a in assume_fail[:5]:
        print("ASSUMPTION-MONITOR: property=%s %s" % (pid, " ".join(a[1:])[:300]))
    if not viols:
        print("OK property=%s tier=%s theorems=%d/%d cases=%d nontrivial=%d wall=%.1fs" % (pid, tier, discharged, obligations, len(rows), distinct_nt, time.time() - t0))
        return 0
    for n, (what, body, found) in enumerate(viols):
        body = dict(body, property=pid, what=what)
        path = write_replay(pid, "%s-%d-%d" % (tier, seed, n), body)
        print("# %s" % what[:500])
        print("VIOLATION property=%s replay=%s%s" % (pid, path, "" if found else " no-failing-input-found"))
    return 1


def do_replay(prop, pid, path):
    body = json.load(open(path if os.path.isabs(path) or os.path.exists(path) else os.path.join(ROOT, path)))
    with Lock():
        build_coq(); build_driver(); okh, outh = build_gen_and_harness()
    if not okh:
        print(outh); return 2
    if "index" not in body:
        print(json.dumps(body, indent=1)); return 0
    res, err = run_cases(prop, pid, body["seed"], body["tier"])
    if res is None or err:
        print(err); return 2
    rows, side = res
    r = rows[body["index"]]
    print("case:     ", r["input"][:2000])
    print("observed: ", r["obs"][:2000])
    print("verdict:  ", r["verdict"][:2000])
    bad = r["verdict"].startswith("M0") or " S0" in r["verdict"]
    return 1 if bad else 0

#!/usr/bin/env python3
"""Validate MANIFEST.json and every evidence file against the schemas (uses the tooling venv's jsonschema if available)."""
import json, sys, os, glob
ROOT = os.path.dirname(os.path.dirname(os.path.abspath(__file__)))
try:
    import jsonschema
except ImportError:
    sys.path.insert(0, glob.glob("/opt/veriftools/pyvenv/lib/python3*/site-packages")[0])
    import jsonschema
ok = True
m = json.load(open(os.path.join(ROOT, "MANIFEST.json")))
jsonschema.validate(m, json.load(open("/root/.vp/MANIFEST.schema.json")))
print("MANIFEST ok: %d checks, %d not_applicable" % (len(m["checks"]), len(m.get("not_applicable", []))))
props = [json.loads(l)["id"] for l in open(os.path.join(ROOT, "properties.jsonl"))]
claimed = {c["property_id"] for c in m["checks"]}
na = {c["property_id"] for c in m.get("not_applicable", [])}
for p in props:
    if (p in claimed) == (p in na):
        print("property %s: claimed=%s not_applicable=%s" % (p, p in claimed, p in na)); ok = False
sch = json.load(open("/root/.vp/EVIDENCE.schema.json"))
for c in m["checks"]:
    p = os.path.join(ROOT, c["evidence_file"]) if not os.path.isabs(c["evidence_file"]) else c["evidence_file"]
    if not os.path.exists(p):
        print("missing evidence", p); ok = False; continue
    try:
        ev = json.load(open(p)); jsonschema.validate(ev, sch)
        cov = ev["coverage"]
        if ev["level"] == "proof" and cov.get("obligations") != cov.get("discharged"):
            print("evidence %s: discharged != obligations" % p); ok = False
    except Exception as e:
        print("invalid evidence", p, str(e)[:300]); ok = False
print("ALL OK" if ok else "PROBLEMS")
sys.exit(0 if ok else 1)

#!/bin/bash
# run every claimed check (quick tier) and print one line each; exit non-zero if any fails
cd "$(dirname "$0")/.."
rc=0
for p in $(python3 -c "import json;print(' '.join(c['property_id'] for c in json.load(open('MANIFEST.json'))['checks']))"); do
  out=$(./check $p ${1:-quick} 2>&1 | grep -v '^KNOWN-FINDING' | tail -2 | tr '\n' ' ')
  echo "$p: $out"
  case "$out" in *VIOLATION*|*Traceback*) rc=1;; esac
done
exit $rc

#!/usr/bin/env python3
"""Regenerate MANIFEST.json from props/*.json (one file per claimed property)."""
import json, os, glob
ROOT = os.path.dirname(os.path.dirname(os.path.abspath(__file__)))
props = [json.loads(l) for l in open(os.path.join(ROOT, "properties.jsonl"))]
claimed = {}
for p in sorted(glob.glob(os.path.join(ROOT, "props", "C*.json"))):
    d = json.load(open(p)); claimed[d["id"]] = d
pending = json.load(open(os.path.join(ROOT, "props", "pending.json"))) if os.path.exists(os.path.join(ROOT, "props", "pending.json")) else {}
hooks = json.load(open(os.path.join(ROOT, "props", "hooks.json")))
checks, na = [], []
for p in props:
    pid = p["id"]
    if pid in claimed:
        d = claimed[pid]
        checks.append({
            "property_id": pid,
            "quick_cmd": "./check %s quick" % pid,
            "thorough_cmd": "./check %s thorough" % pid,
            "evidence_file": "evidence/%s.json" % pid,
            "replay_cmd_template": "./check %s --replay {path}" % pid,
            "engine": "coq-model+correspondence",
            "level_claimed": {"category": "proof", "text": d["level_text"], "design_ref": d.get("design_ref", "DESIGN.md section 5, " + pid)},
            "level_note": d["level_note"],
            "technique": d.get("technique", "Coq 8.16 theorems over a Gallina model + extracted-model correspondence against /repo"),
        })
    else:
        na.append({"property_id": pid, "reason": pending.get(pid, "not yet claimed: the Coq model, theorems and correspondence harness for this property are not built in this revision (planned, DESIGN.md section 5)")})
m = {
    "version": 1,
    "setup_cmd": "./setup.sh",
    "hooks": hooks,
    "engines": [{"name": "coq-model+correspondence", "path": "coq/ ocaml/ harness/ lib/runner.py",
                 "serves_properties": sorted(claimed),
                 "kind_free_text": "Coq 8.16.1 development (Gallina models of zap's code, property theorems in coq/theories/Props) + models extracted to OCaml (ExtrOcamlBasic) and run against the real zap (Go harness with replace => /repo) on seeded and exhaustive cases; spec oracles extracted from the same development judge the implementation's observations"}],
    "checks": checks,
    "not_applicable": na,
    "notes": "Every check: regenerate facts (where used) -> full .vo make -> recompile Props/Cxx.v collecting Print Assumptions -> forbidden-word scan -> build harness against /repo working tree -> run cases on real zap -> run extracted model + oracle -> decide. See DESIGN.md.",
}
json.dump(m, open(os.path.join(ROOT, "MANIFEST.json"), "w"), indent=1)
print("claimed:", sorted(claimed), "not claimed:", [x["property_id"] for x in na])

package main

import (
	"fmt"
	"net/url"
	"runtime"
	"sync"
	"sync/atomic"
	"time"

	"go.uber.org/zap"
	"go.uber.org/zap/zapcore"
)

// C13, case kind 4: several HANDLES onto one sink (coq/theories/C13/Model.v, section D).
//
//	(4 mode root (step ..) (((h k) ..) ..) (tid ..))
//
// Handle 0 is a locked WriteSyncer over the gate sink, built by one of zap's own constructors
// (root kind); every step derives one more handle from EARLIER handles by zapcore.Lock /
// zapcore.AddSync / zapcore.NewMultiWriteSyncer / zap.CombineWriteSyncers (argument -1: some
// other sink).  Lock promises that writes and syncs on the wrapped sink are mutually exclusive;
// the original locked handle and every handle obtained by locking / combining it again guard
// the same sink, so they must exclude each other's Write and Sync.
//
//	mode 1 (gated):  thread 0 makes one call and is parked INSIDE the sink; every other thread
//	                 then makes its call through its own handle; the sink records whether a
//	                 second call got in while the first was inside (bounded wait), then the
//	                 gate opens.  Deterministic on a tree that loses the exclusion: the
//	                 second call simply walks in.
//	mode 0 (stress): goroutines hammer the sink through their handles, the sink counts the
//	                 calls in flight.
//
// Observation: (max-in-flight completed-sink-calls).

// the observed sink; also a zap.Sink (Close), so that zap.Open can hand it out
type c13gate struct {
	cur, max, fin int64
	spin          int
	armed         int32         // 1: the next call that enters parks until release is closed
	entered       chan struct{} // closed by the parked call once it is inside
	release       chan struct{}
}

func (s *c13gate) call() {
	v := atomic.AddInt64(&s.cur, 1)
	for {
		m := atomic.LoadInt64(&s.max)
		if v <= m || atomic.CompareAndSwapInt64(&s.max, m, v) {
			break
		}
	}
	if atomic.CompareAndSwapInt32(&s.armed, 1, 0) {
		close(s.entered)
		<-s.release
	} else {
		for i := 0; i < s.spin; i++ {
			runtime.Gosched()
		}
	}
	atomic.AddInt64(&s.fin, 1)
	atomic.AddInt64(&s.cur, -1)
}
func (s *c13gate) Write(p []byte) (int, error) { s.call(); return len(p), nil }
func (s *c13gate) Sync() error                 { s.call(); return nil }
func (s *c13gate) Close() error                { return nil }

// some other sink
type c13nop struct{}

func (c13nop) Write(p []byte) (int, error) { return len(p), nil }
func (c13nop) Sync() error                 { return nil }

type c13step struct {
	op   int   // 0 Lock 1 AddSync 2 NewMultiWriteSyncer 3 CombineWriteSyncers
	args []int // earlier handle numbers; -1: some other sink
}

func (s c13step) sx() SX {
	if s.op <= 1 {
		return L(I(s.op), I(s.args[0]))
	}
	return L(I(s.op), LI(s.args))
}

type c13call struct{ h, k int } // k: 0 Write, 1 Sync

var c13schemeSeq int64

const c13roots = 6

// handle 0, by zap's own constructors
func c13root(kind int, g *c13gate) (zapcore.WriteSyncer, error) {
	switch kind {
	case 0:
		return zapcore.Lock(g), nil
	case 1:
		return zap.CombineWriteSyncers(g), nil
	case 2:
		return zap.CombineWriteSyncers(g, c13nop{}), nil
	case 3:
		return zapcore.Lock(zapcore.AddSync(g)), nil
	case 4:
		return zapcore.Lock(zapcore.NewMultiWriteSyncer(c13nop{}, g)), nil
	default:
		// zap.Open over a registered sink: what zap.Config.Build does with OutputPaths
		scheme := fmt.Sprintf("c13g%d", atomic.AddInt64(&c13schemeSeq, 1))
		if err := zap.RegisterSink(scheme, func(*url.URL) (zap.Sink, error) { return g, nil }); err != nil {
			return nil, err
		}
		ws, _, err := zap.Open(scheme + "://sink")
		return ws, err
	}
}

func c13handles(root int, steps []c13step, g *c13gate) ([]zapcore.WriteSyncer, error) {
	r, err := c13root(root, g)
	if err != nil {
		return nil, err
	}
	hs := []zapcore.WriteSyncer{r}
	pick := func(i int) zapcore.WriteSyncer {
		if i < 0 || i >= len(hs) {
			return c13nop{}
		}
		return hs[i]
	}
	for _, s := range steps {
		var h zapcore.WriteSyncer
		switch s.op {
		case 0:
			h = zapcore.Lock(pick(s.args[0]))
		case 1:
			h = zapcore.AddSync(pick(s.args[0]))
		default:
			ws := make([]zapcore.WriteSyncer, len(s.args))
			for i, a := range s.args {
				ws[i] = pick(a)
			}
			if s.op == 2 {
				h = zapcore.NewMultiWriteSyncer(ws...)
			} else {
				h = zap.CombineWriteSyncers(ws...)
			}
		}
		hs = append(hs, h)
	}
	return hs, nil
}

// how often one call through each handle reaches the gate sink (generator bookkeeping only:
// which handles can park; the oracle computes its own)
func c13reach(steps []c13step) []int {
	rs := []int{1}
	for _, s := range steps {
		n := 0
		for _, a := range s.args {
			if a >= 0 && a < len(rs) {
				n += rs[a]
			}
		}
		rs = append(rs, n)
	}
	return rs
}

func c13hinput(mode, root int, steps []c13step, prog [][]c13call, sched []int) SX {
	ss := make([]SX, len(steps))
	for i, s := range steps {
		ss[i] = s.sx()
	}
	ps := make([]SX, len(prog))
	for t, calls := range prog {
		cs := make([]SX, len(calls))
		for j, cl := range calls {
			cs[j] = L(I(cl.h), I(cl.k))
		}
		ps[t] = L(cs...)
	}
	return L(I(4), I(mode), I(root), L(ss...), L(ps...), LI(sched))
}

func c13do(ws zapcore.WriteSyncer, k int) {
	if k == 0 {
		ws.Write([]byte("x"))
	} else {
		ws.Sync()
	}
}

func c13hmeta(class string, prog [][]c13call, steps []c13step) map[string]string {
	used := map[int]bool{}
	total := 0
	for _, calls := range prog {
		for _, cl := range calls {
			used[cl.h] = true
			total++
		}
	}
	nt := "0"
	if len(prog) >= 2 && len(used) >= 2 {
		nt = "1"
	}
	return map[string]string{"nt": nt, "class": class, "threads": fmt.Sprint(len(prog)),
		"handles": fmt.Sprint(len(steps) + 1), "calls": fmt.Sprint(total)}
}

// gated run: park thread 0's call inside the sink, let every other thread call, look
func c13gated(c *Ctx, root int, steps []c13step, park c13call, probes []c13call, wait time.Duration, class string) {
	g := &c13gate{armed: 1, entered: make(chan struct{}), release: make(chan struct{})}
	prog := [][]c13call{{park}}
	for _, p := range probes {
		prog = append(prog, []c13call{p})
	}
	in := c13hinput(1, root, steps, prog, nil)
	hs, err := c13handles(root, steps, g)
	if err != nil {
		c.Viol("building the handle graph failed: "+err.Error(), in)
		return
	}
	pdone := make(chan struct{})
	go func() { c13do(hs[park.h], park.k); close(pdone) }()
	select {
	case <-g.entered:
	case <-pdone:
		// the parking handle does not reach the sink (never generated); nothing is parked
	case <-time.After(30 * time.Second):
		c.Viol("a call through a handle onto a free sink did not reach it within 30 s", in)
		close(g.release)
		return
	}
	var started, wg sync.WaitGroup
	for _, p := range probes {
		started.Add(1)
		wg.Add(1)
		go func(p c13call) {
			defer wg.Done()
			started.Done()
			c13do(hs[p.h], p.k)
		}(p)
	}
	started.Wait()
	// bounded wait: on a tree that keeps the exclusion nobody can get in, however long we wait;
	// on a tree that lost it the second call is inside within microseconds
	deadline := time.Now().Add(wait)
	for atomic.LoadInt64(&g.max) < 2 && time.Now().Before(deadline) {
		time.Sleep(50 * time.Microsecond)
	}
	close(g.release)
	done := make(chan struct{})
	go func() { <-pdone; wg.Wait(); close(done) }()
	select {
	case <-done:
	case <-time.After(60 * time.Second):
		c.Viol("calls through handles onto one sink did not finish within 60 s after the gate opened (deadlock)", in)
		return
	}
	c.Emit(in, L(Z(atomic.LoadInt64(&g.max)), Z(atomic.LoadInt64(&g.fin))), c13hmeta(class, prog, steps))
}

// stress run: goroutines hammer the sink through their handles
func c13hstress(c *Ctx, r *RNG, root int, steps []c13step, prog [][]c13call, class string) {
	g := &c13gate{spin: 2}
	// the schedule the model is evaluated on: random turns (the model completes it)
	total := 0
	for _, calls := range prog {
		total += len(calls)
	}
	sched := make([]int, r.Intn(6*total+1))
	for i := range sched {
		sched[i] = r.Intn(len(prog) + 1)
	}
	in := c13hinput(0, root, steps, prog, sched)
	hs, err := c13handles(root, steps, g)
	if err != nil {
		c.Viol("building the handle graph failed: "+err.Error(), in)
		return
	}
	var wg sync.WaitGroup
	start := make(chan struct{})
	for _, calls := range prog {
		wg.Add(1)
		go func(calls []c13call) {
			defer wg.Done()
			<-start
			for _, cl := range calls {
				c13do(hs[cl.h], cl.k)
			}
		}(calls)
	}
	close(start)
	done := make(chan struct{})
	go func() { wg.Wait(); close(done) }()
	select {
	case <-done:
	case <-time.After(60 * time.Second):
		c.Viol("goroutines writing through handles onto one sink did not finish within 60 s (deadlock)", in)
		return
	}
	c.Emit(in, L(Z(atomic.LoadInt64(&g.max)), Z(atomic.LoadInt64(&g.fin))), c13hmeta(class, prog, steps))
}

// random derivation program of n steps
func c13hgen(r *RNG, n int) []c13step {
	steps := make([]c13step, 0, n)
	for len(steps) < n {
		have := len(steps) + 1
		arg := func() int {
			if r.Chance(60) {
				return have - 1 - r.Intn(minInt(have, 2)) // recent handles: long chains
			}
			return r.Intn(have)
		}
		x := r.Intn(100)
		switch {
		case x < 35:
			steps = append(steps, c13step{0, []int{arg()}})
		case x < 50:
			steps = append(steps, c13step{1, []int{arg()}})
		default:
			op := 2
			if x >= 72 {
				op = 3
			}
			k := 1 // the single-sink short cut
			if r.Chance(45) {
				k = r.Range(2, 3)
			}
			if r.Chance(3) {
				k = 0
			}
			args := make([]int, k)
			for i := range args {
				args[i] = arg()
				if k > 1 && r.Chance(30) {
					args[i] = -1
				}
			}
			steps = append(steps, c13step{op, args})
		}
	}
	return steps
}

func minInt(a, b int) int {
	if a < b {
		return a
	}
	return b
}

func c13handleCases(c *Ctx) {
	r := NewRNG(c.Seed ^ 0xC13E0D1F).Fork()
	wait := 2 * time.Millisecond
	if c.Thorough {
		wait = 10 * time.Millisecond
	}
	// every handle x {Write, Sync}
	allProbes := func(n int) []c13call {
		ps := []c13call{}
		for h := 0; h < n; h++ {
			ps = append(ps, c13call{h, 0}, c13call{h, 1})
		}
		return ps
	}
	// ---- directed: every root kind x every way of locking a locked syncer again; park through
	// every handle that reaches the sink, Write and Sync, probe through every handle
	S := func(op int, args ...int) c13step { return c13step{op, args} }
	shapes := [][]c13step{
		{S(0, 0)},                                // Lock(h0)
		{S(0, 0), S(0, 1)},                       // Lock(Lock(h0))
		{S(1, 0), S(0, 1)},                       // Lock(AddSync(h0))
		{S(2, 0)},                                // NewMultiWriteSyncer(h0): the single sink is returned as is
		{S(2, 0), S(0, 1)},                       // Lock(NewMultiWriteSyncer(h0))
		{S(3, 0)},                                // CombineWriteSyncers(h0)
		{S(3, 0), S(3, 1)},                       // CombineWriteSyncers(CombineWriteSyncers(h0))
		{S(3, 0, -1)},                            // CombineWriteSyncers(h0, other): a second mutex around the first
		{S(2, 0, -1), S(0, 1)},                   // Lock(NewMultiWriteSyncer(h0, other))
		{S(2, 0, 0)},                             // NewMultiWriteSyncer(h0, h0)
		{S(0, 0), S(2, 0, 1), S(3, 2)},           // CombineWriteSyncers(NewMultiWriteSyncer(h0, Lock(h0)))
		{S(3, -1, 0), S(0, 1), S(3, 2), S(1, 3)}, // AddSync(Combine(Lock(Combine(other, h0))))
	}
	for root := 0; root < c13roots; root++ {
		for si, steps := range shapes {
			rs := c13reach(steps)
			for h, n := range rs {
				if n == 0 {
					continue
				}
				for k := 0; k < 2; k++ {
					c13gated(c, root, steps, c13call{h, k}, allProbes(len(rs)), wait, fmt.Sprintf("handles-gated-dir%d", si))
				}
			}
		}
	}
	// ---- seeded random handle graphs, gated
	G := 150
	if c.Thorough {
		G = 6000
	}
	for i := 0; i < G; i++ {
		steps := c13hgen(r, r.Range(1, 7))
		rs := c13reach(steps)
		cand := []int{}
		for h, n := range rs {
			if n > 0 {
				cand = append(cand, h)
			}
		}
		park := c13call{cand[r.Intn(len(cand))], r.Intn(2)}
		var probes []c13call
		if r.Chance(50) {
			probes = allProbes(len(rs))
		} else {
			for j, m := 0, r.Range(1, 6); j < m; j++ {
				probes = append(probes, c13call{r.Intn(len(rs)), r.Intn(2)})
			}
		}
		c13gated(c, r.Intn(c13roots), steps, park, probes, wait, "handles-gated-rand")
	}
	// ---- stress: goroutines through different handles
	H := 60
	if c.Thorough {
		H = 3000
	}
	for i := 0; i < H; i++ {
		var steps []c13step
		if i%3 == 0 {
			steps = shapes[(i/3)%len(shapes)]
		} else {
			steps = c13hgen(r, r.Range(1, 6))
		}
		nh := len(steps) + 1
		T := r.Range(2, 6)
		prog := make([][]c13call, T)
		for t := range prog {
			own := r.Intn(nh) // a thread mostly sticks to "its" handle, as a core does
			if t < nh && r.Chance(50) {
				own = nh - 1 - t
			}
			prog[t] = make([]c13call, r.Range(1, 12))
			for j := range prog[t] {
				h := own
				if r.Chance(15) {
					h = r.Intn(nh)
				}
				k := 0
				if r.Chance(30) {
					k = 1
				}
				prog[t][j] = c13call{h, k}
			}
		}
		c13hstress(c, r, i%c13roots, steps, prog, "handles-stress")
	}
}

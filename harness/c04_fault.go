package main

import (
	"errors"
	"fmt"
	"regexp"
	"runtime"
	"strconv"
	"strings"
	"sync/atomic"
	"time"

	"go.uber.org/zap"
	"go.uber.org/zap/buffer"
	"go.uber.org/zap/zapcore"
)

// C04, error-path histories.  The property is about the HEALTHY destinations: whatever else
// happens in the process, every judged sink receives each accepted entry exactly once as an
// intact line.  zap keeps process-wide pooled state (internal/bufferpool, the jsonEncoder /
// sliceArrayEncoder / CheckedEntry / errArrayElem / stacktrace pools), so a rare error path
// taken by ANY logger can break "each log call encodes into its own pooled buffer" for all
// of them.  A case may therefore carry a fault plan:
//   * fault loggers: separate loggers (own cores, own ErrorOutput) over sinks whose Write /
//     Sync fail (always, every second call after a partial write, only once, short write
//     under CombineWriteSyncers, Sync only, a failing BufferedWriteSyncer, a failing branch
//     of a tee, a sink that panics), JSON or console, optionally with AddCaller +
//     AddStacktrace, a failing hook, a failing ErrorOutput, a With-context of failing fields,
//     Development mode;
//   * fault ops on them: plain entries, failing ObjectMarshaler / ArrayMarshaler / Inline,
//     zap.Reflect(chan) / zap.Any(func), panicking and nil Stringers, errors whose Error()
//     panics (zap.Error, zap.Errors), Logger.Sync, With(failing fields), DPanic / Panic level
//     entries, a panicking marshaler; executed before the goroutines start (prologue), by
//     dedicated goroutines during the concurrent phase, and inline by the judged goroutines
//     between their own log calls;
//   * a hidden failing branch inside the judged tee (its entries are not required anywhere;
//     the healthy branches must still receive the full set);
//   * error-path fields in the judged entries themselves (the sequential reference logger
//     produces the same "<key>Error" lines).
// Nothing sent to a failing sink is judged.  The healthy sinks of the fault loggers ("noise"
// sinks) are checked by a Go-side probe (every accepted fault entry exactly once, in order,
// one intact line per Write call); the judged sinks by the proved oracle as before.  The
// fault plan travels in the 4th component of the case input, which model and spec ignore
// (Props/C04.v: C04_bystanders).

const c04Marker = "c04-injected"

// error-path events provoked in this process so far (sink errors, failing marshalers, ...)
var c04Injected atomic.Int64

// ---------------------------------------------------------------- failing sinks
const (
	c04bmAlways  = 0 // Write returns (0, err)
	c04bmAlt     = 1 // every second Write returns (len/2, err)
	c04bmFirst   = 2 // only the first Write fails
	c04bmShort   = 3 // Write returns (len/2, nil): io.ErrShortWrite under a multiWriteSyncer
	c04bmSyncErr = 4 // Write succeeds (recorded in rec, if any), Sync fails
	c04bmPanic   = 5 // Write panics
)

type c04Bad struct {
	mode int
	n    atomic.Int64
	rec  *c04Rec
}

func (b *c04Bad) Write(p []byte) (int, error) {
	k := b.n.Add(1)
	switch b.mode {
	case c04bmAlways:
		c04Injected.Add(1)
		return 0, errors.New(c04Marker + " write failure")
	case c04bmAlt:
		if k%2 == 1 {
			c04Injected.Add(1)
			runtime.Gosched()
			return len(p) / 2, errors.New(c04Marker + " partial write")
		}
	case c04bmFirst:
		if k == 1 {
			c04Injected.Add(1)
			return 0, errors.New(c04Marker + " first write failed")
		}
	case c04bmShort:
		c04Injected.Add(1)
		return len(p) / 2, nil
	case c04bmPanic:
		c04Injected.Add(1)
		panic(c04Marker + " sink panic")
	}
	if b.rec != nil {
		return b.rec.Write(p)
	}
	runtime.Gosched()
	return len(p), nil
}

func (b *c04Bad) Sync() error {
	if b.rec != nil {
		_ = b.rec.Sync()
	}
	if b.mode == c04bmSyncErr || b.mode == c04bmAlways {
		c04Injected.Add(1)
		return errors.New(c04Marker + " sync failure")
	}
	return nil
}

// ---------------------------------------------------------------- failing values
type c04BadObj struct {
	n   int
	pad string
}

func (b c04BadObj) MarshalLogObject(e zapcore.ObjectEncoder) error {
	e.AddInt("n", b.n)
	runtime.Gosched() // a slow marshaler: other goroutines log while this call holds its pooled encoder and buffer
	e.AddString("p", b.pad)
	c04Injected.Add(1)
	return errors.New(c04Marker + " object marshaler")
}

type c04BadArr struct{ n int }

func (b c04BadArr) MarshalLogArray(e zapcore.ArrayEncoder) error {
	e.AppendInt(b.n)
	e.AppendString("x\"")
	c04Injected.Add(1)
	return errors.New(c04Marker + " array marshaler")
}

type c04PanicObj struct{}

func (c04PanicObj) MarshalLogObject(e zapcore.ObjectEncoder) error {
	e.AddString("half", "written")
	c04Injected.Add(1)
	panic(c04Marker + " marshaler panic")
}

type c04PanicStr struct{ n int }

func (s c04PanicStr) String() string {
	c04Injected.Add(1)
	panic(fmt.Sprintf("stringer %d", s.n))
}

type c04NilStr struct{ s string }

func (s c04NilStr) String() string { return s.s } // called on a nil *c04NilStr: nil dereference

type c04PanicErr struct{}

func (c04PanicErr) Error() string {
	c04Injected.Add(1)
	panic("error method")
}

// an error group (multierr style: encodeError adds "<key>Causes" through zapcore's pooled errArrayElem)
// whose members are slow (the goroutine yields inside Error(), while zap holds its pooled encoder,
// buffer and array element), panicking, and plain
type c04SlowErr struct{ msg string }

func (e c04SlowErr) Error() string {
	runtime.Gosched()
	return e.msg
}

type c04Group struct{ pad string }

func (g c04Group) Error() string { return "group " + g.pad }
func (g c04Group) Errors() []error {
	return []error{c04SlowErr{msg: "slow " + g.pad}, c04PanicErr{}, errors.New("last " + g.pad)}
}

// error-path fields; bits: 1 failing object, 2 failing array, 4 reflection failure, 8 panicking /
// nil Stringer, 16 errors whose Error() panics, 32 failing Inline marshaler
func c04errFields(ef, seq int, pad string) []zap.Field {
	var fs []zap.Field
	if ef&1 != 0 {
		fs = append(fs, zap.Object("eo", c04BadObj{n: seq, pad: pad}))
	}
	if ef&2 != 0 {
		fs = append(fs, zap.Array("ea", c04BadArr{n: seq}))
	}
	if ef&4 != 0 {
		fs = append(fs, zap.Reflect("ec", make(chan int)), zap.Any("ef", func() {}))
	}
	if ef&8 != 0 {
		fs = append(fs, zap.Stringer("es", c04PanicStr{n: seq}), zap.Stringer("en", (*c04NilStr)(nil)))
	}
	if ef&16 != 0 {
		fs = append(fs, zap.Error(c04PanicErr{}), zap.Errors("ee", []error{errors.New("plain " + pad), nil, c04PanicErr{}, c04SlowErr{msg: "slow " + pad}}),
			zap.NamedError("eg", c04Group{pad: pad}))
	}
	if ef&32 != 0 {
		fs = append(fs, zap.Inline(c04BadObj{n: -seq, pad: "in"}))
	}
	return fs
}

// ---------------------------------------------------------------- fault plan
type c04FLog struct {
	sink    int // see c04buildFLog
	console bool
	opts    int // 1 AddCaller+AddStacktrace(Error); 2 failing hook; 4 failing ErrorOutput; 8 With-context of failing fields; 16 Development; 32 behind a forwarding wrapper core (c04_wrap.go)
}

const c04foptWrap = 32

const c04nFSinks = 10

type c04FOp struct {
	fl   int // index into c04Faults.logs
	kind int // see c04faultOp
	lvl  zapcore.Level
	size int
}

const (
	c04fkPlain    = 0
	c04fkObj      = 1
	c04fkArr      = 2
	c04fkRefl     = 3
	c04fkStr      = 4
	c04fkErr      = 5
	c04fkInline   = 6
	c04fkSync     = 7
	c04fkWith     = 8
	c04fkAll      = 9
	c04fkPanicObj = 10
	c04nFKinds    = 11
)

type c04Faults struct {
	logs    []c04FLog
	pre     []c04FOp
	conc    [][]c04FOp
	tee     int  // hidden failing branch of the judged tee: 0 none, 1 first, 2 last, 3 after the first healthy branch
	teeMode int  // 0 Lock(always) 1 Lock(alt) 2 Lock(first) 3 Combine(short) 4 Buffered(alt) 5 Lock(sync error) 6 raw alt
	preLate bool // prologue runs while the goroutines derive their loggers (else before they are started)
}

func (cs *c04Case) hasFaults() bool {
	f := &cs.flt
	if len(f.pre) > 0 || len(f.conc) > 0 || f.tee != 0 {
		return true
	}
	for _, th := range cs.th {
		for _, o := range th.ops {
			if o.kind == 2 || o.ef != 0 {
				return true
			}
		}
	}
	return false
}

func c04fopSx(o c04FOp) SX { return L(I(o.fl), I(o.kind), I(int(o.lvl)), I(o.size)) }

// the fault history of a case, as recorded in the 4th component of the input
func c04faultsSx(cs *c04Case, errsBefore int64) SX {
	f := &cs.flt
	var logs, pre, conc, inl, efs []SX
	for _, l := range f.logs {
		logs = append(logs, L(I(l.sink), Bool(l.console), I(l.opts)))
	}
	for _, o := range f.pre {
		pre = append(pre, c04fopSx(o))
	}
	for _, t := range f.conc {
		var ops []SX
		for _, o := range t {
			ops = append(ops, c04fopSx(o))
		}
		conc = append(conc, L(ops...))
	}
	for g, th := range cs.th {
		for pos, o := range th.ops {
			if o.kind == 2 {
				inl = append(inl, L(I(g), I(pos), c04fopSx(o.f)))
			}
			if o.kind == 0 && o.ef != 0 {
				efs = append(efs, L(I(g), I(pos), I(o.ef)))
			}
		}
	}
	return L(Z(errsBefore), L(logs...), L(pre...), L(conc...), L(inl...), L(I(f.tee), I(f.teeMode), I(cs.wrap)), L(efs...))
}

func (cs *c04Case) faultTag() string {
	f := &cs.flt
	inl, efs := 0, 0
	for _, th := range cs.th {
		for _, o := range th.ops {
			if o.kind == 2 {
				inl++
			}
			if o.kind == 0 && o.ef != 0 {
				efs++
			}
		}
	}
	nc := 0
	for _, t := range f.conc {
		nc += len(t)
	}
	sinks := make([]string, len(f.logs))
	for i, l := range f.logs {
		sinks[i] = strconv.Itoa(l.sink)
		if l.opts&c04foptWrap != 0 {
			sinks[i] += "w"
		}
	}
	return fmt.Sprintf("sinks:%s;pre:%d;conc:%d;inline:%d;tee:%d/%d;wrap:%d;errfields:%d", strings.Join(sinks, "+"), len(f.pre), nc, inl, f.tee, f.teeMode, cs.wrap, efs)
}

// ---------------------------------------------------------------- live fault loggers
type c04FLive struct {
	l     *zap.Logger
	noise *c04Rec // the healthy sink of this fault logger, if it has one
	stop  func()
	dev   bool
}

func c04fenc(console bool, opts int) zapcore.Encoder {
	cfg := zapcore.EncoderConfig{
		MessageKey: "fm", LevelKey: "l", NameKey: "n",
		LineEnding:     zapcore.DefaultLineEnding,
		EncodeLevel:    zapcore.CapitalLevelEncoder,
		EncodeDuration: zapcore.StringDurationEncoder,
		EncodeTime:     zapcore.EpochNanosTimeEncoder,
		EncodeCaller:   zapcore.ShortCallerEncoder,
	}
	if opts&1 != 0 {
		cfg.CallerKey, cfg.FunctionKey = "c", "fn"
		if !console { // the console encoder prints a stack trace on lines of its own: one entry would not be one line
			cfg.StacktraceKey = "st"
		}
	}
	if console {
		return zapcore.NewConsoleEncoder(cfg)
	}
	return zapcore.NewJSONEncoder(cfg)
}

func c04buildFLog(d c04FLog, id string, seed uint64) *c04FLive {
	lv := &c04FLive{dev: d.opts&16 != 0}
	noise := func() *c04Rec {
		lv.noise = &c04Rec{id: id, seed: seed, oneLine: true}
		return lv.noise
	}
	enc := c04fenc(d.console, d.opts)
	var core zapcore.Core
	mk := func(ws zapcore.WriteSyncer) zapcore.Core { return zapcore.NewCore(enc, ws, zapcore.InfoLevel) }
	switch d.sink {
	case 0: // every Write and Sync fails, no mutex
		core = mk(&c04Bad{mode: c04bmAlways})
	case 1: // every second Write fails after a partial write
		core = mk(zapcore.Lock(&c04Bad{mode: c04bmAlt}))
	case 2: // short write next to a healthy sink
		core = mk(zap.CombineWriteSyncers(&c04Bad{mode: c04bmShort}, noise()))
	case 3: // Sync fails, writes arrive
		core = mk(zapcore.Lock(&c04Bad{mode: c04bmSyncErr, rec: noise()}))
	case 4: // a BufferedWriteSyncer whose sink fails (bufio keeps the error)
		bw := &zapcore.BufferedWriteSyncer{WS: &c04Bad{mode: c04bmAlt}, Size: 64, FlushInterval: time.Hour, Clock: &c04Clock{ch: make(chan time.Time)}}
		lv.stop = func() { _ = bw.Stop() }
		core = mk(bw)
	case 5: // tee: failing branch first, healthy branch second
		core = zapcore.NewTee(mk(&c04Bad{mode: c04bmAlways}), zapcore.NewCore(c04fenc(d.console, d.opts), zapcore.Lock(noise()), zapcore.InfoLevel))
	case 6: // healthy sink: only the values fail
		core = mk(zapcore.Lock(noise()))
	case 7: // the sink panics
		core = mk(&c04Bad{mode: c04bmPanic})
	case 8: // a single failure, then healthy
		core = mk(zapcore.Lock(&c04Bad{mode: c04bmFirst, rec: noise()}))
		lv.noise = nil // the first entry is lost by design: not judged
	default: // tee: healthy branch first, failing (other encoder) second
		core = zapcore.NewTee(zapcore.NewCore(c04fenc(d.console, d.opts), zapcore.Lock(noise()), zapcore.InfoLevel),
			zapcore.NewCore(c04fenc(!d.console, 0), zapcore.Lock(&c04Bad{mode: c04bmAlt}), zapcore.InfoLevel))
	}
	if d.opts&c04foptWrap != 0 { // a tee behind it is written through multiCore.Write
		core = &c04Fwd{core}
	}
	var eo zapcore.WriteSyncer = zapcore.Lock(&c04Rec{id: id + "-eo"})
	if d.opts&4 != 0 {
		eo = &c04Bad{mode: c04bmAlways}
	}
	opts := []zap.Option{zap.ErrorOutput(eo)}
	if d.opts&1 != 0 {
		opts = append(opts, zap.AddCaller(), zap.AddStacktrace(zapcore.ErrorLevel))
	}
	if d.opts&2 != 0 {
		opts = append(opts, zap.Hooks(func(zapcore.Entry) error {
			c04Injected.Add(1)
			return errors.New(c04Marker + " hook")
		}))
	}
	if d.opts&16 != 0 {
		opts = append(opts, zap.Development())
	}
	lv.l = zap.New(core, opts...)
	if d.opts&8 != 0 {
		lv.l = lv.l.With(zap.Object("co", c04BadObj{n: 8, pad: "ctx"}), zap.Reflect("cc", make(chan int)), zap.Stringer("cs", c04PanicStr{n: 8})).Named("flt")
	}
	return lv
}

func c04fmsg(tid, seq, size int) string {
	var sb strings.Builder
	fmt.Fprintf(&sb, "f%03d-%04d-", tid, seq)
	for i := 0; i < size; i++ {
		sb.WriteByte("ABCDEFGHIJKLMNOP"[(i*7+seq)%16])
	}
	return sb.String()
}

// one fault op; returns a description of a panic that was NOT provoked on purpose
func c04faultOp(lv *c04FLive, o c04FOp, tid, seq int) (unexpected string) {
	defer func() {
		if x := recover(); x != nil {
			s := fmt.Sprint(x)
			switch {
			case strings.Contains(s, c04Marker): // panicking sink / marshaler
			case o.lvl == zapcore.PanicLevel || (o.lvl == zapcore.DPanicLevel && lv.dev): // zap panics after writing
			default:
				unexpected = fmt.Sprintf("a fault-path log call panicked: %.200s", s)
			}
		}
	}()
	l := lv.l
	msg := c04fmsg(tid, seq, o.size)
	pad := msg[10 : 10+o.size/4]
	var fs []zap.Field
	switch o.kind {
	case c04fkSync:
		_ = l.Sync()
		return
	case c04fkPlain:
		fs = []zap.Field{zap.String("s", pad), zap.Int("i", seq)}
	case c04fkObj:
		fs = c04errFields(1, seq, pad)
	case c04fkArr:
		fs = c04errFields(2, seq, pad)
	case c04fkRefl:
		fs = append(c04errFields(4, seq, pad), zap.Reflect("ok", c04reflVal(tid, seq, pad)))
	case c04fkStr:
		fs = c04errFields(8, seq, pad)
	case c04fkErr:
		fs = c04errFields(16, seq, pad)
	case c04fkInline:
		fs = c04errFields(32, seq, pad)
	case c04fkWith:
		l = l.With(c04errFields(1|4|8, seq, pad)...).With(zap.Namespace("fns"), zap.Any("m", c04reflMap(seq, pad)))
		fs = []zap.Field{zap.Int("i", seq)}
	case c04fkAll:
		fs = c04errFields(63, seq, pad)
	case c04fkPanicObj:
		fs = []zap.Field{zap.Int("i", seq), zap.Object("po", c04PanicObj{})}
	}
	switch (seq + o.kind) % 3 {
	case 0:
		l.Log(o.lvl, msg, fs...)
	case 1:
		if ce := l.Check(o.lvl, msg); ce != nil {
			ce.Write(fs...)
		}
	default:
		kv := make([]interface{}, len(fs))
		for i := range fs {
			kv[i] = fs[i]
		}
		l.Sugar().Logw(o.lvl, msg, kv...)
	}
	return
}

// does the op leave a line on the healthy sink of its fault logger?
func c04fopWrites(o c04FOp) bool {
	return o.kind != c04fkSync && o.kind != c04fkPanicObj && o.lvl >= zapcore.InfoLevel
}

var c04fidRe = regexp.MustCompile(`f(\d{3})-(\d{4})-`)

// the healthy sink of a fault logger: one intact line per accepted fault entry, exactly once,
// each thread's entries in its order
func c04checkNoise(fl int, r *c04Rec, want map[int][]int) []string {
	var out []string
	if n := r.overlap.Load(); n > 0 {
		out = append(out, fmt.Sprintf("mutual exclusion broken: %d overlapping Write/Sync calls on the healthy sink of fault logger %d", n, fl))
	}
	if n := r.mutated.Load(); n > 0 {
		out = append(out, fmt.Sprintf("buffer reused before the sink write returned: %d Write calls on the healthy sink of fault logger %d saw their slice change", n, fl))
	}
	if n := r.misalign.Load(); n > 0 {
		out = append(out, fmt.Sprintf("healthy sink of fault logger %d: %d Write calls that were not exactly one line (%s)", fl, n, r.firstBad))
	}
	next := map[int]int{}
	bad := ""
	lines := strings.SplitAfter(string(r.buf), "\n")
	for _, ln := range lines {
		if ln == "" {
			continue
		}
		ids := c04fidRe.FindAllStringSubmatch(ln, -1)
		if len(ids) != 1 || !strings.HasSuffix(ln, "\n") {
			bad = fmt.Sprintf("a line that is not one intact entry: %.160q", ln)
			break
		}
		tid, _ := strconv.Atoi(ids[0][1])
		seq, _ := strconv.Atoi(ids[0][2])
		w := want[tid]
		if next[tid] >= len(w) || w[next[tid]] != seq {
			bad = fmt.Sprintf("entry f%03d-%04d duplicated, out of order or never logged: %.160q", tid, seq, ln)
			break
		}
		next[tid]++
	}
	if bad == "" {
		for tid, w := range want {
			if next[tid] != len(w) {
				bad = fmt.Sprintf("%d of the %d entries of fault thread %d are missing", len(w)-next[tid], len(w), tid)
				break
			}
		}
	}
	if bad != "" {
		out = append(out, fmt.Sprintf("healthy sink of fault logger %d (tee sibling / combined with a failing sink) is not a merge of the accepted entries: %s", fl, bad))
	}
	return out
}

// the hidden failing branch of the judged tee
func c04teeBad(cs *c04Case) (zapcore.Core, func()) {
	f := &cs.flt
	enc := c04enc(9, c04Branch{console: cs.seed&4 != 0})
	var ws zapcore.WriteSyncer
	var stop func()
	switch f.teeMode {
	case 0:
		ws = zapcore.Lock(&c04Bad{mode: c04bmAlways})
	case 1:
		ws = zapcore.Lock(&c04Bad{mode: c04bmAlt})
	case 2:
		ws = zapcore.Lock(&c04Bad{mode: c04bmFirst})
	case 3:
		ws = zap.CombineWriteSyncers(&c04Bad{mode: c04bmShort}, &c04Bad{mode: c04bmAlt})
	case 4:
		bw := &zapcore.BufferedWriteSyncer{WS: &c04Bad{mode: c04bmAlt}, Size: 128, FlushInterval: time.Hour, Clock: &c04Clock{ch: make(chan time.Time)}}
		stop = func() { _ = bw.Stop() }
		ws = bw
	case 5:
		ws = zapcore.Lock(&c04Bad{mode: c04bmSyncErr})
	default:
		ws = &c04Bad{mode: c04bmAlt}
	}
	return zapcore.NewCore(enc, ws, zapcore.InfoLevel), stop
}

// ErrorOutput of the judged logger when its tee has a failing branch: only reports of the injected failures
func c04errOutOnlyInjected(buf []byte) string {
	for _, ln := range strings.SplitAfter(string(buf), "\n") {
		if ln == "" {
			continue
		}
		if !strings.Contains(ln, " write error: ") || !strings.Contains(ln, c04Marker) || !strings.HasSuffix(ln, "\n") {
			return ln
		}
	}
	return ""
}

// pool integrity: n results of EncodeEntry held at the same time are n different buffers
// ("each log call encodes into its own pooled buffer")
var c04probeEnc = zapcore.NewJSONEncoder(zapcore.EncoderConfig{MessageKey: "m", LineEnding: "\n"})

func c04poolProbe(n int) string {
	held := make([]*buffer.Buffer, 0, n)
	seen := map[*buffer.Buffer]int{}
	res := ""
	for i := 0; i < n; i++ {
		b, err := c04probeEnc.EncodeEntry(zapcore.Entry{Message: "probe"}, nil)
		if err != nil {
			return "EncodeEntry failed in the pool probe: " + err.Error()
		}
		if j, dup := seen[b]; dup && res == "" {
			res = fmt.Sprintf("the shared buffer pool handed out ONE buffer to two owners at the same time: EncodeEntry results %d and %d (both still held, neither freed) are the same *buffer.Buffer", j, i)
		} else if !dup {
			seen[b] = i
		}
		// one Free per EncodeEntry: the probe leaves the pool as it found it (on a correct tree the
		// results are distinct buffers; it must not repair a pool that holds a buffer twice either)
		held = append(held, b)
	}
	for _, b := range held {
		b.Free()
	}
	return res
}

// ---------------------------------------------------------------- generator
func c04genFOp(r *RNG, nl int, kinds []int) c04FOp {
	o := c04FOp{fl: r.Intn(nl), kind: kinds[r.Intn(len(kinds))], lvl: zapcore.InfoLevel, size: r.Range(8, 60)}
	switch x := r.Intn(100); {
	case x < 4:
		o.lvl = zapcore.DebugLevel
	case x < 60:
		o.lvl = zapcore.InfoLevel
	case x < 72:
		o.lvl = zapcore.WarnLevel
	case x < 88:
		o.lvl = zapcore.ErrorLevel
	case x < 95:
		o.lvl = zapcore.DPanicLevel
	default:
		o.lvl = zapcore.PanicLevel
	}
	if r.Chance(8) {
		o.size = r.Range(300, 2500)
	}
	return o
}

var c04allFKinds = []int{0, 0, 0, 1, 2, 3, 4, 5, 6, 7, 8, 9, 10}

// a random fault plan; inline = percentage of positions of the judged goroutines at which
// they hit a fault logger themselves
func c04genFaults(r *RNG, cs *c04Case) {
	f := &cs.flt
	nl := r.Range(1, 3)
	for i := 0; i < nl; i++ {
		d := c04FLog{sink: r.Intn(c04nFSinks), console: r.Chance(30)}
		if r.Chance(40) {
			d.opts = r.Intn(32)
		}
		f.logs = append(f.logs, d)
	}
	if r.Chance(70) {
		for i, n := 0, r.Range(1, 6); i < n; i++ {
			f.pre = append(f.pre, c04genFOp(r, nl, c04allFKinds))
		}
		f.preLate = r.Bool()
	}
	if r.Chance(50) {
		for t, nt := 0, r.Range(1, 2); t < nt; t++ {
			var ops []c04FOp
			for i, n := 0, r.Range(1, 16); i < n; i++ {
				ops = append(ops, c04genFOp(r, nl, c04allFKinds))
			}
			f.conc = append(f.conc, ops)
		}
	}
	if r.Chance(60) {
		c04inlineFaults(r, cs, r.Range(5, 30), c04allFKinds)
	}
	if r.Chance(35) {
		f.tee = r.Range(1, 2)
		f.teeMode = r.Intn(7)
	}
	if r.Chance(35) {
		c04errFieldOps(r, cs, 30)
	}
	if !cs.hasFaults() {
		f.pre = append(f.pre, c04genFOp(r, nl, []int{0}))
	}
}

// the judged goroutines hit a fault logger between their own log calls (pct % of the positions)
func c04inlineFaults(r *RNG, cs *c04Case, pct int, kinds []int) {
	nl := len(cs.flt.logs)
	for g := range cs.th {
		var ops []c04Op
		for _, o := range cs.th[g].ops {
			if r.Chance(pct) {
				ops = append(ops, c04Op{kind: 2, f: c04genFOp(r, nl, kinds)})
			}
			ops = append(ops, o)
		}
		if r.Chance(pct) {
			ops = append(ops, c04Op{kind: 2, f: c04genFOp(r, nl, kinds)})
		}
		cs.th[g].ops = ops
	}
}

// error-path fields in the judged entries themselves
func c04errFieldOps(r *RNG, cs *c04Case, pct int) {
	for g := range cs.th {
		for i := range cs.th[g].ops {
			if cs.th[g].ops[i].kind == 0 && r.Chance(pct) {
				cs.th[g].ops[i].ef = 1 + r.Intn(63)
			}
		}
	}
}

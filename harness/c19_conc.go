package main

// C19, wire kind 7: OVERLAPPING registrations of one name.
//
// Kinds 3-5 only ever register sequentially (register, then register again), so a
// RegisterSink / RegisterEncoder whose duplicate check and insert are not one critical
// section behaves exactly as the correct one there.  Here G = 2..8 goroutines are
// released from a spin barrier and register, at the same time, names that designate the
// same fresh key (sinks: spellings of one scheme in several letter cases; encoders: the
// same name), each with a factory / constructor of its own; thousands of rounds, each on
// freshly reset registries.  Afterwards every name is resolved through the public API
// (zap.Open, Config.Build) to see whose factory / constructor the registry holds.
//
// The case shipped to the oracle lists the calls in the order "those that returned nil
// first": if ANY interleaving of atomic registrations explains what was seen, that one
// does (each key's only winner precedes its losers).  Rounds the oracle will reject
// (a key accepted twice, a loser's factory in the registry, an unexpected error) are
// always emitted, plus a sample of the clean ones.

import (
	"fmt"
	"net/url"
	"runtime"
	"sort"
	"strings"
	"sync"
	"sync/atomic"

	"go.uber.org/zap"
	"go.uber.org/zap/zapcore"
)

type c19call struct {
	name string
	id   int // factory / constructor number, >= 2
	cls  int // class of the error returned
	look int // what the name resolves to afterwards
}

func c19validScheme(s string) bool {
	if s == "" {
		return false
	}
	for i := 0; i < len(s); i++ {
		ch := s[i]
		letter := ('a' <= ch && ch <= 'z') || ('A' <= ch && ch <= 'Z')
		if i == 0 && !letter {
			return false
		}
		if !(letter || ('0' <= ch && ch <= '9') || ch == '+' || ch == '-' || ch == '.') {
			return false
		}
	}
	return true
}

// the key a name designates ("" = none), for choosing what to emit and for meta only:
// the verdict is the oracle's
func c19concKey(which int, name string) string {
	if which == 0 {
		if !c19validScheme(name) {
			return ""
		}
		return c19asciiLower(name)
	}
	return name
}

var c19concHostileS = []string{"", "1x", "a b", "FILE", "file", "File", "Kelvin", "+a", "a_b"}
var c19concHostileE = []string{"", "json", "console", "JSON", " "}

func c19concLetters(r *RNG, n int) string {
	b := make([]byte, n)
	for i := range b {
		b[i] = byte('a' + r.Intn(26))
		if r.Bool() {
			b[i] -= 32
		}
	}
	return string(b)
}

// the names of one round
func c19concNames(r *RNG, which int, round int) []string {
	G := r.Range(2, 8)
	base := "r" + c19concLetters(r, r.Range(2, 5)) + fmt.Sprint(round)
	if r.Chance(20) {
		base += []string{"+x", ".y", "-z"}[r.Intn(3)]
	}
	names := make([]string, G)
	variant := func(s string) string {
		if which == 0 {
			return c19caseVariant(r, s)
		}
		return s // encoder names are exact
	}
	shape := r.Intn(10)
	for g := range names {
		names[g] = variant(base)
	}
	switch {
	case shape <= 5: // one fresh key
	case shape <= 7: // two fresh keys
		other := base + "-b"
		if which == 1 && r.Bool() {
			other = strings.ToUpper(base) // a different encoder name
			if other == base {
				other = base + "B"
			}
		}
		for g := range names {
			if r.Bool() {
				names[g] = variant(other)
			}
		}
	case shape == 8: // one fresh key and a call that must be rejected for another reason
		h := c19concHostileS
		if which == 1 {
			h = c19concHostileE
		}
		names[r.Intn(G)] = h[r.Intn(len(h))]
	default: // a key that is taken already: everybody must fail
		taken := []string{"file", "FILE", "File", "fIlE"}
		if which == 1 {
			taken = []string{"json", "console"}
		}
		t := taken[r.Intn(len(taken))]
		for g := range names {
			if which == 0 {
				names[g] = taken[r.Intn(len(taken))]
			} else {
				names[g] = t
			}
		}
		if r.Bool() {
			names[r.Intn(G)] = variant(base)
		}
	}
	return names
}

// one round; false: stop (the registries are unusable)
func c19concRound(c *Ctx, which int, names []string, class string, force bool, stat *[3]int) bool {
	e, ok := c19begin(c)
	if !ok {
		return false
	}
	defer e.end()
	G := len(names)
	calls := make([]c19call, G)
	for g := range calls {
		calls[g] = c19call{name: names[g], id: g + 2}
	}
	ran := -1 // the factory / constructor that ran during the current look-up
	mkInput := func(order []int) SX {
		xs := make([]SX, len(order))
		for i, g := range order {
			xs[i] = L(Str(calls[g].name), I(calls[g].id))
		}
		return L(I(7), I(which), L(xs...))
	}
	plain := make([]int, G)
	for g := range plain {
		plain[g] = g
	}

	// ---- the overlapping calls ----
	errs := make([]error, G)
	st, pv := c19run(c19timeout(), func() {
		// barrier: everybody arrives, then one store releases them all; the waiters spin on
		// the flag without yielding (there are more Ps than waiters), so that they enter the
		// registration within a few cache misses of one another
		var ready, goFlag atomic.Int32
		tight := runtime.GOMAXPROCS(0) > G+1
		var wg sync.WaitGroup
		for g := 0; g < G; g++ {
			g := g
			wg.Add(1)
			go func() {
				defer wg.Done()
				id := calls[g].id
				fact := func(u *url.URL) (zap.Sink, error) { ran = id; return &c19sink{kind: 0}, nil }
				ctor := func(cfg zapcore.EncoderConfig) (zapcore.Encoder, error) {
					ran = id
					return zapcore.NewJSONEncoder(cfg), nil
				}
				ready.Add(1)
				for n := 0; goFlag.Load() == 0; n++ {
					if !tight || n > 1<<22 {
						runtime.Gosched()
					}
				}
				if which == 0 {
					errs[g] = zap.RegisterSink(calls[g].name, fact)
				} else {
					errs[g] = zap.RegisterEncoder(calls[g].name, ctor)
				}
			}()
		}
		for int(ready.Load()) < G {
			runtime.Gosched()
		}
		goFlag.Store(1)
		wg.Wait()
	})
	if st == 2 {
		c.Viol(fmt.Sprintf("overlapping registrations panicked: %v", pv), mkInput(plain))
		return true
	}
	if st == 1 {
		c.Emit(mkInput(plain), c19blocked, e.meta(false, class, 1, "g", fmt.Sprint(G)))
		return true
	}
	for g := range calls {
		if which == 0 {
			calls[g].cls = c19sregCls(errs[g])
		} else {
			calls[g].cls = c19eregCls(errs[g])
		}
	}

	// ---- what every name resolves to now, and the registered names ----
	var keys SX
	st, pv = c19run(c19timeout(), func() {
		for g := range calls {
			nm := calls[g].name
			ran = -1
			if which == 0 {
				if !c19validScheme(nm) {
					calls[g].look = -1
					continue
				}
				_, closeAll, err := zap.Open(nm + "://h/x")
				if err == nil {
					closeAll()
				}
				switch {
				case ran >= 0:
					calls[g].look = ran
				case err != nil && strings.Contains(err.Error(), "no sink found"):
					calls[g].look = -1
				default:
					calls[g].look = 0 // the built-in file factory (rejects the host)
				}
			} else {
				_, err := zap.Config{Encoding: nm, Level: zap.NewAtomicLevel(), EncoderConfig: c19encCfg(false, false)}.Build()
				switch {
				case ran >= 0:
					calls[g].look = ran
				case err != nil:
					calls[g].look = -1
				case nm == "console":
					calls[g].look = 0
				case nm == "json":
					calls[g].look = 1
				default:
					calls[g].look = -2
				}
			}
		}
		if which == 0 {
			keys = c19keys(zap.VerifSinkSchemes())
		} else {
			keys = c19keys(zap.VerifEncoderNames())
		}
	})
	if st == 2 {
		c.Viol(fmt.Sprintf("look-up after overlapping registrations panicked: %v", pv), mkInput(plain))
		return true
	}
	if st == 1 {
		c.Emit(mkInput(plain), c19blocked, e.meta(false, class, 1, "g", fmt.Sprint(G)))
		return true
	}

	// ---- the proposed interleaving: the accepted calls first ----
	order := append([]int(nil), plain...)
	sort.SliceStable(order, func(a, b int) bool { return calls[order[a]].cls == 0 && calls[order[b]].cls != 0 })
	// how many calls each key has, how many of them were accepted
	nkey, nacc := map[string]int{}, map[string]int{}
	for _, cl := range calls {
		if k := c19concKey(which, cl.name); k != "" {
			nkey[k]++
			if cl.cls == 0 {
				nacc[k]++
			}
		}
	}
	contended, twice := false, false
	for k, n := range nkey {
		if n >= 2 {
			contended = true
		}
		if nacc[k] >= 2 {
			twice = true
		}
	}
	stat[0]++
	if twice {
		stat[1]++
	}
	if !(force || twice || stat[0]%4 == 0 || stat[0] <= 40) {
		// a clean-looking round outside the sample is still checked for the one thing the
		// accepted-twice test does not see: the registry holding another call's factory
		clean := true
		for _, cl := range calls {
			if cl.cls == 0 && cl.look != cl.id {
				clean = false
			}
			if cl.cls != 0 && cl.cls != 3 && c19concKey(which, cl.name) != "" {
				clean = false
			}
		}
		if clean {
			return true
		}
	}
	stat[2]++
	codes, looks := make([]SX, G), make([]SX, G)
	for i, g := range order {
		codes[i] = I(calls[g].cls)
		looks[i] = I(calls[g].look)
	}
	c.Emit(mkInput(order), L(L(codes...), L(looks...), keys),
		e.meta(contended, class, 0, "g", fmt.Sprint(G), "keys", fmt.Sprint(len(nkey))))
	return true
}

func c19conc(c *Ctx, r *RNG) {
	if runtime.GOMAXPROCS(0) < 2 {
		c.Info("c19-conc", "skipped-single-P")
		return
	}
	// directed: two and eight calls of one name, on both registries
	var stat [3]int
	for which := 0; which < 2; which++ {
		cls := []string{"dir-conc-sink", "dir-conc-enc"}[which]
		for _, names := range [][]string{
			{"race", "race"}, {"Race", "RACE"}, {"race", "race", "race", "race", "race", "race", "race", "race"},
			{"rAce", "RACE", "race", "Race", "racE", "RaCe", "rACE", "raCE"}, {"race", "", "race"},
			{"file", "FILE"}, {"json", "json", "console"}, {"race", "race", "other", "other"},
		} {
			if !c19concRound(c, which, names, cls, true, &stat) {
				return
			}
		}
	}
	N := 3000
	if c.Thorough {
		N = 30000
	}
	for which := 0; which < 2; which++ {
		cls := []string{"conc-sink", "conc-enc"}[which]
		var st [3]int
		for k := 0; k < N && !c19wedged; k++ {
			if !c19concRound(c, which, c19concNames(r, which, k), cls, false, &st) {
				return
			}
		}
		c.Info("c19-"+cls, fmt.Sprintf("rounds=%d,accepted-twice=%d,emitted=%d", st[0], st[1], st[2]))
	}
}

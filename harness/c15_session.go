package main

import (
	"bytes"
	"fmt"
	"log"
	"log/slog"
	"strconv"
	"strings"

	"go.uber.org/zap"
	"go.uber.org/zap/exp/zapslog"
	"go.uber.org/zap/zapcore"
	"go.uber.org/zap/zapgrpc"
	"go.uber.org/zap/zaptest/observer"
)

// C15, section 8: SESSIONS.
//
// Sections 1-7 build fresh values for every call, so anything a call leaves behind on the value
// it was made on (a skip that stays in a closure, a clone that is not a clone, a field written
// by check) is invisible there.  A session builds its values ONCE -
//   - the logger the session's chain produces (L), and every value derived from it by an
//     "extra" chain (memoised: the same extra chain is the same Go value for the whole session),
//   - the *log.Logger bridges NewStdLog(v) / NewStdLogAt(v, lvl) of each such value, the
//     redirected package-level logger (RedirectStdLog / RedirectStdLogAt of L),
//   - one zapslog handler on the same core, with its WithAttrs / WithGroup clones,
//   - one zapgrpc logger on L -
// and then makes call after call on them, every call from a real call site with the user's
// stack taken on the same line.  EVERY call of the sequence is observed and judged.
// Wire format: coq/theories/C15/Model.v, case kind 3.

type c15scall struct {
	kind      int // 0 zap front end, 1 slog, 2 other (not observed)
	extra     []c15conv
	site      int
	at        bool // std object sites: NewStdLogAt instead of NewStdLog
	slvl      int
	n, w      int
	goroutine bool
	sv        int // slog: 0 the logger, 1 its WithAttrs clone, 2 its WithGroup clone
	tag       int
	near, far int // stack contexts of this call (c15_ctx.go), 0 = none
}

type c15sess struct {
	chain []c15conv
	core  c15en
	hopts []c15opt
	blvl  int  // level of NewStdLogAt / RedirectStdLogAt
	gat   bool // package-level std sites: RedirectStdLogAt instead of RedirectStdLog
	lvl   int  // level argument of Log / Check / Logw ... calls
	calls []c15scall
	class string
}

type c15vals struct {
	l   *zap.Logger
	s   *zap.SugaredLogger
	std [2]*log.Logger
}

const c15nOther = 13

func c15chainSkip(chain []c15conv) int {
	t := 0
	for _, cv := range chain {
		for _, o := range cv.opts {
			if o.k == 0 {
				t += o.n
			}
		}
	}
	return t
}

func c15chainSX(chain []c15conv) SX {
	xs := make([]SX, len(chain))
	for i, cv := range chain {
		xs[i] = cv.sx()
	}
	return L(xs...)
}

func c15kindAfter(sug bool, chain []c15conv) bool {
	for _, c := range chain {
		switch c.k {
		case 0, 7:
			sug = true
		case 1:
			sug = false
		}
	}
	return sug
}

// something else done with the session's logger; whatever it logs is thrown away
func c15other(tag int, lg *zap.Logger, g *zapgrpc.Logger) {
	defer func() { _ = recover() }()
	switch tag {
	case 0:
		g.Info("x")
	case 1:
		g.Warningln("x", 1)
	case 2:
		g.Errorf("x %d", 1)
	case 3:
		g.Print("x")
	case 4:
		if g.V(0) {
			g.Infoln("x")
		}
	case 5:
		_ = lg.Sync()
	case 6:
		_ = lg.Check(zapcore.InfoLevel, "never written")
	case 7:
		lg.WithOptions(zap.AddCallerSkip(3), zap.AddStacktrace(zapcore.DebugLevel), zap.AddCaller()).Info("x")
	case 8:
		lg.Sugar().With("k", 1).Named("x").Infow("x")
	case 9:
		undo := zap.ReplaceGlobals(lg)
		zap.L().Info("x")
		zap.S().Infof("x")
		undo()
	case 10:
		zap.NewStdLog(lg).Panic("another bridge of the same logger")
	case 11:
		_ = lg.Level()
		_ = lg.Core().Enabled(zapcore.ErrorLevel)
		_ = lg.Name()
	default:
		lg.Named("a").WithLazy(zap.Int("a", 1)).WithOptions(zap.WithCaller(false)).Error("x")
	}
}

func c15runSession(c *Ctx, ss *c15sess) {
	core, logs := observer.New(ss.core.enabler())
	var errOut bytes.Buffer
	base := zap.New(core, zap.ErrorOutput(zapcore.AddSync(&errOut)), zap.WithFatalHook(zapcore.WriteThenPanic))
	L0, S0 := c15apply(base, ss.chain)
	if L0 == nil && S0 == nil {
		panic("c15: ill-kinded session chain generated")
	}
	sugared := L0 == nil
	vals := map[string]*c15vals{}
	get := func(extra []c15conv) *c15vals {
		key := Render(c15chainSX(extra))
		if v, ok := vals[key]; ok {
			return v
		}
		l, s := c15applyFrom(L0, S0, extra)
		if l == nil && s == nil {
			panic("c15: ill-kinded extra chain generated")
		}
		v := &c15vals{l: l, s: s}
		vals[key] = v
		return v
	}
	bridge := func(v *c15vals, at bool) *log.Logger {
		i := 0
		if at {
			i = 1
		}
		if v.std[i] == nil {
			if at {
				var err error
				v.std[i], err = zap.NewStdLogAt(v.l, zapcore.Level(ss.blvl))
				if err != nil {
					panic("c15: " + err.Error())
				}
			} else {
				v.std[i] = zap.NewStdLog(v.l)
			}
		}
		return v.std[i]
	}
	// the session's slog loggers
	var hopts []zapslog.HandlerOption
	hskip := 0
	hx := make([]SX, len(ss.hopts))
	for i, o := range ss.hopts {
		switch o.k {
		case 0:
			hopts = append(hopts, zapslog.WithCaller(o.b))
			hx[i] = L(I(0), Bool(o.b))
		case 1:
			hopts = append(hopts, zapslog.WithCallerSkip(o.n))
			hx[i] = L(I(1), I(o.n))
			hskip += o.n
		case 2:
			hopts = append(hopts, zapslog.AddStacktraceAt(slog.Level(o.n)))
			hx[i] = L(I(2), I(o.n))
		default:
			hopts = append(hopts, zapslog.WithName("n"))
			hx[i] = L(I(3))
		}
	}
	var hd slog.Handler = zapslog.NewHandler(core, hopts...)
	sls := [3]*slog.Logger{slog.New(hd), slog.New(hd.WithAttrs([]slog.Attr{slog.Int("a", 1)})), slog.New(hd.WithGroup("g"))}
	// the redirected package-level logger, installed for the whole session
	var restore func()
	for _, cl := range ss.calls {
		if cl.kind == 0 && c15sites[cl.site].kind == 2 && c15sites[cl.site].a == 2 {
			if sugared || len(cl.extra) != 0 {
				panic("c15: package-level std call on a derived or sugared value generated")
			}
			if restore == nil {
				if ss.gat {
					var err error
					restore, err = zap.RedirectStdLogAt(L0, zapcore.Level(ss.blvl))
					if err != nil {
						panic("c15: " + err.Error())
					}
				} else {
					restore = zap.RedirectStdLog(L0)
				}
			}
		}
	}
	lg := L0
	if lg == nil {
		lg = S0.Desugar()
	}
	grpc := zapgrpc.NewLogger(lg)
	baseSkip := c15chainSkip(ss.chain)

	var calls, obss []SX
	var hist []string
	observed, annotated := 0, 0
	bad := -1
	var badWant, badGot string
	for ci, cl := range ss.calls {
		if cl.kind == 2 {
			c15other(cl.tag, lg, grpc)
			logs.TakeAll()
			errOut.Reset()
			calls = append(calls, L(I(2), I(cl.tag)))
			obss = append(obss, L(I(2)))
			hist = append(hist, "other"+strconv.Itoa(cl.tag))
			continue
		}
		st := c15sites[cl.site]
		h := &c15h{lvl: zapcore.Level(ss.lvl), slvl: slog.Level(cl.slvl)}
		var csx SX
		total := 0
		lvl := ss.lvl
		switch st.kind {
		case 3:
			h.sl = sls[cl.sv]
			total = hskip
		default:
			v := get(cl.extra)
			h.l, h.s = v.l, v.s
			total = baseSkip + c15chainSkip(cl.extra)
			if (st.kind == 1) != (v.s != nil) {
				panic("c15: front end does not fit the derived value: " + st.name)
			}
			if st.kind == 2 && st.a == 0 {
				h.std = bridge(v, cl.at)
			}
		}
		c15last = nil
		errOut.Reset()
		if cl.near == 0 && cl.far == 0 {
			c15run(cl.n, cl.w, cl.goroutine, st.fn, h)
		} else {
			c15runCtx(cl.near, cl.far, cl.n, cl.w, cl.goroutine, st.fn, h)
		}
		us := c15frames(c15last)
		switch st.kind {
		case 3:
			csx = L(I(1), I(st.a), I(cl.slvl), c15usSX(us))
		default:
			var fe SX
			switch st.kind {
			case 0:
				fe = L(I(0), I(st.a))
			case 1:
				fe = L(I(1), I(st.a), I(st.b))
			default:
				ctor := st.a
				if (st.a == 0 && cl.at) || (st.a == 2 && ss.gat) {
					ctor++
				}
				if ctor == 1 || ctor == 3 {
					lvl = ss.blvl
				}
				fe = L(I(2), I(ctor), I(st.b))
			}
			csx = L(I(0), c15chainSX(cl.extra), fe, I(lvl), c15usSX(us))
		}
		calls = append(calls, csx)
		if cl.near != 0 || cl.far != 0 {
			hist = append(hist, st.name+"["+c15ctxLabel(cl.near, cl.far)+"]")
		} else {
			hist = append(hist, st.name)
		}
		if len(us) == 0 {
			c.Viol("C15 harness: no user stack recorded for "+st.name+" (call "+strconv.Itoa(ci)+" of a session)", L(calls...))
			if restore != nil {
				restore()
			}
			return
		}
		if c15logTagged[us[0]] {
			panic("c15: a call site inside a log.-prefixed function generated")
		}
		all := c15userEntries(logs.TakeAll())
		var obs c15obs
		obs.entries = len(all)
		if len(all) >= 1 {
			e := all[0]
			obs.written = 1
			if e.Caller.Defined {
				obs.caller = []int{c15id(c15frame{e.Caller.Function, e.Caller.File, e.Caller.Line})}
			}
			var ok bool
			obs.stack, ok = c15parseStack(e.Stack)
			obs.badfmt = !ok
			obs.err = strings.Contains(errOut.String(), "failed to get caller")
		}
		if obs.entries > 1 {
			c.Viol(fmt.Sprintf("%s: %d entries logged by one call (call %d of a session)", st.name, obs.entries, ci), L(calls...))
		}
		if obs.badfmt {
			c.Viol(st.name+": Entry.Stack is not a sequence of function / tab file:line pairs", L(calls...))
		}
		obss = append(obss, obs.sx())
		observed++
		if obs.written == 1 && (len(obs.caller) > 0 || len(obs.stack) > 0) {
			annotated++
		}
		// a hint for the reader of a replay (the verdict is the oracle's): the first call whose
		// reported frame is not the frame of its own stack at the configured skip
		if bad < 0 && total >= 0 && total < len(us) {
			got := -1
			if len(obs.caller) > 0 {
				got = obs.caller[0]
			} else if len(obs.stack) > 0 {
				got = obs.stack[0]
			}
			if got >= 0 && got != us[total] {
				bad, badWant, badGot = ci, c15name(us[total]), c15name(got)
			}
		}
	}
	if restore != nil {
		restore()
	}
	in := L(I(3), c15chainSX(ss.chain), L(hx...), ss.core.sx(), L(calls...))
	nt := "0"
	if observed >= 2 && annotated >= 2 {
		nt = "1"
	}
	meta := map[string]string{"nt": nt, "class": ss.class, "calls": strconv.Itoa(len(ss.calls)), "hist": strings.Join(hist, ">")}
	if bad >= 0 {
		meta["bad_call"] = strconv.Itoa(bad) + ":" + hist[bad]
		meta["want_caller"] = badWant
		meta["got_caller"] = badGot
	}
	c.Emit(in, L(obss...), meta)
}

// ---- session generators ----

func c15sessions(c *Ctx, r *RNG) {
	all := c15en{kind: 0, t: -1}
	callerOpts := func(skip int, stack bool) []c15conv {
		var sp *c15en
		if stack {
			sp = &all
		}
		return []c15conv{{k: 5, opts: c15optsCaller(skip, sp)}}
	}
	sugar := []c15conv{{k: 0}}
	// the extra chain that makes the value a site of this kind needs, from a *Logger session
	extraFor := func(kind int) []c15conv {
		if kind == 1 {
			return sugar
		}
		return nil
	}
	var stdObj, stdPkg []int
	for i, st := range c15sites {
		if st.kind == 2 && st.a == 0 {
			stdObj = append(stdObj, i)
		}
		if st.kind == 2 && st.a == 2 {
			stdPkg = append(stdPkg, i)
		}
	}
	hoptsFor := func(skip int, stack bool) []c15opt {
		hs := []c15opt{{k: 0, b: true}}
		if skip > 0 {
			hs = append(hs, c15opt{k: 1, n: skip})
		}
		if stack {
			hs = append(hs, c15opt{k: 2, n: -8})
		}
		return hs
	}

	// 8a. the std-log bridge: every ordered pair of log functions on ONE bridge, then a Print,
	// for each constructor (NewStdLog, NewStdLogAt, RedirectStdLog, RedirectStdLogAt)
	for _, pkg := range []bool{false, true} {
		sites := stdObj
		if pkg {
			sites = stdPkg
		}
		for _, at := range []bool{false, true} {
			for i, p := range sites {
				for j, q := range sites {
					w := (i + j) % 3
					ss := &c15sess{chain: callerOpts(w, (i+2*j)%4 == 1), core: c15debug, hopts: hoptsFor(0, false),
						blvl: []int{1, 2, -1, 3}[(i+j)%4], gat: at, class: "sess-std-pairs"}
					for _, s := range []int{p, q, sites[0]} {
						ss.calls = append(ss.calls, c15scall{kind: 0, site: s, at: at, w: w})
					}
					c15runSession(c, ss)
				}
			}
		}
	}
	// 8b. every call site (every exported logging method of every front end), all on the values of
	// ONE session: in table order, in reverse, each site twice in a row, and with other uses of the
	// logger (zapgrpc, Sync, discarded derivations, ReplaceGlobals, another bridge) in between
	for variant := 0; variant < 8; variant++ {
		w := []int{0, 2, 1, 3}[variant%4]
		stack := variant%2 == 1
		ss := &c15sess{chain: callerOpts(w, stack), core: c15debug, hopts: hoptsFor(w, stack), blvl: 2, gat: variant >= 4,
			lvl: variant % 3, class: "sess-all-sites"}
		order := make([]int, 0, 2*len(c15sites))
		for i := range c15sites {
			k := i
			if variant%4 == 1 {
				k = len(c15sites) - 1 - i
			}
			order = append(order, k)
			if variant%4 == 2 {
				order = append(order, k)
			}
		}
		for i, si := range order {
			st := c15sites[si]
			cl := c15scall{kind: 0, site: si, extra: extraFor(st.kind), at: (i+variant)%2 == 1, w: w, sv: i % 3}
			if st.kind == 3 {
				cl.kind = 1
				cl.slvl = []int{-4, 0, 4, 8}[st.a%4]
			}
			ss.calls = append(ss.calls, cl)
			if variant%4 == 3 && i%3 == 0 {
				ss.calls = append(ss.calls, c15scall{kind: 2, tag: (i / 3) % c15nOther})
			}
		}
		c15runSession(c, ss)
	}
	// 8c. each call site three times on the same value, something else in between, from
	// different depths (a value that remembers its last call site, skip or slab shows here)
	for si, st := range c15sites {
		for _, sugaredBase := range []bool{false, true} {
			if sugaredBase && st.kind != 1 {
				continue
			}
			w := si % 3
			chain := callerOpts(w, si%2 == 0)
			var extra []c15conv
			if sugaredBase {
				chain = append(chain, c15conv{k: 0}) // the session's own value is the *SugaredLogger
			} else {
				extra = extraFor(st.kind)
			}
			ss := &c15sess{chain: chain, core: c15debug, hopts: hoptsFor(w, si%2 == 0), blvl: 1, gat: si%2 == 1, lvl: 1, class: "sess-repeat"}
			mk := func(n int) c15scall {
				cl := c15scall{kind: 0, site: si, extra: extra, at: si%2 == 1, w: w, n: n, sv: si % 3}
				if st.kind == 3 {
					cl.kind = 1
					cl.slvl = []int{-4, 0, 4, 8}[st.a%4]
				}
				return cl
			}
			ss.calls = []c15scall{mk(0), mk(3), {kind: 2, tag: si % c15nOther}, mk(70)}
			c15runSession(c, ss)
		}
	}

	// 8e. calls nested in stack contexts (c15_ctx.go) between plain calls on the SAME bridge / logger /
	// handler: a context must neither move the frame of the call made inside it nor leave anything behind
	infoSite, slogSite := c15siteIdx("Logger.Info"), c15siteIdx("slog.Logger.Warn")
	for ci := 1; ci < len(c15ctxs); ci++ {
		for _, pkg := range []bool{false, true} {
			sites := stdObj
			if pkg {
				sites = stdPkg
			}
			at := ci%2 == 1
			ss := &c15sess{chain: callerOpts(0, ci%3 == 0), core: c15debug, hopts: hoptsFor(0, ci%3 == 0),
				blvl: []int{1, 2, -1, 3}[ci%4], gat: at, class: "sess-ctx"}
			p, q := sites[ci%len(sites)], sites[(ci+3)%len(sites)]
			other := 1 + (ci+4)%(len(c15ctxs)-1)
			ss.calls = []c15scall{
				{kind: 0, site: p, at: at},
				{kind: 0, site: p, at: at, near: ci},
				{kind: 0, site: q, at: at, far: ci, n: ci % 4},
				{kind: 0, site: sites[0], at: at},
				{kind: 0, site: infoSite, near: ci},
				{kind: 1, site: slogSite, slvl: 4, sv: ci % 3, far: ci},
				{kind: 0, site: q, at: at, near: ci, far: other, n: 2},
				{kind: 0, site: p, at: at},
			}
			c15runSession(c, ss)
		}
	}

	// 8d. seeded random sessions
	N := 800
	if c.Thorough {
		N = 16000
	}
	for k := 0; k < N; k++ {
		c15runSession(c, c15randSession(r))
	}
}

// a random chain of conversions from a value of kind [sug]; AddCallerSkip parts sum to [total]
func c15randConvs(r *RNG, sug bool, nops int, total int, stackEn c15en, needCaller bool) ([]c15conv, bool) {
	var parts []int
	rem := total
	for i := 0; i < 2 && (rem != 0 || r.Chance(15)); i++ {
		p := rem
		if r.Chance(40) {
			p = r.Range(-2, 3)
		}
		parts = append(parts, p)
		rem -= p
	}
	if rem != 0 {
		parts = append(parts, rem)
	}
	var chain []c15conv
	addOpts := func() c15conv {
		var os []c15opt
		if needCaller || r.Chance(8) {
			os = append(os, c15opt{k: 1, b: !r.Chance(6), n: r.Intn(2)})
			needCaller = false
		}
		if len(parts) > 0 {
			os = append(os, c15opt{k: 0, n: parts[0]})
			parts = parts[1:]
		}
		if r.Chance(35) {
			os = append(os, c15opt{k: 2, en: stackEn})
		}
		if r.Chance(20) {
			os = append(os, c15opt{k: 3})
		}
		for i := len(os) - 1; i > 0; i-- {
			j := r.Intn(i + 1)
			os[i], os[j] = os[j], os[i]
		}
		return c15conv{k: 5, opts: os}
	}
	for i := 0; i < nops; i++ {
		switch y := r.Intn(100); {
		case y < 24:
			if sug {
				chain = append(chain, c15conv{k: 1})
			} else if r.Chance(20) {
				chain = append(chain, c15conv{k: 7})
			} else {
				chain = append(chain, c15conv{k: 0})
			}
			sug = !sug
		case y < 36:
			chain = append(chain, c15conv{k: 2, b: r.Chance(60)}) // With() returns the receiver itself
		case y < 46:
			chain = append(chain, c15conv{k: 3, b: r.Chance(60)})
		case y < 56:
			chain = append(chain, c15conv{k: 4, b: r.Chance(60)}) // Named("") returns the receiver itself
		case y < 61:
			if !sug {
				chain = append(chain, c15conv{k: 6})
			}
		default:
			chain = append(chain, addOpts())
		}
	}
	for len(parts) > 0 || needCaller {
		chain = append(chain, addOpts())
	}
	return chain, sug
}

func c15randSession(r *RNG) *c15sess {
	ss := &c15sess{core: c15debug, class: "sess-rand"}
	if r.Chance(8) {
		ss.core = c15en{kind: 0, t: r.Range(-1, 3)}
	}
	stackEn := c15en{kind: 0, t: r.Range(-1, 6)}
	if r.Chance(25) {
		stackEn = c15en{kind: 1}
		for i := range stackEn.bits {
			stackEn.bits[i] = r.Bool()
		}
	}
	baseTotal := 0
	if r.Chance(55) {
		baseTotal = r.Intn(4)
	}
	var baseSug bool
	ss.chain, baseSug = c15randConvs(r, false, r.Intn(5), baseTotal, stackEn, true)
	if r.Chance(50) {
		ss.chain = append(ss.chain, c15conv{k: 5, opts: []c15opt{{k: 2, en: stackEn}}})
	}
	ss.blvl = r.Range(-1, 5)
	ss.gat = r.Bool()
	ss.lvl = r.Range(-1, 5)
	// the slog handler
	hskip := 0
	if r.Chance(50) {
		hskip = r.Intn(4)
	}
	if r.Chance(92) {
		ss.hopts = append(ss.hopts, c15opt{k: 0, b: true})
	}
	if hskip > 0 {
		p := r.Range(1, hskip)
		ss.hopts = append(ss.hopts, c15opt{k: 1, n: p})
		if hskip-p > 0 {
			ss.hopts = append(ss.hopts, c15opt{k: 1, n: hskip - p})
		}
	}
	if r.Chance(65) {
		ss.hopts = append(ss.hopts, c15opt{k: 2, n: r.Range(-8, 9)})
	}
	if r.Chance(25) {
		ss.hopts = append(ss.hopts, c15opt{k: 3})
	}
	// a small pool of derived values, used again and again
	type dv struct {
		extra []c15conv
		sug   bool
		total int
	}
	pool := []dv{{nil, baseSug, baseTotal}}
	for i, n := 0, r.Intn(4); i < n; i++ {
		d := r.Range(-baseTotal, 3-baseTotal)
		if r.Chance(50) {
			d = 0
		}
		ex, sg := c15randConvs(r, baseSug, 1+r.Intn(3), d, stackEn, false)
		if len(ex) == 0 {
			continue
		}
		pool = append(pool, dv{ex, sg, baseTotal + d})
	}
	// the other kind of the session's own value is always at hand
	if baseSug {
		pool = append(pool, dv{[]c15conv{{k: 1}}, false, baseTotal})
	} else {
		pool = append(pool, dv{[]c15conv{{k: 0}}, true, baseTotal})
	}
	var byKind [4][]int
	for i, st := range c15sites {
		k := st.kind
		if st.kind == 2 && st.a == 2 {
			k = 3 // package-level std
			if baseSug {
				continue
			}
			byKind[3] = append(byKind[3], i)
			continue
		}
		if st.kind == 3 {
			continue
		}
		byKind[k] = append(byKind[k], i)
	}
	var slogSites []int
	for i, st := range c15sites {
		if st.kind == 3 {
			slogSites = append(slogSites, i)
		}
	}
	ncalls := r.Range(2, 10)
	if r.Chance(10) {
		ncalls = r.Range(11, 30)
	}
	stdHeavy := r.Chance(35) // sessions that mostly talk to the bridges
	for i := 0; i < ncalls; i++ {
		x := r.Intn(100)
		switch {
		case x < 10:
			ss.calls = append(ss.calls, c15scall{kind: 2, tag: r.Intn(c15nOther)})
			continue
		case x < 20:
			si := slogSites[r.Intn(len(slogSites))]
			st := c15sites[si]
			cl := c15scall{kind: 1, site: si, sv: r.Intn(3), slvl: []int{-4, 0, 4, 8}[st.a%4], n: r.Intn(4), goroutine: r.Chance(8)}
			if st.a >= 8 {
				cl.slvl = r.Range(-8, 12)
			}
			cl.w = hskip
			if r.Chance(25) {
				cl.w = r.Intn(4)
			}
			if r.Chance(20) {
				cl.near, cl.far = r.Intn(len(c15ctxs)), r.Intn(len(c15ctxs))*r.Intn(2)
			}
			ss.calls = append(ss.calls, cl)
			continue
		}
		d := pool[0]
		if r.Chance(45) {
			d = pool[r.Intn(len(pool))]
		}
		cl := c15scall{kind: 0, extra: d.extra, at: r.Bool(), n: r.Intn(4), goroutine: r.Chance(8)}
		std := stdHeavy && r.Chance(75) || !stdHeavy && r.Chance(22)
		switch {
		case d.sug:
			cl.site = byKind[1][r.Intn(len(byKind[1]))]
		case std && len(d.extra) == 0 && len(byKind[3]) > 0 && r.Chance(45):
			cl.site = byKind[3][r.Intn(len(byKind[3]))]
		case std:
			cl.site = byKind[2][r.Intn(len(byKind[2]))]
		default:
			cl.site = byKind[0][r.Intn(len(byKind[0]))]
		}
		cl.w = d.total
		if cl.w > 3 || cl.w < 0 || r.Chance(25) {
			cl.w = r.Intn(4)
		}
		if r.Chance(6) {
			cl.n = []int{60, 64, 130}[r.Intn(3)]
		}
		if r.Chance(22) {
			cl.near, cl.far = r.Intn(len(c15ctxs)), r.Intn(len(c15ctxs))*r.Intn(2)
		} else if r.Chance(8) {
			cl.far = r.Intn(len(c15ctxs))
		}
		ss.calls = append(ss.calls, cl)
	}
	return ss
}

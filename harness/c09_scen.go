package main

// C09 scenarios: object graphs over the concurrency-safe API surface, each with a menu
// of operations.  Every operation carries (a) the closure running the REAL zap call and
// (b) the access summaries ("Type.Method" of Gen/AccessFacts.v) it runs on the shared
// objects of the scenario (instance numbers are local to the scenario); objects
// created inside an operation (derived loggers) are private to the goroutine and
// appear only through the shared objects they still reach.

import (
	"context"
	"log/slog"
	"strconv"
	"sync/atomic"
	"time"

	"go.uber.org/zap"
	"go.uber.org/zap/exp/zapslog"
	"go.uber.org/zap/zapcore"
	"go.uber.org/zap/zaptest/observer"
)

var c09scens = []struct {
	name   string
	build  func(warm bool) *c09scen
	shaped func(warm bool, shape string) *c09scen // instead of build: the shared object is derived as the shape says
}{
	{"lazy", c09lazy, nil},
	{"sampler", c09sampler, nil},
	{"tee", c09tee, nil},
	{"io", c09io, nil},
	{"globals", c09globals, nil},
	{"slog", c09slog, nil},
	{"sugar", c09sugar, nil},
	{"sloggroups", nil, c09slogGroups},
	{"edge", c09edge, nil}, // c09_edge.go
}

func c09build(scen int, warm bool, shape string) *c09scen {
	if f := c09scens[scen].shaped; f != nil {
		return f(warm, shape)
	}
	return c09scens[scen].build(warm)
}

// a sink that is NOT safe for concurrent use: whatever wraps it must serialise
type c09sink struct {
	n     int
	syncs int
	last  []byte
}

func (s *c09sink) Write(p []byte) (int, error) {
	s.n += len(p)
	s.last = append(s.last[:0], p...)
	return len(p), nil
}
func (s *c09sink) Sync() error { s.syncs++; return nil }

func c09toggle(lvl zap.AtomicLevel, k int) {
	if k%2 == 0 {
		lvl.SetLevel(zapcore.DebugLevel)
	} else {
		lvl.SetLevel(zapcore.InfoLevel)
	}
}

// ---------------------------------------------------------------- lazy (WithLazy on an observer core)
// instances: 0 Logger (lazy) 1 lazyWithCore 2 contextObserver (wrapped) 3 ObservedLogs
// 4 AtomicLevel 5 SugaredLogger 6 Logger (the sugar's base) 7 contextObserver (built by the once)
func c09lazy(warm bool) *c09scen {
	lvl := zap.NewAtomicLevelAt(zapcore.InfoLevel)
	core, logs := observer.New(lvl)
	base := zap.New(core, zap.WithFatalHook(zapcore.WriteThenPanic))
	l := base.WithLazy(zap.Int("lazy", 1), zap.String("s", "x"))
	if warm {
		l.Info("warm")
	}
	s := l.Sugar()
	en := cat(u(1, "lazyWithCore.Enabled"), u(2, "contextObserver.Enabled"), u(4, "AtomicLevel.Enabled"))
	ck := cat(u(1, "lazyWithCore.Check"), u(7, "contextObserver.Check"), u(4, "AtomicLevel.Enabled"))
	wr := cat(u(7, "contextObserver.Write"), u(3, "ObservedLogs.add"))
	log := func(m string) []c09call { return cat(u(0, m), en, ck, wr) }
	return &c09scen{cleanup: func() {}, ops: []c09op{
		{name: "Info", run: func(g, k int) { l.Info("m", zap.Int("g", g)) }, units: log("Logger.Info"), mut: true},
		{name: "Debug", run: func(g, k int) { l.Debug("d") }, units: log("Logger.Debug"), mut: true},
		{name: "Error", run: func(g, k int) { l.Error("e") }, units: log("Logger.Error"), mut: true},
		{name: "DPanic", run: func(g, k int) { l.DPanic("dp") }, units: cat(u(0, "Logger.DPanic"), ck, wr), mut: true},
		{name: "Panic", run: func(g, k int) { l.Panic("p") }, units: cat(u(0, "Logger.Panic"), ck, wr), mut: true, mayPanic: true},
		{name: "Fatal", run: func(g, k int) { l.Fatal("f") }, units: cat(u(0, "Logger.Fatal"), ck, wr), mut: true, mayPanic: true},
		{name: "Check+Write", run: func(g, k int) {
			if ce := l.Check(zapcore.WarnLevel, "c"); ce != nil {
				ce.Write(zap.Int("k", k))
			}
		}, units: log("Logger.Check"), mut: true},
		{name: "Log", run: func(g, k int) { l.Log(zapcore.InfoLevel, "l") }, units: log("Logger.Log"), mut: true},
		{name: "With.Info", derive: true, run: func(g, k int) { l.With(zap.Int("k", k)).Info("w") },
			units: cat(u(0, "Logger.With"), u(1, "lazyWithCore.With"), u(7, "contextObserver.With"), u(4, "AtomicLevel.Enabled"), u(3, "ObservedLogs.add")), mut: true},
		{name: "WithLazy.Info", derive: true, run: func(g, k int) { l.WithLazy(zap.Int("k", k)).Info("wl") },
			units: cat(u(0, "Logger.WithLazy"), en, u(1, "lazyWithCore.With"), u(7, "contextObserver.With"), u(4, "AtomicLevel.Enabled"), u(3, "ObservedLogs.add")), mut: true},
		{name: "Named.Info", derive: true, run: func(g, k int) { l.Named("n").Info("nm") }, units: cat(u(0, "Logger.Named"), en, ck, wr), mut: true},
		{name: "WithOptions.Info", derive: true, run: func(g, k int) { l.WithOptions(zap.AddCaller()).Info("wo") }, units: cat(u(0, "Logger.WithOptions"), en, ck, wr), mut: true},
		{name: "Level", run: func(g, k int) { _ = l.Level() }, units: cat(u(0, "Logger.Level"), en)},
		{name: "Sync", run: func(g, k int) { _ = l.Sync() }, units: cat(u(0, "Logger.Sync"), u(1, "lazyWithCore.Sync"), u(2, "contextObserver.Sync"))},
		{name: "Core.Enabled", run: func(g, k int) { _ = l.Core().Enabled(zapcore.InfoLevel) }, units: cat(u(0, "Logger.Core"), en)},
		{name: "Core.Write", run: func(g, k int) { _ = l.Core().Write(zapcore.Entry{Level: zapcore.InfoLevel, Message: "cw"}, nil) },
			units: cat(u(0, "Logger.Core"), u(1, "lazyWithCore.Write"), u(7, "contextObserver.Write"), u(3, "ObservedLogs.add")), mut: true},
		{name: "Core.Sync", run: func(g, k int) { _ = l.Core().Sync() }, units: cat(u(0, "Logger.Core"), u(1, "lazyWithCore.Sync"), u(7, "contextObserver.Sync"))},
		{name: "Sugar.Infow", run: func(g, k int) { s.Infow("sm", "k", k) }, units: cat(u(5, "SugaredLogger.Infow"), u(6, "Logger.Check"), en, ck, wr), mut: true},
		{name: "SetLevel", run: func(g, k int) { c09toggle(lvl, k) }, units: u(4, "AtomicLevel.SetLevel"), mut: true},
		{name: "GetLevel", run: func(g, k int) { _ = lvl.Level(); _ = lvl.String() }, units: u(4, "AtomicLevel.Level", "AtomicLevel.String")},
		{name: "Logs.Len+All", run: func(g, k int) { _ = logs.Len(); _ = logs.All() }, units: u(3, "ObservedLogs.Len", "ObservedLogs.All")},
		{name: "Logs.TakeAll", run: func(g, k int) { _ = logs.TakeAll() }, units: u(3, "ObservedLogs.TakeAll"), mut: true},
		{name: "Logs.Filter", run: func(g, k int) { _ = logs.FilterMessage("m").Len(); _ = logs.AllUntimed() }, units: u(3, "ObservedLogs.FilterMessage", "ObservedLogs.AllUntimed")},
	}}
}

// ---------------------------------------------------------------- sampler
// 0 Logger 1 sampler 2 counter (all counters) 3 contextObserver 4 ObservedLogs 5 AtomicLevel
func c09sampler(warm bool) *c09scen {
	lvl := zap.NewAtomicLevelAt(zapcore.InfoLevel)
	core, logs := observer.New(lvl)
	core = core.With([]zapcore.Field{zap.Int("a", 1), zap.Int("b", 2)}).With([]zapcore.Field{zap.Int("c", 3)}) // context: len 3, spare capacity
	var dropped, sampled atomic.Int64
	sc := zapcore.NewSamplerWithOptions(core, time.Millisecond, 2, 3, zapcore.SamplerHook(func(e zapcore.Entry, d zapcore.SamplingDecision) {
		if d&zapcore.LogDropped != 0 {
			dropped.Add(1)
		} else {
			sampled.Add(1)
		}
	}))
	l := zap.New(sc)
	if warm {
		l.Info("m")
		l.Info("m")
	}
	en := cat(u(1, "sampler.Enabled"), u(3, "contextObserver.Enabled"), u(5, "AtomicLevel.Enabled"))
	ck := cat(u(1, "sampler.Check"), u(2, "counter.IncCheckReset"), u(3, "contextObserver.Check"), u(5, "AtomicLevel.Enabled"))
	wr := cat(u(3, "contextObserver.Write"), u(4, "ObservedLogs.add"))
	log := func(m string) []c09call { return cat(u(0, m), en, ck, wr) }
	msgs := []string{"m", "n", "o"}
	return &c09scen{cleanup: func() {}, ops: []c09op{
		{name: "Info-same", run: func(g, k int) { l.Info("m") }, units: log("Logger.Info"), mut: true},
		{name: "Info-varied", run: func(g, k int) { l.Info(msgs[(g+k)%3]) }, units: log("Logger.Info"), mut: true},
		{name: "Warn", run: func(g, k int) { l.Warn("m") }, units: log("Logger.Warn"), mut: true},
		{name: "Debug", run: func(g, k int) { l.Debug("m") }, units: log("Logger.Debug"), mut: true},
		{name: "With.Info", derive: true, run: func(g, k int) { l.With(zap.Int("k", k)).Info("m") },
			units: cat(u(0, "Logger.With"), u(1, "sampler.With"), u(3, "contextObserver.With"), u(2, "counter.IncCheckReset"), u(5, "AtomicLevel.Enabled"), u(4, "ObservedLogs.add")), mut: true},
		{name: "WithLazy.Info", derive: true, run: func(g, k int) { l.WithLazy(zap.Int("k", k)).Info("m") },
			units: cat(u(0, "Logger.WithLazy"), en, u(1, "sampler.With"), u(3, "contextObserver.With"), u(2, "counter.IncCheckReset"), u(4, "ObservedLogs.add")), mut: true},
		{name: "Level", run: func(g, k int) { _ = l.Level() }, units: cat(u(0, "Logger.Level"), u(1, "sampler.Level"), u(3, "contextObserver.Level"), u(5, "AtomicLevel.Level"))},
		{name: "Sync", run: func(g, k int) { _ = l.Sync() }, units: cat(u(0, "Logger.Sync"), u(1, "sampler.Sync"), u(3, "contextObserver.Sync"))},
		{name: "SetLevel", run: func(g, k int) { c09toggle(lvl, k) }, units: u(5, "AtomicLevel.SetLevel"), mut: true},
		{name: "Logs.Len", run: func(g, k int) { _ = logs.Len(); _ = dropped.Load() + sampled.Load() }, units: u(4, "ObservedLogs.Len")},
		{name: "Sleep", run: func(g, k int) { time.Sleep(300 * time.Microsecond) }},
	}}
}

// ---------------------------------------------------------------- tee of observer, hooked observer, level-increased observer
// 0 Logger 1 multiCore 2 contextObserver A 3 logs A 4 hooked 5 contextObserver B 6 logs B
// 7 levelFilterCore 8 contextObserver C 9 logs C 10 AtomicLevel
func c09tee(warm bool) *c09scen {
	lvl := zap.NewAtomicLevelAt(zapcore.InfoLevel)
	ca, la := observer.New(lvl)
	ca = ca.With([]zapcore.Field{zap.Int("a", 1), zap.Int("b", 2)}).With([]zapcore.Field{zap.Int("c", 3)}) // context: len 3, spare capacity
	cb, lb := observer.New(lvl)
	cc, lc := observer.New(zapcore.DebugLevel)
	var hooks atomic.Int64
	hk := zapcore.RegisterHooks(cb, func(zapcore.Entry) error { hooks.Add(1); return nil })
	inc, err := zapcore.NewIncreaseLevelCore(cc, zapcore.WarnLevel)
	if err != nil {
		panic(err)
	}
	l := zap.New(zapcore.NewTee(ca, hk, inc))
	if warm {
		l.Warn("warm")
	}
	en := cat(u(1, "multiCore.Enabled"), u(2, "contextObserver.Enabled"), u(10, "AtomicLevel.Enabled"), u(4, "hooked.Enabled"), u(5, "contextObserver.Enabled"), u(7, "levelFilterCore.Enabled"))
	ck := cat(u(1, "multiCore.Check"), u(2, "contextObserver.Check"), u(4, "hooked.Check"), u(5, "contextObserver.Check"), u(7, "levelFilterCore.Check"), u(8, "contextObserver.Check"), u(10, "AtomicLevel.Enabled"))
	wr := cat(u(2, "contextObserver.Write"), u(3, "ObservedLogs.add"), u(5, "contextObserver.Write"), u(6, "ObservedLogs.add"), u(4, "hooked.Write"), u(8, "contextObserver.Write"), u(9, "ObservedLogs.add"))
	log := func(m string) []c09call { return cat(u(0, m), en, ck, wr) }
	with := cat(u(1, "multiCore.With"), u(2, "contextObserver.With"), u(4, "hooked.With"), u(5, "contextObserver.With"), u(7, "levelFilterCore.With"), u(8, "contextObserver.With"))
	return &c09scen{cleanup: func() {}, ops: []c09op{
		{name: "Info", run: func(g, k int) { l.Info("m", zap.Int("g", g)) }, units: log("Logger.Info"), mut: true},
		{name: "Warn", run: func(g, k int) { l.Warn("w") }, units: log("Logger.Warn"), mut: true},
		{name: "Debug", run: func(g, k int) { l.Debug("d") }, units: log("Logger.Debug"), mut: true},
		{name: "With.Warn", derive: true, run: func(g, k int) { l.With(zap.Int("k", k)).Warn("ww") }, units: cat(u(0, "Logger.With"), with, u(10, "AtomicLevel.Enabled"), u(3, "ObservedLogs.add"), u(6, "ObservedLogs.add"), u(9, "ObservedLogs.add")), mut: true},
		{name: "WithLazy.Warn", derive: true, run: func(g, k int) { l.WithLazy(zap.Int("k", k)).Warn("wl") }, units: cat(u(0, "Logger.WithLazy"), en, with, u(3, "ObservedLogs.add"), u(6, "ObservedLogs.add"), u(9, "ObservedLogs.add")), mut: true},
		{name: "Level", run: func(g, k int) { _ = l.Level() }, units: cat(u(0, "Logger.Level"), u(1, "multiCore.Level"), u(2, "contextObserver.Level"), u(4, "hooked.Level"), u(5, "contextObserver.Level"), u(7, "levelFilterCore.Level"), u(10, "AtomicLevel.Level"))},
		{name: "Sync", run: func(g, k int) { _ = l.Sync() }, units: cat(u(0, "Logger.Sync"), u(1, "multiCore.Sync"), u(2, "contextObserver.Sync"), u(4, "hooked.Sync"), u(5, "contextObserver.Sync"), u(7, "levelFilterCore.Sync"), u(8, "contextObserver.Sync"))},
		{name: "SetLevel", run: func(g, k int) { c09toggle(lvl, k) }, units: u(10, "AtomicLevel.SetLevel"), mut: true},
		{name: "Logs", run: func(g, k int) { _ = la.Len() + lb.Len() + lc.Len(); _ = lb.TakeAll(); _ = hooks.Load() }, units: cat(u(3, "ObservedLogs.Len"), u(6, "ObservedLogs.Len", "ObservedLogs.TakeAll"), u(9, "ObservedLogs.Len")), mut: true},
	}}
}

// ---------------------------------------------------------------- ioCore over Lock(BufferedWriteSyncer(unsafe sink)) and over Lock(unsafe sink)
// 0 Logger 1 multiCore 2 ioCore A 3 lockedWriteSyncer A 4 BufferedWriteSyncer 5 ioCore B
// 6 lockedWriteSyncer B 7 AtomicLevel 8 Pool (encoder/buffer pools)
func c09io(warm bool) *c09scen {
	lvl := zap.NewAtomicLevelAt(zapcore.InfoLevel)
	sinkA, sinkB := &c09sink{}, &c09sink{}
	bws := &zapcore.BufferedWriteSyncer{WS: sinkA, Size: 512, FlushInterval: 200 * time.Microsecond}
	encCfg := zapcore.EncoderConfig{MessageKey: "msg", LevelKey: "level", TimeKey: "ts", EncodeLevel: zapcore.LowercaseLevelEncoder, EncodeTime: zapcore.EpochNanosTimeEncoder, EncodeDuration: zapcore.NanosDurationEncoder}
	coreA := zapcore.NewCore(zapcore.NewJSONEncoder(encCfg), zapcore.Lock(bws), lvl)
	wsB := zapcore.Lock(sinkB)
	coreB := zapcore.NewCore(zapcore.NewConsoleEncoder(encCfg), wsB, lvl)
	l := zap.New(zapcore.NewTee(coreA, coreB), zap.ErrorOutput(wsB))
	if warm {
		l.Info("warm")
	}
	en := cat(u(1, "multiCore.Enabled"), u(2, "ioCore.Enabled"), u(7, "AtomicLevel.Enabled"), u(5, "ioCore.Enabled"))
	ck := cat(u(1, "multiCore.Check"), u(2, "ioCore.Check"), u(5, "ioCore.Check"), u(7, "AtomicLevel.Enabled"))
	wr := cat(u(8, "Pool.Get"), u(2, "ioCore.Write"), u(3, "lockedWriteSyncer.Write"), u(4, "BufferedWriteSyncer.Write"), u(5, "ioCore.Write"), u(6, "lockedWriteSyncer.Write"), u(8, "Pool.Put"))
	sy := cat(u(2, "ioCore.Sync"), u(3, "lockedWriteSyncer.Sync"), u(4, "BufferedWriteSyncer.Sync"), u(5, "ioCore.Sync"), u(6, "lockedWriteSyncer.Sync"))
	log := func(m string) []c09call { return cat(u(0, m), en, ck, wr) }
	return &c09scen{cleanup: func() { _ = bws.Stop() }, ops: []c09op{
		{name: "Info", run: func(g, k int) { l.Info("m", zap.Int("g", g), zap.String("s", "abcdefghijklmnopqrstuvwxyz")) }, units: log("Logger.Info"), mut: true},
		{name: "Error+sync", run: func(g, k int) { l.Error("e") }, units: cat(log("Logger.Error"), sy), mut: true},
		{name: "Debug", run: func(g, k int) { l.Debug("d") }, units: log("Logger.Debug"), mut: true},
		{name: "With.Info", derive: true, run: func(g, k int) { l.With(zap.Int("k", k)).Info("w") }, units: cat(u(0, "Logger.With"), u(1, "multiCore.With"), u(2, "ioCore.With"), u(5, "ioCore.With"), u(8, "Pool.Get"), u(3, "lockedWriteSyncer.Write"), u(4, "BufferedWriteSyncer.Write"), u(6, "lockedWriteSyncer.Write"), u(8, "Pool.Put")), mut: true},
		{name: "WithLazy.Info", derive: true, run: func(g, k int) { l.WithLazy(zap.Int("k", k)).Info("wl") }, units: cat(u(0, "Logger.WithLazy"), en, u(1, "multiCore.With"), u(2, "ioCore.With"), u(5, "ioCore.With"), u(3, "lockedWriteSyncer.Write"), u(4, "BufferedWriteSyncer.Write"), u(6, "lockedWriteSyncer.Write")), mut: true},
		{name: "Sync", run: func(g, k int) { _ = l.Sync() }, units: cat(u(0, "Logger.Sync"), u(1, "multiCore.Sync"), sy), mut: true},
		{name: "BWS.Write", run: func(g, k int) { _, _ = bws.Write([]byte("direct\n")) }, units: u(4, "BufferedWriteSyncer.Write"), mut: true},
		{name: "BWS.Sync", run: func(g, k int) { _ = bws.Sync() }, units: u(4, "BufferedWriteSyncer.Sync"), mut: true},
		{name: "BWS.Stop", run: func(g, k int) { _ = bws.Stop() }, units: u(4, "BufferedWriteSyncer.Stop"), mut: true},
		{name: "Locked.Write", run: func(g, k int) { _, _ = wsB.Write([]byte("x")); _ = wsB.Sync() }, units: u(6, "lockedWriteSyncer.Write", "lockedWriteSyncer.Sync"), mut: true},
		{name: "SetLevel", run: func(g, k int) { c09toggle(lvl, k) }, units: u(7, "AtomicLevel.SetLevel"), mut: true},
		{name: "Sleep", run: func(g, k int) { time.Sleep(400 * time.Microsecond) }},
	}}
}

// ---------------------------------------------------------------- globals
// 0 globals 1 Logger one 2 Logger two 3 contextObserver 4 ObservedLogs 5 AtomicLevel
func c09globals(warm bool) *c09scen {
	lvl := zap.NewAtomicLevelAt(zapcore.InfoLevel)
	core, logs := observer.New(lvl)
	l1 := zap.New(core).Named("one")
	l2 := zap.New(core).Named("two").WithLazy(zap.Int("two", 2))
	if warm {
		zap.ReplaceGlobals(l1)
		zap.L().Info("warm")
	}
	wr := cat(u(3, "contextObserver.Enabled", "contextObserver.Check"), u(5, "AtomicLevel.Enabled"), u(3, "contextObserver.Write"), u(4, "ObservedLogs.add"))
	return &c09scen{cleanup: func() { zap.ReplaceGlobals(zap.NewNop()) }, ops: []c09op{
		{name: "L.Info", run: func(g, k int) { zap.L().Info("m") }, units: cat(u(0, "globals.L"), u(1, "Logger.Info"), wr), mut: true},
		{name: "S.Infow", run: func(g, k int) { zap.S().Infow("m", "k", k) }, units: cat(u(0, "globals.S"), u(1, "Logger.Check"), wr), mut: true},
		{name: "Replace-one", run: func(g, k int) { zap.ReplaceGlobals(l1) }, units: cat(u(0, "globals.ReplaceGlobals"), u(1, "Logger.Sugar")), mut: true},
		{name: "Replace-two", run: func(g, k int) { zap.ReplaceGlobals(l2) }, units: cat(u(0, "globals.ReplaceGlobals"), u(2, "Logger.Sugar")), mut: true},
		{name: "Replace+undo", run: func(g, k int) { undo := zap.ReplaceGlobals(l2); zap.L().Info("in"); undo() }, units: cat(u(0, "globals.ReplaceGlobals", "globals.L"), u(2, "Logger.Info"), wr, u(0, "globals.ReplaceGlobals")), mut: true},
		{name: "L.With.Info", derive: true, run: func(g, k int) { zap.L().With(zap.Int("k", k)).Info("w") }, units: cat(u(0, "globals.L"), u(1, "Logger.With"), u(3, "contextObserver.With"), u(4, "ObservedLogs.add")), mut: true},
		{name: "L.Level", run: func(g, k int) { _ = zap.L().Level(); _ = zap.S().Level() }, units: cat(u(0, "globals.L", "globals.S"), u(1, "Logger.Level"))},
		{name: "Logs.Len", run: func(g, k int) { _ = logs.Len() }, units: u(4, "ObservedLogs.Len")},
	}}
}

// ---------------------------------------------------------------- slog handler
// 0 Handler 1 contextObserver 2 ObservedLogs 3 AtomicLevel
func c09slog(warm bool) *c09scen {
	lvl := zap.NewAtomicLevelAt(zapcore.InfoLevel)
	core, logs := observer.New(lvl)
	h := zapslog.NewHandler(core, zapslog.WithName("n"), zapslog.WithCaller(true))
	sl := slog.New(h)
	if warm {
		sl.Info("warm")
	}
	hd := cat(u(0, "Handler.Enabled"), u(1, "contextObserver.Enabled"), u(3, "AtomicLevel.Enabled"), u(0, "Handler.Handle"), u(1, "contextObserver.Check", "contextObserver.Write"), u(2, "ObservedLogs.add"))
	ctx := context.Background()
	return &c09scen{cleanup: func() {}, ops: []c09op{
		{name: "Info", run: func(g, k int) { sl.Info("m", "g", g, "k", k) }, units: hd, mut: true},
		{name: "Error+stack", run: func(g, k int) { sl.Error("e", slog.Group("grp", slog.Int("a", 1))) }, units: hd, mut: true},
		{name: "Debug", run: func(g, k int) { sl.Debug("d") }, units: cat(u(0, "Handler.Enabled"), u(1, "contextObserver.Enabled"), u(3, "AtomicLevel.Enabled"))},
		{name: "With.Info", derive: true, run: func(g, k int) { sl.With("a", k).Info("w") }, units: cat(u(0, "Handler.WithAttrs"), u(1, "contextObserver.With"), u(3, "AtomicLevel.Enabled"), u(2, "ObservedLogs.add")), mut: true},
		{name: "WithGroup.Info", derive: true, run: func(g, k int) { sl.WithGroup("g").With("a", 1).Info("wg", "b", 2) }, units: cat(u(0, "Handler.WithGroup"), u(1, "contextObserver.With"), u(3, "AtomicLevel.Enabled"), u(2, "ObservedLogs.add")), mut: true},
		{name: "Enabled", run: func(g, k int) { _ = h.Enabled(ctx, slog.LevelDebug) }, units: cat(u(0, "Handler.Enabled"), u(1, "contextObserver.Enabled"), u(3, "AtomicLevel.Enabled"))},
		{name: "SetLevel", run: func(g, k int) { c09toggle(lvl, k) }, units: u(3, "AtomicLevel.SetLevel"), mut: true},
		{name: "Logs.TakeAll", run: func(g, k int) { _ = logs.TakeAll() }, units: u(2, "ObservedLogs.TakeAll"), mut: true},
	}}
}

// ---------------------------------------------------------------- SugaredLogger
// 0 SugaredLogger 1 Logger (base) 2 contextObserver 3 ObservedLogs 4 AtomicLevel
func c09sugar(warm bool) *c09scen {
	lvl := zap.NewAtomicLevelAt(zapcore.InfoLevel)
	core, logs := observer.New(lvl)
	s := zap.New(core, zap.AddCaller()).Sugar()
	if warm {
		s.Info("warm")
	}
	ck := cat(u(1, "Logger.Check"), u(2, "contextObserver.Enabled", "contextObserver.Check"), u(4, "AtomicLevel.Enabled"), u(2, "contextObserver.Write"), u(3, "ObservedLogs.add"))
	log := func(m string) []c09call { return cat(u(0, m), ck) }
	return &c09scen{cleanup: func() {}, ops: []c09op{
		{name: "Info", run: func(g, k int) { s.Info("m", g, k) }, units: log("SugaredLogger.Info"), mut: true},
		{name: "Infof", run: func(g, k int) { s.Infof("m %d %d", g, k) }, units: log("SugaredLogger.Infof"), mut: true},
		{name: "Infow", run: func(g, k int) { s.Infow("m", "g", g, "k", k) }, units: log("SugaredLogger.Infow"), mut: true},
		{name: "Infoln", run: func(g, k int) { s.Infoln("m", g, k) }, units: log("SugaredLogger.Infoln"), mut: true},
		{name: "Errorw-dangling", run: func(g, k int) { s.Errorw("e", "dangling") }, units: cat(log("SugaredLogger.Errorw"), ck), mut: true},
		{name: "Debugw", run: func(g, k int) { s.Debugw("d", "k", k) }, units: log("SugaredLogger.Debugw"), mut: true},
		{name: "Panicw", run: func(g, k int) { s.Panicw("p", "k", k) }, units: log("SugaredLogger.Panicw"), mut: true, mayPanic: true},
		{name: "DPanicf", run: func(g, k int) { s.DPanicf("dp %d", k) }, units: log("SugaredLogger.DPanicf"), mut: true},
		{name: "Logw", run: func(g, k int) { s.Logw(zapcore.WarnLevel, "lw", "k", k) }, units: log("SugaredLogger.Logw"), mut: true},
		{name: "With.Info", derive: true, run: func(g, k int) { s.With("k", k).Info("w") }, units: cat(u(0, "SugaredLogger.With"), u(1, "Logger.With"), u(2, "contextObserver.With"), u(4, "AtomicLevel.Enabled"), u(3, "ObservedLogs.add")), mut: true},
		{name: "WithLazy.Info", derive: true, run: func(g, k int) { s.WithLazy("k", k).Info("wl") }, units: cat(u(0, "SugaredLogger.WithLazy"), u(1, "Logger.WithLazy"), u(2, "contextObserver.Enabled", "contextObserver.With"), u(4, "AtomicLevel.Enabled"), u(3, "ObservedLogs.add")), mut: true},
		{name: "Named.Info", derive: true, run: func(g, k int) { s.Named("n").Info("nm") }, units: cat(u(0, "SugaredLogger.Named"), u(1, "Logger.Named"), ck), mut: true},
		{name: "Desugar.Info", derive: true, run: func(g, k int) { s.Desugar().Info("ds") }, units: cat(u(0, "SugaredLogger.Desugar"), ck), mut: true},
		{name: "WithOptions.Info", derive: true, run: func(g, k int) { s.WithOptions(zap.AddCallerSkip(0)).Info("wo") }, units: cat(u(0, "SugaredLogger.WithOptions"), u(1, "Logger.WithOptions"), ck), mut: true},
		{name: "Level+Sync", run: func(g, k int) { _ = s.Level(); _ = s.Sync() }, units: cat(u(0, "SugaredLogger.Level", "SugaredLogger.Sync"), u(1, "Logger.Level", "Logger.Sync"), u(2, "contextObserver.Level", "contextObserver.Sync"), u(4, "AtomicLevel.Level"))},
		{name: "SetLevel", run: func(g, k int) { c09toggle(lvl, k) }, units: u(4, "AtomicLevel.SetLevel"), mut: true},
		{name: "Logs.All", run: func(g, k int) { _ = logs.All() }, units: u(3, "ObservedLogs.All")},
	}}
}

// ---------------------------------------------------------------- slog handler with pending groups, and its siblings
// The shared handler H is derived from a new handler as the shape says, one step per letter:
//
//	g  WithGroup(name)                 one more pending (not yet applied) group
//	a  WithAttrs(one real attr)        applies the pending groups (the namespaces go to the core): none pending afterwards
//	e  WithAttrs(an empty group attr)  converts to a skipped field: the pending groups stay pending
//	n  WithAttrs(nil)                  likewise
//
// so "ggg" is a handler with three pending groups, "gaggeg" one applied and three pending.
// S1 and S2 are siblings derived from H (WithGroup) before the goroutines start, C is a child of
// S1.  The operations derive further siblings from H, S1 and S2 and log through every one of them:
// whatever a derived handler inherits from its parent (the pending names, the core's context) is
// shared with the parent and with all its siblings and must never be written through.
// instances: 0 Handler H 1 contextObserver (H's core) 2 ObservedLogs 3 AtomicLevel
// 4 Handler S1 5 Handler S2 6 Handler C
func c09slogGroups(warm bool, shape string) *c09scen {
	lvl := zap.NewAtomicLevelAt(zapcore.InfoLevel)
	core, logs := observer.New(lvl)
	var h slog.Handler = zapslog.NewHandler(core, zapslog.WithName("n"))
	for i := 0; i < len(shape); i++ {
		switch shape[i] {
		case 'g':
			h = h.WithGroup("p" + strconv.Itoa(i))
		case 'a':
			h = h.WithAttrs([]slog.Attr{slog.Int("a"+strconv.Itoa(i), i)})
		case 'e':
			h = h.WithAttrs([]slog.Attr{slog.Group("e" + strconv.Itoa(i))})
		case 'n':
			h = h.WithAttrs(nil)
		default:
			panic("c09slogGroups: unknown shape letter " + shape[i:i+1])
		}
	}
	s1 := h.WithGroup("s1")
	s2 := h.WithGroup("s2")
	ch := s1.WithGroup("c")
	if warm {
		slog.New(h).Info("warm", "a", 1)
		slog.New(s1).Info("warm", "a", 1)
		slog.New(ch).Info("warm")
	}
	nm := func(g, k int) string { return "g" + strconv.Itoa(g) + "k" + strconv.Itoa(k) }
	ctx := context.Background()
	via := cat(u(1, "contextObserver.Enabled"), u(3, "AtomicLevel.Enabled"), u(1, "contextObserver.Check", "contextObserver.Write"), u(2, "ObservedLogs.add"))
	hd := func(inst int) []c09call {
		return cat(u(inst, "Handler.Enabled"), u(1, "contextObserver.Enabled"), u(3, "AtomicLevel.Enabled"), u(inst, "Handler.Handle"), u(1, "contextObserver.Check", "contextObserver.Write"), u(2, "ObservedLogs.add"))
	}
	with := cat(u(1, "contextObserver.With"), u(3, "AtomicLevel.Enabled"), u(2, "ObservedLogs.add"))
	return &c09scen{cleanup: func() {}, ops: []c09op{
		{name: "Info", run: func(g, k int) { slog.New(h).Info("m", "g", g, "k", k) }, units: hd(0), mut: true},
		{name: "WithGroup.Info", derive: true, run: func(g, k int) { slog.New(h.WithGroup(nm(g, k))).Info("wg", "b", 2) },
			units: cat(u(0, "Handler.WithGroup"), via), mut: true},
		{name: "WithGroup", derive: true, run: func(g, k int) { _ = h.WithGroup(nm(g, k)) }, units: u(0, "Handler.WithGroup")},
		{name: "WithGroup.With.Info", derive: true, run: func(g, k int) { slog.New(h).WithGroup(nm(g, k)).With("a", k).Info("wa", "b", 1) },
			units: cat(u(0, "Handler.WithGroup"), with), mut: true},
		{name: "WithGroup-chain.Info", derive: true, run: func(g, k int) {
			p := h.WithGroup(nm(g, k)) // a sibling of everything else derived from H ...
			q := p.WithGroup("q").WithGroup("r")
			slog.New(q).Info("q", "b", 1)
			slog.New(q.WithGroup("s")).Info("s", "b", 2) // ... and private siblings below it
			slog.New(q.WithGroup("t")).Info("t", "b", 3)
		}, units: cat(u(0, "Handler.WithGroup"), via, via, via), mut: true},
		{name: "With.Info", derive: true, run: func(g, k int) { slog.New(h).With("a", k).Info("w") },
			units: cat(u(0, "Handler.WithAttrs"), with), mut: true},
		{name: "WithEmpty.WithGroup.Info", derive: true, run: func(g, k int) {
			slog.New(h.WithAttrs([]slog.Attr{slog.Group("e")}).WithGroup(nm(g, k))).Info("we", "b", 1)
		}, units: cat(u(0, "Handler.WithAttrs"), with), mut: true},
		{name: "Info-noattrs", run: func(g, k int) { slog.New(h).Info("m") }, units: hd(0), mut: true},
		{name: "Sib1.Info", run: func(g, k int) { slog.New(s1).Info("s1", "g", g) }, units: hd(4), mut: true},
		{name: "Sib2.With.Info", derive: true, run: func(g, k int) { slog.New(s2).With("a", k).Info("s2") },
			units: cat(u(5, "Handler.WithAttrs"), with), mut: true},
		{name: "Sib1.WithGroup.Info", derive: true, run: func(g, k int) { slog.New(s1.WithGroup(nm(g, k))).Info("s1g", "b", 1) },
			units: cat(u(4, "Handler.WithGroup"), via), mut: true},
		{name: "Child.Info", run: func(g, k int) { slog.New(ch).Info("c", "g", g) }, units: hd(6), mut: true},
		{name: "Enabled", run: func(g, k int) { _ = h.Enabled(ctx, slog.LevelDebug); _ = s1.Enabled(ctx, slog.LevelInfo) },
			units: cat(u(0, "Handler.Enabled"), u(4, "Handler.Enabled"), u(1, "contextObserver.Enabled", "contextObserver.Enabled"), u(3, "AtomicLevel.Enabled", "AtomicLevel.Enabled"))},
		{name: "SetLevel", run: func(g, k int) { c09toggle(lvl, k) }, units: u(3, "AtomicLevel.SetLevel"), mut: true},
		{name: "Logs.TakeAll", run: func(g, k int) { _ = logs.TakeAll() }, units: u(2, "ObservedLogs.TakeAll"), mut: true},
	}}
}
